import DmrVerif.Lemmas.MbxmlF

/-!
# Lemmas for C14: latitude, longitude, info-time and the decoding formulas of the XML view
-/

namespace Dmr.Mbxml

theorem pow256_pos (n : Nat) : 0 < 256 ^ n := Nat.pow_pos (by omega)

theorem beFold_beBytes (v : Nat) : ∀ (n acc : Nat),
    (beBytes n v).foldl (fun a x => a * 256 + x) acc = acc * 256 ^ n + v % 256 ^ n := by
  intro n
  induction n with
  | zero => intro acc; simp [beBytes, Nat.mod_one]
  | succ n ih =>
    intro acc
    rw [beBytes, List.foldl_cons, ih, Nat.pow_succ, Nat.mod_mul, Nat.add_mul]
    have e1 : acc * 256 * 256 ^ n = acc * (256 ^ n * 256) := by
      rw [Nat.mul_assoc, Nat.mul_comm 256]
    have e2 : v / 256 ^ n % 256 * 256 ^ n = 256 ^ n * (v / 256 ^ n % 256) := Nat.mul_comm _ _
    rw [e1, e2]
    omega

/-- `int.from_bytes(v.to_bytes(n, "big"), "big") = v` when `v` fits -/
theorem beNat_beBytes (n v : Nat) (h : v < 256 ^ n) : beNat (beBytes n v) = v := by
  unfold beNat
  rw [beFold_beBytes, Nat.mod_eq_of_lt h]; omega

theorem beBytes_length (v : Nat) : ∀ n, (beBytes n v).length = n := by
  intro n; induction n with
  | zero => rfl
  | succ n ih => simp [beBytes, ih]

theorem toBytes_nat (n v : Nat) (h : v < 256 ^ n) : toBytes n (v : Int) = .ok (beBytes n v) := by
  have h1 : ¬ ((v : Int) < 0) := by omega
  have h2 : ¬ (v ≥ 256 ^ n) := by omega
  simp only [toBytes, h1, if_false, Int.toNat_natCast, h2]

/-! ## latitude / longitude -/

theorem writeLat_eq (m : Nat) (h : m < 90000000) :
    writeLat (m : Int) = .ok (beBytes 4 (m * 16777216 / 703125)) := by
  have h1 : ¬ ((m : Int) = 90000000) := by omega
  have h2 : Int.tdiv ((m : Int) * 16777216) 703125 = ((m * 16777216 / 703125 : Nat) : Int) := by
    rw [Int.tdiv_eq_ediv_of_nonneg (by omega)]; omega
  simp only [writeLat, h1, if_false, h2]
  exact toBytes_nat 4 _ (by simp; omega)

theorem writeLat_90 : writeLat 90000000 = .ok (beBytes 4 2147483647) := by
  simp only [writeLat, if_true]
  exact toBytes_nat 4 2147483647 (by simp)

theorem writeLon_eq (m : Nat) (h : m < 360000000) :
    writeLon (m : Int) = .ok (beBytes 4 (m * 8388608 / 703125)) := by
  have h2 : Int.tdiv ((m : Int) * 8388608) 703125 = ((m * 8388608 / 703125 : Nat) : Int) := by
    rw [Int.tdiv_eq_ediv_of_nonneg (by omega)]; omega
  simp only [writeLon, h2]
  exact toBytes_nat 4 _ (by simp; omega)

/-- if `L = ⌊m·D/703125⌋` then `L·703125/D` rounds to `m` (`D` = 2^24 or 2^23: the quotient is below
`m` by less than `703125/D < 1/2`) -/
theorem round_back (m D : Nat) (hD : 2 * 703125 < D) :
    roundHalfEven (m * D / 703125 * 703125) D = m := by
  have key : ∀ L : Nat, L * 703125 ≤ m * D → m * D < L * 703125 + 703125 →
      roundHalfEven (L * 703125) D = m := by
    intro L h1 h2
    unfold roundHalfEven
    simp only []
    generalize hq : L * 703125 / D = q
    generalize hr : L * 703125 % D = r
    have hdm : D * q + r = L * 703125 := by rw [← hq, ← hr]; exact Nat.div_add_mod _ _
    have hrlt : r < D := by rw [← hr]; exact Nat.mod_lt _ (by omega)
    have hq1 : q ≤ m :=
      Nat.le_of_mul_le_mul_left (c := D) (by rw [Nat.mul_comm D m]; omega) (by omega)
    have hq2 : m < q + 2 :=
      Nat.lt_of_mul_lt_mul_left (a := D) (by rw [Nat.mul_comm D m, Nat.mul_add]; omega)
    rcases Nat.lt_or_ge q m with hlt | hge
    · have hqm : m = q + 1 := by omega
      subst hqm
      rw [Nat.add_mul, Nat.one_mul, Nat.mul_comm q D] at h1 h2
      have : 2 * r > D := by omega
      simp [this]
    · have hqm : q = m := by omega
      subst hqm
      rw [Nat.mul_comm q D] at h1 h2
      have h3 : ¬ (2 * r > D) := by omega
      have h4 : ¬ (2 * r = D ∧ q % 2 = 1) := by omega
      simp [h3, h4]
  apply key
  · exact Nat.div_mul_le_self _ _
  · have := Nat.lt_div_mul_add (a := m * D) (b := 703125) (by omega)
    omega

theorem lat_round (m : Nat) : roundHalfEven (m * 16777216 / 703125 * 703125) 16777216 = m :=
  round_back m 16777216 (by omega)

theorem lat_round_90 : roundHalfEven (2147483647 * 703125) 16777216 = 90000000 := by decide

theorem lon_round (m : Nat) : roundHalfEven (m * 8388608 / 703125 * 703125) 8388608 = m :=
  round_back m 8388608 (by omega)

/-! ## info-time -/

theorem daysInMonth_le (y m : Nat) : daysInMonth y m ≤ 31 := by
  unfold daysInMonth
  split
  · split <;> omega
  · split <;> omega

theorem DateTime.valid_ranges (t : DateTime) (h : t.valid = true) :
    1 ≤ t.year ∧ t.year ≤ 9999 ∧ 1 ≤ t.month ∧ t.month ≤ 12 ∧ 1 ≤ t.day ∧ t.day ≤ 31 ∧ t.hour ≤ 23
      ∧ t.minute ≤ 59 ∧ t.second ≤ 59 := by
  simp only [DateTime.valid, Bool.and_eq_true, decide_eq_true_eq] at h
  have := daysInMonth_le t.year t.month
  omega

/-- the packed number of `write_infotime` -/
def infotimeNat (t : DateTime) : Nat :=
  t.year * 2 ^ 26 + t.month * 2 ^ 22 + t.day * 2 ^ 17 + t.hour * 2 ^ 12 + t.minute * 2 ^ 6 + t.second

theorem infotime_fields (t : DateTime) (hy : t.year < 16384) (hm : t.month < 16) (hd : t.day < 32)
    (hh : t.hour < 32) (hmi : t.minute < 64) (hs : t.second < 64) :
    infotimeNat t < 256 ^ 5 ∧
    (⟨infotimeNat t / 2 ^ 26, infotimeNat t / 2 ^ 22 % 16, infotimeNat t / 2 ^ 17 % 32,
      infotimeNat t / 2 ^ 12 % 32, infotimeNat t / 2 ^ 6 % 64, infotimeNat t % 64⟩ : DateTime) = t := by
  obtain ⟨y, mo, d, h, mi, s⟩ := t
  simp only [infotimeNat] at *
  refine ⟨by omega, ?_⟩
  congr 1 <;> omega

end Dmr.Mbxml
