import DmrVerif.Model.Elem
import DmrVerif.Gen.Elements

/-!
Consequences of the decidable check `Elem.total` (and `Elem.onlyValueErrors`) of an extracted element
graph, in the form the PDU round-trip proofs use them.
-/

namespace Dmr
namespace Elem

/-- every error in the graph is a `ValueError` (no assertion can fire inside the bit width) -/
def onlyValueErrors (E : Elem) : Bool :=
  E.graph.all (fun r => match r with
    | .member _ => true
    | .valueError => true
    | _ => false)

/-- no value of the bit width raises: the element is total in the strict sense -/
def noErrors (E : Elem) : Bool :=
  E.graph.all (fun r => match r with
    | .member _ => true
    | _ => false)

theorem total_members {E : Elem} (hE : E.total = true) {v : Nat} (h : E.defined v = true) :
    v < 2 ^ E.w ∧ E.lookup v = .member v := by
  simp only [total, Bool.and_eq_true, List.all_eq_true] at hE
  obtain ⟨⟨⟨⟨⟨_, _⟩, hm⟩, _⟩, _⟩, _⟩ := hE
  have := hm v (by simpa [defined] using h)
  simpa using this

theorem dec_defined {E : Elem} (hE : E.total = true) {v : Nat} (h : E.defined v = true) :
    E.dec v = .ok v := by
  simp [dec, (total_members hE h).2]

theorem lt_of_defined {E : Elem} (hE : E.total = true) {v : Nat} (h : E.defined v = true) :
    v < 2 ^ E.w := (total_members hE h).1

theorem lookup_mem {E : Elem} {v : Nat} {r : ElemRes} (h : E.lookup v = r) (hr : r ≠ .nothing) :
    r ∈ E.graph := by
  unfold lookup at h
  by_cases hv : v < E.graph.length
  · rw [List.getD_eq_getElem?_getD, List.getElem?_eq_getElem hv, Option.getD_some] at h
    exact h ▸ List.getElem_mem hv
  · rw [List.getD_eq_getElem?_getD, List.getElem?_eq_none (by omega), Option.getD_none] at h
    exact absurd h.symm hr

/-- whatever a value decodes to is a defined member (which then decodes to itself) -/
theorem defined_of_dec {E : Elem} (hE : E.total = true) {v m : Nat} (h : E.dec v = .ok m) :
    E.defined m = true := by
  have hl : E.lookup v = .member m := by
    unfold dec at h
    split at h <;> first | (injection h with h; subst h; assumption) | (exact absurd h (by simp))
  have hmem := lookup_mem hl (by simp)
  simp only [total, Bool.and_eq_true, List.all_eq_true] at hE
  obtain ⟨⟨⟨⟨⟨_, _⟩, _⟩, hg⟩, _⟩, _⟩ := hE
  have := hg _ hmem
  simp only [Bool.and_eq_true] at this
  exact this.1.1

theorem dec_idem {E : Elem} (hE : E.total = true) {v m : Nat} (h : E.dec v = .ok m) : E.dec m = .ok m :=
  dec_defined hE (defined_of_dec hE h)

/-- the only error an element decode can raise is `ValueError` -/
theorem err_valueError {E : Elem} (hE : E.onlyValueErrors = true) {v : Nat} {e : Err}
    (h : E.dec v = .error e) : e = .valueError := by
  unfold dec at h
  split at h
  · exact absurd h (by simp)
  · injection h with h; exact h.symm
  · rename_i hl
    have hmem := lookup_mem hl (by simp)
    simp only [onlyValueErrors, List.all_eq_true] at hE
    exact absurd (hE _ hmem) (by simp)
  · rename_i hl
    have hmem := lookup_mem hl (by simp)
    simp only [onlyValueErrors, List.all_eq_true] at hE
    exact absurd (hE _ hmem) (by simp)
  · injection h with h; exact h.symm

/-- an element without error entries decodes every value of its width -/
theorem dec_total {E : Elem} (hE : E.total = true) (hN : E.noErrors = true) {v : Nat} (hv : v < 2 ^ E.w) :
    ∃ m, E.dec v = .ok m := by
  have hlen : E.graph.length = 2 ^ E.w := by
    simp only [total, Bool.and_eq_true, beq_iff_eq] at hE
    exact hE.1.1.1.1.1
  have hmem : E.lookup v ∈ E.graph := by
    unfold lookup
    rw [List.getD_eq_getElem?_getD, List.getElem?_eq_getElem (by omega), Option.getD_some]
    exact List.getElem_mem _
  simp only [noErrors, List.all_eq_true] at hN
  have := hN _ hmem
  unfold dec
  split <;> simp_all

end Elem
end Dmr

namespace Dmr
open Dmr.Gen

/-! ## the extracted graphs satisfy the checks (kernel-decided, re-checked whenever `/repo` changes) -/

theorem allElems_total : allElems.all Elem.total = true := by decide +kernel

theorem allElems_onlyValueErrors : allElems.all Elem.onlyValueErrors = true := by decide +kernel

theorem Elem.total_of_mem {E : Elem} (h : E ∈ allElems) : E.total = true :=
  List.all_eq_true.mp allElems_total E h

theorem Elem.onlyValueErrors_of_mem {E : Elem} (h : E ∈ allElems) : E.onlyValueErrors = true :=
  List.all_eq_true.mp allElems_onlyValueErrors E h


theorem Elem.err_valueError_mem {E : Elem} {v : Nat} {e : Err} (h : E.dec v = .error e) (hm : E ∈ allElems) :
    e = .valueError := Elem.err_valueError (Elem.onlyValueErrors_of_mem hm) h

theorem Elem.defined_of_dec_mem {E : Elem} {v m : Nat} (h : E.dec v = .ok m) (hm : E ∈ allElems) :
    E.defined m = true := Elem.defined_of_dec (Elem.total_of_mem hm) h

end Dmr
