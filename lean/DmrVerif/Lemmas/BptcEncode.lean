import DmrVerif.Lemmas.BptcViews
import DmrVerif.Lemmas.Codes

/-!
The table produced by `BPTC19696.encode` is a product code word: after the row generator and the
column generator **every row is a Hamming(15,11,3) code word and every column is a Hamming(13,9,3)
code word**, and the 9×11 data block is untouched.  Structural proof for an arbitrary filled table
(no enumeration over messages): the columns are code words by construction; row `r'` of the result is
the GF(2) combination of the first nine (code word) rows selected by column `r'` of the (13,9)
generator matrix, and code words are closed under combinations.
-/

namespace Dmr
open Dmr.Code

theorem getBit_gen (C : Code) (m : Bits) (j : Nat) (hj : j < C.n) :
    getBit (C.gen m) j = dot (col C.G j) m := by
  rw [getBit_eq_getElem _ _ (by simpa [Code.gen] using hj)]
  simp [Code.gen]

theorem syndrome_zeros (C : Code) (n : Nat) : C.syndrome (zeros n) = zeros C.H.length := by
  unfold Code.syndrome
  induction C.H with
  | nil => rfl
  | cons x xs ih => rw [List.map_cons, ih, dot_zeros_left]; simp

/-- code words are closed under GF(2) combinations -/
theorem syndrome_combo (C : Code) (rows : List Bits) (a : Bits)
    (hr : ∀ r ∈ rows, r.length = C.n ∧ C.syndrome r = zeros C.H.length) :
    C.syndrome (combo C.n rows a) = zeros C.H.length := by
  induction rows generalizing a with
  | nil => simp [combo, syndrome_zeros]
  | cons r rs ih => cases a with
    | nil => simp [combo, syndrome_zeros]
    | cons b a =>
      have hr' : ∀ x ∈ rs, x.length = C.n ∧ C.syndrome x = zeros C.H.length :=
        fun x hx => hr x (by simp [hx])
      obtain ⟨hl, hs⟩ := hr r (by simp)
      have hcl := combo_length C.n rs a (fun x hx => (hr' x hx).1)
      rw [combo, syndrome_xor _ _ (by cases b <;> simp [hl, hcl]), ih a hr']
      cases b
      · simp [syndrome_zeros, xorBits_self]
      · simp only [if_true, hs]
        simpa using xorBits_self (zeros C.H.length)

namespace Bptc
open Dmr.Gen

theorem getBit_col (M : List Bits) (j i : Nat) :
    getBit (col M j) i = getBit (M.getD i []) j := by
  simp only [col, getBit, List.getD_eq_getElem?_getD, List.getElem?_map]
  cases M[i]? <;> simp

/-- transposing twice -/
theorem tr_tr (m n : Nat) (M : List Bits) (h : Shape m n M) : tr m (tr n M) = M := by
  apply List.ext_getElem
  · simp [tr, h.1]
  · intro i h1 h2
    simp only [tr, List.getElem_map, List.getElem_range]
    have hl : M[i].length = n := h.2 _ (List.getElem_mem h2)
    apply List.ext_getElem
    · simp [col, hl]
    · intro j h3 h4
      have hj : j < n := by simpa [col] using h3
      simp only [col, List.map_map, List.getElem_map, List.getElem_range, Function.comp]
      rw [getBit_eq_getElem _ _ (by simpa using h2)]
      simp only [List.getElem_map]
      exact getBit_eq_getElem _ _ h4

theorem getBit_rowsOf (t : Bits) (r c : Nat) (hr : r < 13) (hc : c < 15) :
    getBit ((rowsOf t).getD r []) c = getBit t (15 * r + c) := by
  have h1 : r < (rowsOf t).length := by rw [rowsOf_length]; exact hr
  rw [List.getD_eq_getElem?_getD, List.getElem?_eq_getElem h1, Option.getD_some]
  simp only [rowsOf, List.getElem_map, rowIdx_getElem r hr, gather, List.map_map]
  rw [getBit_eq_getElem _ _ (by simpa using hc)]
  simp

/-- the row generator of `encode` -/
def genRow (r : Bits) : Bits := h15113.gen (r.take 11)
/-- the column generator of `encode` -/
def genCol (c : Bits) : Bits := h1393.gen (c.take 9)

theorem genRow_length (r : Bits) : (genRow r).length = 15 := Code.gen_length _
theorem genCol_length (c : Bits) : (genCol c).length = 13 := Code.gen_length _

/-- the table after both generators -/
def product (F : Bits) : Bits := mapCols genCol (mapRows genRow F)

theorem encodeTable_eq (mapping : List (Nat × Nat)) (m : Bits) :
    encodeTable mapping m = product (fillCore mapping m) := rfl

theorem product_length (F : Bits) : (product F).length = 195 := mapCols_length _ _

theorem rowsOf_product (F : Bits) :
    rowsOf (product F) = tr 13 ((tr 15 ((rowsOf F).map genRow)).map genCol) := by
  rw [product, rowsOf_mapCols _ (fun b _ => genCol_length b), rowsOf_mapRows _ (fun b _ => genRow_length b)]

theorem colsOf_product (F : Bits) :
    colsOf (product F) = (tr 15 ((rowsOf F).map genRow)).map genCol := by
  rw [colsOf_eq_tr, rowsOf_product, tr_tr]
  have := shape_map genCol (fun b _ => genCol_length b) (tr_shape 15 ((rowsOf F).map genRow))
  simpa [rowsOf_length] using this

/-- every column of the encoder's table is a Hamming(13,9,3) code word -/
theorem product_cols (h13 : h1393.WFProp) (F : Bits) :
    ∀ cv ∈ colsOf (product F), cv.length = 13 ∧ h1393.check cv = true := by
  intro cv hcv
  rw [colsOf_product] at hcv
  simp only [List.mem_map] at hcv
  obtain ⟨x, hx, rfl⟩ := hcv
  have hxl : x.length = 13 := by
    have := (tr_shape 15 ((rowsOf F).map genRow)).2 x hx
    simpa [rowsOf_length] using this
  exact ⟨genCol_length x, Code.check_gen h13 _ (by simp [hxl]; rfl)⟩

/-- row `r'` of the encoder's table is the combination of the first nine rows (after the row
generator) selected by column `r'` of the (13,9) generator matrix -/
theorem product_row_eq (h13 : h1393.WFProp) (F : Bits) (r' : Nat) (hr' : r' < 13) :
    (rowsOf (product F)).getD r' [] = combo 15 (((rowsOf F).map genRow).take 9) (col h1393.G r') := by
  have hlen : r' < (rowsOf (product F)).length := by rw [rowsOf_length]; exact hr'
  rw [List.getD_eq_getElem?_getD, List.getElem?_eq_getElem hlen, Option.getD_some]
  simp only [rowsOf_product, tr, List.getElem_map, List.getElem_range]
  have hrows : ∀ r ∈ ((rowsOf F).map genRow).take 9, r.length = 15 := by
    intro r hr
    have := List.mem_of_mem_take hr
    simp only [List.mem_map] at this
    obtain ⟨x, _, rfl⟩ := this
    exact genRow_length x
  rw [← genRows_eq_combo 15 _ _ hrows (by simp [col_length, h13.glen, rowsOf_length]; rfl)]
  simp only [col, List.map_map]
  apply List.map_congr_left
  intro c' _
  simp only [Function.comp]
  have : r' < h1393.n := hr'
  rw [genCol, getBit_gen _ _ _ this, dot_comm, ← List.map_take]
  rfl

/-- every row of the encoder's table is a Hamming(15,11,3) code word -/
theorem product_rows (h15 : h15113.WFProp) (h13 : h1393.WFProp) (F : Bits) :
    ∀ rv ∈ rowsOf (product F), rv.length = 15 ∧ h15113.check rv = true := by
  intro rv hrv
  obtain ⟨r', hr', heq⟩ := List.getElem_of_mem hrv
  have hr13 : r' < 13 := by rwa [rowsOf_length] at hr'
  have e : rv = (rowsOf (product F)).getD r' [] := by
    rw [← heq, List.getD_eq_getElem?_getD, List.getElem?_eq_getElem hr', Option.getD_some]
  refine ⟨(rowsOf_shape _).2 _ hrv, ?_⟩
  rw [e, product_row_eq h13 F r' hr13]
  have hH : h15113.H.length = 4 := rfl
  have := syndrome_combo h15113 (((rowsOf F).map genRow).take 9) (col h1393.G r') (by
    intro r hr
    have := List.mem_of_mem_take hr
    simp only [List.mem_map] at this
    obtain ⟨x, hx, rfl⟩ := this
    have hxl : x.length = 15 := (rowsOf_shape F).2 x hx
    refine ⟨genRow_length x, ?_⟩
    have := Code.syndrome_gen h15 (x.take 11) (by simp [hxl]; rfl)
    rw [genRow, this, hH]; rfl)
  unfold Code.check
  rw [show (15 : Nat) = h15113.n from rfl, this, h15.s0, hH]
  rfl

/-- the data block (rows 0..8, columns 0..10) passes through both generators unchanged -/
theorem product_data (h15 : h15113.WFProp) (h13 : h1393.WFProp) (F : Bits) (r c : Nat)
    (hr : r < 9) (hc : c < 11) : getBit (product F) (15 * r + c) = getBit F (15 * r + c) := by
  have hr13 : r < 13 := by omega
  have hc15 : c < 15 := by omega
  rw [← getBit_rowsOf (product F) r c hr13 hc15, ← getBit_rowsOf F r c hr13 hc15]
  have hlen : r < (rowsOf (product F)).length := by rw [rowsOf_length]; exact hr13
  have hlenF : r < (rowsOf F).length := by rw [rowsOf_length]; exact hr13
  rw [List.getD_eq_getElem?_getD, List.getElem?_eq_getElem hlen, Option.getD_some,
    List.getD_eq_getElem?_getD, List.getElem?_eq_getElem hlenF, Option.getD_some]
  simp only [rowsOf_product, tr, List.getElem_map, List.getElem_range]
  have hxl : (rowsOf F)[r].length = 15 := (rowsOf_shape F).2 _ (List.getElem_mem hlenF)
  rw [getBit_col, List.getD_eq_getElem?_getD, List.getElem?_eq_getElem (by simpa using hc15),
    Option.getD_some]
  simp only [List.getElem_map, List.getElem_range]
  -- systematic column generator
  have hcol : (col (List.map genRow (rowsOf F)) c).length = 13 := by simp [col, rowsOf_length]
  rw [genCol, Code.gen_eq h13 _ (by simp [hcol]; rfl),
    getBit_append_left _ _ _ (by simp [hcol]; exact hr)]
  have : getBit (List.take 9 (col (List.map genRow (rowsOf F)) c)) r
      = getBit (col (List.map genRow (rowsOf F)) c) r := by
    simp only [getBit, List.getD_eq_getElem?_getD, List.getElem?_take, hr, if_true]
  rw [this, getBit_col, List.getD_eq_getElem?_getD,
    List.getElem?_eq_getElem (by simpa using hlenF), Option.getD_some, List.getElem_map]
  -- systematic row generator
  rw [genRow, Code.gen_eq h15 _ (by simp [hxl]; rfl),
    getBit_append_left _ _ _ (by simp [hxl]; exact hc)]
  simp only [getBit, List.getD_eq_getElem?_getD, List.getElem?_take, hc, if_true]

end Bptc
end Dmr
