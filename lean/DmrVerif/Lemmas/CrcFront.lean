import DmrVerif.Lemmas.CrcDetect
import DmrVerif.Model.CrcFront

/-!
Lemmas about the CRC calculators and front ends that C05 and C04 share (core Lean only): a decidable
well-formedness check of a configuration, "a calculator of either register kind returns the bit-by-bit
check sum", the check sum as `feed`, and the injectivity facts that carry detection through
inversion, mask and `ba2int`.
-/

namespace Dmr
namespace Crc

/-- decidable: derived feed width not exceeding the width, zero initial value / final xor, no
reversal, polynomial fits the width and has constant term 1 -/
def okCfg (c : CrcConfig) : Bool :=
  c.fw == calcFeedWidth c.w && decide (c.fw ≤ c.w) && c.init == 0 && c.xorout == 0
    && !c.revIn && !c.revOut && decide (c.poly < 2 ^ c.w) && ((polyBits c).getLast? == some true)

structure OkCfg (c : CrcConfig) : Prop where
  table : TableOk c
  plain : Plain c
  revIn : c.revIn = false
  polyLt : c.poly < 2 ^ c.w
  const1 : (polyBits c).getLast? = some true

theorem okCfg_spec {c : CrcConfig} (h : okCfg c = true) : OkCfg c := by
  simp only [okCfg, Bool.and_eq_true, beq_iff_eq, decide_eq_true_eq, Bool.not_eq_true'] at h
  obtain ⟨⟨⟨⟨⟨⟨⟨h1, h2⟩, h3⟩, h4⟩, h5⟩, h6⟩, h7⟩, h8⟩ := h
  exact ⟨⟨h1, h2⟩, ⟨h3, h4, h6⟩, h5, h7, h8⟩

theorem OkCfg.fw_pos {c : CrcConfig} (h : OkCfg c) : 0 < c.fw := h.table.fw_pos

/-- for a plain configuration the check sum is the zero register fed with the message -/
theorem calcBitwise_eq_feed (c : CrcConfig) (h : OkCfg c) (bits : Bits) :
    calcBitwise c bits = feed (polyBits c) bits := by
  rw [calcBitwise_plain c h.fw_pos h.plain]
  unfold feed
  rw [polyBits_length]

/-- a calculator of either register kind, on a big-endian container -/
theorem calculator_eq (c : CrcConfig) (h : TableOk c) (tb : Bool) (bits : Bits) :
    calculator c tb (lookupTable c.w c.poly) false bits = .ok (calcBitwise c bits) := by
  unfold calculator
  cases tb
  · rfl
  · exact calcTable_eq_bitwise c h bits

/-- a table calculator with feed width 8 on a little-endian container of whole octets -/
theorem calculator_le_bytes (c : CrcConfig) (h : TableOk c) (h8 : c.fw = 8) (bs : Bytes) :
    calculator c true (lookupTable c.w c.poly) true (bytesToBitsLE bs)
      = .ok (calcBitwise c (bytesToBits bs)) := by
  unfold calculator
  have := calcTable_le_bytes c h8 bs
  unfold calcTable at this
  simp only [↓reduceIte]
  rw [this]
  exact calcTable_eq_bitwise c h _

/-! ### injectivity through `~`, `ba2int`, `^ mask` -/

theorem inv_length (a : Bits) : (inv a).length = a.length := by simp [inv]

theorem inv_injective (a b : Bits) (h : inv a = inv b) : a = b := by
  unfold inv at h
  induction a generalizing b with
  | nil => cases b with
    | nil => rfl
    | cons _ _ => simp at h
  | cons x xs ih => cases b with
    | nil => simp at h
    | cons y ys =>
      simp only [List.map_cons, List.cons.injEq] at h
      rw [ih ys h.2]
      cases x <;> cases y <;> simp_all

theorem bitsToNat_injective (a b : Bits) (hl : a.length = b.length) (h : bitsToNat a = bitsToNat b) :
    a = b := by
  rw [← natToBits_bitsToNat a, ← natToBits_bitsToNat b, hl, h]

theorem xor_mask_injective (a b m : Nat) (h : Nat.xor a m = Nat.xor b m) : a = b := by
  have h' : a ^^^ m = b ^^^ m := h
  have : (a ^^^ m) ^^^ m = (b ^^^ m) ^^^ m := by rw [h']
  simpa [Nat.xor_assoc] using this

/-- `ba2int(~r) ^ mask` determines `r` among registers of one length -/
theorem masked_injective (a b : Bits) (m : Nat) (hl : a.length = b.length)
    (h : Nat.xor (bitsToNat (inv a)) m = Nat.xor (bitsToNat (inv b)) m) : a = b :=
  inv_injective a b (bitsToNat_injective _ _ (by simp [inv_length, hl]) (xor_mask_injective _ _ _ h))

theorem bitsToNat_natToBits_mod (w v : Nat) : bitsToNat (natToBits w v) = v % 2 ^ w := by
  induction w with
  | zero => simp [natToBits, bitsToNat, Nat.mod_one]
  | succ w ih =>
    rw [natToBits, bitsToNat_cons, natToBits_length, ih, Nat.mod_pow_succ]
    have h2 : (v / 2 ^ w % 2 == 1).toNat = v / 2 ^ w % 2 := by
      rcases Nat.mod_two_eq_zero_or_one (v / 2 ^ w) with h | h <;> simp [h]
    rw [h2, Nat.mul_comm, Nat.add_comm]

theorem bitsToNat_natToBits (w v : Nat) (h : v < 2 ^ w) : bitsToNat (natToBits w v) = v := by
  rw [bitsToNat_natToBits_mod, Nat.mod_eq_of_lt h]

/-- `int2ba(ba2int(r) ^ mask, length=w)` is `r ⊕ mask bits` when the mask fits -/
theorem natToBits_xor (a : Bits) (m : Nat) (hm : m < 2 ^ a.length) :
    natToBits a.length (Nat.xor (bitsToNat a) m) = xorBits a (natToBits a.length m) := by
  have hlen : (natToBits a.length m).length = a.length := natToBits_length _ _
  have := natToBits_bitsToNat (xorBits a (natToBits a.length m))
  rw [xorBits_length, hlen, Nat.min_self, bitsToNat_xorBits _ _ hlen.symm,
    bitsToNat_natToBits _ _ hm] at this
  exact this

end Crc
end Dmr
