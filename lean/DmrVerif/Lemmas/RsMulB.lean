import DmrVerif.Lemmas.RsBase

/-! C11: `log_multiply` against carry-less multiplication modulo 0x11D — quarter B of the 65,536
operand pairs (pair `(n / 256, n % 256)` for `16384 ≤ n < 16384 + 16384`), kernel enumeration. -/

namespace Dmr.Rs

theorem mulEnumB : allBin mulCase 14 16384 = true := by decide +kernel

end Dmr.Rs
