import DmrVerif.Lemmas.HyteraBytes
import DmrVerif.Lemmas.HyteraSpec

/-! TMP (text message protocol): serialise-then-parse for the eight implemented opcodes, with and
without option data (C12).  Core Lean only. -/

set_option linter.unusedSimpArgs false

namespace Dmr.Hytera
open Dmr Dmr.Gen.Hytera

/-- a slice with integer bounds that happen to delimit the third piece -/
theorem slI_third (H B O T : Bytes) (a b : Int) (ha : a = ↑(H.length + B.length))
    (hb : b = ↑(H.length + B.length + O.length)) : slI (H ++ (B ++ (O ++ T))) a b = O := by
  subst ha hb
  unfold slI
  rw [normIdx_nat, normIdx_nat]
  have e1 : min (H.length + B.length) (H ++ (B ++ (O ++ T))).length = H.length + B.length := by
    simp
  have e2 : min (H.length + B.length + O.length) (H ++ (B ++ (O ++ T))).length
      = H.length + B.length + O.length := by simp; omega
  rw [e1, e2, ← List.append_assoc H B]
  have := sl_mid (H ++ B) O T
  simpa using this

/-- … the second piece -/
theorem slI_second (H V R : Bytes) (a b : Int) (ha : a = ↑H.length) (hb : b = ↑(H.length + V.length)) :
    slI (H ++ (V ++ R)) a b = V := by
  subst ha hb
  unfold slI
  rw [normIdx_nat, normIdx_nat]
  have e1 : min H.length (H ++ (V ++ R)).length = H.length := by simp
  have e2 : min (H.length + V.length) (H ++ (V ++ R)).length = H.length + V.length := by simp
  rw [e1, e2]
  exact sl_mid H V R

theorem tmp_head_opt (first ob op x y a b r0 r1 r2 r3 : Nat) (B O T : Bytes) (rel : Bool)
    (h1 : reliableAndService first = .ok (rel, some svcTMP)) (hop : enumOf tmpValues op = .ok op)
    (hho : (ob &&& 0x40 != 0) = true) (hpl : ofBe [x, y] = 6 + B.length + O.length)
    (hol : ofBe [a, b] = O.length) :
    Tmp.parseHead (first :: ob :: op :: x :: y :: a :: b :: r0 :: r1 :: r2 :: r3 :: (B ++ (O ++ T)))
      = .ok ⟨rel, ob &&& 0x80 != 0, true, op, 7, ↑(11 + B.length), some O⟩ := by
  have hs := slI_third [first, ob, op, x, y, a, b, r0, r1, r2, r3] B O T
    ((7 : Nat) + ↑(6 + B.length + O.length) - ↑O.length - 2) ((7 : Nat) + ↑(6 + B.length + O.length) - 2)
    (by simp only [List.length_cons, List.length_nil]; omega)
    (by simp only [List.length_cons, List.length_nil]; omega)
  simp only [List.cons_append, List.nil_append] at hs
  have hi : ((7 : Nat) : Int) + ↑(6 + B.length + O.length) - ↑O.length - 2 = ↑(11 + B.length) := by omega
  simp only [Tmp.parseHead, reliableAndServiceB, sl, idx, List.take, List.drop, h1, hop, hho, hpl, hol,
    List.getElem?_cons_succ, List.getElem?_cons_zero, bind, Except.bind, pure, Except.pure, if_true, ne_eq,
    not_true_eq_false, if_false, hs]
  rw [hi]

theorem tmp_head_noopt (first ob op x y r0 r1 r2 r3 : Nat) (B T : Bytes) (rel : Bool)
    (h1 : reliableAndService first = .ok (rel, some svcTMP)) (hop : enumOf tmpValues op = .ok op)
    (hho : (ob &&& 0x40 != 0) = false) (hpl : ofBe [x, y] = 4 + B.length) :
    Tmp.parseHead (first :: ob :: op :: x :: y :: r0 :: r1 :: r2 :: r3 :: (B ++ T))
      = .ok ⟨rel, ob &&& 0x80 != 0, false, op, 5, ↑(9 + B.length), none⟩ := by
  have hi : ((5 : Nat) : Int) + ↑(4 + B.length) = ↑(9 + B.length) := by omega
  simp only [Tmp.parseHead, reliableAndServiceB, sl, idx, List.take, List.drop, h1, hop, hho, hpl,
    List.getElem?_cons_succ, List.getElem?_cons_zero, bind, Except.bind, pure, Except.pure, ne_eq,
    not_true_eq_false, if_false, Bool.false_eq_true]
  rw [hi]

end Dmr.Hytera

set_option linter.unusedSimpArgs false

namespace Dmr.Hytera
open Dmr Dmr.Gen.Hytera

/-- the serialisation as `HDAP.as_bytes` assembles it: header, optional option-length prefix, request
id, opcode-dependent body `B`, optional option data, checksum, terminator -/
def tmpData (first ob op x y : Nat) (pre : Bytes) (rid : Nat) (B optb : Bytes) (ck : Nat) : Bytes :=
  first :: ob :: op :: x :: y :: ((pre ++ be4 rid ++ B ++ optb) ++ [ck, 3])

theorem tmp_head_opt' (first ob op x y rid ck : Nat) (B O : Bytes) (rel : Bool)
    (h1 : reliableAndService first = .ok (rel, some svcTMP)) (hop : enumOf tmpValues op = .ok op)
    (hho : (ob &&& 0x40 != 0) = true) (hpl : ofBe [x, y] = (be2 O.length ++ be4 rid ++ B ++ O).length)
    (hol : O.length < 65536) :
    Tmp.parseHead (tmpData first ob op x y (be2 O.length) rid B O ck)
      = .ok ⟨rel, ob &&& 0x80 != 0, true, op, 7, ↑(11 + B.length), some O⟩ := by
  have := tmp_head_opt first ob op x y (O.length / 256 % 256) (O.length % 256) (rid / 16777216 % 256)
    (rid / 65536 % 256) (rid / 256 % 256) (rid % 256) B O [ck, 3] rel h1 hop hho
    (by rw [hpl]; simp; try omega) (by rw [ofBe2']; exact Nat.mod_eq_of_lt hol)
  simpa [tmpData, be2, be4] using this

theorem tmp_head_noopt' (first ob op x y rid ck : Nat) (B : Bytes) (rel : Bool)
    (h1 : reliableAndService first = .ok (rel, some svcTMP)) (hop : enumOf tmpValues op = .ok op)
    (hho : (ob &&& 0x40 != 0) = false) (hpl : ofBe [x, y] = ([] ++ be4 rid ++ B ++ []).length) :
    Tmp.parseHead (tmpData first ob op x y [] rid B [] ck)
      = .ok ⟨rel, ob &&& 0x80 != 0, false, op, 5, ↑(9 + B.length), none⟩ := by
  have := tmp_head_noopt first ob op x y (rid / 16777216 % 256)
    (rid / 65536 % 256) (rid / 256 % 256) (rid % 256) B [ck, 3] rel h1 hop hho
    (by rw [hpl]; simp; try omega)
  simpa [tmpData, be4] using this

@[simp] theorem RadioIp.asBytes_length (ip : RadioIp) : ip.asBytes.length = 4 := rfl

/-- the two shapes of the option-length prefix -/
def IsPre (pre : Bytes) : Prop := pre = [] ∨ ∃ a b, pre = [a, b]

/-- bodies `dst ++ src ++ V` (text message, short data) -/
theorem tmp_body_var (first ob op x y rid ck : Nat) (pre V optb : Bytes) (dst src : RadioIp) (hd : TmpHead)
    (hpre : IsPre pre) (hpi : hd.pi = 5 + pre.length) (hos : hd.optStart = ↑(5 + pre.length + 12 + V.length))
    (hrid : rid < 4294967296) (hdw : dst.WF) (hsw : src.WF) :
    Tmp.parseBody (tmpData first ob op x y pre rid (dst.asBytes ++ (src.asBytes ++ V)) optb ck) hd =
      if Tmp.isMessage hd.op then
        .ok (some ⟨hd.rel, hd.conf, hd.ho, hd.op, rid, some dst, some src, V, hd.opt, none, []⟩)
      else if hd.op = tmpPrivateShortData ∨ hd.op = tmpGroupShortData then
        .ok (some ⟨hd.rel, hd.conf, hd.ho, hd.op, rid, some dst, some src, [], hd.opt, none, V⟩)
      else Tmp.parseBody (tmpData first ob op x y pre rid (dst.asBytes ++ (src.asBytes ++ V)) optb ck) hd := by
  obtain ⟨rel, conf, ho, hop, pi, os, opt⟩ := hd
  obtain ⟨ds, di⟩ := dst
  obtain ⟨ss, si⟩ := src
  simp only at hpi hos
  have h4 := Nat.mod_eq_of_lt hrid
  have h3 := Nat.mod_eq_of_lt hdw.2
  have h3' := Nat.mod_eq_of_lt hsw.2
  simp only at h3 h3'
  subst hpi hos
  by_cases hm : Tmp.isMessage hop = true
  · rw [if_pos hm]
    rcases hpre with rfl | ⟨a, b, rfl⟩
    · have hs := slI_second [first, ob, op, x, y, rid / 16777216 % 256, rid / 65536 % 256, rid / 256 % 256, rid % 256,
        ds, di / 65536 % 256, di / 256 % 256, di % 256, ss, si / 65536 % 256, si / 256 % 256, si % 256] V (optb ++ [ck, 3])
        (17 : Int) (17 + (V.length : Int)) (by simp) (by simp)
      simp only [List.cons_append, List.nil_append] at hs
      simp [Tmp.parseBody, tmpData, hm, be4, be3, RadioIp.asBytes, sl, RadioIp.fromBytes, ofBe3', ofBe4', h3, h3', h4,
        bind, Except.bind, pure, Except.pure, hs]
    · have hs := slI_second [first, ob, op, x, y, a, b, rid / 16777216 % 256, rid / 65536 % 256, rid / 256 % 256, rid % 256,
        ds, di / 65536 % 256, di / 256 % 256, di % 256, ss, si / 65536 % 256, si / 256 % 256, si % 256] V (optb ++ [ck, 3])
        (19 : Int) (19 + (V.length : Int)) (by simp) (by simp)
      simp only [List.cons_append, List.nil_append] at hs
      simp [Tmp.parseBody, tmpData, hm, be4, be3, RadioIp.asBytes, sl, RadioIp.fromBytes, ofBe3', ofBe4', h3, h3', h4,
        bind, Except.bind, pure, Except.pure, hs]
  · rw [if_neg hm]
    by_cases hsd : hop = tmpPrivateShortData ∨ hop = tmpGroupShortData
    · rw [if_pos hsd]
      have n1 : ¬ hop = tmpSendGroupMessageAck := by rcases hsd with rfl | rfl <;> decide
      have n2 : ¬ hop = tmpSendPrivateMessageAck := by rcases hsd with rfl | rfl <;> decide
      have n3 : ¬ hop = tmpPrivateShortDataAck := by rcases hsd with rfl | rfl <;> decide
      rcases hpre with rfl | ⟨a, b, rfl⟩
      · have hs := slI_second [first, ob, op, x, y, rid / 16777216 % 256, rid / 65536 % 256, rid / 256 % 256, rid % 256,
          ds, di / 65536 % 256, di / 256 % 256, di % 256, ss, si / 65536 % 256, si / 256 % 256, si % 256] V (optb ++ [ck, 3])
          (17 : Int) (17 + (V.length : Int)) (by simp) (by simp)
        simp only [List.cons_append, List.nil_append] at hs
        rcases hsd with rfl | rfl <;>
        simp [Tmp.parseBody, tmpData, hm, n1, n2, n3, be4, be3, RadioIp.asBytes, sl, RadioIp.fromBytes, ofBe3', ofBe4', h3, h3', h4,
          bind, Except.bind, pure, Except.pure, hs]
      · have hs := slI_second [first, ob, op, x, y, a, b, rid / 16777216 % 256, rid / 65536 % 256, rid / 256 % 256, rid % 256,
          ds, di / 65536 % 256, di / 256 % 256, di % 256, ss, si / 65536 % 256, si / 256 % 256, si % 256] V (optb ++ [ck, 3])
          (19 : Int) (19 + (V.length : Int)) (by simp) (by simp)
        simp only [List.cons_append, List.nil_append] at hs
        rcases hsd with rfl | rfl <;>
        simp [Tmp.parseBody, tmpData, hm, n1, n2, n3, be4, be3, RadioIp.asBytes, sl, RadioIp.fromBytes, ofBe3', ofBe4', h3, h3', h4,
          bind, Except.bind, pure, Except.pure, hs]
    · rw [if_neg hsd]

/-- bodies `dst ++ src ++ [result]` (private acknowledgements) -/
theorem tmp_body_ack2 (first ob op x y rid ck rc : Nat) (pre optb : Bytes) (dst src : RadioIp) (hd : TmpHead)
    (hpre : IsPre pre) (hpi : hd.pi = 5 + pre.length)
    (hrid : rid < 4294967296) (hdw : dst.WF) (hsw : src.WF) (hrc : rc ∈ tmpResultValues)
    (hop : hd.op = tmpSendPrivateMessageAck ∨ hd.op = tmpPrivateShortDataAck) :
    Tmp.parseBody (tmpData first ob op x y pre rid (dst.asBytes ++ (src.asBytes ++ [rc])) optb ck) hd =
      .ok (some ⟨hd.rel, hd.conf, hd.ho, hd.op, rid, some dst, some src, [], hd.opt, some rc, []⟩) := by
  obtain ⟨rel, conf, ho, hop', pi, os, opt⟩ := hd
  obtain ⟨ds, di⟩ := dst
  obtain ⟨ss, si⟩ := src
  simp only at hpi hop
  have h4 := Nat.mod_eq_of_lt hrid
  have h3 := Nat.mod_eq_of_lt hdw.2
  have h3' := Nat.mod_eq_of_lt hsw.2
  have er := enumOf_mem hrc
  simp only at h3 h3'
  subst hpi
  have n0 : Tmp.isMessage hop' = false := by rcases hop with rfl | rfl <;> decide
  have n1 : ¬ hop' = tmpSendGroupMessageAck := by rcases hop with rfl | rfl <;> decide
  rcases hpre with rfl | ⟨a, b, rfl⟩ <;> rcases hop with rfl | rfl <;>
    simp [Tmp.parseBody, tmpData, n0, n1, be4, be3, RadioIp.asBytes, sl, idx, RadioIp.fromBytes, ofBe3', ofBe4', h3, h3', h4,
      bind, Except.bind, pure, Except.pure, er,
      show ¬ tmpPrivateShortDataAck = tmpSendPrivateMessageAck by decide,
      show ¬ tmpPrivateShortDataAck = tmpPrivateShortData by decide]

/-- bodies `dst ++ [result]` (group acknowledgements) -/
theorem tmp_body_ack1 (first ob op x y rid ck rc : Nat) (pre optb : Bytes) (dst : RadioIp) (hd : TmpHead)
    (hpre : IsPre pre) (hpi : hd.pi = 5 + pre.length)
    (hrid : rid < 4294967296) (hdw : dst.WF) (hrc : rc ∈ tmpResultValues)
    (hop : hd.op = tmpSendGroupMessageAck ∨ hd.op = tmpGroupShortDataAck) :
    Tmp.parseBody (tmpData first ob op x y pre rid (dst.asBytes ++ [rc]) optb ck) hd =
      .ok (some ⟨hd.rel, hd.conf, hd.ho, hd.op, rid, some dst, none, [], hd.opt, some rc, []⟩) := by
  obtain ⟨rel, conf, ho, hop', pi, os, opt⟩ := hd
  obtain ⟨ds, di⟩ := dst
  simp only at hpi hop
  have h4 := Nat.mod_eq_of_lt hrid
  have h3 := Nat.mod_eq_of_lt hdw.2
  have er := enumOf_mem hrc
  simp only at h3
  subst hpi
  have n0 : Tmp.isMessage hop' = false := by rcases hop with rfl | rfl <;> decide
  rcases hpre with rfl | ⟨a, b, rfl⟩ <;> rcases hop with rfl | rfl <;>
    simp [Tmp.parseBody, tmpData, n0, be4, be3, RadioIp.asBytes, sl, idx, RadioIp.fromBytes, ofBe3', ofBe4', h3, h4,
      bind, Except.bind, pure, Except.pure, er,
      show ¬ tmpGroupShortDataAck = tmpSendGroupMessageAck by decide,
      show ¬ tmpGroupShortDataAck = tmpSendPrivateMessageAck by decide,
      show ¬ tmpGroupShortDataAck = tmpPrivateShortData by decide,
      show ¬ tmpGroupShortDataAck = tmpPrivateShortDataAck by decide,
      show ¬ tmpGroupShortDataAck = tmpGroupShortData by decide]

theorem tmp_flags (conf ho : Bool) :
    let ob := (0 ||| (if conf then 0x80 else 0)) ||| (if ho then 0x40 else 0)
    (ob &&& 0x80 != 0) = conf ∧ (ob &&& 0x40 != 0) = ho := by
  cases conf <;> cases ho <;> decide

theorem tmp_impl_sub {op : Nat} (h : op ∈ Tmp.implemented) : op ∈ tmpValues := by
  simp only [Tmp.implemented, List.mem_cons, List.not_mem_nil, or_false] at h
  rcases h with rfl | rfl | rfl | rfl | rfl | rfl | rfl | rfl <;> decide

/-- anatomy of `get_payload` -/
theorem tmp_payload_parts (p : Tmp) (P : Bytes) (hP : p.payload = .ok P) :
    ∃ pre optb B, p.body = .ok B ∧ P = pre ++ be4 p.requestId ++ B ++ optb ∧
      ((p.hasOption = true ∧ ∃ O, p.optionData = some O ∧ pre = be2 O.length ∧ optb = O)
        ∨ (p.hasOption = false ∧ pre = [] ∧ optb = [])) := by
  unfold Tmp.payload at hP
  cases hb : p.body with
  | error e => cases hh : p.hasOption <;> cases ho : p.optionData <;>
      simp [hb, hh, ho, bind, Except.bind, pure, Except.pure, throw, throwThe, MonadExceptOf.throw] at hP
  | ok B =>
    cases hh : p.hasOption with
    | false =>
      simp [hb, hh, bind, Except.bind, pure, Except.pure] at hP
      exact ⟨[], [], B, rfl, by simp [← hP], Or.inr ⟨rfl, rfl, rfl⟩⟩
    | true =>
      cases ho : p.optionData with
      | none => simp [hb, hh, ho, bind, Except.bind, pure, Except.pure, throw, throwThe, MonadExceptOf.throw] at hP
      | some O =>
        simp [hb, hh, ho, bind, Except.bind, pure, Except.pure] at hP
        exact ⟨be2 O.length, O, B, rfl, by simp [← hP], Or.inl ⟨rfl, O, rfl, rfl, rfl⟩⟩

set_option maxHeartbeats 1000000 in
theorem tmp_parse_serialise (p : Tmp) (h : p.WF) :
    ∃ f, p.frame = .ok f ∧ f.payload.length < 65536 ∧ f.opcode = p.opcodeBytes ∧ f.service = svcTMP
      ∧ Tmp.fromBytes f.asBytes = .ok (some p.norm) := by
  obtain ⟨hop, hrid, hdst, hsrc, hres, hod, hfit⟩ := h
  have hopv := enumOf_mem (tmp_impl_sub hop)
  cases hP : p.payload with
  | error e => rw [hP] at hfit; exact absurd hfit (by simp [payloadFits])
  | ok P =>
  rw [hP] at hfit
  simp only [payloadFits] at hfit
  have hfr : p.frame = .ok ⟨svcTMP, p.reliable, p.opcodeBytes, false, P⟩ := by
    simp [Tmp.frame, hP, bind, Except.bind, pure, Except.pure]
  refine ⟨_, hfr, hfit, rfl, rfl, ?_⟩
  obtain ⟨x, y, hxy, hb⟩ := frame_cons ⟨svcTMP, p.reliable, p.opcodeBytes, false, P⟩ rfl
  rw [hb]
  generalize hdapChecksum _ = ck
  have hpl : ofBe [x, y] = P.length := by
    have := ofBe_be2 hfit
    simp only [len16] at hxy
    rw [← hxy]; simpa using this
  have h1 := reliableAndService_first (s := svcTMP) p.reliable (by decide)
  obtain ⟨hc, hh⟩ := tmp_flags p.confirmed p.hasOption
  obtain ⟨pre, optb, B, hB, hPe, hcase⟩ := tmp_payload_parts p P hP
  obtain ⟨rel, conf, ho, op, rid, dst, src, text, od, res, short⟩ := p
  simp only at hop hrid hdst hsrc hres hod hopv hc hh h1 hB hPe hcase hpl ⊢
  subst hPe
  match dst, hdst with
  | some dst, hdst =>
  change someIpWF (some dst) at hdst
  simp only [someIpWF] at hdst
  -- the head
  have hdata : ∀ t : Bytes, (svcTMP ||| if rel = true then 128 else 0) ::
        ((0 ||| if conf = true then 128 else 0) ||| if ho = true then 64 else 0) :: op :: x :: y ::
          ((pre ++ be4 rid ++ B ++ optb) ++ t) =
      (svcTMP ||| if rel = true then 128 else 0) ::
        ((0 ||| if conf = true then 128 else 0) ||| if ho = true then 64 else 0) :: op :: x :: y ::
          ((pre ++ be4 rid ++ B ++ optb) ++ t) := fun _ => rfl
  have hhead : ∃ hd : TmpHead, Tmp.parseHead (tmpData (svcTMP ||| if rel = true then 128 else 0)
        ((0 ||| if conf = true then 128 else 0) ||| if ho = true then 64 else 0) op x y pre rid B optb ck) = .ok hd
      ∧ hd.rel = rel ∧ hd.conf = conf ∧ hd.ho = ho ∧ hd.op = op ∧ hd.pi = 5 + pre.length
      ∧ hd.optStart = ↑(5 + pre.length + 4 + B.length) ∧ hd.opt = (if ho then od else none) ∧ IsPre pre := by
    rcases hcase with ⟨rfl, O, rfl, rfl, rfl⟩ | ⟨rfl, rfl, rfl⟩
    · refine ⟨_, tmp_head_opt' _ _ op x y rid ck B optb rel h1 hopv hh hpl (by simp at hfit; omega), rfl, hc, rfl, rfl, rfl, ?_, rfl, Or.inr ⟨_, _, rfl⟩⟩
      simp; try omega
    · refine ⟨_, tmp_head_noopt' _ _ op x y rid ck B rel h1 hopv hh hpl, rfl, hc, rfl, rfl, rfl, ?_, rfl, Or.inl rfl⟩
      simp; try omega
  obtain ⟨hd, hparse, e1, e2, e3, e4, e5, e6, e7, hpre⟩ := hhead
  change Tmp.fromBytes (tmpData _ _ op x y pre rid B optb ck) = _
  simp only [Tmp.fromBytes, hparse, bind, Except.bind]
  obtain ⟨hrel, hconf, hho, hop', hpi, hos, hopt⟩ := hd
  simp only at e1 e2 e3 e4 e5 e6 e7
  subst e1 e2 e3 e4 e5 e6 e7
  simp only [Tmp.implemented, List.mem_cons, List.not_mem_nil, or_false] at hop
  rcases hop with rfl | rfl | rfl | rfl | rfl | rfl | rfl | rfl
  · -- tmpSendPrivateMessage
    match src, hsrc (by decide) with
    | some src, hs =>
    change someIpWF (some src) at hs
    simp only [someIpWF] at hs
    simp [Tmp.body, need, show Tmp.isTmp tmpSendPrivateMessage = true by decide,
      show Tmp.isMessage tmpSendPrivateMessage = true by decide, bind, Except.bind, pure, Except.pure,
      Functor.map, Except.map,
      show ¬ tmpSendPrivateMessage = tmpSendGroupMessageAck by decide,
      show ¬ tmpSendPrivateMessage = tmpPrivateShortData by decide,
      show ¬ tmpSendPrivateMessage = tmpPrivateShortDataAck by decide,
      show ¬ tmpSendPrivateMessage = tmpGroupShortData by decide,
      show ¬ tmpSendPrivateMessage = tmpGroupShortDataAck by decide] at hB
    subst hB
    rw [tmp_body_var _ _ _ x y rid ck pre text optb dst src _ hpre rfl (by simp; try omega) hrid hdst hs]
    simp [Tmp.norm, Tmp.isMessage, Tmp.isShort, Tmp.isAck, Tmp.isGroupAck, tmpSendPrivateMessage, tmpSendPrivateMessage, tmpSendGroupMessage,
      tmpPrivateShortData, tmpGroupShortData, tmpSendPrivateMessageAck, tmpSendGroupMessageAck, tmpPrivateShortDataAck,
      tmpGroupShortDataAck]
  · -- tmpSendPrivateMessageAck
    match src, hsrc (by decide) with
    | some src, hs =>
    change someIpWF (some src) at hs
    simp only [someIpWF] at hs
    match res, hres (by decide) with
    | some rc, hr =>
    change someMem tmpResultValues (some rc) at hr
    simp only [someMem] at hr
    simp [Tmp.body, need, show Tmp.isTmp tmpSendPrivateMessageAck = true by decide,
      show Tmp.isMessage tmpSendPrivateMessageAck = false by decide, bind, Except.bind, pure, Except.pure,
      Functor.map, Except.map,
      show ¬ tmpSendPrivateMessageAck = tmpSendGroupMessageAck by decide,
      show ¬ tmpSendPrivateMessageAck = tmpPrivateShortData by decide,
      show ¬ tmpSendPrivateMessageAck = tmpPrivateShortDataAck by decide,
      show ¬ tmpSendPrivateMessageAck = tmpGroupShortData by decide,
      show ¬ tmpSendPrivateMessageAck = tmpGroupShortDataAck by decide] at hB
    subst hB
    rw [tmp_body_ack2 _ _ _ x y rid ck rc pre optb dst src _ hpre rfl hrid hdst hs hr (by simp)]
    simp [Tmp.norm, Tmp.isMessage, Tmp.isShort, Tmp.isAck, Tmp.isGroupAck, tmpSendPrivateMessageAck, tmpSendPrivateMessage, tmpSendGroupMessage,
      tmpPrivateShortData, tmpGroupShortData, tmpSendPrivateMessageAck, tmpSendGroupMessageAck, tmpPrivateShortDataAck,
      tmpGroupShortDataAck]
  · -- tmpSendGroupMessage
    match src, hsrc (by decide) with
    | some src, hs =>
    change someIpWF (some src) at hs
    simp only [someIpWF] at hs
    simp [Tmp.body, need, show Tmp.isTmp tmpSendGroupMessage = true by decide,
      show Tmp.isMessage tmpSendGroupMessage = true by decide, bind, Except.bind, pure, Except.pure,
      Functor.map, Except.map,
      show ¬ tmpSendGroupMessage = tmpSendGroupMessageAck by decide,
      show ¬ tmpSendGroupMessage = tmpPrivateShortData by decide,
      show ¬ tmpSendGroupMessage = tmpPrivateShortDataAck by decide,
      show ¬ tmpSendGroupMessage = tmpGroupShortData by decide,
      show ¬ tmpSendGroupMessage = tmpGroupShortDataAck by decide] at hB
    subst hB
    rw [tmp_body_var _ _ _ x y rid ck pre text optb dst src _ hpre rfl (by simp; try omega) hrid hdst hs]
    simp [Tmp.norm, Tmp.isMessage, Tmp.isShort, Tmp.isAck, Tmp.isGroupAck, tmpSendGroupMessage, tmpSendPrivateMessage, tmpSendGroupMessage,
      tmpPrivateShortData, tmpGroupShortData, tmpSendPrivateMessageAck, tmpSendGroupMessageAck, tmpPrivateShortDataAck,
      tmpGroupShortDataAck]
  · -- tmpSendGroupMessageAck
    match res, hres (by decide) with
    | some rc, hr =>
    change someMem tmpResultValues (some rc) at hr
    simp only [someMem] at hr
    simp [Tmp.body, need, show Tmp.isTmp tmpSendGroupMessageAck = true by decide,
      show Tmp.isMessage tmpSendGroupMessageAck = false by decide, bind, Except.bind, pure, Except.pure,
      Functor.map, Except.map,
      show ¬ tmpSendGroupMessageAck = tmpPrivateShortData by decide,
      show ¬ tmpSendGroupMessageAck = tmpPrivateShortDataAck by decide,
      show ¬ tmpSendGroupMessageAck = tmpGroupShortData by decide,
      show ¬ tmpSendGroupMessageAck = tmpGroupShortDataAck by decide] at hB
    subst hB
    rw [tmp_body_ack1 _ _ _ x y rid ck rc pre optb dst _ hpre rfl hrid hdst hr (by simp)]
    simp [Tmp.norm, Tmp.isMessage, Tmp.isShort, Tmp.isAck, Tmp.isGroupAck, tmpSendGroupMessageAck, tmpSendPrivateMessage, tmpSendGroupMessage,
      tmpPrivateShortData, tmpGroupShortData, tmpSendPrivateMessageAck, tmpSendGroupMessageAck, tmpPrivateShortDataAck,
      tmpGroupShortDataAck]
  · -- tmpPrivateShortData
    match src, hsrc (by decide) with
    | some src, hs =>
    change someIpWF (some src) at hs
    simp only [someIpWF] at hs
    simp [Tmp.body, need, show Tmp.isTmp tmpPrivateShortData = false by decide,
      show Tmp.isMessage tmpPrivateShortData = false by decide, bind, Except.bind, pure, Except.pure,
      Functor.map, Except.map,
      show ¬ tmpPrivateShortData = tmpSendGroupMessageAck by decide,
      show ¬ tmpPrivateShortData = tmpPrivateShortDataAck by decide,
      show ¬ tmpPrivateShortData = tmpGroupShortData by decide,
      show ¬ tmpPrivateShortData = tmpGroupShortDataAck by decide] at hB
    subst hB
    rw [tmp_body_var _ _ _ x y rid ck pre short optb dst src _ hpre rfl (by simp; try omega) hrid hdst hs]
    simp [Tmp.norm, Tmp.isMessage, Tmp.isShort, Tmp.isAck, Tmp.isGroupAck, tmpPrivateShortData, tmpSendPrivateMessage, tmpSendGroupMessage,
      tmpPrivateShortData, tmpGroupShortData, tmpSendPrivateMessageAck, tmpSendGroupMessageAck, tmpPrivateShortDataAck,
      tmpGroupShortDataAck]
  · -- tmpPrivateShortDataAck
    match src, hsrc (by decide) with
    | some src, hs =>
    change someIpWF (some src) at hs
    simp only [someIpWF] at hs
    match res, hres (by decide) with
    | some rc, hr =>
    change someMem tmpResultValues (some rc) at hr
    simp only [someMem] at hr
    simp [Tmp.body, need, show Tmp.isTmp tmpPrivateShortDataAck = false by decide,
      show Tmp.isMessage tmpPrivateShortDataAck = false by decide, bind, Except.bind, pure, Except.pure,
      Functor.map, Except.map,
      show ¬ tmpPrivateShortDataAck = tmpSendGroupMessageAck by decide,
      show ¬ tmpPrivateShortDataAck = tmpPrivateShortData by decide,
      show ¬ tmpPrivateShortDataAck = tmpGroupShortData by decide,
      show ¬ tmpPrivateShortDataAck = tmpGroupShortDataAck by decide] at hB
    subst hB
    rw [tmp_body_ack2 _ _ _ x y rid ck rc pre optb dst src _ hpre rfl hrid hdst hs hr (by simp)]
    simp [Tmp.norm, Tmp.isMessage, Tmp.isShort, Tmp.isAck, Tmp.isGroupAck, tmpPrivateShortDataAck, tmpSendPrivateMessage, tmpSendGroupMessage,
      tmpPrivateShortData, tmpGroupShortData, tmpSendPrivateMessageAck, tmpSendGroupMessageAck, tmpPrivateShortDataAck,
      tmpGroupShortDataAck]
  · -- tmpGroupShortData
    match src, hsrc (by decide) with
    | some src, hs =>
    change someIpWF (some src) at hs
    simp only [someIpWF] at hs
    simp [Tmp.body, need, show Tmp.isTmp tmpGroupShortData = false by decide,
      show Tmp.isMessage tmpGroupShortData = false by decide, bind, Except.bind, pure, Except.pure,
      Functor.map, Except.map,
      show ¬ tmpGroupShortData = tmpSendGroupMessageAck by decide,
      show ¬ tmpGroupShortData = tmpPrivateShortData by decide,
      show ¬ tmpGroupShortData = tmpPrivateShortDataAck by decide,
      show ¬ tmpGroupShortData = tmpGroupShortDataAck by decide] at hB
    subst hB
    rw [tmp_body_var _ _ _ x y rid ck pre short optb dst src _ hpre rfl (by simp; try omega) hrid hdst hs]
    simp [Tmp.norm, Tmp.isMessage, Tmp.isShort, Tmp.isAck, Tmp.isGroupAck, tmpGroupShortData, tmpSendPrivateMessage, tmpSendGroupMessage,
      tmpPrivateShortData, tmpGroupShortData, tmpSendPrivateMessageAck, tmpSendGroupMessageAck, tmpPrivateShortDataAck,
      tmpGroupShortDataAck]
  · -- tmpGroupShortDataAck
    match res, hres (by decide) with
    | some rc, hr =>
    change someMem tmpResultValues (some rc) at hr
    simp only [someMem] at hr
    simp [Tmp.body, need, show Tmp.isTmp tmpGroupShortDataAck = false by decide,
      show Tmp.isMessage tmpGroupShortDataAck = false by decide, bind, Except.bind, pure, Except.pure,
      Functor.map, Except.map,
      show ¬ tmpGroupShortDataAck = tmpSendGroupMessageAck by decide,
      show ¬ tmpGroupShortDataAck = tmpPrivateShortData by decide,
      show ¬ tmpGroupShortDataAck = tmpPrivateShortDataAck by decide,
      show ¬ tmpGroupShortDataAck = tmpGroupShortData by decide] at hB
    subst hB
    rw [tmp_body_ack1 _ _ _ x y rid ck rc pre optb dst _ hpre rfl hrid hdst hr (by simp)]
    simp [Tmp.norm, Tmp.isMessage, Tmp.isShort, Tmp.isAck, Tmp.isGroupAck, tmpGroupShortDataAck, tmpSendPrivateMessage, tmpSendGroupMessage,
      tmpPrivateShortData, tmpGroupShortData, tmpSendPrivateMessageAck, tmpSendGroupMessageAck, tmpPrivateShortDataAck,
      tmpGroupShortDataAck]

end Dmr.Hytera
