import DmrVerif.Lemmas.Tracker

/-!
# One burst, one time slot: `process_packet` and `Timeslot.process_burst` keep the invariant (C08)
-/

namespace Dmr.Tracker

/-! ## nothing but `fix_voice_burst_type` writes `last_voice_burst` -/

@[simp] theorem resetTx_lastVoice (m : M) (t) : (resetTx m t).tx.lastVoice = m.tx.lastVoice := rfl

@[simp] theorem endData_lastVoice (m : M) : (endData m).tx.lastVoice = m.tx.lastVoice := by
  unfold endData; split
  · rfl
  · split <;> simp [newIdle]

@[simp] theorem newTx_lastVoice (m : M) (t) : (newTx m t).tx.lastVoice = m.tx.lastVoice := by
  unfold newTx; cases t <;> simp <;> split <;> simp

@[simp] theorem ensureTx_lastVoice (m : M) (t) : (ensureTx m t).tx.lastVoice = m.tx.lastVoice := by
  unfold ensureTx; split <;> simp

@[simp] theorem endVoice_lastVoice (m : M) : (endVoice m).tx.lastVoice = m.tx.lastVoice := by
  unfold endVoice; split
  · rfl
  · split <;> simp

@[simp] theorem endTransmissions_lastVoice (m : M) :
    (endTransmissions m).tx.lastVoice = m.tx.lastVoice := by
  unfold endTransmissions; split <;> simp

@[simp] theorem processVoiceHeader_lastVoice (m : M) (raw) :
    (processVoiceHeader m raw).tx.lastVoice = m.tx.lastVoice := by
  simp [processVoiceHeader]

@[simp] theorem processDataHeader_lastVoice (m : M) (h) :
    (processDataHeader m h).tx.lastVoice = m.tx.lastVoice := by
  simp [processDataHeader]

@[simp] theorem processCsbk_lastVoice (m : M) (p b r) :
    (processCsbk m p b r).tx.lastVoice = m.tx.lastVoice := by
  simp [processCsbk]

@[simp] theorem processData_lastVoice (m : M) (b l) :
    (processData m b l).tx.lastVoice = m.tx.lastVoice := by
  unfold processData; split <;> simp

/-! ## where a transmission can end up -/

theorem endData_type (m : M) : (endData m).tx.type = m.tx.type ∨ (endData m).tx.type = .idle := by
  unfold endData; split
  · left; rfl
  · split
    · left; rfl
    · right; simp [newIdle, resetTx]

theorem endVoice_type (m : M) (hf : m.tx.finished = false) : (endVoice m).tx.type = .idle := by
  unfold endVoice
  by_cases hi : m.tx.type = .idle
  · simp [hf, hi]
  · simp only [hf, Bool.false_or, beq_iff_eq, hi, Bool.false_eq_true, ↓reduceIte]
    split <;> simp [newTx, resetTx]

theorem endTransmissions_not_voice (m : M) (hf : m.tx.finished = false) :
    (endTransmissions m).tx.type ≠ .voice := by
  unfold endTransmissions
  split
  · rename_i hd
    rcases endData_type m with h | h <;> simp [h, hd]
  · simp [endVoice_type m hf]
  · rename_i hi; simp [hi]

/-! ## `process_packet` -/

theorem MGood.withLastVoice {g0 m} (h : MGood g0 m) (l : VB) :
    MGood g0 { m with tx := { m.tx with lastVoice := l } } := by
  have hsh := h.shape
  refine ⟨h.fin, ?_, h.ok, h.kinds, h.sync, h.fresh⟩
  simpa [shapeOk] using hsh

/-- the dispatch on the data type, before the trailing `is_last_block()` check -/
def dispatch (m : M) (p : Payload) : Except Err M :=
  match p with
  | .voiceHeader raw => .ok (processVoiceHeader m raw)
  | .dataHeader h => .ok (processDataHeader m h)
  | .csbk pre btf raw => .ok (processCsbk m pre btf raw)
  | .terminator _ => .ok (endVoice { m with tx := { m.tx with received := m.tx.received + 1 } })
  | .voice _ => .ok m
  | .other => .ok m
  | .rate r bits =>
    let t := resolve m.tx.confirmed (isLastBlock m.tx true)
    match parseTyped r t bits with
    | .error e => .error e
    | .ok blk => .ok (processData m blk t.isLast)

/-- the trailing `if self.is_last_block(): self.end_transmissions()` -/
def trailing (m : M) : M := if isLastBlock m.tx false then endTransmissions m else m

theorem processPacket_eq (m : M) (p : Payload) :
    processPacket m p =
      match fixVoice m.tx p with
      | .error e => .error e
      | .ok (tx, lbl) =>
        match dispatch { m with tx := tx } p with
        | .error e => .error e
        | .ok m' => .ok (trailing m', lbl) := by
  unfold processPacket dispatch trailing
  cases fixVoice m.tx p with
  | error e => rfl
  | ok r => cases p <;> rfl

theorem MGood.received {g0 m} (h : MGood g0 m) :
    MGood g0 { m with tx := { m.tx with received := m.tx.received + 1 } } := by
  have hsh := h.shape
  refine ⟨h.fin, ?_, h.ok, h.kinds, h.sync, h.fresh⟩
  simpa [shapeOk] using hsh

theorem dispatch_good {g0 m} (h : MGood g0 m) (p : Payload) (hwf : (AbsBurst.mk p c).wf = true) :
    ∃ m', dispatch m p = .ok m' ∧ MGood g0 m' ∧ m'.tx.lastVoice = m.tx.lastVoice := by
  cases p with
  | voiceHeader raw => exact ⟨_, rfl, h.processVoiceHeader raw, by simp⟩
  | dataHeader dh => exact ⟨_, rfl, h.processDataHeader dh, by simp⟩
  | csbk pre btf raw => exact ⟨_, rfl, h.processCsbk pre btf raw, by simp⟩
  | terminator raw => exact ⟨_, rfl, h.received.endVoice, by simp⟩
  | voice s => exact ⟨_, rfl, h, rfl⟩
  | other => exact ⟨_, rfl, h, rfl⟩
  | rate r bits =>
    have hl : bits.length = r.infoBits := by simpa [AbsBurst.wf] using hwf
    refine ⟨processData m (.rate r (resolve m.tx.confirmed (isLastBlock m.tx true)) bits)
      (resolve m.tx.confirmed (isLastBlock m.tx true)).isLast, ?_, h.processData _ _, by simp⟩
    simp [dispatch, parseTyped, hl]

theorem trailing_good {g0 m} (h : MGood g0 m) : MGood g0 (trailing m) := by
  unfold trailing; split
  · exact h.endTransmissions
  · exact h

@[simp] theorem trailing_lastVoice (m : M) : (trailing m).tx.lastVoice = m.tx.lastVoice := by
  unfold trailing; split <;> simp

theorem trailing_nolast (m : M) (hf : m.tx.finished = false) :
    (trailing m).tx.type = .voice → isLastBlock (trailing m).tx false = false := by
  unfold trailing
  split
  · intro hv; exact absurd hv (endTransmissions_not_voice m hf)
  · rename_i hc; intro _; simpa using hc

theorem trailing_stays (m : M) (h : isLastBlock m.tx false = false) : trailing m = m := by
  simp [trailing, h]

/-- what one `process_packet` call guarantees -/
theorem processPacket_good {g0 m} (h : MGood g0 m) (p : Payload) (c : Option Nat)
    (hwf : (AbsBurst.mk p c).wf = true)
    (hlv : m.tx.type ≠ .voice → m.tx.lastVoice = .unknown)
    (hnl : m.tx.type = .voice → isLastBlock m.tx false = false) :
    ∃ m' l, processPacket m p = .ok (m', l) ∧ MGood g0 m'
      ∧ (m'.tx.type ≠ .voice → m'.tx.lastVoice = .unknown)
      ∧ (m'.tx.type = .voice → isLastBlock m'.tx false = false) := by
  rw [processPacket_eq]
  obtain ⟨l, hfv⟩ := fixVoice_ok m.tx p
  rw [hfv]
  simp only
  have h1 := h.withLastVoice (if m.tx.type = .voice then l else m.tx.lastVoice)
  obtain ⟨m', hd, hg, hl⟩ := dispatch_good (c := c) h1 p hwf
  rw [hd]
  refine ⟨trailing m', l, rfl, trailing_good hg, ?_, trailing_nolast m' hg.fin⟩
  simp only [trailing_lastVoice, hl]
  intro hnv
  by_cases hv : m.tx.type = .voice
  · simp only [hv, ↓reduceIte]
    -- in a voice transmission: a data-typed burst resets the label; a vocoder burst changes no
    -- counter, so the transmission cannot end on it
    cases p with
    | voice s =>
      exfalso
      have hm' : m' = { m with tx := { m.tx with lastVoice := if m.tx.type = .voice then l else m.tx.lastVoice } } := by
        simpa [dispatch] using hd.symm
      subst hm'
      apply hnv
      rw [trailing_stays]
      · exact hv
      · have := hnl hv
        simpa [isLastBlock] using this
    | _ =>
      have := hfv
      simp [fixVoice, hv, Payload.isSync, Payload.isVoice] at this
      exact this.symm
  · simp only [hv, ↓reduceIte]
    exact hlv hv

end Dmr.Tracker
