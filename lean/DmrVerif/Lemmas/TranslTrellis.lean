import DmrVerif.Gen.TranslTrellis
import DmrVerif.Model.Trellis

/-!
Stage equalities between the definitions TRANSLATED from the source of `etsi/fec/trellis.py` (`Gen/TranslTrellis.lean`) and the
hand-written model `Model/Trellis.lean` (C10).  Proved so far: `bits_to_tribits`, `points_to_dibits` (all inputs, `KeyError`
included).  The other stages are translated and differentially validated only (TRANSL_NOTES.md).
-/

namespace Dmr.Transl.Trellis
open Dmr Dmr.Py Dmr.Trellis

/-- the model's exceptions as Python exceptions -/
def errOf : Dmr.Trellis.Err → PyErr
  | .assertion => .assertion
  | .index => .index
  | .key => .other "KeyError"

def ofR {α β : Type} (f : α → β) : Dmr.Trellis.R α → PyM β
  | .ok v => .ok (f v)
  | .error e => .error (errOf e)

theorem triples_get : ∀ (l : Bits),
    (triples l).length = (l.length + 2) / 3 ∧
    ∀ k, k < (l.length + 2) / 3 → (triples l)[k]? = some ((l.drop (3 * k)).take 3) := by
  intro l
  induction l using triples.induct with
  | case1 a b c r ih =>
    obtain ⟨h1, h2⟩ := ih
    refine ⟨by simp only [triples, List.length_cons, h1]; omega, ?_⟩
    intro k hk
    cases k with
    | zero => simp [triples]
    | succ k =>
      have := h2 k (by simp only [List.length_cons] at hk; omega)
      simp only [triples, List.getElem?_cons_succ, this]
      have e : 3 * (k + 1) = 3 * k + 1 + 1 + 1 := by omega
      rw [e]; simp [List.drop_succ_cons]
  | case2 => simp [triples]
  | case3 l h1 h2 =>
    have hl : l.length = 1 ∨ l.length = 2 := by
      match l, h1, h2 with
      | [_], _, _ => simp
      | [_, _], _, _ => simp
      | [], _, h2 => exact absurd rfl h2
      | a :: b :: c :: r, h1, _ => exact absurd rfl (h1 a b c r)
    have ht : triples l = [l] := by
      match l, h1, h2 with
      | [_], _, _ => rfl
      | [_, _], _, _ => rfl
      | [], _, h2 => exact absurd rfl h2
      | a :: b :: c :: r, h1, _ => exact absurd rfl (h1 a b c r)
    rw [ht]
    refine ⟨by simp; omega, ?_⟩
    intro k hk
    have : k = 0 := by omega
    subst this
    simp
    rw [List.take_of_length_le (by omega)]


theorem bitsToNat_lt (c : Bits) : bitsToNat c < 2 ^ c.length := by
  unfold bitsToNat
  have : ∀ (c : Bits) (acc : Nat), c.foldl (fun acc b => 2 * acc + b.toNat) acc < (acc + 1) * 2 ^ c.length := by
    intro c
    induction c with
    | nil => intro acc; simp
    | cons b t ih =>
      intro acc
      have := ih (2 * acc + b.toNat)
      simp only [List.foldl_cons, List.length_cons, Nat.pow_succ]
      have hb : b.toNat ≤ 1 := by cases b <;> simp
      calc _ < (2 * acc + b.toNat + 1) * 2 ^ t.length := this
        _ ≤ (2 * acc + 2) * 2 ^ t.length := Nat.mul_le_mul_right _ (by omega)
        _ = (acc + 1) * (2 ^ t.length * 2) := by rw [Nat.mul_comm (2 ^ t.length) 2, ← Nat.mul_assoc]; congr 1; omega
  simpa using this c 0

/-- `bits_to_tribits`, every bit string: the model's `bitsToTribits` for a big-endian bitarray; it never raises -/
theorem bits_to_tribits_eq (original : Bits) :
    bits_to_tribits original = .ok ((bitsToTribits false original).map (fun x : Nat => (x : Int))) := by
  unfold bits_to_tribits bitsToTribits
  obtain ⟨hl, hg⟩ := triples_get original
  apply forEach_sim_bind (fun (s : List Int) (t : List Nat) => s = t.map (fun x : Nat => (x : Int)))
    (fun t c => t ++ [tribitOf false c]) (triples original) []
  · simp only [range3p, List.length_map, List.length_range, hl, len_eq]; omega
  · rfl
  · intro i h₁ h₂ s t hs
    subst hs
    have hi : i < (original.length + 2) / 3 := by omega
    have hi3 : 3 * i < original.length := by omega
    have hm : (triples original)[i] = (original.drop (3 * i)).take 3 := by
      have := hg i hi
      rw [List.getElem?_eq_getElem h₂] at this
      exact Option.some.inj this
    have hidx : (range3p 0 (len original) 3)[i] = ((3 * i : Nat) : Int) := by
      simp [range3p]
    have e2 : ((3 * i : Nat) : Int) + 3 = ((3 * i + 3 : Nat) : Int) := by push_cast; rfl
    have hsl : slice original (some ((3 * i : Nat) : Int)) (some ((3 * i + 3 : Nat) : Int)) = (original.drop (3 * i)).take 3 := by
      rw [slice_ofNat_ofNat, Nat.min_eq_left (Nat.le_of_lt hi3), List.take_eq_take_iff]
      simp only [List.length_drop]; omega
    have hne : 0 < ((original.drop (3 * i)).take 3).length := by simp; omega
    have hlt : bitsToNat ((original.drop (3 * i)).take 3) < 8 := by
      have := bitsToNat_lt ((original.drop (3 * i)).take 3)
      have h3 : ((original.drop (3 * i)).take 3).length ≤ 3 := by simp; omega
      have : 2 ^ ((original.drop (3 * i)).take 3).length ≤ 2 ^ 3 := Nat.pow_le_pow_right (by omega) h3
      omega
    refine ⟨_, ?_, rfl⟩
    rw [hidx, hm]
    simp only [e2, hsl, PyBits.ba2int_of_length_pos _ hne, ok_bind, PyArr.appendArr, tribitOf]
    have : (0 : Int) ≤ ((bitsToNat ((original.drop (3 * i)).take 3) : Nat) : Int) ∧
        ((bitsToNat ((original.drop (3 * i)).take 3) : Nat) : Int) ≤ 255 := by omega
    simp [this]
  · intro s' hs
    subst hs
    have hf : ∀ (cs : List Bits) (acc : List Nat),
        cs.foldl (fun t c => t ++ [tribitOf false c]) acc = acc ++ cs.map (tribitOf false) := by
      intro cs
      induction cs with
      | nil => intro acc; simp
      | cons c cs ih => intro acc; simp [ih]
    rw [hf]
    simp [PyArr.appendArr]


/-! ### `points_to_dibits` -/
open Dmr.Gen.Trellis

theorem rev_table : TRELLIS34_CONSTELLATION_POINTS_REVERSE = constellationReverse.map (fun e => ((e.1 : Int), e.2)) := by
  decide +kernel

theorem lookup_cast {ν : Type} (tbl : List (Nat × ν)) (p : Nat) :
    (tbl.map (fun e => ((e.1 : Int), e.2))).lookup (p : Int) = tbl.lookup p := by
  induction tbl with
  | nil => rfl
  | cons e t ih =>
    obtain ⟨k, w⟩ := e
    by_cases h : p = k
    · subst h; simp [List.lookup_cons]
    · have h1 : ((p : Int) == (k : Int)) = false := by simp; omega
      have h2 : (p == k) = false := by simp [h]
      simp only [List.map_cons, List.lookup_cons, h1, h2, ih]

theorem rev_range : ∀ e ∈ constellationReverse, (-128 : Int) ≤ e.2.1 ∧ e.2.1 ≤ 127 ∧ (-128 : Int) ≤ e.2.2 ∧ e.2.2 ≤ 127 := by
  decide

theorem lookup_mem {ν : Type} (tbl : List (Nat × ν)) (p : Nat) (v : ν) (h : tbl.lookup p = some v) : (p, v) ∈ tbl := by
  induction tbl with
  | nil => simp at h
  | cons e t ih =>
    obtain ⟨k, w⟩ := e
    simp only [List.lookup_cons] at h
    by_cases hp : p = k
    · subst hp
      rw [show (p == p) = true by simp] at h
      cases h; simp
    · have : (p == k) = false := by simp [hp]
      rw [this] at h
      exact List.mem_cons_of_mem _ (ih h)

/-- the body of the loop of `points_to_dibits` -/
def p2dBody (constellation : Int) (out : List Int) : PyM (List Int) := do
  let out ← Py.forEach ((fun p => [p.1, p.2]) (← PyArr.dictGet TRELLIS34_CONSTELLATION_POINTS_REVERSE constellation)) out
    fun dibit out => PyArr.appendArr (-128) 127 out dibit
  pure out

theorem p2dBody_nat (p : Nat) (acc : List Int) : p2dBody (p : Int) acc =
    match constellationReverse.lookup p with
    | some v => .ok (acc ++ [v.1, v.2])
    | none => .error (.other "KeyError") := by
  unfold p2dBody PyArr.dictGet
  rw [rev_table, lookup_cast]
  cases hl : constellationReverse.lookup p with
  | none => rfl
  | some v =>
    have hr := rev_range _ (lookup_mem _ _ _ hl)
    simp [PyArr.appendArr, hr.1, hr.2.1, hr.2.2.1, hr.2.2.2]

theorem points_to_dibits_loop (ps : List Nat) : ∀ acc : List Int,
    Py.forEach (ps.map (fun x : Nat => (x : Int))) acc p2dBody
    = match pointsToDibits ps with
      | .ok r => .ok (acc ++ r)
      | .error e => .error (errOf e) := by
  induction ps with
  | nil => intro acc; simp [pointsToDibits]
  | cons p ps ih =>
    intro acc
    rw [List.map_cons, forEach_cons, p2dBody_nat]
    unfold pointsToDibits lookupR
    cases hl : constellationReverse.lookup p with
    | none => rfl
    | some v =>
      obtain ⟨a, b⟩ := v
      simp only [ok_bind]
      rw [ih]
      cases pointsToDibits ps with
      | error e => rfl
      | ok r => simp

/-- `points_to_dibits`, every array of naturals: the model's `pointsToDibits`, `KeyError` included -/
theorem points_to_dibits_eq (ps : List Nat) :
    points_to_dibits (ps.map (fun x : Nat => (x : Int))) = ofR id (pointsToDibits ps) := by
  have : points_to_dibits (ps.map (fun x : Nat => (x : Int)))
      = Py.forEach (ps.map (fun x : Nat => (x : Int))) [] p2dBody := by
    unfold points_to_dibits p2dBody; rfl
  rw [this, points_to_dibits_loop]
  cases pointsToDibits ps with
  | error e => rfl
  | ok r => simp [ofR]


end Dmr.Transl.Trellis
