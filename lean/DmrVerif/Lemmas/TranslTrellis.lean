import DmrVerif.Gen.TranslTrellis
import DmrVerif.Model.Trellis

/-!
Stage equalities between the definitions TRANSLATED from the source of `etsi/fec/trellis.py` (`Gen/TranslTrellis.lean`) and the
hand-written model `Model/Trellis.lean` (C10).  Proved so far: `bits_to_tribits`, `points_to_dibits` (all inputs, `KeyError`
included).  The other stages are translated and differentially validated only (TRANSL_NOTES.md).
-/

namespace Dmr.Transl.Trellis
open Dmr Dmr.Py Dmr.Trellis

/-- the model's exceptions as Python exceptions -/
def errOf : Dmr.Trellis.Err → PyErr
  | .assertion => .assertion
  | .index => .index
  | .key => .other "KeyError"

def ofR {α β : Type} (f : α → β) : Dmr.Trellis.R α → PyM β
  | .ok v => .ok (f v)
  | .error e => .error (errOf e)

theorem triples_get : ∀ (l : Bits),
    (triples l).length = (l.length + 2) / 3 ∧
    ∀ k, k < (l.length + 2) / 3 → (triples l)[k]? = some ((l.drop (3 * k)).take 3) := by
  intro l
  induction l using triples.induct with
  | case1 a b c r ih =>
    obtain ⟨h1, h2⟩ := ih
    refine ⟨by simp only [triples, List.length_cons, h1]; omega, ?_⟩
    intro k hk
    cases k with
    | zero => simp [triples]
    | succ k =>
      have := h2 k (by simp only [List.length_cons] at hk; omega)
      simp only [triples, List.getElem?_cons_succ, this]
      have e : 3 * (k + 1) = 3 * k + 1 + 1 + 1 := by omega
      rw [e]; simp [List.drop_succ_cons]
  | case2 => simp [triples]
  | case3 l h1 h2 =>
    have hl : l.length = 1 ∨ l.length = 2 := by
      match l, h1, h2 with
      | [_], _, _ => simp
      | [_, _], _, _ => simp
      | [], _, h2 => exact absurd rfl h2
      | a :: b :: c :: r, h1, _ => exact absurd rfl (h1 a b c r)
    have ht : triples l = [l] := by
      match l, h1, h2 with
      | [_], _, _ => rfl
      | [_, _], _, _ => rfl
      | [], _, h2 => exact absurd rfl h2
      | a :: b :: c :: r, h1, _ => exact absurd rfl (h1 a b c r)
    rw [ht]
    refine ⟨by simp; omega, ?_⟩
    intro k hk
    have : k = 0 := by omega
    subst this
    simp
    rw [List.take_of_length_le (by omega)]


theorem bitsToNat_lt (c : Bits) : bitsToNat c < 2 ^ c.length := by
  unfold bitsToNat
  have : ∀ (c : Bits) (acc : Nat), c.foldl (fun acc b => 2 * acc + b.toNat) acc < (acc + 1) * 2 ^ c.length := by
    intro c
    induction c with
    | nil => intro acc; simp
    | cons b t ih =>
      intro acc
      have := ih (2 * acc + b.toNat)
      simp only [List.foldl_cons, List.length_cons, Nat.pow_succ]
      have hb : b.toNat ≤ 1 := by cases b <;> simp
      calc _ < (2 * acc + b.toNat + 1) * 2 ^ t.length := this
        _ ≤ (2 * acc + 2) * 2 ^ t.length := Nat.mul_le_mul_right _ (by omega)
        _ = (acc + 1) * (2 ^ t.length * 2) := by rw [Nat.mul_comm (2 ^ t.length) 2, ← Nat.mul_assoc]; congr 1; omega
  simpa using this c 0

/-- `bits_to_tribits`, every bit string: the model's `bitsToTribits` for a big-endian bitarray; it never raises -/
theorem bits_to_tribits_eq (original : Bits) :
    bits_to_tribits original = .ok ((bitsToTribits false original).map (fun x : Nat => (x : Int))) := by
  unfold bits_to_tribits bitsToTribits
  obtain ⟨hl, hg⟩ := triples_get original
  apply forEach_sim_bind (fun (s : List Int) (t : List Nat) => s = t.map (fun x : Nat => (x : Int)))
    (fun t c => t ++ [tribitOf false c]) (triples original) []
  · simp only [range3p, List.length_map, List.length_range, hl, len_eq]; omega
  · rfl
  · intro i h₁ h₂ s t hs
    subst hs
    have hi : i < (original.length + 2) / 3 := by omega
    have hi3 : 3 * i < original.length := by omega
    have hm : (triples original)[i] = (original.drop (3 * i)).take 3 := by
      have := hg i hi
      rw [List.getElem?_eq_getElem h₂] at this
      exact Option.some.inj this
    have hidx : (range3p 0 (len original) 3)[i] = ((3 * i : Nat) : Int) := by
      simp [range3p]
    have e2 : ((3 * i : Nat) : Int) + 3 = ((3 * i + 3 : Nat) : Int) := by push_cast; rfl
    have hsl : slice original (some ((3 * i : Nat) : Int)) (some ((3 * i + 3 : Nat) : Int)) = (original.drop (3 * i)).take 3 := by
      rw [slice_ofNat_ofNat, Nat.min_eq_left (Nat.le_of_lt hi3), List.take_eq_take_iff]
      simp only [List.length_drop]; omega
    have hne : 0 < ((original.drop (3 * i)).take 3).length := by simp; omega
    have hlt : bitsToNat ((original.drop (3 * i)).take 3) < 8 := by
      have := bitsToNat_lt ((original.drop (3 * i)).take 3)
      have h3 : ((original.drop (3 * i)).take 3).length ≤ 3 := by simp; omega
      have : 2 ^ ((original.drop (3 * i)).take 3).length ≤ 2 ^ 3 := Nat.pow_le_pow_right (by omega) h3
      omega
    refine ⟨_, ?_, rfl⟩
    rw [hidx, hm]
    simp only [e2, hsl, PyBits.ba2int_of_length_pos _ hne, ok_bind, PyArr.appendArr, tribitOf]
    have : (0 : Int) ≤ ((bitsToNat ((original.drop (3 * i)).take 3) : Nat) : Int) ∧
        ((bitsToNat ((original.drop (3 * i)).take 3) : Nat) : Int) ≤ 255 := by omega
    simp [this]
  · intro s' hs
    subst hs
    have hf : ∀ (cs : List Bits) (acc : List Nat),
        cs.foldl (fun t c => t ++ [tribitOf false c]) acc = acc ++ cs.map (tribitOf false) := by
      intro cs
      induction cs with
      | nil => intro acc; simp
      | cons c cs ih => intro acc; simp [ih]
    rw [hf]
    simp [PyArr.appendArr]


/-! ### `points_to_dibits` -/
open Dmr.Gen.Trellis

theorem rev_table : TRELLIS34_CONSTELLATION_POINTS_REVERSE = constellationReverse.map (fun e => ((e.1 : Int), e.2)) := by
  decide +kernel

theorem lookup_cast {ν : Type} (tbl : List (Nat × ν)) (p : Nat) :
    (tbl.map (fun e => ((e.1 : Int), e.2))).lookup (p : Int) = tbl.lookup p := by
  induction tbl with
  | nil => rfl
  | cons e t ih =>
    obtain ⟨k, w⟩ := e
    by_cases h : p = k
    · subst h; simp [List.lookup_cons]
    · have h1 : ((p : Int) == (k : Int)) = false := by simp; omega
      have h2 : (p == k) = false := by simp [h]
      simp only [List.map_cons, List.lookup_cons, h1, h2, ih]

theorem rev_range : ∀ e ∈ constellationReverse, (-128 : Int) ≤ e.2.1 ∧ e.2.1 ≤ 127 ∧ (-128 : Int) ≤ e.2.2 ∧ e.2.2 ≤ 127 := by
  decide

theorem lookup_mem {ν : Type} (tbl : List (Nat × ν)) (p : Nat) (v : ν) (h : tbl.lookup p = some v) : (p, v) ∈ tbl := by
  induction tbl with
  | nil => simp at h
  | cons e t ih =>
    obtain ⟨k, w⟩ := e
    simp only [List.lookup_cons] at h
    by_cases hp : p = k
    · subst hp
      rw [show (p == p) = true by simp] at h
      cases h; simp
    · have : (p == k) = false := by simp [hp]
      rw [this] at h
      exact List.mem_cons_of_mem _ (ih h)

/-- the body of the loop of `points_to_dibits` -/
def p2dBody (constellation : Int) (out : List Int) : PyM (List Int) := do
  let out ← Py.forEach ((fun p => [p.1, p.2]) (← PyArr.dictGet TRELLIS34_CONSTELLATION_POINTS_REVERSE constellation)) out
    fun dibit out => PyArr.appendArr (-128) 127 out dibit
  pure out

theorem p2dBody_nat (p : Nat) (acc : List Int) : p2dBody (p : Int) acc =
    match constellationReverse.lookup p with
    | some v => .ok (acc ++ [v.1, v.2])
    | none => .error (.other "KeyError") := by
  unfold p2dBody PyArr.dictGet
  rw [rev_table, lookup_cast]
  cases hl : constellationReverse.lookup p with
  | none => rfl
  | some v =>
    have hr := rev_range _ (lookup_mem _ _ _ hl)
    simp [PyArr.appendArr, hr.1, hr.2.1, hr.2.2.1, hr.2.2.2]

theorem points_to_dibits_loop (ps : List Nat) : ∀ acc : List Int,
    Py.forEach (ps.map (fun x : Nat => (x : Int))) acc p2dBody
    = match pointsToDibits ps with
      | .ok r => .ok (acc ++ r)
      | .error e => .error (errOf e) := by
  induction ps with
  | nil => intro acc; simp [pointsToDibits]
  | cons p ps ih =>
    intro acc
    rw [List.map_cons, forEach_cons, p2dBody_nat]
    unfold pointsToDibits lookupR
    cases hl : constellationReverse.lookup p with
    | none => rfl
    | some v =>
      obtain ⟨a, b⟩ := v
      simp only [ok_bind]
      rw [ih]
      cases pointsToDibits ps with
      | error e => rfl
      | ok r => simp

/-- `points_to_dibits`, every array of naturals: the model's `pointsToDibits`, `KeyError` included -/
theorem points_to_dibits_eq (ps : List Nat) :
    points_to_dibits (ps.map (fun x : Nat => (x : Int))) = ofR id (pointsToDibits ps) := by
  have : points_to_dibits (ps.map (fun x : Nat => (x : Int)))
      = Py.forEach (ps.map (fun x : Nat => (x : Int))) [] p2dBody := by
    unfold points_to_dibits p2dBody; rfl
  rw [this, points_to_dibits_loop]
  cases pointsToDibits ps with
  | error e => rfl
  | ok r => simp [ofR]


/-! ### index loops over a pre-allocated array -/

/-- the index list of a `for i in range(k, k + m)` loop -/
def idxs (k m : Nat) : List Int := (List.range m).map (fun j => ((k + j : Nat) : Int))

theorem idxs_zero (k : Nat) : idxs k 0 = [] := rfl
theorem idxs_succ (k m : Nat) : idxs k (m + 1) = (k : Int) :: idxs (k + 1) m := by
  unfold idxs
  rw [List.range_succ_eq_map, List.map_cons, List.map_map]
  simp only [Nat.add_zero, List.cons.injEq, true_and]
  apply List.map_congr_left
  intro j _
  simp only [Function.comp]; congr 1; omega

theorem range2_idxs (n : Nat) : range2 0 (n : Int) = idxs 0 n := by
  unfold range2 idxs
  simp

theorem getI_mid (A B : List Int) (x : Int) : getI (A ++ x :: B) (A.length : Int) = .ok x := by
  rw [getI_ofNat]; simp

theorem getI_cast_mid (done ts : List Nat) (t : Nat) :
    getI ((done ++ t :: ts).map (fun x : Nat => (x : Int))) (done.length : Int) = .ok (t : Int) := by
  rw [getI_ofNat]; simp

theorem getI_cast_end (done : List Nat) :
    getI (done.map (fun x : Nat => (x : Int))) (done.length : Int) = .error .index := by
  rw [getI_ofNat]; simp

theorem setArr_mid (lo hi : Int) (A B : List Int) (x v : Int) (h : lo ≤ v ∧ v ≤ hi) :
    PyArr.setArr lo hi (A ++ x :: B) v (A.length : Int) = .ok (A ++ v :: B) := by
  unfold PyArr.setArr
  rw [normIndex_ofNat]
  have : A.length < (A ++ x :: B).length := by simp
  simp [this, h]

theorem zeros_succ (m : Nat) : PyArr.zeros ((m + 1 : Nat) : Int) = 0 :: PyArr.zeros (m : Int) := by
  unfold PyArr.zeros; simp [List.replicate_succ]

/-! ### `tribits_to_points` -/

theorem trans_table : TRELLIS34_ENCODER_STATE_TRANSITION = transition := by decide +kernel
theorem trans_range : ∀ p ∈ transition, p < 256 := by decide

def t2pBody (tribits : List Int) (i : Int) (x : List Int × Int) : PyM (List Int × Int) :=
  match x with
  | (out, state) => do
    let out ← PyArr.setArr 0 255 out (← getB TRELLIS34_ENCODER_STATE_TRANSITION (state * 8 + (← getI tribits i))) i
    let state ← getI tribits i
    pure (out, state)

theorem t2p_loop : ∀ (ts done : List Nat) (A : List Int) (st : Nat), A.length = done.length →
    (forEach (idxs done.length ts.length) (A ++ PyArr.zeros (ts.length : Int), (st : Int))
        (t2pBody ((done ++ ts).map (fun x : Nat => (x : Int)))) >>= fun x => pure x.1)
    = match emit st ts with
      | .ok ps => .ok (A ++ ps.map (fun x : Nat => (x : Int)))
      | .error e => .error (errOf e) := by
  intro ts
  induction ts with
  | nil => intro done A st _; simp [idxs, PyArr.zeros, emit]
  | cons t ts ih =>
    intro done A st hA
    rw [List.length_cons, idxs_succ, forEach_cons, zeros_succ, bind_assoc]
    have hb : t2pBody ((done ++ t :: ts).map (fun x : Nat => (x : Int))) (done.length : Int)
        (A ++ 0 :: PyArr.zeros (ts.length : Int), (st : Int))
        = match transition[st * 8 + t]? with
          | some p => .ok (A ++ (p : Int) :: PyArr.zeros (ts.length : Int), (t : Int))
          | none => .error .index := by
      unfold t2pBody
      simp only [getI_cast_mid, ok_bind]
      have e : (st : Int) * 8 + (t : Int) = ((st * 8 + t : Nat) : Int) := by push_cast; rfl
      rw [e, getB_ofNat, trans_table]
      cases hp : transition[st * 8 + t]? with
      | none => rfl
      | some p =>
        have hr : p < 256 := trans_range p (List.mem_of_getElem? hp)
        simp only [ok_bind]
        rw [← hA, setArr_mid 0 255 A _ 0 (p : Int) (by omega)]
        rfl
    rw [hb]
    unfold emit indexR
    cases hp : transition[st * 8 + t]? with
    | none => rfl
    | some p =>
      simp only [ok_bind]
      have := ih (done ++ [t]) (A ++ [(p : Int)]) t (by simp [hA])
      simp only [List.length_append, List.length_cons, List.length_nil, List.append_assoc, List.cons_append,
        List.nil_append] at this
      rw [this]
      cases emit t ts with
      | error e => rfl
      | ok ps => simp

/-- `tribits_to_points`, every array of naturals: the model's `tribitsToPoints` (`IndexError` of the table read included) -/
theorem tribits_to_points_eq (ts : List Nat) :
    tribits_to_points (ts.map (fun x : Nat => (x : Int))) = ofR (List.map (fun x : Nat => (x : Int))) (tribitsToPoints ts) := by
  have h : tribits_to_points (ts.map (fun x : Nat => (x : Int)))
      = (forEach (range2 0 (len (ts.map (fun x : Nat => (x : Int)))))
          (PyArr.zeros (len (ts.map (fun x : Nat => (x : Int)))), (0 : Int))
          (t2pBody (ts.map (fun x : Nat => (x : Int)))) >>= fun x => pure x.1) := by
    unfold tribits_to_points t2pBody; rfl
  rw [h]
  simp only [len_eq, List.length_map, range2_idxs]
  have := t2p_loop ts [] [] 0 rfl
  simp only [List.nil_append, List.length_nil] at this
  rw [show ((0 : Nat) : Int) = 0 from rfl] at this
  rw [this]
  unfold tribitsToPoints
  cases emit 0 ts with
  | error e => rfl
  | ok ps => rfl



/-! ### `interleave`, `deinterleave` -/

/-- every item fits `array('b')` (what an array of dibits can hold) -/
def isChars (d : List Int) : Prop := ∀ x ∈ d, (-128 : Int) ≤ x ∧ x ≤ 127

theorem matrix_table : TRELLIS34_INTERLEAVE_MATRIX = interleaveMatrix := by decide +kernel
theorem matrix_length : interleaveMatrix.length = 98 := by decide

theorem getB_mid (A B : List Nat) (x : Nat) : getB (A ++ x :: B) (A.length : Int) = .ok (x : Int) := by
  rw [getB_ofNat]; simp

def intBody (d : List Int) (i : Int) (out : List Int) : PyM (List Int) := do
  PyArr.setArr (-128) 127 out (← getI d (← getB TRELLIS34_INTERLEAVE_MATRIX i)) i

theorem gatherR_length (d : List Int) : ∀ ms vs, gatherR d ms = .ok vs → vs.length = ms.length := by
  intro ms
  induction ms with
  | nil => intro vs h; simp [gatherR] at h; subst h; rfl
  | cons m ms ih =>
    intro vs h
    unfold gatherR indexR at h
    cases hv : d[m]? with
    | none => simp [hv] at h
    | some v =>
      simp only [hv] at h
      cases hg : gatherR d ms with
      | error e => simp [hg] at h
      | ok r =>
        simp only [hg, Except.ok.injEq] at h
        subst h
        simp [ih r hg]

theorem int_loop (d : List Int) (hd : isChars d) : ∀ (ms doneM : List Nat) (A B : List Int),
    TRELLIS34_INTERLEAVE_MATRIX = doneM ++ ms → A.length = doneM.length → B.length = ms.length →
    forEach (idxs doneM.length ms.length) (A ++ B) (intBody d)
    = match gatherR d ms with
      | .ok vs => .ok (A ++ vs)
      | .error e => .error (errOf e) := by
  intro ms
  induction ms with
  | nil =>
    intro doneM A B _ _ hB
    have : B = [] := List.eq_nil_of_length_eq_zero hB
    subst this
    simp [idxs, gatherR]
  | cons m ms ih =>
    intro doneM A B hM hA hB
    obtain ⟨b, B', rfl⟩ : ∃ b B', B = b :: B' := by
      cases B with
      | nil => simp at hB
      | cons b B' => exact ⟨b, B', rfl⟩
    rw [List.length_cons, idxs_succ, forEach_cons]
    have hb : intBody d (doneM.length : Int) (A ++ b :: B')
        = match d[m]? with
          | some v => .ok (A ++ v :: B')
          | none => .error .index := by
      unfold intBody
      rw [hM, getB_mid]
      simp only [ok_bind, getI_ofNat]
      cases hv : d[m]? with
      | none => rfl
      | some v =>
        simp only [ok_bind]
        rw [← hA, setArr_mid (-128) 127 A B' b v (hd v (List.mem_of_getElem? hv))]
    rw [hb]
    unfold gatherR indexR
    cases hv : d[m]? with
    | none => rfl
    | some v =>
      simp only [ok_bind]
      have := ih (doneM ++ [m]) (A ++ [v]) B' (by rw [hM]; simp) (by simp [hA]) (by simpa using hB)
      simp only [List.length_append, List.length_cons, List.length_nil, List.append_assoc, List.cons_append,
        List.nil_append] at this
      rw [this]
      cases gatherR d ms with
      | error e => rfl
      | ok r => simp

/-- `interleave`, every array of dibit-range items: the model's `interleave` (`IndexError` for a short array included) -/
theorem interleave_eq (d : List Int) (hd : isChars d) : Transl.Trellis.interleave d = ofR id (Dmr.Trellis.interleave d) := by
  have h : Transl.Trellis.interleave d = forEach (range2 0 (len TRELLIS34_INTERLEAVE_MATRIX)) (PyArr.zeros 98) (intBody d) := by
    unfold Transl.Trellis.interleave intBody; rfl
  rw [h]
  have hl : len TRELLIS34_INTERLEAVE_MATRIX = ((98 : Nat) : Int) := by rw [matrix_table, len_eq, matrix_length]
  rw [hl, range2_idxs]
  have := int_loop d hd TRELLIS34_INTERLEAVE_MATRIX [] [] (PyArr.zeros 98) rfl rfl
    (by rw [matrix_table, matrix_length]; rfl)
  simp only [List.nil_append, List.length_nil] at this
  rw [matrix_table, matrix_length] at this
  rw [this]
  unfold Dmr.Trellis.interleave
  cases hg : gatherR d interleaveMatrix with
  | error e => rfl
  | ok vs =>
    have hvl := gatherR_length d _ _ hg
    rw [matrix_length] at hvl
    simp [hvl, ofR]


def deintBody (original : List Int) (i : Int) (out : List Int) : PyM (List Int) := do
  let v ← getI original i
  PyArr.setArr (-128) 127 out v (← getB TRELLIS34_INTERLEAVE_MATRIX i)

theorem getI_mid' (A B : List Int) (x : Int) (k : Nat) (h : k = A.length) : getI (A ++ x :: B) (k : Int) = .ok x := by
  subst h; exact getI_mid A B x

theorem deint_loop (n : Nat) : ∀ (ms doneM : List Nat) (vs doneV out : List Int),
    TRELLIS34_INTERLEAVE_MATRIX = doneM ++ ms → doneM.length = doneV.length → out.length = n → isChars (doneV ++ vs) →
    forEach (idxs doneM.length ms.length) out (deintBody (doneV ++ vs))
    = ofR id (scatter n ms vs out) := by
  intro ms
  induction ms with
  | nil => intro doneM vs doneV out _ _ _ _; simp [idxs, scatter, ofR]
  | cons m ms ih =>
    intro doneM vs doneV out hM hL hn hc
    rw [List.length_cons, idxs_succ, forEach_cons]
    cases vs with
    | nil =>
      have : deintBody (doneV ++ []) (doneM.length : Int) out = .error .index := by
        unfold deintBody
        rw [hL, List.append_nil, getI_ofNat]
        simp
      rw [this]; rfl
    | cons v vs =>
      have hv : (-128 : Int) ≤ v ∧ v ≤ 127 := hc v (by simp)
      have hb : deintBody (doneV ++ v :: vs) (doneM.length : Int) out
          = if m < n then .ok (out.set m v) else .error .index := by
        unfold deintBody
        rw [getI_mid' doneV vs v _ hL]
        simp only [ok_bind]
        rw [hM, getB_mid]
        simp only [ok_bind, PyArr.setArr, normIndex_ofNat, hn]
        by_cases hm : m < n <;> simp [hm, hv]
      rw [hb]
      unfold scatter
      by_cases hm : m < n
      · simp only [hm, if_true, ok_bind]
        have := ih (doneM ++ [m]) vs (doneV ++ [v]) (out.set m v) (by rw [hM]; simp) (by simp [hL]) (by simp [hn])
          (by simpa using hc)
        simp only [List.length_append, List.length_cons, List.length_nil, List.append_assoc, List.cons_append,
          List.nil_append] at this
        exact this
      · simp only [hm, if_false]; rfl

/-- `deinterleave`, every array of dibit-range items: the model's `deinterleave` (`IndexError`s included) -/
theorem deinterleave_eq (d : List Int) (hd : isChars d) :
    Transl.Trellis.deinterleave d = ofR id (Dmr.Trellis.deinterleave d) := by
  have h : Transl.Trellis.deinterleave d
      = forEach (range2 0 (len TRELLIS34_INTERLEAVE_MATRIX)) (PyArr.zeros (len d)) (deintBody d) := by
    unfold Transl.Trellis.deinterleave deintBody; rfl
  rw [h]
  have hl : len TRELLIS34_INTERLEAVE_MATRIX = ((98 : Nat) : Int) := by rw [matrix_table, len_eq, matrix_length]
  rw [hl, range2_idxs]
  have := deint_loop d.length TRELLIS34_INTERLEAVE_MATRIX [] d [] (PyArr.zeros (len d)) rfl rfl
    (by simp [PyArr.zeros]) (by simpa using hd)
  simp only [List.nil_append, List.length_nil] at this
  rw [matrix_table, matrix_length] at this
  rw [this]
  unfold Dmr.Trellis.deinterleave
  simp [PyArr.zeros]



/-! ### `dibits_to_bits` -/

theorem drev_table : TRELLIS34_DIBITS_REVERSE = dibitsReverse.map (fun e => (e.1, (ofBool e.2.1, ofBool e.2.2))) := by
  decide +kernel

theorem lookup_mapval {κ ν μ : Type} [BEq κ] (f : ν → μ) (tbl : List (κ × ν)) (k : κ) :
    (tbl.map (fun e => (e.1, f e.2))).lookup k = (tbl.lookup k).map f := by
  induction tbl with
  | nil => rfl
  | cons e t ih =>
    obtain ⟨a, w⟩ := e
    simp only [List.map_cons, List.lookup_cons, ih]
    cases (k == a) <;> rfl

theorem bitOfInt_ofBool (b : Bool) : PyBits.bitOfInt (ofBool b) = .ok b := by cases b <;> rfl

def d2bBody (dibit : Int) (out : List Bool) : PyM (List Bool) := do
  let out ← Py.forEach ((fun p => [p.1, p.2]) (← PyArr.dictGet TRELLIS34_DIBITS_REVERSE dibit)) out
    fun bit out => do pure (out ++ [(← PyBits.bitOfInt bit)])
  pure out

theorem d2bBody_eq (d : Int) (acc : List Bool) : d2bBody d acc =
    match dibitsReverse.lookup d with
    | some v => .ok (acc ++ [v.1, v.2])
    | none => .error (.other "KeyError") := by
  unfold d2bBody PyArr.dictGet
  rw [drev_table, lookup_mapval (fun v : Bool × Bool => (ofBool v.1, ofBool v.2))]
  cases dibitsReverse.lookup d with
  | none => rfl
  | some v => simp [bitOfInt_ofBool]

theorem d2b_loop (ds : List Int) : ∀ acc : List Bool,
    Py.forEach ds acc d2bBody = match dibitsToBits ds with
      | .ok r => .ok (acc ++ r)
      | .error e => .error (errOf e) := by
  induction ds with
  | nil => intro acc; simp [dibitsToBits]
  | cons d ds ih =>
    intro acc
    rw [forEach_cons, d2bBody_eq]
    unfold dibitsToBits lookupR
    cases dibitsReverse.lookup d with
    | none => rfl
    | some v =>
      obtain ⟨a, b⟩ := v
      simp only [ok_bind]
      rw [ih]
      cases dibitsToBits ds with
      | error e => rfl
      | ok r => simp

/-- `dibits_to_bits`, every array: the model's `dibitsToBits`, `KeyError` included -/
theorem dibits_to_bits_eq (ds : List Int) : dibits_to_bits ds = ofR id (dibitsToBits ds) := by
  have : dibits_to_bits ds = Py.forEach ds [] d2bBody := by
    unfold dibits_to_bits d2bBody; rfl
  rw [this, d2b_loop]
  cases dibitsToBits ds with
  | error e => rfl
  | ok r => simp [ofR]



/-! ### `encode` -/

theorem pointsToDibits_chars : ∀ (ps : List Nat) (ds : List Int), pointsToDibits ps = .ok ds → isChars ds := by
  intro ps
  induction ps with
  | nil => intro ds h; simp [pointsToDibits] at h; subst h; intro x hx; simp at hx
  | cons p ps ih =>
    intro ds h
    unfold pointsToDibits lookupR at h
    cases hl : constellationReverse.lookup p with
    | none => simp [hl] at h
    | some v =>
      obtain ⟨a, b⟩ := v
      simp only [hl] at h
      cases hr : pointsToDibits ps with
      | error e => simp [hr] at h
      | ok r =>
        simp only [hr, Except.ok.injEq] at h
        subst h
        have hab := rev_range _ (lookup_mem _ _ _ hl)
        intro x hx
        simp only [List.mem_cons] at hx
        rcases hx with rfl | rfl | hx
        · exact ⟨hab.1, hab.2.1⟩
        · exact ⟨hab.2.2.1, hab.2.2.2⟩
        · exact ih r hr x hx

/-- `encode(bitarray)`, every bit string: the model's `encode` -/
theorem encode_eq (b : Bits) : Transl.Trellis.encode b = ofR id (Dmr.Trellis.encode b) := by
  unfold Transl.Trellis.encode Dmr.Trellis.encode encodeEndian
  rw [assert_bind]
  by_cases hl : b.length < 144
  · have hc : ¬ (decide (len b ≥ 144) = true) := by rw [decide_eq_true_eq, len_eq]; omega
    rw [if_neg hc, if_pos hl]; rfl
  · have hc : decide (len b ≥ 144) = true := by rw [decide_eq_true_eq, len_eq]; omega
    rw [if_pos hc, if_neg hl]
    simp only [slice_none_lit, bits_to_tribits_eq, ok_bind, tribits_to_points_eq]
    cases hp : tribitsToPoints (bitsToTribits false (List.take 144 b)) with
    | error e => rfl
    | ok ps =>
      simp only [ofR, ok_bind, points_to_dibits_eq]
      cases hd : pointsToDibits ps with
      | error e => rfl
      | ok ds =>
        simp only [ofR, id, ok_bind, interleave_eq ds (pointsToDibits_chars ps ds hd)]
        cases hi : Dmr.Trellis.interleave ds with
        | error e => rfl
        | ok ids =>
          simp only [ofR, id, ok_bind, dibits_to_bits_eq, pure_eq_ok]

/-- `encode(bytes)`: the model's `encodeBytes` -/
theorem encode_bytes_eq (d : Bytes) : Transl.Trellis.encode_bytes d = ofR id (Dmr.Trellis.encodeBytes d) := by
  have : Transl.Trellis.encode_bytes d = Transl.Trellis.encode (bytesToBits d) := by
    unfold Transl.Trellis.encode_bytes Transl.Trellis.encode PyBits.frombytes
    simp only [List.nil_append]
  rw [this, encode_eq]; rfl



/-! ### `bits_to_dibits`, `dibits_to_points`: loops over pairs -/

theorem pairs_induct {α : Type} {P : List α → Prop} (h0 : P []) (h1 : ∀ x, P [x])
    (h2 : ∀ a b r, P r → P (a :: b :: r)) : ∀ l, P l := by
  intro l
  have : P l ∧ ∀ x, P (x :: l) := by
    induction l with
    | nil => exact ⟨h0, h1⟩
    | cons y t ih => exact ⟨ih.2 y, fun x => h2 x y t ih.1⟩
  exact this.1

/-- the index list `2k, 2k+2, …` (`m` items) of a `range(0, n, 2)` loop from pass `k` on -/
def idxs2 (k m : Nat) : List Int := (List.range m).map (fun j => ((2 * (k + j) : Nat) : Int))

theorem idxs2_succ (k m : Nat) : idxs2 k (m + 1) = ((2 * k : Nat) : Int) :: idxs2 (k + 1) m := by
  unfold idxs2
  rw [List.range_succ_eq_map, List.map_cons, List.map_map]
  simp only [Nat.add_zero, List.cons.injEq, true_and]
  apply List.map_congr_left
  intro j _
  simp only [Function.comp]; congr 2; omega

theorem range3p_idxs2 (n : Nat) : range3p 0 (n : Int) 2 = idxs2 0 ((n + 1) / 2) := by
  unfold range3p idxs2
  have : (((n : Int) - 0 + ((2 : Nat) : Int) - 1) / ((2 : Nat) : Int)).toNat = (n + 1) / 2 := by omega
  rw [this]
  apply List.map_congr_left
  intro j _
  simp only [Int.ofNat_eq_natCast]; push_cast; omega

theorem truncDiv2 (k : Nat) (h : 2 * k < 2 ^ 53) : PyArr.truncDiv ((2 * k : Nat) : Int) 2 = .ok (k : Int) := by
  unfold PyArr.truncDiv
  have : (0 : Int) ≤ ((2 * k : Nat) : Int) ∧ ((2 * k : Nat) : Int) < 2 ^ 53 := ⟨by omega, by exact_mod_cast h⟩
  rw [if_pos this]
  congr 1
  omega

theorem truncDiv_len2 (n : Nat) (h : n < 2 ^ 53) : PyArr.truncDiv (n : Int) 2 = .ok ((n / 2 : Nat) : Int) := by
  unfold PyArr.truncDiv
  have : (0 : Int) ≤ (n : Int) ∧ (n : Int) < 2 ^ 53 := ⟨by omega, by exact_mod_cast h⟩
  rw [if_pos this]
  congr 1

theorem getBit_mid (A B : List Bool) (x : Bool) (k : Nat) (h : k = A.length) :
    PyBits.getBit (A ++ x :: B) (k : Int) = .ok (ofBool x) := by
  subst h
  unfold PyBits.getBit
  rw [getItem_ofNat]; simp

theorem getBit_end (A : List Bool) (k : Nat) (h : A.length ≤ k) : PyBits.getBit A (k : Int) = .error .index := by
  unfold PyBits.getBit
  rw [getItem_ofNat, List.getElem?_eq_none h]; rfl

theorem dibits_lookup : ∀ a b : Bool, TRELLIS34_DIBITS.lookup (ofBool a, ofBool b) = dibits.lookup (a, b) := by decide
theorem dibits_range : ∀ a b : Bool, ∀ v, dibits.lookup (a, b) = some v → (-128 : Int) ≤ v ∧ v ≤ 127 := by decide

def b2dBody (stream : List Bool) (i : Int) (out : List Int) : PyM (List Int) := do
  let o ← PyArr.truncDiv i 2
  PyArr.setArr (-128) 127 out (← PyArr.dictGet TRELLIS34_DIBITS ((← PyBits.getBit stream i), (← PyBits.getBit stream (i + 1)))) o

theorem b2d_loop : ∀ (rest done : Bits) (A B : List Int) (k : Nat),
    done.length = 2 * k → A.length = k → B.length = rest.length / 2 → (done ++ rest).length < 2 ^ 53 →
    forEach (idxs2 k ((rest.length + 1) / 2)) (A ++ B) (b2dBody (done ++ rest))
    = match bitsToDibits rest with
      | .ok ds => .ok (A ++ ds)
      | .error e => .error (errOf e) := by
  intro rest
  induction rest using pairs_induct with
  | h0 =>
    intro done A B k _ _ hB _
    have : B = [] := List.eq_nil_of_length_eq_zero (by simpa using hB)
    subst this
    simp [idxs2, bitsToDibits]
  | h1 x =>
    intro done A B k hd hA hB hn
    have hB' : B = [] := List.eq_nil_of_length_eq_zero (by simpa using hB)
    subst hB'
    have : (([x] : Bits).length + 1) / 2 = 0 + 1 := by simp
    rw [this, idxs2_succ, forEach_cons]
    have hb : b2dBody (done ++ [x]) ((2 * k : Nat) : Int) (A ++ []) = .error .index := by
      unfold b2dBody
      rw [truncDiv2 k (by simp at hn; omega)]
      simp only [ok_bind]
      rw [getBit_mid done [] x (2 * k) hd.symm]
      simp only [ok_bind]
      have e : ((2 * k : Nat) : Int) + 1 = ((2 * k + 1 : Nat) : Int) := by push_cast; rfl
      rw [e, getBit_end _ _ (by simp; omega)]
      rfl
    rw [hb]; rfl
  | h2 a b r ih =>
    intro done A B k hd hA hB hn
    obtain ⟨b0, B', rfl⟩ : ∃ b0 B', B = b0 :: B' := by
      cases B with
      | nil => simp at hB; omega
      | cons b0 B' => exact ⟨b0, B', rfl⟩
    have hc : ((a :: b :: r).length + 1) / 2 = (r.length + 1) / 2 + 1 := by simp only [List.length_cons]; omega
    rw [hc, idxs2_succ, forEach_cons]
    have hb : b2dBody (done ++ a :: b :: r) ((2 * k : Nat) : Int) (A ++ b0 :: B')
        = match dibits.lookup (a, b) with
          | some v => .ok (A ++ v :: B')
          | none => .error (.other "KeyError") := by
      unfold b2dBody
      rw [truncDiv2 k (by simp at hn; omega)]
      simp only [ok_bind]
      rw [getBit_mid done (b :: r) a (2 * k) hd.symm]
      simp only [ok_bind]
      have e : ((2 * k : Nat) : Int) + 1 = ((2 * k + 1 : Nat) : Int) := by push_cast; rfl
      have e2 : done ++ a :: b :: r = (done ++ [a]) ++ b :: r := by simp
      rw [e, e2, getBit_mid (done ++ [a]) r b (2 * k + 1) (by simp; omega)]
      simp only [ok_bind, PyArr.dictGet, dibits_lookup]
      cases hl : dibits.lookup (a, b) with
      | none => rfl
      | some v =>
        simp only [ok_bind, pure_eq_ok]
        rw [← hA, setArr_mid (-128) 127 A B' b0 v (dibits_range a b v hl)]
    rw [hb]
    unfold bitsToDibits lookupR
    cases hl : dibits.lookup (a, b) with
    | none => rfl
    | some v =>
      simp only [ok_bind]
      have := ih (done ++ [a, b]) (A ++ [v]) B' (k + 1) (by simp [hd]; omega) (by simp [hA])
        (by simp only [List.length_cons] at hB; omega) (by simpa using hn)
      simp only [List.append_assoc, List.cons_append, List.nil_append] at this
      rw [this]
      cases bitsToDibits r with
      | error e => rfl
      | ok ds => simp

/-- `bits_to_dibits`, every bit string (shorter than 2^53 bits: `int(len / 2)` goes through a float): the model's
`bitsToDibits` (`IndexError` for an odd length included) -/
theorem bits_to_dibits_eq (s : Bits) (hs : s.length < 2 ^ 53) : bits_to_dibits s = ofR id (bitsToDibits s) := by
  have h : bits_to_dibits s = (PyArr.truncDiv (len s) 2 >>= fun n =>
      forEach (range3p 0 (len s) 2) (PyArr.zeros n) (b2dBody s)) := by
    unfold bits_to_dibits b2dBody; rfl
  rw [h, len_eq, truncDiv_len2 _ hs, ok_bind, range3p_idxs2]
  have := b2d_loop s [] [] (PyArr.zeros ((s.length / 2 : Nat) : Int)) 0 rfl rfl (by simp [PyArr.zeros]; omega) (by simpa using hs)
  simp only [List.nil_append] at this
  rw [this]
  cases bitsToDibits s with
  | error e => rfl
  | ok ds => simp [ofR]


/-! `dibits_to_points` -/

theorem const_table : TRELLIS34_CONSTELLATION_POINTS = constellation.map (fun e => (e.1, (e.2 : Int))) := by decide +kernel
theorem const_range : ∀ e ∈ constellation, e.2 < 256 := by decide

theorem lookup_mem' {κ ν : Type} [BEq κ] [LawfulBEq κ] (tbl : List (κ × ν)) (k : κ) (v : ν)
    (h : tbl.lookup k = some v) : (k, v) ∈ tbl := by
  induction tbl with
  | nil => simp at h
  | cons e t ih =>
    obtain ⟨a, w⟩ := e
    simp only [List.lookup_cons] at h
    by_cases hp : (k == a) = true
    · rw [hp] at h
      have := eq_of_beq hp
      subst this; cases h; simp
    · have : (k == a) = false := by simpa using hp
      rw [this] at h
      exact List.mem_cons_of_mem _ (ih h)

def d2pBody (d : List Int) (i : Int) (out : List Int) : PyM (List Int) := do
  let o ← PyArr.truncDiv i 2
  PyArr.setArr 0 255 out (← PyArr.dictGet TRELLIS34_CONSTELLATION_POINTS ((← getI d i), (← getI d (i + 1)))) o

theorem getI_end (A : List Int) (k : Nat) (h : A.length ≤ k) : getI A (k : Int) = .error .index := by
  rw [getI_ofNat, List.getElem?_eq_none h]

theorem d2p_loop : ∀ (rest done : List Int) (A B : List Int) (k : Nat),
    done.length = 2 * k → A.length = k → B.length = rest.length / 2 → (done ++ rest).length < 2 ^ 53 →
    forEach (idxs2 k ((rest.length + 1) / 2)) (A ++ B) (d2pBody (done ++ rest))
    = match dibitsToPoints rest with
      | .ok ps => .ok (A ++ ps.map (fun x : Nat => (x : Int)))
      | .error e => .error (errOf e) := by
  intro rest
  induction rest using pairs_induct with
  | h0 =>
    intro done A B k _ _ hB _
    have : B = [] := List.eq_nil_of_length_eq_zero (by simpa using hB)
    subst this
    simp [idxs2, dibitsToPoints]
  | h1 x =>
    intro done A B k hd hA hB hn
    have hB' : B = [] := List.eq_nil_of_length_eq_zero (by simpa using hB)
    subst hB'
    have : (([x] : List Int).length + 1) / 2 = 0 + 1 := by simp
    rw [this, idxs2_succ, forEach_cons]
    have hb : d2pBody (done ++ [x]) ((2 * k : Nat) : Int) (A ++ []) = .error .index := by
      unfold d2pBody
      rw [truncDiv2 k (by simp at hn; omega)]
      simp only [ok_bind]
      rw [getI_mid' done [] x (2 * k) hd.symm]
      simp only [ok_bind]
      have e : ((2 * k : Nat) : Int) + 1 = ((2 * k + 1 : Nat) : Int) := by push_cast; rfl
      rw [e, getI_end _ _ (by simp; omega)]
      rfl
    rw [hb]; rfl
  | h2 a b r ih =>
    intro done A B k hd hA hB hn
    obtain ⟨b0, B', rfl⟩ : ∃ b0 B', B = b0 :: B' := by
      cases B with
      | nil => simp at hB; omega
      | cons b0 B' => exact ⟨b0, B', rfl⟩
    have hc : ((a :: b :: r).length + 1) / 2 = (r.length + 1) / 2 + 1 := by simp only [List.length_cons]; omega
    rw [hc, idxs2_succ, forEach_cons]
    have hb : d2pBody (done ++ a :: b :: r) ((2 * k : Nat) : Int) (A ++ b0 :: B')
        = match constellation.lookup (a, b) with
          | some v => .ok (A ++ (v : Int) :: B')
          | none => .error (.other "KeyError") := by
      unfold d2pBody
      rw [truncDiv2 k (by simp at hn; omega)]
      simp only [ok_bind]
      rw [getI_mid' done (b :: r) a (2 * k) hd.symm]
      simp only [ok_bind]
      have e : ((2 * k : Nat) : Int) + 1 = ((2 * k + 1 : Nat) : Int) := by push_cast; rfl
      have e2 : done ++ a :: b :: r = (done ++ [a]) ++ b :: r := by simp
      rw [e, e2, getI_mid' (done ++ [a]) r b (2 * k + 1) (by simp; omega)]
      simp only [ok_bind, PyArr.dictGet, const_table, lookup_mapval (fun v : Nat => (v : Int))]
      cases hl : constellation.lookup (a, b) with
      | none => rfl
      | some v =>
        have hv : v < 256 := const_range _ (lookup_mem' _ _ _ hl)
        simp only [Option.map_some, ok_bind, pure_eq_ok]
        rw [← hA, setArr_mid 0 255 A B' b0 (v : Int) (by omega)]
    rw [hb]
    unfold dibitsToPoints lookupR
    cases hl : constellation.lookup (a, b) with
    | none => rfl
    | some v =>
      simp only [ok_bind]
      have := ih (done ++ [a, b]) (A ++ [(v : Int)]) B' (k + 1) (by simp [hd]; omega) (by simp [hA])
        (by simp only [List.length_cons] at hB; omega) (by simpa using hn)
      simp only [List.append_assoc, List.cons_append, List.nil_append] at this
      rw [this]
      cases dibitsToPoints r with
      | error e => rfl
      | ok ps => simp

/-- `dibits_to_points`, every array (shorter than 2^53 items): the model's `dibitsToPoints` (`KeyError` for a pair that is not
a constellation point, `IndexError` for an odd length) -/
theorem dibits_to_points_eq (d : List Int) (hd : d.length < 2 ^ 53) :
    dibits_to_points d = ofR (List.map (fun x : Nat => (x : Int))) (dibitsToPoints d) := by
  have h : dibits_to_points d = (PyArr.truncDiv (len d) 2 >>= fun n =>
      forEach (range3p 0 (len d) 2) (PyArr.zeros n) (d2pBody d)) := by
    unfold dibits_to_points d2pBody; rfl
  rw [h, len_eq, truncDiv_len2 _ hd, ok_bind, range3p_idxs2]
  have := d2p_loop d [] [] (PyArr.zeros ((d.length / 2 : Nat) : Int)) 0 rfl rfl (by simp [PyArr.zeros]; omega) (by simpa using hd)
  simp only [List.nil_append] at this
  rw [this]
  cases dibitsToPoints d with
  | error e => rfl
  | ok ps => simp [ofR]



/-! ### `tribits_to_bits` -/

theorem bitK (k b : Nat) : (b &&& 2 ^ k = 0) ↔ b / 2 ^ k % 2 = 0 := by
  have hT : b.testBit k = decide (b / 2 ^ k % 2 = 1) := Nat.testBit_eq_decide_div_mod_eq
  constructor
  · intro h
    have : (b &&& 2 ^ k).testBit k = false := by rw [h]; simp
    rw [Nat.testBit_and, Nat.testBit_two_pow_self, Bool.and_true, hT] at this
    simp at this; omega
  · intro h
    apply Nat.eq_of_testBit_eq
    intro i
    rw [Nat.testBit_and, Nat.testBit_two_pow, Nat.zero_testBit]
    by_cases hi : k = i
    · subst hi; rw [hT]; simp; omega
    · simp [hi]

theorem bandpos (t k : Nat) : decide (band (t : Int) ((2 ^ k : Nat) : Int) > 0) = (t / 2 ^ k % 2 == 1) := by
  rw [band_ofNat]
  by_cases h : t / 2 ^ k % 2 = 0
  · have := (bitK k t).mpr h
    rw [this]; simp [h]
  · have hne : t &&& 2 ^ k ≠ 0 := fun c => h ((bitK k t).mp c)
    have h1 : t / 2 ^ k % 2 = 1 := by omega
    have : ((t &&& 2 ^ k : Nat) : Int) > 0 := by omega
    have hp : 0 < t &&& 2 ^ k := Nat.pos_of_ne_zero hne
    simp [hp, h1]

def idxs3 (k m : Nat) : List Int := (List.range m).map (fun j => ((3 * (k + j) : Nat) : Int))

theorem idxs3_succ (k m : Nat) : idxs3 k (m + 1) = ((3 * k : Nat) : Int) :: idxs3 (k + 1) m := by
  unfold idxs3
  rw [List.range_succ_eq_map, List.map_cons, List.map_map]
  simp only [Nat.add_zero, List.cons.injEq, true_and]
  apply List.map_congr_left
  intro j _
  simp only [Function.comp]; congr 2; omega

theorem baSet_mid (A B : List Bool) (x v : Bool) (k : Nat) (h : k = A.length) :
    PyArr.baSet (A ++ x :: B) v (k : Int) = .ok (A ++ v :: B) := by
  subst h
  unfold PyArr.baSet
  rw [normIndex_ofNat]
  simp

theorem truncDiv3 (k : Nat) (h : 3 * k < 2 ^ 53) : PyArr.truncDiv ((3 * k : Nat) : Int) 3 = .ok (k : Int) := by
  unfold PyArr.truncDiv
  have : (0 : Int) ≤ ((3 * k : Nat) : Int) ∧ ((3 * k : Nat) : Int) < 2 ^ 53 := ⟨by omega, by exact_mod_cast h⟩
  rw [if_pos this]
  congr 1
  omega

def t2bBody (tribits : List Int) (i : Int) (out : List Bool) : PyM (List Bool) := do
  let o ← PyArr.truncDiv i 3
  let out ← PyArr.baSet out (decide (band (← getI tribits o) 4 > 0)) i
  let out ← PyArr.baSet out (decide (band (← getI tribits o) 2 > 0)) (i + 1)
  PyArr.baSet out (decide (band (← getI tribits o) 1 > 0)) (i + 2)

theorem t2b_loop (tail : List Nat) : ∀ (rest done : List Nat) (A B : List Bool),
    A.length = 3 * done.length → B.length = 3 * rest.length → done.length + rest.length ≤ 1000 →
    forEach (idxs3 done.length rest.length) (A ++ B) (t2bBody ((done ++ rest ++ tail).map (fun x : Nat => (x : Int))))
    = .ok (A ++ rest.flatMap tribitBits) := by
  intro rest
  induction rest with
  | nil =>
    intro done A B _ hB _
    have : B = [] := List.eq_nil_of_length_eq_zero (by simpa using hB)
    subst this
    simp [idxs3]
  | cons t ts ih =>
    intro done A B hA hB hn
    obtain ⟨x1, x2, x3, B', rfl⟩ : ∃ x1 x2 x3 B', B = x1 :: x2 :: x3 :: B' := by
      match B, hB with
      | x1 :: x2 :: x3 :: B', _ => exact ⟨x1, x2, x3, B', rfl⟩
      | [], h => simp at h
      | [_], h => simp at h; omega
      | [_, _], h => simp at h; omega
    rw [List.length_cons, idxs3_succ, forEach_cons]
    have hg : getI ((done ++ t :: ts ++ tail).map (fun x : Nat => (x : Int))) (done.length : Int) = .ok (t : Int) := by
      rw [List.append_assoc, List.cons_append]
      exact getI_cast_mid done (ts ++ tail) t
    have e1 : ((3 * done.length : Nat) : Int) + 1 = ((3 * done.length + 1 : Nat) : Int) := by push_cast; rfl
    have e2 : ((3 * done.length : Nat) : Int) + 2 = ((3 * done.length + 2 : Nat) : Int) := by push_cast; rfl
    have hb : t2bBody ((done ++ t :: ts ++ tail).map (fun x : Nat => (x : Int))) ((3 * done.length : Nat) : Int)
        (A ++ x1 :: x2 :: x3 :: B') = .ok (A ++ tribitBits t ++ B') := by
      unfold t2bBody
      rw [truncDiv3 _ (by omega)]
      simp only [ok_bind, hg, e1, e2]
      rw [baSet_mid A _ x1 _ _ hA.symm]
      simp only [ok_bind]
      rw [show A ++ decide (band (t : Int) 4 > 0) :: x2 :: x3 :: B' = (A ++ [decide (band (t : Int) 4 > 0)]) ++ x2 :: x3 :: B' by simp,
        baSet_mid _ _ x2 _ _ (by simp; omega)]
      simp only [ok_bind]
      rw [show (A ++ [decide (band (t : Int) 4 > 0)]) ++ decide (band (t : Int) 2 > 0) :: x3 :: B'
          = (A ++ [decide (band (t : Int) 4 > 0), decide (band (t : Int) 2 > 0)]) ++ x3 :: B' by simp,
        baSet_mid _ _ x3 _ _ (by simp; omega)]
      have b4 := bandpos t 2
      have b2 := bandpos t 1
      have b1 := bandpos t 0
      simp only [Nat.pow_zero, Nat.div_one] at b1
      rw [show ((2 ^ 2 : Nat) : Int) = 4 from rfl] at b4
      rw [show ((2 ^ 1 : Nat) : Int) = 2 from rfl] at b2
      rw [show ((1 : Nat) : Int) = 1 from rfl] at b1
      rw [b4, b2, b1]
      simp [tribitBits]
    rw [hb, ok_bind]
    have := ih (done ++ [t]) (A ++ tribitBits t) B' (by simp [hA, tribitBits]; omega) (by simp at hB; omega)
      (by simp at hn ⊢; omega)
    simp only [List.length_append, List.length_cons, List.length_nil, List.append_assoc, List.cons_append,
      List.nil_append] at this
    simp only [List.flatMap_cons, List.append_assoc, List.cons_append, Nat.zero_add] at this ⊢
    exact this

/-- `tribits_to_bits`, every array of naturals: the model's `tribitsToBits` (`AssertionError` unless 49 tribits; the 49th is
dropped) -/
theorem tribits_to_bits_eq (ts : List Nat) :
    tribits_to_bits (ts.map (fun x : Nat => (x : Int))) = ofR id (tribitsToBits ts) := by
  have h : tribits_to_bits (ts.map (fun x : Nat => (x : Int)))
      = (assert (len (ts.map (fun x : Nat => (x : Int))) == 49) >>= fun _ =>
          forEach (range3p 0 144 3) (PyArr.baZeros 144) (t2bBody (ts.map (fun x : Nat => (x : Int))))) := by
    unfold tribits_to_bits t2bBody; rfl
  rw [h, assert_bind]
  unfold tribitsToBits
  by_cases hl : ts.length = 49
  · have hc : (len (ts.map (fun x : Nat => (x : Int))) == 49) = true := by simp [hl]
    rw [if_pos hc, if_pos hl]
    have hr : range3p 0 144 3 = idxs3 0 48 := by decide
    rw [hr]
    have hsplit : ts = [] ++ ts.take 48 ++ ts.drop 48 := by simp
    have := t2b_loop (ts.drop 48) (ts.take 48) [] [] (PyArr.baZeros 144) rfl (by simp [PyArr.baZeros]; omega) (by simp; omega)
    simp only [List.nil_append, List.length_nil, List.take_append_drop, List.length_take, hl] at this
    exact this
  · have hc : ¬ ((len (ts.map (fun x : Nat => (x : Int))) == 49) = true) := by
      simp only [len_eq, List.length_map, beq_iff_eq]; omega
    rw [if_neg hc, if_neg hl]; rfl



/-! ### `points_to_tribits`: the nested loop against `walk` / `rowOf` / `lastHit` -/

def p2tInner (cp : List Int) (i start : Int) (j : Int) (x : List Int × Int × Bool) : PyM (List Int × Int × Bool) :=
  match x with
  | (out, last, m) => do
    if (← getI cp i) == (← getB TRELLIS34_ENCODER_STATE_TRANSITION j) then
      let last := Py.abs (modL (j - start) 255)
      let out ← PyArr.setArr 0 255 out last i
      pure (out, last, true)
    else pure (out, last, m)

def p2tOuter (cp : List Int) (i : Int) (x : List Int × Int) : PyM (List Int × Int) :=
  match x with
  | (out, last) => do
    let r ← forEach (range2 (last * 8) (last * 8 + 8)) (out, last, false) (p2tInner cp i (last * 8))
    if !r.2.2 then
      let _ ← getI cp i
      throw .assertion
    pure (r.1, r.2.1)

theorem p2t_shape (cp : List Int) : points_to_tribits cp
    = (forEach (range2 0 49) (PyArr.zeros 49, (0 : Int)) (p2tOuter cp) >>= fun x => pure x.1) := by
  unfold points_to_tribits p2tOuter p2tInner
  rfl


/-- the effect of the inner loop on `(out, last, matches)`: the last hit, if any, is written -/
def applyHit (ii : Nat) (acc : Option Nat) (s0 : List Int × Int × Bool) : List Int × Int × Bool :=
  match acc with
  | none => s0
  | some t => (s0.1.set ii (t : Int), (t : Int), true)

theorem applyHit_len (ii : Nat) (acc : Option Nat) (s0 : List Int × Int × Bool) :
    (applyHit ii acc s0).1.length = s0.1.length := by
  cases acc <;> simp [applyHit]

theorem range2_idxs' (a m : Nat) : range2 (a : Int) ((a : Int) + (m : Int)) = idxs a m := by
  unfold range2 idxs
  have : ((a : Int) + (m : Int) - (a : Int)).toNat = m := by omega
  rw [this]
  apply List.map_congr_left
  intro j _
  simp

theorem inner_loop (cp : List Int) (ii p st : Nat) (hcp : getI cp (ii : Int) = .ok (p : Int))
    (s0 : List Int × Int × Bool) (hii : ii < s0.1.length) :
    ∀ (c off : Nat) (acc : Option Nat), off + c ≤ 8 →
      forEach (idxs (st * 8 + off) c) (applyHit ii acc s0) (p2tInner cp (ii : Int) ((st * 8 : Nat) : Int))
      = match rowFrom (st * 8 + off) c with
        | .error _ => .error .index
        | .ok row => .ok (applyHit ii (lastHitFrom p row off acc) s0) := by
  intro c
  induction c with
  | zero => intro off acc _; simp [idxs, rowFrom, lastHitFrom]
  | succ c ih =>
    intro off acc hoc
    rw [idxs_succ, forEach_cons]
    unfold rowFrom indexR
    have hb : p2tInner cp (ii : Int) ((st * 8 : Nat) : Int) ((st * 8 + off : Nat) : Int) (applyHit ii acc s0)
        = match transition[st * 8 + off]? with
          | none => .error .index
          | some x => .ok (applyHit ii (if p == x then some off else acc) s0) := by
      rcases hs : applyHit ii acc s0 with ⟨o1, l1, m1⟩
      have hlen : o1.length = s0.1.length := by have := applyHit_len ii acc s0; rw [hs] at this; exact this
      unfold p2tInner
      simp only [hcp, ok_bind, getB_ofNat, trans_table]
      cases hx : transition[st * 8 + off]? with
      | none => rfl
      | some x =>
        simp only [ok_bind]
        by_cases hpx : p = x
        · subst hpx
          have e : ((st * 8 + off : Nat) : Int) - ((st * 8 : Nat) : Int) = (off : Int) := by omega
          have hm : Py.abs (modL (off : Int) 255) = (off : Int) := by
            rw [modL_ofNat]; unfold Py.abs
            rw [Nat.mod_eq_of_lt (show off < 255 by omega)]; simp
          simp only [beq_self_eq_true, if_true, e, hm]
          unfold PyArr.setArr
          rw [normIndex_ofNat]
          have h1 : ii < o1.length := by omega
          have h2 : (0 : Int) ≤ (off : Int) ∧ (off : Int) ≤ 255 := by omega
          simp only [h1, if_true, ok_bind, h2, and_self, pure_eq_ok]
          congr 1
          cases acc with
          | none => simp only [applyHit] at hs ⊢; rw [hs]
          | some t0 =>
            simp only [applyHit] at hs ⊢
            have : o1 = s0.1.set ii (t0 : Int) := (congrArg Prod.fst hs).symm
            rw [this, List.set_set]
        · have hne : ((p : Int) == (x : Int)) = false := by simp; omega
          have hne2 : (p == x) = false := by simp [hpx]
          simp only [hne, hne2, Bool.false_eq_true, if_false, pure_eq_ok]
          rw [hs]
    rw [hb]
    cases hx : transition[st * 8 + off]? with
    | none => rfl
    | some x =>
      simp only [ok_bind]
      have := ih (off + 1) (if p == x then some off else acc) (by omega)
      rw [show st * 8 + (off + 1) = st * 8 + off + 1 by omega] at this
      rw [this]
      cases rowFrom (st * 8 + off + 1) c with
      | error e => rfl
      | ok row => simp [lastHitFrom]


theorem set_mid (A B : List Int) (x v : Int) : (A ++ x :: B).set A.length v = A ++ v :: B := by
  induction A with
  | nil => rfl
  | cons a A ih => simp [ih]

theorem rowFrom_err : ∀ (c s : Nat) (e : Dmr.Trellis.Err), rowFrom s c = .error e → e = .index := by
  intro c
  induction c with
  | zero => intro s e h; simp [rowFrom] at h
  | succ c ih =>
    intro s e h
    unfold rowFrom indexR at h
    cases hx : transition[s]? with
    | none => simp [hx] at h; exact h.symm
    | some x =>
      simp only [hx] at h
      cases hr : rowFrom (s + 1) c with
      | error e' => simp [hr] at h; rw [← h]; exact ih _ _ hr
      | ok xs => simp [hr] at h

theorem outer_loop : ∀ (n : Nat) (rest done : List Nat) (A B : List Int) (st : Nat),
    A.length = done.length → B.length = n →
    (forEach (idxs done.length n) (A ++ B, (st : Int)) (p2tOuter ((done ++ rest).map (fun x : Nat => (x : Int))))
      >>= fun x => pure x.1)
    = match walk n st rest with
      | .ok ts => .ok (A ++ ts.map (fun x : Nat => (x : Int)))
      | .error e => .error (errOf e) := by
  intro n
  induction n with
  | zero =>
    intro rest done A B st _ hB
    have : B = [] := List.eq_nil_of_length_eq_zero hB
    subst this
    simp [idxs, walk]
  | succ n ih =>
    intro rest done A B st hA hB
    obtain ⟨b0, B', rfl⟩ : ∃ b0 B', B = b0 :: B' := by
      cases B with
      | nil => simp at hB
      | cons b0 B' => exact ⟨b0, B', rfl⟩
    rw [idxs_succ, forEach_cons, bind_assoc]
    have hr : range2 ((st : Int) * 8) ((st : Int) * 8 + 8) = idxs (st * 8 + 0) 8 := by
      have := range2_idxs' (st * 8) 8
      rw [show ((st * 8 : Nat) : Int) = (st : Int) * 8 by push_cast; rfl, show ((8 : Nat) : Int) = 8 from rfl] at this
      rw [this]; rfl
    cases rest with
    | nil =>
      have hb : p2tOuter ((done ++ []).map (fun x : Nat => (x : Int))) (done.length : Int) (A ++ b0 :: B', (st : Int))
          = .error .index := by
        unfold p2tOuter
        simp only [hr]
        rw [idxs_succ, forEach_cons]
        have : p2tInner ((done ++ []).map (fun x : Nat => (x : Int))) (done.length : Int) ((st : Int) * 8)
            ((st * 8 + 0 : Nat) : Int) (A ++ b0 :: B', (st : Int), false) = .error .index := by
          unfold p2tInner
          rw [List.append_nil, getI_cast_end]; rfl
        rw [this]; rfl
      rw [hb]; rfl
    | cons p ps =>
      have hcp : getI ((done ++ p :: ps).map (fun x : Nat => (x : Int))) (done.length : Int) = .ok (p : Int) :=
        getI_cast_mid done ps p
      have hin := inner_loop ((done ++ p :: ps).map (fun x : Nat => (x : Int))) done.length p st hcp
        (A ++ b0 :: B', (st : Int), false) (by simp [hA]) 8 0 none (by omega)
      simp only [applyHit] at hin
      have hb : p2tOuter ((done ++ p :: ps).map (fun x : Nat => (x : Int))) (done.length : Int) (A ++ b0 :: B', (st : Int))
          = match rowOf st with
            | .error _ => .error .index
            | .ok row => match lastHit row p with
              | none => .error .assertion
              | some t => .ok (A ++ (t : Int) :: B', (t : Int)) := by
        unfold p2tOuter
        simp only [hr]
        rw [show ((st : Int) * 8) = ((st * 8 : Nat) : Int) by push_cast; rfl, hin]
        unfold rowOf lastHit
        rw [show st * 8 + 0 = st * 8 from rfl]
        cases rowFrom (st * 8) 8 with
        | error e => rfl
        | ok row =>
          simp only [ok_bind]
          cases lastHitFrom p row 0 none with
          | none => simp [applyHit, hcp]; rfl
          | some t =>
            simp only [applyHit, Bool.not_true, Bool.false_eq_true, if_false, pure_eq_ok, ok_bind]
            rw [← hA, set_mid]
      rw [hb]
      unfold walk
      cases hro : rowOf st with
      | error e =>
        have := rowFrom_err _ _ _ hro
        subst this; rfl
      | ok row =>
        simp only []
        cases lastHit row p with
        | none => rfl
        | some t =>
          simp only [ok_bind]
          have := ih ps (done ++ [p]) (A ++ [(t : Int)]) B' t (by simp [hA]) (by simpa using hB)
          simp only [List.length_append, List.length_cons, List.length_nil, List.append_assoc, List.cons_append,
            List.nil_append] at this
          rw [this]
          cases walk n t ps with
          | error e => rfl
          | ok ts => simp

/-- `points_to_tribits`, every array of naturals: the model's `pointsToTribits` (49 passes from state 0; `AssertionError` for a
point that is not in the row of the current state, `IndexError` for a short array) -/
theorem points_to_tribits_eq (ps : List Nat) :
    points_to_tribits (ps.map (fun x : Nat => (x : Int)))
      = ofR (List.map (fun x : Nat => (x : Int))) (pointsToTribits ps) := by
  rw [p2t_shape]
  have hr : range2 0 49 = idxs 0 49 := range2_idxs 49
  rw [hr]
  have := outer_loop 49 ps [] [] (PyArr.zeros 49) 0 rfl (by simp [PyArr.zeros])
  simp only [List.nil_append, List.length_nil] at this
  rw [show ((0 : Nat) : Int) = 0 from rfl] at this
  rw [this]
  unfold pointsToTribits
  cases walk 49 0 ps with
  | error e => rfl
  | ok ts => rfl



/-! ### `decode` -/

theorem bitsToDibits_facts : ∀ (s : Bits) (ds : List Int), bitsToDibits s = .ok ds → isChars ds ∧ ds.length ≤ s.length := by
  intro s
  induction s using pairs_induct with
  | h0 => intro ds h; simp [bitsToDibits] at h; subst h; exact ⟨fun x hx => by simp at hx, by simp⟩
  | h1 x => intro ds h; simp [bitsToDibits] at h
  | h2 a b r ih =>
    intro ds h
    unfold bitsToDibits lookupR at h
    cases hl : dibits.lookup (a, b) with
    | none => simp [hl] at h
    | some v =>
      simp only [hl] at h
      cases hr : bitsToDibits r with
      | error e => simp [hr] at h
      | ok rs =>
        simp only [hr, Except.ok.injEq] at h
        subst h
        obtain ⟨h1, h2⟩ := ih rs hr
        refine ⟨?_, by simp; omega⟩
        intro x hx
        simp only [List.mem_cons] at hx
        rcases hx with rfl | hx
        · exact dibits_range a b _ hl
        · exact h1 x hx

theorem scatter_length (n : Nat) : ∀ (ms : List Nat) (vs out r : List Int), scatter n ms vs out = .ok r → r.length = out.length := by
  intro ms
  induction ms with
  | nil => intro vs out r h; simp [scatter] at h; subst h; rfl
  | cons m ms ih =>
    intro vs out r h
    cases vs with
    | nil => simp [scatter] at h
    | cons v vs =>
      unfold scatter at h
      by_cases hm : m < n
      · simp only [hm, if_true] at h
        have := ih vs _ r h
        simpa using this
      · simp [hm] at h

theorem bindR {α β γ : Type} (m : PyM β) (r : R α) (f : α → β) (k : β → PyM γ) :
    m = ofR f r → (m >>= k) = match r with
      | .ok v => k (f v)
      | .error x => .error (errOf x) := by
  intro h; subst h; cases r <;> rfl

theorem bindR_id {α γ : Type} (m : PyM α) (r : R α) (k : α → PyM γ) :
    m = ofR id r → (m >>= k) = match r with
      | .ok v => k v
      | .error x => .error (errOf x) := by
  intro h; subst h; cases r <;> rfl

/-- `decode(encoded)` (`as_bytes=False`), EVERY bit string: the model's `decode` -/
theorem decode_eq (e : Bits) : Transl.Trellis.decode e = ofR id (Dmr.Trellis.decode e) := by
  unfold Transl.Trellis.decode Dmr.Trellis.decode streamPoints
  rw [assert_bind]
  by_cases hl : e.length = 196
  · have hc : (len e == 196) = true := by simp [hl]
    have hne : ¬ (e.length ≠ 196) := by omega
    have he53 : e.length < 2 ^ 53 := by rw [hl]; decide
    rw [if_pos hc, if_neg hne, bindR_id _ _ _ (bits_to_dibits_eq e he53)]
    cases hd : bitsToDibits e with
    | error x => rfl
    | ok ds =>
      obtain ⟨hch, hlen⟩ := bitsToDibits_facts e ds hd
      dsimp only
      show (Transl.Trellis.deinterleave ds >>= _) = _
      rw [bindR_id _ _ _ (deinterleave_eq ds hch)]
      cases hdd : Dmr.Trellis.deinterleave ds with
      | error x => rfl
      | ok dd =>
        have hddl : dd.length = ds.length := by
          unfold Dmr.Trellis.deinterleave at hdd
          have := scatter_length _ _ _ _ _ hdd
          simpa using this
        have h196 : dd.length ≤ 196 := by omega
        have hdd53 : dd.length < 2 ^ 53 := Nat.lt_of_le_of_lt h196 (by decide)
        dsimp only
        show (Transl.Trellis.dibits_to_points dd >>= _) = _
        rw [bindR _ _ _ _ (dibits_to_points_eq dd hdd53)]
        cases hp : dibitsToPoints dd with
        | error x => rfl
        | ok ps =>
          dsimp only
          show (Transl.Trellis.points_to_tribits (ps.map (fun x : Nat => (x : Int))) >>= _) = _
          rw [bindR _ _ _ _ (points_to_tribits_eq ps)]
          cases ht : pointsToTribits ps with
          | error x => rfl
          | ok ts =>
            dsimp only
            exact tribits_to_bits_eq ts
  · have hc : ¬ ((len e == 196) = true) := by simp only [len_eq, beq_iff_eq]; omega
    rw [if_neg hc, if_pos hl]; rfl


/-- `decode(encoded, as_bytes=True)`, every bit string: the model's `decodeAsBytes` -/
theorem decode_as_bytes_eq (e : Bits) : Transl.Trellis.decode_as_bytes e = ofR id (Dmr.Trellis.decodeAsBytes e) := by
  have h : Transl.Trellis.decode_as_bytes e = (Transl.Trellis.decode e >>= fun d => pure (PyBits.tobytes d)) := by
    unfold Transl.Trellis.decode_as_bytes Transl.Trellis.decode
    simp only [bind_assoc]
  rw [h, decode_eq]
  unfold decodeAsBytes
  cases Dmr.Trellis.decode e with
  | error x => rfl
  | ok b => rfl

end Dmr.Transl.Trellis
