import DmrVerif.Lemmas.BptcSym

/-!
Row / column views of the flat 13×15 table of the BPTC(196,96) model: `rowsOf t` and `colsOf t` are the
13 rows / 15 columns as lists of bit vectors, `tr` is transposition.  The lemmas express `mapRows` and
`mapCols` of the model through these views.
-/

namespace Dmr.Bptc
open Dmr

/-- transpose of a matrix with `n` columns given as a list of rows -/
def tr (n : Nat) (M : List Bits) : List Bits := (List.range n).map (col M)

def rowsOf (t : Bits) : List Bits := rowIdx.map (fun ix => gather ix t)
def colsOf (t : Bits) : List Bits := colIdx.map (fun ix => gather ix t)

/-- `m` rows of `n` bits -/
def Shape (m n : Nat) (M : List Bits) : Prop := M.length = m ∧ ∀ b ∈ M, b.length = n

theorem tr_shape (n : Nat) (M : List Bits) : Shape n M.length (tr n M) := by
  refine ⟨by simp [tr], ?_⟩
  intro b hb
  simp only [tr, List.mem_map, List.mem_range] at hb
  obtain ⟨j, _, rfl⟩ := hb
  simp [col]

theorem shape_map {m n : Nat} {M : List Bits} (f : Bits → Bits) (hf : ∀ b, b.length = n → (f b).length = n)
    (h : Shape m n M) : Shape m n (M.map f) := by
  refine ⟨by simp [h.1], ?_⟩
  intro b hb
  simp only [List.mem_map] at hb
  obtain ⟨a, ha, rfl⟩ := hb
  exact hf a (h.2 a ha)

theorem flatten_length_of_shape {m n : Nat} {M : List Bits} (h : Shape m n M) :
    M.flatten.length = m * n := by
  obtain ⟨h1, h2⟩ := h
  subst h1
  induction M with
  | nil => simp
  | cons b bs ih =>
    have hb := h2 b (by simp)
    have := ih (fun x hx => h2 x (by simp [hx]))
    simp only [List.flatten_cons, List.length_append, List.length_cons, this, hb, Nat.succ_mul]
    omega

theorem getBit_flatten (n : Nat) (Bs : List Bits) (h : ∀ b ∈ Bs, b.length = n) (r c : Nat) (hc : c < n) :
    getBit Bs.flatten (n * r + c) = getBit (Bs.getD r []) c := by
  induction Bs generalizing r with
  | nil => simp
  | cons b bs ih =>
    have hb := h b (by simp)
    cases r with
    | zero =>
      simp only [List.flatten_cons, Nat.mul_zero, Nat.zero_add, List.getD_cons_zero]
      exact getBit_append_left _ _ _ (by omega)
    | succ r =>
      have e : n * (r + 1) + c = b.length + (n * r + c) := by rw [hb, Nat.mul_succ]; omega
      simp only [List.flatten_cons, List.getD_cons_succ]
      rw [e, getBit_append_right]
      exact ih (fun x hx => h x (by simp [hx])) r

theorem rowIdx_getElem (r : Nat) (hr : r < 13) :
    rowIdx[r]'(by simp [rowIdx]; exact hr) = (List.range 15).map (fun c => 15 * r + c) := by
  simp [rowIdx]

theorem colIdx_getElem (c : Nat) (hc : c < 15) :
    colIdx[c]'(by simp [colIdx]; exact hc) = (List.range 13).map (fun r => 15 * r + c) := by
  simp [colIdx]

theorem rowsOf_length (t : Bits) : (rowsOf t).length = 13 := by simp [rowsOf, rowIdx]
theorem colsOf_length (t : Bits) : (colsOf t).length = 15 := by simp [colsOf, colIdx]

theorem rowsOf_shape (t : Bits) : Shape 13 15 (rowsOf t) := by
  refine ⟨rowsOf_length t, ?_⟩
  intro b hb
  simp only [rowsOf, rowIdx, List.map_map, List.mem_map, List.mem_range, Function.comp] at hb
  obtain ⟨r, _, rfl⟩ := hb
  simp

theorem colsOf_shape (t : Bits) : Shape 15 13 (colsOf t) := by
  refine ⟨colsOf_length t, ?_⟩
  intro b hb
  simp only [colsOf, colIdx, List.map_map, List.mem_map, List.mem_range, Function.comp] at hb
  obtain ⟨r, _, rfl⟩ := hb
  simp

/-- the rows of a flattened 13×15 matrix are its rows -/
theorem rowsOf_flatten (Bs : List Bits) (h : Shape 13 15 Bs) : rowsOf Bs.flatten = Bs := by
  apply List.ext_getElem
  · rw [rowsOf_length, h.1]
  · intro r h1 h2
    have hr : r < 13 := by rwa [rowsOf_length] at h1
    simp only [rowsOf, List.getElem_map, rowIdx_getElem r hr]
    apply List.ext_getElem
    · simp [h.2 _ (List.getElem_mem h2)]
    · intro c h3 h4
      have hc : c < 15 := by simpa using h3
      simp only [gather, List.map_map, List.getElem_map, List.getElem_range, Function.comp]
      rw [getBit_flatten 15 Bs h.2 r c hc, ← getBit_eq_getElem _ _ h4]
      congr 1
      simp [List.getD_eq_getElem?_getD, h2]

/-- the columns are the transpose of the rows -/
theorem colsOf_eq_tr (t : Bits) : colsOf t = tr 15 (rowsOf t) := by
  apply List.ext_getElem
  · simp [colsOf_length, tr]
  · intro c h1 h2
    have hc : c < 15 := by rwa [colsOf_length] at h1
    simp only [colsOf, List.getElem_map, colIdx_getElem c hc, tr, List.getElem_range]
    simp only [col, rowsOf, rowIdx, gather, List.map_map]
    apply List.map_congr_left
    intro r _
    simp only [Function.comp]
    rw [getBit_eq_getElem (List.map _ _) c (by simpa using hc)]
    simp

/-- a column-major flattened 15×13 matrix, rearranged row-major -/
theorem gather_trIdx_flatten (Cs : List Bits) (h : Shape 15 13 Cs) :
    gather trIdx Cs.flatten = (tr 13 Cs).flatten := by
  simp only [trIdx, gather, tr, List.flatMap_def, List.map_flatten, List.map_map]
  congr 1
  apply List.map_congr_left
  intro r hr
  have hr : r < 13 := List.mem_range.mp hr
  simp only [Function.comp, col, List.map_map]
  apply List.ext_getElem
  · simp [h.1]
  · intro c h1 h2
    have hc : c < 15 := by simpa using h1
    have hc' : c < Cs.length := by rw [h.1]; exact hc
    simp only [List.getElem_map, List.getElem_range, Function.comp_apply]
    rw [getBit_flatten 13 Cs h.2 c r hr]
    simp [List.getD_eq_getElem?_getD, hc']

theorem flatten_rowsOf (t : Bits) (ht : t.length = 195) (hflat : rowIdx.flatten = List.range 195) :
    (rowsOf t).flatten = t := by
  have := gather_flatten rowIdx t
  rw [hflat, ← ht, gather_range] at this
  simp only [rowsOf, ← List.flatMap_def]
  exact this.symm

theorem mapRows_eq (f : Bits → Bits) (t : Bits) : mapRows f t = ((rowsOf t).map f).flatten := by
  simp [mapRows, blockMap, rowsOf, List.flatMap_def, List.map_map, Function.comp_def]

theorem mapCols_eq (f : Bits → Bits) (hf : ∀ b, b.length = 13 → (f b).length = 13) (t : Bits) :
    mapCols f t = (tr 13 ((tr 15 (rowsOf t)).map f)).flatten := by
  have : blockMap colIdx f t = ((colsOf t).map f).flatten := by
    simp [blockMap, colsOf, List.flatMap_def, List.map_map, Function.comp_def]
  rw [mapCols, this, gather_trIdx_flatten _ (shape_map f hf (colsOf_shape t)), colsOf_eq_tr]

theorem rowsOf_mapRows (f : Bits → Bits) (hf : ∀ b, b.length = 15 → (f b).length = 15) (t : Bits) :
    rowsOf (mapRows f t) = (rowsOf t).map f := by
  rw [mapRows_eq, rowsOf_flatten _ (shape_map f hf (rowsOf_shape t))]

theorem rowsOf_mapCols (f : Bits → Bits) (hf : ∀ b, b.length = 13 → (f b).length = 13) (t : Bits) :
    rowsOf (mapCols f t) = tr 13 ((tr 15 (rowsOf t)).map f) := by
  rw [mapCols_eq f hf, rowsOf_flatten]
  have := tr_shape 13 ((tr 15 (rowsOf t)).map f)
  simpa [tr] using this

theorem mapRows_length (f : Bits → Bits) (hf : ∀ b, b.length = 15 → (f b).length = 15) (t : Bits) :
    (mapRows f t).length = 195 := by
  rw [mapRows_eq, flatten_length_of_shape (shape_map f hf (rowsOf_shape t))]

theorem mapCols_length (f : Bits → Bits) (t : Bits) : (mapCols f t).length = 195 := by
  rw [mapCols, gather_length]; simp [trIdx, List.length_flatMap]; rfl

end Dmr.Bptc
