import DmrVerif.Lemmas.TrackerSpec

/-!
# The invariant of the transmission tracker (C08)

`GA` is the reference bookkeeping of the specification (open kind, header and blocks since the start) run
over what the tracker emits; `MGood` ties it to the tracker's own fields and is preserved by every method
of `Transmission`.  Everything in `Props/C08.lean` follows from `MGood` / `SlotInv` by induction over the
history.
-/

namespace Dmr.Tracker

/-! ## combined reference bookkeeping -/

structure GA where
  open_ : TxType := .idle
  hdr : Option Hdr := none
  acc : List Block := []
  /-- every `ended` so far closed an open start of its kind and carried `hdr`, `acc` -/
  ok : Bool := true
  /-- every `ended` so far carried a header of its own kind -/
  kinds : Bool := true

def GA.step (g : GA) : Act → GA
  | .ev (.started t) => { g with open_ := t, hdr := none, acc := [] }
  | .append b => { g with acc := g.acc ++ [b] }
  | .setHeader h => { g with hdr := some h }
  | .ev (.dataEnded h bl) =>
    { g with open_ := .idle, ok := g.ok && g.open_ == .data && g.hdr == some h && g.acc == bl,
             kinds := g.kinds && (Event.dataEnded h bl).headerKindOk }
  | .ev (.voiceEnded h bl) =>
    { g with open_ := .idle, ok := g.ok && g.open_ == .voice && g.hdr == some h && g.acc == bl,
             kinds := g.kinds && (Event.voiceEnded h bl).headerKindOk }

/-- the bookkeeping after what `m` has emitted so far -/
abbrev gh (g0 : GA) (m : M) : GA := m.acts.foldl GA.step g0

@[simp] theorem resetTx_acts (m : M) (t) : (resetTx m t).acts = m.acts := rfl
@[simp] theorem emit_tx (m : M) (a) : (m.emit a).tx = m.tx := rfl
@[simp] theorem emit_oracle (m : M) (a) : (m.emit a).oracle = m.oracle := rfl
@[simp] theorem emit_acts (m : M) (a) : (m.emit a).acts = m.acts ++ [a] := rfl

/-- header kind fits the transmission type; an idle tracker expects nothing -/
def shapeOk (tx : Tx) : Bool :=
  match tx.type, tx.header with
  | .idle, none => tx.expected == 0
  | .voice, none => true
  | .voice, some (.flc _) => true
  | .data, none => true
  | .data, some (.data _) => true
  | _, _ => false

structure MGood (g0 : GA) (m : M) : Prop where
  fin : m.tx.finished = false
  shape : shapeOk m.tx = true
  ok : (m.acts.foldl GA.step g0).ok = true
  kinds : (m.acts.foldl GA.step g0).kinds = true
  sync : m.tx.type ≠ .idle →
    (m.acts.foldl GA.step g0).open_ = m.tx.type ∧ (m.acts.foldl GA.step g0).hdr = m.tx.header ∧ (m.acts.foldl GA.step g0).acc = m.tx.blocks
  fresh : m.tx.streamNo < m.oracle

/-- `new_transmission(Idle)` re-establishes the invariant whatever the fields were -/
theorem MGood.resetIdle {g0 m} (hok : (m.acts.foldl GA.step g0).ok = true) (hk : (m.acts.foldl GA.step g0).kinds = true) :
    MGood g0 (resetTx m .idle) := by
  refine ⟨?_, ?_, ?_, ?_, ?_, ?_⟩
  · simp [resetTx]
  · simp [resetTx, shapeOk]
  · simpa using hok
  · simpa using hk
  · simp [resetTx]
  · simp [resetTx]

theorem MGood.endData {g0 m} (h : MGood g0 m) : MGood g0 (endData m) := by
  unfold Tracker.endData
  split
  · exact h
  · rename_i hc
    split
    · exact h
    · rename_i hd hh
      simp at hc
      have hs := h.sync (by simp [hc.2])
      have hsh := h.shape
      simp [shapeOk, hc.2, hh] at hsh
      apply MGood.resetIdle
      · simp [GA.step, h.ok, hs.1, hs.2.1, hs.2.2, hc.2, hh]
      · simp [GA.step, h.kinds]
        revert hsh; cases hd <;> simp [Event.headerKindOk]

/-- starting a transmission of kind `t` from a good state (after the `end_data_transmission` call) -/
theorem MGood.resetStart {g0 m} (h : MGood g0 m) (t : TxType) (ht : t ≠ .idle) :
    MGood g0 ((resetTx m t).emit (.ev (.started t))) := by
  refine ⟨?_, ?_, ?_, ?_, ?_, ?_⟩
  · simp [resetTx]
  · cases t <;> simp_all [resetTx, shapeOk]
  · simpa [GA.step] using h.ok
  · simpa [GA.step] using h.kinds
  · intro _; simp [GA.step, resetTx]
  · simp [resetTx]

theorem MGood.newTx {g0 m} (h : MGood g0 m) (t : TxType) : MGood g0 (newTx m t) := by
  unfold Tracker.newTx
  have h1 : MGood g0 (if (t != .idle && m.tx.type == .data) = true then Tracker.endData m else m) := by
    split
    · exact h.endData
    · exact h
  generalize (if (t != .idle && m.tx.type == .data) = true then Tracker.endData m else m) = m1 at h1
  by_cases ht : t = .idle
  · subst ht
    simpa using MGood.resetIdle h1.ok h1.kinds
  · simpa [ht] using h1.resetStart t ht

theorem MGood.ensureTx {g0 m} (h : MGood g0 m) (t : TxType) : MGood g0 (ensureTx m t) := by
  unfold Tracker.ensureTx
  split
  · exact h.newTx t
  · exact h

theorem MGood.endVoice {g0 m} (h : MGood g0 m) : MGood g0 (endVoice m) := by
  unfold Tracker.endVoice
  split
  · exact h
  · rename_i hc
    simp at hc
    have hs := h.sync hc.2
    have hsh := h.shape
    split
    · rename_i raw hh
      unfold Tracker.newTx
      simp
      apply MGood.resetIdle
      · have hv : m.tx.type = .voice := by
          revert hsh; simp [shapeOk, hh]; cases m.tx.type <;> simp
        simp [GA.step, h.ok, hs.1, hs.2.1, hs.2.2, hv, hh]
      · simp [GA.step, h.kinds, Event.headerKindOk]
    · unfold Tracker.newTx
      simp
      exact MGood.resetIdle h.ok h.kinds

theorem MGood.endTransmissions {g0 m} (h : MGood g0 m) : MGood g0 (endTransmissions m) := by
  unfold Tracker.endTransmissions
  split
  · exact h.endData
  · exact h.endVoice
  · exact h

@[simp] theorem ensureTx_type (m : M) (t : TxType) : (ensureTx m t).tx.type = t := by
  unfold ensureTx
  split
  · cases t <;> simp [newTx, resetTx]
  · rename_i hc; simpa using hc

theorem MGood.processVoiceHeader {g0 m} (h : MGood g0 m) (raw : Bytes) :
    MGood g0 (processVoiceHeader m raw) := by
  unfold Tracker.processVoiceHeader
  have h1 := h.ensureTx .voice
  have ht := ensureTx_type m .voice
  generalize Tracker.ensureTx m .voice = m1 at h1 ht
  have hs := h1.sync (by simp [ht])
  refine ⟨?_, ?_, ?_, ?_, ?_, ?_⟩
  · simpa using h1.fin
  · simp [shapeOk, ht]
  · simpa [GA.step] using h1.ok
  · simpa [GA.step] using h1.kinds
  · intro _; simp [GA.step, hs.1, hs.2.2]
  · simpa using h1.fresh

theorem MGood.processDataHeader {g0 m} (h : MGood g0 m) (dh : DataHdr) :
    MGood g0 (processDataHeader m dh) := by
  unfold Tracker.processDataHeader
  have h1 := h.ensureTx .data
  have ht := ensureTx_type m .data
  generalize Tracker.ensureTx m .data = m1 at h1 ht
  have hs := h1.sync (by simp [ht])
  refine ⟨?_, ?_, ?_, ?_, ?_, ?_⟩
  · simpa using h1.fin
  · simp [shapeOk, ht]
  · simpa [GA.step] using h1.ok
  · simpa [GA.step] using h1.kinds
  · intro _; simp [GA.step, hs.1, hs.2.2]
  · simpa using h1.fresh

theorem MGood.processCsbk {g0 m} (h : MGood g0 m) (pre : Bool) (btf : Nat) (raw : Bytes) :
    MGood g0 (processCsbk m pre btf raw) := by
  unfold Tracker.processCsbk
  have h1 := h.ensureTx .data
  have ht := ensureTx_type m .data
  generalize Tracker.ensureTx m .data = m1 at h1 ht
  have hs := h1.sync (by simp [ht])
  have hsh := h1.shape
  refine ⟨?_, ?_, ?_, ?_, ?_, ?_⟩
  · simpa using h1.fin
  · have : m1.tx.header = none ∨ ∃ d, m1.tx.header = some (.data d) := by
      revert hsh; simp only [shapeOk, ht]
      cases m1.tx.header with
      | none => simp
      | some h => cases h <;> simp
    rcases this with h0 | ⟨d, h0⟩ <;> simp [shapeOk, ht, h0]
  · simpa [GA.step] using h1.ok
  · simpa [GA.step] using h1.kinds
  · intro _; simp [GA.step, hs.1, hs.2.1, hs.2.2]
  · simpa using h1.fresh

/-- appending a block and counting it keeps the invariant (in every state, idle included) -/
theorem MGood.appendBlock {g0 m} (h : MGood g0 m) (blk : Block) :
    MGood g0 { (m.emit (.append blk)) with
      tx := { m.tx with received := m.tx.received + 1, blocks := m.tx.blocks ++ [blk] } } := by
  have hsh := h.shape
  refine ⟨?_, ?_, ?_, ?_, ?_, ?_⟩
  · simpa using h.fin
  · revert hsh; simp only [shapeOk]; cases m.tx.type <;> cases m.tx.header <;> simp
  · simpa [GA.step] using h.ok
  · simpa [GA.step] using h.kinds
  · intro hne
    have hs := h.sync (by simpa using hne)
    simp [GA.step, hs.1, hs.2.1, hs.2.2]
  · simpa using h.fresh

theorem MGood.processData {g0 m} (h : MGood g0 m) (blk : Block) (last : Bool) :
    MGood g0 (processData m blk last) := by
  unfold Tracker.processData
  have h1 := h.appendBlock blk
  split
  · exact h1.endData
  · exact h1

/-! ## `fix_voice_burst_type` never reaches the failing enum constructor -/

theorem fixVoice_ok (tx : Tx) (p : Payload) :
    ∃ l, fixVoice tx p = .ok ({ tx with lastVoice := if tx.type = .voice then l else tx.lastVoice }, l) := by
  unfold fixVoice
  by_cases hv : tx.type = .voice
  · simp only [hv, bne_self_eq_false, Bool.false_eq_true, ↓reduceIte]
    by_cases h1 : (p.isSync || (tx.lastVoice == .f && p.isVoice)) = true
    · simp [h1]
    · simp only [h1, Bool.false_eq_true, ↓reduceIte]
      by_cases h2 : (p.isVoice && (tx.lastVoice == .a || tx.lastVoice == .b || tx.lastVoice == .c
          || tx.lastVoice == .d || tx.lastVoice == .e)) = true
      · simp only [h2, ↓reduceIte]
        cases hl : tx.lastVoice <;> simp_all [VB.succ]
      · simp [h2]
  · refine ⟨if p.isSync then .a else .unknown, ?_⟩
    simp [hv]

end Dmr.Tracker
