import DmrVerif.Lemmas.RsBase

/-! C11: `log_multiply` against carry-less multiplication modulo 0x11D — quarter D of the 65,536
operand pairs (pair `(n / 256, n % 256)` for `49152 ≤ n < 49152 + 16384`), kernel enumeration. -/

namespace Dmr.Rs

theorem mulEnumD : allBin mulCase 14 49152 = true := by decide +kernel

end Dmr.Rs
