import DmrVerif.Model.Mbxml

/-!
# Lemmas for C14: the MBXML variable-length integer codecs

`writeURaw` (bit string reversal + septet slicing, as the Python is written) is shown equal to the plain
base-128 encoder `encU`; the reader on `encU v ++ rest` returns `v` and the written length; `encU v` is
canonical, is the only canonical string that reads as `v`, and no well-flagged string is shorter.
Core Lean only (`omega`, `simp`, `decide` on facts about a single septet).
-/

namespace Dmr.Mbxml

/-! spec encoder -/
def encHiF : Nat → Nat → Bytes
  | 0, _ => []
  | f + 1, v => if v = 0 then [] else encHiF f (v / 128) ++ [v % 128 + 128]

def encHi (v : Nat) : Bytes := encHiF v v
def encU (v : Nat) : Bytes := encHi (v / 128) ++ [v % 128]
def decGo (bs : Bytes) (acc : Nat) : Nat := bs.foldl (fun a b => a * 128 + b % 128) acc

theorem encHiF_fuel : ∀ (f g v : Nat), v ≤ f → v ≤ g → encHiF f v = encHiF g v := by
  intro f
  induction f with
  | zero => intro g v hf hg; have : v = 0 := by omega
            subst this; cases g <;> simp [encHiF]
  | succ f ih =>
    intro g v hf hg
    cases g with
    | zero => have : v = 0 := by omega
              subst this; simp [encHiF]
    | succ g =>
      simp only [encHiF]
      split
      · rfl
      · rw [ih g (v / 128) (by omega) (by omega)]

theorem encHi_zero : encHi 0 = [] := rfl

theorem encHi_pos {v : Nat} (h : v ≠ 0) : encHi v = encHi (v / 128) ++ [v % 128 + 128] := by
  unfold encHi
  cases v with
  | zero => exact absurd rfl h
  | succ n =>
    simp only [encHiF]
    rw [if_neg (by omega), encHiF_fuel n ((n+1)/128) ((n + 1) / 128) (by omega) (by omega)]

theorem bitsLsbF_fuel : ∀ (f g v : Nat), v ≤ f → v ≤ g → bitsLsbF f v = bitsLsbF g v := by
  intro f
  induction f with
  | zero => intro g v hf hg; have : v = 0 := by omega
            subst this; cases g <;> simp [bitsLsbF]
  | succ f ih =>
    intro g v hf hg
    cases g with
    | zero => have : v = 0 := by omega
              subst this; simp [bitsLsbF]
    | succ g =>
      simp only [bitsLsbF]
      split
      · rfl
      · rw [ih g (v / 2) (by omega) (by omega)]

theorem bitsLsb_zero : bitsLsb 0 = [] := rfl

theorem bitsLsb_pos {v : Nat} (h : v ≠ 0) : bitsLsb v = (v % 2 == 1) :: bitsLsb (v / 2) := by
  unfold bitsLsb
  cases v with
  | zero => exact absurd rfl h
  | succ n =>
    simp only [bitsLsbF]
    rw [if_neg (by omega), bitsLsbF_fuel n ((n+1)/2) ((n + 1) / 2) (by omega) (by omega)]


def bits7 (x : Nat) : Bits :=
  [x % 2 == 1, x / 2 % 2 == 1, x / 4 % 2 == 1, x / 8 % 2 == 1, x / 16 % 2 == 1, x / 32 % 2 == 1, x / 64 % 2 == 1]

theorem bitsLsb_ge {v : Nat} (h : 128 ≤ v) : bitsLsb v = bits7 (v % 128) ++ bitsLsb (v / 128) := by
  rw [bitsLsb_pos (v := v) (by omega), bitsLsb_pos (v := v / 2) (by omega),
    bitsLsb_pos (v := v / 2 / 2) (by omega), bitsLsb_pos (v := v / 2 / 2 / 2) (by omega),
    bitsLsb_pos (v := v / 2 / 2 / 2 / 2) (by omega), bitsLsb_pos (v := v / 2 / 2 / 2 / 2 / 2) (by omega),
    bitsLsb_pos (v := v / 2 / 2 / 2 / 2 / 2 / 2) (by omega)]
  have e1 : v / 2 / 2 = v / 4 := by omega
  have e2 : v / 2 / 2 / 2 = v / 8 := by omega
  have e3 : v / 2 / 2 / 2 / 2 = v / 16 := by omega
  have e4 : v / 2 / 2 / 2 / 2 / 2 = v / 32 := by omega
  have e5 : v / 2 / 2 / 2 / 2 / 2 / 2 = v / 64 := by omega
  have e6 : v / 2 / 2 / 2 / 2 / 2 / 2 / 2 = v / 128 := by omega
  rw [e6, e5, e4, e3, e2, e1]
  have m0 : v % 128 % 2 = v % 2 := by omega
  have m1 : v % 128 / 2 % 2 = v / 2 % 2 := by omega
  have m2 : v % 128 / 4 % 2 = v / 4 % 2 := by omega
  have m3 : v % 128 / 8 % 2 = v / 8 % 2 := by omega
  have m4 : v % 128 / 16 % 2 = v / 16 % 2 := by omega
  have m5 : v % 128 / 32 % 2 = v / 32 % 2 := by omega
  have m6 : v % 128 / 64 % 2 = v / 64 % 2 := by omega
  simp only [bits7, m0, m1, m2, m3, m4, m5, m6, List.cons_append, List.nil_append]

theorem septetVal_bits7 : ∀ x, x < 128 → septetVal (bits7 x) = x := by decide

theorem lor_flag : ∀ x, x < 128 → x ||| 128 = x + 128 := by decide
theorem lor_zero (x : Nat) : Nat.lor x 0 = x := Nat.or_zero x

theorem bits7_length (x : Nat) : (bits7 x).length = 7 := rfl

theorem chunk7F_fuel : ∀ (f g : Nat) (l : Bits), l.length ≤ f → l.length ≤ g → chunk7F f l = chunk7F g l := by
  intro f
  induction f with
  | zero => intro g l hf hg
            have : l = [] := List.eq_nil_of_length_eq_zero (by omega)
            subst this; cases g <;> simp [chunk7F]
  | succ f ih =>
    intro g l hf hg
    cases g with
    | zero => have : l = [] := List.eq_nil_of_length_eq_zero (by omega)
              subst this; simp [chunk7F]
    | succ g =>
      simp only [chunk7F]
      split
      · rfl
      · rename_i hne
        have : l.length ≠ 0 := by
          intro h0; apply hne; simp [List.eq_nil_of_length_eq_zero h0]
        rw [ih g (l.drop 7) (by simp; omega) (by simp; omega)]

theorem chunk7_nil : chunk7 [] = [] := rfl

theorem chunk7_append (a l : Bits) (ha : a.length = 7) : chunk7 (a ++ l) = a :: chunk7 l := by
  unfold chunk7
  have hl : (a ++ l).length = (6 + l.length) + 1 := by simp [ha]; omega
  rw [hl]
  simp only [chunk7F]
  have hne : (a ++ l).isEmpty = false := by
    cases a with
    | nil => simp at ha
    | cons x xs => rfl
  simp only [hne, Bool.false_eq_true, if_false]
  have ht : (a ++ l).take 7 = a := by rw [← ha]; simp
  have hd : (a ++ l).drop 7 = l := by rw [← ha]; simp
  rw [ht, hd, chunk7F_fuel (6 + l.length) l.length l (by omega) (by omega)]

theorem chunk7_short (l : Bits) (h1 : l ≠ []) (h7 : l.length ≤ 7) : chunk7 l = [l] := by
  unfold chunk7
  cases hlen : l.length with
  | zero => exact absurd (List.eq_nil_of_length_eq_zero hlen) h1
  | succ n =>
    simp only [chunk7F]
    have hne : l.isEmpty = false := by
      cases l with
      | nil => exact absurd rfl h1
      | cons x xs => rfl
    simp only [hne, Bool.false_eq_true, if_false]
    have ht : l.take 7 = l := List.take_of_length_le h7
    have hd : l.drop 7 = [] := List.drop_of_length_le h7
    rw [ht, hd]
    cases n <;> simp [chunk7F]


theorem bitsLsb_small : ∀ v, v < 128 → v ≠ 0 →
    (bitsLsb v ≠ [] ∧ (bitsLsb v).length ≤ 7 ∧ septetVal (bitsLsb v) = v) := by decide

/-- the loop output (least significant septet first) for the digits of `v` -/
def lowF (first : Bool) (v : Nat) : Bytes := septetBytes first (chunk7 (bitsLsb v))

theorem lowF_zero (first : Bool) : lowF first 0 = [] := rfl

theorem lowF_pos (first : Bool) {v : Nat} (h : v ≠ 0) :
    lowF first v = (v % 128 + if first then 0 else 128) :: lowF false (v / 128) := by
  unfold lowF
  by_cases hv : v < 128
  · obtain ⟨h1, h2, h3⟩ := bitsLsb_small v hv h
    have hd : v / 128 = 0 := by omega
    have hm : v % 128 = v := by omega
    rw [chunk7_short _ h1 h2, hd, bitsLsb_zero, chunk7_nil, hm]
    simp only [septetBytes, h3]
    cases first
    · simp; exact lor_flag v hv
    · simp
  · rw [bitsLsb_ge (by omega), chunk7_append _ _ (bits7_length _)]
    simp only [septetBytes, septetVal_bits7 _ (Nat.mod_lt v (by omega))]
    cases first
    · simp; exact lor_flag _ (Nat.mod_lt v (by omega))
    · simp

theorem lowF_false_reverse : ∀ h : Nat, (lowF false h).reverse = encHi h := by
  intro h
  induction h using Nat.strongRecOn with
  | _ h ih =>
    by_cases h0 : h = 0
    · subst h0; rfl
    · rw [lowF_pos false h0, encHi_pos h0, List.reverse_cons, ih (h / 128) (by omega)]
      simp

theorem writeURaw_eq (v : Nat) : writeURaw v = encU v := by
  unfold writeURaw encU
  by_cases h0 : v = 0
  · subst h0; decide
  · have : binRev v = bitsLsb v := by simp [binRev, h0]
    rw [this]
    show (lowF true v).reverse = _
    rw [lowF_pos true h0, List.reverse_cons, lowF_false_reverse]
    simp


/-- every octet carries the continuation bit -/
def Flagged (pre : Bytes) : Prop := ∀ b ∈ pre, 128 ≤ b ∧ b < 256

theorem decGo_append (a b : Bytes) (acc : Nat) : decGo (a ++ b) acc = decGo b (decGo a acc) := by
  simp [decGo, List.foldl_append]

theorem decGo_snoc (a : Bytes) (x acc : Nat) : decGo (a ++ [x]) acc = decGo a acc * 128 + x % 128 := by
  simp [decGo, List.foldl_append]

theorem decGo_ge : ∀ (bs : Bytes) (acc : Nat), acc ≤ decGo bs acc := by
  intro bs
  induction bs with
  | nil => intro acc; exact Nat.le_refl _
  | cons b t ih =>
    intro acc
    have := ih (acc * 128 + b % 128)
    simp only [decGo, List.foldl_cons] at this ⊢
    omega

/-- the reader on continuation octets followed by a final octet -/
theorem readUGo_flagged : ∀ (pre : Bytes) (l : Nat) (rest : Bytes) (acc : Nat), Flagged pre → l < 128 →
    readUGo (pre ++ l :: rest) acc = .ok (decGo (pre ++ [l]) acc, pre.length + 1) := by
  intro pre
  induction pre with
  | nil =>
    intro l rest acc _ hl
    have : l / 128 % 2 = 0 := by omega
    simp [readUGo, this, decGo]
  | cons b t ih =>
    intro l rest acc hf hl
    have hb := hf b (by simp)
    have : ¬ (b / 128 % 2 = 0) := by omega
    have ht : Flagged t := fun x hx => hf x (by simp [hx])
    simp only [List.cons_append, readUGo, this, if_false, ih l rest _ ht hl, bump]
    simp [decGo]

theorem encHi_flagged : ∀ h : Nat, Flagged (encHi h) := by
  intro h
  induction h using Nat.strongRecOn with
  | _ h ih =>
    by_cases h0 : h = 0
    · subst h0; intro b hb; simp [encHi_zero] at hb
    · rw [encHi_pos h0]
      intro b hb
      rcases List.mem_append.mp hb with hb | hb
      · exact ih (h / 128) (by omega) b hb
      · simp at hb; omega

theorem decGo_encHi : ∀ h : Nat, decGo (encHi h) 0 = h := by
  intro h
  induction h using Nat.strongRecOn with
  | _ h ih =>
    by_cases h0 : h = 0
    · subst h0; rfl
    · rw [encHi_pos h0, decGo_snoc, ih (h / 128) (by omega)]; omega

theorem decGo_encU (v : Nat) : decGo (encU v) 0 = v := by
  unfold encU; rw [decGo_snoc, decGo_encHi]; omega

theorem encU_ne_nil (v : Nat) : encU v ≠ [] := by simp [encU]

theorem readUGo_encU (v : Nat) (rest : Bytes) :
    readUGo (encU v ++ rest) 0 = .ok (v, (encU v).length) := by
  have := readUGo_flagged (encHi (v / 128)) (v % 128) rest 0 (encHi_flagged _) (Nat.mod_lt _ (by omega))
  unfold encU
  simp only [List.append_assoc, List.singleton_append, List.length_append, List.length_singleton]
  rw [this, decGo_snoc, decGo_encHi]
  congr 2; omega

theorem readU_encU (pre : Bytes) (v : Nat) (rest : Bytes) :
    readU (pre ++ encU v ++ rest) pre.length = .ok (v, pre.length + (encU v).length) := by
  unfold readU
  simp [readUGo_encU, shift]

/-! canonical form -/

theorem wellFlagged_snoc : ∀ (pre : Bytes) (l : Nat), Flagged pre → l < 128 → wellFlagged (pre ++ [l]) = true := by
  intro pre
  induction pre with
  | nil => intro l _ hl; simp [wellFlagged, hl]
  | cons b t ih =>
    intro l hf hl
    have hb := hf b (by simp)
    have ht : Flagged t := fun x hx => hf x (by simp [hx])
    have := ih l ht hl
    cases t with
    | nil => simp [wellFlagged, hb.1, hb.2, hl]
    | cons c t' => simp only [List.cons_append] at this ⊢; simp [wellFlagged, hb.1, hb.2, this]

theorem wellFlagged_split : ∀ bs : Bytes, wellFlagged bs = true →
    ∃ pre l, bs = pre ++ [l] ∧ Flagged pre ∧ l < 128 := by
  intro bs
  induction bs with
  | nil => intro h; simp [wellFlagged] at h
  | cons b t ih =>
    intro h
    cases t with
    | nil => exact ⟨[], b, rfl, fun _ hx => by simp at hx, by simpa [wellFlagged] using h⟩
    | cons c t' =>
      simp only [wellFlagged, Bool.and_eq_true, decide_eq_true_eq] at h
      obtain ⟨pre, l, he, hf, hl⟩ := ih h.2
      refine ⟨b :: pre, l, by simp [he], ?_, hl⟩
      intro x hx
      rcases List.mem_cons.mp hx with hx | hx
      · subst hx; exact h.1
      · exact hf x hx

theorem encHi_head_ne : ∀ h : Nat, (encHi h).head? ≠ some 128 := by
  intro h
  induction h using Nat.strongRecOn with
  | _ h ih =>
    by_cases h0 : h = 0
    · subst h0; simp [encHi_zero]
    · rw [encHi_pos h0]
      by_cases h1 : h / 128 = 0
      · rw [h1, encHi_zero]; simp; omega
      · have := ih (h / 128) (by omega)
        rw [encHi_pos h1] at this ⊢
        simpa [List.head?_append] using this

theorem canonicalU_encU (v : Nat) : canonicalU (encU v) = true := by
  unfold canonicalU
  have hw : wellFlagged (encU v) = true :=
    wellFlagged_snoc _ _ (encHi_flagged _) (Nat.mod_lt _ (by omega))
  rw [hw]
  by_cases h1 : v / 128 = 0
  · simp [encU, h1, encHi_zero]
  · have := encHi_head_ne (v / 128)
    have hne : encHi (v / 128) ≠ [] := by rw [encHi_pos h1]; simp
    simp only [Bool.true_and, Bool.or_eq_true, beq_iff_eq, bne_iff_ne, ne_eq]
    right
    unfold encU
    cases hh : encHi (v / 128) with
    | nil => exact absurd hh hne
    | cons a t => rw [hh] at this; simpa using this


theorem decGo_cons (b : Nat) (t : Bytes) (acc : Nat) : decGo (b :: t) acc = decGo t (acc * 128 + b % 128) := rfl

/-- flagged octets without a leading zero septet are the continuation octets of their value -/
theorem encHi_decGo_rev : ∀ r : Bytes, Flagged r → r.getLast? ≠ some 128 →
    encHi (decGo r.reverse 0) = r.reverse ∧ (r ≠ [] → decGo r.reverse 0 ≠ 0) := by
  intro r
  induction r with
  | nil => intro _ _; exact ⟨rfl, fun h => absurd rfl h⟩
  | cons b r' ih =>
    intro hf hl
    have hb := hf b (by simp)
    have hf' : Flagged r' := fun x hx => hf x (by simp [hx])
    have hl' : r'.getLast? ≠ some 128 := by
      cases r' with
      | nil => simp
      | cons c t => simpa [List.getLast?_cons_cons] using hl
    obtain ⟨ih1, ih2⟩ := ih hf' hl'
    rw [List.reverse_cons, decGo_snoc]
    have hpos : decGo r'.reverse 0 * 128 + b % 128 ≠ 0 := by
      by_cases hr : r' = []
      · subst hr
        simp at hl
        simp [decGo]; omega
      · have := ih2 hr; omega
    refine ⟨?_, fun _ => hpos⟩
    rw [encHi_pos hpos]
    have e1 : (decGo r'.reverse 0 * 128 + b % 128) / 128 = decGo r'.reverse 0 := by omega
    have e2 : (decGo r'.reverse 0 * 128 + b % 128) % 128 + 128 = b := by omega
    rw [e1, e2, ih1]

theorem encHi_decGo (pre : Bytes) (hf : Flagged pre) (hh : pre.head? ≠ some 128) :
    encHi (decGo pre 0) = pre := by
  have := (encHi_decGo_rev pre.reverse (fun b hb => hf b (by simpa using hb))
    (by simpa [List.getLast?_reverse] using hh)).1
  simpa using this

/-- a canonical octet string is what the writer produces for the value it reads as -/
theorem encU_decGo (bs : Bytes) (h : canonicalU bs = true) : encU (decGo bs 0) = bs := by
  unfold canonicalU at h
  simp only [Bool.and_eq_true, Bool.or_eq_true, beq_iff_eq, bne_iff_ne, ne_eq] at h
  obtain ⟨pre, l, he, hf, hl⟩ := wellFlagged_split bs h.1
  subst he
  have hh : pre.head? ≠ some 128 := by
    rcases h.2 with h2 | h2
    · have : pre = [] := by
        cases pre with
        | nil => rfl
        | cons a t => simp at h2
      simp [this]
    · cases pre with
      | nil => simp
      | cons a t => simpa using h2
  unfold encU
  rw [decGo_snoc]
  have e1 : (decGo pre 0 * 128 + l % 128) / 128 = decGo pre 0 := by omega
  have e2 : (decGo pre 0 * 128 + l % 128) % 128 = l := by omega
  rw [e1, e2, encHi_decGo pre hf hh]

/-! shortest -/
theorem encHi_step_length (acc x : Nat) (hx : x < 128) :
    (encHi (acc * 128 + x)).length ≤ (encHi acc).length + 1 := by
  by_cases h0 : acc * 128 + x = 0
  · rw [h0, encHi_zero]; simp
  · rw [encHi_pos h0]
    have e1 : (acc * 128 + x) / 128 = acc := by omega
    rw [e1]; simp

theorem encHi_decGo_length : ∀ (pre : Bytes) (acc : Nat),
    (encHi (decGo pre acc)).length ≤ (encHi acc).length + pre.length := by
  intro pre
  induction pre with
  | nil => intro acc; simp [decGo]
  | cons b t ih =>
    intro acc
    rw [decGo_cons]
    have := ih (acc * 128 + b % 128)
    have := encHi_step_length acc (b % 128) (Nat.mod_lt _ (by omega))
    simp only [List.length_cons]; omega

/-- no octet string with correct continuation bits that reads as `v` is shorter than the writer's -/
theorem encU_shortest (bs : Bytes) (h : wellFlagged bs = true) :
    (encU (decGo bs 0)).length ≤ bs.length := by
  obtain ⟨pre, l, he, hf, hl⟩ := wellFlagged_split bs h
  subst he
  unfold encU
  rw [decGo_snoc]
  have e1 : (decGo pre 0 * 128 + l % 128) / 128 = decGo pre 0 := by omega
  rw [e1]
  have := encHi_decGo_length pre 0
  simp only [encHi_zero, List.length_nil, Nat.zero_add] at this
  simp only [List.length_append, List.length_singleton]; omega


end Dmr.Mbxml
