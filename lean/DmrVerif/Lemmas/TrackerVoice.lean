import DmrVerif.Lemmas.TrackerObs

/-!
# Voice labels and freshness of stream ids over whole histories (C08)
-/

namespace Dmr.Tracker

/-! ## what a step of the terminal is, in terms of the slot it addresses -/

theorem Terminal.step_ok {t t' : Terminal} {inp : Bool × AbsBurst} {out : Out}
    (h : t.step inp = .ok (t', out)) :
    ∃ s' o', (t.slot inp.1).process t.oracle inp.2 = .ok (s', o', out)
      ∧ t' = { (t.setSlot inp.1 s') with oracle := o', obs := deliver t.obs out.acts } := by
  unfold Terminal.step at h
  split at h
  · cases h
  · rename_i s' o' out' hp
    cases h
    exact ⟨s', o', hp, rfl⟩

@[simp] theorem slot_setSlot_same (t : Terminal) (two : Bool) (s : Slot) :
    (t.setSlot two s).slot two = s := by
  cases two <;> simp [Terminal.setSlot, Terminal.slot]

theorem slot_setSlot_other (t : Terminal) (two two' : Bool) (s : Slot) (h : two ≠ two') :
    (t.setSlot two s).slot two' = t.slot two' := by
  cases two <;> cases two' <;> simp_all [Terminal.setSlot, Terminal.slot]

theorem TInv.slot {t : Terminal} {g1 g2 : SG} (h : TInv t g1 g2) (two : Bool) :
    SlotInv (t.slot two) (if two then g2 else g1) t.oracle := by
  cases two
  · simpa [Terminal.slot] using h.i1
  · simpa [Terminal.slot] using h.i2

/-- everything the property needs to know about one step of a terminal that satisfies the invariant -/
theorem Terminal.step_facts {t : Terminal} {g1 g2 : SG} (h : TInv t g1 g2) (inp : Bool × AbsBurst)
    (hwf : inp.2.wf = true) :
    ∃ t' out, t.step inp = .ok (t', out)
      ∧ TInv t' (if inp.1 then g1 else g1.stepOut out) (if inp.1 then g2.stepOut out else g2)
      ∧ t.oracle ≤ t'.oracle
      ∧ out.stream = (t'.slot inp.1).tx.streamNo
      ∧ out.stream < t'.oracle
      ∧ (out.deliveredEnd = true → t.oracle ≤ out.stream)
      ∧ (∀ e, (events out.acts).getLast? = some e → e.isEnded = true →
          (t'.slot inp.1).tx.isIdleFresh = true ∧ out.stream + 1 = t'.oracle)
      ∧ (∀ two, two ≠ inp.1 → t'.slot two = t.slot two) := by
  obtain ⟨t', out, hs, hi⟩ := Terminal.step_inv h inp hwf
  obtain ⟨s', o', hp, ht'⟩ := Terminal.step_ok hs
  obtain ⟨s'', o'', out'', hp', _, hle⟩ := Slot.process_inv (h.slot inp.1) inp.2 hwf
  rw [hp] at hp'
  cases hp'
  obtain ⟨e1, e2, e3⟩ := Slot.process_end hp
  have hslot : t'.slot inp.1 = s' := by
    rw [ht']
    cases inp.1 <;> simp [Terminal.setSlot, Terminal.slot]
  have hor : t'.oracle = o' := by rw [ht']
  have hfresh := (hi.slot inp.1).good.fresh
  simp only [hslot, hor] at hfresh
  refine ⟨t', out, hs, hi, by rw [hor]; exact hle, by rw [hslot]; exact e1, ?_, ?_, ?_, ?_⟩
  · rw [hor, e1]; exact hfresh
  · intro hd; rw [e1]; exact e2 hd
  · intro e he hen
    rw [hslot, hor, e1]
    exact e3 e he hen
  · intro two hne
    rw [ht']
    cases h1 : inp.1 <;> cases two <;> simp_all [Terminal.setSlot, Terminal.slot]

/-! ## freshness of stream ids -/

/-- `seen` = every stream id handed out so far: a burst that delivers an end returns an id not in it -/
def freshOk : List Nat → List Rec → Bool
  | _, [] => true
  | seen, r :: rest =>
    (!r.out.deliveredEnd || !seen.contains r.out.stream) && freshOk (r.out.stream :: seen) rest

theorem fresh_run (h : List (Bool × AbsBurst)) : ∀ (t : Terminal) (g1 g2 : SG) (seen : List Nat),
    TInv t g1 g2 → (∀ x ∈ seen, x < t.oracle) → (∀ x ∈ h, x.2.wf = true) →
    ∀ t' recs, run t h = .ok (t', recs) → freshOk seen recs = true := by
  induction h with
  | nil => intro t g1 g2 seen _ _ _ t' recs hr; cases hr; rfl
  | cons inp rest ih =>
    intro t g1 g2 seen hi hseen hwf t' recs hr
    obtain ⟨t1, out, hs, hi1, hle, _, hlt, hde, _, _⟩ :=
      Terminal.step_facts hi inp (hwf inp (by simp))
    simp only [run, hs] at hr
    cases hr1 : run t1 rest with
    | error e => simp [hr1] at hr
    | ok r =>
      obtain ⟨t2, recs1⟩ := r
      simp only [hr1, Except.ok.injEq, Prod.mk.injEq] at hr
      obtain ⟨_, hrecs⟩ := hr
      subst hrecs
      have ih' := ih t1 _ _ (out.stream :: seen) hi1
        (by
          intro x hx
          rcases List.mem_cons.mp hx with hx | hx
          · rw [hx]; exact hlt
          · exact Nat.lt_of_lt_of_le (hseen x hx) hle)
        (fun x hx => hwf x (by simp [hx])) t2 recs1 hr1
      simp only [freshOk, ih', Bool.and_true, Bool.or_eq_true, Bool.not_eq_eq_eq_not, Bool.not_true]
      by_cases hd : out.deliveredEnd = true
      · right
        have := hde hd
        simp only [List.contains_eq_mem, decide_eq_false_iff_not]
        intro hmem
        exact absurd (hseen _ hmem) (Nat.not_lt.mpr this)
      · left; simpa using hd

/-! ## voice labels -/

theorem fixVoice_voice (tx : Tx) (hv : tx.type = .voice) (sync : Bool) :
    fixVoice tx (.voice sync) =
      .ok ({ tx with lastVoice := voiceLabel sync tx.lastVoice }, voiceLabel sync tx.lastVoice) := by
  cases sync <;> cases hl : tx.lastVoice <;>
    simp [fixVoice, hv, hl, voiceLabel, VB.next, VB.succ, Payload.isSync, Payload.isVoice]

/-- a vocoder burst inside a voice transmission: labelled, nothing else changes -/
theorem Slot.process_voice (s : Slot) (o : Nat) (sync : Bool) (c : Option Nat)
    (hv : s.tx.type = .voice) (hnl : isLastBlock s.tx false = false) (hr : s.reset = false) :
    s.process o ⟨.voice sync, c⟩ =
      .ok ({ tx := { s.tx with lastVoice := voiceLabel sync s.tx.lastVoice },
             rxSeq := (s.rxSeq + 1) % 256, reset := false, cc := c.getD s.cc }, o,
           { seq := (s.rxSeq + 1) % 256, label := voiceLabel sync s.tx.lastVoice,
             stream := s.tx.streamNo, acts := [] }) := by
  have hp : processPacket { tx := s.tx, oracle := o } (.voice sync) =
      .ok ({ tx := { s.tx with lastVoice := voiceLabel sync s.tx.lastVoice }, oracle := o },
           voiceLabel sync s.tx.lastVoice) := by
    rw [processPacket_eq, fixVoice_voice s.tx hv sync]
    simp only [dispatch]
    rw [trailing_stays]
    simpa [isLastBlock] using hnl
  unfold Slot.process
  simp only [hp, hr]
  cases c <;> simp

theorem cyc_ne_unknown (n : Nat) : cyc n ≠ .unknown := by
  induction n with
  | zero => simp [cyc]
  | succ n ih => revert ih; simp only [cyc]; cases cyc n <;> simp [VB.next]

theorem cyc_period (n : Nat) : cyc (n + 6) = cyc n := by
  induction n with
  | zero => rfl
  | succ n ih =>
    show (cyc (n + 6)).next = (cyc n).next
    rw [ih]

/-- vocoder bursts without SYNC on slot `two` (anything on the other slot) inside a voice transmission
whose last label is the `j`-th of the cycle: the labels continue the cycle -/
theorem voice_run (two : Bool) (h : List (Bool × AbsBurst)) : ∀ (t : Terminal) (g1 g2 : SG) (j : Nat),
    TInv t g1 g2 → (t.slot two).tx.type = .voice → (t.slot two).tx.lastVoice = cyc j →
    (∀ x ∈ h, x.2.wf = true) → (∀ x ∈ h, x.1 = two → ∃ c, x.2 = ⟨.voice false, c⟩) →
    ∃ t' recs, run t h = .ok (t', recs)
      ∧ (outsOf two recs).map (·.label)
          = (List.range (outsOf two recs).length).map (fun i => cyc (j + 1 + i))
      ∧ (t'.slot two).tx.type = .voice := by
  induction h with
  | nil => intro t g1 g2 j _ hv _ _ _; exact ⟨t, [], rfl, by simp [outsOf], hv⟩
  | cons inp rest ih =>
    intro t g1 g2 j hi hv hl hwf hsh
    obtain ⟨t1, out, hs, hi1, _, _, _, _, _, hother⟩ := Terminal.step_facts hi inp (hwf inp (by simp))
    by_cases hsl : inp.1 = two
    · obtain ⟨c, hb⟩ := hsh inp (by simp) hsl
      obtain ⟨s', o', hp, ht1⟩ := Terminal.step_ok hs
      have hinv := hi.slot two
      rw [hsl, hb, Slot.process_voice _ _ false c hv (hinv.nolast hv) hinv.reset] at hp
      simp only [Except.ok.injEq, Prod.mk.injEq] at hp
      obtain ⟨hs', _, hout⟩ := hp
      have hslot : t1.slot two = s' := by rw [ht1, hsl]; simp [Terminal.slot, Terminal.setSlot]; cases two <;> simp
      have hv1 : (t1.slot two).tx.type = .voice := by rw [hslot, ← hs']; exact hv
      have hl1 : (t1.slot two).tx.lastVoice = cyc (j + 1) := by
        rw [hslot, ← hs']; simp [voiceLabel, hl, cyc]
      obtain ⟨t2, recs, hr, hlab, hv2⟩ := ih t1 _ _ (j + 1) hi1 hv1 hl1
        (fun x hx => hwf x (by simp [hx])) (fun x hx => hsh x (by simp [hx]))
      refine ⟨t2, { two := inp.1, burst := inp.2, out := out } :: recs, by simp [run, hs, hr], ?_, hv2⟩
      rw [outsOf_cons]
      simp only [hsl, ↓reduceIte, List.map_cons, List.length_cons, hlab]
      rw [List.range_succ_eq_map]
      simp only [List.map_cons, List.map_map]
      have h1 : out.label = cyc (j + 1 + 0) := by rw [← hout]; simp [voiceLabel, hl, cyc]
      rw [h1]
      congr 1
      apply List.map_congr_left
      intro i _
      simp only [Function.comp]
      congr 1
      omega
    · have hslot : t1.slot two = t.slot two := hother two (fun h => hsl h.symm)
      obtain ⟨t2, recs, hr, hlab, hv2⟩ := ih t1 _ _ j hi1 (by rw [hslot]; exact hv)
        (by rw [hslot]; exact hl) (fun x hx => hwf x (by simp [hx])) (fun x hx => hsh x (by simp [hx]))
      refine ⟨t2, { two := inp.1, burst := inp.2, out := out } :: recs, by simp [run, hs, hr], ?_, hv2⟩
      rw [outsOf_cons]
      simp only [hsl, ↓reduceIte]
      exact hlab

end Dmr.Tracker
