import DmrVerif.Model.PduUdp
import DmrVerif.Lemmas.PduDataHeader

/-!
# UDP/IPv4 compressed header (0 / 1 / 2 extended headers): round trip, fixed point, totality
-/

set_option linter.unusedSimpArgs false

namespace Dmr
open Dmr.Gen

namespace UdpHeader

/-- the extracted `UDPPortIdentifier` graph: every 7-bit value maps to a member, and to
`InExtendedHeader` (0) only if it is 0 -/
theorem port_graph : ∀ v, v < 2 ^ 7 → ∃ m, eUDPPortIdentifier.dec v = .ok m ∧ (m = 0 ↔ v = 0) := by
  have : ∀ v, v < 2 ^ 7 → (match eUDPPortIdentifier.dec v with
      | .ok m => decide (m = 0 ↔ v = 0) | .error _ => false) = true := by decide +kernel
  intro v hv
  have h := this v hv
  cases hd : eUDPPortIdentifier.dec v with
  | ok m => rw [hd] at h; exact ⟨m, rfl, by simpa using h⟩
  | error e => rw [hd] at h; exact absurd h (by simp)

theorem ip_graph : ∀ v, v < 2 ^ 4 → ∃ m, eIPAddressIdentifier.dec v = .ok m := by
  have : ∀ v, v < 2 ^ 4 → (match eIPAddressIdentifier.dec v with | .ok _ => true | .error _ => false) = true := by
    decide +kernel
  intro v hv
  have h := this v hv
  cases hd : eIPAddressIdentifier.dec v with
  | ok m => exact ⟨m, rfl⟩
  | error e => rw [hd] at h; exact absurd h (by simp)

theorem enc_length (p : UdpHeader) :
    (enc p).length = 40 + (optBits p.extendedHeader1).length + (optBits p.extendedHeader2).length + p.userData.length := by
  simp [enc]; omega

theorem dec_enc (p : UdpHeader) (h : p.WF) : dec (enc p) = .ok p := by
  obtain ⟨id, sip, dip, sp, dp, e1, e2, ud⟩ := p
  obtain ⟨hid, hsip, hdip, hsp, hdp, hext⟩ := h
  simp only at hid hsip hdip hsp hdp hext
  obtain ⟨h1, h1l⟩ := Elem.facts (by simp [allElems]) hsip
  obtain ⟨h2, h2l⟩ := Elem.facts (by simp [allElems]) hdip
  change sip < 2 ^ 4 at h1l; change dip < 2 ^ 4 at h2l
  obtain ⟨ms, hms, hms0⟩ := port_graph sp hsp
  obtain ⟨md, hmd, hmd0⟩ := port_graph dp hdp
  by_cases hs0 : sp = 0 <;> by_cases hd0 : dp = 0
  all_goals
    simp only [hs0, hd0, and_self, and_true, true_and, or_true, true_or, or_self, ↓reduceIte, false_and, and_false, or_false, false_or] at hext
    obtain ⟨he1, he2⟩ := hext
  · -- two extended headers
    match e1, he1, e2, he2 with
    | some a, ha, some b, hb =>
    simp only [optIs] at ha hb
    have hs' : ms = 0 := hms0.mpr hs0
    have hd' : md = 0 := hmd0.mpr hd0
    unfold dec
    simp only [enc, optBits, List.append_assoc]
    layout_simp [hid, h1, h1l, h2, h2l, hsp, hdp, hms, hmd, hs', hd', ha, hb]
    rw [if_neg (by omega), if_neg (by omega)]
  · -- source port in the extended header
    match e1, he1 with
    | some a, ha =>
    simp only [optIs] at ha
    subst he2
    have hs' : ms = 0 := hms0.mpr hs0
    have hd' : ¬ md = 0 := fun h => hd0 (hmd0.mp h)
    unfold dec
    simp only [enc, optBits, List.append_assoc, List.nil_append]
    layout_simp [hid, h1, h1l, h2, h2l, hsp, hdp, hms, hmd, hs', hd', ha]
    rw [if_neg (by omega), if_neg (by omega)]
  · -- destination port in the extended header
    match e1, he1 with
    | some a, ha =>
    simp only [optIs] at ha
    subst he2
    have hs' : ¬ ms = 0 := fun h => hs0 (hms0.mp h)
    have hd' : md = 0 := hmd0.mpr hd0
    unfold dec
    simp only [enc, optBits, List.append_assoc, List.nil_append]
    layout_simp [hid, h1, h1l, h2, h2l, hsp, hdp, hms, hmd, hs', hd', ha]
    rw [if_neg (by omega), if_neg (by omega)]
  · -- no extended header
    subst he1; subst he2
    have hs' : ¬ ms = 0 := fun h => hs0 (hms0.mp h)
    have hd' : ¬ md = 0 := fun h => hd0 (hmd0.mp h)
    unfold dec
    simp only [enc, optBits, List.append_assoc, List.nil_append]
    layout_simp [hid, h1, h1l, h2, h2l, hsp, hdp, hms, hmd, hs', hd']
    rw [if_neg (by omega)]

theorem dec_wf (bs : Bits) (p : UdpHeader) (h : dec bs = .ok p) : p.WF := by
  obtain ⟨ms, hms, hms0⟩ := port_graph (getField bs 25 7) (getField_lt _ _ _)
  obtain ⟨md, hmd, hmd0⟩ := port_graph (getField bs 33 7) (getField_lt _ _ _)
  unfold dec at h
  simp only [hms, hmd] at h
  repeat' split at h
  all_goals first | (cases h; done) | skip
  all_goals cases h
  all_goals
    unfold WF
    simp only
    refine ⟨getField_lt _ _ _, Elem.defined_of_dec_mem (by assumption) (by simp [allElems]),
      Elem.defined_of_dec_mem (by assumption) (by simp [allElems]), getField_lt _ _ _, getField_lt _ _ _, ?_⟩
  · have hc : ms = 0 ∧ md = 0 := by assumption
    rw [if_pos ⟨hms0.mp hc.1, hmd0.mp hc.2⟩]
    exact ⟨getField_lt _ _ _, getField_lt _ _ _⟩
  · have hc1 : ¬(ms = 0 ∧ md = 0) := by assumption
    have hc2 : ms = 0 ∨ md = 0 := by assumption
    rw [if_neg (fun hh => hc1 ⟨hms0.mpr hh.1, hmd0.mpr hh.2⟩),
        if_pos (hc2.elim (fun hh => Or.inl (hms0.mp hh)) (fun hh => Or.inr (hmd0.mp hh)))]
    exact ⟨getField_lt _ _ _, trivial⟩
  · have hc1 : ¬(ms = 0 ∧ md = 0) := by assumption
    have hc2 : ¬(ms = 0 ∨ md = 0) := by assumption
    rw [if_neg (fun hh => hc1 ⟨hms0.mpr hh.1, hmd0.mpr hh.2⟩),
        if_neg (fun hh => hc2 (hh.elim (fun hh => Or.inl (hms0.mpr hh)) (fun hh => Or.inr (hmd0.mpr hh))))]
    exact ⟨trivial, trivial⟩

theorem fixpoint (bs : Bits) (p : UdpHeader) (h : dec bs = .ok p) : dec (enc p) = .ok p :=
  dec_enc p (dec_wf bs p h)

/-- the only exception `from_bits` raises is `AssertionError` (input shorter than the header and the
extended headers it announces) -/
theorem dec_errors (bs : Bits) (e : Err) (h : dec bs = .error e) : e = .assertionError := by
  obtain ⟨ms, hms, hms0⟩ := port_graph (getField bs 25 7) (getField_lt _ _ _)
  obtain ⟨md, hmd, hmd0⟩ := port_graph (getField bs 33 7) (getField_lt _ _ _)
  obtain ⟨m1, hm1⟩ := ip_graph (getField bs 16 4) (getField_lt _ _ _)
  obtain ⟨m2, hm2⟩ := ip_graph (getField bs 20 4) (getField_lt _ _ _)
  unfold dec at h
  simp only [hms, hmd, hm1, hm2] at h
  repeat' split at h
  all_goals first | (cases h; done) | (cases h; rfl)

/-- a string that holds the 40 header bits and the extended headers it announces always decodes, and
the re-serialisation has the same length -/
theorem dec_length (bs : Bits) (p : UdpHeader) (h : dec bs = .ok p) : (enc p).length = bs.length := by
  obtain ⟨ms, hms, hms0⟩ := port_graph (getField bs 25 7) (getField_lt _ _ _)
  obtain ⟨md, hmd, hmd0⟩ := port_graph (getField bs 33 7) (getField_lt _ _ _)
  rw [enc_length]
  unfold dec at h
  simp only [hms, hmd] at h
  repeat' split at h
  all_goals first | (cases h; done) | skip
  all_goals cases h
  all_goals (simp [optBits]; omega)

end UdpHeader
end Dmr
