import DmrVerif.Gen.TranslHytera
import DmrVerif.Lemmas.HyteraHrnp

/-!
Equality of the definitions TRANSLATED from the source of `HDAP.get_hdap_checksum` (hdap.py) and
`HRNP.calculate_checksum` (hrnp.py) (`Gen/TranslHytera.lean`, regenerated on every run by `tools/py2lean.py`) with the
hand-written model (`Model/Hdap.lean: hdapChecksum`, `Model/Hrnp.lean: hrnpCheck`) the C12 / C04 theorems are about.
For all byte strings; the fuel of the `while` loop is proved sufficient.
-/

namespace Dmr.Transl.Hytera
open Dmr Dmr.Py Dmr.Hytera

/-! ### `HDAP.get_hdap_checksum` -/

theorem get_hdap_checksum_eq (d : Bytes) : get_hdap_checksum d = .ok [hdapChecksum d] := by
  unfold get_hdap_checksum hdapChecksum
  apply forEach_sim_bind (fun (s : Int) (t : Nat) => s = (t : Int)) (fun c b => (c + b) &&& 0xFF) d 0
  · simp [iterB]
  · rfl
  · intro i h₁ h₂ s t hs
    subst hs
    refine ⟨_, ?_, rfl⟩
    have hi : (iterB d)[i] = (d[i] : Int) := by simp [iterB]
    rw [hi]
    show (pure (band ((t : Int) + (d[i] : Int)) 255) : PyM Int) = _
    rw [← Int.natCast_add, band_lit]
    rfl
  · intro s' hs
    subst hs
    generalize List.foldl (fun c b => (c + b) &&& 0xFF) 0 d = c
    have e : ((c ^^^ 0xFF : Nat) : Int) + 0x33 = ((c ^^^ 0xFF) + 0x33 : Nat) := by push_cast; rfl
    have hlt : ((c ^^^ 0xFF) + 0x33) &&& 0xFF < 256 := by
      have := @Nat.and_le_right ((c ^^^ 0xFF) + 0x33) 0xFF
      omega
    simp only [bxor_lit, e, band_lit, toBytes_cons_ofNat, toBytes_nil, hlt, if_true, ok_bind]

/-! ### `HRNP.calculate_checksum` -/

theorem words16_get (D : Bytes) : ∀ (i : Nat), 2 * i + 1 < D.length →
    (words16 D)[i]? = some (D.getD (2 * i) 0 * 256 + D.getD (2 * i + 1) 0) := by
  induction D using words16.induct with
  | case1 => intro i h; simp at h
  | case2 a => intro i h; simp at h
  | case3 a b rest ih =>
    intro i h
    cases i with
    | zero => simp [words16]
    | succ i =>
      have h' : 2 * i + 1 < rest.length := by simp at h; omega
      have e1 : 2 * (i + 1) = (2 * i + 1) + 1 := by omega
      simp only [words16, List.getElem?_cons_succ, ih i h', e1, List.getD_cons_succ]

theorem words16_length (D : Bytes) : D.length % 2 = 0 → (words16 D).length = D.length / 2 := by
  induction D using words16.induct with
  | case1 => intro _; rfl
  | case2 a => intro h; simp at h
  | case3 a b rest ih =>
    intro h
    have h' : rest.length % 2 = 0 := by simp at h; omega
    simp only [words16, List.length_cons, ih h']; omega

theorem slice_pair (D : Bytes) (i : Nat) (h : 2 * i + 1 < D.length) :
    slice D (some ((2 * i : Nat) : Int)) (some ((2 * i + 2 : Nat) : Int)) = [D.getD (2 * i) 0, D.getD (2 * i + 1) 0] := by
  rw [slice_ofNat_ofNat]
  have h1 : min (2 * i) D.length = 2 * i := by omega
  have h2 : min (2 * i + 2) D.length = 2 * i + 2 := by omega
  rw [h1, h2, show 2 * i + 2 - 2 * i = 2 by omega]
  have g0 : D.getD (2 * i) 0 = D[2 * i] := by
    simp [List.getD_eq_getElem?_getD, List.getElem?_eq_getElem (by omega : 2 * i < D.length)]
  have g1 : D.getD (2 * i + 1) 0 = D[2 * i + 1] := by
    simp [List.getD_eq_getElem?_getD, List.getElem?_eq_getElem (by omega : 2 * i + 1 < D.length)]
  rw [g0, g1, List.drop_eq_getElem_cons (by omega : 2 * i < D.length), List.take_succ_cons,
    List.drop_eq_getElem_cons (by omega : 2 * i + 1 < D.length), List.take_succ_cons, List.take_zero]


theorem words16_pad (d : Bytes) : d.length % 2 = 1 → words16 (d ++ [0]) = words16 d := by
  induction d using words16.induct with
  | case1 => intro h; simp at h
  | case2 a => intro _; simp [words16]
  | case3 a b rest ih =>
    intro h
    have h' : rest.length % 2 = 1 := by simp at h; omega
    simp only [List.cons_append, words16, ih h']

/-- the `while check >> 16` loop against the model's `fold16Go`: `f + 1` passes suffice for a value `≤ f` -/
theorem whileFuel_fold {ρ : Type} (body : Int → PyM (Step Int ρ))
    (hb : ∀ c : Nat, body (c : Int) =
      if c / 65536 = 0 then .ok (.brk (c : Int)) else .ok (.next ((c % 65536 + c / 65536 : Nat) : Int))) :
    ∀ (f c : Nat), c ≤ f → whileFuel (f + 1) (c : Int) body = .ok (.brk ((fold16Go f c : Nat) : Int)) := by
  intro f
  induction f with
  | zero =>
    intro c h
    have : c = 0 := by omega
    subst this
    have h0 := hb 0
    rw [show ((0 : Nat) : Int) = 0 from rfl] at h0
    simp [whileFuel, h0, fold16Go]
  | succ f ih =>
    intro c h
    rw [whileFuel, hb]
    unfold fold16Go
    by_cases hc : c / 65536 = 0
    · simp [hc]
    · simp only [hc, if_false, ok_bind]
      exact ih _ (by omega)

theorem complement16 (c : Nat) (h : c < 65536) : band (binvert (c : Int)) 65535 = ((65535 - c : Nat) : Int) := by
  have e : binvert (c : Int) = Int.negSucc c := by
    unfold binvert; omega
  rw [e]
  show ((65535 ^^^ (65535 &&& c) : Nat) : Int) = _
  congr 1
  apply Nat.eq_of_testBit_eq
  intro i
  have h1 : (65535 : Nat) = 2 ^ 16 - 1 := by decide
  have h2 : 65535 - c = 2 ^ 16 - (c + 1) := by omega
  rw [h2, Nat.testBit_two_pow_sub_succ (by simpa using h), Nat.testBit_xor, Nat.testBit_and, h1,
    Nat.testBit_two_pow_sub_one]
  by_cases hi : i < 16 <;> simp [hi]
  
theorem toBytesBig2 (v : Nat) (h : v < 65536) : toBytesBig (v : Int) 2 = .ok (be2 v) := by
  unfold toBytesBig toBytesLittle
  have : ¬ ((v : Int) < 0) := by omega
  simp [this, h, octetsLE, be2]

theorem calculate_checksum_even (d : Bytes) (hD : d.length % 2 = 0) : calculate_checksum d = .ok (be2 (hrnpCheck d)) := by
  unfold calculate_checksum
  have hc : (modL (len d) 2 == 1) = false := by
    rw [len_eq, modL_ofNat]; simp; omega
  simp only [hc, Bool.false_eq_true, if_false]
  apply forEach_sim_bind (fun (s : Int) (t : Nat) => s = (t : Int)) (fun t w => t + w) (words16 d) 0
  · rw [words16_length d hD]; simp [range3p]; omega
  · rfl
  · intro i h₁ h₂ s t hs
    subst hs
    have hi2 : 2 * i + 1 < d.length := by rw [words16_length d hD] at h₂; omega
    refine ⟨_, ?_, rfl⟩
    have e0 : (range3p 0 (len d) 2)[i] = ((2 * i : Nat) : Int) := by simp [range3p]
    have e2 : ((2 * i : Nat) : Int) + 2 = ((2 * i + 2 : Nat) : Int) := by push_cast; rfl
    have hw : (words16 d)[i] = d.getD (2 * i) 0 * 256 + d.getD (2 * i + 1) 0 := by
      have := words16_get d i hi2
      rw [List.getElem?_eq_getElem h₂] at this
      exact Option.some.inj this
    rw [e0, hw]
    show (pure ((t : Int) + fromBytesBig (slice d (some ((2 * i : Nat) : Int)) (some (((2 * i : Nat) : Int) + 2)))) : PyM Int) = _
    rw [e2, slice_pair d i hi2]
    simp [fromBytesBig]
  · intro s' hs
    subst hs
    generalize hS : List.foldl (fun t w => t + w) 0 (words16 d) = S
    have hS' : (words16 d).sum = S := by rw [← hS, List.sum_eq_foldl]
    have hf : ((S : Int) + 1).toNat = S + 1 := by omega
    have hb : ∀ c : Nat, (fun check : Int => if (!shrN check 16 != 0) = true then (pure (Step.brk check) : PyM (Step Int (List Nat)))
          else pure (Step.next (band check 65535 + shrN check 16))) (c : Int) =
        if c / 65536 = 0 then .ok (.brk (c : Int)) else .ok (.next ((c % 65536 + c / 65536 : Nat) : Int)) := by
      intro c
      have e1 : c &&& 65535 = c % 65536 := Nat.and_two_pow_sub_one_eq_mod c 16
      simp only [shrN_ofNat, band_lit, e1]
      by_cases hc : c / 65536 = 0
      · simp [hc]
      · simp [hc]
        omega
    rw [hf, whileFuel_fold _ hb S S (Nat.le_refl S)]
    simp only [ok_bind]
    obtain ⟨h1, _, _⟩ := fold16Go_spec S S (Nat.le_refl S)
    rw [complement16 _ h1, toBytesBig2 _ (by omega)]
    simp [hrnpCheck, fold16, hS']

/-- `HRNP.calculate_checksum`, every byte string: the two octets of the model's `hrnpCheck` -/
theorem calculate_checksum_eq (d : Bytes) : calculate_checksum d = .ok (be2 (hrnpCheck d)) := by
  by_cases hD : d.length % 2 = 0
  · exact calculate_checksum_even d hD
  · have hodd : d.length % 2 = 1 := by omega
    have hev : (d ++ [0]).length % 2 = 0 := by simp; omega
    have h1 : (modL (len d) 2 == 1) = true := by
      rw [len_eq, modL_ofNat]; simp; omega
    have h2 : (modL (len (d ++ [0])) 2 == 1) = false := by
      rw [len_eq, modL_ofNat]; simp; omega
    have e : calculate_checksum d = calculate_checksum (d ++ [0]) := by
      unfold calculate_checksum
      simp only [h1, h2, if_true, Bool.false_eq_true, if_false]
    rw [e, calculate_checksum_even _ hev, hrnpCheck, hrnpCheck, words16_pad d hodd]

end Dmr.Transl.Hytera
