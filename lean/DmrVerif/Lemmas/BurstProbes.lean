import DmrVerif.Lemmas.Burst

/-!
# Burst: structured centres next to the SYNC patterns, and object reuse

* `resolve_probes_ok`: the translator records how `Burst.__init__` classifies the 48-bit centres at
  minimal Hamming distance from every SYNC pattern (`Gen.Burst.resolvedToPattern` /
  `resolvedToEmbedded`: the pattern, its 48 single-bit neighbours, for every valid EMB word `E` the
  centre `E[0:8] ++ S[8:40] ++ E[8:16]`, and the single-bit neighbours of `S[8:40]` around the EMB
  words nearest to the outer bits of `S`).  The model's `Sync.resolve` (exact lookup) decides every one
  of them the same way.  A tolerant / masked / prefix comparison in the code changes the extracted
  table and breaks this obligation; the entries of `resolvedToPattern` with `centre ≠ pattern` and a
  QR code word in the outer bits are then voice bursts that violate `voice_emb_roundtrip` on the code.
* `sync_emb_margin_ok`: the outer 16 bits of every SYNC pattern differ from every valid EMB word in at
  least 2 bits, and 2 is attained — the structured centres above are at distance 2 … from a pattern, so
  accepting even two bit errors in the SYNC lookup breaks the property.
* `serialise_data_congr`, `reassign_is_build`: `as_bits` of a data burst is a function of the current
  values of `slot_type`, `data`, `has_emb`, `emb`, `sync_or_embedded_signalling` only; assigning a
  payload, slot type and sync pattern to an assembled or parsed burst object gives the burst assembled
  from those values (the model has no hidden state; the real object is compared on reuse histories).
-/

namespace Dmr
open Dmr.Gen Dmr.Gen.Burst

/-- the model's `Sync.resolve` decides every structured probe centre as `Burst.__init__` did, and
every pattern is among the probes -/
def resolveProbesChk : Bool :=
  resolvedToPattern.all (fun p => Sync.resolve p.1 == .pattern p.2)
    && resolvedToEmbedded.all (fun c => Sync.resolve c == .embedded)
    && syncValues.all (fun v => resolvedToPattern.contains (v, v))

theorem resolve_probes_ok : resolveProbesChk = true := by decide +kernel

/-- Hamming distance of two equally long bit strings -/
def hamming (a b : Bits) : Nat := ((a.zip b).filter (fun p => p.1 != p.2)).length

/-- the valid EMB words: QR(16,7,6) code words of the 128 information words -/
def embWords : List Bits := (List.range 128).map (fun d => qr1676.gen (natToBits 7 d))

def syncEmbMarginChk : Bool :=
  embWords.all (fun e => syncValues.all (fun v => decide (2 ≤ hamming (outer16 (natToBits 48 v)) e)))
  && embWords.any (fun e => syncValues.any (fun v => hamming (outer16 (natToBits 48 v)) e == 2))

theorem sync_emb_margin_ok : syncEmbMarginChk = true := by decide +kernel

namespace Burst

/-- `as_bits` of a data burst reads the current slot type, payload, `has_emb`, EMB and sync only -/
theorem serialise_data_congr (a b : Burst) (ha : a.isDataOrControl = true) (hb : b.isDataOrControl = true)
    (h1 : a.slotType = b.slotType) (h2 : a.data = b.data) (h3 : a.hasEmb = b.hasEmb) (h4 : a.emb = b.emb)
    (h5 : a.sync = b.sync) : serialise a = serialise b := by
  unfold serialise
  rw [ha, hb, h1, h2, h3, h4, h5]
  simp

/-- `as_bits` of a voice burst reads the vocoder bits, `has_emb`, EMB, embedded bits and sync only -/
theorem serialise_voice_congr (a b : Burst) (ha : a.isDataOrControl = false) (hb : b.isDataOrControl = false)
    (h1 : a.voiceBits = b.voiceBits) (h2 : a.embBits = b.embBits) (h3 : a.hasEmb = b.hasEmb) (h4 : a.emb = b.emb)
    (h5 : a.sync = b.sync) : serialise a = serialise b := by
  unfold serialise
  rw [ha, hb, h1, h2, h3, h4, h5]
  simp

/-- object reuse: assigning the payload, slot type and sync pattern of another assembly to an
assembled burst object gives exactly the burst assembled from those values -/
theorem reassign_is_build (p1 p2 : Payload) (cc1 cc2 s1 s2 : Nat) (b1 b2 : Burst)
    (h1 : build p1 cc1 s1 = .ok b1) (h2 : build p2 cc2 s2 = .ok b2) :
    { b1 with sync := .pattern s2, slotType := b2.slotType, data := some p2 } = b2 := by
  unfold build at h1 h2
  split at h1
  · cases h1
  · split at h2
    · cases h2
    · cases h1; cases h2; rfl

/-- the same on a parsed data burst: after assigning slot type, payload and sync (and `has_emb = False`
as the assembly does) it serialises as the freshly assembled burst -/
theorem reassign_parsed (q b2 : Burst) (p2 : Payload) (cc2 s2 : Nat) (hq : q.isDataOrControl = true)
    (h2 : build p2 cc2 s2 = .ok b2) :
    serialise { q with sync := .pattern s2, slotType := b2.slotType, data := some p2, hasEmb := false }
      = serialise b2 := by
  unfold build at h2
  split at h2
  · cases h2
  · cases h2
    simp [serialise, hq]

end Burst
end Dmr
