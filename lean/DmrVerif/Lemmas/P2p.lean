import DmrVerif.Model.P2p
import DmrVerif.Lemmas.StorageHolder

/-!
# Lemmas about the P2P handler model (C18)

The handler keeps the storage invariant of C20 (its patches never name `id` / `address_in`), changes
the storage only in `handle_registration` (and the environment action), and the registered flag of an
address is exactly "a registration datagram from this address completed earlier".
-/

namespace Dmr.P2p
open Dmr Dmr.Storage

/-- the repeater at `a` is registered: `rpt and rpt.attr(IS_REGISTERED)` is truthy -/
def reg (s : Store) (a : Addr) : Bool :=
  match s.recOf a.val with
  | some r => (r.attr regKey).truthy
  | Option.none => false

theorem registeredRec_eq (s : Store) (a : Addr) :
    registeredRec s a =
      (match s.recOf a.val with
       | some r => if (r.attr regKey).truthy then some r else Option.none
       | Option.none => Option.none) := by
  unfold registeredRec Store.recOf Store.holder
  cases s.first (fun r => r.addressIn == a.val) with
  | none => rfl
  | some i =>
    simp only [Option.bind_some]
    cases s.objs[i]? <;> rfl

theorem registeredRec_none_iff (s : Store) (a : Addr) : registeredRec s a = Option.none ↔ reg s a = false := by
  rw [registeredRec_eq, reg]
  cases s.recOf a.val with
  | none => simp
  | some r => by_cases h : (r.attr regKey).truthy = true <;> simp [h]

theorem registeredRec_some (s : Store) (a : Addr) (r : Rec) (h : registeredRec s a = some r) :
    s.recOf a.val = some r ∧ reg s a = true := by
  rw [registeredRec_eq] at h
  rw [reg]
  cases hr : s.recOf a.val with
  | none => rw [hr] at h; cases h
  | some r' =>
    rw [hr] at h
    simp only at h
    split at h
    · cases h; rename_i ht; exact ⟨rfl, ht⟩
    · cases h

theorem Addr.val_inj {a b : Addr} : a.val = b.val ↔ a = b := by
  obtain ⟨ip, port, ext⟩ := a
  obtain ⟨ip', port', ext'⟩ := b
  cases ext <;> cases ext' <;> simp [Addr.val]

/-! ## datagram shape -/

theorem setByte_of_lt {data : Bytes} {i : Nat} (v : Nat) (h : i < data.length) :
    setByte data i v = some (data.set i v) := by
  simp [setByte, h]

theorem getD_eq_getElem? {α : Type} (l : List α) (i : Nat) (d : α) : l.getD i d = (l[i]?).getD d := by
  simp [List.getD]

theorem dispatch_registration_len {data : Bytes} (h : dispatch data = .registration) : 20 < data.length := by
  unfold dispatch at h
  split at h
  · split at h
    · rename_i ht
      simp only [commandType] at ht
      rcases Nat.lt_or_ge 20 data.length with hl | hl
      · exact hl
      · rw [getD_eq_getElem?, List.getElem?_eq_none hl] at ht
        exact absurd ht (by decide)
    · split at h
      · cases h
      · split at h <;> cases h
  · split at h <;> cases h

/-- `data[i]` (0 when out of range; callers know the length) -/
def octet (data : Bytes) (i : Nat) : Nat := (data[i]?).getD 0

/-- a registration datagram completes iff `data[4] += 1` does not overflow and the SNMP call returns -/
def regOk (data : Bytes) (snmpFails : Bool) : Bool :=
  decide (dispatch data = .registration) && !snmpFails && decide (octet data 4 + 1 < 256)

/-- the registration answer: `data[3]=0x50; data[4]+=1; data[13]=1; data[14]=1; data[15]=0x5A; append(1)` -/
def registrationAnswer (data : Bytes) : Bytes :=
  ((((data.set 3 0x50).set 4 (octet data 4 + 1)).set 13 0x01).set 14 0x01).set 15 0x5A ++ [0x01]

/-- `handle_registration`, completely -/
theorem handleRegistration_spec {s : Store} (h : Inv s) (a : Addr) (data : Bytes) (f : Bool)
    (hd : dispatch data = .registration) :
    (octet data 4 + 1 < 256 →
      ∃ r0, r0 = (s.recOf a.val).getD (newRec s.objs.length a.val) ∧
        (handleRegistration s a data f).2.1 =
          [{ kind := .registrationAnswer, data := registrationAnswer data, dest := r0.addressOut }] ∧
        Inv (handleRegistration s a data f).1 ∧
        (f = true → (handleRegistration s a data f).2.2 = .err .snmpError ∧
          ∀ a', (handleRegistration s a data f).1.recOf a' = if a' = a.val then some r0 else s.recOf a') ∧
        (f = false → (handleRegistration s a data f).2.2 = .ok ∧
          ∀ a', (handleRegistration s a data f).1.recOf a' =
            if a' = a.val then some (r0.setAttr regKey (.int 1)) else s.recOf a')) ∧
    (¬ octet data 4 + 1 < 256 → handleRegistration s a data f = (s, [], .err .valueError)) := by
  have hlen := dispatch_registration_len hd
  have h3 : setByte data 3 0x50 = some (data.set 3 0x50) := setByte_of_lt _ (by omega)
  have h4 : (data.set 3 0x50)[4]? = some (octet data 4) := by
    rw [List.getElem?_set_ne (by decide), octet, List.getElem?_eq_getElem (by omega)]
    rfl
  constructor
  · intro hb
    have hinc : incByte (data.set 3 0x50) 4 = .ok ((data.set 3 0x50).set 4 (octet data 4 + 1)) := by
      simp only [incByte, h4, hb, if_true]
    have hsets : setBytes ((data.set 3 0x50).set 4 (octet data 4 + 1)) [(13, 0x01), (14, 0x01), (15, 0x5A)] =
        some (((((data.set 3 0x50).set 4 (octet data 4 + 1)).set 13 0x01).set 14 0x01).set 15 0x5A) := by
      simp only [setBytes, setByte, List.length_set]
      rw [if_pos (by omega)]
      simp only [Option.bind_some, List.length_set]
      rw [if_pos (by omega)]
      simp only [Option.bind_some, List.length_set]
      rw [if_pos (by omega)]
      rfl
    obtain ⟨hinv1, ⟨i, hres, hhold, hobj⟩, hmap, _⟩ := matchIncoming_auto_spec h a.val [] (by intro e he; cases he)
    have hstep : Storage.step s (.matchIncoming a.val true []) = s.matchIncoming a.val true [] := rfl
    refine ⟨(s.recOf a.val).getD (newRec s.objs.length a.val), rfl, ?_⟩
    have hobj' : (s.matchIncoming a.val true []).1.objs[i]? =
        some ((s.recOf a.val).getD (newRec s.objs.length a.val)) := hobj
    cases f with
    | true =>
      have hval : handleRegistration s a data true =
          ((s.matchIncoming a.val true []).1,
            [{ kind := .registrationAnswer, data := registrationAnswer data,
               dest := ((s.recOf a.val).getD (newRec s.objs.length a.val)).addressOut }], .err .snmpError) := by
        simp only [handleRegistration, h3, hinc, hsets, hstep, hres, hobj', registrationAnswer, if_true]
      rw [hval]
      refine ⟨rfl, hinv1, fun _ => ⟨rfl, ?_⟩, fun hf => absurd hf (by decide)⟩
      intro a'
      exact hmap a'
    | false =>
      have hval : handleRegistration s a data false =
          ((Storage.step (s.matchIncoming a.val true []).1 (.attr i regKey (.int 1))).1,
            [{ kind := .registrationAnswer, data := registrationAnswer data,
               dest := ((s.recOf a.val).getD (newRec s.objs.length a.val)).addressOut }], .ok) := by
        simp only [handleRegistration, h3, hinc, hsets, hstep, hres, hobj', registrationAnswer,
          Bool.false_eq_true, if_false]
      rw [hval]
      obtain ⟨hinv2, hmap2, _⟩ := attr_write_spec hinv1 a.val hhold hobj' regKey (.int 1) (by intro e; cases e)
      refine ⟨rfl, hinv2, fun hf => absurd hf (by decide), fun _ => ⟨rfl, ?_⟩⟩
      intro a'
      rw [hmap2 a', hmap a']
      by_cases hax : a' = a.val <;> simp [hax]
  · intro hb
    have hinc : incByte (data.set 3 0x50) 4 = .error .valueError := by
      simp only [incByte, h4, hb, if_false]
    simp only [handleRegistration, h3, hinc]

/-! ## requests and pings leave the state alone -/

theorem handleRdacRequest_state (cfg : Cfg) (s : Store) (a : Addr) (data : Bytes) :
    (handleRdacRequest cfg s a data).1 = s := by
  unfold handleRdacRequest
  repeat' (first | rfl | split | dsimp only)

theorem handleDmrRequest_state (cfg : Cfg) (s : Store) (a : Addr) (data : Bytes) :
    (handleDmrRequest cfg s a data).1 = s := by
  unfold handleDmrRequest
  repeat' (first | rfl | split | dsimp only)

theorem handlePing_state (s : Store) (a : Addr) (data : Bytes) : (handlePing s a data).1 = s := by
  unfold handlePing
  repeat' split
  all_goals rfl

/-- a request from an address that is not registered: the single-byte reject to the requester -/
theorem request_unregistered (cfg : Cfg) (s : Store) (a : Addr) (data : Bytes) (h : reg s a = false) :
    handleRdacRequest cfg s a data = (s, [{ kind := .reject, data := [0x00], dest := a.val }], .ok) ∧
    handleDmrRequest cfg s a data = (s, [{ kind := .reject, data := [0x00], dest := a.val }], .ok) ∧
    handlePing s a data = (s, [{ kind := .reject, data := [0x00], dest := a.val }], .ok) := by
  have hn := (registeredRec_none_iff s a).mpr h
  simp only [handleRdacRequest, handleDmrRequest, handlePing, hn, and_self]

/-- outputs of an RDAC start-up request from a registered address -/
theorem handleRdacRequest_outs (cfg : Cfg) (s : Store) (a : Addr) (data : Bytes) (r : Rec)
    (h : registeredRec s a = some r) :
    ∀ o ∈ (handleRdacRequest cfg s a data).2.1,
      (o.kind = .rdacAccept ∨ o.kind = .rdacRedirect) ∧ o.dest = r.addressOut := by
  unfold handleRdacRequest
  rw [h]
  simp only
  intro o ho
  repeat' split at ho
  all_goals simp only [List.mem_cons, List.not_mem_nil, or_false] at ho
  all_goals first
    | (rcases ho with rfl | rfl <;> simp)
    | (rcases ho with rfl; simp)
    | cases ho

theorem handleDmrRequest_outs (cfg : Cfg) (s : Store) (a : Addr) (data : Bytes) (r : Rec)
    (h : registeredRec s a = some r) :
    ∀ o ∈ (handleDmrRequest cfg s a data).2.1,
      (o.kind = .dmrAccept ∨ o.kind = .dmrRedirect) ∧ o.dest = .addr a.ip cfg.p2pPort := by
  unfold handleDmrRequest
  rw [h]
  simp only
  intro o ho
  repeat' split at ho
  all_goals simp only [List.mem_cons, List.not_mem_nil, or_false] at ho
  all_goals first
    | (rcases ho with rfl | rfl <;> simp)
    | (rcases ho with rfl; simp)
    | cases ho

theorem handlePing_outs (s : Store) (a : Addr) (data : Bytes) (r : Rec) (h : registeredRec s a = some r) :
    ∀ o ∈ (handlePing s a data).2.1, o.kind = .pingAnswer ∧ o.dest = a.val := by
  unfold handlePing
  rw [h]
  simp only
  intro o ho
  repeat' split at ho
  all_goals simp only [List.mem_cons, List.not_mem_nil, or_false] at ho
  all_goals first
    | (rcases ho with rfl; simp)
    | cases ho

/-! ## `port.to_bytes(2, "little")` does not overflow for 16-bit ports -/

theorem redirectPacket_ne_overflow (d : Bytes) (port : Nat) (h : port < 65536) :
    redirectPacket d port ≠ .error .overflowError := by
  unfold redirectPacket
  split
  · intro e; cases e
  · rw [if_pos h]; intro e; cases e

theorem incByte_ne_overflow (d : Bytes) (i : Nat) : incByte d i ≠ .error .overflowError := by
  unfold incByte
  split
  · intro e; cases e
  · split <;> (intro e; cases e)

theorem handleRdacRequest_no_overflow (cfg : Cfg) (s : Store) (a : Addr) (data : Bytes) (h : cfg.rdacPort < 65536) :
    (handleRdacRequest cfg s a data).2.2 ≠ .err .overflowError := by
  unfold handleRdacRequest
  split
  · intro e; cases e
  · split
    · rename_i e' he'
      intro e; cases e
      exact incByte_ne_overflow _ _ he'
    · split
      · intro e; cases e
      · try dsimp only
        split
        · intro e; cases e
        · split
          · rename_i e' he'
            intro e; cases e
            exact redirectPacket_ne_overflow _ _ h he'
          · intro e; cases e

theorem handleDmrRequest_no_overflow (cfg : Cfg) {s : Store} (hinv : Inv s) (a : Addr) (data : Bytes)
    (h : a.port < 65536) : (handleDmrRequest cfg s a data).2.2 ≠ .err .overflowError := by
  unfold handleDmrRequest
  split
  · intro e; cases e
  · rename_i r hr
    obtain ⟨hrec, _⟩ := registeredRec_some s a r hr
    obtain ⟨_, _, haddr⟩ := hinv.recOf_some_iff.mp hrec
    try dsimp only
    split
    · rename_i e' he'
      intro e; cases e
      exact incByte_ne_overflow _ _ he'
    · split
      · intro e; cases e
      · try dsimp only
        split
        · intro e; cases e
        · split
          · intro e; cases e
          · rename_i port hport
            rw [haddr] at hport
            have hp : port = a.port := by
              obtain ⟨ip, prt, ext⟩ := a
              cases ext <;> simp only [Addr.val, portOf, Option.some.injEq] at hport <;> exact hport.symm
            subst hp
            split
            · rename_i e' he'
              intro e; cases e
              exact redirectPacket_ne_overflow _ _ h he'
            · intro e; cases e

/-! ## `TypeError`: only the eagerly formatted log message of the two start-up handlers -/

theorem incByte_ne_typeError (d : Bytes) (i : Nat) : incByte d i ≠ .error .typeError := by
  unfold incByte
  split
  · intro e; cases e
  · split <;> (intro e; cases e)

theorem redirectPacket_ne_typeError (d : Bytes) (port : Nat) : redirectPacket d port ≠ .error .typeError := by
  unfold redirectPacket
  split
  · intro e; cases e
  · split <;> (intro e; cases e)

theorem handleRdacRequest_typeError (cfg : Cfg) (s : Store) (a : Addr) (data : Bytes)
    (he : (handleRdacRequest cfg s a data).2.2 = .err .typeError) :
    a.isPair = false ∧ (handleRdacRequest cfg s a data).2.1.length = 1 := by
  revert he
  unfold handleRdacRequest
  split
  · intro he; cases he
  · split
    · rename_i e hx; intro he; cases he; exact absurd hx (incByte_ne_typeError _ _)
    · split
      · intro he; cases he
      · try dsimp only
        split
        · rename_i hp; intro _; exact ⟨hp, rfl⟩
        · split
          · rename_i e hx; intro he; cases he; exact absurd hx (redirectPacket_ne_typeError _ _)
          · intro he; cases he

theorem handleDmrRequest_typeError (cfg : Cfg) (s : Store) (a : Addr) (data : Bytes)
    (he : (handleDmrRequest cfg s a data).2.2 = .err .typeError) :
    a.isPair = false ∧ (handleDmrRequest cfg s a data).2.1.length = 1 := by
  revert he
  unfold handleDmrRequest
  split
  · intro he; cases he
  · try dsimp only
    split
    · rename_i e hx; intro he; cases he; exact absurd hx (incByte_ne_typeError _ _)
    · split
      · intro he; cases he
      · try dsimp only
        split
        · rename_i hp; intro _; exact ⟨hp, rfl⟩
        · split
          · intro he; cases he
          · split
            · rename_i e hx; intro he; cases he; exact absurd hx (redirectPacket_ne_typeError _ _)
            · intro he; cases he

theorem handleRegistration_ne_typeError (s : Store) (a : Addr) (data : Bytes) (f : Bool) :
    (handleRegistration s a data f).2.2 ≠ .err .typeError := by
  unfold handleRegistration
  split
  · intro he; cases he
  · split
    · rename_i e hx; intro he; cases he; exact absurd hx (incByte_ne_typeError _ _)
    · split
      · intro he; cases he
      · try dsimp only
        split
        · split
          · split <;> (intro he; cases he)
          · intro he; cases he
        · intro he; cases he

theorem handlePing_ne_typeError (s : Store) (a : Addr) (data : Bytes) :
    (handlePing s a data).2.2 ≠ .err .typeError := by
  unfold handlePing
  split
  · intro he; cases he
  · split <;> (intro he; cases he)

/-! ## invariant and the registered flag along histories -/

/-- the input is a registration datagram from `a` that completes -/
def completes : Input → Addr → Bool
  | .datagram a' data f, a => decide (a' = a) && regOk data f
  | .setOut _ _, _ => false
  | .envPatch _ _ _, _ => false

/-- what the theorems assume of the environment: the application never patches `id`, `address_in` (the
preconditions of C20) or the is-registered key itself (authorising a repeater is the handler's business);
every other member and every other attribute name — however close to the key — is allowed -/
def envOk : Input → Bool
  | .envPatch _ key _ => key != .field .id && key != .field .addressIn && key != .dyn regKey
  | _ => true

theorem reg_of_recOf_eq {s s' : Store} {a : Addr} (h : s'.recOf a.val = s.recOf a.val) : reg s' a = reg s a := by
  simp only [reg, h]

theorem newRec_attr (n : Nat) (a : Val) (k : String) : (newRec n a).attr k = .none := rfl

theorem step_spec (cfg : Cfg) {s : Store} (h : Inv s) (i : Input) (hi : envOk i = true) :
    Inv (step cfg s i).1 ∧ ∀ a, reg (step cfg s i).1 a = (reg s a || completes i a) := by
  cases i with
  | envPatch a' key v =>
    simp only [envOk, Bool.and_eq_true, bne_iff_ne, ne_eq] at hi
    obtain ⟨⟨hid, hain⟩, hkey⟩ := hi
    have hp : SafePatch [(key, v)] := by
      intro e he
      simp only [List.mem_singleton] at he
      subst he
      exact ⟨hid, hain⟩
    obtain ⟨hinv, _, hmap, _⟩ := matchIncoming_auto_spec h a'.val [(key, v)] hp
    refine ⟨hinv, ?_⟩
    intro a
    simp only [step, completes, Bool.or_false]
    have hstep : Storage.step s (.matchIncoming a'.val true [(key, v)]) =
      s.matchIncoming a'.val true [(key, v)] := rfl
    rw [hstep]
    simp only [reg, hmap a.val]
    by_cases hax : a.val = a'.val
    · simp only [hax, if_true]
      have : (applyPatch [(key, v)] ((s.recOf a'.val).getD (newRec s.objs.length a'.val))).attr regKey
          = ((s.recOf a'.val).getD (newRec s.objs.length a'.val)).attr regKey :=
        applyPatch_attr_unnamed _ _ _ (by intro e he; simp only [List.mem_singleton] at he; subst he; exact hkey)
      rw [this]
      cases s.recOf a'.val with
      | none => rfl
      | some r => rfl
    · simp only [hax, if_false]
  | setOut a' out =>
    have hp : SafePatch [(Key.field .addressOut, out)] := by
      intro e he
      simp only [List.mem_singleton] at he
      subst he
      exact ⟨by simp, by simp⟩
    obtain ⟨hinv, _, hmap, _⟩ := matchIncoming_auto_spec h a'.val [(Key.field .addressOut, out)] hp
    refine ⟨hinv, ?_⟩
    intro a
    simp only [step, completes, Bool.or_false]
    have hstep : Storage.step s (.matchIncoming a'.val true [(Key.field .addressOut, out)]) =
      s.matchIncoming a'.val true [(Key.field .addressOut, out)] := rfl
    rw [hstep]
    simp only [reg, hmap a.val]
    by_cases hax : a.val = a'.val
    · simp only [hax, if_true]
      have : (applyPatch [(Key.field .addressOut, out)] ((s.recOf a'.val).getD (newRec s.objs.length a'.val))).attr regKey
          = ((s.recOf a'.val).getD (newRec s.objs.length a'.val)).attr regKey :=
        applyPatch_attr_unnamed _ _ _ (by intro e he; simp only [List.mem_singleton] at he; subst he; simp)
      rw [this]
      cases s.recOf a'.val with
      | none => rfl
      | some r => rfl
    · simp only [hax, if_false]
  | datagram a' data f =>
    simp only [step]
    cases hd : dispatch data with
    | rdacRequest =>
      simp only [handleRdacRequest_state]
      refine ⟨h, fun a => ?_⟩
      simp [completes, regOk, hd]
    | dmrRequest =>
      simp only [handleDmrRequest_state]
      refine ⟨h, fun a => ?_⟩
      simp [completes, regOk, hd]
    | ping =>
      simp only [handlePing_state]
      refine ⟨h, fun a => ?_⟩
      simp [completes, regOk, hd]
    | nothing =>
      refine ⟨h, fun a => ?_⟩
      simp [completes, regOk, hd]
    | registration =>
      obtain ⟨hok, hbad⟩ := handleRegistration_spec h a' data f hd
      by_cases hb : octet data 4 + 1 < 256
      · obtain ⟨r0, hr0, _, hinv, hT, hF⟩ := hok hb
        refine ⟨hinv, fun a => ?_⟩
        cases f with
        | true =>
          obtain ⟨_, hmap⟩ := hT rfl
          have hc : completes (.datagram a' data true) a = false := by simp [completes, regOk]
          rw [hc, Bool.or_false]
          simp only [reg, hmap a.val]
          by_cases hax : a.val = a'.val
          · simp only [hax, if_true, hr0]
            cases s.recOf a'.val with
            | none => rfl
            | some r => rfl
          · simp only [hax, if_false]
        | false =>
          obtain ⟨_, hmap⟩ := hF rfl
          simp only [reg, hmap a.val]
          by_cases hax : a.val = a'.val
          · have haa : a' = a := (Addr.val_inj.mp hax).symm
            have hc : completes (.datagram a' data false) a = true := by
              simp [completes, regOk, hd, hb, haa]
            simp only [hax, if_true, hc, Bool.or_true, Rec.attr_setAttr]
            rfl
          · have haa : ¬ a' = a := fun e => hax (by rw [e])
            have hc : completes (.datagram a' data false) a = false := by
              simp [completes, haa]
            simp only [hax, if_false, hc, Bool.or_false]
      · rw [hbad hb]
        refine ⟨h, fun a => ?_⟩
        simp [completes, regOk, hb]

theorem runFrom_cons (cfg : Cfg) (s : Store) (i : Input) (t : List Input) :
    runFrom cfg s (i :: t) =
      ((runFrom cfg (step cfg s i).1 t).1, ((step cfg s i).2.1, (step cfg s i).2.2) :: (runFrom cfg (step cfg s i).1 t).2) := rfl

theorem runFrom_spec (cfg : Cfg) {s : Store} (h : Inv s) (hist : List Input) (henv : hist.all envOk = true) :
    Inv (runFrom cfg s hist).1 ∧
    ∀ a, reg (runFrom cfg s hist).1 a = (reg s a || hist.any (fun i => completes i a)) := by
  induction hist generalizing s with
  | nil => exact ⟨h, fun a => by simp [runFrom]⟩
  | cons i t ih =>
    simp only [List.all_cons, Bool.and_eq_true] at henv
    obtain ⟨h1, hr1⟩ := step_spec cfg h i henv.1
    obtain ⟨h2, hr2⟩ := ih h1 henv.2
    rw [runFrom_cons]
    refine ⟨h2, fun a => ?_⟩
    simp only [hr2 a, hr1 a, List.any_cons, Bool.or_assoc]

theorem reg_init (a : Addr) : reg Storage.init a = false := rfl

/-- a registration from `a` completed somewhere in the history -/
def registeredIn (hist : List Input) (a : Addr) : Bool := hist.any (fun i => completes i a)

theorem run_spec (cfg : Cfg) (hist : List Input) (henv : hist.all envOk = true) :
    Inv (run cfg hist).1 ∧ ∀ a, reg (run cfg hist).1 a = registeredIn hist a := by
  obtain ⟨h1, h2⟩ := runFrom_spec cfg inv_init hist henv
  refine ⟨h1, fun a => ?_⟩
  rw [run, h2 a, reg_init, Bool.false_or, registeredIn]

end Dmr.P2p
