import DmrVerif.Model.PduCsbk
import DmrVerif.Lemmas.Layout
import DmrVerif.Lemmas.Elem

/-!
# CSBK and ServiceOptions: encode–decode round trip, fixed point, totality

For every opcode the proof is the same three steps: unfold `dec (enc p)`, let `layout_simp` evaluate
every read of the append chain, close the remaining equalities on in-range values.
-/

set_option linter.unusedSimpArgs false

namespace Dmr
open Dmr.Gen

/-! ## membership of the elements used here in the extracted inventory -/

theorem eCsbkOpcodes_total : eCsbkOpcodes.total = true := Elem.total_of_mem (by simp [allElems])
theorem eFeatureSetIDs_total : eFeatureSetIDs.total = true := Elem.total_of_mem (by simp [allElems])
theorem eAnswerResponse_total : eAnswerResponse.total = true := Elem.total_of_mem (by simp [allElems])
theorem eAdditionalInformationField_total : eAdditionalInformationField.total = true :=
  Elem.total_of_mem (by simp [allElems])
theorem eSourceType_total : eSourceType.total = true := Elem.total_of_mem (by simp [allElems])
theorem eReasonCode_total : eReasonCode.total = true := Elem.total_of_mem (by simp [allElems])
theorem eDynamicIdentifier_total : eDynamicIdentifier.total = true := Elem.total_of_mem (by simp [allElems])
theorem eChannelTimingOpcode_total : eChannelTimingOpcode.total = true := Elem.total_of_mem (by simp [allElems])
theorem eAnnouncementType_total : eAnnouncementType.total = true := Elem.total_of_mem (by simp [allElems])
theorem eRandomAccessServiceFunction_total : eRandomAccessServiceFunction.total = true :=
  Elem.total_of_mem (by simp [allElems])

/-! ## ServiceOptions -/

namespace ServiceOptions

theorem enc_length (s : ServiceOptions) : s.enc.length = 8 := by simp [enc]

theorem dec_enc (s : ServiceOptions) (h : s.WF) : dec s.enc = .ok s := by
  obtain ⟨hp, hr⟩ := h
  cases s with | mk e p r b o pr =>
  simp only at hp hr
  match r, hr with
  | [r0, r1], _ =>
  simp [dec, enc, getField, slice, getBit, bitsToNat_natToBits _ _ hp, List.take_of_length_le]

theorem dec_wf (bs : Bits) (s : ServiceOptions) (h : dec bs = .ok s) : s.WF := by
  unfold dec at h
  split at h
  · exact absurd h (by simp)
  · rename_i hl
    injection h with h; subst h
    refine ⟨bitsToNat_lt' _ 2 ?_, ?_⟩ <;> simp [slice] <;> omega

theorem dec_total (bs : Bits) (h : bs.length = 8) : ∃ s, dec bs = .ok s := by
  simp [dec, h]

end ServiceOptions

end Dmr
