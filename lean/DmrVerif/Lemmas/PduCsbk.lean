import DmrVerif.Model.PduCsbk
import DmrVerif.Lemmas.Layout
import DmrVerif.Lemmas.Elem

/-!
# CSBK and ServiceOptions: encode–decode round trip, fixed point, totality

For every opcode the proof is the same three steps: unfold `dec (enc p)`, let `layout_simp` evaluate
every read of the append chain, close the remaining equalities on in-range values.
-/

set_option linter.unusedSimpArgs false

namespace Dmr
open Dmr.Gen

/-! ## membership of the elements used here in the extracted inventory -/

theorem eCsbkOpcodes_total : eCsbkOpcodes.total = true := Elem.total_of_mem (by simp [allElems])
theorem eFeatureSetIDs_total : eFeatureSetIDs.total = true := Elem.total_of_mem (by simp [allElems])
theorem eAnswerResponse_total : eAnswerResponse.total = true := Elem.total_of_mem (by simp [allElems])
theorem eAdditionalInformationField_total : eAdditionalInformationField.total = true :=
  Elem.total_of_mem (by simp [allElems])
theorem eSourceType_total : eSourceType.total = true := Elem.total_of_mem (by simp [allElems])
theorem eReasonCode_total : eReasonCode.total = true := Elem.total_of_mem (by simp [allElems])
theorem eDynamicIdentifier_total : eDynamicIdentifier.total = true := Elem.total_of_mem (by simp [allElems])
theorem eChannelTimingOpcode_total : eChannelTimingOpcode.total = true := Elem.total_of_mem (by simp [allElems])
theorem eAnnouncementType_total : eAnnouncementType.total = true := Elem.total_of_mem (by simp [allElems])
theorem eRandomAccessServiceFunction_total : eRandomAccessServiceFunction.total = true :=
  Elem.total_of_mem (by simp [allElems])

/-! ## ServiceOptions -/

namespace ServiceOptions

theorem enc_length (s : ServiceOptions) : s.enc.length = 8 := by simp [enc]

theorem dec_enc (s : ServiceOptions) (h : s.WF) : dec s.enc = .ok s := by
  obtain ⟨hp, hr⟩ := h
  cases s with | mk e p r b o pr =>
  simp only at hp hr
  match r, hr with
  | [r0, r1], _ =>
  simp [dec, enc, getField, slice, getBit, bitsToNat_natToBits _ _ hp, List.take_of_length_le]

theorem dec_wf (bs : Bits) (s : ServiceOptions) (h : dec bs = .ok s) : s.WF := by
  unfold dec at h
  split at h
  · exact absurd h (by simp)
  · rename_i hl
    injection h with h; subst h
    refine ⟨bitsToNat_lt' _ 2 ?_, ?_⟩ <;> simp [slice] <;> omega

theorem dec_total (bs : Bits) (h : bs.length = 8) : ∃ s, dec bs = .ok s := by
  simp [dec, h]

end ServiceOptions

macro_rules | `(tactic| wf_field) => `(tactic| first
  | exact Elem.defined_of_dec_mem (by assumption) (by simp [allElems])
  | exact ServiceOptions.dec_wf _ _ (by assumption)
  | exact (ServiceOptions.dec_wf _ _ (by assumption)).1
  | exact (ServiceOptions.dec_wf _ _ (by assumption)).2)

/-! ## CSBK -/

namespace Csbk

/-- `dec (enc p) = init p`: every field of every opcode is read back; the only change is the CRC
sentinel (`crc = 0` is replaced by the computed CRC) -/
theorem dec_enc (f : Bits → Nat) (p : Csbk) (h : p.WF) : dec f (enc p) = .ok (init f p) := by
  obtain ⟨lb, pf, fid, crc, pl⟩ := p
  obtain ⟨hfid, hcrc, hpl⟩ := h
  simp only at hfid hcrc hpl
  have hf := Elem.dec_defined eFeatureSetIDs_total hfid
  have hfl : fid < 2 ^ 8 := Elem.lt_of_defined eFeatureSetIDs_total hfid
  cases pl with
  | bsDwnAct a b =>
    obtain ⟨ha, hb⟩ := hpl
    have ho : eCsbkOpcodes.dec 56 = .ok 56 := rfl
    unfold dec
    simp only [enc, body, payloadBits, opcode, opBsDwnAct, List.append_assoc]
    layout_simp [ho, hf, hfl, ha, hb, hcrc]
  | uuVReq so t s =>
    obtain ⟨hso, ht, hs⟩ := hpl
    have ho : eCsbkOpcodes.dec 4 = .ok 4 := rfl
    have hsl := ServiceOptions.enc_length so
    unfold dec
    simp only [enc, body, payloadBits, opcode, opUuVReq, opBsDwnAct, List.append_assoc]
    layout_simp [ho, hf, hfl, ht, hs, hcrc, hsl, ServiceOptions.dec_enc so hso]
  | uuAnsRsp so ar t s =>
    obtain ⟨hso, har, ht, hs⟩ := hpl
    have ho : eCsbkOpcodes.dec 5 = .ok 5 := rfl
    have hsl := ServiceOptions.enc_length so
    have hard := Elem.dec_defined eAnswerResponse_total har
    have harl : ar < 2 ^ 8 := Elem.lt_of_defined eAnswerResponse_total har
    unfold dec
    simp only [enc, body, payloadBits, opcode, opUuAnsRsp, opUuVReq, opBsDwnAct, List.append_assoc]
    layout_simp [ho, hf, hfl, ht, hs, hcrc, hsl, ServiceOptions.dec_enc so hso, hard, harl]
  | nackRsp aif st svc rc s t =>
    obtain ⟨haif, hst, hsvc, hrc, hs, ht⟩ := hpl
    have ho : eCsbkOpcodes.dec 38 = .ok 38 := rfl
    have h1 := Elem.dec_defined eAdditionalInformationField_total haif
    have h1l : aif < 2 ^ 1 := Elem.lt_of_defined eAdditionalInformationField_total haif
    have h2 := Elem.dec_defined eSourceType_total hst
    have h2l : st < 2 ^ 1 := Elem.lt_of_defined eSourceType_total hst
    have h3 := Elem.dec_defined eCsbkOpcodes_total hsvc
    have h3l : svc < 2 ^ 6 := Elem.lt_of_defined eCsbkOpcodes_total hsvc
    have h4 := Elem.dec_defined eReasonCode_total hrc
    have h4l : rc < 2 ^ 8 := Elem.lt_of_defined eReasonCode_total hrc
    unfold dec
    simp only [enc, body, payloadBits, opcode, opNackRsp, opUuAnsRsp, opUuVReq, opBsDwnAct, List.append_assoc]
    layout_simp [ho, hf, hfl, ht, hs, hcrc, h1, h1l, h2, h2l, h3, h3l, h4, h4l]
  | preamble cf ind btf t s =>
    obtain ⟨hbtf, ht, hs⟩ := hpl
    have ho : eCsbkOpcodes.dec 61 = .ok 61 := rfl
    unfold dec
    simp only [enc, body, payloadBits, opcode, opPreamble, opNackRsp, opUuAnsRsp, opUuVReq, opBsDwnAct, List.append_assoc]
    layout_simp [ho, hf, hfl, ht, hs, hcrc, hbtf]
  | channelTiming age gen lid nl ldi cto sid sdi =>
    obtain ⟨hage, hgen, hlid, hnl, hldi, hcto, hsid, hsdi⟩ := hpl
    have ho : eCsbkOpcodes.dec 7 = .ok 7 := rfl
    have h1 := Elem.dec_defined eDynamicIdentifier_total hldi
    have h1l : ldi < 2 ^ 2 := Elem.lt_of_defined eDynamicIdentifier_total hldi
    have h2 := Elem.dec_defined eChannelTimingOpcode_total hcto
    have h2l : cto < 2 ^ 2 := Elem.lt_of_defined eChannelTimingOpcode_total hcto
    have h3 := Elem.dec_defined eDynamicIdentifier_total hsdi
    have h3l : sdi < 2 ^ 2 := Elem.lt_of_defined eDynamicIdentifier_total hsdi
    unfold dec
    simp only [enc, body, payloadBits, opcode, opChannelTiming, opPreamble, opNackRsp, opUuAnsRsp, opUuVReq, opBsDwnAct, List.append_assoc]
    layout_simp [ho, hf, hfl, hcrc, hage, hgen, hlid, hnl, hsid, h1, h1l, h2, h2l, h3, h3l]
  | hyteraIpscSync raw =>
    obtain ⟨hlen, hby⟩ := hpl
    have ho : eCsbkOpcodes.dec 8 = .ok 8 := rfl
    unfold dec
    simp only [enc, body, payloadBits, opcode, opHyteraIpscSync, opChannelTiming, opPreamble, opNackRsp, opUuAnsRsp, opUuVReq, opBsDwnAct, List.append_assoc]
    layout_simp [ho, hf, hfl, hcrc, hlen, bitsToBytes_bytesToBits raw hby]
  | aloha tsccas sync dvc off act mask sf nrand reg backoff sys tgt =>
    obtain ⟨hdvc, hmask, hsf, hnrand, hbackoff, hsys, htgt⟩ := hpl
    have ho : eCsbkOpcodes.dec 25 = .ok 25 := rfl
    have h1 := Elem.dec_defined eRandomAccessServiceFunction_total hsf
    have h1l : sf < 2 ^ 2 := Elem.lt_of_defined eRandomAccessServiceFunction_total hsf
    unfold dec
    simp only [enc, body, payloadBits, opcode, opAloha, opBroadcast, opHyteraIpscSync, opChannelTiming, opPreamble, opNackRsp, opUuAnsRsp, opUuVReq, opBsDwnAct, List.append_assoc]
    layout_simp [ho, hf, hfl, hcrc, hdvc, hmask, hnrand, hbackoff, hsys, htgt, h1, h1l]
  | broadcast at' params reg backoff sys =>
    obtain ⟨hat, hlen, hbackoff, hsys⟩ := hpl
    have ho : eCsbkOpcodes.dec 40 = .ok 40 := rfl
    have h1 := Elem.dec_defined eAnnouncementType_total hat
    have h1l : at' < 2 ^ 5 := Elem.lt_of_defined eAnnouncementType_total hat
    unfold dec
    simp only [enc, body, payloadBits, opcode, opAloha, opBroadcast, opHyteraIpscSync, opChannelTiming, opPreamble, opNackRsp, opUuAnsRsp, opUuVReq, opBsDwnAct, List.append_assoc]
    layout_simp [ho, hf, hfl, hcrc, hbackoff, hsys, hlen, h1, h1l, slice_split params 14 24 hlen]

theorem payload_length (pl : CsbkPayload) (h : CsbkPayload.WF pl) : (payloadBits pl).length = 64 := by
  cases pl <;> simp only [CsbkPayload.WF] at h <;>
    simp (config := { decide := true }) [payloadBits, ServiceOptions.enc_length, bytesToBits_length, slice_length, h]

theorem body_length (p : Csbk) (h : p.WF) : (body p).length = 80 := by
  simp [body, payload_length _ h.2.2]

theorem enc_length (p : Csbk) (h : p.WF) : (enc p).length = 96 := by
  simp [enc, body_length p h]

theorem slice_enc (p : Csbk) (h : p.WF) : slice (enc p) 0 80 = body p := by
  unfold enc; exact slice_append_exact _ _ _ (body_length p h)

theorem init_wf (f : Bits → Nat) (hf : ∀ x, f x < 2 ^ 16) (p : Csbk) (h : p.WF) : (init f p).WF := by
  unfold init
  split
  · exact ⟨h.1, hf _, h.2.2⟩
  · exact h

theorem wf_of_init (f : Bits → Nat) (p : Csbk) (h : (init f p).WF) : p.WF := by
  unfold init at h
  split at h
  · rename_i h0
    exact ⟨h.1, by rw [h0]; decide, h.2.2⟩
  · exact h

/-- the constructor's CRC rule is idempotent (the CRC is computed over bits that do not contain it) -/
theorem init_idem (f : Bits → Nat) (p : Csbk) (h : p.WF) : init f (init f p) = init f p := by
  unfold init
  by_cases hc : p.crc = 0
  · simp only [hc, ↓reduceIte]
    split
    · rename_i h0
      have hw : ({ p with crc := f (slice (enc p) 0 80) } : Csbk).WF := ⟨h.1, by simp only [h0]; decide, h.2.2⟩
      rw [slice_enc _ hw, slice_enc _ h]
      rfl
    · rfl
  · simp [hc]

/-- whatever `from_bits` returns is built from in-range field values -/
theorem dec_wf (f : Bits → Nat) (hf : ∀ x, f x < 2 ^ 16) (bs : Bits) (hl : bs.length = 96) (p : Csbk)
    (h : dec f bs = .ok p) : p.WF := by
  unfold dec at h
  simp only [hl, Nat.lt_irrefl, ↓reduceIte] at h
  repeat' split at h
  all_goals cases h
  all_goals apply init_wf f hf
  all_goals (unfold WF CsbkPayload.WF; and_intros)
  all_goals wf_field

/-- … and is a fixed point of the constructor's CRC rule -/
theorem dec_init (f : Bits → Nat) (hf : ∀ x, f x < 2 ^ 16) (bs : Bits) (hl : bs.length = 96) (p : Csbk)
    (h : dec f bs = .ok p) : init f p = p := by
  have hw := dec_wf f hf bs hl p h
  unfold dec at h
  simp only [hl, Nat.lt_irrefl, ↓reduceIte] at h
  repeat' split at h
  all_goals cases h
  all_goals exact init_idem f _ (wf_of_init f _ hw)

/-- decoding any 96-bit string that succeeds yields an object whose serialisation decodes to the
same object: `as_bits` of it is a fixed point of decode-then-encode -/
theorem fixpoint (f : Bits → Nat) (hf : ∀ x, f x < 2 ^ 16) (bs : Bits) (hl : bs.length = 96) (p : Csbk)
    (h : dec f bs = .ok p) : dec f (enc p) = .ok p ∧ (enc p).length = 96 := by
  have hw := dec_wf f hf bs hl p h
  exact ⟨by rw [dec_enc f p hw, dec_init f hf bs hl p h], enc_length p hw⟩

theorem eCsbkOpcodes_ove : eCsbkOpcodes.onlyValueErrors = true := Elem.onlyValueErrors_of_mem (by simp [allElems])

/-- a 96-bit string is decoded, or raises `ValueError` (undefined opcode / answer response / reason
code / service type) or `NotImplementedError` (a defined opcode without PDU layout); nothing else -/
theorem dec_errors (f : Bits → Nat) (bs : Bits) (hl : bs.length = 96) (e : Err)
    (h : dec f bs = .error e) : e = .valueError ∨ e = .notImplemented := by
  unfold dec at h
  simp only [hl, Nat.lt_irrefl, ↓reduceIte] at h
  repeat' split at h
  all_goals first
    | (cases h; done)
    | (cases h; right; rfl)
    | (cases h; left; exact Elem.err_valueError_mem (by assumption) (by simp [allElems]))
    | (cases h; exfalso
       have := ServiceOptions.dec_total (slice bs 16 8) (by simp [slice_length, hl])
       simp_all; done)

end Csbk
end Dmr
