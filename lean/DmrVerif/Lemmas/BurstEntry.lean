import DmrVerif.Lemmas.BurstData
import DmrVerif.Lemmas.BurstProbes

/-!
Lemmas for C01 about the entry points other than `from_bits` / `from_bytes` (`Burst.from_mmdvm`,
`Burst.from_hytera_ipsc`) and the attributes outside the ETSI burst (hardening after seeded change C01-F).
-/

namespace Dmr
open Dmr.Gen Dmr.Gen.Burst

namespace Burst

/-- `from_mmdvm` is the constructor on the burst bits with the announced type, plus attributes -/
theorem fromMmdvm_of_parse (c : Crcs) (f : MmdvmFrame) (q : Burst)
    (h : parse c f.dmrBits (mmdvmAnnounced f) = .ok q) : fromMmdvm c f = .ok ⟨q, mmdvmAux f⟩ := by
  simp [fromMmdvm, h]

/-- an `Enum` member in `frame_type` (every frame the Kaitai parser returns) is announced as vocoder -/
theorem mmdvmAnnounced_member (f : MmdvmFrame) (v : Nat) (h : f.frameType = .member v) :
    mmdvmAnnounced f = .vocoder := by
  simp [mmdvmAnnounced, h, KVal.eqInt]

/-- the timeslot attribute `from_mmdvm` sets is 1 or 2 — and 2 is reached -/
theorem mmdvmAux_timeslot (f : MmdvmFrame) : (mmdvmAux f).timeslot = 1 ∨ (mmdvmAux f).timeslot = 2 := by
  unfold mmdvmAux
  by_cases h : f.slotNo.eqMember mmdvmTimeslot1 = true <;> simp [h]

/-- `from_hytera_ipsc` of a frame that carries an ETSI burst is the constructor on the payload bits with
the announced type, plus attributes -/
theorem fromIpsc_of_parse (c : Crcs) (f : IpscFrame) (bt : BurstType) (q : Burst)
    (hk : ipscKind f = .ok (.plain bt)) (h : parse c f.payloadBits bt = .ok q) :
    fromIpsc c f = .ok (some ⟨q, ipscAux f⟩) := by
  simp [fromIpsc, hk, h]

/-- both timeslot values are reached through IPSC frames, and nothing else -/
theorem ipsc_timeslots : ipscTimeslots.map (·.2) = [1, 2] := by decide

end Burst
end Dmr
