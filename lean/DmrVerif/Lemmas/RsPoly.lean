import DmrVerif.Lemmas.RsCode
import Mathlib.Algebra.Polynomial.Roots
import Mathlib.RingTheory.Polynomial.Basic

/-!
C11 helpers, part 5: the same facts in the language of the polynomial ring `GF[X]` (Mathlib's
`Polynomial`): a word is the polynomial with its octets as coefficients (highest degree first),
`POLYNOMIAL` is g = X³ + 14X² + 56X + 64 = (X − α)(X − α²)(X − α³), and "zero syndromes at α, α², α³"
is the same as "multiple of g" (the three roots are distinct).
-/

open Polynomial

namespace Dmr.Rs
open Dmr Dmr.Gen GF

/-- the polynomial whose coefficients are the octets of `w`, highest degree first -/
noncomputable def wordPoly (w : Bytes) : GF[X] :=
  (w.map ofNat).foldl (fun acc x => acc * X + C x) 0

/-- g(x) as `POLYNOMIAL` gives it: x³ + P[2]·x² + P[1]·x + P[0] -/
noncomputable def genPoly : GF[X] := X ^ 3 + C G2 * X ^ 2 + C G1 * X + C G0

theorem eval_foldl (r : GF) (l : List GF) (acc : GF[X]) :
    (l.foldl (fun acc x => acc * X + C x) acc).eval r = l.foldl (fun a x => a * r + x) (acc.eval r) := by
  induction l generalizing acc with
  | nil => rfl
  | cons x xs ih => simp only [List.foldl_cons]; rw [ih]; simp

theorem eval_wordPoly (r : GF) (w : Bytes) : (wordPoly w).eval r = horner r (w.map ofNat) := by
  unfold wordPoly horner; rw [eval_foldl]; simp

theorem X_sub_C_eq (a : GF) : (X - C a : GF[X]) = X + C a := by
  rw [sub_eq_add_neg, ← C_neg, GF.neg_eq]

/-- g = (X − α)(X − α²)(X − α³) -/
theorem genPoly_eq : genPoly = (X - C α) * (X - C (α ^ 2)) * (X - C (α ^ 3)) := by
  obtain ⟨_, h2, h1, h0⟩ := genpoly_factors
  unfold genPoly
  rw [h2, h1, h0, X_sub_C_eq, X_sub_C_eq, X_sub_C_eq]
  simp only [C_add, C_mul]
  ring

theorem alpha_pow_ne (i j : Nat) (hi : i < 255) (hj : j < 255) (h : i ≠ j) : α ^ i ≠ α ^ j :=
  fun e => h (alpha_pow_inj i j hi hj e)

theorem coprime_X_sub_C (a b : GF) (h : a ≠ b) : IsCoprime (X - C a : GF[X]) (X - C b) :=
  isCoprime_X_sub_C_of_isUnit_sub (sub_ne_zero.mpr h).isUnit

/-- a polynomial is a multiple of g exactly if it vanishes at α, α², α³ -/
theorem genPoly_dvd_iff (p : GF[X]) :
    genPoly ∣ p ↔ ∀ j, 1 ≤ j → j ≤ 3 → p.eval (α ^ j) = 0 := by
  rw [genPoly_eq]
  constructor
  · rintro ⟨q, rfl⟩ j h1 h3
    have hj : j = 1 ∨ j = 2 ∨ j = 3 := by omega
    rcases hj with rfl | rfl | rfl <;> simp
  · intro h
    have d1 : (X - C α : GF[X]) ∣ p := dvd_iff_isRoot.mpr (by simpa using h 1 (by omega) (by omega))
    have d2 : (X - C (α ^ 2) : GF[X]) ∣ p := dvd_iff_isRoot.mpr (h 2 (by omega) (by omega))
    have d3 : (X - C (α ^ 3) : GF[X]) ∣ p := dvd_iff_isRoot.mpr (h 3 (by omega) (by omega))
    have n12 : α ≠ α ^ 2 := by simpa using alpha_pow_ne 1 2 (by omega) (by omega) (by omega)
    have n13 : α ≠ α ^ 3 := by simpa using alpha_pow_ne 1 3 (by omega) (by omega) (by omega)
    have n23 : α ^ 2 ≠ α ^ 3 := alpha_pow_ne 2 3 (by omega) (by omega) (by omega)
    have c12 := coprime_X_sub_C _ _ n12
    have c13 := coprime_X_sub_C _ _ n13
    have c23 := coprime_X_sub_C _ _ n23
    exact (IsCoprime.mul_left c13 c23).mul_dvd (c12.mul_dvd d1 d2) d3

/-- zero syndromes = multiple of g, for octet strings -/
theorem syndromesZero_iff_dvd (w : Bytes) (bw : isBytes w = true) :
    syndromesZero w = true ↔ genPoly ∣ wordPoly w := by
  rw [syndromesZero_iff, genPoly_dvd_iff]
  constructor
  · intro h j h1 h3
    rw [eval_wordPoly, alpha_pow j (by omega)]
    exact (evalAt_eq_zero_iff _ (exp_lt j) w bw).mp (h j h1 h3)
  · intro h j h1 h3
    have := h j h1 h3
    rw [eval_wordPoly, alpha_pow j (by omega)] at this
    exact (evalAt_eq_zero_iff _ (exp_lt j) w bw).mpr this

end Dmr.Rs
