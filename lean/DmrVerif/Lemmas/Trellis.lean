import DmrVerif.Model.Trellis

/-!
Lemmas behind property C10 (rate ¾ trellis).  Core Lean only.

Structure: the finite facts about the extracted tables are closed Boolean checks (`chk…`) collected in
`TablesOk`; `Props/C10.lean` discharges them with `decide +kernel`.  Everything that quantifies over
blocks / streams is structural: each stage of `encode` is undone by the matching stage of `decode`
(`…_inv` lemmas), the finite-state stage by induction over the tribit list with the invariant
"decoder `last` = encoder `state`".
-/

namespace Dmr.Trellis
open Dmr.Gen.Trellis

/-! ## the finite facts, as closed checks -/

/-- the dibit values: the keys of `TRELLIS34_DIBITS_REVERSE` -/
def dibitVals : List Int := dibitsReverse.map Prod.fst

/-- every reverse-dict entry `d ↦ (a, b)` is inverted by the dict: `(a, b) ↦ d` -/
def chkDibitRev : Bool :=
  dibitVals.all fun d =>
    match dibitsReverse.lookup d with
    | some ab => decide (dibits.lookup ab = some d)
    | none => false

/-- all four bit pairs are keys of the dict, their values are keys of the reverse dict, and it maps back -/
def chkDibitFwd : Bool :=
  [false, true].all fun a => [false, true].all fun b =>
    match dibits.lookup (a, b) with
    | some d => dibitVals.contains d && decide (dibitsReverse.lookup d = some (a, b))
    | none => false

/-- points 0..15 are keys of the reverse constellation dict, with dibit values, inverted by the dict -/
def chkPointRev : Bool :=
  (List.range 16).all fun p =>
    match constellationReverse.lookup p with
    | some xy => dibitVals.contains xy.1 && dibitVals.contains xy.2
        && decide (constellation.lookup xy = some p)
    | none => false

/-- all 16 dibit pairs are keys of the constellation dict, with values below 16 that map back -/
def chkPointFwd : Bool :=
  dibitVals.all fun x => dibitVals.all fun y =>
    match constellation.lookup (x, y) with
    | some p => decide (p < 16) && decide (constellationReverse.lookup p = some (x, y))
    | none => false

/-- for each of the 64 (state, tribit) pairs: the table has the entry, it is a point below 16, and
the decoder's non-breaking search of row `state` for that point ends with `last = tribit` -/
def chkTrans : Bool :=
  (List.range 8).all fun s =>
    match rowOf s with
    | .ok row =>
      (List.range 8).all fun t =>
        match transition[s * 8 + t]? with
        | some p => decide (p < 16) && decide (row[t]? = some p) && decide (lastHit row p = some t)
        | none => false
    | .error _ => false

/-- the interleave matrix has 98 entries, all below 98, and hits every position -/
def chkMatrix : Bool :=
  decide (interleaveMatrix.length = 98) && interleaveMatrix.all (fun m => decide (m < 98))
    && (List.range 98).all (fun j => interleaveMatrix.contains j)

structure TablesOk : Prop where
  dibitRev : chkDibitRev = true
  dibitFwd : chkDibitFwd = true
  pointRev : chkPointRev = true
  pointFwd : chkPointFwd = true
  trans : chkTrans = true
  matrix : chkMatrix = true
  matrixNodup : interleaveMatrix.Nodup

/-! ### the checks in usable form -/

theorem lookupR_of_lookup {κ ν : Type} [BEq κ] {tbl : List (κ × ν)} {k : κ} {v : ν}
    (h : tbl.lookup k = some v) : lookupR tbl k = .ok v := by
  simp [lookupR, h]

theorem dibitRev_spec (H : TablesOk) {d : Int} (hd : d ∈ dibitVals) :
    ∃ a b, lookupR dibitsReverse d = .ok (a, b) ∧ lookupR dibits (a, b) = .ok d := by
  have h := List.all_eq_true.mp H.dibitRev d hd
  cases hl : dibitsReverse.lookup d with
  | none => simp [hl] at h
  | some ab =>
    simp only [hl, decide_eq_true_eq] at h
    exact ⟨ab.1, ab.2, lookupR_of_lookup hl, lookupR_of_lookup h⟩

theorem dibitFwd_spec (H : TablesOk) (a b : Bool) :
    ∃ d, d ∈ dibitVals ∧ lookupR dibits (a, b) = .ok d ∧ lookupR dibitsReverse d = .ok (a, b) := by
  have ha : a ∈ [false, true] := by cases a <;> simp
  have hb : b ∈ [false, true] := by cases b <;> simp
  have h := List.all_eq_true.mp (List.all_eq_true.mp H.dibitFwd a ha) b hb
  cases hl : dibits.lookup (a, b) with
  | none => simp [hl] at h
  | some d =>
    simp only [hl, Bool.and_eq_true, decide_eq_true_eq, List.contains_iff_mem] at h
    exact ⟨d, h.1, lookupR_of_lookup hl, lookupR_of_lookup h.2⟩

theorem pointRev_spec (H : TablesOk) {p : Nat} (hp : p < 16) :
    ∃ x y, x ∈ dibitVals ∧ y ∈ dibitVals ∧ lookupR constellationReverse p = .ok (x, y)
      ∧ lookupR constellation (x, y) = .ok p := by
  have h := List.all_eq_true.mp H.pointRev p (List.mem_range.mpr hp)
  cases hl : constellationReverse.lookup p with
  | none => simp [hl] at h
  | some xy =>
    simp only [hl, Bool.and_eq_true, decide_eq_true_eq, List.contains_iff_mem] at h
    exact ⟨xy.1, xy.2, h.1.1, h.1.2, lookupR_of_lookup hl, lookupR_of_lookup h.2⟩

theorem pointFwd_spec (H : TablesOk) {x y : Int} (hx : x ∈ dibitVals) (hy : y ∈ dibitVals) :
    ∃ p, p < 16 ∧ lookupR constellation (x, y) = .ok p
      ∧ lookupR constellationReverse p = .ok (x, y) := by
  have h := List.all_eq_true.mp (List.all_eq_true.mp H.pointFwd x hx) y hy
  cases hl : constellation.lookup (x, y) with
  | none => simp [hl] at h
  | some p =>
    simp only [hl, Bool.and_eq_true, decide_eq_true_eq] at h
    exact ⟨p, h.1, lookupR_of_lookup hl, lookupR_of_lookup h.2⟩

theorem indexR_of_getElem? {α : Type} {xs : List α} {i : Nat} {v : α} (h : xs[i]? = some v) :
    indexR xs i = .ok v := by
  simp [indexR, h]

theorem trans_spec (H : TablesOk) {s t : Nat} (hs : s < 8) (ht : t < 8) :
    ∃ row p, rowOf s = .ok row ∧ indexR transition (s * 8 + t) = .ok p ∧ p < 16
      ∧ row[t]? = some p ∧ lastHit row p = some t := by
  have h := List.all_eq_true.mp H.trans s (List.mem_range.mpr hs)
  cases hr : rowOf s with
  | error e => simp [hr] at h
  | ok row =>
    simp only [hr] at h
    have h2 := List.all_eq_true.mp h t (List.mem_range.mpr ht)
    cases hl : transition[s * 8 + t]? with
    | none => simp [hl] at h2
    | some p =>
      simp only [hl, Bool.and_eq_true, decide_eq_true_eq] at h2
      exact ⟨row, p, rfl, indexR_of_getElem? hl, h2.1.1, h2.1.2, h2.2⟩

theorem matrix_length (H : TablesOk) : interleaveMatrix.length = 98 := by
  have h := H.matrix
  simp only [chkMatrix, Bool.and_eq_true, decide_eq_true_eq] at h
  exact h.1.1

theorem matrix_lt (H : TablesOk) {m : Nat} (hm : m ∈ interleaveMatrix) : m < 98 := by
  have h := H.matrix
  simp only [chkMatrix, Bool.and_eq_true, decide_eq_true_eq] at h
  have := List.all_eq_true.mp h.1.2 m hm
  simpa using this

theorem matrix_surj (H : TablesOk) {j : Nat} (hj : j < 98) : j ∈ interleaveMatrix := by
  have h := H.matrix
  simp only [chkMatrix, Bool.and_eq_true, decide_eq_true_eq] at h
  have := List.all_eq_true.mp h.2 j (List.mem_range.mpr hj)
  simpa using this

/-! ## bits ↔ tribits -/

theorem tribitBits_tribitOf (a b c : Bool) : tribitBits (tribitOf false [a, b, c]) = [a, b, c] := by
  cases a <;> cases b <;> cases c <;> rfl

theorem tribitOf_lt (a b c : Bool) : tribitOf false [a, b, c] < 8 := by
  cases a <;> cases b <;> cases c <;> decide

/-- a block of `3k` bits is `k` tribits below 8 that unpack to the block -/
theorem triples_spec : ∀ (k : Nat) (b : Bits), b.length = 3 * k →
    ((triples b).map (tribitOf false)).length = k
      ∧ (∀ t ∈ (triples b).map (tribitOf false), t < 8)
      ∧ ((triples b).map (tribitOf false)).flatMap tribitBits = b
  | 0, b, h => by
    have : b = [] := List.eq_nil_of_length_eq_zero (by omega)
    subst this; simp [triples]
  | k + 1, b, h => by
    match b, h with
    | a :: b :: c :: r, h =>
      have hr : r.length = 3 * k := by simp only [List.length_cons] at h; omega
      obtain ⟨h1, h2, h3⟩ := triples_spec k r hr
      refine ⟨?_, ?_, ?_⟩
      · simp only [triples, List.map_cons, List.length_cons, h1]
      · intro t ht
        simp only [triples, List.map_cons, List.mem_cons] at ht
        rcases ht with rfl | ht
        · exact tribitOf_lt a b c
        · exact h2 t ht
      · simp only [triples, List.map_cons, List.flatMap_cons, h3, tribitBits_tribitOf]
        rfl
    | [], h => simp only [List.length_nil] at h; omega
    | [_], h => simp only [List.length_cons, List.length_nil] at h; omega
    | [_, _], h => simp only [List.length_cons, List.length_nil] at h; omega

theorem bitsToTribits_length (b : Bits) (h : b.length = 144) :
    (bitsToTribits false b).length = 49 := by
  have := (triples_spec 48 b (by omega)).1
  simp [bitsToTribits, this]

theorem bitsToTribits_lt (b : Bits) (h : b.length = 144) : ∀ t ∈ bitsToTribits false b, t < 8 := by
  intro t ht
  simp only [bitsToTribits, List.mem_append, List.mem_singleton] at ht
  rcases ht with ht | rfl
  · exact (triples_spec 48 b (by omega)).2.1 t ht
  · decide

/-- `tribits_to_bits` undoes `bits_to_tribits`: the flush tribit is dropped -/
theorem tribitsToBits_inv (b : Bits) (h : b.length = 144) :
    tribitsToBits (bitsToTribits false b) = .ok b := by
  obtain ⟨h1, _, h3⟩ := triples_spec 48 b (by omega)
  have hl := bitsToTribits_length b h
  unfold tribitsToBits
  rw [if_pos hl]
  simp only [bitsToTribits]
  rw [List.take_append_of_le_length (by omega), List.take_of_length_le (by omega), h3]

/-- whatever the 49th tribit is, `tribits_to_bits` gives the same 144 bits -/
theorem tribitsToBits_flush (ts : List Nat) (h : ts.length = 48) (x : Nat) :
    tribitsToBits (ts ++ [x]) = .ok (ts.flatMap tribitBits) := by
  unfold tribitsToBits
  rw [if_pos (by simp [h])]
  rw [List.take_append_of_le_length (by omega), List.take_of_length_le (by omega)]

/-! ## the finite-state stage -/

/-- encoder and decoder walk the same states: from a common state `s` the encoder emits a point
for every tribit and the decoder's search returns exactly that tribit -/
theorem emit_walk (H : TablesOk) : ∀ (ts : List Nat) (s : Nat), s < 8 → (∀ t ∈ ts, t < 8) →
    ∃ pts, emit s ts = .ok pts ∧ pts.length = ts.length ∧ (∀ p ∈ pts, p < 16)
      ∧ walk ts.length s pts = .ok ts
  | [], s, _, _ => ⟨[], by simp [emit, walk]⟩
  | t :: ts, s, hs, hts => by
    have ht : t < 8 := hts t (by simp)
    obtain ⟨row, p, hrow, hidx, hp, _, hhit⟩ := trans_spec H hs ht
    obtain ⟨pts, he, hlen, hlt, hw⟩ := emit_walk H ts t ht (fun x hx => hts x (by simp [hx]))
    refine ⟨p :: pts, ?_, ?_, ?_, ?_⟩
    · simp [emit, hidx, he]
    · simp [hlen]
    · intro q hq
      simp only [List.mem_cons] at hq
      rcases hq with rfl | hq
      · exact hp
      · exact hlt q hq
    · simp [walk, hrow, hhit, hw]

theorem lastHitFrom_eq_none (p : Nat) : ∀ (xs : List Nat) (k : Nat) (acc : Option Nat),
    lastHitFrom p xs k acc = none ↔ acc = none ∧ p ∉ xs
  | [], k, acc => by simp [lastHitFrom]
  | x :: xs, k, acc => by
    rw [lastHitFrom, lastHitFrom_eq_none p xs (k + 1)]
    by_cases hpx : p = x
    · subst hpx; simp
    · have : (p == x) = false := by simpa using hpx
      simp [this, hpx]

/-- `matches` stays `False` exactly when the point is not among the eight row entries -/
theorem lastHit_eq_none (row : List Nat) (p : Nat) : lastHit row p = none ↔ p ∉ row := by
  simp [lastHit, lastHitFrom_eq_none]

/-- a point outside the row of the state reached after `i` accepted points stops the decoder with
the assertion, wherever it is in the (at least `i+1`)-iteration loop -/
theorem walk_reject : ∀ (i n s : Nat) (pts : List Nat) (st p : Nat) (row : List Nat),
    i < n → walkState i s pts = .ok st → pts[i]? = some p → rowOf st = .ok row → p ∉ row →
    walk n s pts = .error .assertion
  | 0, n, s, pts, st, p, row, hin, hws, hp, hrow, hnot => by
    match n, hin, pts, hp with
    | n + 1, _, q :: qs, hp =>
      simp only [walkState, Except.ok.injEq] at hws
      subst hws
      simp only [List.getElem?_cons_zero, Option.some.injEq] at hp
      subst hp
      simp [walk, hrow, (lastHit_eq_none row q).mpr hnot]
  | i + 1, n, s, pts, st, p, row, hin, hws, hp, hrow, hnot => by
    match n, hin, pts, hp with
    | n + 1, hin, q :: qs, hp =>
      simp only [List.getElem?_cons_succ] at hp
      simp only [walkState] at hws
      cases hr : rowOf s with
      | error e => simp [hr] at hws
      | ok r =>
        simp only [hr] at hws
        cases hh : lastHit r q with
        | none => simp [hh] at hws
        | some t =>
          simp only [hh] at hws
          have ih := walk_reject i n t qs st p row (by omega) hws hp hrow hnot
          simp [walk, hr, hh, ih]

/-- conversely the decoder accepts `n` points only along a path of the encoder's table -/
theorem walk_ok_path : ∀ (n s : Nat) (pts ts : List Nat), walk n s pts = .ok ts →
    ∀ i, i < n → ∃ st row p, walkState i s pts = .ok st ∧ rowOf st = .ok row ∧ pts[i]? = some p
      ∧ p ∈ row
  | 0, _, _, _, _, i, hi => by omega
  | n + 1, s, [], ts, h, _, _ => by simp [walk] at h
  | n + 1, s, q :: qs, ts, h, i, hi => by
    simp only [walk] at h
    cases hr : rowOf s with
    | error e => simp [hr] at h
    | ok r =>
      simp only [hr] at h
      cases hh : lastHit r q with
      | none => simp [hh] at h
      | some t =>
        simp only [hh] at h
        cases hw : walk n t qs with
        | error e => simp [hw] at h
        | ok ts' =>
          cases i with
          | zero =>
            refine ⟨s, r, q, by simp [walkState], hr, by simp, ?_⟩
            apply Classical.byContradiction
            intro hq
            rw [(lastHit_eq_none r q).mpr hq] at hh
            cases hh
          | succ i =>
            obtain ⟨st, row, p, h1, h2, h3, h4⟩ := walk_ok_path n t qs ts' hw i (by omega)
            exact ⟨st, row, p, by simp [walkState, hr, hh, h1], h2, by simpa using h3, h4⟩

/-- the row the decoder searches is exactly what the table holds at `start .. start+k-1` -/
theorem rowFrom_mem : ∀ (k start : Nat) (xs : List Nat), rowFrom start k = .ok xs → ∀ p,
    (p ∈ xs ↔ ∃ t, t < k ∧ transition[start + t]? = some p)
  | 0, start, xs, h, p => by
    simp only [rowFrom, Except.ok.injEq] at h
    subst h; simp
  | k + 1, start, xs, h, p => by
    simp only [rowFrom, indexR] at h
    cases hx : transition[start]? with
    | none => simp [hx] at h
    | some x =>
      simp only [hx] at h
      cases hr : rowFrom (start + 1) k with
      | error e => simp [hr] at h
      | ok ys =>
        simp only [hr, Except.ok.injEq] at h
        subst h
        have ih := rowFrom_mem k (start + 1) ys hr p
        simp only [List.mem_cons, ih]
        constructor
        · rintro (rfl | ⟨t, ht, hp⟩)
          · exact ⟨0, by omega, by simpa using hx⟩
          · exact ⟨t + 1, by omega, by rw [← hp]; congr 1; omega⟩
        · rintro ⟨t, ht, hp⟩
          cases t with
          | zero => left; simp only [Nat.add_zero, hx, Option.some.injEq] at hp; exact hp.symm
          | succ t => right; exact ⟨t, by omega, by rw [← hp]; congr 1; omega⟩

/-- a point is in the row of state `st` iff the encoder emits it from `st` for some tribit -/
theorem mem_row_iff_emit (st : Nat) (row : List Nat) (h : rowOf st = .ok row) (p : Nat) :
    p ∈ row ↔ ∃ t, t < 8 ∧ emit st [t] = .ok [p] := by
  rw [rowFrom_mem 8 (st * 8) row h p]
  constructor
  · rintro ⟨t, ht, hp⟩
    exact ⟨t, ht, by simp [emit, indexR, hp]⟩
  · rintro ⟨t, ht, hp⟩
    refine ⟨t, ht, ?_⟩
    simp only [emit, indexR] at hp
    cases hx : transition[st * 8 + t]? with
    | none => simp [hx] at hp
    | some x => simp only [hx, Except.ok.injEq, List.cons.injEq, and_true] at hp; rw [hp]

/-- along an encoder output the decoder's state before point `i` is the encoder's state there:
the start state for `i = 0`, else the previous tribit -/
theorem walkState_emit (H : TablesOk) : ∀ (ts : List Nat) (s i : Nat) (pts : List Nat), s < 8 →
    (∀ t ∈ ts, t < 8) → i ≤ ts.length → emit s ts = .ok pts →
    ∃ st, (s :: ts)[i]? = some st ∧ walkState i s pts = .ok st
  | ts, s, 0, pts, _, _, _, _ => ⟨s, by simp, by simp [walkState]⟩
  | [], s, i + 1, pts, _, _, hi, _ => by simp at hi
  | t :: ts, s, i + 1, pts, hs, hts, hi, he => by
    have ht : t < 8 := hts t (by simp)
    obtain ⟨row, p, hrow, hidx, _, _, hhit⟩ := trans_spec H hs ht
    simp only [emit, hidx] at he
    cases hr : emit t ts with
    | error e => simp [hr] at he
    | ok ps =>
      simp only [hr, Except.ok.injEq] at he
      subst he
      obtain ⟨st, h1, h2⟩ := walkState_emit H ts t i ps ht (fun x hx => hts x (by simp [hx]))
        (by simpa using hi) hr
      exact ⟨st, by simpa using h1, by simp [walkState, hrow, hhit, h2]⟩

/-! ## points ↔ dibits, dibits ↔ bits -/

theorem pointsToDibits_inv (H : TablesOk) : ∀ (pts : List Nat), (∀ p ∈ pts, p < 16) →
    ∃ ds, pointsToDibits pts = .ok ds ∧ ds.length = 2 * pts.length ∧ (∀ d ∈ ds, d ∈ dibitVals)
      ∧ dibitsToPoints ds = .ok pts
  | [], _ => ⟨[], by simp [pointsToDibits, dibitsToPoints]⟩
  | p :: pts, h => by
    obtain ⟨x, y, hx, hy, hrev, hfwd⟩ := pointRev_spec H (h p (by simp))
    obtain ⟨ds, h1, h2, h3, h4⟩ := pointsToDibits_inv H pts (fun q hq => h q (by simp [hq]))
    refine ⟨x :: y :: ds, by simp [pointsToDibits, hrev, h1], by simp [h2]; omega, ?_,
      by simp [dibitsToPoints, hfwd, h4]⟩
    intro d hd
    simp only [List.mem_cons] at hd
    rcases hd with rfl | rfl | hd
    · exact hx
    · exact hy
    · exact h3 d hd

theorem dibitsToBits_inv (H : TablesOk) : ∀ (ds : List Int), (∀ d ∈ ds, d ∈ dibitVals) →
    ∃ bits, dibitsToBits ds = .ok bits ∧ bits.length = 2 * ds.length ∧ bitsToDibits bits = .ok ds
  | [], _ => ⟨[], by simp [dibitsToBits, bitsToDibits]⟩
  | d :: ds, h => by
    obtain ⟨a, b, hrev, hfwd⟩ := dibitRev_spec H (h d (by simp))
    obtain ⟨bits, h1, h2, h3⟩ := dibitsToBits_inv H ds (fun q hq => h q (by simp [hq]))
    exact ⟨a :: b :: bits, by simp [dibitsToBits, hrev, h1], by simp [h2]; omega,
      by simp [bitsToDibits, hfwd, h3]⟩

/-- `bits_to_dibits` never fails on an even number of bits -/
theorem bitsToDibits_total (H : TablesOk) : ∀ (k : Nat) (bits : Bits), bits.length = 2 * k →
    ∃ ds, bitsToDibits bits = .ok ds ∧ ds.length = k ∧ (∀ d ∈ ds, d ∈ dibitVals)
      ∧ dibitsToBits ds = .ok bits
  | 0, bits, h => by
    have : bits = [] := List.eq_nil_of_length_eq_zero (by omega)
    subst this
    exact ⟨[], by simp [bitsToDibits, dibitsToBits]⟩
  | k + 1, bits, h => by
    match bits, h with
    | a :: b :: r, h =>
      obtain ⟨d, hd, hfwd, hrev⟩ := dibitFwd_spec H a b
      obtain ⟨ds, h1, h2, h3, h4⟩ := bitsToDibits_total H k r (by simp at h; omega)
      refine ⟨d :: ds, by simp [bitsToDibits, hfwd, h1], by simp [h2], ?_,
        by simp [dibitsToBits, hrev, h4]⟩
      intro x hx
      simp only [List.mem_cons] at hx
      rcases hx with rfl | hx
      · exact hd
      · exact h3 x hx
    | [], h => simp only [List.length_nil] at h; omega
    | [_], h => simp only [List.length_cons, List.length_nil] at h; omega

/-- `dibits_to_points` never fails on an even number of dibit values -/
theorem dibitsToPoints_total (H : TablesOk) : ∀ (k : Nat) (ds : List Int), ds.length = 2 * k →
    (∀ d ∈ ds, d ∈ dibitVals) →
    ∃ pts, dibitsToPoints ds = .ok pts ∧ pts.length = k ∧ (∀ p ∈ pts, p < 16)
      ∧ pointsToDibits pts = .ok ds
  | 0, ds, h, _ => by
    have : ds = [] := List.eq_nil_of_length_eq_zero (by omega)
    subst this
    exact ⟨[], by simp [dibitsToPoints, pointsToDibits]⟩
  | k + 1, ds, h, hv => by
    match ds, h, hv with
    | x :: y :: r, h, hv =>
      obtain ⟨p, hp, hfwd, hrev⟩ := pointFwd_spec H (hv x (by simp)) (hv y (by simp))
      obtain ⟨pts, h1, h2, h3, h4⟩ := dibitsToPoints_total H k r (by simp at h; omega)
        (fun q hq => hv q (by simp [hq]))
      refine ⟨p :: pts, by simp [dibitsToPoints, hfwd, h1], by simp [h2], ?_,
        by simp [pointsToDibits, hrev, h4]⟩
      intro q hq
      simp only [List.mem_cons] at hq
      rcases hq with rfl | hq
      · exact hp
      · exact h3 q hq
    | [], h, _ => simp only [List.length_nil] at h; omega
    | [_], h, _ => simp only [List.length_cons, List.length_nil] at h; omega

/-! ## interleaving -/

/-- `scatter` without the range checks -/
def scatterP : List Nat → List Int → List Int → List Int
  | m :: ms, v :: vs, out => scatterP ms vs (out.set m v)
  | [], _, out => out
  | _ :: _, [], out => out

theorem scatter_eq (n : Nat) : ∀ (ms : List Nat) (vs out : List Int), (∀ m ∈ ms, m < n) →
    ms.length ≤ vs.length → scatter n ms vs out = .ok (scatterP ms vs out)
  | [], vs, out, _, _ => by simp [scatter, scatterP]
  | m :: ms, [], out, _, h => by simp at h
  | m :: ms, v :: vs, out, hm, h => by
    have : m < n := hm m (by simp)
    simp only [scatter, this, if_true, scatterP]
    exact scatter_eq n ms vs _ (fun x hx => hm x (by simp [hx])) (by simpa using h)

theorem scatterP_length : ∀ (ms : List Nat) (vs out : List Int),
    (scatterP ms vs out).length = out.length
  | [], vs, out => by simp [scatterP]
  | m :: ms, [], out => by simp [scatterP]
  | m :: ms, v :: vs, out => by simp [scatterP, scatterP_length ms vs]

theorem scatterP_get_notMem : ∀ (ms : List Nat) (vs out : List Int) (j : Nat), j ∉ ms →
    (scatterP ms vs out)[j]? = out[j]?
  | [], vs, out, j, _ => by simp [scatterP]
  | m :: ms, [], out, j, _ => by simp [scatterP]
  | m :: ms, v :: vs, out, j, h => by
    simp only [List.mem_cons, not_or] at h
    rw [scatterP, scatterP_get_notMem ms vs _ j h.2, List.getElem?_set_ne (Ne.symm h.1)]

/-- with distinct targets nothing is overwritten: position `ms[i]` holds `vs[i]` -/
theorem scatterP_get : ∀ (ms : List Nat) (vs out : List Int) (i : Nat) (h1 : i < ms.length)
    (h2 : i < vs.length), ms.Nodup → ms[i] < out.length →
    (scatterP ms vs out)[ms[i]]? = some vs[i]
  | m :: ms, v :: vs, out, 0, _, _, hn, hlt => by
    simp only [List.getElem_cons_zero] at hlt ⊢
    rw [scatterP, scatterP_get_notMem ms vs _ m (List.nodup_cons.mp hn).1]
    simp [hlt]
  | m :: ms, v :: vs, out, i + 1, h1, h2, hn, hlt => by
    simp only [List.getElem_cons_succ] at hlt ⊢
    rw [scatterP]
    exact scatterP_get ms vs _ i (by simpa using h1) (by simpa using h2) (List.nodup_cons.mp hn).2
      (by simpa using hlt)

theorem gatherR_eq (d : List Int) : ∀ (ms : List Nat), (∀ m ∈ ms, m < d.length) →
    gatherR d ms = .ok (ms.map (fun m => d.getD m 0))
  | [], _ => by simp [gatherR]
  | m :: ms, h => by
    have hm : m < d.length := h m (by simp)
    have : indexR d m = .ok (d.getD m 0) := by
      simp [indexR, List.getD, List.getElem?_eq_getElem hm]
    simp [gatherR, this, gatherR_eq d ms (fun x hx => h x (by simp [hx]))]

/-- the value of `interleave` on 98 dibits: a gather through the matrix -/
theorem interleave_eq (H : TablesOk) (d : List Int) (h : d.length = 98) :
    interleave d = .ok (interleaveMatrix.map (fun m => d.getD m 0)) := by
  have hg := gatherR_eq d interleaveMatrix (fun m hm => by rw [h]; exact matrix_lt H hm)
  simp [interleave, hg, matrix_length H]

/-- the value of `deinterleave` on 98 dibits: a scatter through the matrix -/
theorem deinterleave_eq (H : TablesOk) (d : List Int) (h : d.length = 98) :
    deinterleave d = .ok (scatterP interleaveMatrix d (List.replicate 98 0)) := by
  unfold deinterleave
  rw [h]
  exact scatter_eq 98 _ _ _ (fun m hm => matrix_lt H hm) (by rw [matrix_length H, h]; omega)

theorem scatterP_matrix_get (H : TablesOk) (d : List Int) (h : d.length = 98) (i : Nat)
    (hi : i < 98) :
    (scatterP interleaveMatrix d (List.replicate 98 0))[(interleaveMatrix[i]'(by
      rw [matrix_length H]; exact hi))]? = some (d[i]'(by omega)) := by
  apply scatterP_get _ _ _ i _ _ H.matrixNodup
  simp only [List.length_replicate]
  exact matrix_lt H (List.getElem_mem _)

/-- interleaving the de-interleaved dibits gives the dibits back -/
theorem interleave_deinterleave (H : TablesOk) (d : List Int) (h : d.length = 98) :
    ∃ x, deinterleave d = .ok x ∧ x.length = 98 ∧ (∀ v ∈ x, v ∈ d) ∧ interleave x = .ok d := by
  have hM := matrix_length H
  refine ⟨_, deinterleave_eq H d h, by simp [scatterP_length], ?_, ?_⟩
  · intro v hv
    obtain ⟨j, hj, rfl⟩ := List.mem_iff_getElem.mp hv
    simp only [scatterP_length, List.length_replicate] at hj
    obtain ⟨i, hi, hij⟩ := List.mem_iff_getElem.mp (matrix_surj H hj)
    have := scatterP_matrix_get H d h i (by omega)
    simp only [hij] at this
    rw [List.getElem?_eq_getElem (by simp [scatterP_length]; exact hj)] at this
    simp only [Option.some.injEq] at this
    rw [this]
    exact List.getElem_mem _
  · rw [interleave_eq H _ (by simp [scatterP_length])]
    refine congrArg Except.ok ?_
    apply List.ext_getElem
    · simp [hM, h]
    · intro i h1 h2
      simp only [List.length_map, hM] at h1
      simp only [List.getElem_map, List.getD, scatterP_matrix_get H d h i h1, Option.getD_some]

/-- de-interleaving the interleaved dibits gives the dibits back -/
theorem deinterleave_interleave (H : TablesOk) (d : List Int) (h : d.length = 98) :
    ∃ y, interleave d = .ok y ∧ y.length = 98 ∧ (∀ v ∈ y, v ∈ d) ∧ deinterleave y = .ok d := by
  have hM := matrix_length H
  have hy : (interleaveMatrix.map (fun m => d.getD m 0)).length = 98 := by simp [hM]
  refine ⟨_, interleave_eq H d h, hy, ?_, ?_⟩
  · intro v hv
    obtain ⟨m, hm, rfl⟩ := List.mem_map.mp hv
    have : m < d.length := by rw [h]; exact matrix_lt H hm
    simp only [List.getD, List.getElem?_eq_getElem this, Option.getD_some]
    exact List.getElem_mem _
  · rw [deinterleave_eq H _ hy]
    refine congrArg Except.ok ?_
    apply List.ext_getElem
    · simp [scatterP_length, h]
    · intro j h1 h2
      simp only [scatterP_length, List.length_replicate] at h1
      obtain ⟨i, hi, hij⟩ := List.mem_iff_getElem.mp (matrix_surj H h1)
      have := scatterP_matrix_get H _ hy i (by omega)
      simp only [hij] at this
      rw [List.getElem?_eq_getElem (by simp [scatterP_length]; exact h1)] at this
      simp only [Option.some.injEq] at this
      rw [this]
      simp only [List.getElem_map, hij, List.getD, List.getElem?_eq_getElem h2, Option.getD_some]

/-! ## the whole code -/

/-- encoding a 144-bit block gives 196 bits from which `decode` recovers the block -/
theorem encode_decode (H : TablesOk) (b : Bits) (h : b.length = 144) :
    ∃ s, encode b = .ok s ∧ s.length = 196 ∧ decode s = .ok b := by
  have hts := bitsToTribits_lt b h
  have htl := bitsToTribits_length b h
  obtain ⟨pts, he, hpl, hplt, hw⟩ := emit_walk H (bitsToTribits false b) 0 (by omega) hts
  obtain ⟨ds, hd, hdl, hdv, hdi⟩ := pointsToDibits_inv H pts hplt
  have hd98 : ds.length = 98 := by omega
  obtain ⟨ids, hi, hil, hiv, hii⟩ := deinterleave_interleave H ds hd98
  obtain ⟨s, hs, hsl, hsi⟩ := dibitsToBits_inv H ids (fun v hv => hdv v (hiv v hv))
  have hs196 : s.length = 196 := by omega
  refine ⟨s, ?_, hs196, ?_⟩
  · have : ¬ b.length < 144 := by omega
    simp only [encode, encodeEndian, this, if_false, List.take_of_length_le (Nat.le_of_eq h),
      tribitsToPoints, he, hd, hi, hs]
  · rw [htl] at hw
    simp only [decode, hs196, ne_eq, not_true_eq_false, if_false, streamPoints, hsi, hii, hdi,
      pointsToTribits, hw]
    exact tribitsToBits_inv b h

/-- the first three decoder stages never fail on 196 bits and give 49 points below 16 -/
theorem streamPoints_total (H : TablesOk) (s : Bits) (h : s.length = 196) :
    ∃ pts, streamPoints s = .ok pts ∧ pts.length = 49 ∧ (∀ p ∈ pts, p < 16) := by
  obtain ⟨ds, h1, h2, h3, _⟩ := bitsToDibits_total H 98 s (by omega)
  obtain ⟨dd, h4, h5, h6, _⟩ := interleave_deinterleave H ds h2
  obtain ⟨pts, h7, h8, h9, _⟩ := dibitsToPoints_total H 49 dd (by omega) (fun v hv => h3 v (h6 v hv))
  exact ⟨pts, by simp [streamPoints, h1, h4, h7], h8, h9⟩

/-- a stream whose `i`-th point is not in the row of the state reached there is rejected -/
theorem decode_reject (s : Bits) (pts : List Nat) (hp : streamPoints s = .ok pts)
    (i : Nat) (hi : i < 49) (st p : Nat) (row : List Nat) (hst : stateBefore pts i = .ok st)
    (hpi : pts[i]? = some p) (hrow : rowOf st = .ok row) (hnot : p ∉ row) :
    decode s = .error .assertion := by
  unfold decode
  by_cases hl : s.length ≠ 196
  · simp [hl]
  · have := walk_reject i 49 0 pts st p row hi hst hpi hrow hnot
    simp [hl, hp, pointsToTribits, this]

/-! ## bytes -/

/-- checked by the kernel in `Props/C10.lean`: an octet survives `natToBits 8` / `bitsToNat` -/
def chkOctets : Bool :=
  (List.range 256).all fun v => decide ((natToBits 8 v).length = 8)
    && decide (bitsToNat (natToBits 8 v ++ zeros 0) = v)

theorem bitsToBytes_append (c rest : Bits) (hc : c.length = 8) :
    bitsToBytes (c ++ rest) = bitsToNat (c ++ zeros 0) :: bitsToBytes rest := by
  unfold bitsToBytes
  rw [chunks]
  have hne : ¬ ((8 : Nat) = 0 ∨ c ++ rest = []) := by
    intro h
    rcases h with h | h
    · omega
    · have := congrArg List.length h
      simp [hc] at this
  rw [dif_neg hne]
  simp [hc]

theorem bitsToBytes_nil : bitsToBytes [] = [] := by
  unfold bitsToBytes
  rw [chunks]
  simp

/-- `tobytes` undoes `frombytes` -/
theorem bitsToBytes_bytesToBits (hO : chkOctets = true) : ∀ (bs : Bytes), (∀ x ∈ bs, x < 256) →
    bitsToBytes (bytesToBits bs) = bs
  | [], _ => by simp [bytesToBits, bitsToBytes_nil]
  | x :: xs, h => by
    have hx := List.all_eq_true.mp hO x (List.mem_range.mpr (h x (by simp)))
    simp only [Bool.and_eq_true, decide_eq_true_eq] at hx
    have ih := bitsToBytes_bytesToBits hO xs (fun y hy => h y (by simp [hy]))
    simp only [bytesToBits, List.flatMap_cons] at ih ⊢
    rw [bitsToBytes_append _ _ hx.1, hx.2, ih]

theorem bytesToBits_length (hO : chkOctets = true) : ∀ (bs : Bytes), (∀ x ∈ bs, x < 256) →
    (bytesToBits bs).length = 8 * bs.length
  | [], _ => by simp [bytesToBits]
  | x :: xs, h => by
    have hx := List.all_eq_true.mp hO x (List.mem_range.mpr (h x (by simp)))
    simp only [Bool.and_eq_true, decide_eq_true_eq] at hx
    have ih := bytesToBits_length hO xs (fun y hy => h y (by simp [hy]))
    simp only [bytesToBits, List.flatMap_cons, List.length_append] at ih ⊢
    rw [hx.1, ih, List.length_cons]; omega

/-! ## a little-endian bitarray argument -/

/-- every 3-bit group reversed -/
def rev3 (b : Bits) : Bits := (triples b).flatMap List.reverse

theorem rev3_length : ∀ (k : Nat) (b : Bits), b.length = 3 * k → (rev3 b).length = 3 * k
  | 0, b, h => by
    have : b = [] := List.eq_nil_of_length_eq_zero (by omega)
    subst this; simp [rev3, triples]
  | k + 1, b, h => by
    match b, h with
    | a :: b :: c :: r, h =>
      have := rev3_length k r (by simp at h; omega)
      simp only [rev3, triples, List.flatMap_cons, List.length_append] at this ⊢
      simp [this]; omega
    | [], h => simp only [List.length_nil] at h; omega
    | [_], h => simp only [List.length_cons, List.length_nil] at h; omega
    | [_, _], h => simp only [List.length_cons, List.length_nil] at h; omega

theorem triples_little : ∀ (k : Nat) (b : Bits), b.length = 3 * k →
    (triples b).map (tribitOf true) = (triples (rev3 b)).map (tribitOf false)
  | 0, b, h => by
    have : b = [] := List.eq_nil_of_length_eq_zero (by omega)
    subst this; simp [rev3, triples]
  | k + 1, b, h => by
    match b, h with
    | a :: b :: c :: r, h =>
      have := triples_little k r (by simp at h; omega)
      simp only [rev3] at this
      simp only [rev3, triples, List.map_cons, List.flatMap_cons, List.reverse_cons,
        List.reverse_nil, List.nil_append, List.cons_append, this]
      rfl
    | [], h => simp only [List.length_nil] at h; omega
    | [_], h => simp only [List.length_cons, List.length_nil] at h; omega
    | [_, _], h => simp only [List.length_cons, List.length_nil] at h; omega

/-- a little-endian bitarray is encoded as the block with every 3-bit group reversed -/
theorem encodeEndian_little (b : Bits) (h : b.length = 144) :
    encodeEndian true b = encode (rev3 b) := by
  have h2 := rev3_length 48 b (by omega)
  have e : bitsToTribits true b = bitsToTribits false (rev3 b) := by
    simp only [bitsToTribits, triples_little 48 b (by omega)]
  have n1 : ¬ b.length < 144 := by omega
  have n2 : ¬ (rev3 b).length < 144 := by omega
  simp only [encode, encodeEndian, n1, n2, if_false, List.take_of_length_le (Nat.le_of_eq h),
    List.take_of_length_le (Nat.le_of_eq (by omega : (rev3 b).length = 144)), e]

end Dmr.Trellis
