import DmrVerif.Lemmas.RsMul

/-!
C11 helpers, part 2 (core Lean only): the arithmetic laws of `logMultiply` / xor on octets at the
`Nat` level.  Commutativity is by definition, unit / associativity / absence of zero divisors /
inverses follow from the table facts of `RsBase` (log∘exp, exp∘log, period 255), distributivity from
`logMultiply = clmulMod` (the 65,536-case enumeration) and the xor-linearity of `clmulMod` in its
second operand, which is structural.
-/

namespace Dmr.Rs
open Dmr Dmr.Gen

theorem nxor (a b : Nat) : Nat.xor a b = a ^^^ b := rfl
theorem nmul (a b : Nat) : Nat.mul a b = a * b := rfl
theorem nshl (a b : Nat) : Nat.shiftLeft a b = a <<< b := rfl
theorem nshr (a b : Nat) : Nat.shiftRight a b = a >>> b := rfl
theorem nland (a b : Nat) : Nat.land a b = a &&& b := rfl

/-! ### `logMultiply` from the table facts -/

theorem logMultiply_zero_left (b : Nat) : logMultiply 0 b = 0 := by simp [logMultiply]
theorem logMultiply_zero_right (a : Nat) : logMultiply a 0 = 0 := by simp [logMultiply]

theorem logMultiply_lt (a b : Nat) : logMultiply a b < 256 := by
  unfold logMultiply
  split
  · omega
  · exact exp_lt _

theorem logMultiply_comm (a b : Nat) : logMultiply a b = logMultiply b a := by
  unfold logMultiply
  rw [Nat.add_comm (logAt a)]
  simp only [Or.comm]

theorem exp_mod (k : Nat) (hk : k < 509) : expAt k = expAt (k % 255) := by
  by_cases h : k < 255
  · rw [Nat.mod_eq_of_lt h]
  · have h1 : k = (k - 255) + 255 := by omega
    have h2 : k % 255 = k - 255 := by omega
    rw [h2]; conv => lhs; rw [h1]
    exact (exp_facts (k - 255) (by omega)).1 (by omega)

theorem exp_pos (k : Nat) (hk : k < 509) : 1 ≤ expAt k := by
  rw [exp_mod k hk]; exact (exp_facts _ (Nat.mod_lt _ (by omega))).2.1

theorem log_exp (k : Nat) (hk : k < 509) : logAt (expAt k) = k % 255 := by
  rw [exp_mod k hk]; exact (exp_facts _ (Nat.mod_lt _ (by omega))).2.2

/-- product of two non-zero octets, as an exponent -/
theorem logMultiply_ne (a b : Nat) (ha0 : a ≠ 0) (hb0 : b ≠ 0) :
    logMultiply a b = expAt (logAt a + logAt b) := by
  unfold logMultiply; rw [if_neg (by simp [ha0, hb0])]

theorem logMultiply_eq_zero (a b : Nat) (ha : a < 256) (hb : b < 256) (h : logMultiply a b = 0) :
    a = 0 ∨ b = 0 := by
  by_cases ha0 : a = 0
  · exact Or.inl ha0
  by_cases hb0 : b = 0
  · exact Or.inr hb0
  exfalso
  rw [logMultiply_ne a b ha0 hb0] at h
  have := exp_pos (logAt a + logAt b)
    (by have := (log_facts a ha0 ha).1; have := (log_facts b hb0 hb).1; omega)
  omega

theorem log_one : logAt 1 = 0 := by decide +kernel

theorem logMultiply_one (a : Nat) (ha : a < 256) : logMultiply a 1 = a := by
  by_cases ha0 : a = 0
  · subst ha0; exact logMultiply_zero_left 1
  · rw [logMultiply_ne a 1 ha0 (by omega), log_one, Nat.add_zero]
    exact (log_facts a ha0 ha).2

theorem logMultiply_assoc (a b c : Nat) (ha : a < 256) (hb : b < 256) (hc : c < 256) :
    logMultiply (logMultiply a b) c = logMultiply a (logMultiply b c) := by
  by_cases ha0 : a = 0
  · subst ha0; simp [logMultiply_zero_left]
  by_cases hb0 : b = 0
  · subst hb0; simp [logMultiply_zero_left, logMultiply_zero_right]
  by_cases hc0 : c = 0
  · subst hc0; simp [logMultiply_zero_right]
  have la := (log_facts a ha0 ha).1
  have lb := (log_facts b hb0 hb).1
  have lc := (log_facts c hc0 hc).1
  have hab : logMultiply a b ≠ 0 := fun h => by
    rcases logMultiply_eq_zero a b ha hb h with h | h <;> contradiction
  have hbc : logMultiply b c ≠ 0 := fun h => by
    rcases logMultiply_eq_zero b c hb hc h with h | h <;> contradiction
  rw [logMultiply_ne _ c hab hc0, logMultiply_ne a _ ha0 hbc, logMultiply_ne a b ha0 hb0,
    logMultiply_ne b c hb0 hc0, log_exp _ (by omega), log_exp _ (by omega),
    exp_mod ((logAt a + logAt b) % 255 + logAt c) (by omega),
    exp_mod (logAt a + (logAt b + logAt c) % 255) (by omega)]
  congr 1
  omega

/-- the inverse of a non-zero octet: α^(255 - log a) -/
def inv (a : Nat) : Nat := if a = 0 then 0 else expAt (255 - logAt a)

theorem inv_lt (a : Nat) : inv a < 256 := by
  unfold inv; split
  · omega
  · exact exp_lt _

theorem exp_zero : expAt 0 = 1 := by decide +kernel

theorem logMultiply_inv (a : Nat) (ha0 : a ≠ 0) (ha : a < 256) : logMultiply a (inv a) = 1 := by
  have la := (log_facts a ha0 ha).1
  have hi : inv a ≠ 0 := by
    unfold inv; rw [if_neg ha0]
    have := exp_pos (255 - logAt a) (by omega); omega
  rw [logMultiply_ne a _ ha0 hi]
  unfold inv; rw [if_neg ha0, log_exp _ (by omega), exp_mod _ (by omega)]
  have : (logAt a + (255 - logAt a) % 255) % 255 = 0 := by omega
  rw [this, exp_zero]

/-! ### xor-linearity of the reference multiplication in its second operand -/

theorem bitAt_eq (x j : Nat) : bitAt x j = (x.testBit j).toNat := by
  unfold bitAt
  rw [nland, nshr, Nat.and_one_is_mod, Nat.testBit, Nat.one_and_eq_mod_two]
  rcases Nat.mod_two_eq_zero_or_one (x >>> j) with h | h <;> simp [h]

theorem bitAt_mul (x j M : Nat) : Nat.mul (bitAt x j) M = if x.testBit j then M else 0 := by
  rw [bitAt_eq, nmul]; cases x.testBit j <;> simp

theorem xor_xor_xor_comm' (a b c d : Nat) : (a ^^^ b) ^^^ (c ^^^ d) = (a ^^^ c) ^^^ (b ^^^ d) := by
  apply Nat.eq_of_testBit_eq; intro i
  simp only [Nat.testBit_xor]
  cases a.testBit i <;> cases b.testBit i <;> cases c.testBit i <;> cases d.testBit i <;> rfl

theorem clmulAux_xor (k a b c : Nat) :
    clmulAux k a (b ^^^ c) = clmulAux k a b ^^^ clmulAux k a c := by
  induction k with
  | zero => simp [clmulAux]
  | succ k ih =>
    simp only [clmulAux, ih, bitAt_mul, nxor, nshl, Nat.shiftLeft_xor_distrib]
    rw [xor_xor_xor_comm']
    congr 1
    split <;> simp

theorem reduceAux_xor (m k p q : Nat) :
    reduceAux m k (p ^^^ q) = reduceAux m k p ^^^ reduceAux m k q := by
  induction k generalizing p q with
  | zero => simp [reduceAux]
  | succ k ih =>
    simp only [reduceAux, bitAt_mul, nxor, nshl]
    rw [← ih]
    congr 1
    rw [Nat.testBit_xor, xor_xor_xor_comm']
    congr 1
    cases p.testBit (k + 8) <;> cases q.testBit (k + 8) <;> simp

theorem clmulMod_xor (m a b c : Nat) :
    clmulMod m a (b ^^^ c) = clmulMod m a b ^^^ clmulMod m a c := by
  unfold clmulMod clmul
  rw [clmulAux_xor, reduceAux_xor]

theorem xor_lt_256 {a b : Nat} (ha : a < 256) (hb : b < 256) : a ^^^ b < 256 :=
  Nat.xor_lt_two_pow (n := 8) ha hb

theorem logMultiply_xor (a b c : Nat) (ha : a < 256) (hb : b < 256) (hc : c < 256) :
    logMultiply a (b ^^^ c) = logMultiply a b ^^^ logMultiply a c := by
  rw [logMultiply_eq_clmulMod a _ ha (xor_lt_256 hb hc), logMultiply_eq_clmulMod a b ha hb,
    logMultiply_eq_clmulMod a c ha hc, clmulMod_xor]

end Dmr.Rs
