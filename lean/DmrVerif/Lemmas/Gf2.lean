import DmrVerif.Model.Codes

/-!
GF(2) linear-algebra toolkit over `List Bool`: `dot`, `unit`, `xorBits`, `gather`, `allBits`.
Core Lean only.
-/

namespace Dmr

@[simp] theorem zeros_zero : zeros 0 = [] := rfl
@[simp] theorem zeros_succ (n : Nat) : zeros (n + 1) = false :: zeros n := by simp [zeros, List.replicate_succ]
@[simp] theorem xorBits_nil_left (b : Bits) : xorBits [] b = [] := by simp [xorBits]
@[simp] theorem xorBits_nil_right (a : Bits) : xorBits a [] = [] := by simp [xorBits]
@[simp] theorem xorBits_cons_cons (x y : Bool) (a b : Bits) :
    xorBits (x :: a) (y :: b) = Bool.xor x y :: xorBits a b := by simp [xorBits]
@[simp] theorem zeros_length (n : Nat) : (zeros n).length = n := by simp [zeros]
@[simp] theorem unit_length (n i : Nat) : (unit n i).length = n := by
  induction n generalizing i with
  | zero => simp [unit]
  | succ n ih => cases i <;> simp [unit, ih]

@[simp] theorem xorBits_length (a b : Bits) : (xorBits a b).length = min a.length b.length := by
  simp [xorBits]

@[simp] theorem dot_nil_left (b : Bits) : dot [] b = false := by simp [dot]
@[simp] theorem dot_nil_right (a : Bits) : dot a [] = false := by cases a <;> simp [dot]
@[simp] theorem dot_cons (a b : Bool) (as bs : Bits) :
    dot (a :: as) (b :: bs) = Bool.xor (a && b) (dot as bs) := by simp [dot]

theorem dot_comm (a b : Bits) : dot a b = dot b a := by
  induction a generalizing b with
  | nil => simp
  | cons x xs ih => cases b with
    | nil => simp
    | cons y ys => simp [ih ys, Bool.and_comm]

@[simp] theorem dot_zeros_right (a : Bits) (n : Nat) : dot a (zeros n) = false := by
  induction a generalizing n with
  | nil => simp
  | cons x xs ih => cases n with
    | zero => simp
    | succ n => simp [ih n]

@[simp] theorem dot_zeros_left (a : Bits) (n : Nat) : dot (zeros n) a = false := by
  rw [dot_comm]; simp

theorem dot_append (a b c d : Bits) (h : a.length = c.length) :
    dot (a ++ b) (c ++ d) = Bool.xor (dot a c) (dot b d) := by
  induction a generalizing c with
  | nil => cases c with
    | nil => simp
    | cons _ _ => simp at h
  | cons x xs ih => cases c with
    | nil => simp at h
    | cons y ys =>
      simp only [List.length_cons, Nat.add_right_cancel_iff] at h
      simp [ih ys h]

theorem getBit_cons_succ (x : Bool) (xs : Bits) (i : Nat) : getBit (x :: xs) (i + 1) = getBit xs i := by
  simp [getBit]

@[simp] theorem getBit_cons_zero (x : Bool) (xs : Bits) : getBit (x :: xs) 0 = x := by
  simp [getBit]

@[simp] theorem getBit_nil (i : Nat) : getBit [] i = false := by simp [getBit]

theorem getBit_eq_getElem (a : Bits) (i : Nat) (h : i < a.length) : getBit a i = a[i] := by
  simp [getBit, List.getD_eq_getElem?_getD, h]

theorem getBit_of_le (a : Bits) (i : Nat) (h : a.length ≤ i) : getBit a i = false := by
  simp [getBit, List.getD_eq_getElem?_getD, List.getElem?_eq_none h]

/-- `dot a eᵢ = a[i]` -/
theorem dot_unit (a : Bits) (n i : Nat) (hi : i < n) : dot a (unit n i) = getBit a i := by
  induction n generalizing a i with
  | zero => omega
  | succ n ih => cases a with
    | nil => simp
    | cons x xs => cases i with
      | zero => simp [unit]
      | succ i => simp [unit, getBit_cons_succ, ih xs i (by omega)]

theorem dot_unit_left (a : Bits) (n i : Nat) (hi : i < n) : dot (unit n i) a = getBit a i := by
  rw [dot_comm]; exact dot_unit a n i hi

theorem getBit_append_left (a b : Bits) (i : Nat) (h : i < a.length) : getBit (a ++ b) i = getBit a i := by
  simp [getBit, List.getD_eq_getElem?_getD, List.getElem?_append_left h]

theorem getBit_append_right (a b : Bits) (i : Nat) : getBit (a ++ b) (a.length + i) = getBit b i := by
  simp [getBit, List.getD_eq_getElem?_getD, List.getElem?_append_right]

/-- linearity of `dot` in its first argument -/
theorem dot_xor_left (a b c : Bits) (h : a.length = b.length) :
    dot (xorBits a b) c = Bool.xor (dot a c) (dot b c) := by
  induction a generalizing b c with
  | nil => cases b with
    | nil => simp [xorBits]
    | cons _ _ => simp at h
  | cons x xs ih => cases b with
    | nil => simp at h
    | cons y ys =>
      simp only [List.length_cons, Nat.add_right_cancel_iff] at h
      cases c with
      | nil => simp
      | cons z zs =>
        simp only [xorBits_cons_cons, dot_cons, ih ys zs h]
        cases x <;> cases y <;> cases z <;> cases dot xs zs <;> cases dot ys zs <;> rfl

theorem dot_xor_right (a b c : Bits) (h : b.length = c.length) :
    dot a (xorBits b c) = Bool.xor (dot a b) (dot a c) := by
  rw [dot_comm, dot_xor_left _ _ _ h, dot_comm b, dot_comm c]

/-! ### xorBits algebra -/

theorem xorBits_self (a : Bits) : xorBits a a = zeros a.length := by
  induction a with
  | nil => simp
  | cons x xs ih => simp [ih]

theorem xorBits_zeros_right (a : Bits) : xorBits a (zeros a.length) = a := by
  induction a with
  | nil => simp
  | cons x xs ih => simp [ih]

theorem xorBits_zeros_right' (a : Bits) (n : Nat) (h : a.length = n) : xorBits a (zeros n) = a := by
  rw [← h]; exact xorBits_zeros_right a

theorem xorBits_comm (a b : Bits) : xorBits a b = xorBits b a := by
  induction a generalizing b with
  | nil => simp
  | cons x xs ih => cases b with
    | nil => simp
    | cons y ys => simp [ih ys, Bool.xor_comm]

theorem xorBits_zeros_left (a : Bits) (n : Nat) (h : a.length = n) : xorBits (zeros n) a = a := by
  rw [xorBits_comm]; exact xorBits_zeros_right' a n h

@[simp] theorem getBit_zeros (n i : Nat) : getBit (zeros n) i = false := by
  simp only [getBit, zeros, List.getD_eq_getElem?_getD]
  by_cases h : i < n <;> simp [h]

theorem xorBits_assoc (a b c : Bits) : xorBits (xorBits a b) c = xorBits a (xorBits b c) := by
  induction a generalizing b c with
  | nil => simp
  | cons x xs ih => cases b with
    | nil => simp
    | cons y ys => cases c with
      | nil => simp
      | cons z zs => simp [ih ys zs]

/-- `(a ⊕ b) ⊕ b = a` -/
theorem xorBits_cancel_right (a b : Bits) (h : a.length = b.length) : xorBits (xorBits a b) b = a := by
  rw [xorBits_assoc, xorBits_self, ← h, xorBits_zeros_right]

theorem xorBits_eq_zeros_iff (a b : Bits) (h : a.length = b.length) :
    xorBits a b = zeros a.length ↔ a = b := by
  induction a generalizing b with
  | nil => cases b with
    | nil => simp
    | cons _ _ => simp at h
  | cons x xs ih => cases b with
    | nil => simp at h
    | cons y ys =>
      simp only [List.length_cons, Nat.add_right_cancel_iff] at h
      simp only [xorBits_cons_cons, List.length_cons, zeros_succ, List.cons.injEq, ih ys h]
      cases x <;> cases y <;> simp

theorem xorBits_append (a b c d : Bits) (h : a.length = c.length) :
    xorBits (a ++ b) (c ++ d) = xorBits a c ++ xorBits b d := by
  simp [xorBits, List.zipWith_append h]

theorem getBit_xorBits (a b : Bits) (i : Nat) (h : a.length = b.length) :
    getBit (xorBits a b) i = Bool.xor (getBit a i) (getBit b i) := by
  induction a generalizing b i with
  | nil => cases b with
    | nil => simp
    | cons _ _ => simp at h
  | cons x xs ih => cases b with
    | nil => simp at h
    | cons y ys =>
      simp only [List.length_cons, Nat.add_right_cancel_iff] at h
      cases i with
      | zero => simp
      | succ i => simp [getBit_cons_succ, ih ys i h]

/-- gathers are XOR-homomorphisms -/
theorem gather_xor (tbl : List Nat) (a b : Bits) (h : a.length = b.length) :
    gather tbl (xorBits a b) = xorBits (gather tbl a) (gather tbl b) := by
  induction tbl with
  | nil => simp [gather]
  | cons t ts ih =>
    simp only [gather] at ih
    simp [gather, getBit_xorBits a b t h, ih]

@[simp] theorem gather_length (tbl : List Nat) (a : Bits) : (gather tbl a).length = tbl.length := by
  simp [gather]

/-! ### flipping a bit is xor with a unit vector -/

theorem flipAt_eq_xor_unit (a : Bits) (i : Nat) (hi : i < a.length) :
    flipAt i a = xorBits a (unit a.length i) := by
  induction a generalizing i with
  | nil => simp at hi
  | cons x xs ih => cases i with
    | zero => simp [flipAt, unit, xorBits_zeros_right]
    | succ i =>
      have := ih i (by simpa using hi)
      simp only [flipAt] at this
      simp [flipAt, unit, this]

@[simp] theorem flipAt_length (a : Bits) (i : Nat) : (flipAt i a).length = a.length := by
  simp [flipAt]

theorem flipAt_flipAt (a : Bits) (i : Nat) : flipAt i (flipAt i a) = a := by
  induction a generalizing i with
  | nil => simp [flipAt]
  | cons x xs ih => cases i with
    | zero => simp [flipAt]
    | succ i => have := ih i; simp only [flipAt] at this; simp [flipAt, this]

/-! ### enumeration of all bit strings of a given length -/

theorem mem_allBits (m : Bits) : m ∈ allBits m.length := by
  induction m with
  | nil => simp [allBits]
  | cons x xs ih =>
    simp only [List.length_cons, allBits, List.mem_flatMap]
    exact ⟨xs, ih, by cases x <;> simp⟩

theorem forall_bits_of_all (n : Nat) (p : Bits → Bool) (h : (allBits n).all p = true)
    (m : Bits) (hm : m.length = n) : p m = true := by
  rw [List.all_eq_true] at h
  exact h m (hm ▸ mem_allBits m)

theorem weight_zeros (n : Nat) : weight (zeros n) = 0 := by
  simp [weight, zeros]

end Dmr
