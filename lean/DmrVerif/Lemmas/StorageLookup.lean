import DmrVerif.Lemmas.Storage
import DmrVerif.Model.StorageOpaque

/-!
# Lookups do not depend on dynamic attributes (C20, hardening round 4)

`match_incoming`, `match_attr`, `match_ip_incoming`, `match_uuid`, `save`, `Repeater.patch` look at data
members only (`address_in`, `id`, the member named by `match_attr`).  Whatever dynamic attributes the
records carry — whatever their **names** (`"disabled"`, `"enabled"`, any string literal a later version
of the code may know) and whatever their values (truthy, falsy, containers) — the answer of every such
call and the dictionary afterwards are the same.

`SameCore s s'`: the two states have the same dictionary and, object by object, the same data members;
the dynamic attributes are arbitrary on both sides.  `step` preserves the relation for *every*
operation and answers alike for every operation that does not read a dynamic attribute back
(`attr(k)` / `delete_attr(k)` answer with what is stored under `k`, of course).
-/

namespace Dmr.Storage

local macro "fin" : tactic => `(tactic| first | rfl | trivial | simp)

/-- the record without its dynamic attributes -/
def Rec.core (r : Rec) : Rec := { r with attrs := [] }

@[simp] theorem Rec.core_get (r : Rec) (f : Field) : r.core.get f = r.get f := by cases f <;> rfl

theorem Rec.core_set (r : Rec) (f : Field) (v : Val) : (r.set f v).core = r.core.set f v := by
  cases f <;> rfl

theorem Rec.core_setAttr (r : Rec) (k : String) (v : Val) : (r.setAttr k v).core = r.core := rfl

theorem Rec.get_of_core {r r' : Rec} (h : r.core = r'.core) (f : Field) : r.get f = r'.get f := by
  rw [← Rec.core_get r, ← Rec.core_get r', h]

theorem Rec.id_of_core {r r' : Rec} (h : r.core = r'.core) : r.id = r'.id := Rec.get_of_core h .id

theorem Rec.addressIn_of_core {r r' : Rec} (h : r.core = r'.core) : r.addressIn = r'.addressIn :=
  Rec.get_of_core h .addressIn

theorem applyEntry_core {r r' : Rec} (h : r.core = r'.core) (e : Key × Val) :
    (applyEntry r e).core = (applyEntry r' e).core := by
  obtain ⟨k, v⟩ := e
  cases k with
  | field f => simp only [applyEntry, Rec.core_set, h]
  | dyn k =>
    simp only [applyEntry]
    split
    · exact h
    · simp only [Rec.core_setAttr, h]

theorem applyPatch_core (p : Patch) {r r' : Rec} (h : r.core = r'.core) :
    (applyPatch p r).core = (applyPatch p r').core := by
  induction p generalizing r r' with
  | nil => exact h
  | cons e t ih => rw [applyPatch_cons, applyPatch_cons]; exact ih (applyEntry_core h e)

/-- a patch that names dynamic attributes only leaves every data member alone -/
theorem applyPatch_core_dyn (p : Patch) (r : Rec) (hp : ∀ e ∈ p, ∃ k, e.1 = .dyn k) :
    (applyPatch p r).core = r.core := by
  induction p generalizing r with
  | nil => rfl
  | cons e t ih =>
    rw [applyPatch_cons, ih _ (fun e' he' => hp e' (List.mem_cons_of_mem _ he'))]
    obtain ⟨k, hk⟩ := hp e List.mem_cons_self
    obtain ⟨k', v⟩ := e
    simp only at hk
    subst hk
    simp only [applyEntry]
    split
    · rfl
    · rfl

theorem find?_congr' {α : Type} {p q : α → Bool} {l : List α} (h : ∀ x ∈ l, p x = q x) :
    l.find? p = l.find? q := by
  induction l with
  | nil => rfl
  | cons a t ih =>
    simp only [List.find?_cons, h a List.mem_cons_self]
    rw [ih (fun x hx => h x (List.mem_cons_of_mem _ hx))]

/-- same dictionary, same data members object by object; dynamic attributes arbitrary -/
structure SameCore (s s' : Store) : Prop where
  dict : s.dict = s'.dict
  objs : s.objs.map Rec.core = s'.objs.map Rec.core

namespace SameCore
variable {s s' : Store}

theorem rfl' (s : Store) : SameCore s s := ⟨rfl, rfl⟩

theorem symm (h : SameCore s s') : SameCore s' s := ⟨h.dict.symm, h.objs.symm⟩

theorem trans {s'' : Store} (h : SameCore s s') (h' : SameCore s' s'') : SameCore s s'' :=
  ⟨h.dict.trans h'.dict, h.objs.trans h'.objs⟩

theorem set_self_of_getElem? {α : Type} {l : List α} {i : Nat} {a : α} (h : l[i]? = some a) : l.set i a = l := by
  apply List.ext_getElem?
  intro j
  by_cases hij : i = j
  · subst hij; rw [List.getElem?_set_self (getElem?_lt_of_some h)]; exact h.symm
  · rw [List.getElem?_set_ne hij]

/-- replacing an object by one with the same data members -/
theorem set_left (s : Store) (i : Nat) {r x : Rec} (hr : s.objs[i]? = some r) (hc : x.core = r.core) :
    SameCore { s with objs := s.objs.set i x } s := by
  refine ⟨rfl, ?_⟩
  simp only [List.map_set, hc]
  exact set_self_of_getElem? (by rw [List.getElem?_map, hr]; rfl)

theorem length (h : SameCore s s') : s.objs.length = s'.objs.length := by
  have := congrArg List.length h.objs
  simpa using this

theorem refs (h : SameCore s s') : s.refs = s'.refs := by simp only [Store.refs, h.dict]

theorem cases (h : SameCore s s') (i : Nat) :
    (s.objs[i]? = Option.none ∧ s'.objs[i]? = Option.none) ∨
    ∃ r r', s.objs[i]? = some r ∧ s'.objs[i]? = some r' ∧ r.core = r'.core := by
  have e : (s.objs[i]?).map Rec.core = (s'.objs[i]?).map Rec.core := by
    rw [← List.getElem?_map, ← List.getElem?_map, h.objs]
  cases h1 : s.objs[i]? with
  | none =>
    cases h2 : s'.objs[i]? with
    | none => exact Or.inl ⟨rfl, rfl⟩
    | some r' => rw [h1, h2] at e; cases e
  | some r =>
    cases h2 : s'.objs[i]? with
    | none => rw [h1, h2] at e; cases e
    | some r' =>
      rw [h1, h2] at e
      exact Or.inr ⟨r, r', rfl, rfl, by simpa using e⟩

theorem set (h : SameCore s s') (i : Nat) {r r' : Rec} (hc : r.core = r'.core) (d : List (Val × Nat)) :
    SameCore { objs := s.objs.set i r, dict := d } { objs := s'.objs.set i r', dict := d } :=
  ⟨rfl, by simp only [List.map_set, h.objs, hc]⟩

theorem first (h : SameCore s s') (p : Rec → Bool) (hp : ∀ r r', r.core = r'.core → p r = p r') :
    s.first p = s'.first p := by
  unfold Store.first
  rw [h.refs]
  apply find?_congr'
  intro i _
  rcases h.cases i with ⟨h1, h2⟩ | ⟨r, r', h1, h2, hc⟩
  · rw [h1, h2]
  · rw [h1, h2]; exact hp r r' hc

theorem firstAddr (h : SameCore s s') (a : Val) :
    s.first (fun r => r.addressIn == a) = s'.first (fun r => r.addressIn == a) :=
  h.first _ (fun r r' hc => by simp only [Rec.addressIn_of_core hc])

theorem save (h : SameCore s s') (rpt : Option Nat) (p : Patch) :
    SameCore (s.save rpt p).1 (s'.save rpt p).1 ∧ (s.save rpt p).2 = (s'.save rpt p).2 := by
  unfold Store.save
  cases hp : p.isEmpty with
  | true => simp only [if_true]; exact ⟨h, by fin⟩
  | false =>
    simp only [Bool.false_eq_true, if_false]
    cases rpt with
    | none => exact ⟨h, by fin⟩
    | some i =>
      rcases h.cases i with ⟨h1, h2⟩ | ⟨r, r', h1, h2, hc⟩
      · simp only [h1, h2]; exact ⟨h, by fin⟩
      · simp only [h1, h2, Rec.id_of_core hc, h.dict]
        exact ⟨h.set i (applyPatch_core p hc) _, by fin⟩

theorem create (h : SameCore s s') (a : Val) :
    SameCore (s.create a).1 (s'.create a).1 ∧ (s.create a).2 = (s'.create a).2 := by
  unfold Store.create
  simp only [h.length, h.dict]
  exact ⟨⟨rfl, by simp only [List.map_append, h.objs]⟩, by fin⟩

theorem matchIncoming (h : SameCore s s') (a : Val) (au : Bool) (p : Patch) :
    SameCore (s.matchIncoming a au p).1 (s'.matchIncoming a au p).1 ∧
    (s.matchIncoming a au p).2 = (s'.matchIncoming a au p).2 := by
  unfold Store.matchIncoming
  rw [h.firstAddr a]
  cases s'.first (fun r => r.addressIn == a) with
  | some i => exact h.save (some i) p
  | none =>
    cases au with
    | false => exact h.save Option.none p
    | true =>
      simp only [if_true]
      have hc := h.create a
      rw [hc.2]
      exact hc.1.save _ p

theorem patchBad (h : SameCore s s') (i : Nat) (pre : Patch) (e : Err) :
    SameCore (s.patchBad i pre e).1 (s'.patchBad i pre e).1 ∧ (s.patchBad i pre e).2 = (s'.patchBad i pre e).2 := by
  unfold Store.patchBad
  rcases h.cases i with ⟨h1, h2⟩ | ⟨r, r', h1, h2, hc⟩
  · simp only [h1, h2]; exact ⟨h, by fin⟩
  · simp only [h1, h2]
    exact ⟨⟨h.dict, by simp only [List.map_set, h.objs, applyPatch_core pre hc]⟩, by fin⟩

theorem saveBad (h : SameCore s s') (rpt : Option Nat) (pre : Patch) (e : Err) :
    SameCore (s.saveBad rpt pre e).1 (s'.saveBad rpt pre e).1 ∧ (s.saveBad rpt pre e).2 = (s'.saveBad rpt pre e).2 := by
  unfold Store.saveBad
  cases rpt with
  | none => exact ⟨h, by fin⟩
  | some i => exact h.patchBad i pre e

theorem matchIncomingBad (h : SameCore s s') (a : Val) (au : Bool) (pre : Patch) (e : Err) :
    SameCore (s.matchIncomingBad a au pre e).1 (s'.matchIncomingBad a au pre e).1 ∧
    (s.matchIncomingBad a au pre e).2 = (s'.matchIncomingBad a au pre e).2 := by
  unfold Store.matchIncomingBad
  rw [h.firstAddr a]
  cases s'.first (fun r => r.addressIn == a) with
  | some i => exact h.saveBad (some i) pre e
  | none =>
    cases au with
    | false => exact h.saveBad Option.none pre e
    | true =>
      simp only [if_true]
      have hc := h.create a
      rw [hc.2]
      exact hc.1.saveBad _ pre e

theorem matchAttr (h : SameCore s s') (n : AttrName) (v : Val) : s.matchAttr n v = s'.matchAttr n v := by
  unfold Store.matchAttr
  cases n with
  | unknown => simp only [h.dict]
  | bad => simp only [h.dict]
  | field f => simp only; rw [h.first _ (fun r r' hc => by simp only [Rec.get_of_core hc f])]

theorem matchIpLoop (h : SameCore s s') (ip : List Nat) (l : List Nat) (found : Option Nat) :
    matchIpLoop s.objs ip l found = Dmr.Storage.matchIpLoop s'.objs ip l found := by
  induction l generalizing found with
  | nil => rfl
  | cons i t ih =>
    unfold Dmr.Storage.matchIpLoop
    rcases h.cases i with ⟨h1, h2⟩ | ⟨r, r', h1, h2, hc⟩
    · simp only [h1, h2]; exact ih found
    · simp only [h1, h2, Rec.addressIn_of_core hc]
      cases ipOf r'.addressIn with
      | error e => rfl
      | ok x => exact ih _

theorem matchIp (h : SameCore s s') (ip : List Nat) : s.matchIp ip = s'.matchIp ip := by
  unfold Store.matchIp
  rw [h.refs]
  exact h.matchIpLoop ip _ _

theorem matchUuid (h : SameCore s s') (v : Val) : s.matchUuid v = s'.matchUuid v := by
  unfold Store.matchUuid
  rw [h.matchAttr]

end SameCore

/-- the operation answers with what is stored under a dynamic attribute name -/
def Op.readsAttr : Op → Bool
  | .attr _ _ v => v == .none
  | .deleteAttr .. => true
  | _ => false

/-- **step_sameCore.** From two states that differ in dynamic attributes only, every operation leads to two such
states again; and every operation but a read / delete of a dynamic attribute answers alike. -/
theorem step_sameCore {s s' : Store} (h : SameCore s s') (op : Op) :
    SameCore (step s op).1 (step s' op).1 ∧ (op.readsAttr = false → (step s op).2 = (step s' op).2) := by
  cases op with
  | matchIncoming a au p => exact ⟨(h.matchIncoming a au p).1, fun _ => (h.matchIncoming a au p).2⟩
  | save rpt p =>
    cases rpt with
    | none => exact ⟨(h.save _ p).1, fun _ => (h.save _ p).2⟩
    | some i =>
      simp only [step, h.length]
      split
      · exact ⟨(h.save _ p).1, fun _ => (h.save _ p).2⟩
      · exact ⟨h, fun _ => by fin⟩
  | matchAttr n v => exact ⟨h, fun _ => h.matchAttr n v⟩
  | matchIpIncoming ip => exact ⟨h, fun _ => h.matchIp ip⟩
  | matchUuid v => exact ⟨h, fun _ => h.matchUuid v⟩
  | attr i k v =>
    simp only [step]
    rcases h.cases i with ⟨h1, h2⟩ | ⟨r, r', h1, h2, hc⟩
    · simp only [h1, h2]; exact ⟨h, fun _ => by fin⟩
    · simp only [h1, h2]
      by_cases hv : v = .none
      · simp only [hv, if_true]
        exact ⟨h, fun hr => by simp [Op.readsAttr] at hr⟩
      · simp only [hv, if_false]
        exact ⟨⟨h.dict, by simp only [List.map_set, h.objs, Rec.core_setAttr, hc]⟩, fun _ => by fin⟩
  | deleteAttr i k =>
    refine ⟨?_, fun hr => by simp [Op.readsAttr] at hr⟩
    simp only [step]
    rcases h.cases i with ⟨h1, h2⟩ | ⟨r, r', h1, h2, hc⟩
    · simp only [h1, h2]; exact h
    · simp only [h1, h2]
      have e1 : ∀ (x : Rec) (a : List (String × Val)), ({ x with attrs := a } : Rec).core = x.core := fun _ _ => rfl
      have l1 := SameCore.set_left s i h1 (e1 r (dictDel r.attrs k))
      have l2 := SameCore.set_left s' i h2 (e1 r' (dictDel r'.attrs k))
      cases hd : dictGet r.attrs k <;> cases hd' : dictGet r'.attrs k
      · exact h
      · exact h.trans l2.symm
      · exact l1.trans h
      · exact (l1.trans h).trans l2.symm
  | patch i p =>
    simp only [step]
    rcases h.cases i with ⟨h1, h2⟩ | ⟨r, r', h1, h2, hc⟩
    · simp only [h1, h2]; exact ⟨h, fun _ => by fin⟩
    · simp only [h1, h2]
      exact ⟨⟨h.dict, by simp only [List.map_set, h.objs, applyPatch_core p hc]⟩, fun _ => by fin⟩
  | matchIncomingBad a au pre e => exact ⟨(h.matchIncomingBad a au pre e).1, fun _ => (h.matchIncomingBad a au pre e).2⟩
  | saveBad rpt pre e => exact ⟨(h.saveBad rpt pre e).1, fun _ => (h.saveBad rpt pre e).2⟩
  | patchBad i pre e => exact ⟨(h.patchBad i pre e).1, fun _ => (h.patchBad i pre e).2⟩

/-- … along whole histories -/
theorem runFrom_sameCore {s s' : Store} (h : SameCore s s') (ops : List Op) :
    SameCore (runFrom s ops).1 (runFrom s' ops).1 := by
  induction ops generalizing s s' with
  | nil => exact h
  | cons op t ih => rw [runFrom_cons, runFrom_cons]; exact ih (step_sameCore h op).1

/-- the answers of a history to the operations that do not read a dynamic attribute back (the others: `none`) -/
def answers (ops : List Op) (res : List Res) : List (Option Res) :=
  List.zipWith (fun op r => if op.readsAttr then Option.none else some r) ops res

theorem runFrom_sameCore_answers {s s' : Store} (h : SameCore s s') (ops : List Op) :
    answers ops (runFrom s ops).2 = answers ops (runFrom s' ops).2 := by
  induction ops generalizing s s' with
  | nil => rfl
  | cons op t ih =>
    rw [runFrom_cons, runFrom_cons]
    simp only [answers, List.zipWith_cons_cons]
    have hs := step_sameCore h op
    have := ih hs.1
    simp only [answers] at this
    rw [this]
    cases hr : op.readsAttr with
    | true => rfl
    | false => simp only [Bool.false_eq_true, if_false, hs.2 hr]

/-- writing a dynamic attribute (`attr(k, v)`, any name, any value) leads to a state with the same dictionary and the
same data members -/
theorem step_attr_sameCore (s : Store) (i : Nat) (k : String) (v : Val) : SameCore (step s (.attr i k v)).1 s := by
  simp only [step]
  cases hr : s.objs[i]? with
  | none => exact SameCore.rfl' s
  | some r =>
    simp only
    split
    · exact SameCore.rfl' s
    · exact SameCore.set_left s i hr (Rec.core_setAttr r k v)

/-- … and so does a `Repeater.patch` / `save` / `match_incoming` patch that names dynamic attributes only, compared
with the same call without a patch entry … for `Repeater.patch`: -/
theorem step_patch_dyn_sameCore (s : Store) (i : Nat) (p : Patch) (hp : ∀ e ∈ p, ∃ k, e.1 = .dyn k) :
    SameCore (step s (.patch i p)).1 s := by
  simp only [step]
  cases hr : s.objs[i]? with
  | none => exact SameCore.rfl' s
  | some r => exact SameCore.set_left s i hr (applyPatch_core_dyn p r hp)

/-! ### container values as opaque immutable values (`Model/StorageOpaque.lean`) -/

/-- two opaque values are equal iff kind and content agree -/
theorem Val.opaque_inj {k k' : Nat} {c c' : List Nat} (h : Val.opaque k c = Val.opaque k' c') : k = k' ∧ c = c' := by
  simp only [Val.opaque, Val.str.injEq, List.cons.injEq] at h
  exact ⟨by omega, h.2⟩

/-- an opaque value is no Python `str` (and, being built with `Val.str`, no other kind of value either) -/
theorem Val.opaque_ne_pystr (k : Nat) (c : List Nat) (v : Val) (hv : v.isPyStr = true) : Val.opaque k c ≠ v := by
  intro h
  subst h
  simp only [Val.opaque, Val.isPyStr, List.all_cons, Bool.and_eq_true, decide_eq_true_eq] at hv
  have := hv.1
  simp only [opaqueBase] at this
  omega

theorem Val.opaque?_opaque (k : Nat) (c : List Nat) : (Val.opaque k c).opaque? = some (k, c) := by
  simp [Val.opaque, Val.opaque?, opaqueBase]

end Dmr.Storage
