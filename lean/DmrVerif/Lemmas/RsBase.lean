import DmrVerif.Model.Rs

/-!
C11 helpers, part 1 (core Lean only): the binary-splitting bounded quantifier used by the kernel
enumerations, the packed form of the two Reed–Solomon tables and the finite facts about the tables
that the algebra in `Lemmas/RsField.lean` starts from.  All finite facts are `decide +kernel`.
-/

namespace Dmr.Rs
open Dmr Dmr.Gen

/-- `p` holds on `[lo, lo + 2^d)`, by binary splitting (cheap for the kernel) -/
def allBin (p : Nat → Bool) : Nat → Nat → Bool
  | 0, lo => p lo
  | d + 1, lo => allBin p d lo && allBin p d (lo + 2 ^ d)

theorem allBin_spec (p : Nat → Bool) (d lo : Nat) (h : allBin p d lo = true) :
    ∀ n, lo ≤ n → n < lo + 2 ^ d → p n = true := by
  induction d generalizing lo with
  | zero =>
    intro n h1 h2
    have : n = lo := by simp at h2; omega
    subst this; exact h
  | succ d ih =>
    intro n h1 h2
    simp only [allBin, Bool.and_eq_true] at h
    by_cases hn : n < lo + 2 ^ d
    · exact ih lo h.1 n h1 hn
    · exact ih (lo + 2 ^ d) h.2 n (by omega) (by rw [Nat.pow_succ] at h2; omega)

theorem nbeq {a b : Nat} : Nat.beq a b = true ↔ a = b :=
  ⟨Nat.eq_of_beq_eq_true, fun h => h ▸ Nat.beq_refl a⟩

theorem nbeq_zero_false {a : Nat} (h : a ≠ 0) : Nat.beq a 0 = false := by
  cases a with
  | zero => exact absurd rfl h
  | succ n => rfl

/-- entry `i` of a table packed 8 bits per entry -/
def lkp (T i : Nat) : Nat := Nat.land (Nat.shiftRight T (Nat.mul 8 i)) 255

theorem lkp_le' (T i : Nat) : lkp T i ≤ 255 := Nat.and_le_right

/-- `logMultiply` on the packed tables, primitive operations only -/
def mulP (a b : Nat) : Nat :=
  cond (Nat.beq a 0 || Nat.beq b 0) 0
    (lkp rsExpPacked (Nat.add (lkp rsLogPacked a) (lkp rsLogPacked b)))

/-- `clmul` with the recursion unrolled (the kernel evaluates this form ten times faster) -/
def clmulU (a b : Nat) : Nat :=
  Nat.xor (Nat.mul (bitAt a 7) (Nat.shiftLeft b 7)) (Nat.xor (Nat.mul (bitAt a 6) (Nat.shiftLeft b 6))
  (Nat.xor (Nat.mul (bitAt a 5) (Nat.shiftLeft b 5)) (Nat.xor (Nat.mul (bitAt a 4) (Nat.shiftLeft b 4))
  (Nat.xor (Nat.mul (bitAt a 3) (Nat.shiftLeft b 3)) (Nat.xor (Nat.mul (bitAt a 2) (Nat.shiftLeft b 2))
  (Nat.xor (Nat.mul (bitAt a 1) (Nat.shiftLeft b 1)) (Nat.xor (Nat.mul (bitAt a 0) (Nat.shiftLeft b 0)) 0)))))))

def red (m k p : Nat) : Nat := Nat.xor p (Nat.mul (bitAt p (k + 8)) (Nat.shiftLeft m k))

def clmulModU (m a b : Nat) : Nat :=
  red m 0 (red m 1 (red m 2 (red m 3 (red m 4 (red m 5 (red m 6 (clmulU a b)))))))

theorem clmulMod_eq_U (m a b : Nat) : clmulMod m a b = clmulModU m a b := rfl

/-- one case of the multiplication enumeration: the pair `(n / 256, n % 256)` -/
def mulCase (n : Nat) : Bool :=
  Nat.beq (mulP (Nat.div n 256) (Nat.mod n 256)) (clmulModU 285 (Nat.div n 256) (Nat.mod n 256))

/-! ### finite facts about the extracted tables -/

/-- a list of octets as one number, entry `i` in bits `8i .. 8i+7` (one linear pass) -/
def packL : List Nat → Nat
  | [] => 0
  | x :: xs => Nat.add x (Nat.mul 256 (packL xs))

def octets : List Nat → Bool
  | [] => true
  | x :: xs => Nat.ble x 255 && octets xs

theorem lkp_packL (l : List Nat) (h : octets l = true) (i : Nat) : lkp (packL l) i = l.getD i 0 := by
  induction l generalizing i with
  | nil =>
    simp only [packL, lkp, List.getD_nil]
    show (0 >>> (8 * i)) &&& 255 = 0
    simp
  | cons x xs ih =>
    simp only [octets, Bool.and_eq_true, Nat.ble_eq] at h
    have hx : x < 256 := by omega
    cases i with
    | zero =>
      simp only [List.getD_cons_zero]
      show ((x + 256 * packL xs) >>> (8 * 0)) &&& 255 = x
      rw [Nat.mul_zero, Nat.shiftRight_zero, show (255 : Nat) = 2 ^ 8 - 1 from rfl,
        Nat.and_two_pow_sub_one_eq_mod]
      omega
    | succ i =>
      simp only [List.getD_cons_succ]
      rw [← ih h.2 i]
      show ((x + 256 * packL xs) >>> (8 * (i + 1))) &&& 255 = (packL xs >>> (8 * i)) &&& 255
      rw [show 8 * (i + 1) = 8 + 8 * i by omega, Nat.shiftRight_add, Nat.shiftRight_eq_div_pow _ 8]
      congr 2
      omega

/-- the packed tables are the lists -/
def packedOk : Bool :=
  octets rsExp && octets rsLog && Nat.beq (packL rsExp) rsExpPacked && Nat.beq (packL rsLog) rsLogPacked

theorem packed_ok : packedOk = true := by decide +kernel

theorem lkp_exp (i : Nat) : lkp rsExpPacked i = expAt i := by
  have hp := packed_ok
  simp only [packedOk, Bool.and_eq_true, nbeq] at hp
  rw [← hp.1.2, lkp_packL _ hp.1.1.1]; rfl

theorem lkp_log (a : Nat) : lkp rsLogPacked a = logAt a := by
  have hp := packed_ok
  simp only [packedOk, Bool.and_eq_true, nbeq] at hp
  rw [← hp.2, lkp_packL _ hp.1.1.2]; rfl

/-- sizes; logarithms of non-zero octets are `≤ 254` and inverted by the exponent table; the
exponent table has period 255 on the indices the code can reach (`≤ 508`; the entries 509 … 511 are
never read and nothing is required of them), holds non-zero octets there, and is inverted by the
logarithm table on one period (evaluated on the packed tables) -/
def tablesOk : Bool :=
  Nat.beq rsExp.length 512 && Nat.beq rsLog.length 256 &&
  allBin (fun a => Nat.beq a 0 ||
    (Nat.ble (lkp rsLogPacked a) 254 && Nat.beq (lkp rsExpPacked (lkp rsLogPacked a)) a)) 8 0 &&
  allBin (fun k => Nat.beq k 255 ||
    ((Nat.ble 254 k || Nat.beq (lkp rsExpPacked (Nat.add k 255)) (lkp rsExpPacked k)) &&
      Nat.ble 1 (lkp rsExpPacked k) && Nat.beq (lkp rsLogPacked (lkp rsExpPacked k)) k)) 8 0

theorem tables_ok : tablesOk = true := by decide +kernel

theorem exp_length : rsExp.length = 512 := by
  have h := tables_ok
  simp only [tablesOk, Bool.and_eq_true, nbeq] at h
  exact h.1.1.1

theorem log_length : rsLog.length = 256 := by
  have h := tables_ok
  simp only [tablesOk, Bool.and_eq_true, nbeq] at h
  exact h.1.1.2

theorem log_facts (a : Nat) (h0 : a ≠ 0) (ha : a < 256) : logAt a ≤ 254 ∧ expAt (logAt a) = a := by
  have h := tables_ok
  simp only [tablesOk, Bool.and_eq_true] at h
  have := allBin_spec _ _ _ h.1.2 a (Nat.zero_le _) (by simpa using ha)
  simp only [Bool.or_eq_true, Bool.and_eq_true, nbeq, Nat.ble_eq, lkp_exp, lkp_log] at this
  rcases this with h | h
  · exact absurd h h0
  · exact h

theorem exp_lt (k : Nat) : expAt k < 256 := by
  have := lkp_le' rsExpPacked k
  rw [lkp_exp] at this; omega

theorem exp_facts (k : Nat) (hk : k < 255) :
    (k < 254 → expAt (k + 255) = expAt k) ∧ 1 ≤ expAt k ∧ logAt (expAt k) = k := by
  have h := tables_ok
  simp only [tablesOk, Bool.and_eq_true] at h
  have := allBin_spec _ _ _ h.2 k (Nat.zero_le _) (by simp; omega)
  simp only [Bool.or_eq_true, Bool.and_eq_true, nbeq, Nat.ble_eq, lkp_exp, lkp_log] at this
  rcases this with h | h
  · omega
  · refine ⟨fun hk' => ?_, h.1.2, h.2⟩
    rcases h.1.1 with h' | h'
    · omega
    · exact h'

theorem mulP_eq (a b : Nat) : mulP a b = logMultiply a b := by
  unfold mulP logMultiply
  by_cases h : a = 0 ∨ b = 0
  · rcases h with h | h <;> simp [h]
  · have h' : (Nat.beq a 0 || Nat.beq b 0) = false := by
      simp only [not_or] at h
      rw [nbeq_zero_false h.1, nbeq_zero_false h.2]; rfl
    rw [h', if_neg h, cond_false]
    have h1 := lkp_le' rsLogPacked a
    have h2 := lkp_le' rsLogPacked b
    rw [lkp_exp, lkp_log a, lkp_log b]
    rfl

/-- what one enumerated case says -/
theorem mulCase_spec (a b : Nat) (_ha : a < 256) (hb : b < 256) (h : mulCase (256 * a + b) = true) :
    logMultiply a b = clmulMod fieldPoly a b := by
  have h1 : Nat.div (256 * a + b) 256 = a := by show (256 * a + b) / 256 = a; omega
  have h2 : Nat.mod (256 * a + b) 256 = b := by show (256 * a + b) % 256 = b; omega
  simp only [mulCase, h1, h2] at h
  rw [← mulP_eq a b, Nat.eq_of_beq_eq_true h, clmulMod_eq_U]
  rfl

end Dmr.Rs
