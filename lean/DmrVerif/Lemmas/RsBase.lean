import DmrVerif.Model.Rs

/-!
C11 helpers, part 1 (core Lean only): the binary-splitting bounded quantifier used by the kernel
enumerations, the packed form of the two Reed–Solomon tables and the finite facts about the tables
that the algebra in `Lemmas/RsField.lean` starts from.  All finite facts are `decide +kernel`.
-/

namespace Dmr.Rs
open Dmr Dmr.Gen

/-- `p` holds on `[lo, lo + 2^d)`, by binary splitting (cheap for the kernel) -/
def allBin (p : Nat → Bool) : Nat → Nat → Bool
  | 0, lo => p lo
  | d + 1, lo => allBin p d lo && allBin p d (lo + 2 ^ d)

theorem allBin_spec (p : Nat → Bool) (d lo : Nat) (h : allBin p d lo = true) :
    ∀ n, lo ≤ n → n < lo + 2 ^ d → p n = true := by
  induction d generalizing lo with
  | zero =>
    intro n h1 h2
    have : n = lo := by simp at h2; omega
    subst this; exact h
  | succ d ih =>
    intro n h1 h2
    simp only [allBin, Bool.and_eq_true] at h
    by_cases hn : n < lo + 2 ^ d
    · exact ih lo h.1 n h1 hn
    · exact ih (lo + 2 ^ d) h.2 n (by omega) (by rw [Nat.pow_succ] at h2; omega)

/-- entry `i` of a table packed 8 bits per entry -/
def lkp (T i : Nat) : Nat := Nat.land (Nat.shiftRight T (Nat.mul 8 i)) 255

/-- `logMultiply` on the packed tables, primitive operations only -/
def mulP (a b : Nat) : Nat :=
  cond (Nat.beq a 0 || Nat.beq b 0) 0
    (lkp rsExpPacked (Nat.add (lkp rsLogPacked a) (lkp rsLogPacked b)))

/-- one case of the multiplication enumeration: the pair `(n / 256, n % 256)` -/
def mulCase (n : Nat) : Bool :=
  Nat.beq (mulP (Nat.div n 256) (Nat.mod n 256)) (clmulMod 285 (Nat.div n 256) (Nat.mod n 256))

end Dmr.Rs
