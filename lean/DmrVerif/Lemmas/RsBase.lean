import DmrVerif.Model.Rs

/-!
C11 helpers, part 1 (core Lean only): the binary-splitting bounded quantifier used by the kernel
enumerations, the packed form of the two Reed–Solomon tables and the finite facts about the tables
that the algebra in `Lemmas/RsField.lean` starts from.  All finite facts are `decide +kernel`.
-/

namespace Dmr.Rs
open Dmr Dmr.Gen

/-- `p` holds on `[lo, lo + 2^d)`, by binary splitting (cheap for the kernel) -/
def allBin (p : Nat → Bool) : Nat → Nat → Bool
  | 0, lo => p lo
  | d + 1, lo => allBin p d lo && allBin p d (lo + 2 ^ d)

theorem allBin_spec (p : Nat → Bool) (d lo : Nat) (h : allBin p d lo = true) :
    ∀ n, lo ≤ n → n < lo + 2 ^ d → p n = true := by
  induction d generalizing lo with
  | zero =>
    intro n h1 h2
    have : n = lo := by simp at h2; omega
    subst this; exact h
  | succ d ih =>
    intro n h1 h2
    simp only [allBin, Bool.and_eq_true] at h
    by_cases hn : n < lo + 2 ^ d
    · exact ih lo h.1 n h1 hn
    · exact ih (lo + 2 ^ d) h.2 n (by omega) (by rw [Nat.pow_succ] at h2; omega)

/-- entry `i` of a table packed 8 bits per entry -/
def lkp (T i : Nat) : Nat := Nat.land (Nat.shiftRight T (Nat.mul 8 i)) 255

/-- `logMultiply` on the packed tables, primitive operations only -/
def mulP (a b : Nat) : Nat :=
  cond (Nat.beq a 0 || Nat.beq b 0) 0
    (lkp rsExpPacked (Nat.add (lkp rsLogPacked a) (lkp rsLogPacked b)))

/-- `clmul` with the recursion unrolled (the kernel evaluates this form ten times faster) -/
def clmulU (a b : Nat) : Nat :=
  Nat.xor (Nat.mul (bitAt a 7) (Nat.shiftLeft b 7)) (Nat.xor (Nat.mul (bitAt a 6) (Nat.shiftLeft b 6))
  (Nat.xor (Nat.mul (bitAt a 5) (Nat.shiftLeft b 5)) (Nat.xor (Nat.mul (bitAt a 4) (Nat.shiftLeft b 4))
  (Nat.xor (Nat.mul (bitAt a 3) (Nat.shiftLeft b 3)) (Nat.xor (Nat.mul (bitAt a 2) (Nat.shiftLeft b 2))
  (Nat.xor (Nat.mul (bitAt a 1) (Nat.shiftLeft b 1)) (Nat.xor (Nat.mul (bitAt a 0) (Nat.shiftLeft b 0)) 0)))))))

def red (m k p : Nat) : Nat := Nat.xor p (Nat.mul (bitAt p (k + 8)) (Nat.shiftLeft m k))

def clmulModU (m a b : Nat) : Nat :=
  red m 0 (red m 1 (red m 2 (red m 3 (red m 4 (red m 5 (red m 6 (clmulU a b)))))))

theorem clmulMod_eq_U (m a b : Nat) : clmulMod m a b = clmulModU m a b := rfl

/-- one case of the multiplication enumeration: the pair `(n / 256, n % 256)` -/
def mulCase (n : Nat) : Bool :=
  Nat.beq (mulP (Nat.div n 256) (Nat.mod n 256)) (clmulModU 285 (Nat.div n 256) (Nat.mod n 256))

/-! ### finite facts about the extracted tables -/

/-- the packed tables are the lists -/
def packedOk : Bool :=
  allBin (fun i => Nat.beq (lkp rsExpPacked i) (expAt i)) 9 0 &&
  allBin (fun a => Nat.beq (lkp rsLogPacked a) (logAt a)) 8 0

theorem packed_ok : packedOk = true := by decide +kernel

/-- sizes; logarithms of non-zero octets are `≤ 254` and inverted by the exponent table; the
exponent table has period 255 on the indices the code can reach (`≤ 508`), holds non-zero octets
there, and is inverted by the logarithm table on one period -/
def tablesOk : Bool :=
  Nat.beq rsExp.length 512 && Nat.beq rsLog.length 256 &&
  allBin (fun a => Nat.beq a 0 || (Nat.ble (logAt a) 254 && Nat.beq (expAt (logAt a)) a)) 8 0 &&
  allBin (fun k => Nat.beq k 255 ||
    (Nat.beq (expAt (k + 255)) (expAt k) && Nat.ble 1 (expAt k) && Nat.ble (expAt k) 255 &&
      Nat.beq (logAt (expAt k)) k)) 8 0

theorem tables_ok : tablesOk = true := by decide +kernel

theorem exp_length : rsExp.length = 512 := by
  have h := tables_ok
  simp only [tablesOk, Bool.and_eq_true, Nat.beq_eq_true_eq] at h
  exact h.1.1.1

theorem log_length : rsLog.length = 256 := by
  have h := tables_ok
  simp only [tablesOk, Bool.and_eq_true, Nat.beq_eq_true_eq] at h
  exact h.1.1.2

theorem log_facts (a : Nat) (h0 : a ≠ 0) (ha : a < 256) : logAt a ≤ 254 ∧ expAt (logAt a) = a := by
  have h := tables_ok
  simp only [tablesOk, Bool.and_eq_true] at h
  have := allBin_spec _ _ _ h.1.2 a (Nat.zero_le _) (by simpa using ha)
  simp only [Bool.or_eq_true, Bool.and_eq_true, Nat.beq_eq_true_eq, Nat.ble_eq] at this
  rcases this with h | h
  · exact absurd h h0
  · exact h

theorem exp_facts (k : Nat) (hk : k < 255) :
    expAt (k + 255) = expAt k ∧ 1 ≤ expAt k ∧ expAt k < 256 ∧ logAt (expAt k) = k := by
  have h := tables_ok
  simp only [tablesOk, Bool.and_eq_true] at h
  have := allBin_spec _ _ _ h.2 k (Nat.zero_le _) (by simp; omega)
  simp only [Bool.or_eq_true, Bool.and_eq_true, Nat.beq_eq_true_eq, Nat.ble_eq] at this
  rcases this with h | h
  · omega
  · exact ⟨h.1.1.1, h.1.1.2, by omega, h.2⟩

theorem lkp_le (T i : Nat) : lkp T i ≤ 255 := Nat.and_le_right

theorem lkp_exp (i : Nat) (h : i < 512) : lkp rsExpPacked i = expAt i := by
  have hp := packed_ok
  simp only [packedOk, Bool.and_eq_true] at hp
  have := allBin_spec _ _ _ hp.1 i (Nat.zero_le _) (by simpa using h)
  simpa using this

theorem lkp_log (a : Nat) (h : a < 256) : lkp rsLogPacked a = logAt a := by
  have hp := packed_ok
  simp only [packedOk, Bool.and_eq_true] at hp
  have := allBin_spec _ _ _ hp.2 a (Nat.zero_le _) (by simpa using h)
  simpa using this

theorem mulP_eq (a b : Nat) (ha : a < 256) (hb : b < 256) : mulP a b = logMultiply a b := by
  unfold mulP logMultiply
  by_cases h : a = 0 ∨ b = 0
  · rcases h with h | h <;> simp [h]
  · have h' : (Nat.beq a 0 || Nat.beq b 0) = false := by
      simp only [not_or] at h
      simp [h.1]
    rw [h', if_neg h, cond_false]
    have h1 := lkp_le rsLogPacked a
    have h2 := lkp_le rsLogPacked b
    rw [lkp_exp _ (by show lkp rsLogPacked a + lkp rsLogPacked b < 512; omega), lkp_log a ha, lkp_log b hb]
    rfl

/-- what one enumerated case says -/
theorem mulCase_spec (a b : Nat) (ha : a < 256) (hb : b < 256) (h : mulCase (256 * a + b) = true) :
    logMultiply a b = clmulMod fieldPoly a b := by
  have h1 : Nat.div (256 * a + b) 256 = a := by show (256 * a + b) / 256 = a; omega
  have h2 : Nat.mod (256 * a + b) 256 = b := by show (256 * a + b) % 256 = b; omega
  simp only [mulCase, h1, h2] at h
  rw [← mulP_eq a b ha hb, Nat.eq_of_beq_eq_true h, clmulMod_eq_U]
  rfl

end Dmr.Rs
