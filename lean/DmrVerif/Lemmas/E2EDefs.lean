import DmrVerif.Model.CrcFront
import DmrVerif.Model.Fragment
import DmrVerif.Model.Burst

/-!
# End to end (C07a): definitions that join the generator / tracker models of C07 with the burst model of
C01 and the CRC front ends of C05

Nothing here is a new model of library code except three small, explicitly listed pieces of glue:

* `okOr0`, `rev4`, `crc32c`, `crc9c`, `crc16c`, `crcC`, `crcsC` — the abstract CRC parameters of
  `Fragment.Crc` (C07) and `Dmr.Crcs` (C01 / C03) filled in with the front ends of `Model/CrcFront.lean`
  (`Crc.crc32`, `Crc.crc9`, `Crc.crc16`) and the masks of `Gen/Crc.lean`.  `rev4` is
  `int.from_bytes(v.to_bytes(4, "little"), "big")` (how `generate_data_bursts` turns `CRC32.calculate` into the
  block's `crc32` attribute).  The front ends return `Except`; `okOr0` picks the value — `Lemmas/E2ECrc.lean`
  proves that on every argument that occurs the front end answers `ok`, so the default is never used.
* `payloadAbs`, `absOf` — the abstraction of a parsed burst (`Dmr.Burst`, C01) to the tracker's input symbol
  (`Tracker.AbsBurst`, C08 / C07): what `harness/props/c08.py: alpha` does with a real `Burst` object.  The
  data header accessors `dhA`, `dhBtf`, `dhSap`, `dhPoc`, `dhDst`, `dhSrc` read `is_response_requested`,
  `get_blocks_to_follow()`, `sap_identifier.value`, `pad_octet_count`, `llid_destination`, `llid_source` of a
  `DataHeader` record of C03 (attributes a format does not have keep the constructor default 0, as everywhere
  in `Model/PduDataHeader.lean`).
* `preCsbk`, `toRateData`, `genPayloads` — `Fragment.generate` once more, line by line, but producing the
  payload *objects* of C01 / C03 (`Csbk`, `DataHeader`, `RateData` records) instead of their abstractions;
  the block arithmetic is `Fragment.genBlocks` itself.  `preCsbk` is the constructor call of
  `generate_csbk_preambles` (`last_block=True`, defaults `protect_flag=False`, `StandardizedFID`,
  `csbk_content_follows_preambles=False`, `target_address_is_individual=True`, CRC computed).

Core Lean only.
-/

namespace Dmr.E2E
open Dmr
open Dmr.Tracker (Rate PType AbsBurst DataHdr Terminal Rec Event)
open Dmr.Fragment (GenBlock genBlocks preambleBtfs)

/-! ## the CRC parameters, concretely -/

/-- the value of a front-end call (`Lemmas/E2ECrc.lean`: the calls that occur never raise) -/
def okOr0 : Except CrcErr Nat → Nat
  | .ok v => v
  | .error _ => 0

/-- `int.from_bytes(v.to_bytes(4, "little"), "big")`: the four octets of `v` in reverse order -/
def rev4 (v : Nat) : Nat :=
  v % 256 * 16777216 + v / 256 % 256 * 65536 + v / 65536 % 256 * 256 + v / 16777216 % 256

/-- the block attribute `crc32` for user data `d`:
`int.from_bytes(CRC32.calculate(d).to_bytes(4, "little"), "big")` -/
def crc32c (d : Bytes) : Nat := rev4 (okOr0 (Crc.crc32 d))

/-- `CrcMasks.Rate12DataContinuation / Rate34DataContinuation / Rate1DataContinuation` (extracted) -/
def mask9 : Rate → Nat
  | .r12 => Gen.maskRate12DataContinuation
  | .r34 => Gen.maskRate34DataContinuation
  | .r1 => Gen.maskRate1DataContinuation

/-- `CRC9.calculate_from_parts(d, dbsn, mask of the rate, crc32 = c)` with the integer `c` the block holds -/
def crc9c (r : Rate) (d : Bytes) (dbsn c : Nat) : Nat :=
  okOr0 (Crc.crc9 d (dbsn : Int) (mask9 r) (.int (c : Int)))

/-- `CRC16.calculate(bits.tobytes(), mask)` -/
def crc16c (mask : Nat) (bits : Bits) : Nat := okOr0 (Crc.crc16 (bitsToBytes bits) mask)

/-- the two check sums of the generator model (C07), concretely -/
def crcC : Fragment.Crc := { crc32 := crc32c, crc9 := crc9c }

/-- the CRC functions of the PDU constructors (C01 / C03), concretely -/
def crcsC : Crcs :=
  { csbk := crc16c Gen.maskCSBK, dh := crc16c Gen.maskDataHeader, pi := crc16c Gen.maskPiHeader
    r12 := crc9c .r12, r34 := crc9c .r34, r1 := crc9c .r1 }

/-! ## from a parsed burst (C01) to the tracker's input symbol (C08 / C07) -/

/-- `is_response_requested` -/
def dhA : DhPayload → Bool
  | .confirmed _ a _ _ _ _ _ _ _ _ _ => a
  | .unconfirmed _ a _ _ _ _ _ _ _ => a
  | .response a _ _ _ _ _ _ _ _ => a
  | .shortDataDefined _ a _ _ _ _ _ _ _ _ => a
  | .udt _ a _ _ _ _ _ _ _ _ _ _ => a

/-- `get_blocks_to_follow()`: `None` for UDT, appended blocks for short data defined, else BTF -/
def dhBtf : DhPayload → Option Nat
  | .confirmed _ _ _ _ _ _ _ btf _ _ _ => some btf
  | .unconfirmed _ _ _ _ _ _ _ btf _ => some btf
  | .response _ _ _ _ _ btf _ _ _ => some btf
  | .shortDataDefined _ _ ab _ _ _ _ _ _ _ => some ab
  | .udt _ _ _ _ _ _ _ _ _ _ _ _ => none

/-- `sap_identifier.value` -/
def dhSap : DhPayload → Nat
  | .confirmed _ _ _ sap _ _ _ _ _ _ _ => sap
  | .unconfirmed _ _ _ sap _ _ _ _ _ => sap
  | .response _ sap _ _ _ _ _ _ _ => sap
  | .shortDataDefined _ _ _ sap _ _ _ _ _ _ => sap
  | .udt _ _ _ _ sap _ _ _ _ _ _ _ => sap

/-- `pad_octet_count` (constructor default 0 for the formats that have no such field) -/
def dhPoc : DhPayload → Nat
  | .confirmed _ _ poc _ _ _ _ _ _ _ _ => poc
  | .unconfirmed _ _ poc _ _ _ _ _ _ => poc
  | _ => 0

/-- `llid_destination` -/
def dhDst : DhPayload → Nat
  | .confirmed _ _ _ _ dst _ _ _ _ _ _ => dst
  | .unconfirmed _ _ _ _ dst _ _ _ _ => dst
  | .response _ _ dst _ _ _ _ _ _ => dst
  | .shortDataDefined _ _ _ _ dst _ _ _ _ _ => dst
  | .udt _ _ _ _ _ _ dst _ _ _ _ _ => dst

/-- `llid_source` -/
def dhSrc : DhPayload → Nat
  | .confirmed _ _ _ _ _ src _ _ _ _ _ => src
  | .unconfirmed _ _ _ _ _ src _ _ _ => src
  | .response _ _ _ src _ _ _ _ _ => src
  | .shortDataDefined _ _ _ _ _ src _ _ _ _ => src
  | .udt _ _ _ _ _ _ _ src _ _ _ _ => src

/-- what the tracker reads of a `DataHeader` object + its 96 bits as 12 octets -/
def hdrAbs (h : DataHeader) : DataHdr :=
  { btf := dhBtf h.payload, a := dhA h.payload, sap := dhSap h.payload, raw := bitsToBytes h.enc }

/-- the `blocks_to_follow` attribute of a `CSBK` object (constructor default 0 unless it is a preamble) -/
def csbkBtf : CsbkPayload → Nat
  | .preamble _ _ btf _ _ => btf
  | _ => 0

/-- the part of the tracker's input symbol that depends on the data type, from the parsed payload object -/
def payloadAbs : Dmr.Payload → Tracker.Payload
  | .piHeader _ => .other
  | .voiceLcHeader p => .voiceHeader (bitsToBytes p.enc)
  | .terminatorWithLc p => .terminator (bitsToBytes p.enc)
  | .csbk p => .csbk (Csbk.opcode p.payload == Csbk.opPreamble) (csbkBtf p.payload) (bitsToBytes p.enc)
  | .dataHeader p => .dataHeader (hdrAbs p)
  -- the burst parser holds a rate-coded block untyped: its bits are the de-interleaved information bits
  | .rate12 p => .rate .r12 (RateData.enc rate12 p)
  | .rate34 p => .rate .r34 (RateData.enc rate34 p)
  | .rate1 p => .rate .r1 (RateData.enc rate1 p)

/-- the abstraction of a parsed burst the tracker model reads (`alpha` of the harness): with a slot type,
the data-type dependent part and the slot type's colour code; without, a vocoder burst (voice SYNC or EMB) -/
def absOf (q : Dmr.Burst) : AbsBurst :=
  match q.slotType with
  | some st =>
    { payload := (match q.data with | some p => payloadAbs p | none => .other), cc := some st.colourCode }
  | none =>
    { payload := .voice q.isVoiceSuperframeStart
      cc := if q.hasEmb then q.emb.map (·.colourCode) else none }

/-! ## the generator, on the level of payload objects -/

/-- `SyncPatterns.BsSourcedData` -/
def bsData : Nat := 0xDFF57D75DF5D

/-- `CSBK(csbko=PreambleCSBK, last_block=True, source_address, target_address, blocks_to_follow,
target_address_is_individual=True)` -/
def preCsbk (btf tgt src : Nat) : Csbk :=
  Csbk.init crcsC.csbk
    { lastBlock := true, protectFlag := false, fid := 0, crc := 0, payload := .preamble false true btf tgt src }

def cfgOf : Rate → RateCfg
  | .r12 => rate12 | .r34 => rate34 | .r1 => rate1

def ratePayload : Rate → RateData → Dmr.Payload
  | .r12 => .rate12 | .r34 => .rate34 | .r1 => .rate1

def rateTypeOf : PType → RateType
  | .unconfirmed => .unconfirmed | .confirmed => .confirmed
  | .unconfirmedLast => .unconfirmedLast | .confirmedLast => .confirmedLast

/-- the attributes of a generated `Rate*Data` object, as a record of C03 -/
def toRateData (g : GenBlock) : RateData := { data := g.data, dbsn := g.dbsn, crc9 := g.crc9, crc32 := g.crc32 }

/-- `generate_full_data_transmission(packet_type, userdata, data_header, csbk_count = k, colour_code = cc)`:
`Fragment.generate` with the payload objects (and the slot-type colour code) instead of their abstraction -/
def genPayloads (h : DataHeader) (r : Rate) (payload : Bytes) (k cc : Nat) :
    Except Tracker.Err (List (Dmr.Payload × Nat)) :=
  match genBlocks crcC r (dhA h.payload) payload with
  | .error e => .error e
  | .ok (blocks, pad) =>
    if dhPoc h.payload != pad then .error .assertion else
    let pre := (preambleBtfs k (blocks.length + 1)).map fun btf =>
      (Dmr.Payload.csbk (preCsbk btf (dhDst h.payload) (dhSrc h.payload)), cc)
    let hb : Dmr.Payload × Nat := (.dataHeader h, 5)
    let db := blocks.map fun b => (ratePayload r (toRateData b), cc)
    .ok (pre ++ [hb] ++ db)

/-- the abstraction of an assembled burst (payload object, slot-type colour code) -/
def absGen (pc : Dmr.Payload × Nat) : AbsBurst := { payload := payloadAbs pc.1, cc := some pc.2 }

/-- the opaque octets of preamble `btf`, as the abstract generator of C07 takes them -/
def rawOf (h : DataHeader) : Fragment.CsbkRaw :=
  fun btf => bitsToBytes (preCsbk btf (dhDst h.payload) (dhSrc h.payload)).enc

/-- the caller's header, as the abstract generator of C07 takes it -/
def ghOf (h : DataHeader) : Fragment.GenHeader := { hdr := hdrAbs h, poc := dhPoc h.payload }

/-! ## the channel: 264 bits per burst -/

/-- assemble (`TransmissionGenerator`) and `as_bits()` -/
def wire (pc : Dmr.Payload × Nat) : Except Dmr.Err Bits :=
  match Burst.build pc.1 pc.2 bsData with
  | .error e => .error e
  | .ok b => Burst.serialise b

/-- `Burst.from_bits(bits, burst_type)` and the abstraction the tracker reads -/
def receive (bt : BurstType) (x : Bits) : Except Dmr.Err AbsBurst :=
  match Burst.parse crcsC x bt with
  | .error e => .error e
  | .ok q => .ok (absOf q)

def mapE {ε α β : Type} (f : α → Except ε β) : List α → Except ε (List β)
  | [] => .ok []
  | a :: rest =>
    match f a with
    | .error e => .error e
    | .ok b =>
      match mapE f rest with
      | .error e => .error e
      | .ok bs => .ok (b :: bs)

/-- where a loop-back run can fail -/
inductive Fail
  | generator (e : Tracker.Err)
  | serialise (e : Dmr.Err)
  | parse (e : Dmr.Err)
  | tracker (e : Tracker.Err)
  deriving DecidableEq, Repr

/-- generator → 264 bits per burst → parser → terminal: the events all observers are handed -/
def loopback (h : DataHeader) (r : Rate) (payload : Bytes) (k cc : Nat) (bt : BurstType) (raises : List Bool)
    (two : Bool) : Except Fail (List Event) :=
  match genPayloads h r payload k cc with
  | .error e => .error (.generator e)
  | .ok pls =>
    match mapE wire pls with
    | .error e => .error (.serialise e)
    | .ok xs =>
      match mapE (receive bt) xs with
      | .error e => .error (.parse e)
      | .ok rx =>
        match Tracker.run (Terminal.init raises) (rx.map fun b => (two, b)) with
        | .error e => .error (.tracker e)
        | .ok (_, recs) => .ok (recs.flatMap fun rc => Tracker.events rc.out.acts)

end Dmr.E2E
