import DmrVerif.Lemmas.HstrpHandler

/-!
C17: lifting the per-datagram statements to histories.  `runFrom_outs_get`: the answers to the `i`-th
datagram of a history are the answers of one step from the state the first `i` datagrams lead to; the
transport is never written, so "has a transport" holds along the whole history.
-/

namespace Dmr.HstrpHandler
open Dmr

theorem runFrom_transport (s : St) (h : List (Option Msg)) : (runFrom s h).1.transport = s.transport := by
  induction h generalizing s with
  | nil => rfl
  | cons m t ih => rw [runFrom_cons, ih, (step_frame s m).2.2]

theorem runFrom_length (s : St) (h : List (Option Msg)) : (runFrom s h).2.length = h.length := by
  induction h generalizing s with
  | nil => rfl
  | cons m t ih => rw [runFrom_cons]; simp [ih]

/-- the answers to the `i`-th datagram: one step from the state after the first `i` datagrams -/
theorem runFrom_outs_get (s : St) (h : List (Option Msg)) (i : Nat) (hi : i < h.length) :
    (runFrom s h).2[i]? = some (step (runFrom s (h.take i)).1 h[i]).2.1 := by
  induction h generalizing s i with
  | nil => simp at hi
  | cons m t ih =>
    rw [runFrom_cons]
    cases i with
    | zero => rfl
    | succ i =>
      have hi' : i < t.length := by simpa using hi
      simp only [List.getElem?_cons_succ, List.take_succ_cons, List.getElem_cons_succ]
      rw [ih _ i hi', runFrom_cons]

/-- the message an acknowledgement is owed to: no ack bit, not heartbeat-class -/
def ackable : Option Msg → Option Msg
  | some m => if m.pktType.isAck = false ∧ m.heartbeatClass = false then some m else Option.none
  | Option.none => Option.none

/-- the acknowledgements owed to one datagram -/
def ackOf (m : Option Msg) : List Out :=
  match ackable m with
  | some x => [.ack x]
  | Option.none => []

theorem step_acks (s : St) (m : Option Msg) (ht : s.transport.isSome = true) :
    (step s m).2.1.filter Out.isAck = ackOf m := by
  cases m with
  | none => rfl
  | some m =>
    rw [step_outs, stepBase_outs]
    simp only [St.send_of_some s ht, ackOf, ackable]
    by_cases h1 : m.heartbeatClass = true
    · by_cases h2 : s.connected = true <;> cases m.request <;> simp [h1, h2, List.filter, Out.isAck]
    · by_cases h2 : m.pktType.isAck = true <;> cases m.request <;> simp [h1, h2, List.filter, Out.isAck]

theorem runFrom_acks (s : St) (h : List (Option Msg)) (ht : s.transport.isSome = true) :
    (runFrom s h).2.map (List.filter Out.isAck) = h.map ackOf := by
  induction h generalizing s with
  | nil => rfl
  | cons m t ih =>
    rw [runFrom_cons]
    simp only [List.map_cons]
    rw [step_acks s m ht, ih _ (by rw [(step_frame s m).2.2]; exact ht)]

theorem flatten_ackOf (h : List (Option Msg)) :
    (h.map ackOf).flatten = (h.filterMap ackable).map Out.ack := by
  induction h with
  | nil => rfl
  | cons m t ih =>
    simp only [List.map_cons, List.flatten_cons, List.filterMap_cons, ih, ackOf]
    cases ackable m <;> simp

/-- heartbeats owed to one datagram, given the connected flag before it -/
def heartbeatOf (conn : Bool) : Option Msg → List Out
  | some m => if m.heartbeatClass = true ∧ conn = true then [.heartbeat] else []
  | Option.none => []

theorem step_heartbeats (s : St) (m : Option Msg) (ht : s.transport.isSome = true) :
    (step s m).2.1.filter Out.isHeartbeat = heartbeatOf s.connected m := by
  cases m with
  | none => rfl
  | some m =>
    rw [step_outs, stepBase_outs]
    simp only [St.send_of_some s ht, heartbeatOf]
    by_cases h1 : m.heartbeatClass = true
    · by_cases h2 : s.connected = true <;> cases m.request <;> simp [h1, h2, List.filter, Out.isHeartbeat]
    · by_cases h2 : m.pktType.isAck = true <;> cases m.request <;> simp [h1, h2, List.filter, Out.isHeartbeat]

/-- registration answers owed to one datagram, given the handler's S/N before it -/
def answerOf (sn : Nat) : Option Msg → List Out
  | some m => (match m.request with | some ip => [.rrsAnswer (nextSn sn) ip] | Option.none => [])
  | Option.none => []

theorem step_answers (s : St) (m : Option Msg) (ht : s.transport.isSome = true) :
    (step s m).2.1.filter Out.isAnswer = answerOf s.sn m := by
  cases m with
  | none => rfl
  | some m =>
    rw [step_outs, stepBase_outs]
    simp only [St.send_of_some s ht, answerOf]
    by_cases h1 : m.heartbeatClass = true
    · by_cases h2 : s.connected = true <;> cases m.request <;> simp [h1, h2, List.filter, Out.isAnswer]
    · by_cases h2 : m.pktType.isAck = true <;> cases m.request <;> simp [h1, h2, List.filter, Out.isAnswer]

/-- every output is an acknowledgement, a heartbeat or a registration answer (no CONNECT: that is
`periodic_maintenance`) -/
theorem step_outs_kinds (s : St) (m : Option Msg) (o : Out) (ho : o ∈ (step s m).2.1) :
    o.isAck = true ∨ o.isHeartbeat = true ∨ o.isAnswer = true := by
  rcases mem_outs s m o ho with ⟨x, _, rfl, _, _⟩ | ⟨rfl, _⟩ | ⟨x, ip, _, _, rfl⟩
  · exact Or.inl rfl
  · exact Or.inr (Or.inl rfl)
  · exact Or.inr (Or.inr rfl)

/-- the handler's S/N after a history: one increment (mod 0xFFFF) per registration request -/
def snAfter (sn : Nat) : List (Option Msg) → Nat
  | [] => sn
  | m :: t => snAfter (match m with
      | some x => (match x.request with | some _ => nextSn sn | Option.none => sn)
      | Option.none => sn) t

theorem runFrom_sn (s : St) (h : List (Option Msg)) : (runFrom s h).1.sn = snAfter s.sn h := by
  induction h generalizing s with
  | nil => rfl
  | cons m t ih =>
    rw [runFrom_cons, ih]
    cases m with
    | none => rfl
    | some x => rw [step_sn]; rfl

end Dmr.HstrpHandler
