import DmrVerif.Lemmas.RsCode

/-!
C11 helpers, part 7: the super-codes of a checker that tests only a subset of the roots.

A checker that evaluates the received word at two of the three roots of g accepts the Reed–Solomon code
with those two roots, a code of distance 3 that contains every word `generate` produces.  Seen from the
property this is the subtle way to be wrong: every generated word is still accepted, every corruption of
one or two octets is still rejected (`close_eq_t` with `t = 2` for the roots α, α²), and of the
corruptions of three octets only 255 of the 255³ on each position triple slip through.  This file
characterises those: `subWitness u v a b c` is a pattern that is non-zero exactly in the positions
`a < b < c`, vanishes at α^u and α^v and does not vanish at the third root — for every position triple
and every pair of roots (a kernel enumeration over the 3 · 220 cases, on the packed tables).

`harness/props/c11.py` (`two_root_families`) solves for the same patterns with its own arithmetic and
runs all 255 multiples of each of them (and the weight-2 analogue for the 1-root super-codes) against
the real `check`.
-/

namespace Dmr.Rs
open Dmr Dmr.Gen

/-! ### the packed mirror used by the kernel -/

/-- `evalAt` with the packed multiplication -/
def evalAtP (r : Nat) (w : Bytes) : Nat := w.foldl (fun acc x => Nat.xor (mulP acc r) x) 0

theorem evalAtP_eq (r : Nat) (w : Bytes) : evalAtP r w = evalAt r w := by
  unfold evalAtP evalAt
  congr
  funext acc x
  rw [mulP_eq]

/-- `locPow` on the packed exponent table -/
def locPowP (u p : Nat) : Nat := lkp rsExpPacked (u * (11 - p))

theorem locPowP_eq (u p : Nat) : locPowP u p = locPow u p := by
  unfold locPowP locPow alphaPow
  rw [lkp_exp]

/-- `subWitness` with packed operations -/
def subWitnessP (u v a b c : Nat) : Bytes :=
  let cross (p q : Nat) : Nat :=
    Nat.xor (mulP (locPowP u p) (locPowP v q)) (mulP (locPowP v p) (locPowP u q))
  (List.range 12).map (fun p =>
    if p = a then cross b c else if p = b then cross a c else if p = c then cross a b else 0)

theorem subWitnessP_eq (u v a b c : Nat) : subWitnessP u v a b c = subWitness u v a b c := by
  unfold subWitnessP subWitness
  simp only [mulP_eq, locPowP_eq]

/-- what is checked for one pair of roots `(u, v)` with third root `k` and one position triple: the
pattern consists of octets, is non-zero exactly at `a`, `b`, `c`, vanishes at α^u and α^v, not at α^k -/
def subOkP (u v k a b c : Nat) : Bool :=
  let e := subWitnessP u v a b c
  e.all (fun x => Nat.ble x 255) &&
  (List.range 12).all (fun p => Bool.xor (Nat.beq (e.getD p 0) 0) (Nat.beq p a || Nat.beq p b || Nat.beq p c)) &&
  Nat.beq (symWeight e) 3 &&
  Nat.beq (evalAtP (lkp rsExpPacked u) e) 0 && Nat.beq (evalAtP (lkp rsExpPacked v) e) 0 &&
  !(Nat.beq (evalAtP (lkp rsExpPacked k) e) 0)

/-- all 220 position triples `c < b < a < 12` -/
def subAllP (u v k : Nat) : Bool :=
  (List.range 12).all fun a => (List.range a).all fun b => (List.range b).all fun c => subOkP u v k c b a

theorem subAll_12_3 : subAllP 1 2 3 = true := by decide +kernel
theorem subAll_13_2 : subAllP 1 3 2 = true := by decide +kernel
theorem subAll_23_1 : subAllP 2 3 1 = true := by decide +kernel

/-! ### what the enumeration says, on the model's own definitions -/

theorem subAllP_spec (u v k : Nat) (h : subAllP u v k = true) (a b c : Nat) (hab : a < b) (hbc : b < c)
    (hc : c < 12) : subOkP u v k a b c = true := by
  unfold subAllP at h
  simp only [List.all_eq_true, List.mem_range] at h
  exact h c hc b hbc a hab

/-- the facts about one witness, in the vocabulary of the model -/
theorem subOkP_spec (u v k a b c : Nat) (h : subOkP u v k a b c = true) :
    let e := subWitness u v a b c
    e.length = 12 ∧ isBytes e = true ∧
    (∀ p, p < 12 → (e.getD p 0 ≠ 0 ↔ p = a ∨ p = b ∨ p = c)) ∧ symWeight e = 3 ∧
    syndrome u e = 0 ∧ syndrome v e = 0 ∧ syndrome k e ≠ 0 := by
  intro e
  have he : subWitnessP u v a b c = e := subWitnessP_eq u v a b c
  unfold subOkP at h
  simp only [he, Bool.and_eq_true, evalAtP_eq, lkp_exp, nbeq, Bool.not_eq_true', List.all_eq_true,
    List.mem_range, Nat.ble_eq] at h
  obtain ⟨⟨⟨⟨⟨h1, h2⟩, hwt⟩, h3⟩, h4⟩, h5⟩ := h
  refine ⟨by simp [e, subWitness], ?_, ?_, hwt, h3, h4, ?_⟩
  · rw [isBytes_iff]
    intro x hx
    have := h1 x hx
    omega
  · intro p hp
    have := h2 p hp
    by_cases hz : e.getD p 0 = 0
    · have hb : Nat.beq (e.getD p 0) 0 = true := nbeq.mpr hz
      rw [hb] at this
      simp only [Bool.true_bne, Bool.not_eq_true', Bool.or_eq_false_iff] at this
      have n1 : ¬ p = a := fun h => by rw [nbeq.mpr h] at this; exact absurd this.1.1 (by decide)
      have n2 : ¬ p = b := fun h => by rw [nbeq.mpr h] at this; exact absurd this.1.2 (by decide)
      have n3 : ¬ p = c := fun h => by rw [nbeq.mpr h] at this; exact absurd this.2 (by decide)
      constructor
      · intro h; exact absurd hz h
      · rintro (h | h | h)
        · exact absurd h n1
        · exact absurd h n2
        · exact absurd h n3
    · have hb : Nat.beq (e.getD p 0) 0 = false := by
        cases hq : Nat.beq (e.getD p 0) 0
        · rfl
        · exact absurd (nbeq.mp hq) hz
      rw [hb] at this
      simp only [Bool.false_bne, Bool.or_eq_true, nbeq] at this
      refine ⟨fun _ => ?_, fun _ => hz⟩
      rcases this with (h | h) | h
      · exact Or.inl h
      · exact Or.inr (Or.inl h)
      · exact Or.inr (Or.inr h)
  · intro hk
    unfold syndrome alphaPow at hk
    rw [hk] at h5
    exact absurd h5 (by decide)

/-! ### the root-subset checker -/

theorem checkRoots_eq (js : List Nat) (w mask : Bytes) (hw : w.length = 12) :
    checkRoots js w mask = some (js.all (fun j => syndrome j (unmask mask w) == 0)) := by
  simp [checkRoots, hw]

/-- with all three roots it is `check` -/
theorem checkRoots_123 (w mask : Bytes) (hw : w.length = 12) (hm : mask.length = 3)
    (bw : isBytes w = true) (bm : isBytes mask = true) : checkRoots [1, 2, 3] w mask = check w mask := by
  have h := check_iff_syndromes w mask hw hm bw bm
  rw [checkRoots_eq _ _ _ hw]
  rw [check_eq w mask hw] at h ⊢
  have e : ([1, 2, 3].all fun j => syndrome j (unmask mask w) == 0) = syndromesZero (unmask mask w) := by
    simp [syndromesZero, Bool.and_assoc]
  rw [e]
  simp only [Option.some.injEq, decide_eq_true_eq] at h
  congr 1
  cases hs : syndromesZero (unmask mask w)
  · have : ¬ encode (List.take 9 w) mask = w := fun hh => by rw [h.mp hh] at hs; cases hs
    simp [this]
  · simp [h.mpr hs]

/-- with the roots α, α² only, a word within two octets of a generated word is still rejected: the defect
of a checker that drops α³ cannot be seen on corruptions of one or two octets -/
theorem detect2_of_close (d mask w : Bytes) (hd : d.length = 9) (hm : mask.length = 3)
    (hw : w.length = 12) (bd : isBytes d = true) (bm : isBytes mask = true) (bw : isBytes w = true)
    (hne : w ≠ encode d mask) (h2 : symDist w (encode d mask) ≤ 2) :
    checkRoots [1, 2] w mask = some false := by
  rw [checkRoots_eq _ _ _ hw]
  simp only [Option.some.injEq]
  cases hacc : ([1, 2].all fun j => syndrome j (unmask mask w) == 0)
  · rfl
  · exfalso
    simp only [List.all_cons, List.all_nil, Bool.and_true, Bool.and_eq_true, beq_iff_eq] at hacc
    have hc := (syndromesZero_iff _).mp (encode_syndromes d mask hd hm bd)
    have hlen := encode_length d mask hd hm
    have heq := close_eq_t 2 (by omega) _ _ (unmask_length mask w hw hm) (unmask_length mask _ hlen hm)
      (unmask_isBytes mask w bw bm) (unmask_isBytes mask _ (encode_isBytes _ _ bd bm) bm)
      (fun j h1 hj => by
        have : j = 1 ∨ j = 2 := by omega
        rcases this with rfl | rfl
        · exact hacc.1
        · exact hacc.2)
      (fun j h1 hj => hc j h1 (by omega))
      (by rw [symDist_unmask mask w _ hw hlen hm]; exact h2)
    apply hne
    have e1 := mask_unmask mask w hw hm
    have e2 := mask_unmask mask _ hlen hm
    rw [heq] at e1
    exact e1.symm.trans e2

/-! ### evaluation is additive; a corruption by a pattern that vanishes at the tested roots is accepted -/

theorem evalAt_xor_aux (r : Nat) (hr : r < 256) (a b : Bytes) (h : a.length = b.length)
    (ba : isBytes a = true) (bb : isBytes b = true) (x y : Nat) (hx : x < 256) (hy : y < 256) :
    (xorBytes a b).foldl (fun acc z => Nat.xor (logMultiply acc r) z) (x ^^^ y)
      = a.foldl (fun acc z => Nat.xor (logMultiply acc r) z) x
        ^^^ b.foldl (fun acc z => Nat.xor (logMultiply acc r) z) y := by
  induction a generalizing b x y with
  | nil => cases b with
    | nil => rfl
    | cons _ _ => simp at h
  | cons p ps ih => cases b with
    | nil => simp at h
    | cons q qs =>
      simp only [List.length_cons, Nat.add_right_cancel_iff] at h
      simp only [isBytes, List.all_cons, Bool.and_eq_true, decide_eq_true_eq] at ba bb
      simp only [xorBytes, List.zipWith_cons_cons, List.foldl_cons]
      have h1 : Nat.xor (logMultiply x r) p < 256 := xor_lt_256 (logMultiply_lt _ _) ba.1
      have h2 : Nat.xor (logMultiply y r) q < 256 := xor_lt_256 (logMultiply_lt _ _) bb.1
      have := ih qs h ba.2 bb.2 _ _ h1 h2
      simp only [xorBytes] at this
      rw [← this]
      congr 1
      rw [logMultiply_comm (x ^^^ y) r, logMultiply_xor r x y hr hx hy, logMultiply_comm r x,
        logMultiply_comm r y]
      simp only [nxor]
      ac_rfl

theorem evalAt_xor (r : Nat) (hr : r < 256) (a b : Bytes) (h : a.length = b.length)
    (ba : isBytes a = true) (bb : isBytes b = true) :
    evalAt r (xorBytes a b) = evalAt r a ^^^ evalAt r b :=
  evalAt_xor_aux r hr a b h ba bb 0 0 (by omega) (by omega)

theorem zipWith_xor_right_comm (x y m : Bytes) :
    List.zipWith Nat.xor (List.zipWith Nat.xor x y) m = List.zipWith Nat.xor (List.zipWith Nat.xor x m) y := by
  induction x generalizing y m with
  | nil => simp
  | cons a as ih =>
    cases y with
    | nil => cases m <;> simp
    | cons b bs =>
      cases m with
      | nil => simp
      | cons c cs =>
        simp only [List.zipWith_cons_cons, List.cons.injEq]
        exact ⟨by simp only [nxor]; ac_rfl, ih bs cs⟩

/-- removing the mask commutes with adding an error pattern -/
theorem unmask_xor (mask c e : Bytes) (hc : c.length = 12) (he : e.length = 12) :
    unmask mask (xorBytes c e) = xorBytes (unmask mask c) e := by
  unfold unmask xorBytes
  rw [List.take_zipWith, List.drop_zipWith, zipWith_xor_right_comm]
  conv_rhs => rw [← List.take_append_drop 9 e]
  rw [List.zipWith_append (by simp [hc, he])]

/-- every syndrome of the corrupted word is the syndrome of the pattern: a generated word contributes nothing -/
theorem syndrome_corrupted (d mask e : Bytes) (hd : d.length = 9) (hm : mask.length = 3)
    (bd : isBytes d = true) (he : e.length = 12) (be : isBytes e = true) (j : Nat) (h1 : 1 ≤ j) (h3 : j ≤ 3) :
    syndrome j (unmask mask (xorBytes (encode d mask) e)) = syndrome j e := by
  have hlen := encode_length d mask hd hm
  rw [unmask_xor mask _ e hlen he, unmask_encode d mask hd hm]
  unfold syndrome alphaPow
  have bu : isBytes (d ++ parityBytes d) = true := by
    rw [isBytes_append, bd, parityBytes_isBytes d bd]; rfl
  rw [evalAt_xor _ (exp_lt j) _ _ (by simp [hd, he, parityBytes_length]) bu be]
  have := syndrome_codeword d bd j h1 h3
  unfold syndrome alphaPow at this
  rw [this, Nat.zero_xor]

/-- a checker that tests the roots in `js ⊆ {1, 2, 3}` only accepts a generated word corrupted by any
pattern that vanishes at those roots -/
theorem checkRoots_accepts (js : List Nat) (hjs : ∀ j ∈ js, 1 ≤ j ∧ j ≤ 3) (d mask e : Bytes)
    (hd : d.length = 9) (hm : mask.length = 3) (bd : isBytes d = true) (he : e.length = 12)
    (be : isBytes e = true) (hz : ∀ j ∈ js, syndrome j e = 0) :
    checkRoots js (xorBytes (encode d mask) e) mask = some true := by
  rw [checkRoots_eq _ _ _ (by simp [xorBytes, encode_length d mask hd hm, he])]
  simp only [Option.some.injEq, List.all_eq_true, beq_iff_eq]
  intro j hj
  rw [syndrome_corrupted d mask e hd hm bd he be j (hjs j hj).1 (hjs j hj).2]
  exact hz j hj

end Dmr.Rs
