import DmrVerif.Lemmas.CrcDetect

/-!
Parts that repeat a check sum of each other (round 4).  A message followed by its own check sum — as it
stands, or xor a constant `k` (inversion, data-type mask) — feeds to the value of `k` alone, whatever
the message is: the structured inputs "body tail = check field = CRC of the body head" are valid words
for exactly one value of that CRC.  Core Lean only (used by C05 and C04).
-/

namespace Dmr
namespace Crc

/-- a message followed by its own check sum xor a constant `k`: the register ends where it ends for `k`
alone -/
theorem feed_selfref (p d k : Bits) (hk : k.length = p.length) :
    feed p (d ++ xorBits (feed p d) k) = feed p k := by
  have hfl : (feed p d).length = p.length := feed_length p d
  have h1 : d ++ xorBits (feed p d) k = xorBits (d ++ feed p d) (zeros d.length ++ k) := by
    rw [xorBits_append _ _ _ _ (by simp), xorBits_zeros_right]
  have h2 : feed p (zeros d.length ++ k) = feed p k := by
    unfold feed; rw [procBits_append, procBits_zeros]
  rw [h1, feed_xor _ _ _ (by simp [hfl, hk]), codeword_feed, h2,
    xorBits_zeros_left _ _ (feed_length p k)]

/-- two octets of a 16-bit value, most significant first -/
theorem bytesToBits_two_octets (v : Nat) :
    bytesToBits [v / 256, v % 256] = natToBits 16 v := by
  simp only [bytesToBits, natToBits, List.flatMap_cons, List.flatMap_nil, List.append_nil,
    List.cons_append, List.nil_append]
  simp only [List.cons.injEq, and_true]
  refine ⟨?_, ?_, ?_, ?_, ?_, ?_, ?_, ?_, ?_, ?_, ?_, ?_, ?_, ?_, ?_, ?_⟩ <;> congr 1 <;> omega

end Crc
end Dmr
