import DmrVerif.Lemmas.PduFullLc
import DmrVerif.Lemmas.PduCsbk
import DmrVerif.Lemmas.PduShort
import DmrVerif.Lemmas.PduUdp
import DmrVerif.Lemmas.PduRate

/-!
# Opaque payload fields are carried verbatim (C03 hardening)

For every PDU with an opaque / text-like payload field (talker alias data, Hytera raw data, broadcast
parameters, PI data, block data, UDP user data, short-LC addresses) the decoder returns **exactly the
bits that were received at the field's position** — for every value of the selector fields (alias data
format, opcode, FLCO, announcement type, port identifiers, block type) and for every content of the
field: no byte order mark, NUL, line end or other token is interpreted, dropped or rewritten.
-/

namespace Dmr
open Dmr.Gen

namespace FullLc

/-- Talker Alias header: the six data octets, the 49th bit and the length are the received bits,
whatever the data format -/
theorem dec_alias_header_verbatim (bs : Bits) (p : FullLc) (h : dec bs = .ok p)
    (fmt len : Nat) (msb : Bool) (data : Bytes) (hp : p.payload = .talkerAliasHeader fmt len msb data) :
    data = bitsToBytes (slice bs 24 48) ∧ msb = getBit bs 23 ∧ len = getField bs 18 5 := by
  unfold dec at h
  repeat' split at h
  all_goals first
    | (cases h; done)
    | (cases h; simp only at hp; cases hp; exact ⟨rfl, rfl, rfl⟩)
    | (cases h; simp only at hp; cases hp)

/-- Talker Alias blocks 1–3: the seven data octets are the received bits -/
theorem dec_alias_block_verbatim (bs : Bits) (p : FullLc) (h : dec bs = .ok p)
    (c : Nat) (data : Bytes) (hp : p.payload = .talkerAliasBlock c data) :
    data = bitsToBytes (slice bs 16 56) := by
  unfold dec at h
  repeat' split at h
  all_goals first
    | (cases h; done)
    | (cases h; simp only at hp; cases hp; rfl)
    | (cases h; simp only at hp; cases hp)

/-- the check field is the received tail -/
theorem dec_crc_verbatim (bs : Bits) (p : FullLc) (h : dec bs = .ok p) :
    p.crc = if bs.length ≥ 96 then slice bs 72 24 else slice bs 72 5 := by
  unfold dec at h
  repeat' split at h
  all_goals first
    | (cases h; done)
    | (cases h; exact (if_pos (by assumption)).symm)
    | (cases h; exact (if_neg (by assumption)).symm)

end FullLc

namespace Csbk

theorem init_payload (f : Bits → Nat) (p : Csbk) : (init f p).payload = p.payload := by
  unfold init; split <;> rfl

/-- Hytera IPSC sync: the eight raw octets are the received bits -/
theorem dec_raw_verbatim (f : Bits → Nat) (bs : Bits) (p : Csbk) (h : dec f bs = .ok p)
    (raw : Bytes) (hp : p.payload = .hyteraIpscSync raw) : raw = bitsToBytes (slice bs 16 64) := by
  unfold dec at h
  repeat' split at h
  all_goals first
    | (cases h; done)
    | (cases h; rw [init_payload] at hp; simp only at hp; cases hp; rfl)
    | (cases h; rw [init_payload] at hp; simp only at hp; cases hp)

/-- C_BCAST: the 38 parameter bits are the received bits 21..34 and 56..79, whatever the announcement type -/
theorem dec_broadcast_verbatim (f : Bits → Nat) (bs : Bits) (p : Csbk) (h : dec f bs = .ok p)
    (at' : Nat) (params : Bits) (reg : Bool) (backoff sys : Nat)
    (hp : p.payload = .broadcast at' params reg backoff sys) :
    params = slice bs 21 14 ++ slice bs 56 24 := by
  unfold dec at h
  repeat' split at h
  all_goals first
    | (cases h; done)
    | (cases h; rw [init_payload] at hp; simp only at hp; cases hp; rfl)
    | (cases h; rw [init_payload] at hp; simp only at hp; cases hp)

end Csbk

namespace PiHeader

/-- PI header: the data octets are the received bits without the last 16 -/
theorem dec_data_verbatim (f : Bits → Nat) (bs : Bits) (p : PiHeader) (h : dec f bs = .ok p) :
    p.data = bitsToBytes (bs.take (bs.length - 16)) := by
  unfold dec at h
  split at h
  · cases h
  · cases h; rfl

end PiHeader

namespace ShortLc

/-- activity update: the two 8-bit hashed addresses are the received bits -/
theorem dec_addresses_verbatim (g : Bits → Bits) (bs : Bits) (p : ShortLc) (h : dec g bs = .ok p)
    (t1 t2 : Nat) (a1 a2 : Bits) (hp : p.payload = .activity t1 t2 a1 a2) :
    a1 = slice bs 12 8 ∧ a2 = slice bs 20 8 := by
  unfold dec at h
  repeat' split at h
  all_goals first
    | (cases h; done)
    | (cases h; simp only [init] at hp; split at hp <;> (simp only at hp; cases hp; exact ⟨rfl, rfl⟩))
    | (cases h; simp only [init] at hp; split at hp <;> (simp only at hp; cases hp))

end ShortLc

namespace UdpHeader

/-- UDP/IPv4 compressed header: the user data are the received bits after the (extended) header —
40, 56 or 72 bits, as announced by the two port identifiers — whatever their content and length -/
theorem dec_user_data_verbatim (bs : Bits) (p : UdpHeader) (h : dec bs = .ok p) :
    p.userData = bs.drop (40 + 16 * ((if p.extendedHeader1.isSome then 1 else 0) + (if p.extendedHeader2.isSome then 1 else 0))) := by
  unfold dec at h
  repeat' split at h
  all_goals first
    | (cases h; done)
    | (cases h; rfl)

end UdpHeader

namespace RateData

theorem init_data (c : RateCfg) (f9 : Bytes → Nat → Nat → Nat) (t : RateType) (a p : RateData)
    (h : init c f9 t a = .ok p) : p.data = a.data := by
  unfold init at h
  repeat' split at h
  all_goals first
    | (cases h; done)
    | (cases h; rfl)

/-- rate ½ / ¾ / 1 blocks: the data octets are the received bits at the position the block type fixes -/
theorem dec_data_verbatim (c : RateCfg) (f9 : Bytes → Nat → Nat → Nat) (t : RateType) (bs : Bits) (p : RateData)
    (h : dec c f9 t bs = .ok p) :
    p.data = match t with
      | .undefined | .unconfirmed => bitsToBytes bs
      | .confirmed => bitsToBytes (slice bs 16 (8 * c.total - 16))
      | .confirmedLast => bitsToBytes (slice bs 16 (8 * c.total - 48))
      | .unconfirmedLast => bitsToBytes (slice bs 0 (8 * c.total - 32)) := by
  unfold dec at h
  split at h
  · cases h
  · cases t <;> exact init_data _ _ _ _ _ h

end RateData
end Dmr

namespace Dmr
open Dmr.Gen

/-! ## encode side: the field's bits are at the field's position, verbatim -/

theorem FullLc.enc_alias_header_verbatim (pf : Bool) (fid : Nat) (crc : Bits) (fmt len : Nat) (msb : Bool) (data : Bytes)
    (hd : data.length = 6) :
    slice (FullLc.enc ⟨pf, fid, crc, .talkerAliasHeader fmt len msb data⟩) 24 48 = bytesToBits data := by
  simp only [FullLc.enc, FullLc.payloadBits, FullLc.flco]
  layout_simp [hd]

theorem FullLc.enc_alias_block_verbatim (pf : Bool) (fid : Nat) (crc : Bits) (c : Nat) (data : Bytes)
    (hd : data.length = 7) :
    slice (FullLc.enc ⟨pf, fid, crc, .talkerAliasBlock c data⟩) 16 56 = bytesToBits data := by
  simp only [FullLc.enc, FullLc.payloadBits, FullLc.flco]
  layout_simp [hd]

theorem Csbk.enc_raw_verbatim (lb pf : Bool) (fid crc : Nat) (raw : Bytes) (hd : raw.length = 8) :
    slice (Csbk.enc ⟨lb, pf, fid, crc, .hyteraIpscSync raw⟩) 16 64 = bytesToBits raw := by
  simp only [Csbk.enc, Csbk.body, Csbk.payloadBits, Csbk.opcode, List.append_assoc]
  layout_simp [hd]

theorem PiHeader.enc_data_verbatim (p : PiHeader) :
    (PiHeader.enc p).take ((PiHeader.enc p).length - 16) = bytesToBits p.data := by
  simp [PiHeader.enc]

theorem UdpHeader.enc_user_data_verbatim (p : UdpHeader) :
    (UdpHeader.enc p).drop (40 + (UdpHeader.optBits p.extendedHeader1).length + (UdpHeader.optBits p.extendedHeader2).length)
      = p.userData := by
  unfold UdpHeader.enc
  simp only [← List.append_assoc]
  apply List.drop_left'
  simp only [List.length_append, natToBits_length, List.length_cons, List.length_nil]

end Dmr

/-! ## check fields are carried verbatim (round 3)

A decoder must return the received check field as it is — for every opcode, feature set id and data packet
format, and whatever relation the received value has to the right CRC (octets exchanged, bits reversed,
complemented, another data type's mask …): the only value that is replaced is the constructor's all-zero
"compute it" sentinel. -/

namespace Dmr
open Dmr.Gen

namespace Csbk

/-- what the constructor leaves in the CRC field: the given value, unless it is the 0 sentinel -/
theorem init_crc (f : Bits → Nat) (p : Csbk) (hz : p.crc ≠ 0) : (init f p).crc = p.crc := by
  unfold init; rw [if_neg hz]

/-- the CRC field is the received field, verbatim, for every opcode and feature set id (0 = "compute it") -/
theorem dec_crc_verbatim (f : Bits → Nat) (bs : Bits) (p : Csbk) (h : dec f bs = .ok p)
    (hz : getField bs 80 16 ≠ 0) : p.crc = getField bs 80 16 := by
  unfold dec at h
  repeat' split at h
  all_goals first
    | (cases h; done)
    | (cases h; exact init_crc f _ hz)

/-- … and the sentinel is replaced by the CRC function of the first 80 bits of the serialisation -/
theorem dec_crc_zero (f : Bits → Nat) (bs : Bits) (p : Csbk) (h : dec f bs = .ok p)
    (hz : getField bs 80 16 = 0) : p.crc = f (slice (enc { p with crc := 0 }) 0 80) := by
  unfold dec at h
  repeat' split at h
  all_goals first
    | (cases h; done)
    | (cases h; simp only [init, hz, if_true])

theorem enc_crc_verbatim (p : Csbk) (h : p.WF) : slice (enc p) 80 16 = natToBits 16 p.crc := by
  unfold enc
  rw [slice_append_right _ _ _ _ (by rw [body_length p h]; exact Nat.le_refl _), body_length p h]
  exact slice_exact _ _ (natToBits_length _ _)

end Csbk

namespace DataHeader

theorem dec_crc_verbatim (f : Bits → Nat) (bs : Bits) (p : DataHeader) (h : dec f bs = .ok p)
    (hz : allZero (slice bs 80 16) = false) : p.crc = slice bs 80 16 := by
  unfold dec at h
  split at h
  · cases h
  · rename_i hl
    have hlen : (slice bs 80 16).length = 16 := by rw [slice_length]; omega
    have hi : ∀ pl, (init f ⟨slice bs 80 16, pl⟩).crc = slice bs 80 16 := by
      intro pl
      unfold init
      rw [if_neg (by simp [hlen, hz])]
    repeat' split at h
    all_goals first
      | (cases h; done)
      | (cases h; exact hi _)

theorem enc_crc_verbatim (p : DataHeader) (h : p.WF) : slice (enc p) 80 16 = p.crc := by
  unfold enc
  rw [slice_append_right _ _ _ _ (by rw [body_length _ h.2]; exact Nat.le_refl _), body_length _ h.2]
  exact slice_exact _ _ h.1

end DataHeader

namespace ShortLc

theorem dec_crc_verbatim (g : Bits → Bits) (bs : Bits) (p : ShortLc) (h : dec g bs = .ok p)
    (hz : allZero (slice bs 28 8) = false) : p.crc = slice bs 28 8 := by
  have hi : ∀ pl, (init g ⟨slice bs 28 8, pl⟩).crc = slice bs 28 8 := by
    intro pl
    unfold init
    rw [if_neg (by simp [hz])]
  unfold dec at h
  repeat' split at h
  all_goals first
    | (cases h; done)
    | (cases h; exact hi _)

theorem enc_crc_verbatim (p : ShortLc) (h : p.WF) : slice (enc p) 28 8 = p.crc := by
  unfold enc
  rw [slice_append_right _ _ _ _ (by rw [body_length _ h.2]; exact Nat.le_refl _), body_length _ h.2]
  exact slice_exact _ _ h.1

end ShortLc


namespace RateData

theorem init_checks (c : RateCfg) (f9 : Bytes → Nat → Nat → Nat) (t : RateType) (a p : RateData)
    (h : init c f9 t a = .ok p) :
    p.dbsn = a.dbsn ∧ p.crc32 = a.crc32 ∧ (a.crc9 ≠ 0 → p.crc9 = a.crc9)
      ∧ (a.crc9 = 0 → p.crc9 = f9 a.data a.dbsn a.crc32) := by
  unfold init at h
  repeat' split at h
  all_goals first
    | (cases h; done)
    | (cases h; refine ⟨rfl, rfl, fun hz => ?_, fun hz => ?_⟩ <;> simp_all)

/-- serial number, CRC-9 (sent least significant bit first; 0 = "compute it") and CRC-32 of a received block are the
received bits at the position the block type fixes -/
theorem dec_checks_verbatim (c : RateCfg) (f9 : Bytes → Nat → Nat → Nat) (t : RateType) (bs : Bits) (p : RateData)
    (h : dec c f9 t bs = .ok p) :
    (t = .confirmed ∨ t = .confirmedLast →
        p.dbsn = getField bs 0 7 ∧ (bitsToNat (slice bs 7 9).reverse ≠ 0 → p.crc9 = bitsToNat (slice bs 7 9).reverse))
    ∧ (t = .unconfirmedLast ∨ t = .confirmedLast → p.crc32 = getField bs (8 * c.total - 32) 32) := by
  unfold dec at h
  split at h
  · cases h
  · cases t <;> simp only [reduceCtorEq, or_self, or_false, false_or, false_implies, true_implies, and_true, true_and] <;>
      (have := init_checks _ _ _ _ _ h; simp_all)

end RateData
end Dmr
