import DmrVerif.Gen.TranslIpsc
import DmrVerif.Lemmas.TranslBitsBytes

/-!
Equality of `HyteraIPSC.from_ipsc_bytes` / `as_ipsc_bytes` TRANSLATED from the source of `hytera/hytera_ipsc.py`
(`Gen/TranslIpsc.lean`, `tools/py2lean_rec.py`) with the hand-written model `Model/Ipsc.lean` (C13).
-/

namespace Dmr.Transl.Ipsc
open Dmr Dmr.Py

/-- the model's object as the translated record (naturals as ints) -/
def toObj (x : Dmr.Ipsc.Ipsc) : HyteraIPSC :=
  { call_type := x.callType, frame_type := x.frameType, packet_type := x.packetType, slot_type := x.slotType,
    timeslot := x.timeslot, sequence_number := x.seq, color_code := x.cc, payload := x.payload,
    destination_radio_id := x.dst, source_radio_id := x.src, first_header := x.firstHeader,
    second_header := x.secondHeader, reserved_3 := x.reserved3, reserved_7a := x.reserved7a,
    reserved_2a := x.reserved2a, reserved_2b := x.reserved2b, reserved_1 := x.reserved1, payload_pad := x.pad }

def errOf : Dmr.Ipsc.Err → PyErr
  | .value => .value
  | .overflow => .overflow
  | .assertion => .assertion
  | .type => .type
  | .index => .index
  | e => .other e.name

def ofI {α β : Type} (f : α → β) : Except Dmr.Ipsc.Err α → PyM β
  | .ok v => .ok (f v)
  | .error e => .error (errOf e)

theorem slice_model {α : Type} (d : List α) (a b : Nat) :
    slice d (some ((a : Nat) : Int)) (some ((b : Nat) : Int)) = (d.take b).drop a := by
  rw [slice_ofNat_ofNat, List.drop_take]
  by_cases h : a ≤ d.length
  · rw [Nat.min_eq_left h, List.take_eq_take_iff]
    simp only [List.length_drop]; omega
  · have h1 : d.length ≤ a := by omega
    rw [Nat.min_eq_right h1, List.drop_of_length_le (Nat.le_refl _), List.drop_of_length_le h1]
    simp

theorem slice_lit_lit (d : Bytes) (a b : Nat) :
    slice d (some (no_index (@OfNat.ofNat Int a _))) (some (no_index (@OfNat.ofNat Int b _))) = Dmr.Ipsc.slice d a b :=
  slice_model d a b

theorem fromBig_be (l : Bytes) : fromBytesBig l = ((Dmr.Ipsc.be l : Nat) : Int) := by
  unfold fromBytesBig Dmr.Ipsc.be
  congr 1
  have : ∀ (l : Bytes) (acc : Nat), l.foldl (fun a x => a * 256 + x) acc = l.foldl (fun acc b => 256 * acc + b) acc := by
    intro l
    induction l with
    | nil => intro acc; rfl
    | cons x xs ih => intro acc; simp only [List.foldl_cons, ih, Nat.mul_comm]
  exact this l 0

theorem fromLittle_le (l : Bytes) : fromBytesLittle l = ((Dmr.Ipsc.le l : Nat) : Int) := by
  unfold fromBytesLittle
  congr 1
  induction l with
  | nil => rfl
  | cons x xs ih => simp only [List.foldr_cons, ih, Dmr.Ipsc.le]; omega

theorem enumCall_nat (vals : List Nat) (dflt : Option Nat) (v : Nat) :
    PyRec.enumCall vals dflt (v : Int) = match Dmr.Ipsc.lookup vals dflt v with
      | some i => .ok (i : Int)
      | none => .error .value := by
  unfold PyRec.enumCall Dmr.Ipsc.lookup
  have : ¬ ((v : Int) < 0) := by omega
  simp only [this, if_false, Int.toNat_natCast]
  cases vals.findIdx? (· == v) with
  | some i => rfl
  | none => cases dflt <;> rfl

theorem slice_to_last' {α : Type} (l : List α) : slice l none (some (-1)) = l.dropLast := by
  unfold slice clampIdx
  have h : ((-1 : Int) + (l.length : Nat)).toNat = l.length - 1 := by omega
  simp only [show ((-1 : Int) < 0) by decide, if_true, h, List.drop_zero, Nat.sub_zero, List.dropLast_eq_take]

theorem slice_from_last' {α : Type} (l : List α) : slice l (some (-1)) none = l.drop (l.length - 1) := by
  unfold slice clampIdx
  have h : ((-1 : Int) + (l.length : Nat)).toNat = l.length - 1 := by omega
  simp only [show ((-1 : Int) < 0) by decide, if_true, h]
  rw [List.take_of_length_le (by simp)]

theorem isOctets_slice (d : Bytes) (hd : Transl.BitsBytes.isOctets d) (a b : Nat) :
    Transl.BitsBytes.isOctets (Dmr.Ipsc.slice d a b) := by
  intro x hx
  unfold Dmr.Ipsc.slice at hx
  exact hd x (List.mem_of_mem_take (List.mem_of_mem_drop hx))

/-- `HyteraIPSC.from_ipsc_bytes(ipsc)`, every octet string of every length: the model's `fromIpscBytes` (`ValueError` of the
enum calls in the order of the source) -/
theorem from_ipsc_bytes_eq (d : Bytes) (hd : Transl.BitsBytes.isOctets d) :
    from_ipsc_bytes d = ofI toObj (Dmr.Ipsc.fromIpscBytes d) := by
  unfold from_ipsc_bytes Dmr.Ipsc.fromIpscBytes
  simp only [slice_lit_lit, fromBig_be, fromLittle_le, enumCall_nat]
  cases Dmr.Ipsc.lookup Gen.Ipsc.packetTypeVal Gen.Ipsc.packetTypeDefault (Dmr.Ipsc.be (Dmr.Ipsc.slice d 8 9)) with
  | none => rfl
  | some pt =>
  simp only [ok_bind]
  cases Dmr.Ipsc.lookup Gen.Ipsc.timeslotVal Gen.Ipsc.timeslotDefault (Dmr.Ipsc.le (Dmr.Ipsc.slice d 16 18)) with
  | none => rfl
  | some ts =>
  simp only [ok_bind]
  cases Dmr.Ipsc.lookup Gen.Ipsc.slotTypeVal Gen.Ipsc.slotTypeDefault (Dmr.Ipsc.le (Dmr.Ipsc.slice d 18 20)) with
  | none => rfl
  | some st =>
  simp only [ok_bind]
  cases Dmr.Ipsc.lookup Gen.Ipsc.frameTypeVal Gen.Ipsc.frameTypeDefault (Dmr.Ipsc.le (Dmr.Ipsc.slice d 22 24)) with
  | none => rfl
  | some ft =>
  simp only [ok_bind]
  rw [Transl.BitsBytes.byteswap_bytes_eq _ (isOctets_slice d hd 26 60)]
  simp only [ok_bind]
  cases Dmr.Ipsc.lookup Gen.Ipsc.callTypeVal Gen.Ipsc.callTypeDefault (Dmr.Ipsc.le (Dmr.Ipsc.slice d 62 63)) with
  | none => rfl
  | some ct =>
  simp only [ok_bind, pure_eq_ok, ofI, toObj, slice_to_last', slice_from_last', ← Transl.BitsBytes.byteswap_models]
  congr 1
  have e1 : band ((Dmr.Ipsc.le (Dmr.Ipsc.slice d 20 22) : Nat) : Int) 15 = ((Dmr.Ipsc.le (Dmr.Ipsc.slice d 20 22) % 16 : Nat) : Int) := by
    rw [band_lit]; congr 1; exact Nat.and_two_pow_sub_one_eq_mod _ 4
  simp only [e1, shrN_ofNat]

/-! ### `as_ipsc_bytes` -/

theorem octetsLE_toLe : ∀ (n v : Nat), octetsLE n v = Dmr.Ipsc.toLe n v := by
  intro n
  induction n with
  | zero => intro v; rfl
  | succ n ih => intro v; simp only [octetsLE, Dmr.Ipsc.toLe, ih]

theorem toBytesLittle_nat (v n : Nat) :
    toBytesLittle (v : Int) (n : Int) = if v < 256 ^ n then .ok (Dmr.Ipsc.toLe n v) else .error .overflow := by
  unfold toBytesLittle
  have h1 : ¬ ((n : Int) < 0) := by omega
  have h2 : ¬ ((v : Int) < 0) := by omega
  simp only [h1, h2, if_false, Int.toNat_natCast, octetsLE_toLe]
  by_cases h : v < 256 ^ n <;> simp [h] <;> rfl

theorem enumValue_nat (vals : List Nat) (i : Nat) :
    PyRec.enumValue vals (i : Int) = ((Dmr.Ipsc.valOf vals i : Nat) : Int) := by
  unfold PyRec.enumValue Dmr.Ipsc.valOf; simp

theorem valOf_lt (vals : List Nat) (bound : Nat) (hb : 0 < bound) (h : ∀ v ∈ vals, v < bound) (i : Nat) :
    Dmr.Ipsc.valOf vals i < bound := by
  unfold Dmr.Ipsc.valOf
  rw [List.getD_eq_getElem?_getD]
  cases hv : vals[i]? with
  | none => simpa using hb
  | some v => simpa using h v (List.mem_of_getElem? hv)

theorem toBytesLittle_lit (v n : Nat) :
    toBytesLittle (v : Int) (no_index (@OfNat.ofNat Int n _)) = if v < 256 ^ n then .ok (Dmr.Ipsc.toLe n v) else .error .overflow :=
  toBytesLittle_nat v n

theorem pt_lt : ∀ v ∈ Gen.Ipsc.packetTypeVal, v < 256 ^ 1 := by decide
theorem ct_lt : ∀ v ∈ Gen.Ipsc.callTypeVal, v < 256 ^ 1 := by decide
theorem ts_lt : ∀ v ∈ Gen.Ipsc.timeslotVal, v < 256 ^ 2 := by decide
theorem st_lt : ∀ v ∈ Gen.Ipsc.slotTypeVal, v < 256 ^ 2 := by decide
theorem ft_lt : ∀ v ∈ Gen.Ipsc.frameTypeVal, v < 256 ^ 2 := by decide

theorem halfByte_err (h n : Nat) (e : Dmr.Ipsc.Err) (he : Dmr.Ipsc.halfByte h n = .error e) : e = .value := by
  unfold Dmr.Ipsc.halfByte at he
  by_cases c : (h ||| (h <<< 4)) ≥ 256
  · simp [c] at he; exact he.symm
  · simp [c] at he

/-- `as_ipsc_bytes()` of every object whose byte-string attributes hold octets: the model's `asIpscBytes` (`OverflowError` /
`ValueError` in the order of the source) -/
theorem as_ipsc_bytes_eq (x : Dmr.Ipsc.Ipsc) (hp : Transl.BitsBytes.isOctets x.payload) (hpad : Transl.BitsBytes.isOctets x.pad) :
    as_ipsc_bytes (toObj x) = ofI id (Dmr.Ipsc.asIpscBytes x) := by
  unfold as_ipsc_bytes toObj Dmr.Ipsc.asIpscBytes
  simp only [slice_lit_lit, enumValue_nat, toBytesLittle_lit, shlN_ofNat,
    valOf_lt _ _ (by decide) pt_lt, valOf_lt _ _ (by decide) ct_lt, valOf_lt _ _ (by decide) ts_lt,
    valOf_lt _ _ (by decide) st_lt, valOf_lt _ _ (by decide) ft_lt, if_true, ok_bind]
  have hsw : Transl.BitsBytes.byteswap_bytes (x.payload ++ Dmr.Ipsc.slice x.pad 0 1)
      = .ok (Dmr.Ipsc.byteswap (x.payload ++ Dmr.Ipsc.slice x.pad 0 1)) := by
    rw [Transl.BitsBytes.byteswap_bytes_eq, Transl.BitsBytes.byteswap_models]
    intro v hv
    rcases List.mem_append.mp hv with h | h
    · exact hp v h
    · exact isOctets_slice x.pad hpad 0 1 v h
  have hhb := Transl.BitsBytes.half_byte_eq x.cc 2
  rw [show ((2 : Nat) : Int) = 2 from rfl] at hhb
  have p8 : (2 : Nat) ^ 8 = 256 := by decide
  have p4 : (256 : Nat) ^ 4 = 4294967296 := by decide
  have p1 : (256 : Nat) ^ 1 = 256 := by decide
  by_cases hseq : x.seq ≥ 256
  · have : ¬ x.seq < 256 ^ 1 := by rw [p1]; omega
    simp only [this, if_false, hseq, if_true]; rfl
  · have h1 : x.seq < 256 ^ 1 := by rw [p1]; omega
    simp only [h1, if_true, ok_bind, hseq, if_false, hhb]
    clear h1
    cases hh : Dmr.Ipsc.halfByte x.cc 2 with
    | error e =>
      have := halfByte_err _ _ _ hh
      subst this; rfl
    | ok cc =>
      simp only [ok_bind, hsw]
      by_cases hd : x.dst * 256 ≥ 4294967296
      · have : ¬ x.dst * 2 ^ 8 < 256 ^ 4 := by rw [p8, p4]; omega
        simp only [this, if_false, hd, if_true]; rfl
      · have hd' : x.dst * 2 ^ 8 < 256 ^ 4 := by rw [p8, p4]; omega
        simp only [hd', if_true, ok_bind, hd, if_false]
        clear hd'
        by_cases hs : x.src * 256 ≥ 4294967296
        · have : ¬ x.src * 2 ^ 8 < 256 ^ 4 := by rw [p8, p4]; omega
          simp only [this, if_false, hs, if_true]; rfl
        · have hs' : x.src * 2 ^ 8 < 256 ^ 4 := by rw [p8, p4]; omega
          simp only [hs', if_true, ok_bind, hs, if_false, pure_eq_ok, ofI, id]
          clear hs'
          have e : Dmr.Ipsc.toLe 1 x.seq = [x.seq] := by
            simp only [Dmr.Ipsc.toLe, List.cons.injEq, and_true]; omega
          rw [p8, e]


/-! ### decode ∘ serialise -/

theorem swapList_mem : ∀ (l : Bytes) (x : Nat), x ∈ PyArr.swapList l → x ∈ l := by
  intro l
  induction l using Transl.BitsBytes.pairs_induct with
  | h0 => intro x h; exact h
  | h1 y => intro x h; exact h
  | h2 a b r ih =>
    intro x h
    simp only [PyArr.swapList, List.mem_cons] at h ⊢
    rcases h with h | h | h
    · exact Or.inr (Or.inl h)
    · exact Or.inl h
    · exact Or.inr (Or.inr (ih x h))

theorem decoded_octets (d : Bytes) (hd : Transl.BitsBytes.isOctets d) (x : Dmr.Ipsc.Ipsc)
    (hx : Dmr.Ipsc.fromIpscBytes d = .ok x) :
    Transl.BitsBytes.isOctets x.payload ∧ Transl.BitsBytes.isOctets x.pad := by
  have hsw : ∀ v ∈ Dmr.Ipsc.byteswap (Dmr.Ipsc.slice d 26 60), v < 256 := by
    intro v hv
    rw [Transl.BitsBytes.byteswap_models, ← Transl.BitsBytes.swapList_crc] at hv
    exact isOctets_slice d hd 26 60 v (swapList_mem _ v hv)
  unfold Dmr.Ipsc.fromIpscBytes at hx
  split at hx
  · cases hx
  · split at hx
    · cases hx
    · split at hx
      · cases hx
      · split at hx
        · cases hx
        · split at hx
          · cases hx
          · simp only [Except.ok.injEq] at hx
            subst hx
            exact ⟨fun v hv => hsw v (List.dropLast_subset _ hv), fun v hv => hsw v (List.mem_of_mem_drop hv)⟩

/-- decode then re-serialise, both with the translated functions, is the model's composition — every octet string -/
theorem roundtrip_general (d : Bytes) (hd : Transl.BitsBytes.isOctets d) :
    (from_ipsc_bytes d >>= as_ipsc_bytes) = ofI id ((Dmr.Ipsc.fromIpscBytes d).bind Dmr.Ipsc.asIpscBytes) := by
  rw [from_ipsc_bytes_eq d hd]
  cases hx : Dmr.Ipsc.fromIpscBytes d with
  | error e => rfl
  | ok x =>
    obtain ⟨hp, hpad⟩ := decoded_octets d hd x hx
    show as_ipsc_bytes (toObj x) = _
    rw [as_ipsc_bytes_eq x hp hpad]; rfl


end Dmr.Transl.Ipsc
