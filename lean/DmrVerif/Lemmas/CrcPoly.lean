import Mathlib.Algebra.Polynomial.Div
import Mathlib.Data.ZMod.Basic
import Mathlib.Algebra.CharP.Two
import DmrVerif.Lemmas.Crc

/-!
The specification side of C05: bit strings as polynomials over GF(2) = `ZMod 2` (Mathlib), the
generator polynomial `G = X^w + P`, and the register invariant

  after the prefix `m` (started from the register content `r`) the register is
  `(r(x)·x^|m| + m(x)·x^w) mod G`,

hence for the zero initial value the CRC is the remainder of `message(x)·x^w` modulo `G`
(`Polynomial.modByMonic`, `%ₘ`).
-/

open Polynomial

namespace Dmr
namespace Crc

abbrev F2 := ZMod 2

/-- a bit as a coefficient -/
noncomputable def bitC (b : Bool) : F2[X] := if b then 1 else 0

/-- the polynomial of a bit string, first bit = highest power: `Σ bs[i]·X^(|bs|-1-i)` -/
noncomputable def toPoly : Bits → F2[X]
  | [] => 0
  | b :: bs => bitC b * X ^ bs.length + toPoly bs

/-- the generator polynomial of a configuration: `X^w + (polynomial field read as w bits)` -/
noncomputable def genPoly (c : CrcConfig) : F2[X] := X ^ c.w + toPoly (polyBits c)

@[simp] theorem bitC_false : bitC false = 0 := rfl
@[simp] theorem bitC_true : bitC true = 1 := rfl

theorem bitC_xor (a b : Bool) : bitC (Bool.xor a b) = bitC a + bitC b := by
  cases a <;> cases b <;> simp [CharTwo.add_self_eq_zero]

@[simp] theorem toPoly_nil : toPoly [] = 0 := rfl

theorem toPoly_cons (b : Bool) (bs : Bits) :
    toPoly (b :: bs) = bitC b * X ^ bs.length + toPoly bs := rfl

theorem toPoly_append (a b : Bits) : toPoly (a ++ b) = toPoly a * X ^ b.length + toPoly b := by
  induction a with
  | nil => simp
  | cons x xs ih =>
    rw [List.cons_append, toPoly_cons, toPoly_cons, ih, List.length_append, pow_add]
    ring

theorem toPoly_zeros (n : Nat) : toPoly (zeros n) = 0 := by
  induction n with
  | zero => simp
  | succ n ih => simp [toPoly_cons, ih]

theorem degree_bitC_mul_X_pow_le (b : Bool) (n : Nat) : degree (bitC b * X ^ n : F2[X]) ≤ n := by
  cases b
  · simp
  · simp [degree_X_pow]

theorem degree_toPoly_lt (bs : Bits) : degree (toPoly bs) < bs.length := by
  induction bs with
  | nil => simp
  | cons b bs ih =>
    rw [toPoly_cons]
    refine lt_of_le_of_lt (degree_add_le _ _) (max_lt ?_ ?_)
    · refine lt_of_le_of_lt (degree_bitC_mul_X_pow_le b _) ?_
      exact_mod_cast Nat.lt_succ_self _
    · refine lt_trans ih ?_
      exact_mod_cast Nat.lt_succ_self _

theorem toPoly_xor (a b : Bits) (h : a.length = b.length) :
    toPoly (xorBits a b) = toPoly a + toPoly b := by
  induction a generalizing b with
  | nil => cases b with
    | nil => simp
    | cons _ _ => simp at h
  | cons x xs ih => cases b with
    | nil => simp at h
    | cons y ys =>
      simp only [List.length_cons, Nat.add_right_cancel_iff] at h
      rw [xorBits_cons_cons, toPoly_cons, toPoly_cons, toPoly_cons, ih ys h, bitC_xor,
        xorBits_length, h, Nat.min_self]
      ring

theorem toPoly_sel (c : Bool) (p : Bits) : toPoly (sel c p) = bitC c * toPoly p := by
  cases c <;> simp [sel, toPoly_zeros]

theorem toPoly_eq_zero (a : Bits) (h : toPoly a = 0) : a = zeros a.length := by
  induction a with
  | nil => rfl
  | cons x xs ih =>
    cases x with
    | false =>
      simp only [toPoly_cons, bitC_false, zero_mul, zero_add] at h
      rw [List.length_cons, zeros_succ, ← ih h]
    | true =>
      exfalso
      simp only [toPoly_cons, bitC_true, one_mul] at h
      have hd : degree (X ^ xs.length + toPoly xs : F2[X]) = xs.length := by
        rw [degree_add_eq_left_of_degree_lt (by rw [degree_X_pow]; exact degree_toPoly_lt xs),
          degree_X_pow]
      rw [h, degree_zero] at hd
      exact absurd hd (by simp)

/-- a bit string of a given length is determined by its polynomial -/
theorem toPoly_injective (a b : Bits) (hl : a.length = b.length) (h : toPoly a = toPoly b) : a = b := by
  have h0 : toPoly (xorBits a b) = 0 := by
    rw [toPoly_xor a b hl, h, CharTwo.add_self_eq_zero]
  have := toPoly_eq_zero _ h0
  rw [xorBits_length, ← hl, Nat.min_self] at this
  exact (xorBits_eq_zeros_iff a b hl).mp this

theorem genPoly_monic (c : CrcConfig) : (genPoly c).Monic :=
  monic_X_pow_add (by have := degree_toPoly_lt (polyBits c); rwa [polyBits_length] at this)

theorem degree_genPoly (c : CrcConfig) : degree (genPoly c) = c.w := by
  unfold genPoly
  rw [degree_add_eq_left_of_degree_lt, degree_X_pow]
  rw [degree_X_pow]
  have := degree_toPoly_lt (polyBits c); rwa [polyBits_length] at this

/-- `((a mod g)·c + d) mod g = (a·c + d) mod g` -/
theorem mod_mul_add_mod {g : F2[X]} (hg : g.Monic) (a c d : F2[X]) :
    ((a %ₘ g) * c + d) %ₘ g = (a * c + d) %ₘ g := by
  conv => rhs; rw [← modByMonic_add_div a g]
  rw [add_mul, add_assoc, add_comm (g * (a /ₘ g) * c), ← add_assoc, add_modByMonic _ (g * (a /ₘ g) * c),
    mul_assoc, self_mul_modByMonic hg, add_zero]

/-- one shift of the register is `(r(x)·x + b·x^w) mod G` -/
theorem toPoly_stepBit (c : CrcConfig) (r : Bits) (b : Bool) (hr : r.length = c.w) :
    toPoly (stepBit (polyBits c) r b) = (toPoly r * X + bitC b * X ^ c.w) %ₘ genPoly c := by
  have hlen : (stepBit (polyBits c) r b).length = c.w := by
    rw [stepBit_length _ _ _ (by rw [polyBits_length, hr]), hr]
  have hdeg : degree (toPoly (stepBit (polyBits c) r b)) < degree (genPoly c) := by
    rw [degree_genPoly]
    have := degree_toPoly_lt (stepBit (polyBits c) r b); rwa [hlen] at this
  symm
  cases r with
  | nil =>
    -- width 0: everything is 0 modulo the constant polynomial 1
    have hw : c.w = 0 := by simpa using hr.symm
    have h1 : genPoly c = 1 := by
      unfold genPoly
      have : polyBits c = [] := List.eq_nil_of_length_eq_zero (by rw [polyBits_length, hw])
      rw [this, hw]; simp
    have : stepBit (polyBits c) [] b = [] := List.eq_nil_of_length_eq_zero (by rw [hlen, hw])
    rw [this, h1]; simp
  | cons x r' =>
    have hr' : r'.length + 1 = c.w := by simpa using hr
    refine (div_modByMonic_unique (bitC (x != b)) _ (genPoly_monic c) ⟨?_, hdeg⟩).2
    rw [stepBit_eq _ _ _ (by rw [polyBits_length, hr]), shl_one_cons,
      toPoly_xor _ _ (by simp [sel_length, polyBits_length, hr']), toPoly_append, toPoly_cons]
    have hsel : toPoly (sel ((x :: r').headD false != b) (polyBits c))
        = bitC (x != b) * toPoly (polyBits c) := by
      rw [toPoly_sel]; rfl
    have hxb : bitC (x != b) = bitC x + bitC b := by
      cases x <;> cases b <;> simp [CharTwo.add_self_eq_zero]
    rw [hsel, hxb]
    unfold genPoly
    simp only [toPoly_cons, toPoly_nil, bitC_false, zero_mul, add_zero, List.length_cons,
      List.length_nil, pow_one, zero_add]
    rw [← hr', pow_succ]
    have e : (bitC x + bitC b) * toPoly (polyBits c) + (bitC x + bitC b) * toPoly (polyBits c) = 0 :=
      CharTwo.add_self_eq_zero _
    calc toPoly r' * X + (bitC x + bitC b) * toPoly (polyBits c)
          + (X ^ r'.length * X + toPoly (polyBits c)) * (bitC x + bitC b)
        = (bitC x * X ^ r'.length + toPoly r') * X + bitC b * (X ^ r'.length * X)
          + ((bitC x + bitC b) * toPoly (polyBits c) + (bitC x + bitC b) * toPoly (polyBits c)) := by
          ring
      _ = _ := by rw [e, add_zero]

/-- **Register invariant.**  Started from the content `r`, after the message `m` the register holds
`(r(x)·x^|m| + m(x)·x^w) mod G`. -/
theorem toPoly_procBits (c : CrcConfig) (r m : Bits) (hr : r.length = c.w) :
    toPoly (procBits (polyBits c) r m)
      = (toPoly r * X ^ m.length + toPoly m * X ^ c.w) %ₘ genPoly c := by
  induction m generalizing r with
  | nil =>
    simp only [procBits_nil, List.length_nil, pow_zero, mul_one, toPoly_nil, zero_mul, add_zero]
    rw [(modByMonic_eq_self_iff (genPoly_monic c)).mpr]
    rw [degree_genPoly]
    have := degree_toPoly_lt r; rwa [hr] at this
  | cons b bs ih =>
    rw [procBits_cons, ih _ (by rw [stepBit_length _ _ _ (by rw [polyBits_length, hr]), hr]),
      toPoly_stepBit c r b hr, mod_mul_add_mod (genPoly_monic c), toPoly_cons, List.length_cons]
    congr 1
    ring

end Crc
end Dmr
