import DmrVerif.Lemmas.RsCode

/-!
C11 helpers, part 7: fixed points of the loop body of `generate` (`Model/Rs.lean: step`, `fixOf`, `fixSym`).

A loop pass with message octet `x` leaves the register `p` unchanged exactly if `p = fixOf (x ^^^ p.2.2)`; for every
feedback symbol `s` the register `fixOf s` is stationary under the octet `fixSym s` and under no other octet; the 256
registers `fixOf s` are pairwise different; `fixOf s` is reached by the three octets `s·01, s·0f, s·37` (after any number
of leading zero octets), and `fixSym s = s·77` (`77 = g(1)`).  Such messages are met by random sampling with probability
2⁻²⁴ per step; the differential run constructs them for every `s` and every step.
-/

namespace Dmr.Rs
open Dmr Dmr.Gen

theorem xor_eq_zero_imp {a b : Nat} (h : a ^^^ b = 0) : a = b := by
  have : (a ^^^ b) ^^^ b = a := by rw [Nat.xor_assoc, Nat.xor_self, Nat.xor_zero]
  rw [← this, h, Nat.zero_xor]

theorem xor_right_cancel {a b c : Nat} (h : a ^^^ c = b ^^^ c) : a = b := by
  have ha : (a ^^^ c) ^^^ c = a := by rw [Nat.xor_assoc, Nat.xor_self, Nat.xor_zero]
  have hb : (b ^^^ c) ^^^ c = b := by rw [Nat.xor_assoc, Nat.xor_self, Nat.xor_zero]
  rw [← ha, ← hb, h]

/-- multiplication by a non-zero octet is injective on octets -/
theorem logMultiply_cancel (c a b : Nat) (hc0 : c ≠ 0) (hc : c < 256) (ha : a < 256) (hb : b < 256)
    (h : logMultiply c a = logMultiply c b) : a = b := by
  have hx : logMultiply c (a ^^^ b) = 0 := by
    rw [logMultiply_xor c a b hc ha hb, h, Nat.xor_self]
  rcases logMultiply_eq_zero c (a ^^^ b) hc (xor_lt_256 ha hb) hx with h0 | h0
  · exact absurd h0 hc0
  · exact xor_eq_zero_imp h0

theorem poly0_ne_zero : polyAt 0 ≠ 0 := by decide +kernel

/-- A loop pass leaves the register unchanged exactly if the register is the fixed point of its feedback symbol. -/
theorem step_eq_self_iff (p : Nat × Nat × Nat) (x : Nat) :
    step p x = p ↔ p = fixOf (Nat.xor x p.2.2) := by
  obtain ⟨p0, p1, p2⟩ := p
  simp only [step, fixOf, Prod.mk.injEq]
  constructor
  · rintro ⟨h0, h1, h2⟩
    refine ⟨h0.symm, ?_, ?_⟩
    · rw [h0]; exact h1.symm
    · rw [h0, h1]; exact h2.symm
  · rintro ⟨h0, h1, h2⟩
    rw [← h0] at h1 h2
    rw [← h1] at h2
    exact ⟨h0.symm, h1.symm, h2.symm⟩

/-- `fixOf s` is stationary under the octet `fixSym s` -/
theorem step_fixOf (s : Nat) : step (fixOf s) (fixSym s) = fixOf s := by
  rw [step_eq_self_iff]
  have : Nat.xor (fixSym s) (fixOf s).2.2 = s := by
    simp only [fixSym, nxor]
    rw [Nat.xor_assoc, Nat.xor_self, Nat.xor_zero]
  rw [this]

theorem fixOf_lt (s : Nat) : lt3 (fixOf s) := by
  have h0 : logMultiply (polyAt 0) s < 256 := logMultiply_lt _ _
  have h1 := xor_lt_256 h0 (logMultiply_lt (polyAt 1) s)
  exact ⟨h0, h1, xor_lt_256 h1 (logMultiply_lt (polyAt 2) s)⟩

/-- the 256 fixed points are pairwise different (and `fixOf s` is the zero register only for `s = 0`) -/
theorem fixOf_inj (s t : Nat) (hs : s < 256) (ht : t < 256) (h : fixOf s = fixOf t) : s = t := by
  have h0 : logMultiply (polyAt 0) s = logMultiply (polyAt 0) t := congrArg Prod.fst h
  exact logMultiply_cancel _ s t poly0_ne_zero poly_lt.1 hs ht h0

/-- at most one octet keeps a given register: if two loop passes from the same register change nothing, the octets are equal -/
theorem stationary_octet_unique (p : Nat × Nat × Nat) (x y : Nat) (hp : lt3 p) (hx : x < 256) (hy : y < 256)
    (h1 : step p x = p) (h2 : step p y = p) : x = y := by
  rw [step_eq_self_iff] at h1 h2
  have h := fixOf_inj _ _ (xor_lt_256 hx hp.2.2) (xor_lt_256 hy hp.2.2) (h1.symm.trans h2)
  exact xor_right_cancel h

theorem parity_snoc (pre : Bytes) (x : Nat) : parity (pre ++ [x]) = step (parity pre) x := by
  simp [parity, List.foldl_append]

theorem parity_lt (pre : Bytes) (bp : isBytes pre = true) : lt3 (parity pre) :=
  (parity_lift pre bp (0, 0, 0) lt3_zero).1

theorem step_zero_zero : step (0, 0, 0) 0 = (0, 0, 0) := by decide +kernel

/-- leading zero octets do not move the register -/
theorem parity_zeros_append (n : Nat) (d : Bytes) : parity (List.replicate n 0 ++ d) = parity d := by
  unfold parity
  rw [List.foldl_append]
  congr 1
  induction n with
  | zero => rfl
  | succ k ih => rw [List.replicate_succ, List.foldl_cons, step_zero_zero]; exact ih

/-- repeating the stationary octet keeps the register where it is -/
theorem foldl_step_fix (s j : Nat) : (List.replicate j (fixSym s)).foldl step (fixOf s) = fixOf s := by
  induction j with
  | zero => rfl
  | succ k ih => rw [List.replicate_succ, List.foldl_cons, step_fixOf]; exact ih

/-- packed enumeration of the 256 feedback symbols: the three octets `s·01, s·0f, s·37` drive the register from zero to
`fixOf s`, and `fixSym s = s·77` -/
def reachCase (s : Nat) : Bool :=
  let p := parity [logMultiply s 0x01, logMultiply s 0x0f, logMultiply s 0x37]
  let f := fixOf s
  Nat.beq p.1 f.1 && Nat.beq p.2.1 f.2.1 && Nat.beq p.2.2 f.2.2 && Nat.beq (fixSym s) (logMultiply s 0x77)

theorem reach_all : allBin reachCase 8 0 = true := by decide +kernel

theorem reach_spec (s : Nat) (hs : s < 256) :
    parity [logMultiply s 0x01, logMultiply s 0x0f, logMultiply s 0x37] = fixOf s ∧ fixSym s = logMultiply s 0x77 := by
  have h := allBin_spec reachCase 8 0 reach_all s (by omega) (by omega)
  simp only [reachCase, Bool.and_eq_true, nbeq] at h
  obtain ⟨⟨⟨a, b⟩, c⟩, d⟩ := h
  exact ⟨Prod.ext a (Prod.ext b c), d⟩

end Dmr.Rs
