import DmrVerif.Model.Burst
import DmrVerif.Lemmas.Layout
import DmrVerif.Lemmas.Elem
import DmrVerif.Props.C06

/-!
# Burst: slot type, embedded signalling, framing

* `SlotType.dec (SlotType.enc st) = st` and `Emb.dec (Emb.enc e) = e` for the objects the constructors
  build with generated parity (a parity field that happens to be 0 is regenerated to the same value);
* the embedded-signalling word with generated parity is a QR(16,7,6) code word, no sync pattern's outer
  16 bits are one (kernel-decided on the extracted patterns) — so valid EMB never resolves to a SYNC;
* the 98 + 10 + 48 + 10 + 98 framing is recovered by the slices `Burst.__init__` takes.
-/

set_option linter.unusedSimpArgs false

namespace Dmr
open Dmr.Gen Dmr.Gen.Burst

/-! ## finite facts about the extracted tables -/

/-- the sync patterns are 48-bit values, pairwise distinct; the four voice and the four data patterns
are patterns and are disjoint -/
theorem sync_tables :
    syncValues.all (fun v => decide (v < 2 ^ 48)) = true ∧ syncValues.Nodup ∧
    voiceSyncs.all syncValues.contains = true ∧ dataSyncs.all syncValues.contains = true ∧
    voiceSyncs.all (fun v => !dataSyncs.contains v) = true ∧ voiceSyncs.length = 4 ∧ dataSyncs.length = 4 := by
  decide +kernel

/-- outer 16 bits (first and last octet) of a 48-bit word -/
def outer16 (c : Bits) : Bits := c.take 8 ++ c.drop 40

/-- no sync pattern's outer 16 bits form a QR(16,7,6) code word -/
theorem sync_not_emb : syncValues.all (fun v => !qr1676.check (outer16 (natToBits 48 v))) = true := by
  decide +kernel

/-- the data types with a PDU layout are defined members, distinct from Reserved -/
theorem data_types_defined :
    [dtPIHeader, dtVoiceLCHeader, dtTerminatorWithLC, dtCSBK, dtDataHeader, dtRate12Data, dtRate34Data,
     dtRate1Data].all (fun d => eDataTypes.defined d && decide (d ≠ dtReserved)) = true
    ∧ dtOfRate12 = dtRate12Data ∧ dtOfRate34 = dtRate34Data ∧ dtOfRate1 = dtRate1Data := by decide +kernel

theorem golay_wf : golay2087.WFProp := C06.wf (by simp [C06.codes])
theorem qr_wf : qr1676.WFProp := C06.wf (by simp [C06.codes])

theorem golay_dims : golay2087.n = 20 ∧ golay2087.k = 8 := by decide +kernel
theorem qr_dims : qr1676.n = 16 ∧ qr1676.k = 7 := by decide +kernel

theorem eDataTypes_total : eDataTypes.total = true := Elem.total_of_mem (by simp [allElems])

/-! ## slot type -/

namespace SlotType

/-- the parity `SlotType(colour_code, data_type)` generates -/
def genParity (cc dt : Nat) : Nat := bitsToNat ((golay2087.gen (natToBits 4 cc ++ natToBits 4 dt)).drop 8)

theorem genParity_lt (cc dt : Nat) : genParity cc dt < 2 ^ 12 := by
  apply bitsToNat_lt_of_le
  simp [Code.gen_length, golay_dims.1]

theorem init_gen (cc dt : Nat) (hcc : cc < 16) (hdt : eDataTypes.defined dt = true) :
    init cc dt 0 = .ok ⟨cc, dt, genParity cc dt⟩ := by
  have hd := Elem.dec_defined eDataTypes_total hdt
  have hl : dt < 2 ^ 4 := Elem.lt_of_defined eDataTypes_total hdt
  unfold init
  rw [if_neg (by omega), if_neg (by omega), if_neg (by omega), hd]
  simp only [Nat.lt_irrefl, Nat.zero_lt_one, ↓reduceIte, enc, genParity]
  have : slice (natToBits 4 cc ++ (natToBits 4 dt ++ natToBits 12 0)) 0 8 = natToBits 4 cc ++ natToBits 4 dt := by
    rw [← List.append_assoc]; exact slice_append_exact _ _ 8 (by simp)
  rw [this]

theorem enc_length (s : SlotType) : s.enc.length = 20 := by simp [enc]

/-- a slot type with generated parity is read back unchanged -/
theorem dec_enc (cc dt : Nat) (hcc : cc < 16) (hdt : eDataTypes.defined dt = true) :
    dec (enc ⟨cc, dt, genParity cc dt⟩) = .ok ⟨cc, dt, genParity cc dt⟩ := by
  have hd := Elem.dec_defined eDataTypes_total hdt
  have hl : dt < 2 ^ 4 := Elem.lt_of_defined eDataTypes_total hdt
  have hp := genParity_lt cc dt
  have hcc' : cc < 2 ^ 4 := by omega
  unfold dec
  rw [if_neg (by simp [enc_length])]
  simp only [enc]
  layout_simp [hcc', hl, hp]
  by_cases h0 : genParity cc dt = 0
  · rw [h0]; rw [init_gen cc dt hcc hdt, h0]
  · unfold init
    rw [if_neg (by omega), if_neg (by omega), if_neg (by omega), hd]
    simp only
    rw [if_neg (by omega)]

end SlotType

/-! ## embedded signalling -/

namespace Emb

/-- the seven information bits of an EMB word -/
def info (cc pi lcss : Nat) : Bits := natToBits 4 cc ++ (natToBits 1 pi ++ natToBits 2 lcss)

def genParity (cc pi lcss : Nat) : Nat := bitsToNat (slice (qr1676.gen (info cc pi lcss)) 7 9)

theorem info_length (cc pi lcss : Nat) : (info cc pi lcss).length = 7 := by simp [info]

theorem genParity_lt (cc pi lcss : Nat) : genParity cc pi lcss < 2 ^ 9 := by
  apply bitsToNat_lt_of_le; simp [slice_length]; omega

theorem pi_graph : ∀ v, v < 2 → ePreemptionPowerIndicator.dec v = .ok v := by
  intro v hv; have : v = 0 ∨ v = 1 := by omega
  rcases this with rfl | rfl <;> rfl
theorem lcss_graph : ∀ v, v < 4 → eLCSS.dec v = .ok v := by
  intro v hv; have : v = 0 ∨ v = 1 ∨ v = 2 ∨ v = 3 := by omega
  rcases this with rfl | rfl | rfl | rfl <;> rfl

theorem init_gen (cc pi lcss : Nat) (hcc : cc < 16) (hpi : pi < 2) (hl : lcss < 4) :
    init cc pi lcss 0 = .ok ⟨cc, pi, lcss, genParity cc pi lcss⟩ := by
  unfold init
  rw [if_neg (by omega), if_neg (by omega), if_neg (by omega), pi_graph pi hpi, lcss_graph lcss hl]
  simp only [Nat.le_refl, ↓reduceIte, enc, genParity, info]
  have : slice (natToBits 4 cc ++ (natToBits 1 pi ++ (natToBits 2 lcss ++ natToBits 9 0))) 0 7
      = natToBits 4 cc ++ (natToBits 1 pi ++ natToBits 2 lcss) := by
    rw [← List.append_assoc (natToBits 1 pi), ← List.append_assoc (natToBits 4 cc)]
    exact slice_append_exact _ _ 7 (by simp)
  rw [this]

theorem enc_length (e : Emb) : e.enc.length = 16 := by simp [enc]

/-- a valid EMB word (generated parity) is the QR(16,7,6) code word of its seven information bits -/
theorem enc_codeword (cc pi lcss : Nat) :
    enc ⟨cc, pi, lcss, genParity cc pi lcss⟩ = qr1676.gen (info cc pi lcss) := by
  have hlen : (qr1676.gen (info cc pi lcss)).length = 16 := by rw [Code.gen_length, qr_dims.1]
  have htake := Code.gen_take qr_wf (info cc pi lcss) (by rw [info_length, qr_dims.2])
  rw [qr_dims.2] at htake
  have h9 : (slice (qr1676.gen (info cc pi lcss)) 7 9).length = 9 := by simp [slice_length, hlen]
  unfold enc genParity
  simp only
  rw [natToBits_bitsToNat' _ 9 h9]
  have : slice (qr1676.gen (info cc pi lcss)) 7 9 = (qr1676.gen (info cc pi lcss)).drop 7 := by
    apply slice_all; omega
  rw [this]
  conv => rhs; rw [← List.take_append_drop 7 (qr1676.gen (info cc pi lcss)), htake]
  simp [info, List.append_assoc]

theorem enc_check (cc pi lcss : Nat) : qr1676.check (enc ⟨cc, pi, lcss, genParity cc pi lcss⟩) = true := by
  rw [enc_codeword]
  exact Code.check_gen qr_wf _ (by rw [info_length, qr_dims.2])

/-- an EMB word with generated parity is read back unchanged -/
theorem dec_enc (cc pi lcss : Nat) (hcc : cc < 16) (hpi : pi < 2) (hl : lcss < 4) :
    dec (enc ⟨cc, pi, lcss, genParity cc pi lcss⟩) = .ok ⟨cc, pi, lcss, genParity cc pi lcss⟩ := by
  have hp := genParity_lt cc pi lcss
  have hcc' : cc < 2 ^ 4 := by omega
  have hpi' : pi < 2 ^ 1 := by omega
  have hl' : lcss < 2 ^ 2 := by omega
  unfold dec
  rw [if_neg (by simp [enc_length])]
  simp only [enc]
  layout_simp [hcc', hpi', hl', hp]
  by_cases h0 : genParity cc pi lcss = 0
  · rw [h0]; rw [init_gen cc pi lcss hcc hpi hl, h0]
  · unfold init
    rw [if_neg (by omega), if_neg (by omega), if_neg (by omega), pi_graph pi hpi, lcss_graph lcss hl]
    simp only
    rw [if_neg (by omega)]

end Emb

/-! ## sync resolution -/

theorem resolve_pattern (v : Nat) (h : syncValues.contains v = true) : Sync.resolve v = .pattern v := by
  unfold Sync.resolve; rw [if_pos h]

theorem voice_is_pattern {s : Nat} (h : s ∈ voiceSyncs) : syncValues.contains s = true :=
  List.all_eq_true.mp sync_tables.2.2.1 s h

theorem data_is_pattern {s : Nat} (h : s ∈ dataSyncs) : syncValues.contains s = true :=
  List.all_eq_true.mp sync_tables.2.2.2.1 s h

theorem pattern_lt {s : Nat} (h : syncValues.contains s = true) : s < 2 ^ 48 := by
  have := List.all_eq_true.mp sync_tables.1 s (by simpa using h)
  simpa using this

theorem voice_not_data {s : Nat} (h : s ∈ voiceSyncs) : dataSyncs.contains s = false := by
  have := List.all_eq_true.mp sync_tables.2.2.2.2.1 s h
  simpa using this

/-- a 48-bit centre whose outer 16 bits are a QR code word resolves to `EmbeddedSignalling` -/
theorem resolve_embedded (c : Bits) (hc : c.length = 48) (hq : qr1676.check (outer16 c) = true) :
    Sync.resolve (bitsToNat c) = .embedded := by
  unfold Sync.resolve
  split
  · rename_i hin
    have := List.all_eq_true.mp sync_not_emb (bitsToNat c) (by simpa using hin)
    rw [natToBits_bitsToNat' c 48 hc, hq] at this
    exact absurd this (by simp)
  · rfl

/-! ## framing -/

namespace Burst

/-- data burst: 98 payload bits, 10 slot type bits, 48-bit centre, 10 slot type bits, 98 payload bits -/
def frame (dbi slot center : Bits) : Bits :=
  dbi.take 98 ++ (slot.take 10 ++ (center ++ (slot.drop 10 ++ dbi.drop 98)))

theorem frame_length (dbi slot center : Bits) (hd : dbi.length = 196) (hs : slot.length = 20)
    (hc : center.length = 48) : (frame dbi slot center).length = 264 := by
  simp [frame, hd, hs, hc]

/-- the slices `Burst.__init__` takes recover the three parts -/
theorem frame_split (dbi slot center : Bits) (hd : dbi.length = 196) (hs : slot.length = 20)
    (hc : center.length = 48) :
    let x := frame dbi slot center
    getField x 108 48 = bitsToNat center
    ∧ slice x 98 10 ++ slice x 156 10 = slot
    ∧ x.take 98 ++ x.drop 166 = dbi
    ∧ slice x 116 32 = slice center 8 32
    ∧ slice x 108 8 ++ slice x 148 8 = outer16 center := by
  have h1 : (dbi.take 98).length = 98 := by simp [hd]
  have h2 : (slot.take 10).length = 10 := by simp [hs]
  have h3 : (slot.drop 10).length = 10 := by simp [hs]
  have h4 : (dbi.drop 98).length = 98 := by simp [hd]
  simp only [frame]
  refine ⟨?_, ?_, ?_, ?_, ?_⟩
  · layout_simp [h1, h2, h3, h4, hc]
  · layout_simp [h1, h2, h3, h4, hc]
    exact List.take_append_drop 10 slot
  · rw [List.take_left' h1]
    layout_simp [h1, h2, h3, h4, hc]
    exact List.take_append_drop 98 dbi
  · layout_simp [h1, h2, h3, h4, hc]
  · layout_simp [h1, h2, h3, h4, hc]
    simp only [outer16, slice, List.drop_zero]
    rw [List.take_of_length_le (l := center.drop 40) (by simp [hc])]

theorem voiceFrame_length (v center : Bits) (hv : v.length = 216) (hc : center.length = 48) :
    (voiceFrame v center).length = 264 := by
  simp [voiceFrame, hv, hc]

/-- voice burst: the slices recover the vocoder bits and the centre -/
theorem voiceFrame_split (v center : Bits) (hv : v.length = 216) (hc : center.length = 48) :
    let x := voiceFrame v center
    getField x 108 48 = bitsToNat center
    ∧ x.take 108 ++ x.drop 156 = v
    ∧ slice x 116 32 = slice center 8 32
    ∧ slice x 108 8 ++ slice x 148 8 = outer16 center := by
  have h1 : (v.take 108).length = 108 := by simp [hv]
  have h4 : (v.drop 108).length = 108 := by simp [hv]
  simp only [voiceFrame]
  refine ⟨?_, ?_, ?_, ?_⟩
  · layout_simp [h1, h4, hc]
  · rw [List.take_left' h1]
    layout_simp [h1, h4, hc]
    exact List.take_append_drop 108 v
  · layout_simp [h1, h4, hc]
  · layout_simp [h1, h4, hc]
    simp only [outer16, slice, List.drop_zero]
    rw [List.take_of_length_le (l := center.drop 40) (by simp [hc])]

/-! ## voice bursts -/

/-- **voice burst around a voice sync**: whatever burst type is passed, the burst is parsed as a
vocoder burst (superframe start) and serialises to the identical 264 bits -/
theorem voice_sync_roundtrip (c : Crcs) (v : Bits) (hv : v.length = 216) (s : Nat) (hs : s ∈ voiceSyncs)
    (bt : BurstType) :
    ∃ q, parse c (voiceFrame v (natToBits 48 s)) bt = .ok q ∧ q.isVocoder = true ∧ q.isDataOrControl = false
      ∧ q.sync = .pattern s ∧ q.voiceBits = v ∧ serialise q = .ok (voiceFrame v (natToBits 48 s)) := by
  have hp := voice_is_pattern hs
  have hlt := pattern_lt hp
  have hnd := voice_not_data hs
  have hvs : voiceSyncs.contains s = true := by simpa using hs
  obtain ⟨f1, f2, f3, f4⟩ := voiceFrame_split v (natToBits 48 s) hv (natToBits_length 48 s)
  unfold parse
  rw [if_neg (by simp [voiceFrame_length v _ hv (natToBits_length 48 s)])]
  simp only [f1, f2, f3, bitsToNat_natToBits 48 s hlt, resolve_pattern s hp, hvs, hnd]
  refine ⟨_, by simp; rfl, ?_⟩
  simp [serialise, syncBits, voiceFrame]

/-- same for the two sync patterns that are neither voice nor data (reverse channel, reserved) when
the burst is not announced as data -/
theorem other_sync_roundtrip (c : Crcs) (v : Bits) (hv : v.length = 216) (s : Nat)
    (hs : syncValues.contains s = true) (hnv : voiceSyncs.contains s = false) (hnd : dataSyncs.contains s = false)
    (bt : BurstType) (hbt : bt ≠ .dataAndControl) :
    ∃ q, parse c (voiceFrame v (natToBits 48 s)) bt = .ok q ∧ q.isDataOrControl = false
      ∧ serialise q = .ok (voiceFrame v (natToBits 48 s)) := by
  have hlt := pattern_lt hs
  obtain ⟨f1, f2, f3, f4⟩ := voiceFrame_split v (natToBits 48 s) hv (natToBits_length 48 s)
  unfold parse
  rw [if_neg (by simp [voiceFrame_length v _ hv (natToBits_length 48 s)])]
  simp only [f1, f2, f3, bitsToNat_natToBits 48 s hlt, resolve_pattern s hs, hnv, hnd]
  cases bt
  · refine ⟨_, by simp; rfl, ?_⟩
    simp [serialise, syncBits, voiceFrame]
  · refine ⟨_, by simp; rfl, ?_⟩
    simp [serialise, syncBits, voiceFrame]
  · exact absurd rfl hbt

/-- **voice burst around valid embedded signalling**: any 216 vocoder bits, any colour code / PI /
LCSS with the generated QR parity, any 32 embedded bits — parsed as a burst with EMB (never mistaken
for a SYNC) and serialised to the identical 264 bits -/
theorem voice_emb_roundtrip (c : Crcs) (v : Bits) (hv : v.length = 216) (cc pi lcss : Nat)
    (hcc : cc < 16) (hpi : pi < 2) (hl : lcss < 4) (e32 : Bits) (he : e32.length = 32) (bt : BurstType)
    (hbt : bt ≠ .dataAndControl) :
    let emb : Emb := ⟨cc, pi, lcss, Emb.genParity cc pi lcss⟩
    let x := voiceFrame v (embCenter emb.enc e32)
    ∃ q, parse c x bt = .ok q ∧ q.hasEmb = true ∧ q.emb = some emb ∧ q.embBits = e32 ∧ q.voiceBits = v
      ∧ q.isDataOrControl = false ∧ serialise q = .ok x := by
  intro emb x
  have h16 : emb.enc.length = 16 := Emb.enc_length emb
  have hcl : (embCenter emb.enc e32).length = 48 := by simp [embCenter, h16, he]
  have hout : outer16 (embCenter emb.enc e32) = emb.enc := by
    have h8 : (emb.enc.take 8).length = 8 := by simp [h16]
    simp only [outer16, embCenter]
    rw [List.take_left' h8]
    rw [drop_append_skip _ _ 40 (by simp [h16]), drop_append_skip _ _ _ (by simp [h16, he])]
    simp [h16, he]
  have hres := resolve_embedded _ hcl (by rw [hout]; exact Emb.enc_check cc pi lcss)
  have hmid : slice (embCenter emb.enc e32) 8 32 = e32 := by
    have h8 : (emb.enc.take 8).length = 8 := by simp [h16]
    simp only [embCenter]
    rw [slice_append_right _ _ _ _ (by simp [h16])]
    simp only [h8, Nat.sub_self]
    exact slice_append_exact _ _ 32 he
  obtain ⟨f1, f2, f3, f4⟩ := voiceFrame_split v _ hv hcl
  have hdec := Emb.dec_enc cc pi lcss hcc hpi hl
  show ∃ q, parse c (voiceFrame v (embCenter emb.enc e32)) bt = .ok q ∧ _
  unfold parse
  rw [if_neg (by simp [voiceFrame_length v _ hv hcl])]
  simp only [f1, f2, f3, f4, hres, hout, hmid]
  cases bt
  · simp only [show (emb.enc) = Emb.enc ⟨cc, pi, lcss, Emb.genParity cc pi lcss⟩ from rfl, hdec]
    refine ⟨_, by simp; rfl, ?_⟩
    simp [serialise, voiceFrame, embCenter]
    exact ⟨rfl, by simp [x, emb, voiceFrame, embCenter]⟩
  · simp only [show (emb.enc) = Emb.enc ⟨cc, pi, lcss, Emb.genParity cc pi lcss⟩ from rfl, hdec]
    refine ⟨_, by simp; rfl, ?_⟩
    simp [serialise, voiceFrame, embCenter]
    exact ⟨rfl, by simp [x, emb, voiceFrame, embCenter]⟩
  · exact absurd rfl hbt

end Burst

end Dmr
