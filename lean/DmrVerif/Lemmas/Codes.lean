import DmrVerif.Lemmas.Packed

/-!
Generic theory of a systematic binary block code `G = [I | P]`, `H = [Pᵀ | I]` as the library
represents it (`Code.WF`).  Everything here is proved for an arbitrary `Code` satisfying the
decidable predicate `WF`; `Props/C06.lean` instantiates it with the seven extracted codes.
-/

namespace Dmr

theorem xorBits_map_map {α : Type} (l : List α) (f g : α → Bool) :
    xorBits (l.map f) (l.map g) = l.map (fun x => Bool.xor (f x) (g x)) := by
  induction l with
  | nil => simp
  | cons x xs ih => simp [ih]

theorem col_length (M : List Bits) (j : Nat) : (col M j).length = M.length := by simp [col]

namespace Code

variable (C : Code)

/-- the parity part of a code word: `P · m` -/
def parity (m : Bits) : Bits := (List.range (C.n - C.k)).map (fun j => dot (col C.G (C.k + j)) m)

theorem parity_length (m : Bits) : (C.parity m).length = C.n - C.k := by simp [parity]

structure WFProp : Prop where
  kn : C.k ≤ C.n
  glen : C.G.length = C.k
  gsys : ∀ j, j < C.k → col C.G j = unit C.k j
  hsys : C.H = (List.range (C.n - C.k)).map (fun j => col C.G (C.k + j) ++ unit (C.n - C.k) j)
  s0 : C.S = zeros (C.n - C.k)

theorem wf_of_WF (h : C.WF = true) : C.WFProp := by
  simp only [WF, Bool.and_eq_true, decide_eq_true_eq, beq_iff_eq, List.all_eq_true,
    List.mem_range] at h
  obtain ⟨⟨⟨⟨⟨h1, h2⟩, _⟩, h4⟩, h5⟩, h6⟩ := h
  exact ⟨h1, h2, h4, h5, h6⟩

variable {C}

theorem gen_length (m : Bits) : (C.gen m).length = C.n := by simp [gen]

/-- systematic form: a code word is the message followed by its parity bits -/
theorem gen_eq (h : C.WFProp) (m : Bits) (hm : m.length = C.k) : C.gen m = m ++ C.parity m := by
  have hn : C.n = C.k + (C.n - C.k) := by have := h.kn; omega
  unfold gen parity
  conv => lhs; rw [hn, List.range_add, List.map_append]
  congr 1
  · apply List.ext_getElem
    · simp [hm]
    · intro i h1 h2
      simp only [List.length_map, List.length_range] at h1
      simp only [List.getElem_map, List.getElem_range]
      rw [h.gsys i h1, dot_unit_left _ _ _ h1, getBit_eq_getElem]
  · simp [List.map_map, Function.comp_def]

theorem syndrome_append (h : C.WFProp) (d p : Bits) (hd : d.length = C.k) (hp : p.length = C.n - C.k) :
    C.syndrome (d ++ p) = xorBits (C.parity d) p := by
  unfold syndrome parity
  rw [h.hsys, List.map_map]
  apply List.ext_getElem
  · simp [hp]
  · intro i h1 h2
    simp only [List.length_map, List.length_range] at h1
    simp only [List.getElem_map, List.getElem_range, Function.comp_def]
    rw [dot_append _ _ _ _ (by rw [col_length, h.glen, hd]), dot_unit _ _ _ h1]
    have hx : i < (xorBits (List.map (fun j => dot (col C.G (C.k + j)) d) (List.range (C.n - C.k))) p).length := by
      simp [hp, h1]
    rw [← getBit_eq_getElem _ _ hx, getBit_xorBits _ _ _ (by simp [hp]),
      getBit_eq_getElem (List.map _ _) i (by simp [h1])]
    simp [dot_comm]

theorem check_gen (h : C.WFProp) (m : Bits) (hm : m.length = C.k) : C.check (C.gen m) = true := by
  unfold check
  rw [gen_eq h m hm, syndrome_append h m _ hm (C.parity_length m), xorBits_self, h.s0, parity_length]
  simp

/-- the checker accepts exactly the encoder's image -/
theorem check_iff (h : C.WFProp) (w : Bits) (hw : w.length = C.n) :
    C.check w = true ↔ w = C.gen (w.take C.k) := by
  have hkn := h.kn
  have hd : (w.take C.k).length = C.k := by simp [hw, hkn]
  have hp : (w.drop C.k).length = C.n - C.k := by simp [hw]
  constructor
  · intro hc
    unfold check at hc
    rw [← List.take_append_drop C.k w, syndrome_append h _ _ hd hp, h.s0, beq_iff_eq] at hc
    rw [gen_eq h _ hd]
    have := (xorBits_eq_zeros_iff (C.parity (w.take C.k)) (w.drop C.k)
      (by rw [parity_length, hp])).mp (by rw [parity_length]; exact hc)
    rw [this, List.take_append_drop]
  · intro he
    rw [he]; exact check_gen h _ hd

theorem gen_take (h : C.WFProp) (m : Bits) (hm : m.length = C.k) : (C.gen m).take C.k = m := by
  rw [gen_eq h m hm, List.take_append_of_le_length (by omega)]
  simp [← hm]

theorem gen_injective (h : C.WFProp) (a b : Bits) (ha : a.length = C.k) (hb : b.length = C.k)
    (hab : C.gen a = C.gen b) : a = b := by
  rw [← gen_take h a ha, ← gen_take h b hb, hab]

/-- the encoder is GF(2)-linear -/
theorem gen_xor (a b : Bits) (hab : a.length = b.length) :
    C.gen (xorBits a b) = xorBits (C.gen a) (C.gen b) := by
  unfold gen
  rw [xorBits_map_map]
  apply List.map_congr_left
  intro j _
  exact dot_xor_right _ _ _ hab

/-- the syndrome is GF(2)-linear -/
theorem syndrome_xor (a b : Bits) (hab : a.length = b.length) :
    C.syndrome (xorBits a b) = xorBits (C.syndrome a) (C.syndrome b) := by
  unfold syndrome
  rw [xorBits_map_map]
  apply List.map_congr_left
  intro r _
  exact dot_xor_left _ _ _ hab

theorem syndrome_length (w : Bits) : (C.syndrome w).length = C.H.length := by simp [syndrome]

theorem hlen (h : C.WFProp) : C.H.length = C.n - C.k := by rw [h.hsys]; simp

theorem syndrome_gen (h : C.WFProp) (m : Bits) (hm : m.length = C.k) :
    C.syndrome (C.gen m) = zeros (C.n - C.k) := by
  have := check_gen h m hm
  unfold check at this
  rw [beq_iff_eq, h.s0] at this
  exact this

/-- syndrome of a unit vector is the corresponding column of `H` -/
theorem syndrome_unit (i : Nat) (hi : i < C.n) : C.syndrome (unit C.n i) = col C.H i := by
  unfold syndrome col
  apply List.map_congr_left
  intro r _
  exact dot_unit_left _ _ _ hi

/-- the syndrome of a code word with the error pattern `e` added is the syndrome of `e` -/
theorem syndrome_gen_xor (h : C.WFProp) (m e : Bits) (hm : m.length = C.k) (he : e.length = C.n) :
    C.syndrome (xorBits (C.gen m) e) = C.syndrome e := by
  rw [syndrome_xor _ _ (by rw [gen_length, he]), syndrome_gen h m hm]
  have : (C.syndrome e).length = C.n - C.k := by rw [syndrome_length, hlen h]
  rw [xorBits_comm, ← this, xorBits_zeros_right]

/-! ### minimum distance

All `2^k` code words are enumerated as the GF(2) span of the rows of `G`, by binary splitting with
an accumulator (one `xorBits` per node), which is what keeps the kernel enumeration cheap. -/

/-- `p` holds on `acc ⊕ (every GF(2) combination of rows)` -/
def spanAll (p : Bits → Bool) : List Bits → Bits → Bool
  | [], acc => p acc
  | r :: rs, acc => spanAll p rs acc && spanAll p rs (xorBits acc r)

/-- the combination of `rows` selected by the bits of `m` -/
def combo (n : Nat) : List Bits → Bits → Bits
  | r :: rs, b :: m => xorBits (if b then r else zeros n) (combo n rs m)
  | _, _ => zeros n

theorem combo_length (n : Nat) (rows : List Bits) (m : Bits) (hr : ∀ r ∈ rows, r.length = n) :
    (combo n rows m).length = n := by
  induction rows generalizing m with
  | nil => simp [combo]
  | cons r rs ih => cases m with
    | nil => simp [combo]
    | cons b m =>
      have h1 := hr r (by simp)
      have h2 := ih m (fun x hx => hr x (by simp [hx]))
      cases b <;> simp [combo, h1, h2]

theorem spanAll_spec (p : Bits → Bool) (n : Nat) (rows : List Bits) (acc : Bits)
    (hr : ∀ r ∈ rows, r.length = n) (hacc : acc.length = n)
    (h : spanAll p rows acc = true) (m : Bits) (hm : m.length = rows.length) :
    p (xorBits acc (combo n rows m)) = true := by
  induction rows generalizing acc m with
  | nil =>
    simpa [spanAll, combo, xorBits_zeros_right' acc n hacc] using h
  | cons r rs ih => cases m with
    | nil => simp at hm
    | cons b m =>
      simp only [spanAll, Bool.and_eq_true] at h
      have hr' : ∀ x ∈ rs, x.length = n := fun x hx => hr x (by simp [hx])
      have hrl := hr r (by simp)
      have hm' : m.length = rs.length := by simpa using hm
      have hcl := combo_length n rs m hr'
      cases b with
      | false =>
        simpa [combo, xorBits_zeros_left _ n hcl] using ih acc hr' hacc h.1 m hm'
      | true =>
        have := ih (xorBits acc r) hr' (by simp [hacc, hrl]) h.2 m hm'
        simpa [combo, xorBits_assoc] using this

/-- `generate` written as a combination of the rows of `G` -/
theorem genRows_eq_combo (n : Nat) (rows : List Bits) (m : Bits) (hr : ∀ r ∈ rows, r.length = n)
    (hm : m.length = rows.length) :
    (List.range n).map (fun j => dot (col rows j) m) = combo n rows m := by
  induction rows generalizing m with
  | nil =>
    apply List.ext_getElem
    · simp [combo]
    · intro i h1 h2
      simp [combo, col, zeros]
  | cons r rs ih => cases m with
    | nil => simp at hm
    | cons b m =>
      have hr' : ∀ x ∈ rs, x.length = n := fun x hx => hr x (by simp [hx])
      have hrl := hr r (by simp)
      have hm' : m.length = rs.length := by simpa using hm
      rw [combo, ← ih m hr' hm']
      have hl : (if b = true then r else zeros n).length = n := by cases b <;> simp [hrl]
      apply List.ext_getElem
      · simp [hl]
      · intro j h1 h2
        have hj : j < n := by simpa using h1
        rw [← getBit_eq_getElem _ _ h2, getBit_xorBits _ _ _ (by simp [hl]),
          getBit_eq_getElem (List.map _ _) j (by simp [hj])]
        cases b
        · simp [col]
        · simp [col]

/-- packed form of `spanAll` (what the kernel actually evaluates) -/
def spanAllN (p : Nat → Bool) : List Nat → Nat → Bool
  | [], acc => p acc
  | r :: rs, acc => spanAllN p rs acc && spanAllN p rs (Nat.xor acc r)

theorem spanAllN_eq (p : Nat → Bool) (n : Nat) (rows : List Bits) (acc : Bits)
    (hr : ∀ r ∈ rows, r.length = n) (hacc : acc.length = n) :
    spanAllN p (rows.map packLE) (packLE acc) = spanAll (fun w => p (packLE w)) rows acc := by
  induction rows generalizing acc with
  | nil => simp [spanAllN, spanAll]
  | cons r rs ih =>
    have hr' : ∀ x ∈ rs, x.length = n := fun x hx => hr x (by simp [hx])
    have hrl := hr r (by simp)
    simp only [List.map_cons, spanAllN, spanAll]
    rw [ih acc hr' hacc, ← packLE_xorBits acc r (by rw [hacc, hrl]),
      ih (xorBits acc r) hr' (by simp [hacc, hrl])]

def minWeightOk (C : Code) : Bool :=
  C.G.all (fun r => r.length == C.n)
    && spanAllN (fun x => Nat.beq x 0 || Nat.ble C.d (popc C.n x)) (C.G.map packLE) 0

theorem min_distance_of (h : C.WFProp) (hmw : C.minWeightOk = true) (a b : Bits)
    (ha : a.length = C.k) (hb : b.length = C.k) (hab : a ≠ b) :
    C.d ≤ hammingDist (C.gen a) (C.gen b) := by
  unfold hammingDist
  rw [← gen_xor a b (by rw [ha, hb])]
  have hx : (xorBits a b).length = C.k := by simp [ha, hb]
  simp only [minWeightOk, Bool.and_eq_true, List.all_eq_true, beq_iff_eq] at hmw
  obtain ⟨hrows, hspan⟩ := hmw
  have hz := spanAllN_eq (fun x => Nat.beq x 0 || Nat.ble C.d (popc C.n x)) C.n C.G (zeros C.n)
    hrows (by simp)
  rw [packLE_zeros] at hz
  rw [hz] at hspan
  have := spanAll_spec _ C.n C.G (zeros C.n) hrows (by simp) hspan (xorBits a b) (by rw [hx, h.glen])
  rw [xorBits_zeros_left _ C.n (combo_length C.n C.G (xorBits a b) hrows), ← genRows_eq_combo C.n C.G _ hrows (by rw [hx, h.glen])] at this
  have hgl : (C.gen (xorBits a b)).length = C.n := gen_length _
  simp only [Bool.or_eq_true, Nat.ble_eq] at this
  have hb0 : ∀ x : Nat, (Nat.beq x 0 = true) = (x = 0) := fun x =>
    propext ⟨Nat.eq_of_beq_eq_true, fun h => by subst h; rfl⟩
  rw [hb0] at this
  change packLE (C.gen (xorBits a b)) = 0 ∨ C.d ≤ popc C.n (packLE (C.gen (xorBits a b))) at this
  rw [packLE_eq_zero_iff, ← hgl, popc_packLE, hgl] at this
  rcases this with h0 | h1
  · exfalso; apply hab
    have ht := gen_take h (xorBits a b) hx
    rw [h0] at ht
    have : xorBits a b = zeros a.length := by
      rw [← ht, ha]; simp [zeros, List.take_replicate, h.kn]
    exact (xorBits_eq_zeros_iff a b (by rw [ha, hb])).mp this
  · exact h1

/-- every column of `H` is non-zero and is found at its own index (columns pairwise distinct) -/
def colsOk (C : Code) : Bool :=
  (List.range C.n).all (fun i =>
    (col C.H i != zeros (C.n - C.k)) && (C.hCols.idxOf? (col C.H i) == some i))

theorem correct_single_of (h : C.WFProp) (hc : C.colsOk = true) (m : Bits) (hm : m.length = C.k)
    (i : Nat) (hi : i < C.n) :
    C.checkAndCorrect (flipAt i (C.gen m)) = (true, C.gen m) := by
  have hflip : flipAt i (C.gen m) = xorBits (C.gen m) (unit C.n i) := by
    rw [flipAt_eq_xor_unit _ _ (by rw [gen_length]; exact hi), gen_length]
  have hs : C.syndrome (flipAt i (C.gen m)) = col C.H i := by
    rw [hflip, syndrome_gen_xor h m _ hm (by simp), syndrome_unit i hi]
  simp only [colsOk, List.all_eq_true, List.mem_range, Bool.and_eq_true, bne_iff_ne, ne_eq,
    beq_iff_eq] at hc
  obtain ⟨hne, hidx⟩ := hc i hi
  unfold checkAndCorrect check
  rw [hs, h.s0]
  simp only [beq_iff_eq, hne, ↓reduceIte, hidx, flipAt_flipAt]

/-- the sum of two distinct columns is non-zero and is not a column: double errors are reported -/
def pairsOk (C : Code) : Bool :=
  (List.range C.n).all (fun i => (List.range C.n).all (fun j =>
    decide (j ≤ i) ||
      ((xorBits (col C.H i) (col C.H j) != zeros (C.n - C.k))
        && (C.hCols.idxOf? (xorBits (col C.H i) (col C.H j)) == none))))

theorem double_detected_of (h : C.WFProp) (hc : C.pairsOk = true) (m : Bits) (hm : m.length = C.k)
    (i j : Nat) (hij : i < j) (hj : j < C.n) :
    C.checkAndCorrect (flipAt i (flipAt j (C.gen m)))
      = (false, flipAt i (flipAt j (C.gen m))) := by
  have hi : i < C.n := by omega
  have hs : C.syndrome (flipAt i (flipAt j (C.gen m))) = xorBits (col C.H i) (col C.H j) := by
    rw [flipAt_eq_xor_unit _ _ (by simp [gen_length]; exact hi),
      flipAt_eq_xor_unit _ _ (by rw [gen_length]; exact hj)]
    simp only [xorBits_length, gen_length, unit_length, Nat.min_self]
    rw [syndrome_xor _ _ (by simp [gen_length]), syndrome_gen_xor h m _ hm (by simp),
      syndrome_unit i hi, syndrome_unit j hj, xorBits_comm]
  simp only [pairsOk, List.all_eq_true, List.mem_range, Bool.or_eq_true, decide_eq_true_eq,
    Bool.and_eq_true, bne_iff_ne, ne_eq, beq_iff_eq] at hc
  rcases hc i hi j hj with hle | ⟨hne, hidx⟩
  · omega
  · unfold checkAndCorrect check
    rw [hs, h.s0]
    simp only [beq_iff_eq, hne, ↓reduceIte, hidx]

end Code
end Dmr
