import DmrVerif.Lemmas.Integrity

/-!
C04, HRNP (core Lean): the ones' complement checksum, selfcheck of what `as_bytes` assembles, and
detection of one inverted bit.
-/

namespace Dmr
namespace Integrity
open Dmr.Crc Dmr.Gen Dmr.Gen.Integrity


/-! ### HRNP: ones' complement sum -/

theorem foldGo_lt (f c : Nat) (h : c ≤ f) : foldGo f c < 65536 := by
  induction f generalizing c with
  | zero => have : c = 0 := by omega
            subst this; simp [foldGo]
  | succ f ih =>
    unfold foldGo
    split
    · omega
    · apply ih; omega

theorem foldGo_mod (f c : Nat) : foldGo f c % 65535 = c % 65535 := by
  induction f generalizing c with
  | zero => rfl
  | succ f ih =>
    unfold foldGo
    split
    · rfl
    · rw [ih]; omega

theorem fold16_lt (c : Nat) : fold16 c < 65536 := foldGo_lt c c (Nat.le_refl _)
theorem fold16_mod (c : Nat) : fold16 c % 65535 = c % 65535 := foldGo_mod c c

/-- equal check sums mean congruent word sums -/
theorem hrnpChecksum_eq (a b : Bytes) (h : hrnpChecksum a = hrnpChecksum b) :
    (words16 a).sum % 65535 = (words16 b).sum % 65535 := by
  unfold hrnpChecksum at h
  have h1 := fold16_lt (words16 a).sum
  have h2 := fold16_lt (words16 b).sum
  have : fold16 (words16 a).sum = fold16 (words16 b).sum := by omega
  rw [← fold16_mod, this, fold16_mod]

theorem hrnpChecksum_le (a : Bytes) : hrnpChecksum a ≤ 65535 := by unfold hrnpChecksum; omega

/-- weight of the octet at index `i` in its 16-bit word -/
def wt (i : Nat) : Nat := if i % 2 = 0 then 256 else 1

theorem wt_add_two (i : Nat) : wt (i + 2) = wt i := by
  unfold wt; rw [Nat.add_mod_right]

theorem words16_sum_set (l : Bytes) (i : Nat) (hi : i < l.length) (y : Nat) :
    (words16 (l.set i y)).sum + l.getD i 0 * wt i = (words16 l).sum + y * wt i := by
  induction l using words16.induct generalizing i with
  | case1 => simp at hi
  | case2 a =>
    have : i = 0 := by simpa using hi
    subst this
    simp [words16, wt]; omega
  | case3 a b rest ih =>
    match i with
    | 0 => simp [words16, wt]; omega
    | 1 => simp [words16, wt]; omega
    | i + 2 =>
      have hi' : i < rest.length := by simpa using hi
      have := ih i hi'
      simp only [List.set_cons_succ, words16, List.sum_cons, List.getD_cons_succ, wt_add_two]
      omega

/-- changing one octet by a power of two below 256 changes the check sum -/
theorem hrnpChecksum_set_ne (l : Bytes) (i : Nat) (hi : i < l.length) (y b : Nat) (hb : b < 8)
    (hy : y = l.getD i 0 + 2 ^ b ∨ l.getD i 0 = y + 2 ^ b) :
    hrnpChecksum (l.set i y) ≠ hrnpChecksum l := by
  intro h
  have hm := hrnpChecksum_eq _ _ h
  have hs := words16_sum_set l i hi y
  have hp : 2 ^ b = 1 ∨ 2 ^ b = 2 ∨ 2 ^ b = 4 ∨ 2 ^ b = 8 ∨ 2 ^ b = 16 ∨ 2 ^ b = 32 ∨ 2 ^ b = 64
      ∨ 2 ^ b = 128 := by
    have : b = 0 ∨ b = 1 ∨ b = 2 ∨ b = 3 ∨ b = 4 ∨ b = 5 ∨ b = 6 ∨ b = 7 := by omega
    rcases this with h | h | h | h | h | h | h | h <;> subst h <;> simp
  have hw : wt i = 256 ∨ wt i = 1 := by unfold wt; split <;> simp
  generalize (words16 (l.set i y)).sum = A at *
  generalize (words16 l).sum = B at *
  generalize l.getD i 0 = x at *
  generalize 2 ^ b = p at *
  rcases hw with hw | hw <;> rw [hw] at hs <;>
    rcases hp with hp | hp | hp | hp | hp | hp | hp | hp <;> subst hp <;>
    rcases hy with hy | hy <;> subst hy <;> omega


theorem be16_pair (a b : Nat) : be16 [a, b] = a * 256 + b := by simp [be16]

/-- slice of a list with one element replaced -/
theorem slice_set (l : Bytes) (i y n m : Nat) :
    ((l.set i y).take n).drop m
      = if m ≤ i ∧ i < n then ((l.take n).drop m).set (i - m) y else (l.take n).drop m := by
  rw [List.take_set, List.drop_set]
  by_cases h1 : i < m
  · rw [if_pos h1, if_neg (by omega)]
  · rw [if_neg h1]
    by_cases h2 : i < n
    · rw [if_pos ⟨by omega, h2⟩]
    · rw [if_neg (by omega), List.set_eq_of_length_le (by simp; omega)]

/-- the octets the checksum covers: the first ten and the payload up to the announced length -/
def hrnpCovered (d : Bytes) : Bytes := d.take 10 ++ (d.take (be16 ((d.take 10).drop 8))).drop 12

theorem hrnpDecOld_true (d : Bytes) (hf : Bool) (h : hrnpDecOld d hf = .ok true) :
    12 ≤ d.length ∧ be16 ((d.take 10).drop 8) ≤ d.length
      ∧ hrnpChecksum (hrnpCovered d) = be16 ((d.take 12).drop 10) := by
  unfold hrnpDecOld at h
  simp only [bind, Except.bind, pure, Except.pure] at h
  split at h
  · exact absurd h (by simp [throw, throwThe, MonadExceptOf.throw])
  · split at h
    · exact absurd h (by simp [throw, throwThe, MonadExceptOf.throw])
    · split at h
      · exact absurd h (by simp [throw, throwThe, MonadExceptOf.throw])
      · split at h
        · exact absurd h (by simp [throw, throwThe, MonadExceptOf.throw])
        · injection h with h
          rw [beq_iff_eq] at h
          exact ⟨by omega, by omega, h⟩

theorem hrnpDecOld_cases (d : Bytes) (hf : Bool) :
    (∃ e, hrnpDecOld d hf = .error e)
      ∨ hrnpDecOld d hf = .ok (hrnpChecksum (hrnpCovered d) == be16 ((d.take 12).drop 10)) := by
  unfold hrnpDecOld
  simp only [bind, Except.bind, pure, Except.pure]
  split
  · exact Or.inl ⟨_, rfl⟩
  · split
    · exact Or.inl ⟨_, rfl⟩
    · split
      · exact Or.inl ⟨_, rfl⟩
      · split
        · exact Or.inl ⟨_, rfl⟩
        · exact Or.inr rfl


theorem getD_append_left' (a b : Bytes) (i : Nat) (h : i < a.length) : (a ++ b).getD i 0 = a.getD i 0 := by
  simp [List.getD_eq_getElem?_getD, List.getElem?_append_left h]

theorem getD_append_right' (a b : Bytes) (i : Nat) (h : a.length ≤ i) :
    (a ++ b).getD i 0 = b.getD (i - a.length) 0 := by
  simp [List.getD_eq_getElem?_getD, List.getElem?_append_right h]

theorem getD_take (l : Bytes) (i n : Nat) (h : i < n) : (l.take n).getD i 0 = l.getD i 0 := by
  simp [List.getD_eq_getElem?_getD, List.getElem?_take_of_lt h]

theorem getD_take_drop (l : Bytes) (i n m : Nat) (h : m + i < n) :
    ((l.take n).drop m).getD i 0 = l.getD (m + i) 0 := by
  simp [List.getD_eq_getElem?_getD, List.getElem?_drop, List.getElem?_take_of_lt h]

/-- **HRNP, single inverted bit.**  `d` is accepted; `d'` differs from it in one octet `j` inside the
announced length and outside the two length octets, by a power of two below 256 (what inverting one bit
does): `d'` is not accepted. -/
theorem hrnp_single_bit (d : Bytes) (hd : hrnpDecOld d false = .ok true) (j y b : Nat)
    (hj : j < be16 ((d.take 10).drop 8)) (h8 : j ≠ 8) (h9 : j ≠ 9) (hb : b < 8)
    (hy : y = d.getD j 0 + 2 ^ b ∨ d.getD j 0 = y + 2 ^ b) (hf : Bool) :
    hrnpDecOld (d.set j y) hf ≠ .ok true := by
  obtain ⟨h12, hplen, hck⟩ := hrnpDecOld_true d false hd
  have hlen8 : ((d.set j y).take 10).drop 8 = (d.take 10).drop 8 := by
    rw [slice_set, if_neg (by omega)]
  rcases hrnpDecOld_cases (d.set j y) hf with ⟨e, he⟩ | hr
  · rw [he]; simp
  · rw [hr]
    intro hcontra
    injection hcontra with hcontra
    rw [beq_iff_eq] at hcontra
    unfold hrnpCovered at hcontra hck
    rw [hlen8] at hcontra
    generalize hP : be16 ((d.take 10).drop 8) = P at *
    by_cases hlo : j < 8
    · -- header octet
      have hfld : ((d.set j y).take 12).drop 10 = (d.take 12).drop 10 := by
        rw [slice_set, if_neg (by omega)]
      have hpay : ((d.set j y).take P).drop 12 = (d.take P).drop 12 := by
        rw [slice_set, if_neg (by omega)]
      have hhead : (d.set j y).take 10 = (d.take 10).set j y := List.take_set
      rw [hfld, hpay, hhead, ← List.set_append_left _ _ (by simp; omega), ← hck] at hcontra
      refine hrnpChecksum_set_ne _ j (by simp; omega) y b hb ?_ hcontra
      rw [getD_append_left' _ _ _ (by simp; omega), getD_take _ _ _ (by omega)]
      exact hy
    · by_cases hmid : j = 10 ∨ j = 11
      · -- the checksum field itself
        have hpay : ((d.set j y).take P).drop 12 = (d.take P).drop 12 := by
          rw [slice_set, if_neg (by omega)]
        have hhead : (d.set j y).take 10 = d.take 10 := by
          rw [List.take_set, List.set_eq_of_length_le (by simp; omega)]
        rw [hpay, hhead, hck] at hcontra
        -- the two field octets
        have hfl : ((d.take 12).drop 10).length = 2 := by simp; omega
        obtain ⟨a, c, hac⟩ : ∃ a c, (d.take 12).drop 10 = [a, c] := by
          match hm : (d.take 12).drop 10, hfl with
          | [a, c], _ => exact ⟨a, c, rfl⟩
        have ha : a = d.getD 10 0 := by
          have := getD_take_drop d 0 12 10 (by omega); rw [hac] at this; simpa using this
        have hc : c = d.getD 11 0 := by
          have := getD_take_drop d 1 12 10 (by omega); rw [hac] at this; simpa using this
        rw [slice_set, if_pos (by omega), hac, be16_pair] at hcontra
        have hp : 0 < 2 ^ b := Nat.two_pow_pos b
        generalize 2 ^ b = p at hy hp
        rcases hmid with hm | hm <;> subst hm
        · simp only [Nat.sub_self, List.set_cons_zero, be16_pair] at hcontra
          rw [ha] at hcontra; rcases hy with hy | hy <;> omega
        · simp only [show 11 - 10 = 1 from rfl, List.set_cons_succ, List.set_cons_zero, be16_pair] at hcontra
          rw [hc] at hcontra; rcases hy with hy | hy <;> omega
      · -- payload octet
        have hj12 : 12 ≤ j := by omega
        have hfld : ((d.set j y).take 12).drop 10 = (d.take 12).drop 10 := by
          rw [slice_set, if_neg (by omega)]
        have hhead : (d.set j y).take 10 = d.take 10 := by
          rw [List.take_set, List.set_eq_of_length_le (by simp; omega)]
        have hpay : ((d.set j y).take P).drop 12 = ((d.take P).drop 12).set (j - 12) y := by
          rw [slice_set, if_pos ⟨hj12, hj⟩]
        have h10 : (d.take 10).length = 10 := by simp; omega
        rw [hfld, hpay, hhead, ← hck] at hcontra
        have hset : d.take 10 ++ ((d.take P).drop 12).set (j - 12) y
            = (d.take 10 ++ (d.take P).drop 12).set (10 + (j - 12)) y := by
          rw [List.set_append_right _ _ (by omega), h10]
          congr 2; omega
        rw [hset] at hcontra
        refine hrnpChecksum_set_ne _ (10 + (j - 12)) (by simp; omega) y b hb ?_ hcontra
        rw [getD_append_right' _ _ _ (by omega), h10,
          show 10 + (j - 12) - 10 = j - 12 by omega, getD_take_drop _ _ _ _ (by omega),
          show 12 + (j - 12) = j by omega]
        exact hy


theorem hrnpDecOld_of_parts (head inner : Bytes) (c : Nat) (hh : head.length = 10)
    (hP : be16 (head.drop 8) = 12 + inner.length) (hop : hrnpOpcodes.contains (head.getD 3 0) = true)
    (hc : c = hrnpChecksum (head ++ inner)) (hc' : c ≤ 65535) :
    hrnpDecOld (head ++ [c / 256 % 256, c % 256] ++ inner) false = .ok true := by
  have hl : (head ++ [c / 256 % 256, c % 256] ++ inner).length = 12 + inner.length := by
    simp [hh]; omega
  have h12 : (head ++ [c / 256 % 256, c % 256]).length = 12 := by simp [hh]
  have t10 : (head ++ [c / 256 % 256, c % 256] ++ inner).take 10 = head := by
    rw [List.append_assoc, List.take_left' hh]
  have t12 : (head ++ [c / 256 % 256, c % 256] ++ inner).take 12 = head ++ [c / 256 % 256, c % 256] :=
    List.take_left' h12
  have g3 : (head ++ [c / 256 % 256, c % 256] ++ inner).getD 3 0 = head.getD 3 0 := by
    rw [List.append_assoc, getD_append_left' _ _ _ (by omega)]
  have hC : be16 [c / 256 % 256, c % 256] = c := by rw [be16_pair]; omega
  unfold hrnpDecOld
  simp only [bind, Except.bind, pure, Except.pure, t10, t12, g3, hP, hop, hl, Bool.not_true,
    Bool.false_eq_true, ↓reduceIte]
  rw [if_neg (by omega), if_neg (by omega)]
  have tP : (head ++ [c / 256 % 256, c % 256] ++ inner).take (12 + inner.length)
      = head ++ [c / 256 % 256, c % 256] ++ inner := List.take_of_length_le (by omega)
  rw [tP, List.drop_left' h12, List.drop_left' hh, hC, ← hc]
  simp

/-- **HRNP selfcheck**: what `as_bytes` assembles (`inner` = the HDAP serialisation of a DATA packet,
empty otherwise) parses back with `checksum_correct` -/
theorem hrnp_selfcheck_lemma (hd ver blk opc src dst pn : Nat) (inner : Bytes)
    (hop : hrnpOpcodes.contains opc = true) (hlen : 12 + inner.length < 65536) :
    hrnpDecOld (hrnpEnc hd ver blk opc src dst pn inner) false = .ok true := by
  unfold hrnpEnc
  exact hrnpDecOld_of_parts _ inner _ rfl (by rw [show List.drop 8 [hd, ver, blk, opc, src, dst, pn / 256 % 256, pn % 256,
      (12 + inner.length) / 256 % 256, (12 + inner.length) % 256]
      = [(12 + inner.length) / 256 % 256, (12 + inner.length) % 256] from rfl, be16_pair]; omega)
    hop rfl (hrnpChecksum_le _)

end Integrity
end Dmr
