import DmrVerif.Model.TranslArsExt

/-!
Equality of the definitions TRANSLATED from the source of `motorola/automatic_registration_service.py`
(`Gen/TranslArs.lean`, regenerated on every run by `tools/py2lean_obj.py`) with the hand-written model `Model/Ars.lean` (C16),
call boundary instantiated by `modelExt` (`Model/TranslArsExt.lean`).  Core Lean only.
-/

namespace Dmr.Transl.Ars
open Dmr Dmr.Py Dmr.PyBits Dmr.PyObj

/-! ### generic facts about the prelude -/

theorem slice_lit_lit {α : Type} (l : List α) (a b : Nat) :
    Py.slice l (some (no_index (@OfNat.ofNat Int a _))) (some (no_index (@OfNat.ofNat Int b _)))
      = (l.drop (min a l.length)).take (min b l.length - min a l.length) := slice_ofNat_ofNat l a b

/-- `data[i:j]` for natural bounds is the model's `slice` -/
theorem slice_nat (l : Bytes) (i j : Nat) : Py.slice l (some (i : Int)) (some (j : Int)) = Tms.slice l i j := by
  rw [slice_ofNat_ofNat]
  unfold Tms.slice
  rw [List.drop_take]
  by_cases h : i ≤ l.length
  · rw [Nat.min_eq_left h]
    by_cases h2 : j ≤ l.length
    · rw [Nat.min_eq_left h2]
    · rw [Nat.min_eq_right (by omega)]
      rw [List.take_of_length_le (by simp), List.take_of_length_le (by simp; omega)]
  · have h1 : min i l.length = l.length := by omega
    rw [h1, List.drop_of_length_le (Nat.le_refl _), List.drop_of_length_le (by omega)]
    simp

theorem toBytesBig1 (v : Nat) : toBytesBig (v : Int) 1 = if v < 256 then .ok [v] else .error .overflow := by
  unfold toBytesBig toBytesLittle
  have : ¬ ((v : Int) < 0) := by omega
  by_cases h : v < 256
  · simp [this, h, octetsLE]
  · simp [this, h]; rfl

theorem toBytesBig2 (v : Nat) :
    toBytesBig (v : Int) 2 = if v < 65536 then .ok [v / 256, v % 256] else .error .overflow := by
  unfold toBytesBig toBytesLittle
  have : ¬ ((v : Int) < 0) := by omega
  by_cases h : v < 65536
  · simp [this, h, octetsLE]; omega
  · simp [this, h]; rfl

/-! ### the headers, octet by octet (kernel evaluation of the translated definitions over all 256 octets) -/

theorem fh_table : ∀ b : Fin 256, FirstHeader.from_bytes modelExt [b.val] = ofE fhObj (Dmr.Ars.headerOfByte b.val) := by
  decide +kernel

theorem rrh_table : ∀ b : Fin 256,
    RegistrationRequestHeader.from_bytes modelExt [b.val] = ofE rrhObj (Dmr.Ars.rrhOfByte b.val) := by
  decide +kernel


/-- the response header as `from_bytes` leaves it (no context yet) -/
def rshObj0 (r : Dmr.Ars.Rsh) : ResponseSecondHeader :=
  { failure_reason := some (r.failure.map (fun f => ((f.val : Nat) : Int))),
    refresh_time := some (r.refresh.map (fun n => ((n : Nat) : Int))),
    first_header := some none }

theorem rsh_table : ∀ b : Fin 256,
    ResponseSecondHeader.from_bytes modelExt [b.val] = ofE rshObj0 (Dmr.Ars.rshOfByte b.val false) := by
  decide +kernel

theorem isBytes_cons {b : Nat} {t : List Nat} (h : isBytes (b :: t)) : b < 256 ∧ isBytes t :=
  ⟨h b (by simp), fun x hx => h x (by simp [hx])⟩

theorem fh_head (ext : Ext) (b : Nat) (t : List Nat) :
    FirstHeader.from_bytes ext (b :: t) = FirstHeader.from_bytes ext [b] := by
  unfold FirstHeader.from_bytes
  have h1 : Py.slice (b :: t) (some 0) (some 1) = [b] := by rw [slice_lit_lit]; simp
  have h2 : Py.slice [b] (some 0) (some 1) = [b] := by rw [slice_lit_lit]; simp
  have a1 : decide (Py.len (b :: t) ≥ 1) = true := by simp; omega
  have a2 : decide (Py.len [b] ≥ 1) = true := by simp
  simp only [h1, h2, a1, a2]

/-- `FirstHeader.from_bytes(data)`: `AssertionError` on no data, else the model's `headerOfByte` of the first octet -/
theorem fh_from_bytes_eq (d : List Nat) (hd : isBytes d) :
    FirstHeader.from_bytes modelExt d = match d with
      | [] => .error .assertion
      | b :: _ => ofE fhObj (Dmr.Ars.headerOfByte b) := by
  cases d with
  | nil => rfl
  | cons b t =>
    rw [fh_head]
    exact fh_table ⟨b, (isBytes_cons hd).1⟩

theorem rrh_head (ext : Ext) (b : Nat) (t : List Nat) :
    RegistrationRequestHeader.from_bytes ext (b :: t) = RegistrationRequestHeader.from_bytes ext [b] := by
  unfold RegistrationRequestHeader.from_bytes
  have h1 : Py.slice (b :: t) (some 0) (some 1) = [b] := by rw [slice_lit_lit]; simp
  have h2 : Py.slice [b] (some 0) (some 1) = [b] := by rw [slice_lit_lit]; simp
  have a1 : decide (Py.len (b :: t) ≥ 1) = true := by simp; omega
  have a2 : decide (Py.len [b] ≥ 1) = true := by simp
  simp only [h1, h2, a1, a2]

theorem rrh_from_bytes_eq (d : List Nat) (hd : isBytes d) :
    RegistrationRequestHeader.from_bytes modelExt d = match d with
      | [] => .error .assertion
      | b :: _ => ofE rrhObj (Dmr.Ars.rrhOfByte b) := by
  cases d with
  | nil => rfl
  | cons b t =>
    rw [rrh_head]
    exact rrh_table ⟨b, (isBytes_cons hd).1⟩

theorem rsh_head (ext : Ext) (b : Nat) (t : List Nat) :
    ResponseSecondHeader.from_bytes ext (b :: t) = ResponseSecondHeader.from_bytes ext [b] := by
  unfold ResponseSecondHeader.from_bytes
  have a1 : decide (Py.len (b :: t) ≥ 1) = true := by simp; omega
  have a2 : decide (Py.len [b] ≥ 1) = true := by simp
  simp only [a1, a2, getB_lit, List.getElem?_cons_zero]

theorem rsh_from_bytes_eq (d : List Nat) (hd : isBytes d) :
    ResponseSecondHeader.from_bytes modelExt d = match d with
      | [] => .error .assertion
      | b :: _ => ofE rshObj0 (Dmr.Ars.rshOfByte b false) := by
  cases d with
  | nil => rfl
  | cons b t =>
    rw [rsh_head]
    exact rsh_table ⟨b, (isBytes_cons hd).1⟩

/-! ### serialisers of the headers -/

/-- `FirstHeader.as_bytes()` of the model's header is the model's `headerByte` (all 16 × 7 headers, by evaluation) -/
theorem fh_as_bytes_eq (h : Dmr.Ars.FirstHeader) :
    FirstHeader.as_bytes modelExt (fhObj h) = ofE (fun b => [b]) (Dmr.Ars.headerByte h) := by
  rcases h with ⟨m, a, p, c, t⟩
  cases m <;> cases a <;> cases p <;> cases c <;> cases t <;> decide +kernel

theorem rrh_as_bytes_eq (r : Dmr.Ars.Rrh) :
    RegistrationRequestHeader.as_bytes modelExt (rrhObj r) = ofE id (Dmr.Ars.rrhBytes r) := by
  rcases r with ⟨e, c⟩
  cases e <;> cases c <;> decide +kernel

/-- `ResponseSecondHeader.as_bytes()`: with or without context, for every failure reason / refresh time (any natural) -/
theorem rsh_as_bytes_eq (hdr : Dmr.Ars.FirstHeader) (r : Dmr.Ars.Rsh) :
    ResponseSecondHeader.as_bytes modelExt (rshObj hdr r) = ofE id (Dmr.Ars.rshBytes r) := by
  rcases r with ⟨f, rt, ctx⟩
  rcases ctx with _ | (_ | _)
  · cases f with
    | none => rfl
    | some f => cases f <;> rfl
  · cases rt with
    | none => rfl
    | some n =>
      by_cases h0 : n = 0
      · subst h0; rfl
      · by_cases h1 : n < 256
        · have h2 : ¬ 256 ≤ n := by omega
          simp [ResponseSecondHeader.as_bytes, rshObj, fhObj, Dmr.Ars.rshBytes, FirstHeader.len, h0, h1, h2]
        · have h2 : 256 ≤ n := by omega
          simp [ResponseSecondHeader.as_bytes, rshObj, fhObj, Dmr.Ars.rshBytes, FirstHeader.len, h0, h1, h2, liftE]
  · cases f with
    | none => rfl
    | some f => cases f <;> rfl

/-! ### length-value items -/

theorem lv_none_eq : AutomaticRegistrationService.encode_len_val_none modelExt () = ofE id (Dmr.Ars.lv none) := rfl

/-- `encode_len_val(s)` for a `str` with UTF-8 encoding `s.utf8` (any length: `OverflowError` from 256 octets on) -/
theorem lv_str_eq (s : PyObj.Str) :
    AutomaticRegistrationService.encode_len_val_str modelExt s = ofE id (Dmr.Ars.lv (some s.utf8)) := by
  rcases s with ⟨u⟩
  cases u with
  | nil => rfl
  | cons b t =>
    unfold AutomaticRegistrationService.encode_len_val_str
    simp only [Dmr.Ars.lv, PyObj.Str.isEmpty, ext_enc, len_eq, toBytesBig1]
    have e : (!!(b :: t).isEmpty || !true) = false := rfl
    simp only [e, Bool.false_eq_true, if_false, ok_bind]
    by_cases h : (b :: t).length < 256
    · rw [if_pos h, if_neg (by omega)]; rfl
    · rw [if_neg h, if_pos (by omega)]; rfl

/-- `encode_len_val(b)` for a `bytes` value (the third form of the `Union` parameter) -/
theorem lv_bytes_eq (d : Bytes) :
    AutomaticRegistrationService.encode_len_val_bytes modelExt d = ofE id (Dmr.Ars.lv (some d)) := by
  cases d with
  | nil => rfl
  | cons b t =>
    unfold AutomaticRegistrationService.encode_len_val_bytes
    simp only [Dmr.Ars.lv, len_eq, toBytesBig1]
    have e : (!!(b :: t).isEmpty || !true) = false := rfl
    simp only [e, Bool.false_eq_true, if_false]
    by_cases h : (b :: t).length < 256
    · rw [if_pos h, if_neg (by omega)]; rfl
    · rw [if_neg h, if_pos (by omega)]; rfl

/-- `read_len_val(data, idx)` for every byte string and natural read position -/
theorem rlv_eq (data : Bytes) (idx : Nat) :
    AutomaticRegistrationService.read_len_val modelExt data (idx : Int)
      = ofE (fun p : Nat × Bytes => ((p.1 : Int), p.2)) (Dmr.Ars.readLv data idx) := by
  unfold AutomaticRegistrationService.read_len_val Dmr.Ars.readLv
  simp only [getB_ofNat]
  cases h : data[idx]? with
  | none => rfl
  | some l =>
    have e1 : (idx : Int) + 1 = ((idx + 1 : Nat) : Int) := by push_cast; rfl
    have e2 : ((idx + 1 : Nat) : Int) + (l : Int) = ((idx + 1 + l : Nat) : Int) := by push_cast; rfl
    simp only [ok_bind, e1, e2, slice_nat]
    rfl

theorem fh_len (h : FirstHeader) : FirstHeader.len modelExt h = .ok 1 := rfl

end Dmr.Transl.Ars
