import DmrVerif.Lemmas.RsField

/-!
C11 helpers, part 4: the encoder / checker of `Model/Rs.lean` in the field `GF`.

* `evalAt` is Horner evaluation in `GF` (`evalAt_ofNat`), linear in the word, and a weighted power sum;
* the loop of `generate` keeps  D(r)·r³ + p₂r² + p₁r + p₀ = 0  at every root `r` of
  g(x) = x³ + P[2]x² + P[1]x + P[0]  (`lfsr_inv`), so every generated word has zero syndromes;
* α^k is the k-th table entry (`alpha_pow`), so α^0 … α^254 are pairwise distinct;
* two words of 12 octets with zero syndromes that differ in at most 3 positions are equal
  (`close_eq`, from `vanish`).
-/

namespace Dmr.Rs
open Dmr Dmr.Gen GF

/-! ### octet strings -/

theorem isBytes_iff (w : Bytes) : isBytes w = true ↔ ∀ x ∈ w, x < 256 := by
  simp [isBytes, List.all_eq_true]

theorem isBytes_append (a b : Bytes) : isBytes (a ++ b) = (isBytes a && isBytes b) := by
  simp [isBytes, List.all_append]

theorem isBytes_take (w : Bytes) (n : Nat) (h : isBytes w = true) : isBytes (w.take n) = true := by
  rw [isBytes_iff] at h ⊢
  exact fun x hx => h x (List.mem_of_mem_take hx)

theorem isBytes_drop (w : Bytes) (n : Nat) (h : isBytes w = true) : isBytes (w.drop n) = true := by
  rw [isBytes_iff] at h ⊢
  exact fun x hx => h x (List.mem_of_mem_drop hx)

theorem isBytes_xorBytes (a b : Bytes) (ha : isBytes a = true) (hb : isBytes b = true) :
    isBytes (xorBytes a b) = true := by
  induction a generalizing b with
  | nil => simp [xorBytes, isBytes]
  | cons x xs ih =>
    cases b with
    | nil => simp [xorBytes, isBytes]
    | cons y ys =>
      simp only [isBytes, List.all_cons, Bool.and_eq_true, decide_eq_true_eq] at ha hb
      simp only [xorBytes, List.zipWith_cons_cons, isBytes, List.all_cons, Bool.and_eq_true,
        decide_eq_true_eq]
      exact ⟨xor_lt_256 ha.1 hb.1, ih ys ha.2 hb.2⟩

/-! ### Horner evaluation in the field -/

/-- value at `r` of the polynomial with coefficient list `w`, highest degree first -/
def horner (r : GF) (w : List GF) : GF := w.foldl (fun acc x => acc * r + x) 0

theorem evalAt_aux (r : Nat) (hr : r < 256) (w : Bytes) (hw : isBytes w = true) (acc : Nat) (ha : acc < 256) :
    w.foldl (fun acc x => Nat.xor (logMultiply acc r) x) acc < 256 ∧
    ofNat (w.foldl (fun acc x => Nat.xor (logMultiply acc r) x) acc)
      = (w.map ofNat).foldl (fun acc x => acc * ofNat r + x) (ofNat acc) := by
  induction w generalizing acc with
  | nil => exact ⟨ha, rfl⟩
  | cons x xs ih =>
    simp only [isBytes, List.all_cons, Bool.and_eq_true, decide_eq_true_eq] at hw
    have h1 : Nat.xor (logMultiply acc r) x < 256 := xor_lt_256 (logMultiply_lt _ _) hw.1
    have := ih hw.2 _ h1
    simp only [List.foldl_cons, List.map_cons]
    refine ⟨this.1, ?_⟩
    rw [this.2, nxor, ofNat_xor (logMultiply_lt _ _) hw.1, ofNat_mul ha hr]

theorem evalAt_lt (r : Nat) (hr : r < 256) (w : Bytes) (hw : isBytes w = true) : evalAt r w < 256 :=
  (evalAt_aux r hr w hw 0 (by omega)).1

theorem evalAt_ofNat (r : Nat) (hr : r < 256) (w : Bytes) (hw : isBytes w = true) :
    ofNat (evalAt r w) = horner (ofNat r) (w.map ofNat) :=
  (evalAt_aux r hr w hw 0 (by omega)).2

theorem evalAt_eq_zero_iff (r : Nat) (hr : r < 256) (w : Bytes) (hw : isBytes w = true) :
    evalAt r w = 0 ↔ horner (ofNat r) (w.map ofNat) = 0 := by
  rw [← evalAt_ofNat r hr w hw, ofNat_eq_zero (evalAt_lt r hr w hw)]

/-- the syndromes may equally be computed with the reference multiplication (carry-less product,
long division by 0x11D) instead of the table-driven `logMultiply` -/
theorem evalAt_spec (r : Nat) (hr : r < 256) (w : Bytes) (hw : isBytes w = true) :
    evalAt r w = w.foldl (fun acc x => clmulMod fieldPoly acc r ^^^ x) 0 := by
  unfold evalAt
  suffices h : ∀ acc, acc < 256 →
      w.foldl (fun acc x => Nat.xor (logMultiply acc r) x) acc
        = w.foldl (fun acc x => clmulMod fieldPoly acc r ^^^ x) acc from h 0 (by omega)
  induction w with
  | nil => intro acc _; rfl
  | cons x xs ih =>
    intro acc ha
    simp only [isBytes, List.all_cons, Bool.and_eq_true, decide_eq_true_eq] at hw
    simp only [List.foldl_cons]
    have h1 : Nat.xor (logMultiply acc r) x < 256 := xor_lt_256 (logMultiply_lt _ _) hw.1
    rw [ih hw.2 _ h1, nxor, logMultiply_eq_clmulMod acc r ha hr]

theorem foldl_horner (r : GF) (w : List GF) (acc : GF) :
    w.foldl (fun acc x => acc * r + x) acc
      = acc * r ^ w.length + ∑ i ∈ Finset.range w.length, w.getD i 0 * r ^ (w.length - 1 - i) := by
  induction w generalizing acc with
  | nil => simp
  | cons a w ih =>
    simp only [List.foldl_cons, List.length_cons]
    rw [ih, Finset.sum_range_succ']
    simp only [List.getD_cons_succ, List.getD_cons_zero, Nat.add_sub_cancel, Nat.sub_zero]
    have : ∀ k, w.length + 1 - 1 - (k + 1) = w.length - 1 - k := by intro k; omega
    simp only [Nat.sub_zero, Nat.succ_sub_succ_eq_sub] at this ⊢
    have h2 : ∑ x ∈ Finset.range w.length, w.getD x 0 * r ^ (w.length - (x + 1))
        = ∑ x ∈ Finset.range w.length, w.getD x 0 * r ^ (w.length - 1 - x) := by
      apply Finset.sum_congr rfl; intro k _; rw [Nat.sub_sub, Nat.add_comm]
    rw [h2]; ring

/-- Horner evaluation as a weighted power sum -/
theorem horner_eq_sum (r : GF) (w : List GF) :
    horner r w = ∑ i ∈ Finset.range w.length, w.getD i 0 * r ^ (w.length - 1 - i) := by
  unfold horner; rw [foldl_horner]; simp

theorem horner_append (r : GF) (u v : List GF) :
    horner r (u ++ v) = v.foldl (fun acc x => acc * r + x) (horner r u) := by
  unfold horner; rw [List.foldl_append]

theorem horner_append3 (r : GF) (u : List GF) (a b c : GF) :
    horner r (u ++ [a, b, c]) = horner r u * r ^ 3 + a * r ^ 2 + b * r + c := by
  rw [horner_append]; simp only [List.foldl_cons, List.foldl_nil]; ring

theorem foldl_sub (r : GF) (u v : List GF) (h : u.length = v.length) (a b : GF) :
    (List.zipWith (fun x y => x - y) u v).foldl (fun acc x => acc * r + x) (a - b)
      = u.foldl (fun acc x => acc * r + x) a - v.foldl (fun acc x => acc * r + x) b := by
  induction u generalizing v a b with
  | nil => cases v with
    | nil => rfl
    | cons _ _ => simp at h
  | cons x xs ih => cases v with
    | nil => simp at h
    | cons y ys =>
      simp only [List.length_cons, Nat.add_right_cancel_iff] at h
      simp only [List.zipWith_cons_cons, List.foldl_cons]
      rw [← ih ys h]; congr 1; ring

/-- evaluation is linear: the difference word evaluates to the difference of the values -/
theorem horner_sub (r : GF) (u v : List GF) (h : u.length = v.length) :
    horner r (List.zipWith (fun x y => x - y) u v) = horner r u - horner r v := by
  unfold horner
  have := foldl_sub r u v h 0 0
  rwa [sub_zero] at this

/-! ### the generator polynomial and its roots -/

def G0 : GF := ofNat (polyAt 0)
def G1 : GF := ofNat (polyAt 1)
def G2 : GF := ofNat (polyAt 2)

/-- the primitive element α = x -/
def α : GF := ofNat 2

theorem poly_lt : polyAt 0 < 256 ∧ polyAt 1 < 256 ∧ polyAt 2 < 256 := by decide +kernel

theorem log_two : logAt 2 = 1 := by decide +kernel

/-- α^k is the k-th entry of the exponent table -/
theorem alpha_pow (k : Nat) (hk : k ≤ 255) : α ^ k = ofNat (expAt k) := by
  induction k with
  | zero => rw [pow_zero, exp_zero]; rfl
  | succ k ih =>
    have hk' : k < 255 := by omega
    have hpos := (exp_facts k hk').2.1
    rw [pow_succ, ih (by omega), α, ← ofNat_mul (exp_lt k) (by omega),
      logMultiply_ne _ 2 (by omega) (by omega), (exp_facts k hk').2.2, log_two]

theorem alpha_pow_ne_zero (k : Nat) : α ^ k ≠ 0 :=
  pow_ne_zero k (by decide)

theorem alpha_pow_inj (a b : Nat) (ha : a < 255) (hb : b < 255) (h : α ^ a = α ^ b) : a = b := by
  rw [alpha_pow a (by omega), alpha_pow b (by omega)] at h
  have := ofNat_inj (exp_lt a) (exp_lt b) h
  rw [← (exp_facts a ha).2.2, ← (exp_facts b hb).2.2, this]

/-- g(x) = x³ + P[2]x² + P[1]x + P[0] = (x - α)(x - α²)(x - α³), coefficient by coefficient -/
theorem genpoly_factors :
    ofNat (polyAt 3) = 1 ∧
    G2 = α + α ^ 2 + α ^ 3 ∧
    G1 = α * α ^ 2 + α * α ^ 3 + α ^ 2 * α ^ 3 ∧
    G0 = α * α ^ 2 * α ^ 3 := by
  rw [alpha_pow 2 (by omega), alpha_pow 3 (by omega)]
  decide +kernel

theorem two_eq_zero : (2 : GF) = 0 := by
  rw [← one_add_one_eq_two]; exact GF.add_self 1

theorem root_of_factors (a b c r : GF) (h : r = a ∨ r = b ∨ r = c) :
    r ^ 3 + (a + b + c) * r ^ 2 + (a * b + a * c + b * c) * r + a * b * c = 0 := by
  have h2 := two_eq_zero
  rcases h with rfl | rfl | rfl
  · linear_combination (r ^ 3 + r ^ 2 * b + r ^ 2 * c + r * b * c) * h2
  · linear_combination (r ^ 3 + r ^ 2 * a + r ^ 2 * c + a * r * c) * h2
  · linear_combination (r ^ 3 + r ^ 2 * a + r ^ 2 * b + a * b * r) * h2

/-- α, α², α³ are roots of g -/
theorem genpoly_root (j : Nat) (h1 : 1 ≤ j) (h3 : j ≤ 3) :
    (α ^ j) ^ 3 + G2 * (α ^ j) ^ 2 + G1 * (α ^ j) + G0 = 0 := by
  obtain ⟨_, h2, h1', h0⟩ := genpoly_factors
  rw [h2, h1', h0]
  apply root_of_factors
  have hj : j = 1 ∨ j = 2 ∨ j = 3 := by omega
  rcases hj with rfl | rfl | rfl <;> simp

/-! ### the loop of `generate` -/

def lt3 (p : Nat × Nat × Nat) : Prop := p.1 < 256 ∧ p.2.1 < 256 ∧ p.2.2 < 256

def lift3 (p : Nat × Nat × Nat) : GF × GF × GF := (ofNat p.1, ofNat p.2.1, ofNat p.2.2)

theorem lt3_zero : lt3 (0, 0, 0) := ⟨by decide, by decide, by decide⟩

/-- the loop body of `generate` in the field -/
def stepG (p : GF × GF × GF) (x : GF) : GF × GF × GF :=
  (G0 * (x + p.2.2), p.1 + G1 * (x + p.2.2), p.2.1 + G2 * (x + p.2.2))

theorem step_lift (p : Nat × Nat × Nat) (x : Nat) (hp : lt3 p) (hx : x < 256) :
    lt3 (step p x) ∧ lift3 (step p x) = stepG (lift3 p) (ofNat x) := by
  obtain ⟨h0, h1, h2⟩ := hp
  obtain ⟨g0, g1, g2⟩ := poly_lt
  have hs : x ^^^ p.2.2 < 256 := xor_lt_256 hx h2
  refine ⟨⟨logMultiply_lt _ _, xor_lt_256 h0 (logMultiply_lt _ _), xor_lt_256 h1 (logMultiply_lt _ _)⟩, ?_⟩
  simp only [step, stepG, lift3, nxor, G0, G1, G2]
  rw [ofNat_mul g0 hs, ofNat_xor h0 (logMultiply_lt _ _), ofNat_xor h1 (logMultiply_lt _ _),
    ofNat_mul g1 hs, ofNat_mul g2 hs, ofNat_xor hx h2]

theorem parity_lift (d : Bytes) (hd : isBytes d = true) (p : Nat × Nat × Nat) (hp : lt3 p) :
    lt3 (d.foldl step p) ∧ lift3 (d.foldl step p) = (d.map ofNat).foldl stepG (lift3 p) := by
  induction d generalizing p with
  | nil => exact ⟨hp, rfl⟩
  | cons x xs ih =>
    simp only [isBytes, List.all_cons, Bool.and_eq_true, decide_eq_true_eq] at hd
    have h := step_lift p x hp hd.1
    have := ih hd.2 (step p x) h.1
    simp only [List.foldl_cons, List.map_cons]
    rw [← h.2]; exact this

/-- invariant of the loop at a root `r` of g: with `acc` the value at `r` of the data consumed so
far,  acc·r³ + parity[2]·r² + parity[1]·r + parity[0] = 0 -/
theorem lfsr_inv (r : GF) (hr : r ^ 3 + G2 * r ^ 2 + G1 * r + G0 = 0) (d : List GF) (acc : GF)
    (p : GF × GF × GF) (h : acc * r ^ 3 + p.2.2 * r ^ 2 + p.2.1 * r + p.1 = 0) :
    d.foldl (fun acc x => acc * r + x) acc * r ^ 3 + (d.foldl stepG p).2.2 * r ^ 2
      + (d.foldl stepG p).2.1 * r + (d.foldl stepG p).1 = 0 := by
  induction d generalizing acc p with
  | nil => exact h
  | cons x xs ih =>
    simp only [List.foldl_cons]
    apply ih
    simp only [stepG]
    linear_combination r * h + (x + p.2.2) * hr - (p.2.2 * r ^ 3) * two_eq_zero

theorem parityBytes_length (d : Bytes) : (parityBytes d).length = 3 := rfl

theorem parityBytes_isBytes (d : Bytes) (hd : isBytes d = true) : isBytes (parityBytes d) = true := by
  have := (parity_lift d hd (0, 0, 0) lt3_zero).1
  obtain ⟨h0, h1, h2⟩ := this
  simp only [parityBytes, isBytes, List.all_cons, List.all_nil, Bool.and_true, Bool.and_eq_true,
    decide_eq_true_eq]
  exact ⟨h2, h1, h0⟩

/-- the data followed by the (unmasked) parity octets has zero syndromes at α, α², α³ -/
theorem syndrome_codeword (d : Bytes) (hd : isBytes d = true) (j : Nat) (h1 : 1 ≤ j) (h3 : j ≤ 3) :
    syndrome j (d ++ parityBytes d) = 0 := by
  unfold syndrome alphaPow
  have hb : isBytes (d ++ parityBytes d) = true := by
    rw [isBytes_append, hd, parityBytes_isBytes d hd]; rfl
  rw [evalAt_eq_zero_iff _ (exp_lt j) _ hb, ← alpha_pow j (by omega), List.map_append]
  have hl := (parity_lift d hd (0, 0, 0) lt3_zero).2
  have hpb : (parityBytes d).map ofNat
      = [((d.map ofNat).foldl stepG (0, 0, 0)).2.2, ((d.map ofNat).foldl stepG (0, 0, 0)).2.1,
         ((d.map ofNat).foldl stepG (0, 0, 0)).1] := by
    have e : lift3 (0, 0, 0) = ((0 : GF), (0 : GF), (0 : GF)) := rfl
    rw [e] at hl
    rw [← hl]; rfl
  rw [hpb, horner_append3]
  have := lfsr_inv (α ^ j) (genpoly_root j h1 h3) (d.map ofNat) 0 (0, 0, 0) (by simp)
  exact this

/-! ### mask handling -/

theorem xorBytes_length3 (a b : Bytes) (ha : a.length = 3) (hb : b.length = 3) :
    (xorBytes a b).length = 3 := by simp [xorBytes, ha, hb]

theorem xorBytes_cancel (a m : Bytes) (h : a.length ≤ m.length) : xorBytes (xorBytes a m) m = a := by
  induction a generalizing m with
  | nil => simp [xorBytes]
  | cons x xs ih =>
    cases m with
    | nil => simp at h
    | cons y ys =>
      simp only [List.length_cons, Nat.add_le_add_iff_right] at h
      simp only [xorBytes, List.zipWith_cons_cons, List.cons.injEq]
      refine ⟨?_, ih ys h⟩
      rw [nxor, nxor, Nat.xor_assoc, Nat.xor_self, Nat.xor_zero]

theorem unmask_encode (d mask : Bytes) (hd : d.length = 9) (hm : mask.length = 3) :
    unmask mask (encode d mask) = d ++ parityBytes d := by
  unfold unmask encode
  rw [List.take_left' hd, List.drop_left' hd, xorBytes_cancel _ _ (by simp [parityBytes_length, hm])]

theorem unmask_length (mask w : Bytes) (hw : w.length = 12) (hm : mask.length = 3) :
    (unmask mask w).length = 12 := by
  simp [unmask, xorBytes, hw, hm]

theorem unmask_isBytes (mask w : Bytes) (hw : isBytes w = true) (hm : isBytes mask = true) :
    isBytes (unmask mask w) = true := by
  unfold unmask
  rw [isBytes_append, isBytes_take w 9 hw, isBytes_xorBytes _ _ (isBytes_drop w 9 hw) hm]; rfl

/-- masking again gives the word back -/
theorem mask_unmask (mask w : Bytes) (hw : w.length = 12) (hm : mask.length = 3) :
    (unmask mask w).take 9 ++ xorBytes ((unmask mask w).drop 9) mask = w := by
  unfold unmask
  have h9 : (w.take 9).length = 9 := by simp [hw]
  rw [List.take_left' h9, List.drop_left' h9,
    xorBytes_cancel _ _ (by simp [hw, hm]), List.take_append_drop]

/-! ### words with zero syndromes that differ in at most three octets are equal -/

theorem count_sum (l : List GF) :
    ∑ i ∈ Finset.range l.length, (if l.getD i 0 ≠ 0 then 1 else 0) = l.countP (fun x => decide (x ≠ 0)) := by
  induction l with
  | nil => simp
  | cons a l ih =>
    rw [List.length_cons, Finset.sum_range_succ']
    simp only [List.getD_cons_succ, List.getD_cons_zero, List.countP_cons, decide_eq_true_eq]
    rw [ih]

theorem count_diff (u v : Bytes) (hu : isBytes u = true) (hv : isBytes v = true) :
    (List.zipWith (fun x y => x - y) (u.map ofNat) (v.map ofNat)).countP (fun x => decide (x ≠ 0))
      = symDist u v := by
  induction u generalizing v with
  | nil => simp [symDist]
  | cons a u ih =>
    cases v with
    | nil => simp [symDist]
    | cons b v =>
      simp only [isBytes, List.all_cons, Bool.and_eq_true, decide_eq_true_eq] at hu hv
      simp only [List.map_cons, List.zipWith_cons_cons, List.countP_cons, symDist, decide_eq_true_eq]
      rw [ih v hu.2 hv.2, Nat.add_comm]
      congr 1
      by_cases hab : a = b
      · subst hab; simp
      · have : ofNat a - ofNat b ≠ 0 := fun h => hab (ofNat_inj hu.1 hv.1 (sub_eq_zero.mp h))
        simp [hab, this]

/-- the general form: two words whose syndromes at α¹ … α^t agree (both zero) and which differ in at most
`t` octets are equal (`t ≤ 255`; `t = 3` is the code of the property, `t = 2`, `t = 1` its super-codes with the
last roots dropped — see `Lemmas/RsSub.lean`) -/
theorem close_eq_t (t : Nat) (ht : t ≤ 255) (u v : Bytes) (hu : u.length = 12) (hv : v.length = 12)
    (bu : isBytes u = true) (bv : isBytes v = true)
    (su : ∀ j, 1 ≤ j → j ≤ t → syndrome j u = 0) (sv : ∀ j, 1 ≤ j → j ≤ t → syndrome j v = 0)
    (hd : symDist u v ≤ t) : u = v := by
  let e := List.zipWith (fun x y => x - y) (u.map ofNat) (v.map ofNat)
  have he : e.length = 12 := by simp [e, hu, hv]
  have hsyn : ∀ j, 1 ≤ j → j ≤ t → horner (α ^ j) e = 0 := by
    intro j h1 h3
    have a := (evalAt_eq_zero_iff _ (exp_lt j) u bu).mp (su j h1 h3)
    have b := (evalAt_eq_zero_iff _ (exp_lt j) v bv).mp (sv j h1 h3)
    rw [← alpha_pow j (by omega)] at a b
    rw [horner_sub _ _ _ (by simp [hu, hv]), a, b, sub_zero]
  have hz := vanish (Finset.range 12) (fun i => α ^ (11 - i))
    (fun i _ => alpha_pow_ne_zero _)
    (fun i hi k hk h => by
      simp only [Finset.mem_range] at hi hk
      have := alpha_pow_inj _ _ (by omega) (by omega) h
      omega)
    t (fun i => e.getD i 0)
    (by
      rw [Finset.card_filter]
      have := count_sum e
      rw [he] at this
      rw [this, count_diff u v bu bv]; exact hd)
    (by
      intro j h1 h3
      have := hsyn j h1 h3
      rw [horner_eq_sum, he] at this
      refine Eq.trans ?_ this
      apply Finset.sum_congr rfl
      intro i _
      rw [← pow_mul, ← pow_mul, Nat.mul_comm])
  apply List.ext_getElem (by rw [hu, hv])
  intro i h1 h2
  have hi : i < 12 := by omega
  have := hz i (by simpa using hi)
  have hie : i < e.length := by omega
  simp only [List.getD_eq_getElem?_getD, List.getElem?_eq_getElem hie, Option.getD_some, e,
    List.getElem_zipWith, List.getElem_map] at this
  have bu' := (isBytes_iff u).mp bu u[i] (List.getElem_mem h1)
  have bv' := (isBytes_iff v).mp bv v[i] (List.getElem_mem h2)
  exact ofNat_inj bu' bv' (sub_eq_zero.mp this)

theorem close_eq (u v : Bytes) (hu : u.length = 12) (hv : v.length = 12) (bu : isBytes u = true)
    (bv : isBytes v = true)
    (su : ∀ j, 1 ≤ j → j ≤ 3 → syndrome j u = 0) (sv : ∀ j, 1 ≤ j → j ≤ 3 → syndrome j v = 0)
    (hd : symDist u v ≤ 3) : u = v :=
  close_eq_t 3 (by omega) u v hu hv bu bv su sv hd

/-! ### distance bookkeeping -/

theorem xor_cancel_right {a b m : Nat} (h : a ^^^ m = b ^^^ m) : a = b := by
  have := congrArg (· ^^^ m) h
  simpa [Nat.xor_assoc] using this

theorem symDist_self (a : Bytes) : symDist a a = 0 := by
  induction a with
  | nil => rfl
  | cons x xs ih => simp [symDist, ih]

theorem symDist_le_length (a b : Bytes) : symDist a b ≤ a.length := by
  induction a generalizing b with
  | nil => simp [symDist]
  | cons x xs ih =>
    cases b with
    | nil => simp [symDist]
    | cons y ys =>
      simp only [symDist, List.length_cons]
      have := ih ys
      split <;> omega

theorem symDist_append (a1 a2 b1 b2 : Bytes) (h : a1.length = a2.length) :
    symDist (a1 ++ b1) (a2 ++ b2) = symDist a1 a2 + symDist b1 b2 := by
  induction a1 generalizing a2 with
  | nil => cases a2 with
    | nil => simp [symDist]
    | cons _ _ => simp at h
  | cons x xs ih => cases a2 with
    | nil => simp at h
    | cons y ys =>
      simp only [List.length_cons, Nat.add_right_cancel_iff] at h
      simp only [List.cons_append, symDist, ih ys h]; omega

theorem symDist_xor (a b m : Bytes) (h : a.length = b.length) (hm : a.length ≤ m.length) :
    symDist (xorBytes a m) (xorBytes b m) = symDist a b := by
  induction a generalizing b m with
  | nil => cases b with
    | nil => simp [xorBytes, symDist]
    | cons _ _ => simp at h
  | cons x xs ih => cases b with
    | nil => simp at h
    | cons y ys => cases m with
      | nil => simp at hm
      | cons z zs =>
        simp only [List.length_cons, Nat.add_right_cancel_iff, Nat.add_le_add_iff_right] at h hm
        simp only [xorBytes, List.zipWith_cons_cons, symDist] at ih ⊢
        rw [ih ys zs h hm]
        congr 1
        by_cases hxy : x = y
        · simp [hxy]
        · have : ¬ x ^^^ z = y ^^^ z := fun h => hxy (xor_cancel_right h)
          simp [hxy, this]

theorem symDist_eq_zero (a b : Bytes) (h : a.length = b.length) (h0 : symDist a b = 0) : a = b := by
  induction a generalizing b with
  | nil => cases b with
    | nil => rfl
    | cons _ _ => simp at h
  | cons x xs ih => cases b with
    | nil => simp at h
    | cons y ys =>
      simp only [List.length_cons, Nat.add_right_cancel_iff] at h
      simp only [symDist] at h0
      by_cases hxy : x = y
      · have h0' : symDist xs ys = 0 := by simpa [hxy] using h0
        rw [hxy, ih ys h h0']
      · simp [hxy] at h0

theorem symDist_unmask (mask w c : Bytes) (hw : w.length = 12) (hc : c.length = 12)
    (hm : mask.length = 3) : symDist (unmask mask w) (unmask mask c) = symDist w c := by
  unfold unmask
  rw [symDist_append _ _ _ _ (by simp [hw, hc]),
    symDist_xor _ _ _ (by simp [hw, hc]) (by simp [hw, hm]),
    ← symDist_append _ _ _ _ (by simp [hw, hc]), List.take_append_drop, List.take_append_drop]

/-- number of non-zero octets of an error pattern -/
def symWeight (e : Bytes) : Nat := e.countP (fun x => decide (x ≠ 0))

theorem symDist_xor_error (c e : Bytes) (h : c.length = e.length) :
    symDist (xorBytes c e) c = symWeight e := by
  induction c generalizing e with
  | nil => cases e with
    | nil => rfl
    | cons _ _ => simp at h
  | cons x xs ih => cases e with
    | nil => simp at h
    | cons y ys =>
      simp only [List.length_cons, Nat.add_right_cancel_iff] at h
      simp only [xorBytes, List.zipWith_cons_cons, symDist, symWeight, List.countP_cons,
        decide_eq_true_eq] at ih ⊢
      rw [ih ys h, Nat.add_comm]
      congr 1
      by_cases hy : y = 0
      · subst hy; simp
      · have : ¬ x ^^^ y = x := fun h => hy (by
          have h' : y ^^^ x = 0 ^^^ x := by rw [Nat.xor_comm, Nat.zero_xor]; exact h
          exact xor_cancel_right h')
        simp [hy, this]

/-! ### `generate` and `check` -/

theorem generate_eq (d mask : Bytes) (hd : d.length = 9) : generate d mask = some (encode d mask) := by
  simp [generate, hd]

theorem encode_length (d mask : Bytes) (hd : d.length = 9) (hm : mask.length = 3) :
    (encode d mask).length = 12 := by
  simp [encode, xorBytes, parityBytes_length, hd, hm]

theorem encode_isBytes (d mask : Bytes) (bd : isBytes d = true) (bm : isBytes mask = true) :
    isBytes (encode d mask) = true := by
  unfold encode
  rw [isBytes_append, bd, isBytes_xorBytes _ _ (parityBytes_isBytes d bd) bm]; rfl

theorem check_eq (w mask : Bytes) (hw : w.length = 12) :
    check w mask = some (decide (encode (w.take 9) mask = w)) := by
  have h9 : (w.take 9).length = 9 := by simp [hw]
  simp [check, hw, generate_eq _ _ h9]

theorem syndromesZero_iff (w : Bytes) :
    syndromesZero w = true ↔ ∀ j, 1 ≤ j → j ≤ 3 → syndrome j w = 0 := by
  simp only [syndromesZero, Bool.and_eq_true, beq_iff_eq]
  constructor
  · rintro ⟨⟨h1, h2⟩, h3⟩ j a b
    have : j = 1 ∨ j = 2 ∨ j = 3 := by omega
    rcases this with rfl | rfl | rfl <;> assumption
  · intro h
    exact ⟨⟨h 1 (by omega) (by omega), h 2 (by omega) (by omega)⟩, h 3 (by omega) (by omega)⟩

/-- the generated word, with the mask removed, has zero syndromes -/
theorem encode_syndromes (d mask : Bytes) (hd : d.length = 9) (hm : mask.length = 3)
    (bd : isBytes d = true) : syndromesZero (unmask mask (encode d mask)) = true := by
  rw [syndromesZero_iff, unmask_encode d mask hd hm]
  exact fun j h1 h3 => syndrome_codeword d bd j h1 h3

/-- the checker accepts exactly the words whose unmasked form has zero syndromes -/
theorem check_iff_syndromes (w mask : Bytes) (hw : w.length = 12) (hm : mask.length = 3)
    (bw : isBytes w = true) (bm : isBytes mask = true) :
    check w mask = some true ↔ syndromesZero (unmask mask w) = true := by
  have h9 : (w.take 9).length = 9 := by simp [hw]
  have b9 := isBytes_take w 9 bw
  rw [check_eq w mask hw]
  simp only [Option.some.injEq, decide_eq_true_eq]
  constructor
  · intro h
    have := encode_syndromes (w.take 9) mask h9 hm b9
    rwa [h] at this
  · intro h
    -- the unmasked word and the regenerated code word share the data part
    have hv := encode_syndromes (w.take 9) mask h9 hm b9
    have hdist : symDist (unmask mask w) (unmask mask (encode (w.take 9) mask)) ≤ 3 := by
      rw [unmask_encode _ _ h9 hm]
      unfold unmask
      rw [symDist_append _ _ _ _ rfl, symDist_self, Nat.zero_add]
      have := symDist_le_length (xorBytes (w.drop 9) mask) (parityBytes (w.take 9))
      simp [xorBytes, hw, hm] at this
      exact this
    have heq := close_eq _ _ (unmask_length mask w hw hm)
      (unmask_length mask _ (encode_length _ _ h9 hm) hm) (unmask_isBytes mask w bw bm)
      (unmask_isBytes mask _ (encode_isBytes _ _ b9 bm) bm)
      ((syndromesZero_iff _).mp h) ((syndromesZero_iff _).mp hv) hdist
    have e1 := mask_unmask mask w hw hm
    have e2 := mask_unmask mask _ (encode_length (w.take 9) mask h9 hm) hm
    rw [heq] at e1
    exact e2.symm.trans e1

/-- a word that differs from a generated word in one to three octet positions is rejected -/
theorem detect_of_close (d mask w : Bytes) (hd : d.length = 9) (hm : mask.length = 3)
    (hw : w.length = 12) (bd : isBytes d = true) (bm : isBytes mask = true) (bw : isBytes w = true)
    (hne : w ≠ encode d mask) (h3 : symDist w (encode d mask) ≤ 3) : check w mask = some false := by
  rw [check_eq w mask hw]
  simp only [Option.some.injEq, decide_eq_false_iff_not]
  intro hacc
  have hchk : check w mask = some true := by rw [check_eq w mask hw]; simp [hacc]
  have hs := (check_iff_syndromes w mask hw hm bw bm).mp hchk
  have hc := encode_syndromes d mask hd hm bd
  have hlen := encode_length d mask hd hm
  have heq := close_eq _ _ (unmask_length mask w hw hm) (unmask_length mask _ hlen hm)
    (unmask_isBytes mask w bw bm) (unmask_isBytes mask _ (encode_isBytes _ _ bd bm) bm)
    ((syndromesZero_iff _).mp hs) ((syndromesZero_iff _).mp hc)
    (by rw [symDist_unmask mask w _ hw hlen hm]; exact h3)
  apply hne
  have e1 := mask_unmask mask w hw hm
  have e2 := mask_unmask mask _ hlen hm
  rw [heq] at e1
  exact e1.symm.trans e2

end Dmr.Rs
