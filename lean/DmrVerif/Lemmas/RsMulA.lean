import DmrVerif.Lemmas.RsBase

/-! C11: `log_multiply` against carry-less multiplication modulo 0x11D — quarter A of the 65,536
operand pairs (pair `(n / 256, n % 256)` for `0 ≤ n < 0 + 16384`), kernel enumeration. -/

namespace Dmr.Rs

theorem mulEnumA : allBin mulCase 14 0 = true := by decide +kernel

end Dmr.Rs
