import DmrVerif.Lemmas.BptcMain
import DmrVerif.Model.BptcHist

namespace Dmr.Bptc
open Dmr Dmr.Gen Dmr.Gen.Bptc19696

/-- a loop `for i, n in pairs: out[i] = src[n]` whose targets cover the whole buffer forgets what the
buffer held before -/
theorem scatter_cover (pairs : List (Nat × Nat)) (src : Bits) :
    ∀ (o1 o2 : Bits), o1.length = o2.length →
      (∀ i, i < o1.length → i ∈ pairs.map Prod.fst ∨ o1[i]? = o2[i]?) →
      scatter pairs src o1 = scatter pairs src o2 := by
  induction pairs with
  | nil =>
    intro o1 o2 hl h
    simp only [scatter, List.foldl_nil]
    apply List.ext_getElem? 
    intro i
    by_cases hi : i < o1.length
    · rcases h i hi with h | h
      · simp at h
      · exact h
    · have h2 : ¬ i < o2.length := by omega
      simp [List.getElem?_eq_none (Nat.le_of_not_lt hi), List.getElem?_eq_none (Nat.le_of_not_lt h2)]
  | cons p ps ih =>
    intro o1 o2 hl h
    simp only [scatter, List.foldl_cons] at ih ⊢
    apply ih
    · simp [hl]
    · intro i hi
      simp only [List.length_set] at hi
      by_cases hp : p.1 = i
      · right
        subst hp
        simp [hi, hl ▸ hi]
      · rcases h i hi with h | h
        · simp only [List.map_cons, List.mem_cons] at h
          rcases h with h | h
          · exact absurd h.symm hp
          · exact Or.inl h
        · right
          simp [hp, h]

/-- every cell of the 13×15 table is written by the loop of `fill_encoding_table` -/
def chkFillCover : Bool := (List.range (13 * 15)).all (fun i => (fillPairs.map Prod.fst).contains i)

theorem fillOn_eq_fillCore (hc : chkFillCover = true) (t : Bits) (ht : t.length = 195)
    (mapping : List (Nat × Nat)) (b : Bits) : fillOn t mapping b = fillCore mapping b := by
  simp only [fillOn, fillCore]
  apply scatter_cover
  · rw [ht, zeros_length]
  · intro i hi
    left
    simp only [chkFillCover, List.all_eq_true, List.mem_range] at hc
    exact List.contains_iff_mem.mp (hc i (by omega))

/-! ### the store: calls only add handles; a kept object changes only when the caller overwrites it
(or hands the table to `fill_encoding_table`) -/

namespace Store

theorem size_push (s : Store) (o : Option Obj) : (s.push o).size = s.size + 1 := by
  simp [size, push]

theorem size_write (s : Store) (j : Nat) (o : Obj) : (s.write j o).size = s.size := by
  simp [size, write]

theorem get_push_lt (s : Store) (o : Option Obj) (k : Nat) (h : k < s.size) :
    (s.push o).get k = s.get k := by
  simp only [size] at h
  simp [get, push, List.getElem?_append_left h]

theorem get_push_size (s : Store) (o : Option Obj) : (s.push o).get s.size = o := by
  simp [get, push, size]

theorem get_write_ne (s : Store) (j k : Nat) (o : Obj) (h : j ≠ k) : (s.write j o).get k = s.get k := by
  simp [get, write, List.getElem?_set_ne h]

theorem lt_size_of_get (s : Store) (k : Nat) (o : Obj) (h : s.get k = some o) : k < s.size := by
  rcases Nat.lt_or_ge k s.size with hk | hk
  · exact hk
  · simp only [size] at hk
    simp [get, List.getElem?_eq_none hk] at h

/-- after the caller overwrote handle `k` the handle holds exactly what was written -/
theorem get_write_eq (s : Store) (k : Nat) (o : Obj) (h : k < s.size) : (s.write k o).get k = some o := by
  simp only [size] at h
  simp [get, write, h]

theorem size_ret (s : Store) (r : Except Err Bits) : (s.ret r).1.size = s.size + 1 := by
  cases r <;> simp [ret, size_push]

theorem get_ret_lt (s : Store) (r : Except Err Bits) (k : Nat) (h : k < s.size) :
    (s.ret r).1.get k = s.get k := by
  cases r <;> simp [ret, get_push_lt _ _ _ h]

end Store

theorem step_size_le (s : Store) (st : Step) : s.size ≤ (step s st).1.size := by
  cases st <;> simp only [step] <;> (repeat' split) <;>
    simp [Store.size_ret, Store.size_push, Store.size_write]

/-- a step leaves every kept object it does not overwrite exactly as it was -/
theorem step_frame (s : Store) (st : Step) (k : Nat) (hk : k < s.size) (ht : st.target ≠ some k) :
    (step s st).1.get k = s.get k := by
  cases st <;> simp only [step, Step.target, ne_eq, Option.some.injEq] at ht ⊢ <;>
    (repeat' split) <;>
    first
      | rfl
      | exact Store.get_ret_lt _ _ _ hk
      | exact Store.get_push_lt _ _ _ hk
      | exact Store.get_write_ne _ _ _ _ ht
      | (rw [Store.get_push_lt _ _ _ (by rw [Store.size_write]; exact hk)]
         exact Store.get_write_ne _ _ _ _ ht)

theorem runSteps_size_le (s : Store) (hs : List Step) : s.size ≤ (runSteps s hs).size := by
  induction hs generalizing s with
  | nil => exact Nat.le_refl _
  | cons st hs ih =>
    simp only [runSteps, List.foldl_cons] at ih ⊢
    exact Nat.le_trans (step_size_le s st) (ih _)

/-- a whole history leaves a kept object as it was unless one of its steps overwrites it -/
theorem runSteps_frame (s : Store) (hs : List Step) (k : Nat) (hk : k < s.size)
    (ht : ∀ st ∈ hs, st.target ≠ some k) : (runSteps s hs).get k = s.get k := by
  induction hs generalizing s with
  | nil => rfl
  | cons st hs ih =>
    simp only [runSteps, List.foldl_cons] at ih ⊢
    rw [ih _ (Nat.lt_of_lt_of_le hk (step_size_le s st)) (fun st' h => ht st' (List.mem_cons_of_mem _ h)),
      step_frame s st k hk (ht st (List.mem_cons_self ..))]

end Dmr.Bptc
