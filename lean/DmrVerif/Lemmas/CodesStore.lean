import DmrVerif.Lemmas.Codes
import DmrVerif.Model.CodesStore

/-!
Lemmas about the buffer view and the object history of the block-code entry points
(`Model/CodesStore.lean`).  Core Lean only.

* `bitsOfStore_storeOfBits`: for either bit order the logical bits read back from `tobytes()` are
  the bits themselves, hence every entry point seen from the buffer is the plain entry point
  (`*_store` lemmas): the bit order of the argument is not observable.
* frame lemmas of `HOp.run`: an operation changes no object but the one it explicitly overwrites,
  so an object handed out keeps its content for the rest of every history.
-/

namespace Dmr

/-! ### one octet -/

theorem natToBits_length' (w v : Nat) : (natToBits w v).length = w := by
  induction w with
  | zero => simp [natToBits]
  | succ w ih => simp [natToBits, ih]

theorem byteBits_length (e : Bool) (b : Nat) : (byteBits e b).length = 8 := by
  unfold byteBits; split <;> simp [natToBits_length']

def byteRoundTripChk : Bool :=
  (allBits 8).all (fun c => byteBits true (byteOfBits true c) == c && byteBits false (byteOfBits false c) == c)

theorem byteRoundTripChk_true : byteRoundTripChk = true := by decide +kernel

/-- an octet written from eight bits reads back as those bits, in either bit order -/
theorem byteBits_byteOfBits (e : Bool) (c : Bits) (hc : c.length = 8) : byteBits e (byteOfBits e c) = c := by
  have h := forall_bits_of_all 8 _ byteRoundTripChk_true c hc
  simp only [Bool.and_eq_true, beq_iff_eq] at h
  cases e
  · exact h.2
  · exact h.1

/-! ### the whole buffer -/

theorem storeN_length (e : Bool) (c : Nat) (w : Bits) : (storeN e c w).length = c := by
  induction c generalizing w with
  | zero => rfl
  | succ c ih => simp [storeN, ih]

theorem storeOfBits_length (e : Bool) (w : Bits) : (storeOfBits e w).length = (w.length + 7) / 8 :=
  storeN_length e _ w

theorem take_storeN (e : Bool) (c : Nat) (w : Bits) (h : w.length ≤ 8 * c) :
    ((storeN e c w).flatMap (byteBits e)).take w.length = w := by
  induction c generalizing w with
  | zero =>
    have : w = [] := List.eq_nil_of_length_eq_zero (by omega)
    subst this; rfl
  | succ c ih =>
    have hc : (w.take 8 ++ zeros (8 - (w.take 8).length)).length = 8 := by
      simp [zeros]; omega
    simp only [storeN, List.flatMap_cons, byteBits_byteOfBits e _ hc]
    by_cases hw : w.length ≤ 8
    · -- the last (possibly partial) octet
      have ht : w.take 8 = w := List.take_of_length_le hw
      rw [ht, List.append_assoc, List.take_left']
      rfl
    · have hlen : (w.take 8).length = 8 := by simp; omega
      have hz : zeros (8 - (w.take 8).length) = [] := by rw [hlen]; rfl
      rw [hz, List.append_nil]
      have hd : (w.drop 8).length ≤ 8 * c := by simp; omega
      have hsplit : w.length = (w.take 8).length + (w.drop 8).length := by simp; omega
      rw [hsplit, List.take_length_add_append, ih (w.drop 8) hd, List.take_append_drop]

/-- for either bit order: the logical bits of the buffer written by `tobytes()` are the bits -/
theorem bitsOfStore_storeOfBits (e : Bool) (w : Bits) :
    bitsOfStore e (storeOfBits e w) w.length = w :=
  take_storeN e _ w (by omega)

namespace Code

/-- the entry points do not see the bit order of their argument -/
theorem genStore_store (C : Code) (e : Bool) (m : Bits) :
    C.genStore e (storeOfBits e m) m.length = C.gen m := by
  simp [genStore, bitsOfStore_storeOfBits]

theorem checkStore_store (C : Code) (e : Bool) (w : Bits) :
    C.checkStore e (storeOfBits e w) w.length = C.check w := by
  simp [checkStore, bitsOfStore_storeOfBits]

theorem cacStore_store (C : Code) (e : Bool) (w : Bits) :
    C.cacStore e (storeOfBits e w) w.length
      = ((C.checkAndCorrect w).1, storeOfBits e (C.checkAndCorrect w).2) := by
  simp [cacStore, bitsOfStore_storeOfBits]

end Code

/-! ### histories -/

namespace Heap

theorem size_push (h : Heap) (v : Bits) : (h.push v).size = h.size + 1 := by simp [push, size]
theorem size_write (h : Heap) (r : Nat) (v : Bits) : (h.write r v).size = h.size := by simp [write, size]

theorem read_push_old (h : Heap) (v : Bits) (r : Nat) (hr : r < h.size) : (h.push v).read r = h.read r := by
  simp only [push, read, size] at *
  rw [Array.getElem?_push]
  have : r ≠ h.cells.size := by omega
  simp [this]

theorem read_push_new (h : Heap) (v : Bits) : (h.push v).read h.size = some v := by
  simp [push, read, size]

theorem read_write_other (h : Heap) (r r' : Nat) (v : Bits) (hne : r' ≠ r) :
    (h.write r' v).read r = h.read r := by
  simp only [write, read]
  rw [Array.getElem?_setIfInBounds_ne hne]

end Heap

namespace HOp

theorem size_run (h : Heap) (op : HOp) : h.size ≤ (op.run h).size := by
  cases op <;> simp [run, Heap.size_push, Heap.size_write]

/-- frame property: a step changes no existing object except the one it explicitly overwrites -/
theorem read_run (h : Heap) (op : HOp) (r : Nat) (hr : r < h.size) (ht : op.target ≠ some r) :
    (op.run h).read r = h.read r := by
  cases op with
  | gen C m => exact Heap.read_push_old _ _ _ hr
  | check C w => rfl
  | cac C w => exact Heap.read_push_old _ _ _ hr
  | correct C w => exact Heap.read_push_old _ _ _ hr
  | overwrite r' v =>
    have : r' ≠ r := by intro h'; exact ht (by simp [target, h'])
    exact Heap.read_write_other _ _ _ _ this

end HOp

theorem size_runHistory (h : Heap) (ops : List HOp) : h.size ≤ (runHistory h ops).size := by
  induction ops generalizing h with
  | nil => exact Nat.le_refl _
  | cons op ops ih =>
    exact Nat.le_trans (HOp.size_run h op) (ih (op.run h))

/-- an object keeps its content through every history that does not explicitly overwrite it -/
theorem read_runHistory (h : Heap) (ops : List HOp) (r : Nat) (hr : r < h.size)
    (ht : ∀ op ∈ ops, op.target ≠ some r) : (runHistory h ops).read r = h.read r := by
  induction ops generalizing h with
  | nil => rfl
  | cons op ops ih =>
    have h1 := HOp.read_run h op r hr (ht op (by simp))
    have h2 := ih (op.run h) (Nat.lt_of_lt_of_le hr (HOp.size_run h op))
      (fun o ho => ht o (by simp [ho]))
    simp only [runHistory, List.foldl_cons] at h2 ⊢
    rw [h2, h1]

theorem runHistory_append (h : Heap) (a b : List HOp) :
    runHistory h (a ++ b) = runHistory (runHistory h a) b := by
  simp [runHistory, List.foldl_append]

/-- the `i`-th array of the code book `[X.generate(m) for m in ms]` is the code word of the `i`-th
message once all of them have been produced -/
theorem Code.read_genAll (C : Code) (h : Heap) (ms : List Bits) (i : Nat) (hi : i < ms.length) :
    (C.genAll h ms).read (h.size + i) = some (C.gen ms[i]) := by
  induction ms generalizing h i with
  | nil => simp at hi
  | cons m ms ih =>
    simp only [Code.genAll, List.map_cons, runHistory, List.foldl_cons]
    cases i with
    | zero =>
      have hfr := read_runHistory ((HOp.gen C m).run h) (ms.map (HOp.gen C)) h.size
        (by simp [HOp.run, Heap.size_push])
        (by intro op hop; simp only [List.mem_map] at hop; obtain ⟨x, _, rfl⟩ := hop; simp [HOp.target])
      simp only [runHistory] at hfr
      simp only [Nat.add_zero, List.getElem_cons_zero]
      rw [hfr]
      exact Heap.read_push_new h (C.gen m)
    | succ i =>
      have := ih ((HOp.gen C m).run h) i (by simpa using hi)
      simp only [Code.genAll, runHistory] at this
      simp only [List.getElem_cons_succ]
      rw [show h.size + (i + 1) = ((HOp.gen C m).run h).size + i by
        simp [HOp.run, Heap.size_push]; omega]
      exact this

theorem Code.size_genAll (C : Code) (h : Heap) (ms : List Bits) : (C.genAll h ms).size = h.size + ms.length := by
  induction ms generalizing h with
  | nil => rfl
  | cons x xs ih =>
    have := ih ((HOp.gen C x).run h)
    simp only [Code.genAll, List.map_cons, runHistory, List.foldl_cons] at this ⊢
    rw [this]; simp [HOp.run, Heap.size_push]; omega

/-! ### rejected calls; the memory of an ndarray argument -/

/-- a history with rejected calls is the history without them -/
theorem runHistoryE_eq (h : Heap) (ops : List HOp) :
    runHistoryE h ops = runHistory h (ops.filter HOp.accepted) := by
  induction ops generalizing h with
  | nil => rfl
  | cons op ops ih =>
    simp only [runHistoryE, List.foldl_cons, List.filter_cons] at ih ⊢
    by_cases ha : op.accepted = true
    · simp only [ha, if_true, runHistory, List.foldl_cons, HOp.runE]
      exact ih _
    · simp only [ha, HOp.runE]
      exact ih _

theorem foldl_replicate_zero (k : Nat) : (List.replicate k 0).foldl (fun acc b => 256 * acc + b) 0 = 0 := by
  induction k with
  | zero => rfl
  | succ k ih => simp [List.replicate_succ, ih]

theorem elemVal_elemBytes (L : NdLayout) (b : Bool) : elemVal L.big (elemBytes L b) = b.toNat := by
  unfold elemVal elemBytes
  cases hb : L.big
  · simp [List.foldl_append, foldl_replicate_zero]
  · simp [List.foldl_append, foldl_replicate_zero]

theorem elemBytes_length (L : NdLayout) (b : Bool) (hsz : 0 < L.sz) : (elemBytes L b).length = L.sz := by
  unfold elemBytes
  split <;> simp <;> omega

theorem elemBit_elemBytes (L : NdLayout) (b : Bool) (hsz : 0 < L.sz) : elemBit L (elemBytes L b) = some b := by
  unfold elemBit
  rw [elemBytes_length L b hsz, elemVal_elemBytes]
  cases b <;> simp

theorem ndBitsAux_ndBody (L : NdLayout) (pad : Nat) (w : Bits) (hsz : 0 < L.sz) (hst : L.sz ≤ L.stride) :
    ndBitsAux L w.length (ndBody L pad w) = some w := by
  induction w with
  | nil => rfl
  | cons b w ih =>
    have hl := elemBytes_length L b hsz
    have htake : (ndBody L pad (b :: w)).take L.sz = elemBytes L b := by
      simp only [ndBody]
      rw [← hl, List.take_left']
      rfl
    have hdrop : (ndBody L pad (b :: w)).drop L.stride = ndBody L pad w := by
      simp only [ndBody]
      rw [← List.append_assoc]
      apply List.drop_left'
      simp [hl]; omega
    simp only [List.length_cons, ndBitsAux, htake, hdrop, elemBit_elemBytes L b hsz, ih]

/-- whatever the layout (item size, byte order, offset, stride, neighbouring octets): the view shows
the bits it was built from -/
theorem bitsOfNd_ndOfBits (L : NdLayout) (pad : Nat) (w : Bits) (hsz : 0 < L.sz) (hst : L.sz ≤ L.stride) :
    bitsOfNd L (ndOfBits L pad w) w.length = some w := by
  unfold bitsOfNd ndOfBits
  rw [List.drop_left' (by simp)]
  exact ndBitsAux_ndBody L pad w hsz hst

namespace Code

theorem genNd_nd (C : Code) (L : NdLayout) (pad : Nat) (m : Bits) (hsz : 0 < L.sz) (hst : L.sz ≤ L.stride)
    (hm : m.length = C.k) : C.genNd L (ndOfBits L pad m) C.k = some (C.gen m) := by
  unfold genNd
  rw [← hm, bitsOfNd_ndOfBits L pad m hsz hst]; simp

theorem checkNd_nd (C : Code) (L : NdLayout) (pad : Nat) (w : Bits) (hsz : 0 < L.sz) (hst : L.sz ≤ L.stride)
    (hw : w.length = C.n) : C.checkNd L (ndOfBits L pad w) C.n = some (C.check w) := by
  unfold checkNd
  rw [← hw, bitsOfNd_ndOfBits L pad w hsz hst]; simp

theorem correctNd_nd (C : Code) (L : NdLayout) (pad : Nat) (w : Bits) (hsz : 0 < L.sz) (hst : L.sz ≤ L.stride)
    (hw : w.length = C.n) : C.correctNd L (ndOfBits L pad w) C.n = some (C.correct w) := by
  unfold correctNd
  rw [← hw, bitsOfNd_ndOfBits L pad w hsz hst]; simp

end Code

end Dmr
