import DmrVerif.Model.Fragment

/-!
# Bit-level facts behind C07: what `from_bits_typed` reads back from `as_bits`

`bitsToNat ∘ natToBits`, `bitsToBytes ∘ bytesToBits`, and the four typed views of the tracker applied to
the information bits a generated block serialises to.
-/

namespace Dmr.Fragment
open Dmr Dmr.Tracker

theorem natToBits_length (w v : Nat) : (natToBits w v).length = w := by
  induction w with
  | zero => rfl
  | succ w ih => simp [natToBits, ih]

theorem foldl_bits (bs : Bits) (acc : Nat) :
    bs.foldl (fun a b => 2 * a + b.toNat) acc = acc * 2 ^ bs.length + bitsToNat bs := by
  induction bs generalizing acc with
  | nil => simp [bitsToNat]
  | cons b r ih =>
    simp only [List.foldl_cons, List.length_cons, bitsToNat]
    rw [ih, ih (2 * 0 + b.toNat)]
    rw [Nat.pow_succ]
    have : (2 * acc + b.toNat) * 2 ^ r.length = acc * (2 ^ r.length * 2) + (2 * 0 + b.toNat) * 2 ^ r.length := by
      rw [Nat.add_mul, Nat.mul_zero, Nat.zero_add]
      congr 1
      rw [Nat.mul_comm 2 acc, Nat.mul_assoc, Nat.mul_comm 2]
    omega

theorem bitsToNat_cons (b : Bool) (r : Bits) : bitsToNat (b :: r) = b.toNat * 2 ^ r.length + bitsToNat r := by
  simp only [bitsToNat, List.foldl_cons]
  rw [foldl_bits]
  simp [bitsToNat]

theorem bitsToNat_natToBits_mod (w v : Nat) : bitsToNat (natToBits w v) = v % 2 ^ w := by
  induction w with
  | zero => simp [natToBits, bitsToNat, Nat.mod_one]
  | succ w ih =>
    rw [natToBits, bitsToNat_cons, natToBits_length, ih, Nat.mod_pow_succ]
    have h2 : v / 2 ^ w % 2 = 0 ∨ v / 2 ^ w % 2 = 1 := by omega
    rcases h2 with h | h <;> simp [h, Nat.mul_comm] <;> omega

theorem bitsToNat_natToBits (w v : Nat) (h : v < 2 ^ w) : bitsToNat (natToBits w v) = v := by
  rw [bitsToNat_natToBits_mod, Nat.mod_eq_of_lt h]

theorem chunks_nil (n : Nat) : chunks n ([] : Bits) = [] := by
  rw [chunks]; simp

theorem chunks_append8 (a r : Bits) (ha : a.length = 8) : chunks 8 (a ++ r) = a :: chunks 8 r := by
  rw [chunks]
  have hne : ¬ ((8 : Nat) = 0 ∨ a ++ r = []) := by
    intro h
    rcases h with h | h
    · omega
    · have := congrArg List.length h
      simp [ha] at this
  simp only [hne, ↓reduceDIte]
  congr 1
  · rw [List.take_append_of_le_length (by omega), List.take_of_length_le (by omega)]
  · rw [List.drop_append_of_le_length (by omega), List.drop_of_length_le (by omega), List.nil_append]

theorem bytesToBits_length (d : Bytes) : (bytesToBits d).length = 8 * d.length := by
  induction d with
  | nil => rfl
  | cons b r ih =>
    simp only [bytesToBits, List.flatMap_cons, List.length_append, natToBits_length, List.length_cons] at ih ⊢
    omega

theorem bytesToBits_cons (b : Nat) (r : Bytes) : bytesToBits (b :: r) = natToBits 8 b ++ bytesToBits r := by
  simp [bytesToBits]

theorem bytesToBits_append (a b : Bytes) : bytesToBits (a ++ b) = bytesToBits a ++ bytesToBits b := by
  simp [bytesToBits, List.flatMap_append]

/-- `bitarray.tobytes` after `frombytes` -/
theorem bitsToBytes_bytesToBits (d : Bytes) (h : ∀ b ∈ d, b < 256) : bitsToBytes (bytesToBits d) = d := by
  induction d with
  | nil => simp [bytesToBits, bitsToBytes, chunks_nil]
  | cons b r ih =>
    have ihr := ih (fun x hx => h x (by simp [hx]))
    rw [bytesToBits_cons]
    unfold bitsToBytes at ihr ⊢
    rw [chunks_append8 _ _ (natToBits_length 8 b)]
    simp only [List.map_cons, ihr, natToBits_length, Nat.sub_self]
    congr 1
    simp only [zeros, List.replicate_zero, List.append_nil]
    exact bitsToNat_natToBits 8 b (h b (by simp))

/-! ## list slicing with known lengths -/

theorem take_drop_mid (P D E : Bits) (p q : Nat) (hp : P.length = p) (hq : P.length + D.length = q) :
    ((P ++ D ++ E).take q).drop p = D := by
  subst hp hq
  rw [List.append_assoc, List.take_length_add_append, List.drop_left, List.take_left]

theorem drop_end (P E : Bits) (p : Nat) (hp : P.length = p) : (P ++ E).drop p = E := by
  subst hp; simp

theorem take_front (A R : Bits) (a : Nat) (ha : A.length = a) : (A ++ R).take a = A := by
  subst ha; simp

end Dmr.Fragment
