import DmrVerif.Lemmas.FragmentBits

/-!
# Generator arithmetic and what the typed views read back (C07)
-/

namespace Dmr.Fragment
open Dmr Dmr.Tracker

/-! ## Table 8.1 and the block count -/

theorem octets_facts (r : Rate) (c : Bool) :
    0 < (octets r c).2 ∧ (octets r c).2 ≤ (octets r c).1
      ∧ (octets r c).1 = dataOctets r (resolve c false) ∧ (octets r c).2 = dataOctets r (resolve c true) := by
  cases r <;> cases c <;> decide

theorem numBlocks_pos (per last len : Nat) : 1 ≤ numBlocks per last len := by
  unfold numBlocks; split
  · exact Nat.le_refl 1
  · exact Nat.le_add_right 1 _

theorem numBlocks_of_le {per last len : Nat} (h : len ≤ last) : numBlocks per last len = 1 := by
  simp [numBlocks, h]

theorem numBlocks_of_gt {per last len : Nat} (h : last < len) :
    numBlocks per last len = 1 + (len - last + per - 1) / per := by
  simp [numBlocks, Nat.not_le.mpr h]

/-- the padded payload fills the blocks exactly: `len ≤ (N-1)·per + last` -/
theorem total_ge (r : Rate) (c : Bool) (len : Nat) :
    len ≤ dataOctetsTotal (octets r c).1 (octets r c).2 len := by
  unfold dataOctetsTotal
  by_cases h : len ≤ (octets r c).2
  · rw [numBlocks_of_le h]; omega
  · rw [numBlocks_of_gt (Nat.not_le.mp h)]
    cases r <;> cases c <;> simp only [octets] at h ⊢ <;> omega

/-- fewer pad octets than one block holds -/
theorem pad_lt (r : Rate) (c : Bool) (len : Nat) :
    padCount (octets r c).1 (octets r c).2 len < (octets r c).1 := by
  unfold padCount dataOctetsTotal
  by_cases h : len ≤ (octets r c).2
  · rw [numBlocks_of_le h]
    cases r <;> cases c <;> simp only [octets] at h ⊢ <;> omega
  · rw [numBlocks_of_gt (Nat.not_le.mp h)]
    cases r <;> cases c <;> simp only [octets] at h ⊢ <;> omega

theorem padded_length (r : Rate) (c : Bool) (payload : Bytes) :
    (padded (octets r c).1 (octets r c).2 payload).length
      = (numBlocks (octets r c).1 (octets r c).2 payload.length - 1) * (octets r c).1 + (octets r c).2 := by
  have := total_ge r c payload.length
  simp only [padded, List.length_append, List.length_replicate, padCount, dataOctetsTotal] at this ⊢
  omega

/-! ## slices -/

theorem slice_length_inner (data : Bytes) (per last n i : Nat)
    (hlen : data.length = (n - 1) * per + last) (hi : i + 1 < n) : (slice data per i).length = per := by
  simp only [slice, List.length_take, List.length_drop, hlen]
  have : (i + 1) * per ≤ (n - 1) * per := Nat.mul_le_mul_right per (by omega)
  rw [Nat.add_mul] at this
  omega

theorem slice_length_last (data : Bytes) (per last n : Nat)
    (hlen : data.length = (n - 1) * per + last) (hl : last ≤ per) :
    (slice data per (n - 1)).length = last := by
  simp only [slice, List.length_take, List.length_drop, hlen]
  omega

theorem slice_succ (data : Bytes) (per i : Nat) : slice data per (i + 1) = slice (data.drop per) per i := by
  simp only [slice, List.drop_drop]
  congr 2
  rw [Nat.add_mul]; omega

theorem flatMap_slices (per : Nat) : ∀ (n : Nat) (data : Bytes), data.length ≤ n * per →
    (List.range n).flatMap (slice data per) = data := by
  intro n
  induction n with
  | zero =>
    intro data h
    have : data.length = 0 := by omega
    simp [List.eq_nil_of_length_eq_zero this]
  | succ n ih =>
    intro data h
    rw [List.range_succ_eq_map, List.flatMap_cons, List.flatMap_map]
    have h1 : (List.range n).flatMap (fun i => slice data per (i + 1)) = data.drop per := by
      have := ih (data.drop per) (by simp only [List.length_drop]; rw [Nat.add_mul] at h; omega)
      rw [← this]
      congr 1
      funext i
      exact slice_succ data per i
    simp only [Function.comp_def, h1]
    simp [slice]

/-! ## the blocks `generate_data_bursts` builds -/

/-- block number `i` of `n` -/
def blockAt (C : Crc) (r : Rate) (conf : Bool) (n per : Nat) (data : Bytes) (crc : Nat) (i : Nat) : GenBlock :=
  { rate := r, ptype := resolve conf (i == n - 1), data := slice data per i, dbsn := 0
    crc9 := C.crc9 r (slice data per i) 0 (if i == n - 1 then crc else 0)
    crc32 := if i == n - 1 then crc else 0 }

theorem mkBlocks_ok (C : Crc) (r : Rate) (conf : Bool) (n per : Nat) (data : Bytes) (crc : Nat) :
    ∀ l : List Nat, (∀ i ∈ l, (slice data per i).length = dataOctets r (resolve conf (i == n - 1))) →
      mkBlocks C r conf n per data crc l = .ok (l.map (blockAt C r conf n per data crc)) := by
  intro l
  induction l with
  | nil => intro _; rfl
  | cons i rest ih =>
    intro h
    have hi := h i (by simp)
    have hr := ih (fun j hj => h j (by simp [hj]))
    simp only [mkBlocks, mkBlock, hi, bne_self_eq_false, Bool.and_false, Bool.false_eq_true, ↓reduceIte, hr,
      List.map_cons, blockAt]

theorem genBlocks_ok (C : Crc) (r : Rate) (conf : Bool) (payload : Bytes) :
    genBlocks C r conf payload =
      .ok ((List.range (numBlocks (octets r conf).1 (octets r conf).2 payload.length)).map
            (blockAt C r conf (numBlocks (octets r conf).1 (octets r conf).2 payload.length) (octets r conf).1
              (padded (octets r conf).1 (octets r conf).2 payload)
              (C.crc32 (padded (octets r conf).1 (octets r conf).2 payload))),
           padCount (octets r conf).1 (octets r conf).2 payload.length) := by
  unfold genBlocks
  simp only
  obtain ⟨h0, hle, hper, hlast⟩ := octets_facts r conf
  have hlen := padded_length r conf payload
  have hn := numBlocks_pos (octets r conf).1 (octets r conf).2 payload.length
  rw [mkBlocks_ok]
  intro i hi
  have hi' : i < numBlocks (octets r conf).1 (octets r conf).2 payload.length := List.mem_range.mp hi
  by_cases hl : i = numBlocks (octets r conf).1 (octets r conf).2 payload.length - 1
  · subst hl
    simp only [beq_self_eq_true, ← hlast]
    exact slice_length_last _ _ _ _ hlen hle
  · have : (i == numBlocks (octets r conf).1 (octets r conf).2 payload.length - 1) = false := by simpa using hl
    simp only [this, ← hper]
    exact slice_length_inner _ _ _ _ _ hlen (by omega)

/-! ## typed views of the information bits a block serialises to -/

theorem layout_sum (r : Rate) (t : PType) :
    t.dataStart + 8 * dataOctets r t = dataEnd r t
      ∧ dataEnd r t + (if t.isLast then 32 else 0) = r.infoBits
      ∧ t.dataStart = (if t.isConfirmed then 16 else 0) := by
  cases r <;> cases t <;> decide

/-- prefix, data bits, suffix -/
def GenBlock.pre (b : GenBlock) : Bits :=
  if b.ptype.isConfirmed then natToBits 7 b.dbsn ++ (natToBits 9 b.crc9).reverse else []
def GenBlock.suf (b : GenBlock) : Bits := if b.ptype.isLast then natToBits 32 b.crc32 else []

theorem asBits_eq (b : GenBlock) : b.asBits = b.pre ++ bytesToBits b.data ++ b.suf := rfl

theorem pre_length (b : GenBlock) : b.pre.length = b.ptype.dataStart := by
  unfold GenBlock.pre PType.dataStart
  split <;> simp [natToBits_length]

theorem suf_length (b : GenBlock) : b.suf.length = if b.ptype.isLast then 32 else 0 := by
  unfold GenBlock.suf
  split <;> simp [natToBits_length]

theorem asBits_length (b : GenBlock) (hlen : b.data.length = dataOctets b.rate b.ptype) :
    b.asBits.length = b.rate.infoBits := by
  obtain ⟨h1, h2, _⟩ := layout_sum b.rate b.ptype
  rw [asBits_eq, List.length_append, List.length_append, pre_length, suf_length, bytesToBits_length, hlen]
  omega

theorem view_data (b : GenBlock) (hlen : b.data.length = dataOctets b.rate b.ptype)
    (hb : ∀ x ∈ b.data, x < 256) : blockData b.rate b.ptype b.asBits = b.data := by
  obtain ⟨h1, _, _⟩ := layout_sum b.rate b.ptype
  unfold blockData dataBits
  rw [asBits_eq, take_drop_mid _ _ _ _ _ (pre_length b)
    (by rw [pre_length, bytesToBits_length, hlen]; exact h1)]
  exact bitsToBytes_bytesToBits _ hb

theorem view_crc32 (b : GenBlock) (hlen : b.data.length = dataOctets b.rate b.ptype)
    (hc : b.crc32 < 2 ^ 32) :
    blockCrc32 b.rate b.ptype b.asBits = if b.ptype.isLast then b.crc32 else 0 := by
  obtain ⟨h1, h2, _⟩ := layout_sum b.rate b.ptype
  unfold blockCrc32
  split
  · rename_i hl
    simp only [hl, ↓reduceIte] at h2
    rw [asBits_eq, drop_end _ _ _ (by
      rw [List.length_append, pre_length, bytesToBits_length, hlen]; omega)]
    simp only [GenBlock.suf, hl, ↓reduceIte]
    exact bitsToNat_natToBits 32 _ hc
  · rfl

theorem view_dbsn (b : GenBlock) (hd : b.dbsn < 2 ^ 7) :
    blockDbsn b.ptype b.asBits = if b.ptype.isConfirmed then b.dbsn else 0 := by
  unfold blockDbsn
  split
  · rename_i hc
    rw [asBits_eq]
    simp only [GenBlock.pre, hc, ↓reduceIte, List.append_assoc]
    rw [take_front _ _ 7 (natToBits_length 7 _)]
    exact bitsToNat_natToBits 7 _ hd
  · rfl

theorem view_crc9 (b : GenBlock) (h9 : b.crc9 < 2 ^ 9) :
    blockCrc9 b.ptype b.asBits = if b.ptype.isConfirmed then b.crc9 else 0 := by
  unfold blockCrc9
  split
  · rename_i hc
    rw [asBits_eq]
    simp only [GenBlock.pre, hc, ↓reduceIte]
    rw [show natToBits 7 b.dbsn ++ (natToBits 9 b.crc9).reverse ++ bytesToBits b.data ++ b.suf
        = natToBits 7 b.dbsn ++ (natToBits 9 b.crc9).reverse ++ (bytesToBits b.data ++ b.suf) from by
      simp [List.append_assoc]]
    rw [take_drop_mid _ _ _ 7 16 (natToBits_length 7 _) (by simp [natToBits_length])]
    rw [List.reverse_reverse]
    exact bitsToNat_natToBits 9 _ h9
  · rfl

end Dmr.Fragment
