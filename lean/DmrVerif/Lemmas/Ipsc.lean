import DmrVerif.Model.Ipsc

/-!
# Hytera IPSC frames (C13): the frame of the property (`Frame`, `Frame.bytes`, `Frame.wf`, `Frame.obj`)
and the lemmas behind `Props/C13.lean`
-/

namespace Dmr.Ipsc
open Dmr Gen.Ipsc

/-! ## byte swap -/

theorem swapPairs_length : ∀ l : Bytes, (swapPairs l).length = l.length := by
  intro l
  fun_induction swapPairs l with
  | case1 a b r ih => simp [ih]
  | case2 r h => rfl

theorem swapPairs_swapPairs : ∀ l : Bytes, swapPairs (swapPairs l) = l := by
  intro l
  fun_induction swapPairs l with
  | case1 a b r ih => simp [swapPairs, ih]
  | case2 r h =>
    match r, h with
    | [], _ => rfl
    | [a], _ => rfl
    | a :: b :: r, h => exact absurd rfl (h a b r)

theorem byteswap_length (d : Bytes) : (byteswap d).length = d.length := by
  unfold byteswap
  split
  · exact swapPairs_length d
  · rename_i h
    simp [swapPairs_length]

/-- `byteswap_bytes` is an involution (for every length; an odd last octet stays in place) -/
theorem byteswap_byteswap (d : Bytes) : byteswap (byteswap d) = d := by
  by_cases h : d.length % 2 = 0
  · have h1 : byteswap d = swapPairs d := by simp [byteswap, h]
    rw [h1]
    simp [byteswap, swapPairs_length, h, swapPairs_swapPairs]
  · have hl : (byteswap d).length = d.length := byteswap_length d
    have h1 : byteswap d = swapPairs d.dropLast ++ d.drop (d.length - 1) := by simp [byteswap, h]
    have hpos : 0 < d.length := by omega
    have hlast : (d.drop (d.length - 1)).length = 1 := by simp; omega
    have hA : (swapPairs d.dropLast).length = d.length - 1 := by simp [swapPairs_length]
    have key : ∀ e : Bytes, ¬ e.length % 2 = 0 →
        byteswap e = swapPairs e.dropLast ++ e.drop (e.length - 1) := by
      intro e he; simp [byteswap, he]
    rw [key (byteswap d) (by rw [hl]; exact h), hl, h1]
    have e1 : (swapPairs d.dropLast ++ d.drop (d.length - 1)).dropLast = swapPairs d.dropLast := by
      match hd : d.drop (d.length - 1), hlast with
      | [x], _ => simp
    have e2 : (swapPairs d.dropLast ++ d.drop (d.length - 1)).drop (d.length - 1) = d.drop (d.length - 1) := by
      rw [← hA, List.drop_left]
    rw [e1, e2, swapPairs_swapPairs, List.dropLast_eq_take]
    exact List.take_append_drop _ _


/-! ## enumeration lookups -/

/-- every member value is a 16-bit word with equal octets (0x1111 · k), or fits one octet -/
def symVals (vals : List Nat) : Bool := vals.all (fun v => decide (v < 65536) && decide (v / 256 = v % 256))

theorem findIdx_none_of_not_mem (vals : List Nat) (v : Nat) (h : v ∉ vals) :
    vals.findIdx? (· == v) = none := by
  rw [List.findIdx?_eq_none_iff]
  intro x hx
  simp
  intro hxv
  exact h (hxv ▸ hx)

/-- a 16-bit field read big-endian (Kaitai) or little-endian (raw path) looks up the same member,
because every member value has two equal octets -/
theorem lookup_sym (vals : List Nat) (dflt : Option Nat) (hs : symVals vals = true) (a b : Nat)
    (ha : a < 256) (hb : b < 256) :
    lookup vals dflt (256 * a + b) = lookup vals dflt (a + 256 * b) := by
  by_cases hab : a = b
  · subst hab; congr 1; omega
  · have hmem : ∀ v, v ∈ vals → v / 256 = v % 256 := by
      intro v hv
      have := List.all_eq_true.mp hs v hv
      simp at this
      exact this.2
    have n1 : 256 * a + b ∉ vals := fun h => hab (by have := hmem _ h; omega)
    have n2 : a + 256 * b ∉ vals := fun h => hab (by have := hmem _ h; omega)
    simp [lookup, findIdx_none_of_not_mem _ _ n1, findIdx_none_of_not_mem _ _ n2]

theorem tables_sym : symVals Gen.Ipsc.timeslotVal = true ∧ symVals Gen.Ipsc.slotTypeVal = true ∧
    symVals Gen.Ipsc.frameTypeVal = true := by decide

/-! ## slices of a buffer of known length -/

theorem slice1 (d : Bytes) (i : Nat) (h : i < d.length) : slice d i (i + 1) = [d[i]] := by
  unfold slice
  rw [List.drop_take]
  simp [List.take_one, List.head?_drop, h]

theorem slice2 (d : Bytes) (i : Nat) (h : i + 1 < d.length) : slice d i (i + 2) = [d[i], d[i + 1]] := by
  unfold slice
  have e : d.drop i = d[i] :: d[i + 1] :: d.drop (i + 2) := by
    rw [List.drop_eq_getElem_cons (show i < d.length by omega),
      List.drop_eq_getElem_cons (show i + 1 < d.length by omega)]
  rw [List.drop_take, show i + 2 - i = 2 by omega, e]
  rfl


theorem be_le_two (vals : List Nat) (dflt : Option Nat) (hs : symVals vals = true) (d : Bytes) (i : Nat)
    (h : i + 1 < d.length) (hb : ∀ b ∈ d, b < 256) :
    lookup vals dflt (be (slice d i (i + 2))) = lookup vals dflt (le (slice d i (i + 2))) := by
  rw [slice2 d i h]
  have h1 : d[i] < 256 := hb _ (List.getElem_mem _)
  have h2 : d[i + 1] < 256 := hb _ (List.getElem_mem _)
  have := lookup_sym vals dflt hs d[i] d[i + 1] h1 h2
  simpa [be, le] using this

/-- **both decoders build the same object** from every 72-octet buffer that carries the fixed second
header (whatever the field values are: undefined type values are rejected / defaulted alike) -/
theorem paths_agree_all (d : Bytes) (hlen : d.length = 72) (hb : ∀ b ∈ d, b < 256)
    (hh : slice d 2 4 = [0x5a, 0x5a]) : kaitaiPath d = fromIpscBytes d := by
  obtain ⟨s1, s2, s3⟩ := tables_sym
  have hts := be_le_two _ Gen.Ipsc.timeslotDefault s1 d 16 (by omega) hb
  have hst := be_le_two _ Gen.Ipsc.slotTypeDefault s2 d 18 (by omega) hb
  have hft := be_le_two _ Gen.Ipsc.frameTypeDefault s3 d 22 (by omega) hb
  have hct : be (slice d 62 63) = le (slice d 62 63) := by
    rw [slice1 d 62 (by omega)]; simp [be, le]
  have hr1 : [be (slice d 71 72)] = slice d 71 72 := by
    rw [slice1 d 71 (by omega)]; simp [be]
  unfold kaitaiPath kaitaiParse
  rw [if_neg (by omega), if_neg (by simp [hh]), if_neg (by omega)]
  simp only [fromKaitai, fromIpscBytes, hts, hst, hft, hct, hr1]
  generalize lookup Gen.Ipsc.callTypeVal Gen.Ipsc.callTypeDefault (le (slice d 62 63)) = a1
  generalize lookup Gen.Ipsc.frameTypeVal Gen.Ipsc.frameTypeDefault (le (slice d 22 24)) = a2
  generalize lookup Gen.Ipsc.packetTypeVal Gen.Ipsc.packetTypeDefault (be (slice d 8 9)) = a3
  generalize lookup Gen.Ipsc.slotTypeVal Gen.Ipsc.slotTypeDefault (le (slice d 18 20)) = a4
  generalize lookup Gen.Ipsc.timeslotVal Gen.Ipsc.timeslotDefault (le (slice d 16 18)) = a5
  cases a1 <;> cases a2 <;> cases a3 <;> cases a4 <;> cases a5 <;> rfl


/-- a frame as the property describes it: field values, reserved octets, the 34 payload octets as
they appear on the wire -/
structure Frame where
  first : Bytes
  seq : Nat
  r3 : Bytes
  pt : Nat
  r7 : Bytes
  ts : Nat
  st : Nat
  cc : Nat
  ft : Nat
  r2a : Bytes
  payload : Bytes
  r2b : Bytes
  ct : Nat
  dst : Nat
  src : Nat
  r1 : Bytes
  deriving DecidableEq, Repr

/-- the 72 octets of a frame: first header, `5a 5a`, sequence number, 3 reserved, packet type,
7 reserved, timeslot / slot type words (LE), colour code as the nibble-repeated word, frame type word,
2 reserved, 34 payload octets, 2 reserved, call type, destination and source id in the upper three
octets of a little-endian 32-bit word, 1 reserved -/
def Frame.bytes (f : Frame) : Bytes :=
  f.first ++ [0x5a, 0x5a] ++ [f.seq] ++ f.r3 ++ [valOf packetTypeVal f.pt] ++ f.r7
    ++ toLe 2 (valOf timeslotVal f.ts) ++ toLe 2 (valOf slotTypeVal f.st)
    ++ [17 * f.cc, 17 * f.cc] ++ toLe 2 (valOf frameTypeVal f.ft) ++ f.r2a
    ++ f.payload
    ++ f.r2b ++ [valOf callTypeVal f.ct] ++ toLe 4 (f.dst * 256) ++ toLe 4 (f.src * 256) ++ f.r1

/-- well-formed: member indices of the defined types, sequence 0..255, colour 0..15, ids below 2^24 = 16777216,
field lengths; reserved and payload octets are arbitrary octets -/
def Frame.wf (f : Frame) : Bool :=
  decide (f.first.length = 2) && decide (f.seq < 256) && decide (f.r3.length = 3) &&
  decide (f.pt < packetTypeVal.length) && decide (f.r7.length = 7) &&
  decide (f.ts < timeslotVal.length) && decide (f.st < slotTypeVal.length) && decide (f.cc < 16) &&
  decide (f.ft < frameTypeVal.length) && decide (f.r2a.length = 2) && decide (f.payload.length = 34) &&
  decide (f.r2b.length = 2) && decide (f.ct < callTypeVal.length) && decide (f.dst < 16777216) &&
  decide (f.src < 16777216) && decide (f.r1.length = 1) &&
  (f.first ++ f.r3 ++ f.r7 ++ f.r2a ++ f.payload ++ f.r2b ++ f.r1).all (· < 256)

/-- the object both decoders must produce -/
def Frame.obj (f : Frame) : Ipsc :=
  { callType := f.ct, frameType := f.ft, packetType := f.pt, slotType := f.st, timeslot := f.ts,
    seq := f.seq, cc := f.cc, dst := f.dst, src := f.src,
    payload := (byteswap f.payload).dropLast, pad := (byteswap f.payload).drop 33,
    firstHeader := f.first, secondHeader := [0x5a, 0x5a], reserved3 := f.r3, reserved7a := f.r7,
    reserved2a := f.r2a, reserved2b := f.r2b, reserved1 := f.r1 }

/-! facts about the extracted tables -/

theorem lookup_member :
    (∀ i, i < packetTypeVal.length → lookup packetTypeVal packetTypeDefault (valOf packetTypeVal i) = some i ∧ valOf packetTypeVal i < 256) ∧
    (∀ i, i < callTypeVal.length → lookup callTypeVal callTypeDefault (valOf callTypeVal i) = some i ∧ valOf callTypeVal i < 256) ∧
    (∀ i, i < timeslotVal.length → lookup timeslotVal timeslotDefault (valOf timeslotVal i) = some i ∧ valOf timeslotVal i < 65536) ∧
    (∀ i, i < slotTypeVal.length → lookup slotTypeVal slotTypeDefault (valOf slotTypeVal i) = some i ∧ valOf slotTypeVal i < 65536) ∧
    (∀ i, i < frameTypeVal.length → lookup frameTypeVal frameTypeDefault (valOf frameTypeVal i) = some i ∧ valOf frameTypeVal i < 65536) := by
  decide

theorem lor_nibble : ∀ c, c < 16 → (c ||| (c <<< 4)) = 17 * c := by decide

theorem le_toLe2 (v : Nat) (h : v < 65536) : le (toLe 2 v) = v := by
  simp [toLe, le]; omega


theorem len1 {l : Bytes} (h : l.length = 1) : ∃ a, l = [a] := by
  match l, h with
  | [a], _ => exact ⟨a, rfl⟩

theorem len2 {l : Bytes} (h : l.length = 2) : ∃ a b, l = [a, b] := by
  match l, h with
  | [a, b], _ => exact ⟨a, b, rfl⟩

theorem len3 {l : Bytes} (h : l.length = 3) : ∃ a b c, l = [a, b, c] := by
  match l, h with
  | [a, b, c], _ => exact ⟨a, b, c, rfl⟩

theorem len7 {l : Bytes} (h : l.length = 7) : ∃ a b c d e f g, l = [a, b, c, d, e, f, g] := by
  match l, h with
  | [a, b, c, d, e, f, g], _ => exact ⟨a, b, c, d, e, f, g, rfl⟩

theorem slice_cons_succ (a : Nat) (l : Bytes) (i j : Nat) : slice (a :: l) (i + 1) (j + 1) = slice l i j := by
  simp [slice]

theorem slice_cons_zero (a : Nat) (l : Bytes) (j : Nat) : slice (a :: l) 0 (j + 1) = a :: slice l 0 j := by
  simp [slice]

theorem slice_zero_zero (l : Bytes) : slice l 0 0 = [] := by simp [slice]

theorem slice_append_left (p t : Bytes) : slice (p ++ t) 0 p.length = p := by
  simp [slice]

theorem slice_append_right (p t : Bytes) (i j : Nat) : slice (p ++ t) (p.length + i) (p.length + j) = slice t i j := by
  unfold slice
  rw [List.take_append, List.drop_append]
  simp

theorem slice_right34 (p t : Bytes) (h : p.length = 34) (i j : Nat) :
    slice (p ++ t) (34 + i) (34 + j) = slice t i j := by
  rw [← h]; exact slice_append_right p t i j

theorem slice_left34 (p t : Bytes) (h : p.length = 34) : slice (p ++ t) 0 34 = p := by
  rw [← h]; exact slice_append_left p t

theorem decode_raw (f : Frame) (h : f.wf = true) : fromIpscBytes f.bytes = .ok f.obj := by
  simp only [Frame.wf, Bool.and_eq_true, decide_eq_true_eq] at h
  obtain ⟨⟨⟨⟨⟨⟨⟨⟨⟨⟨⟨⟨⟨⟨⟨⟨h1, h2⟩, h3⟩, h4⟩, h5⟩, h6⟩, h7⟩, h8⟩, h9⟩, h10⟩, h11⟩, h12⟩, h13⟩, h14⟩, h15⟩, h16⟩, -⟩ := h
  obtain ⟨first, seq, r3, pt, r7, ts, st, cc, ft, r2a, payload, r2b, ct, dst, src, r1⟩ := f
  simp only at h1 h2 h3 h4 h5 h6 h7 h8 h9 h10 h11 h12 h13 h14 h15 h16
  obtain ⟨a0, a1, rfl⟩ := len2 h1
  obtain ⟨b0, b1, b2, rfl⟩ := len3 h3
  obtain ⟨c0, c1, c2, c3, c4, c5, c6, rfl⟩ := len7 h5
  obtain ⟨d0, d1, rfl⟩ := len2 h10
  obtain ⟨e0, e1, rfl⟩ := len2 h12
  obtain ⟨g0, rfl⟩ := len1 h16
  obtain ⟨k1, k2, k3, k4, k5⟩ := lookup_member
  obtain ⟨p1, p2⟩ := k1 pt h4
  obtain ⟨q1, q2⟩ := k2 ct h13
  obtain ⟨t1, t2⟩ := k3 ts h6
  obtain ⟨s1, s2⟩ := k4 st h7
  obtain ⟨f1, f2⟩ := k5 ft h9
  simp only [Frame.bytes, List.cons_append, List.nil_append, List.append_assoc, toLe]
  unfold fromIpscBytes
  simp only [slice_cons_succ, slice_cons_zero, slice_zero_zero]
  have e1 := fun t => slice_right34 payload t h11 0 2
  have e2 := fun t => slice_right34 payload t h11 2 3
  have e3 := fun t => slice_right34 payload t h11 3 7
  have e4 := fun t => slice_right34 payload t h11 7 11
  have e5 := fun t => slice_right34 payload t h11 11 12
  have e6 := fun t => slice_left34 payload t h11
  simp only [Nat.reduceAdd] at e1 e2 e3 e4 e5
  simp only [e1, e2, e3, e4, e5, e6, slice_cons_succ, slice_cons_zero, slice_zero_zero]
  have a1 : be [valOf packetTypeVal pt] = valOf packetTypeVal pt := by simp [be]
  have a2 : le [valOf callTypeVal ct] = valOf callTypeVal ct := by simp [le]
  have a3 : be [seq] = seq := by simp [be]
  have a4 : le [17 * cc, 17 * cc] % 16 = cc := by simp [le]; omega
  have a5 : le [dst * 256 % 256, dst * 256 / 256 % 256, dst * 256 / 256 / 256 % 256,
      dst * 256 / 256 / 256 / 256 % 256] / 256 = dst := by simp [le]; omega
  have a6 : le [src * 256 % 256, src * 256 / 256 % 256, src * 256 / 256 / 256 % 256,
      src * 256 / 256 / 256 / 256 % 256] / 256 = src := by simp [le]; omega
  have a7 := le_toLe2 _ t2
  have a8 := le_toLe2 _ s2
  have a9 := le_toLe2 _ f2
  simp only [toLe] at a7 a8 a9
  have a10 : (byteswap payload).length - 1 = 33 := by rw [byteswap_length, h11]
  simp only [a1, a2, a3, a4, a5, a6, a7, a8, a9, a10, p1, q1, t1, s1, f1, Frame.obj]


theorem frame_facts (f : Frame) (h : f.wf = true) :
    f.bytes.length = 72 ∧ (∀ b ∈ f.bytes, b < 256) ∧ slice f.bytes 2 4 = [0x5a, 0x5a] := by
  simp only [Frame.wf, Bool.and_eq_true, decide_eq_true_eq] at h
  obtain ⟨⟨⟨⟨⟨⟨⟨⟨⟨⟨⟨⟨⟨⟨⟨⟨h1, h2⟩, h3⟩, h4⟩, h5⟩, h6⟩, h7⟩, h8⟩, h9⟩, h10⟩, h11⟩, h12⟩, h13⟩, h14⟩, h15⟩, h16⟩, hall⟩ := h
  obtain ⟨first, seq, r3, pt, r7, ts, st, cc, ft, r2a, payload, r2b, ct, dst, src, r1⟩ := f
  simp only at h1 h2 h3 h4 h5 h6 h7 h8 h9 h10 h11 h12 h13 h14 h15 h16 hall
  obtain ⟨k1, k2, k3, k4, k5⟩ := lookup_member
  obtain ⟨-, p2⟩ := k1 pt h4
  obtain ⟨-, q2⟩ := k2 ct h13
  refine ⟨?_, ?_, ?_⟩
  · simp [Frame.bytes, toLe, h1, h3, h5, h10, h11, h12, h16]
  · have hall' : ∀ l : Bytes, (∀ x ∈ l, x ∈ first ++ (r3 ++ (r7 ++ (r2a ++ (payload ++ (r2b ++ r1)))))) →
        ∀ x ∈ l, x < 256 := by
      intro l hl x hx
      have := List.all_eq_true.mp hall x (by simpa [List.append_assoc] using hl x hx)
      simpa using this
    have m1 : ∀ x ∈ first, x < 256 := hall' first (by intro x hx; simp [hx])
    have m2 : ∀ x ∈ r3, x < 256 := hall' r3 (by intro x hx; simp [hx])
    have m3 : ∀ x ∈ r7, x < 256 := hall' r7 (by intro x hx; simp [hx])
    have m4 : ∀ x ∈ r2a, x < 256 := hall' r2a (by intro x hx; simp [hx])
    have m5 : ∀ x ∈ payload, x < 256 := hall' payload (by intro x hx; simp [hx])
    have m6 : ∀ x ∈ r2b, x < 256 := hall' r2b (by intro x hx; simp [hx])
    have m7 : ∀ x ∈ r1, x < 256 := hall' r1 (by intro x hx; simp [hx])
    intro b hb
    simp only [Frame.bytes, toLe, List.mem_append, List.mem_cons, List.not_mem_nil, or_false] at hb
    rcases hb with ((((((((((((((((hb | hb) | hb) | hb) | hb) | hb) | hb) | hb) | hb) | hb) | hb) | hb) | hb) | hb) | hb) | hb) | hb)
    · exact m1 b hb
    · rcases hb with hb | hb <;> omega
    · omega
    · exact m2 b hb
    · omega
    · exact m3 b hb
    · rcases hb with hb | hb <;> omega
    · rcases hb with hb | hb <;> omega
    · rcases hb with hb | hb <;> omega
    · rcases hb with hb | hb <;> omega
    · exact m4 b hb
    · exact m5 b hb
    · exact m6 b hb
    · omega
    · rcases hb with hb | hb | hb | hb <;> omega
    · rcases hb with hb | hb | hb | hb <;> omega
    · exact m7 b hb
  · obtain ⟨a0, a1, rfl⟩ := len2 h1
    simp [Frame.bytes, slice]


/-- the generic-parser path decodes a well-formed frame to the same object -/
theorem decode_kaitai (f : Frame) (h : f.wf = true) : kaitaiPath f.bytes = .ok f.obj := by
  obtain ⟨h1, h2, h3⟩ := frame_facts f h
  rw [paths_agree_all f.bytes h1 h2 h3, decode_raw f h]

theorem slice_self (l : Bytes) (n : Nat) (h : l.length = n) : slice l 0 n = l := by
  simp [slice, ← h]

theorem asIpscBytes_ok (x : Ipsc) (h1 : x.seq < 256) (h2 : x.cc < 16) (h3 : x.dst < 16777216)
    (h4 : x.src < 16777216) :
    asIpscBytes x = .ok (slice x.firstHeader 0 2 ++ slice x.secondHeader 0 2 ++ [x.seq] ++ slice x.reserved3 0 3
      ++ toLe 1 (valOf packetTypeVal x.packetType) ++ slice x.reserved7a 0 7
      ++ toLe 2 (valOf timeslotVal x.timeslot) ++ toLe 2 (valOf slotTypeVal x.slotType)
      ++ [17 * x.cc, 17 * x.cc] ++ toLe 2 (valOf frameTypeVal x.frameType) ++ slice x.reserved2a 0 2
      ++ byteswap (x.payload ++ slice x.pad 0 1)
      ++ slice x.reserved2b 0 2 ++ toLe 1 (valOf callTypeVal x.callType)
      ++ toLe 4 (x.dst * 256) ++ toLe 4 (x.src * 256) ++ slice x.reserved1 0 1) := by
  have c1 : ¬ x.seq ≥ 256 := by omega
  have c2 : ¬ 17 * x.cc ≥ 256 := by omega
  have c3 : ¬ x.dst * 256 ≥ 4294967296 := by clear c1 c2 h1 h2 h4; omega
  have c4 : ¬ x.src * 256 ≥ 4294967296 := by clear c1 c2 c3 h1 h2 h3; omega
  unfold asIpscBytes halfByte
  rw [if_neg c1, lor_nibble x.cc h2, if_neg c2]
  dsimp only []
  rw [if_neg c3, if_neg c4]
  rfl

/-- the decoded object serialises to the original 72 octets -/
theorem reserialise (f : Frame) (h : f.wf = true) : asIpscBytes f.obj = .ok f.bytes := by
  simp only [Frame.wf, Bool.and_eq_true, decide_eq_true_eq] at h
  obtain ⟨⟨⟨⟨⟨⟨⟨⟨⟨⟨⟨⟨⟨⟨⟨⟨h1, h2⟩, h3⟩, h4⟩, h5⟩, h6⟩, h7⟩, h8⟩, h9⟩, h10⟩, h11⟩, h12⟩, h13⟩, h14⟩, h15⟩, h16⟩, -⟩ := h
  have hq : (byteswap f.payload).length = 34 := by rw [byteswap_length, h11]
  have hpay : byteswap ((byteswap f.payload).dropLast ++ slice ((byteswap f.payload).drop 33) 0 1) = f.payload := by
    have : slice ((byteswap f.payload).drop 33) 0 1 = (byteswap f.payload).drop 33 :=
      slice_self _ 1 (by simp [hq])
    rw [this, List.dropLast_eq_take, hq, List.take_append_drop, byteswap_byteswap]
  obtain ⟨k1, k2, -, -, -⟩ := lookup_member
  obtain ⟨-, p2⟩ := k1 f.pt h4
  obtain ⟨-, q2⟩ := k2 f.ct h13
  rw [asIpscBytes_ok f.obj h2 h8 h14 h15]
  dsimp only [Frame.obj]
  rw [hpay, slice_self _ 2 h1, slice_self _ 3 h3, slice_self _ 7 h5,
    slice_self _ 2 h10, slice_self _ 2 h12, slice_self _ 1 h16]
  simp only [Frame.bytes, toLe, Nat.mod_eq_of_lt p2, Nat.mod_eq_of_lt q2]
  rfl

/-- both entry points of `Burst.from_hytera_ipsc` give the burst the frame describes -/
def Frame.view (f : Frame) : View :=
  { cls := if f.st == slotSyncIdx then .sync
           else if (isWakeup.getD f.st []).getD f.ct false then .wakeup else .burst,
    btype := if f.st == slotSyncIdx then .undefined
             else if (isWakeup.getD f.st []).getD f.ct false then .undefined
             else if slotIsVocoder.getD f.st false then .vocoder else .dataAndControl,
    payload := (byteswap f.payload).dropLast,
    timeslot := if f.ts == timeslot1Idx then 1 else 2,
    seq := f.seq, cc := f.cc, src := f.src, dst := f.dst }

theorem burstOf_obj (f : Frame) (h : f.wf = true) : burstOf f.obj = .ok f.view := by
  simp only [Frame.wf, Bool.and_eq_true, decide_eq_true_eq] at h
  have h11 : f.payload.length = 34 := h.1.1.1.1.1.1.2
  have hq : (byteswap f.payload).dropLast.length = 33 := by simp [byteswap_length, h11]
  unfold burstOf
  simp only [Frame.obj, hq, ne_eq, not_true_eq_false, if_false]
  unfold Frame.view
  by_cases c1 : (f.st == slotSyncIdx) = true
  · simp only [c1, if_true]; rfl
  · by_cases c2 : (isWakeup.getD f.st []).getD f.ct false = true
    · simp only [c1, c2, if_true]; rfl
    · simp only [c1, c2]; rfl

/-! ## histories -/

namespace Heap

theorem size_push (h : Heap) (x : Ipsc) : (h.push x).size = h.size + 1 := by
  simp [push, size]

theorem size_write (h : Heap) (r : Nat) (x : Ipsc) : (h.write r x).size = h.size := by
  simp [write, size]

theorem read_push_new (h : Heap) (x : Ipsc) : (h.push x).read h.size = some x := by
  simp [push, read, size]

theorem read_push_old (h : Heap) (x : Ipsc) (r : Nat) (hr : r < h.size) : (h.push x).read r = h.read r := by
  simp only [push, read, size] at *
  rw [List.getElem?_append_left hr]

theorem read_write_ne (h : Heap) (r r' : Nat) (x : Ipsc) (hne : r ≠ r') : (h.write r x).read r' = h.read r' := by
  simp only [write, read]
  rw [List.getElem?_set_ne hne]

end Heap

namespace HOp

theorem size_handOut_le (h : Heap) (r : Except Err Ipsc) : h.size ≤ (handOut h r).size := by
  cases r <;> simp [handOut, Heap.size_push]

theorem read_handOut_old (h : Heap) (res : Except Err Ipsc) (r : Nat) (hr : r < h.size) :
    (handOut h res).read r = h.read r := by
  cases res with
  | error e => rfl
  | ok x => exact Heap.read_push_old h x r hr

/-- no step ever removes an object -/
theorem size_run_le (h : Heap) (op : HOp) : h.size ≤ (op.run h).size := by
  cases op with
  | decRaw d => exact size_handOut_le _ _
  | decKai d => exact size_handOut_le _ _
  | burstRaw d => exact size_handOut_le _ _
  | burstKai d => exact size_handOut_le _ _
  | set r f v =>
    simp only [run]
    cases h.read r with
    | none => exact Nat.le_refl _
    | some x => rw [Heap.size_write]; exact Nat.le_refl _
  | ser r => exact Nat.le_refl _

/-- a step changes no object it is not aimed at: decoders and the serialiser touch nothing that was
handed out before, an assignment touches only its own object -/
theorem read_run_of_ne (h : Heap) (op : HOp) (r : Nat) (hr : r < h.size) (ht : op.target ≠ some r) :
    (op.run h).read r = h.read r := by
  cases op with
  | decRaw d => exact read_handOut_old _ _ r hr
  | decKai d => exact read_handOut_old _ _ r hr
  | burstRaw d => exact read_handOut_old _ _ r hr
  | burstKai d => exact read_handOut_old _ _ r hr
  | set r' f v =>
    simp only [run]
    cases h.read r' with
    | none => rfl
    | some x =>
      have : r' ≠ r := fun e => ht (by rw [e]; rfl)
      exact Heap.read_write_ne h r' r _ this
  | ser r' => rfl

end HOp

theorem size_runHistory_le (h : Heap) (ops : List HOp) : h.size ≤ (runHistory h ops).size := by
  induction ops generalizing h with
  | nil => exact Nat.le_refl _
  | cons op ops ih =>
    exact Nat.le_trans (HOp.size_run_le h op) (ih (op.run h))

theorem read_runHistory (h : Heap) (ops : List HOp) (r : Nat) (hr : r < h.size)
    (hops : ∀ op ∈ ops, op.target ≠ some r) : (runHistory h ops).read r = h.read r := by
  induction ops generalizing h with
  | nil => rfl
  | cons op ops ih =>
    have h1 := HOp.read_run_of_ne h op r hr (hops op (by simp))
    have h2 : r < (op.run h).size := Nat.lt_of_lt_of_le hr (HOp.size_run_le h op)
    have := ih (op.run h) h2 (fun o ho => hops o (by simp [ho]))
    simp only [runHistory, List.foldl_cons] at this ⊢
    rw [this, h1]

/-- each of the four decoder entry points, on the octets of a well-formed frame, hands out one new
object: the one the frame describes — whatever was handed out (and done to it) before -/
theorem decoder_push (f : Frame) (hf : f.wf = true) (h : Heap) (op : HOp) (hop : op ∈ decoders f.bytes) :
    op.run h = h.push f.obj := by
  have hk : HOp.kept (.ok f.obj) = .ok f.obj := by
    simp only [HOp.kept, burstOf_obj f hf]
  simp only [decoders, List.mem_cons, List.not_mem_nil, or_false] at hop
  rcases hop with rfl | rfl | rfl | rfl
  · simp only [HOp.run, decode_raw f hf, HOp.handOut]
  · simp only [HOp.run, decode_kaitai f hf, HOp.handOut]
  · simp only [HOp.run, decode_raw f hf, hk, HOp.handOut]
  · simp only [HOp.run, decode_kaitai f hf, hk, HOp.handOut]

end Dmr.Ipsc
