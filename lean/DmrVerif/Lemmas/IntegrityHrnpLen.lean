import DmrVerif.Lemmas.IntegrityHrnp

/-!
C04, HRNP (core Lean): what the ones' complement checksum does when the **announced packet length**
changes (the two octets 8, 9 that `hrnp_single_bit` leaves out), and what it guarantees for bursts.

A changed length makes `HRNP.from_bytes` sum another octet range.  The sum over the longer range is the
sum over the shorter one + the difference of the two length words + the words of the octets in between
(`covSum_mono`), so the verdict is an arithmetic condition modulo 65535 (`hrnp_relen`).
-/

namespace Dmr
namespace Integrity
open Dmr.Crc Dmr.Gen Dmr.Gen.Integrity

/-! ### the fold, exactly -/

theorem foldGo_pos (f c : Nat) (h : 0 < c) : 0 < foldGo f c := by
  induction f generalizing c with
  | zero => simpa [foldGo] using h
  | succ f ih =>
    unfold foldGo
    split
    · exact h
    · apply ih; omega

theorem fold16_pos (c : Nat) (h : 0 < c) : 0 < fold16 c := foldGo_pos c c h

theorem fold16_zero : fold16 0 = 0 := rfl

/-- two sums fold to the same value iff they are congruent modulo 65535 and both or none is zero -/
theorem fold16_eq_iff (A B : Nat) : fold16 A = fold16 B ↔ A % 65535 = B % 65535 ∧ (A = 0 ↔ B = 0) := by
  have a1 := fold16_lt A
  have a2 := fold16_mod A
  have b1 := fold16_lt B
  have b2 := fold16_mod B
  constructor
  · intro h
    refine ⟨by omega, ?_, ?_⟩
    · intro hA
      subst hA
      rcases Nat.eq_zero_or_pos B with hB | hB
      · exact hB
      · have := fold16_pos B hB
        rw [fold16_zero] at h; omega
    · intro hB
      subst hB
      rcases Nat.eq_zero_or_pos A with hA | hA
      · exact hA
      · have := fold16_pos A hA
        rw [fold16_zero] at h; omega
  · rintro ⟨hm, hz⟩
    rcases Nat.eq_zero_or_pos A with hA | hA
    · have hB := hz.mp hA
      rw [hA, hB]
    · have hB : 0 < B := by
        rcases Nat.eq_zero_or_pos B with hB | hB
        · have := hz.mpr hB; omega
        · exact hB
      have p1 := fold16_pos A hA
      have p2 := fold16_pos B hB
      omega

theorem fold16_add_eq_iff (A D : Nat) (hD : 0 < D) :
    fold16 (A + D) = fold16 A ↔ D % 65535 = 0 ∧ A ≠ 0 := by
  rw [fold16_eq_iff]
  constructor
  · rintro ⟨hm, hz⟩
    refine ⟨by omega, ?_⟩
    intro hA
    have := hz.mpr hA
    omega
  · rintro ⟨hm, hA⟩
    refine ⟨by omega, ?_⟩
    constructor <;> intro h <;> omega

theorem hrnpChecksum_eq_iff (a b : Bytes) :
    hrnpChecksum a = hrnpChecksum b ↔ fold16 (words16 a).sum = fold16 (words16 b).sum := by
  unfold hrnpChecksum
  have h1 := fold16_lt (words16 a).sum
  have h2 := fold16_lt (words16 b).sum
  omega

/-! ### word sums of concatenations -/

theorem words16_append_even (a b : Bytes) (h : a.length % 2 = 0) :
    words16 (a ++ b) = words16 a ++ words16 b := by
  induction a using words16.induct with
  | case1 => rfl
  | case2 x => simp at h
  | case3 x y rest ih =>
    have h' : rest.length % 2 = 0 := by simp only [List.length_cons] at h; omega
    simp only [List.cons_append, words16, ih h']

theorem words16_cons_sum (x : Nat) (B : Bytes) :
    (words16 (x :: B)).sum = x * 256 + (words16 (0 :: B)).sum := by
  cases B with
  | nil => simp [words16]
  | cons b r => simp [words16]; omega

/-- the octets after an odd-length prefix pair up one place later: a zero octet in front realigns them -/
def oddPad (n : Nat) : Bytes := if n % 2 = 1 then [0] else []

theorem words16_sum_append (A B : Bytes) :
    (words16 (A ++ B)).sum = (words16 A).sum + (words16 (oddPad A.length ++ B)).sum := by
  induction A using words16.induct with
  | case1 => simp [oddPad, words16]
  | case2 x =>
    have := words16_cons_sum x B
    simp only [List.cons_append, List.nil_append, oddPad, List.length_cons, List.length_nil] at *
    simp [words16]; omega
  | case3 x y rest ih =>
    have hp : oddPad (x :: y :: rest).length = oddPad rest.length := by
      unfold oddPad; simp only [List.length_cons]
      have : (rest.length + 1 + 1) % 2 = rest.length % 2 := by omega
      simp only [this]
    rw [hp]
    simp only [List.cons_append, words16, List.sum_cons, ih]
    omega

/-! ### the covered sum as a function of the announced length -/

/-- the word sum `from_bytes` forms when the announced length is `L`: the eight octets in front, the
length word, the payload octets 12 … L-1 -/
def covSum (d : Bytes) (L : Nat) : Nat :=
  (words16 (d.take 8)).sum + L + (words16 ((d.take L).drop 12)).sum

/-- the word sum of the octets between two announced lengths, aligned as the checksum pairs them -/
def lenTail (d : Bytes) (lo hi : Nat) : Nat :=
  (words16 (oddPad (max lo 12) ++ (d.take hi).drop (max lo 12))).sum

theorem pair_of_length_two (l : Bytes) (h : l.length = 2) : ∃ p q, l = [p, q] := by
  match l, h with
  | [p, q], _ => exact ⟨p, q, rfl⟩

theorem covered_sum (d : Bytes) (h10 : 10 ≤ d.length) :
    (words16 (hrnpCovered d)).sum = covSum d (be16 ((d.take 10).drop 8)) := by
  obtain ⟨p, q, hpq⟩ := pair_of_length_two ((d.take 10).drop 8) (by simp; omega)
  have hsplit : d.take 10 = d.take 8 ++ [p, q] := by
    rw [← hpq]
    have := List.take_append_drop 8 (d.take 10)
    rw [List.take_take] at this
    simpa using this.symm
  unfold hrnpCovered covSum
  rw [hpq, be16_pair, hsplit, List.append_assoc,
    words16_append_even _ _ (by simp; omega), words16_append_even [p, q] _ (by simp)]
  simp [words16]
  omega

theorem covSum_mono (d : Bytes) (lo hi : Nat) (hlt : lo < hi) (hhi : hi ≤ d.length) :
    covSum d hi = covSum d lo + (hi - lo) + lenTail d lo hi := by
  unfold covSum lenTail
  by_cases hlo : lo ≤ 12
  · have h0 : (d.take lo).drop 12 = [] := by
      apply List.drop_eq_nil_of_le; simp; omega
    have hm : max lo 12 = 12 := by omega
    rw [h0, hm]
    simp [words16, oddPad]
    omega
  · have hm : max lo 12 = lo := by omega
    rw [hm]
    have hsplit : (d.take hi).drop 12 = (d.take lo).drop 12 ++ (d.take hi).drop lo := by
      have := (List.take_append_drop (lo - 12) ((d.take hi).drop 12)).symm
      rw [List.drop_drop, ← List.drop_take, List.take_take] at this
      rw [show min lo hi = lo by omega, show 12 + (lo - 12) = lo by omega] at this
      exact this
    have hpad : oddPad ((d.take lo).drop 12).length = oddPad lo := by
      unfold oddPad
      have : ((d.take lo).drop 12).length = lo - 12 := by simp; omega
      rw [this]
      have : (lo - 12) % 2 = lo % 2 := by omega
      rw [this]
    rw [hsplit, words16_sum_append, hpad]
    omega

/-! ### the parser's verdict as a conjunction -/

theorem hrnpDecOld_iff (d : Bytes) (hf : Bool) :
    hrnpDecOld d hf = .ok true ↔
      12 ≤ d.length ∧ be16 ((d.take 10).drop 8) ≤ d.length ∧ hrnpOpcodes.contains (d.getD 3 0) = true
        ∧ hf = false ∧ hrnpChecksum (hrnpCovered d) = be16 ((d.take 12).drop 10) := by
  constructor
  · intro h
    obtain ⟨h1, h2, h3⟩ := hrnpDecOld_true d hf h
    refine ⟨h1, h2, ?_, ?_, h3⟩
    · unfold hrnpDecOld at h
      simp only [bind, Except.bind, pure, Except.pure] at h
      rw [if_neg (by omega), if_neg (by omega)] at h
      by_cases ho : hrnpOpcodes.contains (d.getD 3 0) = true
      · exact ho
      · have hc : hrnpOpcodes.contains (d.getD 3 0) = false := by simpa using ho
        rw [hc] at h
        exact absurd h (by simp [throw, throwThe, MonadExceptOf.throw])
    · unfold hrnpDecOld at h
      simp only [bind, Except.bind, pure, Except.pure] at h
      rw [if_neg (by omega), if_neg (by omega)] at h
      cases hf with
      | false => rfl
      | true =>
        split at h
        · exact absurd h (by simp [throw, throwThe, MonadExceptOf.throw])
        · exact absurd h (by simp [throw, throwThe, MonadExceptOf.throw])
  · rintro ⟨h1, h2, h3, h4, h5⟩
    subst h4
    unfold hrnpDecOld
    simp only [bind, Except.bind, pure, Except.pure]
    rw [if_neg (by omega), if_neg (by omega)]
    unfold hrnpCovered at h5
    rw [h3, h5]
    simp

/-- the assertion the parser makes about the announced length -/
theorem hrnpDecOld_too_short (d : Bytes) (hf : Bool) (h12 : 12 ≤ d.length)
    (h : d.length < be16 ((d.take 10).drop 8)) : hrnpDecOld d hf = .error .assertionError := by
  unfold hrnpDecOld
  simp only [bind, Except.bind, pure, Except.pure]
  rw [if_neg (by omega), if_pos h]
  rfl

/-! ### another announced length in the same buffer -/

/-- `d'` is `d` with the two length octets replaced by `a`, `c` -/
structure Relen (d d' : Bytes) (a c : Nat) : Prop where
  len : d'.length = d.length
  front : d'.take 8 = d.take 8
  back : d'.drop 10 = d.drop 10
  field : (d'.take 10).drop 8 = [a, c]

theorem take_drop_via (l : Bytes) (n : Nat) : (l.take n).drop 12 = ((l.drop 10).take (n - 10)).drop 2 := by
  rw [← List.drop_take, List.drop_drop]

theorem Relen.payload {d d' : Bytes} {a c : Nat} (r : Relen d d' a c) (n : Nat) :
    (d'.take n).drop 12 = (d.take n).drop 12 := by
  rw [take_drop_via, take_drop_via, r.back]

theorem Relen.check {d d' : Bytes} {a c : Nat} (r : Relen d d' a c) :
    (d'.take 12).drop 10 = (d.take 12).drop 10 := by
  rw [List.drop_take, List.drop_take, r.back]

theorem Relen.opcode {d d' : Bytes} {a c : Nat} (r : Relen d d' a c) : d'.getD 3 0 = d.getD 3 0 := by
  rw [← getD_take d' 3 8 (by omega), ← getD_take d 3 8 (by omega), r.front]

theorem Relen.covSum {d d' : Bytes} {a c : Nat} (r : Relen d d' a c) (L : Nat) :
    Integrity.covSum d' L = Integrity.covSum d L := by
  unfold Integrity.covSum
  rw [r.front, r.payload]

theorem hrnp_relen_aux (d d' : Bytes) (a c P Q : Nat) (hd : hrnpDecOld d false = .ok true) (r : Relen d d' a c)
    (hPdef : be16 ((d.take 10).drop 8) = P) (hQdef : a * 256 + c = Q) (hf : Bool) :
    (Q < P →
      (hrnpDecOld d' hf = .ok true ↔ hf = false
        ∧ (P - Q + lenTail d Q P) % 65535 = 0 ∧ Q + (words16 (d.take 8)).sum ≠ 0))
    ∧ (P < Q →
      (hrnpDecOld d' hf = .ok true ↔ hf = false ∧ Q ≤ d.length
        ∧ (Q - P + lenTail d P Q) % 65535 = 0 ∧ P + (words16 (d.take 8)).sum ≠ 0)) := by
  obtain ⟨h12, hP, hop, _, hck⟩ := (hrnpDecOld_iff d false).mp hd
  rw [hPdef] at hP
  have hQ : be16 ((d'.take 10).drop 8) = Q := by rw [r.field, be16_pair, hQdef]
  have hsP : (words16 (hrnpCovered d)).sum = covSum d P := by
    rw [covered_sum d (by omega), hPdef]
  have hsQ : (words16 (hrnpCovered d')).sum = covSum d Q := by
    rw [covered_sum d' (by rw [r.len]; omega), hQ, r.covSum]
  have key : hrnpDecOld d' hf = .ok true ↔ hf = false ∧ Q ≤ d.length
      ∧ fold16 (covSum d Q) = fold16 (covSum d P) := by
    rw [hrnpDecOld_iff, r.len, hQ, r.opcode, r.check, ← hck, hrnpChecksum_eq_iff, hsP, hsQ]
    constructor
    · rintro ⟨_, h2, _, h4, h5⟩; exact ⟨h4, h2, h5⟩
    · rintro ⟨h4, h2, h5⟩; exact ⟨h12, h2, hop, h4, h5⟩
  have hA : ∀ L, covSum d L ≠ 0 ↔ L + (words16 (d.take 8)).sum ≠ 0 := by
    intro L
    unfold covSum
    constructor
    · intro h h0
      have hL : L = 0 := by omega
      subst hL
      apply h
      simp [words16]; omega
    · intro h; omega
  refine ⟨fun hlt => ?_, fun hlt => ?_⟩
  · have hfold : fold16 (covSum d Q) = fold16 (covSum d P)
        ↔ (P - Q + lenTail d Q P) % 65535 = 0 ∧ covSum d Q ≠ 0 := by
      rw [covSum_mono d Q P hlt hP, Nat.add_assoc, ← fold16_add_eq_iff _ _ (by omega)]
      exact eq_comm
    rw [key, hfold, hA]
    constructor
    · rintro ⟨h1, _, h3, h4⟩; exact ⟨h1, h3, h4⟩
    · rintro ⟨h1, h3, h4⟩; exact ⟨h1, by omega, h3, h4⟩
  · rw [key]
    constructor
    · rintro ⟨h1, h2, h3⟩
      rw [covSum_mono d P Q hlt h2, Nat.add_assoc, fold16_add_eq_iff _ _ (by omega), hA] at h3
      exact ⟨h1, h2, h3.1, h3.2⟩
    · rintro ⟨h1, h2, h3, h4⟩
      refine ⟨h1, h2, ?_⟩
      rw [covSum_mono d P Q hlt h2, Nat.add_assoc, fold16_add_eq_iff _ _ (by omega), hA]
      exact ⟨h3, h4⟩

/-- **the verdict under another announced length.**  `d` is accepted under its announced length `P`;
`d'` is the same buffer announcing `Q = a·256 + c`.  `d'` is accepted iff the HDAP stage does not raise,
the buffer holds `Q` octets, the difference of the two lengths plus the word sum of the octets in between
is a multiple of 65535, and the shorter range does not sum to zero. -/
theorem hrnp_relen (d d' : Bytes) (a c : Nat) (hd : hrnpDecOld d false = .ok true) (r : Relen d d' a c)
    (hf : Bool) :
    (a * 256 + c < be16 ((d.take 10).drop 8) →
      (hrnpDecOld d' hf = .ok true ↔ hf = false
        ∧ (be16 ((d.take 10).drop 8) - (a * 256 + c) + lenTail d (a * 256 + c) (be16 ((d.take 10).drop 8))) % 65535 = 0
        ∧ a * 256 + c + (words16 (d.take 8)).sum ≠ 0))
    ∧ (be16 ((d.take 10).drop 8) < a * 256 + c →
      (hrnpDecOld d' hf = .ok true ↔ hf = false ∧ a * 256 + c ≤ d.length
        ∧ (a * 256 + c - be16 ((d.take 10).drop 8) + lenTail d (be16 ((d.take 10).drop 8)) (a * 256 + c)) % 65535 = 0
        ∧ be16 ((d.take 10).drop 8) + (words16 (d.take 8)).sum ≠ 0)) :=
  hrnp_relen_aux d d' a c _ _ hd r rfl rfl hf

/-! ### one length octet replaced -/

theorem announced_eq (d : Bytes) (h : 10 ≤ d.length) :
    (d.take 10).drop 8 = [d.getD 8 0, d.getD 9 0] := by
  obtain ⟨p, q, hpq⟩ := pair_of_length_two ((d.take 10).drop 8) (by simp; omega)
  have hp : p = d.getD 8 0 := by
    have := getD_take_drop d 0 10 8 (by omega); rw [hpq] at this; simpa using this
  have hq : q = d.getD 9 0 := by
    have := getD_take_drop d 1 10 8 (by omega); rw [hpq] at this; simpa using this
  rw [hpq, hp, hq]

theorem relen_set8 (d : Bytes) (h : 10 ≤ d.length) (y : Nat) : Relen d (d.set 8 y) y (d.getD 9 0) where
  len := by simp
  front := by rw [List.take_set, List.set_eq_of_length_le (by simp; omega)]
  back := by rw [List.drop_set, if_pos (by omega)]
  field := by rw [slice_set, if_pos (by omega), announced_eq d h]; rfl

theorem relen_set9 (d : Bytes) (h : 10 ≤ d.length) (y : Nat) : Relen d (d.set 9 y) (d.getD 8 0) y where
  len := by simp
  front := by rw [List.take_set, List.set_eq_of_length_le (by simp; omega)]
  back := by rw [List.drop_set, if_pos (by omega)]
  field := by rw [slice_set, if_pos (by omega), announced_eq d h]; rfl

/-! ### bursts: the covered octets as one big-endian number -/

/-- the big-endian number a byte string spells -/
def beNat (m : Bytes) : Nat := m.foldl (fun acc b => acc * 256 + b) 0

/-- the covered octets as `calculate_checksum` pairs them: an odd string gets a zero octet -/
def padded (m : Bytes) : Bytes := m ++ oddPad m.length

theorem oddPad_cons2 (x y : Nat) (rest : Bytes) : oddPad (x :: y :: rest).length = oddPad rest.length := by
  unfold oddPad; simp only [List.length_cons]
  have : (rest.length + 1 + 1) % 2 = rest.length % 2 := by omega
  simp only [this]

/-- 65536 ≡ 1 (mod 65535): the word sum and the big-endian number are congruent -/
theorem foldl_words (m : Bytes) (acc : Nat) :
    (padded m).foldl (fun acc b => acc * 256 + b) acc % 65535 = (acc + (words16 m).sum) % 65535 := by
  unfold padded
  induction m using words16.induct generalizing acc with
  | case1 => simp [oddPad, words16]
  | case2 x => simp [oddPad, words16]; omega
  | case3 x y rest ih =>
    rw [oddPad_cons2]
    simp only [List.cons_append, List.foldl_cons, words16, List.sum_cons]
    rw [ih]; omega

theorem foldl_zero_iff (m : Bytes) (acc : Nat) :
    (padded m).foldl (fun acc b => acc * 256 + b) acc = 0 ↔ acc = 0 ∧ (words16 m).sum = 0 := by
  unfold padded
  induction m using words16.induct generalizing acc with
  | case1 => simp [oddPad, words16]
  | case2 x => simp [oddPad, words16]; omega
  | case3 x y rest ih =>
    rw [oddPad_cons2]
    simp only [List.cons_append, List.foldl_cons, words16, List.sum_cons]
    rw [ih]; omega

theorem words_sum_mod (m : Bytes) : (words16 m).sum % 65535 = beNat (padded m) % 65535 := by
  have := foldl_words m 0
  unfold beNat; rw [this]; simp

theorem words_sum_zero_iff (m : Bytes) : (words16 m).sum = 0 ↔ beNat (padded m) = 0 := by
  have := foldl_zero_iff m 0
  unfold beNat; rw [this]; simp

theorem two_cancel (D : Nat) : D * 2 % 65535 = 0 ↔ D % 65535 = 0 := by
  constructor
  · intro h
    exact Nat.mod_eq_zero_of_dvd
      (Nat.Coprime.dvd_of_dvd_mul_right (by decide) (Nat.dvd_of_mod_eq_zero h))
  · intro h
    exact Nat.mod_eq_zero_of_dvd (Nat.dvd_mul_right_of_dvd (Nat.dvd_of_mod_eq_zero h) 2)

/-- a power of two is invertible modulo 65535 -/
theorem pow2_cancel (A D k : Nat) : (A + D * 2 ^ k) % 65535 = A % 65535 ↔ D % 65535 = 0 := by
  induction k generalizing D with
  | zero => simp; omega
  | succ k ih =>
    have : D * 2 ^ (k + 1) = (D * 2) * 2 ^ k := by rw [Nat.pow_succ]; ac_rfl
    rw [this, ih, two_cancel]

/-- two different 16-bit values in the same place of a number: congruent modulo 65535 iff one is
`0x0000` and the other `0xFFFF` -/
theorem window_cong (X V V' k : Nat) (hV : V < 65536) (hV' : V' < 65536) (hne : V ≠ V') :
    (X + V' * 2 ^ k) % 65535 = (X + V * 2 ^ k) % 65535 ↔ (V = 0 ∧ V' = 65535) ∨ (V = 65535 ∧ V' = 0) := by
  rcases Nat.lt_or_gt_of_ne hne with h | h
  · obtain ⟨D, rfl⟩ : ∃ D, V' = V + D := ⟨V' - V, by omega⟩
    rw [Nat.add_mul, ← Nat.add_assoc, pow2_cancel]
    omega
  · obtain ⟨D, rfl⟩ : ∃ D, V = V' + D := ⟨V - V', by omega⟩
    rw [Nat.add_mul, ← Nat.add_assoc, eq_comm, pow2_cancel]
    omega

/-- **bursts and the ones' complement sum.**  `m'` is `m` with the sixteen bits `k` places from the end
of the (padded) covered octets changed from `V` to `V' ≠ V`, everything else (`X`) as it was.  The check
sums agree iff the window went from all-zero to all-one or back, and some other bit is set. -/
theorem hrnp_window_iff (m m' : Bytes) (X V V' k : Nat) (hN : beNat (padded m) = X + V * 2 ^ k)
    (hN' : beNat (padded m') = X + V' * 2 ^ k) (hV : V < 65536) (hV' : V' < 65536) (hne : V ≠ V') :
    hrnpChecksum m' = hrnpChecksum m ↔ ((V = 0 ∧ V' = 65535) ∨ (V = 65535 ∧ V' = 0)) ∧ X ≠ 0 := by
  rw [hrnpChecksum_eq_iff, fold16_eq_iff, words_sum_mod, words_sum_mod, words_sum_zero_iff,
    words_sum_zero_iff, hN, hN', window_cong X V V' k hV hV' hne]
  have hp := Nat.two_pow_pos k
  generalize 2 ^ k = p at hp
  constructor
  · rintro ⟨h1, h2⟩
    refine ⟨h1, ?_⟩
    rcases h1 with ⟨rfl, rfl⟩ | ⟨rfl, rfl⟩
    · intro hX; subst hX
      have := h2.mpr (by simp); omega
    · intro hX; subst hX
      have := h2.mp (by simp); omega
  · rintro ⟨h1, hX⟩
    refine ⟨h1, ?_⟩
    rcases h1 with ⟨rfl, rfl⟩ | ⟨rfl, rfl⟩ <;> constructor <;> intro h <;> omega

/-! ### one length octet lowered / raised by `p` (one inverted bit: `p = 2 ^ b`) -/

theorem announced_val (d : Bytes) (h : 10 ≤ d.length) :
    be16 ((d.take 10).drop 8) = d.getD 8 0 * 256 + d.getD 9 0 := by
  rw [announced_eq d h, be16_pair]

theorem hrnp_length_lowered (d : Bytes) (hd : hrnpDecOld d false = .ok true) (j y p : Nat)
    (hj : j = 8 ∨ j = 9) (hp : 0 < p) (hy : d.getD j 0 = y + p) (hf : Bool) :
    hrnpDecOld (d.set j y) hf = .ok true ↔ hf = false
      ∧ (p * wt j + lenTail d (be16 ((d.take 10).drop 8) - p * wt j) (be16 ((d.take 10).drop 8))) % 65535 = 0
      ∧ be16 ((d.take 10).drop 8) - p * wt j + (words16 (d.take 8)).sum ≠ 0 := by
  obtain ⟨h12, _, _, _, _⟩ := (hrnpDecOld_iff d false).mp hd
  have hPe := announced_val d (by omega)
  rcases hj with rfl | rfl
  · have hw : wt 8 = 256 := rfl
    rw [hw]
    have aux := (hrnp_relen_aux d _ y (d.getD 9 0) _ (be16 ((d.take 10).drop 8) - p * 256) hd
      (relen_set8 d (by omega) y) rfl (by omega) hf).1 (by omega)
    rw [aux, show be16 ((d.take 10).drop 8) - (be16 ((d.take 10).drop 8) - p * 256) = p * 256 by omega]
  · have hw : wt 9 = 1 := rfl
    rw [hw]
    have aux := (hrnp_relen_aux d _ (d.getD 8 0) y _ (be16 ((d.take 10).drop 8) - p * 1) hd
      (relen_set9 d (by omega) y) rfl (by omega) hf).1 (by omega)
    rw [aux, show be16 ((d.take 10).drop 8) - (be16 ((d.take 10).drop 8) - p * 1) = p * 1 by omega]

theorem hrnp_length_raised (d : Bytes) (hd : hrnpDecOld d false = .ok true) (j y p : Nat)
    (hj : j = 8 ∨ j = 9) (hp : 0 < p) (hy : y = d.getD j 0 + p) (hf : Bool) :
    hrnpDecOld (d.set j y) hf = .ok true ↔ hf = false
      ∧ be16 ((d.take 10).drop 8) + p * wt j ≤ d.length
      ∧ (p * wt j + lenTail d (be16 ((d.take 10).drop 8)) (be16 ((d.take 10).drop 8) + p * wt j)) % 65535 = 0
      ∧ be16 ((d.take 10).drop 8) + (words16 (d.take 8)).sum ≠ 0 := by
  obtain ⟨h12, _, _, _, _⟩ := (hrnpDecOld_iff d false).mp hd
  have hPe := announced_val d (by omega)
  rcases hj with rfl | rfl
  · have hw : wt 8 = 256 := rfl
    rw [hw]
    have aux := (hrnp_relen_aux d _ y (d.getD 9 0) _ (be16 ((d.take 10).drop 8) + p * 256) hd
      (relen_set8 d (by omega) y) rfl (by omega) hf).2 (by omega)
    rw [aux, show be16 ((d.take 10).drop 8) + p * 256 - be16 ((d.take 10).drop 8) = p * 256 by omega]
  · have hw : wt 9 = 1 := rfl
    rw [hw]
    have aux := (hrnp_relen_aux d _ (d.getD 8 0) y _ (be16 ((d.take 10).drop 8) + p * 1) hd
      (relen_set9 d (by omega) y) rfl (by omega) hf).2 (by omega)
    rw [aux, show be16 ((d.take 10).drop 8) + p * 1 - be16 ((d.take 10).drop 8) = p * 1 by omega]

/-- the buffer holds exactly the announced octets and a length octet is raised: the parser's assertion
`len(data) >= hrnp_packet_len` fails -/
theorem hrnp_length_raised_exact (d : Bytes) (h12 : 12 ≤ d.length)
    (hex : d.length = be16 ((d.take 10).drop 8)) (j y p : Nat) (hj : j = 8 ∨ j = 9) (hp : 0 < p)
    (hy : y = d.getD j 0 + p) (hf : Bool) : hrnpDecOld (d.set j y) hf = .error .assertionError := by
  have hPe := announced_val d (by omega)
  apply hrnpDecOld_too_short _ _ (by simp; omega)
  rcases hj with rfl | rfl
  · rw [(relen_set8 d (by omega) y).field, be16_pair, List.length_set]; omega
  · rw [(relen_set9 d (by omega) y).field, be16_pair, List.length_set]; omega

/-! ### a change that leaves the first twelve octets alone -/

theorem hrnpDecOld_same_head (d d' : Bytes) (hd : hrnpDecOld d false = .ok true) (hl : d'.length = d.length)
    (hh : d'.take 12 = d.take 12) (hf : Bool) :
    hrnpDecOld d' hf = .ok true ↔ hf = false ∧ hrnpChecksum (hrnpCovered d') = hrnpChecksum (hrnpCovered d) := by
  obtain ⟨h12, hP, hop, _, hck⟩ := (hrnpDecOld_iff d false).mp hd
  have h10 : d'.take 10 = d.take 10 := by
    have := congrArg (List.take 10) hh
    simpa [List.take_take] using this
  have h3 : d'.getD 3 0 = d.getD 3 0 := by
    rw [← getD_take d' 3 12 (by omega), ← getD_take d 3 12 (by omega), hh]
  rw [hrnpDecOld_iff, hl, h10, h3, hh, ← hck]
  constructor
  · rintro ⟨_, _, _, h4, h5⟩; exact ⟨h4, h5⟩
  · rintro ⟨h4, h5⟩; exact ⟨h12, hP, hop, h4, h5⟩

end Integrity
end Dmr
