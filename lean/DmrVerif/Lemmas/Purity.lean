import DmrVerif.Model.Purity

/-!
# C19 — lemmas: the invariant of the hidden state and non-interference, entry point by entry point
-/

namespace Dmr.Purity
open Dmr

/-- "caches equal their derived value, tables and shared defaults are untouched".  The CRC registers, the kept
calculators' registers, the TMS header flag and `MBXML.DEBUG` are deliberately NOT constrained. -/
structure Inv (s : S) : Prop where
  cache : ∀ e ∈ s.tableCache, e.2 = mkTable e.1.1 e.1.2
  sharedTables : ∀ c ∈ sharedCfgs, c.2 = true → ∃ e ∈ s.tableCache, e.1 = (c.1.width, c.1.poly)
  codes : s.codes = theCodes
  burst : s.burstBits = init.burstBits
  csbk : s.csbkParams = init.csbkParams
  dh : s.dhPadding = init.dhPadding
  so : s.soReserved = init.soReserved
  rcp : s.rcpSettings = init.rcpSettings
  tokReq : s.tokReq = init.tokReq
  tokAns : s.tokAns = init.tokAns
  attrDefs : s.attrDefs = init.attrDefs

/-! ### the lookup-table cache -/

theorem find_key {cache : List ((Nat × Nat) × List Nat)} {w p : Nat} {e : (Nat × Nat) × List Nat}
    (h : cache.find? (fun e => e.1 == (w, p)) = some e) : e ∈ cache ∧ e.1 = (w, p) := by
  refine ⟨List.mem_of_find?_eq_some h, ?_⟩
  have := List.find?_some h
  simpa using this

theorem find_table {cache : List ((Nat × Nat) × List Nat)} (hc : ∀ e ∈ cache, e.2 = mkTable e.1.1 e.1.2)
    {w p : Nat} {e : (Nat × Nat) × List Nat} (h : cache.find? (fun e => e.1 == (w, p)) = some e) :
    e.2 = mkTable w p := by
  obtain ⟨hm, hk⟩ := find_key h
  have := hc e hm
  rw [hk] at this
  exact this

theorem find_exists {cache : List ((Nat × Nat) × List Nat)} {w p : Nat}
    (h : ∃ e ∈ cache, e.1 = (w, p)) : ∃ e, cache.find? (fun e => e.1 == (w, p)) = some e := by
  obtain ⟨e, hm, hk⟩ := h
  have : (cache.find? (fun e => e.1 == (w, p))).isSome = true := by
    rw [List.find?_isSome]
    exact ⟨e, hm, by simp [hk]⟩
  exact Option.isSome_iff_exists.mp this

/-- the table a register gets from the cache is the derived one, and the cache stays correct -/
theorem cachedTable_spec {cache : List ((Nat × Nat) × List Nat)} (hc : ∀ e ∈ cache, e.2 = mkTable e.1.1 e.1.2)
    (w p : Nat) :
    (cachedTable cache w p).1 = mkTable w p
    ∧ (∀ e ∈ (cachedTable cache w p).2, e.2 = mkTable e.1.1 e.1.2)
    ∧ (∀ e ∈ cache, e ∈ (cachedTable cache w p).2) := by
  unfold cachedTable
  cases h : cache.find? (fun e => e.1 == (w, p)) with
  | some e => exact ⟨find_table hc h, hc, fun _ h => h⟩
  | none =>
    refine ⟨rfl, ?_, fun e he => List.mem_cons_of_mem _ he⟩
    intro e he
    rcases List.mem_cons.mp he with rfl | he
    · rfl
    · exact hc e he

/-- replacing only unconstrained components keeps the invariant -/
theorem Inv.scratch {s : S} (h : Inv s) (regs : List Nat) (kept : List (CrcCfg × Bool × Nat)) (f d : Bool) :
    Inv { s with sharedRegs := regs, kept := kept, tmsFlag := f, mbxmlDebug := d } :=
  ⟨h.cache, h.sharedTables, h.codes, h.burst, h.csbk, h.dh, h.so, h.rcp, h.tokReq, h.tokAns, h.attrDefs⟩

/-- the clock the interpreter showed at import is not constrained either -/
theorem Inv.withClock {s : S} (h : Inv s) (y : Nat) : Inv { s with importClock := y } :=
  ⟨h.cache, h.sharedTables, h.codes, h.burst, h.csbk, h.dh, h.so, h.rcp, h.tokReq, h.tokAns, h.attrDefs⟩

theorem Inv.withCache {s : S} (h : Inv s) (cache : List ((Nat × Nat) × List Nat))
    (hc : ∀ e ∈ cache, e.2 = mkTable e.1.1 e.1.2) (hsub : ∀ e ∈ s.tableCache, e ∈ cache) :
    Inv { s with tableCache := cache } :=
  ⟨hc, fun c hc' ht => by
      obtain ⟨e, he, hk⟩ := h.sharedTables c hc' ht
      exact ⟨e, hsub e he, hk⟩,
    h.codes, h.burst, h.csbk, h.dh, h.so, h.rcp, h.tokReq, h.tokAns, h.attrDefs⟩

/-! ### forms of a buffer argument -/

/-- `bytereverse` keeps the number of bits -/
theorem byteReverse_length (bs : Bits) : (byteReverse bs).length = bs.length := by
  induction h : bs.length using Nat.strongRecOn generalizing bs with
  | _ n ih =>
    unfold byteReverse
    rw [chunks]
    split
    · rename_i hc
      rcases hc with hc | hc
      · omega
      · subst hc; simp at h; simp [h]
    · rename_i hc
      have hne : bs ≠ [] := fun e => hc (Or.inr e)
      have hpos : 0 < bs.length := List.length_pos_iff.mpr hne
      have := ih (bs.drop 8).length (by simp only [List.length_drop]; omega) (bs.drop 8) rfl
      unfold byteReverse at this
      simp only [List.map_cons, List.flatten_cons, List.length_append, List.length_reverse, List.length_take, this, List.length_drop]
      omega
/-! ### one lemma per entry point: result = history-free function, invariant kept, buffers as `argsAfter` says -/

/-- what `step` has to satisfy for a call -/
def Good (s : S) (c : Call) : Prop :=
  (step s c).2.1 = pureOut c ∧ Inv (step s c).1 ∧ (step s c).2.2 = argsAfter c

theorem good_crcShared {s : S} (h : Inv s) (k : Nat) (data : Bits) (little : Bool) :
    Good s (.crcShared k data little) := by
  show (stepCrcShared s k data little).2.1 = pureOut (.crcShared k data little) ∧ Inv (stepCrcShared s k data little).1
    ∧ (stepCrcShared s k data little).2.2 = .crcShared k data little
  show _ = pureCrcShared k data little ∧ _
  unfold stepCrcShared pureCrcShared pureCrc
  cases hk : sharedCfgs[k]? with
  | none => exact ⟨rfl, h, rfl⟩
  | some ct =>
    obtain ⟨cfg, table⟩ := ct
    cases table with
    | false => exact ⟨rfl, h.scratch _ _ _ _, rfl⟩
    | true =>
      have hmem : (cfg, true) ∈ sharedCfgs := List.mem_of_getElem? hk
      obtain ⟨e, he⟩ := find_exists (h.sharedTables _ hmem rfl)
      have ht := find_table h.cache he
      simp only [he, Option.map_some, Option.isNone_some, Bool.and_false, if_true,
        Bool.false_eq_true, if_false, ht]
      exact ⟨trivial, h.scratch _ _ _ _, trivial⟩

theorem good_crcNew {s : S} (h : Inv s) (cfg : CrcCfg) (table : Bool) (data : Bits) (little : Bool) :
    Good s (.crcNew cfg table data little) := by
  show (stepCrcNew s cfg table data little).2.1 = pureOut (.crcNew cfg table data little)
    ∧ Inv (stepCrcNew s cfg table data little).1 ∧ (stepCrcNew s cfg table data little).2.2 = .crcNew cfg table data little
  show _ = pureCrc cfg table data little ∧ _
  unfold stepCrcNew pureCrc
  cases table with
  | false => exact ⟨rfl, h, rfl⟩
  | true =>
    obtain ⟨h1, h2, h3⟩ := cachedTable_spec h.cache cfg.width cfg.poly
    simp only [if_true, h1]
    exact ⟨trivial, h.withCache _ h2 h3, trivial⟩

theorem good_crcKept {s : S} (h : Inv s) (cfg : CrcCfg) (table : Bool) (data : Bits) (little : Bool) :
    Good s (.crcKept cfg table data little) := by
  show (stepCrcKept s cfg table data little).2.1 = pureOut (.crcKept cfg table data little)
    ∧ Inv (stepCrcKept s cfg table data little).1 ∧ (stepCrcKept s cfg table data little).2.2 = .crcKept cfg table data little
  show _ = pureCrc cfg table data little ∧ _
  unfold stepCrcKept pureCrc
  obtain ⟨h1, h2, h3⟩ := cachedTable_spec h.cache cfg.width cfg.poly
  cases table with
  | false =>
    simp only [Bool.false_eq_true, if_false, Bool.false_and]
    exact ⟨trivial, (h.withCache _ h.cache (fun _ h => h)).scratch _ _ _ _, trivial⟩
  | true =>
    simp only [if_true, h1, Bool.true_and]
    refine ⟨trivial, ?_, trivial⟩
    cases hkn : (s.kept.any fun e => e.1 == cfg && e.2.1 == true) with
    | true => exact (h.withCache _ h.cache (fun _ h => h)).scratch _ _ _ _
    | false => exact (h.withCache _ h2 h3).scratch _ _ _ _

theorem good_ham {s : S} (h : Inv s) (i : Nat) (x : Bits) :
    Good s (.hamGenerate i x) ∧ Good s (.hamCheck i x) := by
  refine ⟨?_, ?_⟩
  · show (codeOp s.codes i (·.k) x (fun C => Out.bits (C.gen x))) = codeOp theCodes i (·.k) x (fun C => Out.bits (C.gen x)) ∧ Inv s ∧ _ = _
    rw [h.codes]; exact ⟨rfl, h, rfl⟩
  · show (codeOp s.codes i (·.n) x (fun C => Out.flag (C.check x))) = codeOp theCodes i (·.n) x (fun C => Out.flag (C.check x)) ∧ Inv s ∧ _ = _
    rw [h.codes]; exact ⟨rfl, h, rfl⟩

theorem good_hamCac {s : S} (h : Inv s) (i : Nat) (w : Bits) : Good s (.hamCac i w) := by
  show (stepHamCac s i w).2.1 = pureHamCac i w ∧ Inv (stepHamCac s i w).1 ∧ (stepHamCac s i w).2.2 = .hamCac i (cacBuffer i w)
  unfold stepHamCac cacBuffer pureHamCac
  rw [h.codes]
  by_cases hi : i ≥ 5
  · rw [if_pos hi, if_pos hi]; exact ⟨rfl, h, rfl⟩
  · rw [if_neg hi, if_neg hi]
    generalize codeOp theCodes i (·.n) w (fun C => Out.flagBits (C.checkAndCorrect w).1 (C.checkAndCorrect w).2) = o
    cases o <;> exact ⟨rfl, h, rfl⟩

theorem good_getToken {s : S} (h : Inv s) (req : Bool) (name : Key) (attrs : List (Key × Option Nat)) :
    Good s (.getToken req name attrs) := by
  show Out.tok (getTokenAux s.attrDefs name attrs (if req then s.tokReq else s.tokAns) 0).1
    = Out.tok (getTokenAux init.attrDefs name attrs (initTokens req) 0).1 ∧ Inv s ∧ _ = _
  unfold initTokens
  rw [h.attrDefs, h.tokReq, h.tokAns]
  exact ⟨rfl, h, rfl⟩

theorem good_crc9Parts {s : S} (h : Inv s) (form : BufForm) (data : Bits) (sn mask : Nat) (crc32 : Option Bytes) :
    Good s (.crc9Parts form data sn mask crc32) := by
  obtain ⟨g1, g2, _⟩ := good_crcShared h 1 (crc9Source form data sn crc32) false
  have g1' : (stepCrcShared s 1 (crc9Source form data sn crc32) false).2.1 = pureCrcShared 1 (crc9Source form data sn crc32) false := g1
  have g2' : Inv (stepCrcShared s 1 (crc9Source form data sn crc32) false).1 := g2
  show (stepCrc9Parts s form data sn mask crc32).2.1 = pureCrc9Parts form data sn mask crc32
    ∧ Inv (stepCrc9Parts s form data sn mask crc32).1 ∧ (stepCrc9Parts s form data sn mask crc32).2.2 = .crc9Parts form data sn mask crc32
  unfold stepCrc9Parts pureCrc9Parts
  cases crc9Guard sn crc32 with
  | some e => exact ⟨rfl, h, rfl⟩
  | none => exact ⟨by simp only [g1'], g2', rfl⟩

theorem good (s : S) (c : Call) (h : Inv s) : Good s c := by
  cases c with
  | crcShared k d l => exact good_crcShared h k d l
  | crcNew cfg t d l => exact good_crcNew h cfg t d l
  | crcKept cfg t d l => exact good_crcKept h cfg t d l
  | hamGenerate i m => exact (good_ham h i m).1
  | hamCheck i w => exact (good_ham h i w).2
  | hamCac i w => exact good_hamCac h i w
  | fiveBit d => exact ⟨rfl, h, rfl⟩
  | byteswap d => exact ⟨rfl, h, rfl⟩
  | burstDefault => exact ⟨by show Out.bits s.burstBits = _; rw [h.burst]; rfl, h, rfl⟩
  | csbkDefault => exact ⟨by show Out.pairBits _ _ = _; rw [h.csbk]; rfl, h, rfl⟩
  | dhDefault => exact ⟨by show Out.bits s.dhPadding = _; rw [h.dh]; rfl, h, rfl⟩
  | soDefault => exact ⟨by show Out.bits _ = _; rw [h.so]; rfl, h, rfl⟩
  | rcpDefault => exact ⟨by show Out.bytes _ = _; rw [h.rcp]; rfl, h, rfl⟩
  | getToken req name attrs => exact good_getToken h req name attrs
  | tmsAsBytes m a r c ty body => exact ⟨rfl, h.scratch _ _ _ _, rfl⟩
  | crc9Parts form data sn mask crc32 => exact good_crc9Parts h form data sn mask crc32
  | gpsDate dd mm yy => exact ⟨rfl, h, rfl⟩
  | elementBits cls i => exact ⟨rfl, h, rfl⟩

/-! ### histories -/

theorem run_good : ∀ (cs : List Call) (s : S), Inv s → (run s cs).2 = cs.map pureOut ∧ Inv (run s cs).1
  | [], _, h => ⟨rfl, h⟩
  | c :: cs, s, h => by
    obtain ⟨h1, h2, _⟩ := good s c h
    obtain ⟨ih1, ih2⟩ := run_good cs _ h2
    exact ⟨by simp only [run, List.map_cons, h1, ih1], ih2⟩

/-- the state reached after a history -/
def after (s : S) (cs : List Call) : S := (run s cs).1

/-! ### a memo in front of the entry points -/

/-- what the memo holds is the result of some call with that key -/
def MemoOk {κ : Type} (key : Call → κ) (memo : Option (κ × Out)) : Prop :=
  ∀ k o, memo = some (k, o) → ∃ c, key c = k ∧ o = pureOut c

theorem memoOk_set {κ : Type} (key : Call → κ) (c : Call) : MemoOk key (some (key c, pureOut c)) := by
  intro k o e
  simp only [Option.some.injEq, Prod.mk.injEq] at e
  exact ⟨c, e.1, e.2.symm⟩

/-- if the key determines the result, a memoised call answers what the history-free function answers and keeps both invariants -/
theorem memoStep_good {κ : Type} [DecidableEq κ] (key : Call → κ)
    (hk : ∀ c c', key c = key c' → pureOut c = pureOut c') (s : S) (memo : Option (κ × Out))
    (hs : Inv s) (hm : MemoOk key memo) (c : Call) :
    (memoStep key (s, memo) c).2 = pureOut c ∧ Inv (memoStep key (s, memo) c).1.1 ∧ MemoOk key (memoStep key (s, memo) c).1.2 := by
  obtain ⟨g1, g2, _⟩ := good s c hs
  have g1' : (step s c).2.1 = pureOut c := g1
  unfold memoStep
  cases memo with
  | none =>
    dsimp only
    rw [g1']
    exact ⟨rfl, g2, memoOk_set key c⟩
  | some p =>
    obtain ⟨k, o⟩ := p
    dsimp only
    by_cases hkc : key c = k
    · rw [if_pos hkc]
      obtain ⟨c', hc', ho⟩ := hm k o rfl
      exact ⟨by rw [ho]; exact (hk c c' (by rw [hkc, hc'])).symm, hs, hm⟩
    · rw [if_neg hkc, g1']
      exact ⟨rfl, g2, memoOk_set key c⟩

theorem memoRun_good {κ : Type} [DecidableEq κ] (key : Call → κ)
    (hk : ∀ c c', key c = key c' → pureOut c = pureOut c') (cs : List Call) :
    ∀ (s : S) (memo : Option (κ × Out)), Inv s → MemoOk key memo → memoRun key (s, memo) cs = cs.map pureOut := by
  induction cs with
  | nil => intro _ _ _ _; rfl
  | cons c cs ih =>
    intro s memo hs hm
    obtain ⟨h1, h2, h3⟩ := memoStep_good key hk s memo hs hm c
    have e : memoStep key (s, memo) c = (((memoStep key (s, memo) c).1.1, (memoStep key (s, memo) c).1.2), (memoStep key (s, memo) c).2) := rfl
    simp only [memoRun, List.map_cons, h1]
    rw [e]
    exact congrArg _ (ih _ _ h2 h3)

/-- two calls the key identifies although their results differ: the second is answered with the result of the first -/
theorem memoRun_collision {κ : Type} [DecidableEq κ] (key : Call → κ) (s : S) (hs : Inv s) (c c' : Call)
    (hk : key c = key c') (hne : pureOut c ≠ pureOut c') :
    memoRun key (s, none) [c, c'] ≠ [c, c'].map pureOut := by
  have g1 : (step s c).2.1 = pureOut c := (good s c hs).1
  simp only [memoRun, memoStep, hk, if_true, g1, List.map_cons, List.map_nil, ne_eq, List.cons.injEq, and_true, true_and]
  exact hne

theorem run_append (s : S) (a b : List Call) :
    (run s (a ++ b)).2 = (run s a).2 ++ (run (after s a) b).2 := by
  induction a generalizing s with
  | nil => rfl
  | cons c cs ih => simp only [List.cons_append, run, after, ih, List.cons_append]

/-! ### the executable invariant implies the invariant -/

theorem code_ext {a b : Code} (hn : a.n = b.n) (hk : a.k = b.k) (hd : a.d = b.d) (hG : a.G = b.G) (hH : a.H = b.H)
    (hS : a.S = b.S) : a = b := by
  cases a; cases b; simp_all

theorem inv_of_invB {s : S} (h : invB s = true) (hd : s.codes.map (·.d) = theCodes.map (·.d)) : Inv s := by
  simp only [invB, Bool.and_eq_true, List.all_eq_true, beq_iff_eq] at h
  obtain ⟨⟨⟨⟨⟨⟨⟨⟨⟨⟨⟨hc, hs⟩, hlen⟩, hcodes⟩, hb⟩, hcs⟩, hdh⟩, hso⟩, hr⟩, htr⟩, hta⟩, had⟩ := h
  refine ⟨fun e he => hc e he, ?_, ?_, hb, hcs, hdh, hso, hr, htr, hta, had⟩
  · intro c hc' ht
    have := hs c hc'
    simp only [ht, Bool.not_true, Bool.false_or, List.any_eq_true, beq_iff_eq] at this
    exact this
  · apply List.ext_getElem?
    intro i
    by_cases hi : i < theCodes.length
    · have := hcodes i (List.mem_range.mpr hi)
      have hdi : (s.codes.map (·.d))[i]? = (theCodes.map (·.d))[i]? := by rw [hd]
      simp only [List.getElem?_map] at hdi
      cases ha : s.codes[i]? with
      | none => simp [ha] at this
      | some a =>
        cases hb' : theCodes[i]? with
        | none => simp [ha, hb'] at this
        | some b =>
          simp only [ha, hb', Bool.and_eq_true, beq_iff_eq] at this
          simp only [ha, hb', Option.map_some, Option.some.injEq] at hdi
          obtain ⟨⟨⟨⟨h1, h2⟩, h3⟩, h4⟩, h5⟩ := this
          rw [code_ext h1 h2 hdi h3 h4 h5]
    · have h1 : theCodes[i]? = none := List.getElem?_eq_none (Nat.le_of_not_lt hi)
      have h2 : s.codes[i]? = none := List.getElem?_eq_none (by omega)
      rw [h1, h2]

end Dmr.Purity
