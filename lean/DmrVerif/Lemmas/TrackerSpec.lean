import DmrVerif.Model.Tracker

/-!
# What C08 demands of an event stream (specification side, independent of the tracker's state)

Small reference checkers that read only what the tracker *emits*: the callbacks, the ghost outputs
"block appended" / "header assigned", the fields of the returned burst.  The property theorems say that
these checkers accept every run.
-/

namespace Dmr.Tracker

/-! ## well-bracketed events -/

/-- the kind of the last `started` that has not been ended (`idle` = none), and "no violation so far" -/
structure WB where
  open_ : TxType := .idle
  ok : Bool := true
  deriving DecidableEq, Repr

/-- an `ended` of kind k is fine only while the open `started` is of kind k; it closes it -/
def WB.step (w : WB) : Event → WB
  | .started t => { w with open_ := t }
  | .dataEnded _ _ => { open_ := .idle, ok := w.ok && w.open_ == .data }
  | .voiceEnded _ _ => { open_ := .idle, ok := w.ok && w.open_ == .voice }

/-- every `ended` closes an open `started` of the same kind -/
def WellBracketed (evs : List Event) : Prop := (evs.foldl WB.step {}).ok = true

/-! ## ended events carry exactly what was received since the start -/

/-- header assigned and blocks appended since the last `started`, and "no violation so far" -/
structure PL where
  hdr : Option Hdr := none
  acc : List Block := []
  ok : Bool := true
  deriving DecidableEq, Repr

def PL.step (p : PL) : Act → PL
  | .ev (.started _) => { p with hdr := none, acc := [] }
  | .append b => { p with acc := p.acc ++ [b] }
  | .setHeader h => { p with hdr := some h }
  | .ev (.dataEnded h bl) => { p with ok := p.ok && p.hdr == some h && p.acc == bl }
  | .ev (.voiceEnded h bl) => { p with ok := p.ok && p.hdr == some h && p.acc == bl }

/-- every `ended` hands over the last header assigned and exactly the blocks appended since its `started` -/
def PayloadExact (acts : List Act) : Prop := (acts.foldl PL.step {}).ok = true

/-- the kind of header an `ended` event carries matches its kind -/
def Event.headerKindOk : Event → Bool
  | .started _ => true
  | .dataEnded (.data _) _ => true
  | .voiceEnded (.flc _) _ => true
  | _ => false

/-! ## receive sequence numbers -/

/-- `n` = bursts since the burst that delivered the last end: the next burst is numbered `(n+1) mod 256` -/
def seqOk : Nat → List Out → Bool
  | _, [] => true
  | n, o :: r => o.seq == (n + 1) % 256 && seqOk (if o.deliveredEnd then 0 else n + 1) r

/-! ## voice labels -/

/-- A → B → … → F → A; no label stays no label -/
def VB.next : VB → VB
  | .a => .b | .b => .c | .c => .d | .d => .e | .e => .f | .f => .a
  | .unknown => .unknown

/-- label of a vocoder burst inside a voice transmission: A on a voice SYNC, else the successor of the
previous burst's label -/
def voiceLabel (sync : Bool) (prev : VB) : VB := if sync then .a else prev.next

/-- the `i`-th label after a voice-SYNC burst (which is number 0): A, B, C, D, E, F, A, … -/
def cyc : Nat → VB
  | 0 => .a
  | n + 1 => (cyc n).next

/-! ## projections of a trace to one time slot -/

def outsOf (two : Bool) (recs : List Rec) : List Out := (recs.filter (·.two == two)).map (·.out)

def actsOf (two : Bool) (recs : List Rec) : List Act := (outsOf two recs).flatMap (·.acts)

def eventsOf (two : Bool) (recs : List Rec) : List Event := events (actsOf two recs)

/-- all callbacks of a trace in delivery order (both slots) -/
def allEvents (recs : List Rec) : List Event := recs.flatMap fun r => events r.out.acts

/-- the idle state a tracker is left in by `new_transmission(Idle)` -/
def Tx.isIdleFresh (tx : Tx) : Bool :=
  tx.type == .idle && tx.expected == 0 && tx.received == 0 && tx.blocks.isEmpty && tx.header.isNone
    && !tx.confirmed && !tx.finished

end Dmr.Tracker
