import Mathlib.Data.Fintype.Card
import Mathlib.Data.Fintype.EquivFin
import DmrVerif.Lemmas.CrcFront

/-!
Every check-sum value occurs: with a polynomial of constant term 1, the map "`w`-bit tail ↦ register
after the tail" is a bijection of the `w`-bit strings, from every register content.  So for every prefix
and every `w`-bit value `t` — `0…0`, `1…1`, the mask, … — there is exactly one `w`-bit tail that makes
the check sum of prefix ‖ tail equal to `t` (one message in `2^w`; the structured inputs the harness
constructs).  Injectivity is the burst lemma; surjectivity is counting (`Finite.surjective_of_injective`).
-/

namespace Dmr
namespace Crc

/-- from any register content, equally long tails no longer than the register lead to different
registers -/
theorem procBits_tail_injective (p r a b : Bits) (hp : p.length = r.length)
    (hlast : p.getLast? = some true) (hl : a.length = b.length) (hw : a.length ≤ p.length)
    (h : procBits p r a = procBits p r b) : a = b := by
  have hx := procBits_xor p r r a b hp rfl hl
  rw [h, xorBits_self, xorBits_self, procBits_length _ _ _ hp] at hx
  refine Classical.byContradiction fun hne => ?_
  have hxne : xorBits a b ≠ zeros (xorBits a b).length := by
    intro hz
    apply hne
    rw [xorBits_length, ← hl, Nat.min_self] at hz
    exact (xorBits_eq_zeros_iff a b hl).1 hz
  have hb := burst_feed p hlast 0 0 (xorBits a b) (by rw [xorBits_length]; omega) hxne
  apply hb
  unfold feed
  simp only [zeros, List.replicate_zero, List.nil_append, List.append_nil]
  rw [hp]
  exact hx

/-- … and every register content is reached by exactly one `w`-bit tail -/
theorem procBits_tail_surjective (p r t : Bits) (hp : p.length = r.length)
    (hlast : p.getLast? = some true) (ht : t.length = p.length) :
    ∃ tail : Bits, tail.length = p.length ∧ procBits p r tail = t := by
  have hlen : ∀ m : Bits, (procBits p r m).length = p.length := fun m => by
    rw [procBits_length _ _ _ hp, hp]
  let f : Fin (2 ^ p.length) → Fin (2 ^ p.length) := fun n =>
    ⟨bitsToNat (procBits p r (natToBits p.length n)), by
      have := bitsToNat_lt (procBits p r (natToBits p.length n))
      rwa [hlen] at this⟩
  have hinj : Function.Injective f := by
    intro m n hmn
    have h1 : bitsToNat (procBits p r (natToBits p.length m))
        = bitsToNat (procBits p r (natToBits p.length n)) := congrArg Fin.val hmn
    have h2 := bitsToNat_injective _ _ (by rw [hlen, hlen]) h1
    have h3 := procBits_tail_injective p r _ _ hp hlast
      (by rw [natToBits_length, natToBits_length]) (by rw [natToBits_length]) h2
    apply Fin.ext
    rw [← bitsToNat_natToBits p.length m m.2, ← bitsToNat_natToBits p.length n n.2, h3]
  obtain ⟨n, hn⟩ := Finite.surjective_of_injective hinj
    ⟨bitsToNat t, by have := bitsToNat_lt t; rwa [ht] at this⟩
  refine ⟨natToBits p.length n, natToBits_length _ _, ?_⟩
  exact bitsToNat_injective _ _ (by rw [hlen, ht]) (congrArg Fin.val hn)

/-- check-sum level: for a well-formed configuration, every prefix and every `w`-bit value `t` there is
exactly one `w`-bit tail with `crc (prefix ‖ tail) = t` -/
theorem calcBitwise_tail_exists_unique (c : CrcConfig) (h : OkCfg c) (pre t : Bits) (ht : t.length = c.w) :
    ∃ tail : Bits, (tail.length = c.w ∧ calcBitwise c (pre ++ tail) = t)
      ∧ ∀ tail' : Bits, tail'.length = c.w → calcBitwise c (pre ++ tail') = t → tail' = tail := by
  have hpl := polyBits_length c
  have hr : (polyBits c).length = (procBits (polyBits c) (zeros c.w) pre).length := by
    rw [procBits_length _ _ _ (by simp [hpl])]; simp [hpl]
  obtain ⟨tail, hl, hv⟩ := procBits_tail_surjective (polyBits c) (procBits (polyBits c) (zeros c.w) pre) t
    hr h.const1 (by rw [ht, hpl])
  refine ⟨tail, ⟨by rw [hl, hpl], ?_⟩, ?_⟩
  · rw [calcBitwise_plain c h.fw_pos h.plain, procBits_append]; exact hv
  · intro tail' hl' hv'
    rw [calcBitwise_plain c h.fw_pos h.plain, procBits_append] at hv'
    exact procBits_tail_injective (polyBits c) _ tail' tail hr h.const1 (by rw [hl', hl, hpl])
      (by rw [hl', hpl]) (hv'.trans hv.symm)

theorem inv_inv (a : Bits) : inv (inv a) = a := by
  unfold inv
  induction a with
  | nil => rfl
  | cons x xs ih => simp only [List.map_cons, Bool.not_not, ih]

theorem bytesToBits_append (a b : Bytes) : bytesToBits (a ++ b) = bytesToBits a ++ bytesToBits b := by
  simp [bytesToBits]

/-- a 16-bit string is two octets -/
theorem bits16_as_bytes (t : Bits) (ht : t.length = 16) :
    ∃ x y : Nat, x < 256 ∧ y < 256 ∧ bytesToBits [x, y] = t := by
  refine ⟨bitsToNat (t.take 8), bitsToNat (t.drop 8), ?_, ?_, ?_⟩
  · have := bitsToNat_lt (t.take 8); rw [List.length_take, ht] at this; simpa using this
  · have := bitsToNat_lt (t.drop 8); rw [List.length_drop, ht] at this; simpa using this
  · have h1 := natToBits_bitsToNat (t.take 8)
    have h2 := natToBits_bitsToNat (t.drop 8)
    rw [List.length_take, ht] at h1
    rw [List.length_drop, ht] at h2
    simp only [bytesToBits, List.flatMap_cons, List.flatMap_nil, List.append_nil]
    rw [show min 8 16 = 8 from rfl] at h1
    rw [show 16 - 8 = 8 from rfl] at h2
    rw [h1, h2, List.take_append_drop]

end Crc
end Dmr
