import DmrVerif.Lemmas.VbptcTables
import DmrVerif.Model.VbptcStore

/-!
Lemmas about the store of `Model/VbptcStore.lean` (C09 hardening): `fill_encoding_table` forgets the
table it is given, calls only add handles, a held object changes only when a step names it (or an alias
of it) as the object to overwrite.  Core Lean only.
-/

namespace Dmr.Vbptc
open Dmr Dmr.Gen

/-! ### on a big-endian bitarray the entry points are the functions of `Model/Vbptc.lean` -/

theorem crcChunkK_false : crcChunkK false = crcChunk := by
  funext reg chunk
  simp [crcChunkK]

theorem crc8K_false (m : Bits) : crc8K false m = crc8 m := by
  simp [crc8K, crc8, crcChunkK_false]

theorem encodeK_big_128 (b : Bits) (e : Bool) : encodeK .c128 .big b e = liftErr (encode128 b) := by
  have hc : cs5BitsK Kind.big = cs5Bits := by funext m; rfl
  simp [encodeK, encode128, hc]

theorem encodeK_big_68 (b : Bits) (e : Bool) : encodeK .c68 .big b e = liftErr (encode68 b) := by
  have hc : (fun m => natToBits 8 (crc8K ((Kind.big == Kind.little) && (b.length != 68)) m)) = crc8Bits := by
    funext m
    have : (Kind.big == Kind.little) = false := by decide
    simp [this, crc8K_false, crc8Bits]
  simp only [encodeK, encode68, hc]
  simp

theorem encodeK_32 (k : Kind) (b : Bits) (e : Bool) : encodeK .c32 k b e = liftErr (encode32 b e) := rfl

theorem crc8Calc_big (b : Bits) : crc8Calc .big b = .ok (crc8 b) := by
  have : (Kind.big == Kind.little) = false := by decide
  simp [crc8Calc, this, crc8K_false]

/-! ### a loop whose targets cover the whole buffer forgets what the buffer held before -/

theorem putLoop_cover (pairs : List (Nat × Nat)) (src : Bits) :
    ∀ (o1 o2 : Bits), o1.length = o2.length →
      (∀ i, i < o1.length → i ∈ pairs.map Prod.fst ∨ o1[i]? = o2[i]?) →
      putLoop pairs src o1 = putLoop pairs src o2 := by
  induction pairs with
  | nil =>
    intro o1 o2 hl h
    simp only [putLoop, List.foldl_nil]
    apply List.ext_getElem?
    intro i
    by_cases hi : i < o1.length
    · rcases h i hi with h | h
      · simp at h
      · exact h
    · have h2 : ¬ i < o2.length := by omega
      simp [List.getElem?_eq_none (Nat.le_of_not_lt hi), List.getElem?_eq_none (Nat.le_of_not_lt h2)]
  | cons p ps ih =>
    intro o1 o2 hl h
    simp only [putLoop, List.foldl_cons] at ih ⊢
    apply ih
    · simp [hl]
    · intro i hi
      simp only [List.length_set] at hi
      by_cases hp : p.1 = i
      · right
        subst hp
        simp [hi, hl ▸ hi]
      · rcases h i hi with h | h
        · simp only [List.map_cons, List.mem_cons] at h
          rcases h with h | h
          · exact absurd h.symm hp
          · exact Or.inl h
        · right
          simp [hp, h]

/-- every cell of the `R × W` table is written by the loop of `fill_encoding_table` -/
def VCode.fillCover (V : VCode) : Bool :=
  (List.range (V.R * V.W)).all
    (fun i => ((V.T.ii.map (fun e => (V.cell (e.row - 1) e.col, e.il))).map Prod.fst).contains i)

theorem VCode.fillOn_forgets (V : VCode) (hc : V.fillCover = true) (t bits : Bits)
    (ht : t.length = V.R * V.W) : V.fillOn t bits = V.fillOn (zeros (V.R * V.W)) bits := by
  simp only [VCode.fillOn]
  apply putLoop_cover
  · rw [ht]; simp [zeros]
  · intro i hi
    left
    simp only [VCode.fillCover, List.all_eq_true, List.mem_range] at hc
    exact List.contains_iff_mem.mp (hc i (by omega))

/-- on a new table and a message of `k` bits `fill_encoding_table` is the `fillTable` of the encoder -/
theorem VCode.fillOn_zeros_msg (V : VCode) (m : Bits) (hm : m.length = V.k) :
    V.fillOn (zeros (V.R * V.W)) m = V.fillTable m := by
  simp [VCode.fillOn, VCode.fillTable, hm]

/-! ### the store -/

namespace Store

theorem size_push (s : Store) (x : Slot) : (s.push x).size = s.size + 1 := by
  simp [size, push]

theorem size_write (s : Store) (j : Nat) (o : Obj) : (s.write j o).size = s.size := by
  simp [size, write]

theorem slots_push_lt (s : Store) (x : Slot) (k : Nat) (h : k < s.size) :
    (s.push x).slots[k]? = s.slots[k]? := by
  simp only [size] at h
  simp [push, List.getElem?_append_left h]

theorem slots_push_size (s : Store) (x : Slot) : (s.push x).slots[s.size]? = some x := by
  simp [push, size]

theorem slots_write_ne (s : Store) (j k : Nat) (o : Obj) (h : s.root j ≠ k) :
    (s.write j o).slots[k]? = s.slots[k]? := by
  simp [write, List.getElem?_set_ne h]

theorem size_ret (s : Store) (r : Except HErr Bits) : (s.ret r).1.size = s.size + 1 := by
  cases r <;> simp [ret, size_push]

theorem size_retNum (s : Store) (r : Except HErr Nat) : (s.retNum r).1.size = s.size + 1 := by
  cases r <;> simp [retNum, size_push]

theorem slots_ret_lt (s : Store) (r : Except HErr Bits) (k : Nat) (h : k < s.size) :
    (s.ret r).1.slots[k]? = s.slots[k]? := by
  cases r <;> simp [ret, slots_push_lt _ _ _ h]

theorem slots_retNum_lt (s : Store) (r : Except HErr Nat) (k : Nat) (h : k < s.size) :
    (s.retNum r).1.slots[k]? = s.slots[k]? := by
  cases r <;> simp [retNum, slots_push_lt _ _ _ h]

/-- a handle whose slot holds an object is its own root -/
theorem get_of_slot (s : Store) (k : Nat) (o : Obj) (h : s.slots[k]? = some (.obj o)) :
    s.get k = some o := by
  simp [get, root, h]

end Store

theorem step_size_le (s : Store) (st : Step) : s.size ≤ (step s st).1.size := by
  cases st <;> simp only [step] <;> (repeat' split) <;>
    simp [Store.size_ret, Store.size_retNum, Store.size_push, Store.size_write]

/-- a step leaves the slot of every handle it does not name (directly or through an alias) as it was -/
theorem step_frame (s : Store) (st : Step) (k : Nat) (hk : k < s.size)
    (ht : ∀ j, st.target = some j → s.root j ≠ k) :
    (step s st).1.slots[k]? = s.slots[k]? := by
  cases st <;> simp only [step, Step.target] at ht ⊢ <;> (repeat' split) <;>
    first
      | rfl
      | exact Store.slots_ret_lt _ _ _ hk
      | exact Store.slots_retNum_lt _ _ _ hk
      | exact Store.slots_push_lt _ _ _ hk
      | exact Store.slots_write_ne _ _ _ _ (ht _ rfl)
      | (rw [Store.slots_push_lt _ _ _ (by rw [Store.size_write]; exact hk)]
         exact Store.slots_write_ne _ _ _ _ (ht _ rfl))

theorem runSteps_size_le (s : Store) (hs : List Step) : s.size ≤ (runSteps s hs).size := by
  induction hs generalizing s with
  | nil => exact Nat.le_refl _
  | cons st hs ih =>
    simp only [runSteps, List.foldl_cons] at ih ⊢
    exact Nat.le_trans (step_size_le s st) (ih _)

/-- a whole history leaves a held object as it was unless one of its steps overwrites it -/
theorem runSteps_frame (s : Store) (hs : List Step) (k : Nat) (hk : k < s.size)
    (ht : untouched k s hs = true) : (runSteps s hs).slots[k]? = s.slots[k]? := by
  induction hs generalizing s with
  | nil => rfl
  | cons st hs ih =>
    simp only [untouched, Bool.and_eq_true] at ht
    simp only [runSteps, List.foldl_cons] at ih ⊢
    rw [ih _ (Nat.lt_of_lt_of_le hk (step_size_le s st)) ht.2]
    apply step_frame s st k hk
    intro j hj
    have h1 := ht.1
    rw [hj] at h1
    simpa using h1

/-- the shape of every history statement of `Props/C09h.lean`: after any history, `encode` of a literal
hands out a new object holding the history-free result; after any further history that does not
overwrite that object it still holds it, and the extractors called on the held object return what the
history-free extractors return on its content -/
theorem history_generic (before after : List Step) (c : Cls) (kind : Kind) (even : Bool) (m w : Bits)
    (henc : encodeK c kind m even = .ok w) :
    let s₁ := runSteps Store.empty before
    let k := s₁.size
    step s₁ (.encode c even (.lit (.bits kind m))) = (s₁.push (.obj (.bits .big w)), .val (.bits .big w))
    ∧ (untouched k (s₁.push (.obj (.bits .big w))) after = true →
        let s₂ := runSteps (s₁.push (.obj (.bits .big w))) after
        s₂.get k = some (.bits .big w)
        ∧ (∀ incl, (step s₂ (.data c incl (.ref k))).2 = (s₂.ret (dataK c w incl)).2)
        ∧ (step s₂ (.all c (.ref k))).2 = (s₂.ret (allK c w)).2
        ∧ (∀ r, csK c w = some r → (step s₂ (.cs c (.ref k))).2 = (s₂.ret r).2)) := by
  intro s₁ k
  refine ⟨?_, ?_⟩
  · simp [step, Arg.obj, henc, Store.ret]
  · intro ht s₂
    have hk : s₂.get k = some (.bits .big w) := by
      apply Store.get_of_slot
      have := runSteps_frame (s₁.push (.obj (.bits .big w))) after k (by simp [Store.size_push, k]) ht
      rw [this, Store.slots_push_size]
    refine ⟨hk, ?_, ?_, ?_⟩
    · intro incl
      simp [step, Arg.obj, hk]
    · simp [step, Arg.obj, hk]
    · intro r hr
      simp [step, Arg.obj, hk, hr]

end Dmr.Vbptc
