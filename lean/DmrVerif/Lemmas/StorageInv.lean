import DmrVerif.Lemmas.Storage

/-!
# The invariant of the storage under the preconditions P1/P2 (C20, reused by C18)

`Inv s`: the dictionary is the identity table `uuid i ↦ object i` over all created objects, every
object carries its own id, and incoming addresses are pairwise distinct.  `okOp` (P1: no patch
assigns `id`; P2: `address_in` is only assigned a value no other stored record holds) preserves it.
-/

namespace Dmr.Storage

def idDict (n : Nat) : List (Val × Nat) := (List.range n).map (fun i => (Val.uuid i, i))

theorem idDict_succ (n : Nat) : idDict (n + 1) = idDict n ++ [(Val.uuid n, n)] := by
  simp [idDict, List.range_succ]

theorem idDict_length (n : Nat) : (idDict n).length = n := by simp [idDict]

theorem idDict_refs (n : Nat) : (idDict n).map Prod.snd = List.range n := by
  simp [idDict, Function.comp_def]

theorem mem_idDict {n : Nat} {k : Val} {i : Nat} : (k, i) ∈ idDict n ↔ i < n ∧ k = .uuid i := by
  simp only [idDict, List.mem_map, List.mem_range, Prod.mk.injEq]
  constructor
  · rintro ⟨j, hj, h1, h2⟩; subst h2; exact ⟨hj, h1.symm⟩
  · rintro ⟨hi, hk⟩; exact ⟨i, hi, hk.symm, rfl⟩

theorem idDict_keys_nodup (n : Nat) : ((idDict n).map Prod.fst).Nodup := by
  simp only [idDict, List.map_map]
  rw [List.nodup_iff_pairwise_ne]
  refine List.Pairwise.map _ ?_ (List.nodup_iff_pairwise_ne.mp (List.nodup_range (n := n)))
  intro a b hab h
  simp only [Function.comp] at h
  cases h
  exact hab rfl

theorem uuid_not_mem_idDict (n : Nat) : Val.uuid n ∉ (idDict n).map Prod.fst := by
  simp only [idDict, List.map_map, List.mem_map, List.mem_range, Function.comp]
  rintro ⟨j, hj, h⟩
  cases h
  exact Nat.lt_irrefl _ hj

theorem filterMap_range_getElem? {α : Type} (l : List α) :
    (List.range l.length).filterMap (fun i => l[i]?) = l := by
  induction l with
  | nil => rfl
  | cons a t ih =>
    rw [List.length_cons, List.range_succ_eq_map, List.filterMap_cons]
    simp only [List.getElem?_cons_zero, List.filterMap_map]
    congr 1

theorem nodup_map_of_index_inj {α β : Type} {l : List α} (f : α → β)
    (h : ∀ (i j : Nat) (a b : α), l[i]? = some a → l[j]? = some b → f a = f b → i = j) :
    (l.map f).Nodup := by
  rw [List.nodup_iff_pairwise_ne, List.pairwise_map, List.pairwise_iff_getElem]
  intro i j hi hj hij heq
  have := h i j l[i] l[j] (List.getElem?_eq_getElem hi) (List.getElem?_eq_getElem hj) heq
  omega

structure Inv (s : Store) : Prop where
  dict_eq : s.dict = idDict s.objs.length
  id_eq : ∀ (i : Nat) (r : Rec), s.objs[i]? = some r → r.id = Val.uuid i
  addr_inj : ∀ (i j : Nat) (ri rj : Rec), s.objs[i]? = some ri → s.objs[j]? = some rj →
    ri.addressIn = rj.addressIn → i = j

theorem inv_init : Inv init := by
  refine ⟨rfl, ?_, ?_⟩
  · intro i r h; simp [init] at h
  · intro i j ri rj h; simp [init] at h

namespace Inv
variable {s : Store}

theorem refs_eq (h : Inv s) : s.refs = List.range s.objs.length := by
  rw [Store.refs, h.dict_eq, idDict_refs]

theorem len_eq (h : Inv s) : s.len = s.objs.length := by
  rw [Store.len, h.dict_eq, idDict_length]

theorem mem_refs (h : Inv s) {i : Nat} : i ∈ s.refs ↔ i < s.objs.length := by
  rw [h.refs_eq, List.mem_range]

theorem records_eq (h : Inv s) : s.records = s.objs := by
  rw [Store.records, h.refs_eq]
  exact filterMap_range_getElem? s.objs

/-- the lookup by incoming address finds exactly the holder of the address -/
theorem first_addr (h : Inv s) {x : Nat} {r : Rec} {a : Val} (hr : s.objs[x]? = some r)
    (ha : r.addressIn = a) : s.first (fun r => r.addressIn == a) = some x := by
  cases hf : s.first (fun r => r.addressIn == a) with
  | none =>
    have := first_none hf x (h.mem_refs.mpr (getElem?_lt_of_some hr)) r hr
    simp [ha] at this
  | some y =>
    obtain ⟨_, ry, hry, hp⟩ := first_some hf
    have : ry.addressIn = a := by simpa using hp
    rw [h.addr_inj y x ry r hry hr (this.trans ha.symm)]

end Inv

/-- replacing object `i` by a record with the same id and an incoming address nobody else holds -/
theorem inv_set {s : Store} (h : Inv s) {i : Nat} {r r' : Rec} (hr : s.objs[i]? = some r)
    (hid : r'.id = r.id)
    (haddr : ∀ j rj, j ≠ i → s.objs[j]? = some rj → rj.addressIn ≠ r'.addressIn) :
    Inv { objs := s.objs.set i r', dict := s.dict } := by
  have hi := getElem?_lt_of_some hr
  refine ⟨?_, ?_, ?_⟩
  · simp only [List.length_set]; exact h.dict_eq
  · intro j rj hj
    simp only at hj
    by_cases hji : i = j
    · subst hji
      rw [List.getElem?_set_self hi] at hj
      cases hj
      rw [hid]; exact h.id_eq i r hr
    · rw [List.getElem?_set_ne hji] at hj
      exact h.id_eq j rj hj
  · intro j k rj rk hj hk hjk
    simp only at hj hk
    by_cases hji : i = j <;> by_cases hki : i = k
    · rw [← hji, ← hki]
    · subst hji
      rw [List.getElem?_set_self hi] at hj
      rw [List.getElem?_set_ne hki] at hk
      cases hj
      exact absurd hjk.symm (haddr k rk (Ne.symm hki) hk)
    · subst hki
      rw [List.getElem?_set_self hi] at hk
      rw [List.getElem?_set_ne hji] at hj
      cases hk
      exact absurd hjk (haddr j rj (Ne.symm hji) hj)
    · rw [List.getElem?_set_ne hji] at hj
      rw [List.getElem?_set_ne hki] at hk
      exact h.addr_inj j k rj rk hj hk hjk

/-- a record change that touches neither id nor incoming address -/
theorem inv_set_same {s : Store} (h : Inv s) {i : Nat} {r r' : Rec} (hr : s.objs[i]? = some r)
    (hid : r'.id = r.id) (ha : r'.addressIn = r.addressIn) :
    Inv { objs := s.objs.set i r', dict := s.dict } := by
  refine inv_set h hr hid ?_
  intro j rj hji hj heq
  exact hji (h.addr_inj j i rj r hj hr (heq.trans ha))

/-- Prop form of the two preconditions for a patch applied to object `i` -/
def PatchOk (s : Store) (i : Nat) (p : Patch) : Prop :=
  (∀ e ∈ p, e.1 ≠ .field .id) ∧
  (∀ v, (Key.field .addressIn, v) ∈ p → ∀ j rj, j ≠ i → s.objs[j]? = some rj → rj.addressIn ≠ v)

theorem holdsAddr_false {s : Store} {t : Option Nat} {v : Val} (h : s.holdsAddr t v = false) :
    ∀ j ∈ s.refs, some j ≠ t → ∀ rj, s.objs[j]? = some rj → rj.addressIn ≠ v := by
  intro j hj hne rj hrj heq
  simp only [Store.holdsAddr, List.any_eq_false] at h
  have := h j hj
  rw [hrj] at this
  simp [hne, heq] at this

theorem patchOk_of_okPatch {s : Store} (hinv : Inv s) {i : Nat} {p : Patch}
    (h : okPatch s (some i) p = true) : PatchOk s i p := by
  simp only [okPatch, List.all_eq_true, Bool.and_eq_true, Bool.or_eq_true, bne_iff_ne, ne_eq,
    Bool.not_eq_true'] at h
  refine ⟨fun e he => (h e he).1, ?_⟩
  intro v hv j rj hji hj
  rcases (h _ hv).2 with h' | h'
  · exact absurd rfl h'
  · exact holdsAddr_false h' j (hinv.mem_refs.mpr (getElem?_lt_of_some hj))
      (by intro e; cases e; exact hji rfl) rj hj

/-- the patch of `save`/`patch` under the preconditions keeps the invariant -/
theorem inv_patch_obj {s : Store} (h : Inv s) {i : Nat} {r : Rec} {p : Patch}
    (hr : s.objs[i]? = some r) (hp : PatchOk s i p) :
    Inv { objs := s.objs.set i (applyPatch p r), dict := s.dict } := by
  refine inv_set h hr ?_ ?_
  · have := applyPatch_get_unnamed p r .id hp.1
    simpa [Rec.get] using this
  · intro j rj hji hj
    rcases applyPatch_get_cases p r .addressIn with hc | ⟨v, hv, hc⟩
    · simp only [Rec.get] at hc
      rw [hc]
      intro heq
      exact hji (h.addr_inj j i rj r hj hr heq)
    · simp only [Rec.get] at hc
      rw [hc]
      exact hp.2 v hv j rj hji hj

theorem inv_save {s : Store} (h : Inv s) {i : Nat} {p : Patch} (hp : PatchOk s i p) :
    Inv (s.save (some i) p).1 := by
  rcases save_cases s (some i) p with ⟨e, _⟩ | ⟨e, _⟩ | ⟨i', _, _, _, e⟩ | ⟨i', r, hi', hr, _, e⟩ <;> rw [e]
  · exact h
  · exact h
  · exact h
  · cases hi'
    have hid := h.id_eq i r hr
    have hd : dictSet s.dict r.id i = s.dict := by
      rw [hid]
      apply dictSet_same
      · rw [h.dict_eq]; exact mem_idDict.mpr ⟨getElem?_lt_of_some hr, rfl⟩
      · rw [h.dict_eq]; exact idDict_keys_nodup _
    simp only [hd]
    exact inv_patch_obj h hr hp

theorem inv_create {s : Store} (h : Inv s) {a : Val}
    (hf : s.first (fun r => r.addressIn == a) = Option.none) : Inv (s.create a).1 := by
  have hnone := first_none hf
  refine ⟨?_, ?_, ?_⟩
  · simp only [Store.create, List.length_append, List.length_singleton]
    rw [h.dict_eq, dictSet_of_not_mem _ _ _ (uuid_not_mem_idDict _), idDict_succ]
  · intro i r hi
    simp only [Store.create] at hi
    rcases Nat.lt_or_ge i s.objs.length with hlt | hge
    · rw [List.getElem?_append_left hlt] at hi
      exact h.id_eq i r hi
    · rw [List.getElem?_append_right hge] at hi
      have : i - s.objs.length = 0 := by
        rcases Nat.eq_zero_or_pos (i - s.objs.length) with h0 | h0
        · exact h0
        · rw [List.getElem?_eq_none (by simp only [List.length_singleton]; omega)] at hi; cases hi
      rw [this] at hi
      simp only [List.getElem?_cons_zero, Option.some.injEq] at hi
      rw [← hi]
      have : i = s.objs.length := by omega
      rw [this]; rfl
  · have key : ∀ i r, (s.create a).1.objs[i]? = some r →
        (i < s.objs.length ∧ s.objs[i]? = some r) ∨ (i = s.objs.length ∧ r = newRec s.objs.length a) := by
      intro i r hi
      simp only [Store.create] at hi
      rcases Nat.lt_or_ge i s.objs.length with hlt | hge
      · rw [List.getElem?_append_left hlt] at hi
        exact Or.inl ⟨hlt, hi⟩
      · rw [List.getElem?_append_right hge] at hi
        have h0 : i - s.objs.length = 0 := by
          rcases Nat.eq_zero_or_pos (i - s.objs.length) with h0 | h0
          · exact h0
          · rw [List.getElem?_eq_none (by simp only [List.length_singleton]; omega)] at hi; cases hi
        rw [h0] at hi
        simp only [List.getElem?_cons_zero, Option.some.injEq] at hi
        exact Or.inr ⟨by omega, hi.symm⟩
    have hold : ∀ i r, i < s.objs.length → s.objs[i]? = some r → r.addressIn ≠ a := by
      intro i r hlt hr heq
      have := hnone i (h.mem_refs.mpr hlt) r hr
      simp [heq] at this
    intro i j ri rj hi hj hij
    rcases key i ri hi with ⟨hilt, hi'⟩ | ⟨hie, hri⟩ <;> rcases key j rj hj with ⟨hjlt, hj'⟩ | ⟨hje, hrj⟩
    · exact h.addr_inj i j ri rj hi' hj' hij
    · subst hrj
      exact absurd hij (hold i ri hilt hi')
    · subst hri
      exact absurd hij.symm (hold j rj hjlt hj')
    · rw [hie, hje]

theorem create_objs_old {s : Store} {a : Val} {j : Nat} (hj : j < s.objs.length) :
    (s.create a).1.objs[j]? = s.objs[j]? := by
  simp only [Store.create]
  rw [List.getElem?_append_left hj]

theorem create_objs_new (s : Store) (a : Val) :
    (s.create a).1.objs[s.objs.length]? = some (newRec s.objs.length a) := by
  simp [Store.create]

/-- `okOp` in Prop form for `match_incoming` -/
theorem inv_matchIncoming {s : Store} (h : Inv s) (a : Val) (au : Bool) (p : Patch)
    (hok : okPatch s (s.first (fun r => r.addressIn == a)) p = true) :
    Inv (s.matchIncoming a au p).1 := by
  unfold Store.matchIncoming
  cases hf : s.first (fun r => r.addressIn == a) with
  | some i =>
    rw [hf] at hok
    exact inv_save h (patchOk_of_okPatch h hok)
  | none =>
    rw [hf] at hok
    cases au with
    | false =>
      simp only [Bool.false_eq_true, if_false]
      rcases save_cases s Option.none p with ⟨e, _⟩ | ⟨e, _⟩ | ⟨i, hi, _⟩ | ⟨i, r, hi, _⟩
      · rw [e]; exact h
      · rw [e]; exact h
      · cases hi
      · cases hi
    | true =>
      simp only [if_true]
      refine inv_save (inv_create h hf) ?_
      simp only [okPatch, List.all_eq_true, Bool.and_eq_true, Bool.or_eq_true, bne_iff_ne, ne_eq,
        Bool.not_eq_true'] at hok
      refine ⟨fun e he => (hok e he).1, ?_⟩
      intro v hv j rj hjn hj
      have hjlt : j < s.objs.length := by
        have := getElem?_lt_of_some hj
        simp only [Store.create, List.length_append, List.length_singleton] at this hjn
        omega
      rw [create_objs_old hjlt] at hj
      rcases (hok _ hv).2 with h' | h'
      · exact absurd rfl h'
      · exact holdsAddr_false h' j (h.mem_refs.mpr hjlt) (by simp) rj hj

theorem inv_saveBad {s : Store} (h : Inv s) {i : Nat} {pre : Patch} (e : Err) (hp : PatchOk s i pre) :
    Inv (s.saveBad (some i) pre e).1 := by
  rcases saveBad_cases s (some i) pre e with ⟨e', he⟩ | ⟨i', r, hi', hr, he⟩ <;> rw [he]
  · exact h
  · cases hi'
    exact inv_patch_obj h hr hp

/-- a malformed patch under the preconditions keeps the invariant: in particular no record leaves the
dictionary, whether or not the call was made with `auto_create` -/
theorem inv_matchIncomingBad {s : Store} (h : Inv s) (a : Val) (au : Bool) (pre : Patch) (e : Err)
    (hok : okPatch s (s.first (fun r => r.addressIn == a)) pre = true) :
    Inv (s.matchIncomingBad a au pre e).1 := by
  rcases matchIncomingBad_cases s a au pre e with ⟨i, hf, he⟩ | ⟨hf, _, he⟩ | ⟨_, _, he⟩ <;> rw [he]
  · rw [hf] at hok
    exact inv_saveBad h e (patchOk_of_okPatch h hok)
  · rw [hf] at hok
    refine inv_saveBad (inv_create h hf) e ?_
    simp only [okPatch, List.all_eq_true, Bool.and_eq_true, Bool.or_eq_true, bne_iff_ne, ne_eq,
      Bool.not_eq_true'] at hok
    refine ⟨fun e he => (hok e he).1, ?_⟩
    intro v hv j rj hjn hj
    have hjlt : j < s.objs.length := by
      have := getElem?_lt_of_some hj
      simp only [Store.create, List.length_append, List.length_singleton] at this hjn
      omega
    rw [create_objs_old hjlt] at hj
    rcases (hok _ hv).2 with h' | h'
    · exact absurd rfl h'
    · exact holdsAddr_false h' j (h.mem_refs.mpr hjlt) (by simp) rj hj
  · exact h

theorem inv_step {s : Store} (h : Inv s) (op : Op) (hok : okOp s op = true) : Inv (step s op).1 := by
  cases op with
  | matchIncoming a au p => exact inv_matchIncoming h a au p hok
  | save rpt p =>
    simp only [step]
    cases rpt with
    | none =>
      rcases save_cases s Option.none p with ⟨e, _⟩ | ⟨e, _⟩ | ⟨i, hi, _⟩ | ⟨i, r, hi, _⟩
      · rw [e]; exact h
      · rw [e]; exact h
      · cases hi
      · cases hi
    | some i =>
      simp only
      split
      · exact inv_save h (patchOk_of_okPatch h hok)
      · exact h
  | matchAttr n v => exact h
  | matchIpIncoming ip => exact h
  | matchUuid v => exact h
  | attr i k v =>
    simp only [step]
    split
    · exact h
    · rename_i r hr
      split
      · exact h
      · exact inv_set_same h hr rfl rfl
  | deleteAttr i k =>
    simp only [step]
    split
    · exact h
    · rename_i r hr
      split
      · exact h
      · exact inv_set_same h hr rfl rfl
  | patch i p =>
    simp only [step]
    split
    · exact h
    · rename_i r hr
      exact inv_patch_obj h hr (patchOk_of_okPatch h hok)
  | matchIncomingBad a au pre e => exact inv_matchIncomingBad h a au pre e hok
  | saveBad rpt pre e =>
    cases rpt with
    | none => exact h
    | some i => exact inv_saveBad h e (patchOk_of_okPatch h hok)
  | patchBad i pre e => exact inv_saveBad h e (patchOk_of_okPatch h hok)

theorem okHist_cons (s : Store) (op : Op) (t : List Op) :
    okHist s (op :: t) = (okOp s op && okHist (step s op).1 t) := rfl

theorem okHist_append (s : Store) (h1 h2 : List Op) :
    okHist s (h1 ++ h2) = (okHist s h1 && okHist (runFrom s h1).1 h2) := by
  induction h1 generalizing s with
  | nil => simp [okHist, runFrom]
  | cons op t ih => simp only [List.cons_append, okHist_cons, runFrom_cons, ih, Bool.and_assoc]

theorem inv_runFrom {s : Store} (h : Inv s) (ops : List Op) (hok : okHist s ops = true) :
    Inv (runFrom s ops).1 := by
  induction ops generalizing s with
  | nil => exact h
  | cons op t ih =>
    rw [okHist_cons, Bool.and_eq_true] at hok
    rw [runFrom_cons]
    exact ih (inv_step h op hok.1) hok.2

theorem inv_run (ops : List Op) (hok : okHist init ops = true) : Inv (run ops).1 :=
  inv_runFrom inv_init ops hok

/-! ## what a lookup returns, and stability of `address_in` / `id` -/

/-- an object returned by `match_incoming` carries the address afterwards unless the patch reassigns it:
it is the patched version of a record that had the address (stored before, or just created) -/
theorem matchIncoming_obj {s : Store} {a : Val} {au : Bool} {p : Patch} {x : Nat}
    (h : (s.matchIncoming a au p).2 = .obj x) :
    ∃ r0, r0.addressIn = a ∧ (s.matchIncoming a au p).1.objs[x]? = some (applyPatch p r0) ∧
      ((s.objs[x]? = some r0 ∧ s.first (fun r => r.addressIn == a) = some x) ∨
       (x = s.objs.length ∧ r0 = newRec x a ∧ au = true ∧
          s.first (fun r => r.addressIn == a) = Option.none)) := by
  unfold Store.matchIncoming at h ⊢
  cases hf : s.first (fun r => r.addressIn == a) with
  | some i =>
    simp only [hf] at h ⊢
    obtain ⟨_, r, hr, hp⟩ := first_some hf
    have ht := save_target s i p r hr
    rw [ht.2] at h
    cases h
    exact ⟨r, by simpa using hp, ht.1, Or.inl ⟨hr, by first | rfl | trivial⟩⟩
  | none =>
    simp only [hf] at h ⊢
    cases au with
    | false =>
      simp only [Bool.false_eq_true, if_false] at h
      rcases save_cases s Option.none p with ⟨e, _⟩ | ⟨e, _⟩ | ⟨i, hi, _⟩ | ⟨i, r, hi, _⟩
      · rw [e] at h; cases h
      · rw [e] at h; cases h
      · cases hi
      · cases hi
    | true =>
      simp only [if_true] at h ⊢
      have ht := save_target (s.create a).1 s.objs.length p _ (create_objs_new s a)
      have hx : (s.create a).2 = s.objs.length := rfl
      rw [hx] at h ⊢
      rw [ht.2] at h
      cases h
      exact ⟨newRec s.objs.length a, rfl, ht.1, Or.inr (by refine ⟨?_, ?_, ?_, ?_⟩ <;> first | rfl | trivial)⟩

/-- the possible new values of an existing object after one step -/
theorem step_obj_cases (s : Store) (op : Op) (x : Nat) (r : Rec) (hr : s.objs[x]? = some r) :
    ∃ r', (step s op).1.objs[x]? = some r' ∧
      (r' = r ∨ r' = applyPatch op.patchOf r ∨ (∃ k v, r' = r.setAttr k v) ∨
        (∃ k, r' = { r with attrs := dictDel r.attrs k })) := by
  have hx := getElem?_lt_of_some hr
  by_cases ht' : ¬ (some x = target s op)
  · exact ⟨r, by rw [step_frame s op x hx ht', hr], Or.inl rfl⟩
  have ht : some x = target s op := Decidable.of_not_not ht'
  clear ht'
  have hsave : ∀ p, ∃ r', (s.save (some x) p).1.objs[x]? = some r' ∧ (r' = r ∨ r' = applyPatch p r) := by
    intro p
    exact ⟨_, (save_target s x p r hr).1, Or.inr rfl⟩
  cases op with
  | matchIncoming a au p =>
    simp only [target] at ht
    simp only [step, Store.matchIncoming, Op.patchOf]
    cases hf : s.first (fun r => r.addressIn == a) with
    | some i =>
      rw [hf] at ht
      cases ht
      obtain ⟨r', h1, h2⟩ := hsave p
      exact ⟨r', h1, by rcases h2 with h2 | h2 <;> simp [h2]⟩
    | none =>
      rw [hf] at ht
      cases au with
      | false => simp at ht
      | true => simp only [if_true, Option.some.injEq] at ht; omega
  | save rpt p =>
    simp only [target] at ht
    subst ht
    simp only [step, Op.patchOf, if_pos hx]
    obtain ⟨r', h1, h2⟩ := hsave p
    exact ⟨r', h1, by rcases h2 with h2 | h2 <;> simp [h2]⟩
  | matchAttr n v => simp [target] at ht
  | matchIpIncoming ip => simp [target] at ht
  | matchUuid v => simp [target] at ht
  | attr i k v =>
    simp only [target, Option.some.injEq] at ht
    subst ht
    simp only [step, hr]
    split
    · exact ⟨r, hr, Or.inl rfl⟩
    · exact ⟨_, List.getElem?_set_self hx, Or.inr (Or.inr (Or.inl ⟨k, v, rfl⟩))⟩
  | deleteAttr i k =>
    simp only [target, Option.some.injEq] at ht
    subst ht
    simp only [step, hr]
    split
    · exact ⟨r, hr, Or.inl rfl⟩
    · exact ⟨_, List.getElem?_set_self hx, Or.inr (Or.inr (Or.inr ⟨k, rfl⟩))⟩
  | patch i p =>
    simp only [target, Option.some.injEq] at ht
    subst ht
    simp only [step, hr, Op.patchOf]
    exact ⟨_, List.getElem?_set_self hx, Or.inr (Or.inl rfl)⟩
  | matchIncomingBad a au pre e =>
    simp only [target] at ht
    simp only [step, Op.patchOf]
    rcases matchIncomingBad_cases s a au pre e with ⟨i, hf, he⟩ | ⟨hf, hau, he⟩ | ⟨hf, hau, he⟩ <;> rw [he]
    · rw [hf] at ht
      cases ht
      exact ⟨_, (saveBad_target s x pre e r hr).1, Or.inr (Or.inl rfl)⟩
    · rw [hf, hau] at ht
      simp only [if_true, Option.some.injEq] at ht; omega
    · rw [hf, hau] at ht
      simp at ht
  | saveBad rpt pre e =>
    simp only [target] at ht
    subst ht
    simp only [step, Op.patchOf]
    exact ⟨_, (saveBad_target s x pre e r hr).1, Or.inr (Or.inl rfl)⟩
  | patchBad i pre e =>
    simp only [target, Option.some.injEq] at ht
    subst ht
    simp only [step, Op.patchOf]
    exact ⟨_, (saveBad_target s x pre e r hr).1, Or.inr (Or.inl rfl)⟩

/-- the operation's patch does not name the data member `f` -/
def Op.names (op : Op) (f : Field) : Bool := op.patchOf.any (fun e => e.1 == .field f)

theorem not_names {op : Op} {f : Field} (h : op.names f = false) : ∀ e ∈ op.patchOf, e.1 ≠ .field f := by
  intro e he heq
  simp only [Op.names, List.any_eq_false] at h
  exact h e he (by simp [heq])

/-- a data member of an existing object survives every step whose patch does not name it -/
theorem step_field_stable (s : Store) (op : Op) (f : Field) (hn : op.names f = false)
    (x : Nat) (r : Rec) (hr : s.objs[x]? = some r) :
    ∃ r', (step s op).1.objs[x]? = some r' ∧ r'.get f = r.get f := by
  obtain ⟨r', h1, h2⟩ := step_obj_cases s op x r hr
  refine ⟨r', h1, ?_⟩
  rcases h2 with h2 | h2 | ⟨k, v, h2⟩ | ⟨k, h2⟩ <;> subst h2
  · rfl
  · exact applyPatch_get_unnamed _ _ _ (not_names hn)
  · simp
  · cases f <;> rfl

theorem runFrom_field_stable (s : Store) (ops : List Op) (f : Field)
    (hn : ∀ op ∈ ops, op.names f = false) (x : Nat) (r : Rec) (hr : s.objs[x]? = some r) :
    ∃ r', (runFrom s ops).1.objs[x]? = some r' ∧ r'.get f = r.get f := by
  induction ops generalizing s r with
  | nil => exact ⟨r, hr, rfl⟩
  | cons op t ih =>
    obtain ⟨r1, h1, e1⟩ := step_field_stable s op f (hn op List.mem_cons_self) x r hr
    obtain ⟨r2, h2, e2⟩ := ih (step s op).1 (fun o ho => hn o (List.mem_cons_of_mem _ ho)) r1 h1
    exact ⟨r2, by rw [runFrom_cons]; exact h2, e2.trans e1⟩

end Dmr.Storage
