import DmrVerif.Lemmas.VbptcLin

/-!
Packed (`Nat`) mirror of the variable-length BPTC encoder core, used only to make the kernel
evaluation of the basis words affordable (`List.set` / `List.getD` on 128-element lists cost the
kernel ~50 µs per element step, `Nat.testBit` / `Nat.xor` on literals are GMP calls).

The long vectors (message, `bits_interleaved`, the flat encoding table, the on-air word) are packed
with `packLE` (list index `i` ↔ binary weight `2^i`); the short ones (one row for the Hamming
generator, one column for `set_parity`) stay lists.  Every mirror function comes with its bridging
lemma `packLE (stage …) = stageN (packLE …)`; `chkN_sound` turns one kernel-evaluated Boolean into the
list-level `VCode.Facts` of `Lemmas/VbptcLin.lean`.  Core Lean only.
-/

namespace Dmr.Vbptc
open Dmr

theorem testBit_packLE (a : Bits) (i : Nat) : (packLE a).testBit i = getBit a i := by
  induction a generalizing i with
  | nil => simp [packLE]
  | cons x xs ih => cases i with
    | zero => cases x <;> simp [packLE, Nat.add_mod]
    | succ i =>
      rw [Nat.testBit_succ, getBit_cons_succ, ← ih i]
      congr 1
      cases x <;> simp [packLE] <;> omega


theorem eq_of_packLE_eq (a b : Bits) (hl : a.length = b.length) (h : packLE a = packLE b) :
    a = b := by
  have h0 : packLE (xorBits a b) = 0 := by
    rw [packLE_xorBits a b hl, h]; exact Nat.xor_self _
  rw [packLE_eq_zero_iff] at h0
  have hlen : (xorBits a b).length = a.length := by simp [hl]
  rw [hlen] at h0
  exact (xorBits_eq_zeros_iff a b hl).mp h0

theorem getBit_set (a : Bits) (i j : Nat) (v : Bool) :
    getBit (a.set i v) j = if i = j ∧ i < a.length then v else getBit a j := by
  simp only [getBit, List.getD_eq_getElem?_getD, List.getElem?_set]
  by_cases hij : i = j
  · subst hij
    by_cases hi : i < a.length
    · simp [hi]
    · simp [hi]
  · simp [hij]

/-- force the kernel to evaluate `x` to a literal before continuing (it reduces lazily; without this
the nested accumulators of the loops below are re-evaluated at every use) -/
def forceNat {β : Type} (x : Nat) (k : Nat → β) : β :=
  match x with
  | 0 => k 0
  | n + 1 => k (n + 1)

@[simp] theorem forceNat_eq {β : Type} (x : Nat) (k : Nat → β) : forceNat x k = k x := by
  cases x <;> rfl

/-- `Nat.testBit` written with the kernel-accelerated primitives only -/
def tb (x i : Nat) : Bool := Nat.beq (Nat.land 1 (Nat.shiftRight x i)) 1

theorem tb_eq (x i : Nat) : tb x i = x.testBit i := by
  have h1 : Nat.land 1 (Nat.shiftRight x i) = (x >>> i) % 2 := Nat.one_and_eq_mod_two _
  unfold tb Nat.testBit
  rw [h1]
  have h2 : (1 &&& x >>> i) = (x >>> i) % 2 := Nat.one_and_eq_mod_two _
  rw [h2]
  rcases Nat.mod_two_eq_zero_or_one (x >>> i) with h | h <;> rw [h] <;> rfl

theorem tb_fun (x : Nat) : tb x = x.testBit := funext (tb_eq x)

theorem getBit_fun (a : Bits) : getBit a = tb (packLE a) :=
  funext (fun i => by rw [tb_eq, testBit_packLE])

/-- replace bit `i` of `x` by `v` (nothing happens at or beyond `len`, like `List.set`) -/
def setBitN (len x i : Nat) (v : Bool) : Nat :=
  bif Nat.blt i len && Bool.xor (tb x i) v then Nat.xor x (Nat.shiftLeft 1 i) else x

theorem setBitN_eq (len x i : Nat) (v : Bool) :
    setBitN len x i v
      = if i < len then (if x.testBit i == v then x else x ^^^ (1 <<< i)) else x := by
  unfold setBitN
  rw [tb_eq]
  by_cases hi : i < len
  · have : Nat.blt i len = true := by simp [Nat.blt]; omega
    simp only [this, hi, Bool.true_and, if_true]
    cases x.testBit i <;> cases v <;> rfl
  · have : Nat.blt i len = false := by
      cases h : Nat.blt i len
      · rfl
      · exfalso; apply hi; simp [Nat.blt] at h; omega
    simp [this, hi]

theorem packLE_set (a : Bits) (i : Nat) (v : Bool) :
    packLE (a.set i v) = setBitN a.length (packLE a) i v := by
  rw [setBitN_eq]
  by_cases hi : i < a.length
  · simp only [hi, if_true]
    apply Nat.eq_of_testBit_eq
    intro j
    rw [testBit_packLE, getBit_set]
    cases hb : ((packLE a).testBit i == v)
    · have hv : ¬ getBit a i = v := by
        rw [← testBit_packLE]; simpa using hb
      simp only [Bool.false_eq_true, if_false, Nat.one_shiftLeft, Nat.testBit_xor,
        Nat.testBit_two_pow, testBit_packLE]
      by_cases hij : i = j
      · subst hij
        simp only [hi, and_self, if_true, decide_true]
        cases hg : getBit a i <;> cases v <;> simp_all
      · simp [hij]
    · have hv : getBit a i = v := by
        rw [← testBit_packLE]; simpa using hb
      simp only [if_true, testBit_packLE]
      by_cases hij : i = j
      · subst hij; simp [hi, hv]
      · simp [hij]
  · simp only [hi, if_false]
    rw [List.set_eq_of_length_le (Nat.le_of_not_lt hi)]

/-- `putLoop` with the source abstracted to a read function -/
def putLoopF (get : Nat → Bool) (pairs : List (Nat × Nat)) (out : Bits) : Bits :=
  pairs.foldl (fun o p => o.set p.1 (get p.2)) out

theorem putLoop_eq_F (pairs : List (Nat × Nat)) (src out : Bits) :
    putLoop pairs src out = putLoopF (getBit src) pairs out := rfl

/-- the same loop on a packed destination of `len` bits -/
def putLoopN (get : Nat → Bool) : List (Nat × Nat) → Nat → Nat → Nat
  | [], _, out => out
  | p :: ps, len, out => forceNat (setBitN len out p.1 (get p.2)) (fun o => putLoopN get ps len o)

/-- strict left fold over packed states -/
def foldlS {ι : Type} (f : Nat → ι → Nat) : Nat → List ι → Nat
  | acc, [] => acc
  | acc, i :: is => forceNat (f acc i) (fun v => foldlS f v is)

theorem foldlS_eq {ι : Type} (f : Nat → ι → Nat) (acc : Nat) (l : List ι) :
    foldlS f acc l = l.foldl f acc := by
  induction l generalizing acc with
  | nil => rfl
  | cons i is ih => simp [foldlS, ih]

theorem packLE_putLoopF (get : Nat → Bool) (pairs : List (Nat × Nat)) (out : Bits) :
    packLE (putLoopF get pairs out) = putLoopN get pairs out.length (packLE out) := by
  induction pairs generalizing out with
  | nil => simp [putLoopF, putLoopN]
  | cons p ps ih =>
    have := ih (out.set p.1 (get p.2))
    simp only [putLoopF, List.length_set] at this
    simp only [putLoopF, putLoopN, List.foldl_cons, this, packLE_set, forceNat_eq]

theorem gather_eq_map (tbl : List Nat) (a : Bits) : gather tbl a = tbl.map (tb (packLE a)) := by
  simp [gather, getBit_fun]

/-- `Code.gen` as the XOR of the generator rows selected by the message (much cheaper in the kernel) -/
def genC (C : Code) (m : Bits) : Bits :=
  if m.length = C.G.length then Code.combo C.n C.G m else C.gen m

theorem genC_eq (C : Code) (hG : ∀ r ∈ C.G, r.length = C.n) (m : Bits) : genC C m = C.gen m := by
  unfold genC
  split
  · next h => exact (Code.genRows_eq_combo C.n C.G m hG h).symm
  · rfl

namespace VCode
variable (V : VCode)

/-! ### the mirror -/

def fillTableN (mN : Nat) : Nat :=
  forceNat (putLoopN (tb mN) (V.T.deinterleaveInfo.map (fun p => (p.2, p.1))) V.n 0) fun bi =>
  putLoopN (tb bi) (V.T.ii.map (fun e => (V.cell (e.row - 1) e.col, e.il))) (V.R * V.W) 0

def placeCsN (csN tN : Nat) : Nat :=
  putLoopN (tb csN) ((List.range V.csCells.length).map
    (fun j => (V.cell (V.csCells.getD j (0, 0)).1 (V.csCells.getD j (0, 0)).2, j))) (V.R * V.W) tN

def rowStepN (g : Bits → Bits) (r : Nat) (tN : Nat) : Nat :=
  let word := g (((List.range V.H.k).map (fun c => V.cell r c)).map (tb tN))
  putLoopN (getBit word) ((List.range V.W).map (fun c => (V.cell r c, c))) (V.R * V.W) tN

def colStepN (odd : Bool) (c : Nat) (tN : Nat) : Nat :=
  let rows := if V.colFull then V.R else V.R - 1
  let col := ((List.range rows).map (fun r => V.cell r c)).map (tb tN)
  putLoopN (getBit (V.setParityRaw col odd)) ((List.range V.R).map (fun r => (V.cell r c, r)))
    (V.R * V.W) tN

def readOutN (tN : Nat) : Nat :=
  putLoopN (tb tN) (V.T.ii.map (fun e => (e.il, V.cell (e.row - 1) e.col))) V.n 0

def encCoreN (g : Bits → Bits) (mN csN : Nat) (odd : Bool) : Nat :=
  forceNat (V.fillTableN mN) fun t =>
  forceNat (V.placeCsN csN t) fun t =>
  forceNat (foldlS (fun t r => V.rowStepN g r t) t (List.range V.hrows)) fun t =>
  forceNat (foldlS (fun t c => V.colStepN odd c t) t (List.range V.W)) fun t =>
  V.readOutN t

def dataRawN (eN : Nat) : Nat :=
  putLoopN (tb eN) V.T.deinterleaveInfo V.T.deinterleaveInfo.length 0

def csRawN (eN : Nat) : Nat :=
  putLoopN (tb eN) V.T.deinterleaveChecksum V.T.deinterleaveChecksum.length 0

def allRawN (eN : Nat) : Nat :=
  putLoopN (tb eN) V.T.fullDeinterleaving V.T.fullDeinterleaving.length 0

def fromAllN (wN : Nat) : Nat :=
  forceNat (putLoopN (tb wN) (V.T.ii.map (fun e => (e.key, e.il))) V.n 0) fun i => V.dataRawN i

/-! ### bridging lemmas -/

theorem fillTable_length (m : Bits) : (V.fillTable m).length = V.R * V.W := by
  simp [fillTable, putLoop_length]

theorem placeCs_length (cs t : Bits) : (V.placeCs cs t).length = t.length := by
  simp [placeCs, putLoop_length]

theorem rowStep_length (r : Nat) (t : Bits) : (V.rowStep r t).length = t.length := by
  simp [rowStep, putLoop_length]

theorem colStep_length (o : Bool) (c : Nat) (t : Bits) : (V.colStep o c t).length = t.length := by
  simp [colStep, putLoop_length]

theorem packLE_fillTable (m : Bits) : packLE (V.fillTable m) = V.fillTableN (packLE m) := by
  simp only [fillTable, fillTableN, putLoop_eq_F, getBit_fun, packLE_putLoopF, zeros_length,
    packLE_zeros, forceNat_eq]

theorem packLE_placeCs (cs t : Bits) (ht : t.length = V.R * V.W) :
    packLE (V.placeCs cs t) = V.placeCsN (packLE cs) (packLE t) := by
  simp only [placeCs, placeCsN, putLoop_eq_F, getBit_fun, packLE_putLoopF, ht]

theorem packLE_rowStep (g : Bits → Bits) (hg : ∀ m, g m = V.H.gen m) (r : Nat) (t : Bits)
    (ht : t.length = V.R * V.W) :
    packLE (V.rowStep r t) = V.rowStepN g r (packLE t) := by
  simp only [rowStep, rowStepN, putLoop_eq_F, packLE_putLoopF, ht, gather_eq_map, hg]

theorem packLE_colStep (o : Bool) (c : Nat) (t : Bits) (ht : t.length = V.R * V.W) :
    packLE (V.colStep o c t) = V.colStepN o c (packLE t) := by
  simp only [colStep, colStepN, putLoop_eq_F, packLE_putLoopF, ht, gather_eq_map]

theorem packLE_readOut (t : Bits) : packLE (V.readOut t) = V.readOutN (packLE t) := by
  simp only [readOut, readOutN, putLoop_eq_F, getBit_fun, packLE_putLoopF, zeros_length,
    packLE_zeros]

theorem packLE_foldl {ι : Type} (l : List ι) (step : ι → Bits → Bits) (stepN : ι → Nat → Nat)
    (len : Nat) (hlen : ∀ i t, (step i t).length = t.length)
    (hstep : ∀ i t, t.length = len → packLE (step i t) = stepN i (packLE t))
    (t : Bits) (ht : t.length = len) :
    (l.foldl (fun t i => step i t) t).length = len
      ∧ packLE (l.foldl (fun t i => step i t) t) = l.foldl (fun t i => stepN i t) (packLE t) := by
  induction l generalizing t with
  | nil => exact ⟨ht, rfl⟩
  | cons i is ih =>
    have := ih (step i t) (by rw [hlen, ht])
    simp only [List.foldl_cons]
    rw [← hstep i t ht]
    exact this

theorem packLE_encCore (g : Bits → Bits) (hg : ∀ m, g m = V.H.gen m) (x : Bits) (o : Bool) :
    packLE (V.encCore x o) = V.encCoreN g (packLE (x.take V.k)) (packLE (x.drop V.k)) o := by
  unfold encCore encCoreN
  simp only [forceNat_eq, foldlS_eq]
  have h0 : (V.placeCs (x.drop V.k) (V.fillTable (x.take V.k))).length = V.R * V.W := by
    rw [placeCs_length, fillTable_length]
  have h1 := packLE_foldl (List.range V.hrows) (fun r t => V.rowStep r t)
    (fun r t => V.rowStepN g r t) (V.R * V.W) (fun r t => V.rowStep_length r t)
    (fun r t ht => V.packLE_rowStep g hg r t ht) _ h0
  have h2 := packLE_foldl (List.range V.W) (fun c t => V.colStep o c t)
    (fun c t => V.colStepN o c t) (V.R * V.W) (fun c t => V.colStep_length o c t)
    (fun c t ht => V.packLE_colStep o c t ht) _ h1.1
  rw [packLE_readOut, h2.2, h1.2, packLE_placeCs _ _ _ (V.fillTable_length _), packLE_fillTable]

theorem packLE_dataRaw (e : Bits) : packLE (V.dataRaw e) = V.dataRawN (packLE e) := by
  simp only [dataRaw, dataRawN, putLoop_eq_F, getBit_fun, packLE_putLoopF, zeros_length,
    packLE_zeros]

theorem packLE_csRaw (e : Bits) : packLE (V.csRaw e) = V.csRawN (packLE e) := by
  simp only [csRaw, csRawN, putLoop_eq_F, getBit_fun, packLE_putLoopF, zeros_length,
    packLE_zeros]

theorem packLE_allRaw (e : Bits) : packLE (V.allRaw e) = V.allRawN (packLE e) := by
  simp only [allRaw, allRawN, putLoop_eq_F, getBit_fun, packLE_putLoopF, zeros_length,
    packLE_zeros]

theorem packLE_fromAll (w : Bits) : packLE (V.fromAll w) = V.fromAllN (packLE w) := by
  simp only [fromAll, fromAllN, packLE_dataRaw, putLoop_eq_F, getBit_fun, packLE_putLoopF,
    zeros_length, packLE_zeros, forceNat_eq]

/-! ### the kernel-evaluated check of one input word -/

/-- the observables of `Facts` computed from the packed on-air word `eN` -/
def chkE (g : Bits → Bits) (y : Bits) (eN : Nat) : Bool :=
  (V.dataRawN eN == packLE (y.take V.k))
  && (V.T.deinterleaveInfo.length == (y.take V.k).length)
  && (V.csRawN eN == packLE ((y.drop V.k).take V.c))
  && (V.T.deinterleaveChecksum.length == ((y.drop V.k).take V.c).length)
  && (List.range V.hrows).all (fun r =>
        let row := ((List.range V.W).map (V.cellIl r)).map (tb eN)
        row == g (row.take V.H.k))
  && (List.range V.W).all (fun c =>
        xorAll (((List.range V.R).map (fun r => V.cellIl r c)).map (tb eN))
          == getBit y (V.k + V.c))
  && (forceNat (V.allRawN eN) V.fromAllN == packLE (y.take V.k))

def chkN (g : Bits → Bits) (y : Bits) : Bool :=
  let x := y.take (V.k + V.c)
  forceNat (V.encCoreN g (packLE (x.take V.k)) (packLE (x.drop V.k)) (getBit y (V.k + V.c)))
    (V.chkE g y)

theorem chkN_sound (g : Bits → Bits) (hg : ∀ m, g m = V.H.gen m) (y : Bits)
    (h : V.chkN g y = true) : V.Facts y := by
  have h' : V.chkE g y (packLE (V.F y)) = true := by
    rw [F, V.packLE_encCore g hg]; simpa only [chkN, forceNat_eq] using h
  clear h
  have h := h'
  simp only [chkE, forceNat_eq, Bool.and_eq_true, beq_iff_eq, List.all_eq_true, List.mem_range] at h
  obtain ⟨⟨⟨⟨⟨⟨h1, h1l⟩, h2⟩, h2l⟩, h3⟩, h4⟩, h5⟩ := h
  refine ⟨?_, ?_, ?_, ?_, ?_⟩
  · apply eq_of_packLE_eq
    · rw [dataRaw, putLoop_length, zeros_length, h1l]
    · rw [packLE_dataRaw, h1]
  · apply eq_of_packLE_eq
    · rw [csRaw, putLoop_length, zeros_length, h2l]
    · rw [packLE_csRaw, h2]
  · intro r hr
    have := h3 r hr
    rw [hg] at this
    simpa only [txRow, gather_eq_map] using this
  · intro c hc
    have := h4 c hc
    simpa only [txCol, gather_eq_map] using this
  · apply eq_of_packLE_eq
    · rw [fromAll, dataRaw, putLoop_length, zeros_length, h1l]
    · rw [packLE_fromAll, packLE_allRaw, h5]

/-- the check on the unit words `lo … lo + len - 1` (the basis is split over several modules that Lake
builds in parallel) -/
def basisRange (g : Bits → Bits) (lo len : Nat) : Bool :=
  (List.range' lo len).all (fun i => V.chkN g (unit (V.k + V.c + 1) i))

theorem facts_of_basisRange (hG : ∀ r ∈ V.H.G, r.length = V.H.n) (lo len : Nat)
    (h : V.basisRange (genC V.H) lo len = true) (i : Nat) (h1 : lo ≤ i) (h2 : i < lo + len) :
    V.Facts (unit (V.k + V.c + 1) i) := by
  simp only [basisRange, List.all_eq_true, List.mem_range'_1] at h
  exact V.chkN_sound _ (genC_eq V.H hG) _ (h i ⟨h1, h2⟩)

theorem facts_of_zero (hG : ∀ r ∈ V.H.G, r.length = V.H.n)
    (h : V.chkN (genC V.H) (zeros (V.k + V.c + 1)) = true) : V.Facts (zeros (V.k + V.c + 1)) :=
  V.chkN_sound _ (genC_eq V.H hG) _ h

end VCode
end Dmr.Vbptc
