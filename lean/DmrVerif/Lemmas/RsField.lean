import DmrVerif.Lemmas.RsArith
import Mathlib.Algebra.Field.Defs
import Mathlib.Algebra.BigOperators.Ring.Finset
import Mathlib.Tactic.Ring
import Mathlib.Tactic.LinearCombination

/-!
C11 helpers, part 3: the octets with xor and `logMultiply` form a field `GF` (instances built only
from the `Nat`-level laws of `RsArith`), and the one piece of linear algebra the distance argument
needs (`vanish`): weighted power sums  Σ e_i·X_i^j = 0 (j = 1..t)  over pairwise distinct non-zero
nodes force `e = 0` as soon as at most `t` of the `e_i` are non-zero (the Vandermonde argument, done
by eliminating one node at a time).
-/

namespace Dmr.Rs
open Dmr Dmr.Gen

/-- an octet as an element of GF(2^8) -/
@[ext] structure GF where
  val : Nat
  lt : val < 256
deriving DecidableEq

namespace GF

instance : Zero GF := ⟨⟨0, by omega⟩⟩
instance : One GF := ⟨⟨1, by omega⟩⟩
instance : Add GF := ⟨fun a b => ⟨a.val ^^^ b.val, xor_lt_256 a.lt b.lt⟩⟩
instance : Neg GF := ⟨fun a => a⟩
instance : Sub GF := ⟨fun a b => ⟨a.val ^^^ b.val, xor_lt_256 a.lt b.lt⟩⟩
instance : Mul GF := ⟨fun a b => ⟨logMultiply a.val b.val, logMultiply_lt _ _⟩⟩
instance : Inv GF := ⟨fun a => ⟨Rs.inv a.val, inv_lt _⟩⟩

@[simp] theorem zero_val : (0 : GF).val = 0 := rfl
@[simp] theorem one_val : (1 : GF).val = 1 := rfl
@[simp] theorem add_val (a b : GF) : (a + b).val = a.val ^^^ b.val := rfl
@[simp] theorem sub_val (a b : GF) : (a - b).val = a.val ^^^ b.val := rfl
@[simp] theorem neg_val (a : GF) : (-a).val = a.val := rfl
@[simp] theorem mul_val (a b : GF) : (a * b).val = logMultiply a.val b.val := rfl
@[simp] theorem inv_val (a : GF) : (a⁻¹).val = Rs.inv a.val := rfl

instance : CommRing GF where
  add_assoc a b c := by ext; simp [Nat.xor_assoc]
  zero_add a := by ext; simp
  add_zero a := by ext; simp
  add_comm a b := by ext; simp [Nat.xor_comm]
  neg_add_cancel a := by ext; simp
  sub_eq_add_neg a b := rfl
  mul_assoc a b c := by ext; simp [logMultiply_assoc _ _ _ a.lt b.lt c.lt]
  one_mul a := by ext; simp [logMultiply_comm 1, logMultiply_one _ a.lt]
  mul_one a := by ext; simp [logMultiply_one _ a.lt]
  zero_mul a := by ext; simp [logMultiply_zero_left]
  mul_zero a := by ext; simp [logMultiply_zero_right]
  left_distrib a b c := by ext; simp [logMultiply_xor _ _ _ a.lt b.lt c.lt]
  right_distrib a b c := by
    ext; simp [logMultiply_comm _ c.val, logMultiply_xor _ _ _ c.lt a.lt b.lt]
  mul_comm a b := by ext; simp [logMultiply_comm a.val]
  nsmul := nsmulRec
  zsmul := zsmulRec

instance : Field GF where
  exists_pair_ne := ⟨0, 1, by decide⟩
  mul_inv_cancel a h := by
    ext; simp only [mul_val, inv_val, one_val]
    exact logMultiply_inv a.val (fun h0 => h (by ext; simpa using h0)) a.lt
  inv_zero := by ext; simp [Rs.inv]
  nnqsmul := _
  qsmul := _

/-- every element is its own negative (characteristic 2) -/
theorem neg_eq (a : GF) : -a = a := rfl
theorem sub_eq_add (a b : GF) : a - b = a + b := rfl
theorem add_self (a : GF) : a + a = 0 := by ext; simp

/-- an octet (reduced mod 256, so that the map is total) as a field element -/
def ofNat (n : Nat) : GF := ⟨n % 256, Nat.mod_lt _ (by omega)⟩

theorem ofNat_val {n : Nat} (h : n < 256) : (ofNat n).val = n := Nat.mod_eq_of_lt h
theorem ofNat_xor {a b : Nat} (ha : a < 256) (hb : b < 256) : ofNat (a ^^^ b) = ofNat a + ofNat b := by
  ext; simp [ofNat_val ha, ofNat_val hb, ofNat_val (xor_lt_256 ha hb)]
theorem ofNat_mul {a b : Nat} (ha : a < 256) (hb : b < 256) :
    ofNat (logMultiply a b) = ofNat a * ofNat b := by
  ext; simp [ofNat_val ha, ofNat_val hb, ofNat_val (logMultiply_lt a b)]
theorem ofNat_eq_zero {n : Nat} (h : n < 256) : ofNat n = 0 ↔ n = 0 := by
  constructor
  · intro h0; have := congrArg GF.val h0; rwa [ofNat_val h] at this
  · intro h0; subst h0; rfl
theorem ofNat_inj {a b : Nat} (ha : a < 256) (hb : b < 256) (h : ofNat a = ofNat b) : a = b := by
  have := congrArg GF.val h; rwa [ofNat_val ha, ofNat_val hb] at this
@[simp] theorem ofNat_zero : ofNat 0 = 0 := rfl

end GF

/-! ### the Vandermonde argument -/

open Finset in
/-- if at most `t` of the `e i` (`i ∈ s`) are non-zero and the power sums `Σ e i · X i ^ j` vanish
for `j = 1 … t`, the nodes `X i` being non-zero and pairwise distinct on `s`, then `e` vanishes on `s` -/
theorem vanish {F : Type} [Field F] [DecidableEq F] {ι : Type} [DecidableEq ι] (s : Finset ι) (X : ι → F)
    (hX0 : ∀ i ∈ s, X i ≠ 0) (hXinj : ∀ i ∈ s, ∀ k ∈ s, X i = X k → i = k) :
    ∀ (t : Nat) (e : ι → F), (s.filter (fun i => e i ≠ 0)).card ≤ t →
      (∀ j, 1 ≤ j → j ≤ t → ∑ i ∈ s, e i * X i ^ j = 0) → ∀ i ∈ s, e i = 0 := by
  intro t
  induction t with
  | zero =>
    intro e hc _ i hi
    by_contra h
    have : i ∈ s.filter (fun i => e i ≠ 0) := by simp [hi, h]
    have := Finset.card_pos.mpr ⟨i, this⟩
    omega
  | succ t ih =>
    intro e hc hS
    by_cases hall : ∀ i ∈ s, e i = 0
    · exact hall
    · exfalso
      simp only [not_forall] at hall
      obtain ⟨k, hk, hek⟩ := hall
      -- eliminate the node `k`
      let e' : ι → F := fun i => e i * (X i - X k)
      have hsupp : s.filter (fun i => e' i ≠ 0) ⊆ (s.filter (fun i => e i ≠ 0)).erase k := by
        intro i hi
        simp only [mem_filter, mem_erase, e'] at hi ⊢
        refine ⟨?_, hi.1, ?_⟩
        · rintro rfl; exact hi.2 (by simp)
        · intro h0; exact hi.2 (by simp [h0])
      have hkmem : k ∈ s.filter (fun i => e i ≠ 0) := by simp [hk, hek]
      have hc' : (s.filter (fun i => e' i ≠ 0)).card ≤ t := by
        have h1 := Finset.card_le_card hsupp
        rw [Finset.card_erase_of_mem hkmem] at h1
        omega
      have hS' : ∀ j, 1 ≤ j → j ≤ t → ∑ i ∈ s, e' i * X i ^ j = 0 := by
        intro j h1 h2
        have a1 := hS (j + 1) (by omega) (by omega)
        have a2 := hS j h1 (by omega)
        have : ∑ i ∈ s, e' i * X i ^ j = ∑ i ∈ s, e i * X i ^ (j + 1) - X k * ∑ i ∈ s, e i * X i ^ j := by
          rw [Finset.mul_sum, ← Finset.sum_sub_distrib]
          apply Finset.sum_congr rfl
          intro i _; simp only [e']; ring
        rw [this, a1, a2]; simp
      have hz := ih e' hc' hS'
      -- every other coefficient vanishes
      have hother : ∀ i ∈ s, i ≠ k → e i = 0 := by
        intro i hi hik
        have := hz i hi
        simp only [e', mul_eq_zero, sub_eq_zero] at this
        rcases this with h | h
        · exact h
        · exact absurd (hXinj i hi k hk h) hik
      -- and the first power sum leaves `e k · X k = 0`
      have h1 := hS 1 (by omega) (by omega)
      rw [Finset.sum_eq_single k (fun i hi hik => by rw [hother i hi hik]; simp)
        (fun h => absurd hk h)] at h1
      simp only [pow_one, mul_eq_zero] at h1
      rcases h1 with h | h
      · exact hek h
      · exact hX0 k hk h

end Dmr.Rs
