import DmrVerif.Model.PduFullLc
import DmrVerif.Lemmas.PduCsbk
import DmrVerif.Lemmas.PduDataHeader

/-!
# Full link control (seven FLCOs, 96- and 77-bit forms): round trip, fixed point, totality
-/

set_option linter.unusedSimpArgs false

namespace Dmr
open Dmr.Gen

namespace FullLc

theorem payload_length (pl : FlcPayload) (h : FlcPayload.WF pl) : (payloadBits pl).length = 56 := by
  cases pl <;> simp only [FlcPayload.WF] at h <;>
    simp (config := { decide := true }) [payloadBits, ServiceOptions.enc_length, bytesToBits_length, h]

theorem enc_length (p : FullLc) (h : p.WF) : (enc p).length = 72 + p.crc.length := by
  simp [enc, payload_length _ h.2.2]; omega

theorem dec_enc (p : FullLc) (h : p.WF) : dec (enc p) = .ok p := by
  obtain ⟨pf, fid, crc, pl⟩ := p
  obtain ⟨hfid, hcrc, hpl⟩ := h
  simp only at hfid hcrc hpl
  obtain ⟨hf, hfl⟩ := Elem.facts (by simp [allElems]) hfid
  change fid < 2 ^ 8 at hfl
  rcases hcrc with hcrc | hcrc
  all_goals
    cases pl with
    | unitToUnit so t s =>
      obtain ⟨hso, ht, hs⟩ := hpl
      have ho : eFLCOs.dec 3 = .ok 3 := rfl
      have hsl := ServiceOptions.enc_length so
      unfold dec
      simp only [enc, payloadBits, flco, flcoUnitToUnit, List.append_assoc]
      layout_simp [ho, hf, hfl, ht, hs, hcrc, hsl, ServiceOptions.dec_enc so hso]
    | group so t s =>
      obtain ⟨hso, ht, hs⟩ := hpl
      have ho : eFLCOs.dec 0 = .ok 0 := rfl
      have hsl := ServiceOptions.enc_length so
      unfold dec
      simp only [enc, payloadBits, flco, flcoUnitToUnit, flcoGroup, List.append_assoc]
      layout_simp [ho, hf, hfl, ht, hs, hcrc, hsl, ServiceOptions.dec_enc so hso]
    | gpsInfo pe lon lat =>
      obtain ⟨hpe, hlon, hlat⟩ := hpl
      have ho : eFLCOs.dec 8 = .ok 8 := rfl
      obtain ⟨h1, h1l⟩ := Elem.facts (by simp [allElems]) hpe
      change pe < 2 ^ 3 at h1l
      have hlo := fromSigned_lt 25 lon
      have hla := fromSigned_lt 24 lat
      unfold dec
      simp only [enc, payloadBits, flco, flcoUnitToUnit, flcoGroup, flcoGpsInfo, List.append_assoc]
      layout_simp [ho, hf, hfl, hcrc, h1, h1l, hlo, hla, toSigned_fromSigned 25 lon (by decide) hlon,
        toSigned_fromSigned 24 lat (by decide) hlat]
    | talkerAliasHeader fmt len msb data =>
      obtain ⟨hfmt, hlen, hdl, hby⟩ := hpl
      have ho : eFLCOs.dec 4 = .ok 4 := rfl
      obtain ⟨h1, h1l⟩ := Elem.facts (by simp [allElems]) hfmt
      change fmt < 2 ^ 2 at h1l
      unfold dec
      simp only [enc, payloadBits, flco, flcoUnitToUnit, flcoGroup, flcoGpsInfo, flcoTalkerAliasHeader, List.append_assoc]
      layout_simp [ho, hf, hfl, hcrc, h1, h1l, hlen, hdl, bitsToBytes_bytesToBits data hby]
    | talkerAliasBlock c data =>
      obtain ⟨hc, hdl, hby⟩ := hpl
      rcases hc with rfl | rfl | rfl
      all_goals
        have ho5 : eFLCOs.dec 5 = .ok 5 := rfl
        have ho6 : eFLCOs.dec 6 = .ok 6 := rfl
        have ho7 : eFLCOs.dec 7 = .ok 7 := rfl
        unfold dec
        simp only [enc, payloadBits, flco, flcoUnitToUnit, flcoGroup, flcoGpsInfo, flcoTalkerAliasHeader,
          flcoTalkerAliasBlock1, flcoTalkerAliasBlock2, flcoTalkerAliasBlock3, List.append_assoc]
        layout_simp [ho5, ho6, ho7, hf, hfl, hcrc, hdl, bitsToBytes_bytesToBits data hby]

theorem dec_wf (bs : Bits) (hl : bs.length = 96 ∨ bs.length = 77) (p : FullLc)
    (h : dec bs = .ok p) : p.WF := by
  unfold dec at h
  rcases hl with hl | hl
  all_goals
    simp (config := { decide := true }) only [hl, ↓reduceIte, ne_eq, not_true_eq_false, false_and, and_false] at h
    repeat' split at h
    all_goals cases h
    all_goals (unfold WF FlcPayload.WF; and_intros)
    all_goals first
      | wf_field
      | (left; simp (config := { decide := true }) [slice_length, hl]; done)
      | (right; simp (config := { decide := true }) [slice_length, hl]; done)
      | exact signedInRange_toSigned _ _ (by decide) (getField_lt _ _ _)
      | exact (signedInRange_toSigned _ _ (by decide) (getField_lt _ _ _)).1
      | exact (signedInRange_toSigned _ _ (by decide) (getField_lt _ _ _)).2
      | assumption

theorem fixpoint (bs : Bits) (hl : bs.length = 96 ∨ bs.length = 77) (p : FullLc)
    (h : dec bs = .ok p) : dec (enc p) = .ok p := dec_enc p (dec_wf bs hl p h)

/-- the check field of a decoded object has the length the input had -/
theorem dec_crc_length (bs : Bits) (hl : bs.length = 96 ∨ bs.length = 77) (p : FullLc)
    (h : dec bs = .ok p) : 72 + p.crc.length = bs.length := by
  unfold dec at h
  rcases hl with hl | hl
  all_goals
    simp (config := { decide := true }) only [hl, ↓reduceIte, ne_eq, not_true_eq_false, false_and, and_false] at h
    repeat' split at h
    all_goals cases h
    all_goals (simp (config := { decide := true }) [slice_length, hl])

/-- a 96- or 77-bit string is decoded, or raises `ValueError` (undefined FLCO) or `KeyError`
(terminator data link control: defined but without layout); nothing else -/
theorem dec_errors (bs : Bits) (hl : bs.length = 96 ∨ bs.length = 77) (e : Err)
    (h : dec bs = .error e) : e = .valueError ∨ e = .keyError := by
  unfold dec at h
  rcases hl with hl | hl
  all_goals
    simp (config := { decide := true }) only [hl, ↓reduceIte, ne_eq, not_true_eq_false, false_and, and_false] at h
    repeat' split at h
    all_goals first
      | (cases h; done)
      | (cases h; right; rfl)
      | (cases h; left; exact Elem.err_valueError_mem (by assumption) (by simp [allElems]))
      | (cases h; exfalso
         have := ServiceOptions.dec_total (slice bs 16 8) (by simp [slice_length, hl])
         simp_all; done)

end FullLc
end Dmr
