import DmrVerif.Model.Tms

/-!
# TMS (C16): specification predicates (`wf`, `norm`) and the lemmas behind `Props/C16.lean`
-/

namespace Dmr.Tms
open Dmr

/-! ## the property's range and the listed normal form -/

/-- the messages of the property: address ≤ 255 octets; availability with any (or no) capability;
acknowledgement with a sequence number 0..127 or none (then there is no optional header, hence no
encoding); text message with sequence number 0..127 and a text (any length that fits the 16-bit
length prefix — the property's 200 UCS-2 characters are 400 octets).  Header flags, encoding and the
fields a PDU type does not carry are unrestricted. -/
def wf (p : Msg) : Bool :=
  decide (p.address.length ≤ 255) &&
  match p.header.ptype with
  | .availability =>
    (match p.capability with
     | some c => Gen.Tms.capabilityVal.contains c
     | none => true)
  | .ack =>
    (match p.seq with
     | some s => decide (s ≤ 127)
     | none => p.encoding.isNone)
  | .text =>
    (match p.seq with
     | some s => decide (s ≤ 127)
     | none => false) &&
    (match p.message with
     | some m => decide (m.length ≤ 65000)
     | none => false)

/-- `UNDEFINED` is the wire value 0 = "no encoding": the parser returns `None` for it -/
def normEnc (e : Option Encoding) : Option Encoding := if hasEnc e then some .ucs2le else none

/-- what `from_bytes (as_bytes p)` returns.  Differences to `p`, all by design of the encoder:
* `has_more_headers` is recomputed (an optional header follows or not),
* the reserved bit is forced to 1 for text messages,
* encoding `UNDEFINED` becomes `None`,
* fields the PDU type does not carry (capability outside availability, sequence number / encoding
  outside acknowledgement and text, message outside text) are not serialised, hence `None`. -/
def norm (p : Msg) : Msg :=
  match p.header.ptype with
  | .availability =>
    { header := { p.header with more := p.capability.isSome }, address := p.address,
      capability := p.capability, seq := none, encoding := none, message := none }
  | .ack =>
    { header := { p.header with more := p.seq.isSome }, address := p.address,
      capability := none, seq := p.seq, encoding := normEnc p.encoding, message := none }
  | .text =>
    { header := { p.header with more := true, reserved := true }, address := p.address,
      capability := none, seq := p.seq, encoding := normEnc p.encoding, message := p.message }

/-! ## facts about the extracted enumerations -/

theorem ptype_count : Gen.Tms.pduTypeCount = 3 := by decide
theorem enc_count : Gen.Tms.encodingCount = 2 := by decide

theorem ptype_code (t : PduType) : PduType.ofCode t.val.1 t.val.2 = some t := by
  cases t <;> decide

theorem ptype_lt (t : PduType) : t.val.2 < 16 := by
  cases t <;> decide

theorem enc_ucs2 : Encoding.ucs2le.val < 32 ∧ Encoding.ofCode Encoding.ucs2le.val = some .ucs2le
    ∧ Encoding.ofCode 0 = some .undefined := by decide

theorem cap_code {c : Nat} (h : Gen.Tms.capabilityVal.contains c = true) :
    c < 4 ∧ capOfCode c = some c := by
  have : ∀ c ∈ Gen.Tms.capabilityVal, c < 4 ∧ capOfCode c = some c := by decide
  exact this c (by simpa using h)

/-! ## first header -/

theorem toNat_beq_one (b : Bool) : (b.toNat == 1) = b := by cases b <;> rfl

theorem header_roundtrip (h : FirstHeader) (b : Nat) (hb : headerByte h = .ok b) :
    headerOfByte b = .ok { h with reserved := h.reserved || h.ptype == .text } ∧ b < 256 := by
  unfold headerByte at hb
  have hlt := ptype_lt h.ptype
  rw [if_neg (by omega)] at hb
  injection hb with hb
  have h1 := Bool.toNat_le h.more
  have h2 := Bool.toNat_le h.ack
  have h3 := Bool.toNat_le (h.reserved || h.ptype == .text)
  have h4 := Bool.toNat_le h.ptype.val.1
  have e1 : b / 128 % 2 = h.more.toNat := by omega
  have e2 : b / 64 % 2 = h.ack.toNat := by omega
  have e3 : b / 32 % 2 = (h.reserved || h.ptype == .text).toNat := by omega
  have e4 : b / 16 % 2 = h.ptype.val.1.toNat := by omega
  have e5 : b % 16 = h.ptype.val.2 := by omega
  refine ⟨?_, by omega⟩
  unfold headerOfByte
  rw [e1, e2, e3, e4, e5, toNat_beq_one, toNat_beq_one, toNat_beq_one, toNat_beq_one, ptype_code]

/-! ## sequence number / encoding optional header -/

theorem decodeSn_one (b1 : Nat) (rest : Bytes) (h : b1 / 128 % 2 = 0) :
    decodeSn (b1 :: rest) 0 = .ok (1, b1 % 32, none) := by
  simp [decodeSn, h]

theorem decodeSn_two (b1 b2 : Nat) (rest : Bytes) (e : Encoding) (h : b1 / 128 % 2 = 1)
    (he : Encoding.ofCode (b2 % 32) = some e) :
    decodeSn (b1 :: b2 :: rest) 0
      = .ok (2, b1 % 32 + 32 * (b2 / 32 % 4), if e == .undefined then none else some e) := by
  simp [decodeSn, h, he]

/-- the two-octet split of the sequence number is inverted by the decoder, whatever follows -/
theorem sn_roundtrip (sn : Nat) (enc : Option Encoding) (hs : sn ≤ 127) (rest : Bytes) :
    ∃ bs, encodeSn (some sn) enc = .ok bs ∧
      (bs.length = if sn > 31 ∨ hasEnc enc = true then 2 else 1) ∧
      decodeSn (bs ++ rest) 0 = .ok (bs.length, sn, normEnc enc) := by
  obtain ⟨e1, e2, e3⟩ := enc_ucs2
  unfold encodeSn
  simp only []
  rw [if_neg (by omega)]
  cases henc : hasEnc enc
  · by_cases h31 : sn > 31
    · refine ⟨[128 * 1 + sn % 32, 32 * (sn / 32) + 0], ?_, by simp [h31], ?_⟩
      · simp [h31]
      · rw [List.cons_append, List.cons_append, List.nil_append,
          decodeSn_two _ _ _ .undefined (by omega) (by rw [← e3]; congr 1; omega)]
        simp [normEnc, henc]; omega
    · refine ⟨[128 * 0 + sn % 32], ?_, by simp [h31], ?_⟩
      · simp [h31]
      · rw [List.cons_append, List.nil_append, decodeSn_one _ _ (by omega)]
        simp [normEnc, henc]; omega
  · refine ⟨[128 * 1 + sn % 32, 32 * (sn / 32) + Encoding.ucs2le.val], ?_, by simp, ?_⟩
    · simp; omega
    · rw [List.cons_append, List.cons_append, List.nil_append,
        decodeSn_two _ _ _ .ucs2le (by omega) (by rw [← e2]; congr 1; omega)]
      simp [normEnc, henc]; omega


/-! ## framing -/

theorem decodeSn_shift (pre tail : Bytes) :
    decodeSn (pre ++ tail) pre.length
      = (decodeSn tail 0).map (fun r => (r.1 + pre.length, r.2)) := by
  unfold decodeSn
  have h0 : (pre ++ tail)[pre.length]? = tail[0]? := by
    rw [List.getElem?_append_right (Nat.le_refl _)]; simp
  have h1 : (pre ++ tail)[pre.length + 1]? = tail[0 + 1]? := by
    rw [List.getElem?_append_right (by omega)]; congr 1; omega
  rw [h0, h1]
  cases tail[0]? with
  | none => rfl
  | some b0 =>
    simp only []
    split
    · cases tail[0 + 1]? with
      | none => rfl
      | some b1 =>
        simp only []
        cases Encoding.ofCode (b1 % 32) with
        | none => rfl
        | some e => simp [Except.map]; omega
    · simp [Except.map]; omega

/-- what `from_bytes` does after the address field, in terms of the octets that follow it -/
def parseTail (h : FirstHeader) (address tail : Bytes) : Except Err Msg :=
  match h.ptype with
  | .availability =>
    if h.more then
      match tail[0]? with
      | none => .error .index
      | some b =>
        match capOfCode (b % 4) with
        | none => .error .value
        | some c => .ok ⟨h, address, some c, none, none, none⟩
    else .ok ⟨h, address, none, none, none, none⟩
  | .ack =>
    if h.more then
      match decodeSn tail 0 with
      | .error e => .error e
      | .ok (_, sn, enc) => .ok ⟨h, address, none, some sn, enc, none⟩
    else .ok ⟨h, address, none, none, none, none⟩
  | .text =>
    if h.more then
      match decodeSn tail 0 with
      | .error e => .error e
      | .ok (i, sn, enc) => .ok ⟨h, address, none, some sn, enc, some (tail.drop i)⟩
    else .ok ⟨h, address, none, none, none, some tail⟩

/-- frame lemma: a buffer whose length prefix, address length and address are consistent is parsed
as first header + address + `parseTail` of the rest -/
theorem fromBytes_frame (hb : Nat) (addr tail : Bytes) (L : Nat)
    (hL : L = addr.length + tail.length + 2) :
    fromBytes (L / 256 :: L % 256 :: hb :: addr.length :: (addr ++ tail))
      = (headerOfByte hb).bind (fun h => parseTail h addr tail) := by
  unfold fromBytes
  have hbe : be (List.take 2 (L / 256 :: L % 256 :: hb :: addr.length :: (addr ++ tail))) = L := by
    simp [be]; omega
  simp only [hbe]
  rw [if_neg (by simp; omega)]
  simp only [List.getElem?_cons_succ, List.getElem?_cons_zero]
  cases hh : headerOfByte hb with
  | error e => rfl
  | ok h =>
    simp only [Except.bind]
    have hlen : be (slice (L / 256 :: L % 256 :: hb :: addr.length :: (addr ++ tail)) 3 4) = addr.length := by
      simp [slice, be]
    have haddr : slice (L / 256 :: L % 256 :: hb :: addr.length :: (addr ++ tail)) 4 (addr.length + 4) = addr := by
      simp [slice]
    simp only [hlen, haddr]
    generalize hdata : (L / 256 :: L % 256 :: hb :: addr.length :: (addr ++ tail)) = data
    have hd : data = ([L / 256, L % 256, hb, addr.length] ++ addr) ++ tail := by simp [← hdata]
    have hpl : ([L / 256, L % 256, hb, addr.length] ++ addr).length = addr.length + 4 := by simp
    have hdl : data.length = L + 2 := by rw [hd]; simp; omega
    have hsn : decodeSn data (addr.length + 4)
        = (decodeSn tail 0).map (fun r => (r.1 + (addr.length + 4), r.2)) := by
      rw [hd, ← hpl, decodeSn_shift]
    have hsl : ∀ i, slice data (i + (addr.length + 4)) (L + 2) = tail.drop i := by
      intro i
      unfold slice
      rw [← hdl, List.take_length, hd, ← hpl, Nat.add_comm, List.drop_append,
        List.drop_eq_nil_of_le (Nat.le_add_right _ _), Nat.add_sub_cancel_left, List.nil_append]
    have h0 : (addr ++ tail)[addr.length]? = tail[0]? := by
      rw [List.getElem?_append_right (Nat.le_refl _)]; simp
    unfold parseTail
    rw [hsn, h0]
    cases h.ptype with
    | availability => rfl
    | ack =>
      simp only []
      split
      · cases decodeSn tail 0 with
        | error e => rfl
        | ok r => rfl
      · rfl
    | text =>
      simp only []
      split
      · cases decodeSn tail 0 with
        | error e => rfl
        | ok r =>
          obtain ⟨i, sn, enc⟩ := r
          simp only [Except.map, hsl]
      · have := hsl 0
        simp only [Nat.zero_add, List.drop_zero] at this
        rw [this]


/-! ## serialise / parse -/

/-- shape of every successful serialisation (no hypothesis on the message) -/
theorem asBytes_shape (p : Msg) (bs : Bytes) (h : asBytes p = .ok bs) :
    ∃ more b hb, body p = .ok (more, b) ∧ headerByte { p.header with more := more } = .ok hb ∧
      p.address.length ≤ 255 ∧ p.address.length + b.length + 2 < 65536 ∧
      bs = (p.address.length + b.length + 2) / 256 :: (p.address.length + b.length + 2) % 256 :: hb
            :: p.address.length :: (p.address ++ b) := by
  unfold asBytes at h
  split at h
  · cases h
  · rename_i hlen
    cases hb : body p with
    | error e => rw [hb] at h; cases h
    | ok r =>
      obtain ⟨more, b⟩ := r
      rw [hb] at h
      simp only [] at h
      split at h
      · cases h
      · rename_i h16
        cases hh : headerByte { p.header with more := more } with
        | error e => rw [hh] at h; cases h
        | ok hbyte =>
          rw [hh] at h
          simp only [] at h
          injection h with h
          refine ⟨more, b, hbyte, rfl, hh, by omega, ?_, ?_⟩
          · simp at h16; omega
          · rw [← h]; simp


/-- the optional part written by `as_bytes` is read back by `from_bytes` as the normal form -/
theorem parseTail_body (p : Msg) (hwf : wf p = true) :
    ∃ more b, body p = .ok (more, b) ∧ b.length ≤ 65002 ∧
      parseTail { p.header with more := more, reserved := p.header.reserved || p.header.ptype == .text }
        p.address b = .ok (norm p) := by
  obtain ⟨⟨hm, ha, hr, t⟩, addr, cap, seq, enc, msg⟩ := p
  cases t with
  | availability =>
    cases cap with
    | none => exact ⟨false, [], rfl, by simp, by simp [parseTail, norm]⟩
    | some c =>
      have hc : Gen.Tms.capabilityVal.contains c = true := by
        simp only [wf, Bool.and_eq_true] at hwf; exact hwf.2
      obtain ⟨c4, cc⟩ := cap_code hc
      refine ⟨true, [c], ?_, by simp, ?_⟩
      · simp only [body]; rw [if_neg (by omega)]
      · simp [parseTail, norm, Nat.mod_eq_of_lt c4, cc]
  | ack =>
    cases seq with
    | none =>
      have he : enc = none := by
        simp only [wf, Bool.and_eq_true] at hwf
        simpa using hwf.2
      subst he
      exact ⟨false, [], rfl, by simp, by simp [parseTail, norm, normEnc, hasEnc]⟩
    | some sn =>
      have hs : sn ≤ 127 := by
        simp only [wf, Bool.and_eq_true] at hwf
        simpa using hwf.2
      obtain ⟨bs, h1, h2, h3⟩ := sn_roundtrip sn enc hs []
      have h2 : bs.length ≤ 2 := by rw [h2]; split <;> omega
      refine ⟨true, bs, ?_, by omega, ?_⟩
      · simp [body, h1]
      · rw [List.append_nil] at h3
        simp [parseTail, norm, h3]
  | text =>
    cases seq with
    | none => simp [wf] at hwf
    | some sn =>
      cases msg with
      | none => simp [wf] at hwf
      | some m =>
        have hs : sn ≤ 127 ∧ m.length ≤ 65000 := by
          simp only [wf, Bool.and_eq_true] at hwf
          simpa using hwf.2
        obtain ⟨bs, h1, h2, h3⟩ := sn_roundtrip sn enc hs.1 m
        have h2 : bs.length ≤ 2 := by rw [h2]; split <;> omega
        refine ⟨true, bs ++ m, ?_, by simp; omega, ?_⟩
        · simp [body, h1]
        · simp [parseTail, norm, h3]


theorem headerByte_ok (h : FirstHeader) : ∃ b, headerByte h = .ok b := by
  unfold headerByte
  rw [if_neg (by have := ptype_lt h.ptype; omega)]
  exact ⟨_, rfl⟩

/-- in-range messages always serialise -/
theorem asBytes_total (p : Msg) (hwf : wf p = true) : ∃ bs, asBytes p = .ok bs := by
  obtain ⟨more, b, hb, hlen, -⟩ := parseTail_body p hwf
  obtain ⟨hbyte, hh⟩ := headerByte_ok { p.header with more := more }
  have ha : p.address.length ≤ 255 := by
    simp only [wf, Bool.and_eq_true] at hwf; simpa using hwf.1
  unfold asBytes
  rw [if_neg (by omega), hb]
  simp only []
  rw [if_neg (by simp; omega), hh]
  exact ⟨_, rfl⟩

/-- decode ∘ encode = norm -/
theorem dec_enc (p : Msg) (hwf : wf p = true) (bs : Bytes) (h : asBytes p = .ok bs) :
    fromBytes bs = .ok (norm p) := by
  obtain ⟨more, b, hbyte, hb, hh, -, -, rfl⟩ := asBytes_shape p bs h
  obtain ⟨more', b', hb', -, hp⟩ := parseTail_body p hwf
  rw [hb] at hb'
  injection hb' with hb'
  injection hb' with h1 h2
  subst h1 h2
  rw [fromBytes_frame _ _ _ _ rfl, (header_roundtrip _ _ hh).1]
  exact hp


theorem hasEnc_normEnc (e : Option Encoding) : hasEnc (normEnc e) = hasEnc e := by
  unfold normEnc
  cases h : hasEnc e <;> simp [hasEnc]

theorem normEnc_idem (e : Option Encoding) : normEnc (normEnc e) = normEnc e := by
  unfold normEnc
  rw [show hasEnc (if hasEnc e = true then some Encoding.ucs2le else none) = hasEnc e from hasEnc_normEnc e]

theorem encodeSn_normEnc (s : Option Nat) (e : Option Encoding) :
    encodeSn s (normEnc e) = encodeSn s e := by
  unfold encodeSn
  rw [hasEnc_normEnc]

theorem norm_idem (p : Msg) : norm (norm p) = norm p := by
  obtain ⟨⟨hm, ha, hr, t⟩, addr, cap, seq, enc, msg⟩ := p
  cases t <;> simp [norm, normEnc_idem]

theorem wf_norm (p : Msg) (hwf : wf p = true) : wf (norm p) = true := by
  obtain ⟨⟨hm, ha, hr, t⟩, addr, cap, seq, enc, msg⟩ := p
  cases t with
  | availability => simp only [wf, norm] at hwf ⊢; exact hwf
  | ack =>
    cases seq with
    | none =>
      have he : enc = none := by
        simp only [wf, Bool.and_eq_true] at hwf
        simpa using hwf.2
      subst he
      simp only [wf, norm] at hwf ⊢; exact hwf
    | some sn => simp only [wf, norm] at hwf ⊢; exact hwf
  | text => simp only [wf, norm] at hwf ⊢; exact hwf

/-- encode ∘ norm = encode: the normal form serialises to the same octets -/
theorem reencode (p : Msg) (hwf : wf p = true) : asBytes (norm p) = asBytes p := by
  obtain ⟨⟨hm, ha, hr, t⟩, addr, cap, seq, enc, msg⟩ := p
  cases t with
  | availability => simp [asBytes, body, norm, headerByte]
  | ack =>
    cases seq with
    | none =>
      have he : enc = none := by
        simp only [wf, Bool.and_eq_true] at hwf
        simpa using hwf.2
      subst he
      simp [asBytes, body, norm, headerByte, normEnc, hasEnc]
    | some sn => simp [asBytes, body, norm, headerByte, encodeSn_normEnc]
  | text => simp [asBytes, body, norm, headerByte, encodeSn_normEnc]

end Dmr.Tms
