import DmrVerif.Lemmas.MbxmlG
import DmrVerif.Model.MbxmlX

/-!
# Lemmas for C14 (hardening round): latitude / longitude on arbitrary doubles

`fl53` (rounding of an exact rational to a double) changes a positive value by less than a factor of two
(`fl_crude`; all that is needed here), hence every double accepted by `math.isclose(value, 90.0)` — the one
special case of `write_latitude` — lies strictly within half a micro-degree of 90 (`isclose90_window`): the
special case never captures a value that `round(value, 6)` would not have sent to the pole anyway.
Core Lean only.
-/

namespace Dmr.Mbxml

/-- `roundHalfEven N D` is within half a unit of `N / D` -/
theorem rhe_bounds (N D : Nat) (hD : 0 < D) :
    2 * (roundHalfEven N D * D) ≤ 2 * N + D ∧ 2 * N ≤ 2 * (roundHalfEven N D * D) + D := by
  unfold roundHalfEven
  simp only []
  have hdm := Nat.div_add_mod N D
  have hr := Nat.mod_lt N hD
  generalize N / D = q at *
  generalize N % D = r at *
  have e1 : (q + 1) * D = D * q + D := by rw [Nat.add_mul, Nat.one_mul, Nat.mul_comm]
  have e2 : q * D = D * q := Nat.mul_comm _ _
  split
  · rw [e1]; omega
  · split
    · rw [e1]; omega
    · rw [e2]; omega

/-- when the quotient is at least one, rounding changes it by less than a factor of two -/
theorem rhe_crude (N D : Nat) (hD : 0 < D) (h : D ≤ N) :
    roundHalfEven N D * D ≤ 2 * N ∧ N ≤ 2 * (roundHalfEven N D * D) := by
  have := rhe_bounds N D hD
  omega

/-- the exponent estimate from the bit lengths never leaves the scaled quotient below `2^52` -/
theorem norm0 (n d : Nat) (hn : n ≠ 0) (hd : d ≠ 0) :
    2 ^ 52 * scaleD d ((bitLen n : Int) - (bitLen d : Int) - 53)
      ≤ scaleN n ((bitLen n : Int) - (bitLen d : Int) - 53) := by
  have ha : 2 ^ n.log2 ≤ n := Nat.log2_self_le hn
  have hb : d < 2 ^ (d.log2 + 1) := Nat.lt_log2_self
  simp only [bitLen, hn, hd, if_false]
  generalize n.log2 = x at *
  generalize d.log2 = y at *
  unfold scaleN scaleD
  by_cases h : ((x + 1 : Nat) : Int) - ((y + 1 : Nat) : Int) - 53 < 0
  · simp only [h, if_true]
    have hk : (-(((x + 1 : Nat) : Int) - ((y + 1 : Nat) : Int) - 53)).toNat = y + 53 - x := by omega
    rw [hk]
    calc 2 ^ 52 * d ≤ 2 ^ 52 * 2 ^ (y + 1) := Nat.mul_le_mul_left _ (Nat.le_of_lt hb)
      _ = 2 ^ x * 2 ^ (y + 53 - x) := by
          rw [← Nat.pow_add, ← Nat.pow_add]; congr 1; omega
      _ ≤ n * 2 ^ (y + 53 - x) := Nat.mul_le_mul_right _ ha
  · simp only [h, if_false]
    have hj : (((x + 1 : Nat) : Int) - ((y + 1 : Nat) : Int) - 53).toNat = x - y - 53 := by omega
    rw [hj]
    calc 2 ^ 52 * (d * 2 ^ (x - y - 53))
        ≤ 2 ^ 52 * (2 ^ (y + 1) * 2 ^ (x - y - 53)) :=
          Nat.mul_le_mul_left _ (Nat.mul_le_mul_right _ (Nat.le_of_lt hb))
      _ = 2 ^ x := by
          rw [← Nat.pow_add, ← Nat.pow_add]; congr 1; omega
      _ ≤ n := ha

theorem scaleD_pos (d : Nat) (e : Int) (hd : 0 < d) : 0 < scaleD d e := by
  unfold scaleD
  split
  · exact hd
  · exact Nat.mul_pos hd (Nat.pow_pos (by omega))

/-- halving the scaled quotient keeps it at least one when it was at least two -/
theorem scale_succ (n d : Nat) (e : Int) (h : 2 * scaleD d e ≤ scaleN n e) :
    scaleD d (e + 1) ≤ scaleN n (e + 1) := by
  unfold scaleN scaleD at *
  by_cases h1 : e + 1 < 0
  · have h0 : e < 0 := by omega
    simp only [h0, h1, if_true] at h ⊢
    have hk : (-e).toNat = (-(e + 1)).toNat + 1 := by omega
    rw [hk, Nat.pow_succ] at h
    have : n * (2 ^ (-(e + 1)).toNat * 2) = 2 * (n * 2 ^ (-(e + 1)).toNat) := by
      rw [← Nat.mul_assoc, Nat.mul_comm]
    omega
  · by_cases h0 : e < 0
    · have he : e = -1 := by omega
      subst he
      simp at *
      omega
    · simp only [h0, h1, if_false] at h ⊢
      have hj : (e + 1).toNat = e.toNat + 1 := by omega
      rw [hj, Nat.pow_succ]
      have : d * (2 ^ e.toNat * 2) = 2 * (d * 2 ^ e.toNat) := by
        rw [← Nat.mul_assoc, Nat.mul_comm]
      omega

/-- a rounded scaled quotient that is at least one, read back as a rational, is within a factor of
two of `n / d` -/
theorem scaled_crude (n d : Nat) (hd : 0 < d) (e : Int) (h : scaleD d e ≤ scaleN n e) :
    0 < (Q.ofDyadic (roundHalfEven (scaleN n e) (scaleD d e)) e).d ∧
    (Q.ofDyadic (roundHalfEven (scaleN n e) (scaleD d e)) e).n * d
      ≤ 2 * n * (Q.ofDyadic (roundHalfEven (scaleN n e) (scaleD d e)) e).d ∧
    n * (Q.ofDyadic (roundHalfEven (scaleN n e) (scaleD d e)) e).d
      ≤ 2 * (Q.ofDyadic (roundHalfEven (scaleN n e) (scaleD d e)) e).n * d := by
  have hc := rhe_crude (scaleN n e) (scaleD d e) (scaleD_pos d e hd) h
  generalize roundHalfEven (scaleN n e) (scaleD d e) = m at *
  unfold Q.ofDyadic
  unfold scaleN scaleD at hc
  by_cases h0 : e < 0
  · simp only [h0, if_true] at hc ⊢
    have hK : 0 < 2 ^ (-e).toNat := Nat.pow_pos (by omega)
    generalize 2 ^ (-e).toNat = K at *
    refine ⟨hK, ?_, ?_⟩
    · rw [Nat.mul_assoc]; exact hc.1
    · rw [Nat.mul_assoc]; exact hc.2
  · simp only [h0, if_false] at hc ⊢
    generalize 2 ^ e.toNat = K at *
    have e1 : m * K * d = m * (d * K) := by rw [Nat.mul_assoc, Nat.mul_comm K d]
    refine ⟨by omega, ?_, ?_⟩
    · rw [e1]; omega
    · rw [Nat.mul_assoc 2, e1]; omega

/-- `fl53` rounds a scaled quotient that is at least one -/
theorem fl53_norm (n d : Nat) (hn : n ≠ 0) (hd : d ≠ 0) :
    ∃ e, fl53 n d = (roundHalfEven (scaleN n e) (scaleD d e), e) ∧ scaleD d e ≤ scaleN n e := by
  have h0 := norm0 n d hn hd
  unfold fl53
  simp only [hn, if_false]
  generalize ((bitLen n : Int) - (bitLen d : Int) - 53) = e0 at *
  have hDpos := scaleD_pos d e0 (Nat.pos_of_ne_zero hd)
  by_cases h1 : scaleN n e0 / scaleD d e0 ≥ 2 ^ 53
  · refine ⟨e0 + 1, ?_, ?_⟩
    · simp only [h1, if_true]
    · apply scale_succ
      have := (Nat.le_div_iff_mul_le hDpos).1 h1
      omega
  · have hq : 2 ^ 52 ≤ scaleN n e0 / scaleD d e0 := (Nat.le_div_iff_mul_le hDpos).2 h0
    have h2 : ¬ (scaleN n e0 / scaleD d e0 < 2 ^ 52) := by omega
    refine ⟨e0, ?_, ?_⟩
    · simp only [h1, h2, if_false]
    · omega

/-- rounding a positive rational to a double changes it by less than a factor of two (all that the
window argument below needs; the true bound is `2^-53`) -/
theorem fl_crude (n d : Nat) (hn : n ≠ 0) (hd : d ≠ 0) :
    0 < (Q.fl ⟨n, d⟩).d ∧ (Q.fl ⟨n, d⟩).n * d ≤ 2 * n * (Q.fl ⟨n, d⟩).d ∧
      n * (Q.fl ⟨n, d⟩).d ≤ 2 * (Q.fl ⟨n, d⟩).n * d := by
  obtain ⟨e, he, hle⟩ := fl53_norm n d hn hd
  unfold Q.fl
  simp only [he]
  exact scaled_crude n d (Nat.pos_of_ne_zero hd) e hle

theorem fl_zero (d : Nat) : Q.fl ⟨0, d⟩ = ⟨0, 1⟩ := by
  simp [Q.fl, fl53, Q.ofDyadic]

/-- `x / c ≤ a / b` and `a / e ≤ f / b'`-style chaining without division: from `x·b ≤ a·c` and
`a·e ≤ f·b` conclude `x·e ≤ f·c` -/
theorem chain (x a b c e f : Nat) (hpos : 0 < b) (A : x * b ≤ a * c) (B : a * e ≤ f * b) :
    x * e ≤ f * c := by
  apply Nat.le_of_mul_le_mul_right (c := b) _ hpos
  calc x * e * b = x * b * e := Nat.mul_right_comm ..
    _ ≤ a * c * e := Nat.mul_le_mul_right _ A
    _ = a * e * c := Nat.mul_right_comm ..
    _ ≤ f * b * c := Nat.mul_le_mul_right _ B
    _ = f * c * b := Nat.mul_right_comm ..

/-- if `N / D` is strictly within half a unit of `m`, it rounds to `m` -/
theorem rhe_eq (N D m : Nat) (h1 : 2 * (m * D) < 2 * N + D) (h2 : 2 * N < 2 * (m * D) + D) :
    roundHalfEven N D = m := by
  have hD : 0 < D := by
    rcases Nat.eq_zero_or_pos D with h | h
    · subst h; omega
    · exact h
  unfold roundHalfEven
  simp only []
  have hdm := Nat.div_add_mod N D
  have hr := Nat.mod_lt N hD
  generalize N / D = q at *
  generalize N % D = r at *
  have hq1 : q < m + 1 :=
    Nat.lt_of_mul_lt_mul_left (a := D) (by rw [Nat.mul_add, Nat.mul_comm D m]; omega)
  have hq2 : m < q + 2 :=
    Nat.lt_of_mul_lt_mul_left (a := D) (by rw [Nat.mul_add, Nat.mul_comm D m]; omega)
  rcases Nat.lt_or_ge q m with hlt | hge
  · have hqm : m = q + 1 := by omega
    subst hqm
    rw [Nat.add_mul, Nat.one_mul, Nat.mul_comm q D] at h1 h2
    have : 2 * r > D := by omega
    simp [this]
  · have hqm : q = m := by omega
    subst hqm
    rw [Nat.mul_comm q D] at h1 h2
    have h3 : ¬ (2 * r > D) := by omega
    have h4 : ¬ (2 * r = D ∧ q % 2 = 1) := by omega
    simp [h3, h4]

/-- the two tolerance constants of `math.isclose(value, 90.0)`: the double `1e-09` and the double
`1e-09 * 90.0` -/
theorem relTol_val : (Q.mk 1 1000000000).fl = ⟨4835703278458517, 4835703278458516698824704⟩ := by
  decide +kernel

theorem tol90_val : (Q.mul ⟨4835703278458517, 4835703278458516698824704⟩ ⟨90, 1⟩).fl
    = ⟨6800207735332290, 75557863725914323419136⟩ := by
  decide +kernel

theorem isclose90_near (num exp : Nat) (h : isclose90 num exp = true) :
    2000000 * (if num ≥ 90 * 2 ^ exp then num - 90 * 2 ^ exp else 90 * 2 ^ exp - num) < 2 ^ exp := by
  have hP : 0 < 2 ^ exp := Nat.pow_pos (by omega)
  unfold isclose90 at h
  simp only [Q.eq, Q.le, Q.absdiff, Nat.mul_one, relTol_val, tol90_val] at h
  generalize 2 ^ exp = P at *
  by_cases heq : num = 90 * P
  · subst heq; simp; exact hP
  · have hne : (num == 90 * P) = false := by simpa using heq
    simp only [hne, Bool.false_eq_true, if_false, Bool.or_eq_true, decide_eq_true_eq] at h
    have hX : (if num ≥ 90 * P then num - 90 * P else 90 * P - num) ≠ 0 := by
      split <;> omega
    have hXle : num ≤ 90 * P + (if num ≥ 90 * P then num - 90 * P else 90 * P - num) := by
      split <;> omega
    generalize (if num ≥ 90 * P then num - 90 * P else 90 * P - num) = X at *
    obtain ⟨dpos, _, hA⟩ := fl_crude X P hX (by omega)
    generalize (Q.fl ⟨X, P⟩) = diff at *
    have hA' : X * diff.d ≤ diff.n * (2 * P) := by
      rw [← Nat.mul_assoc, Nat.mul_comm diff.n 2]; exact hA
    rcases h with h | h
    · -- |value − 90| ≤ 1e-09 * 90.0
      have := chain X diff.n diff.d (2 * P) _ _ dpos hA' h
      omega
    · -- |value − 90| ≤ 1e-09 * value
      simp only [Q.mul] at h
      by_cases hnum : num = 0
      · subst hnum
        rw [Nat.mul_zero, fl_zero] at h
        simp only [Nat.mul_one, Nat.zero_mul, Nat.le_zero_eq] at h
        rw [h, Nat.zero_mul] at hA'
        have : X * diff.d = 0 := by omega
        rcases Nat.mul_eq_zero.1 this with h0 | h0 <;> omega
      · obtain ⟨fpos, hB, _⟩ := fl_crude (4835703278458517 * num) (4835703278458516698824704 * P)
          (by omega) (by omega)
        generalize (Q.fl ⟨4835703278458517 * num, 4835703278458516698824704 * P⟩) = f2 at *
        have h1 := chain X diff.n diff.d (2 * P) _ _ dpos hA' h
        have h2 := chain X f2.n f2.d (2 * P) _ _ fpos h1 hB
        -- h2 : X * (rd * P) ≤ 2 * (rn * num) * (2 * P)
        have h3 : X * 4835703278458516698824704 * P ≤ 4 * 4835703278458517 * num * P := by
          calc X * 4835703278458516698824704 * P = X * (4835703278458516698824704 * P) := Nat.mul_assoc ..
            _ ≤ 2 * (4835703278458517 * num) * (2 * P) := h2
            _ = 4 * 4835703278458517 * num * P := by
                simp only [Nat.mul_assoc, Nat.mul_comm, Nat.mul_left_comm]
        have h4 := Nat.le_of_mul_le_mul_right h3 hP
        omega

/-- **the pole window lies inside the rounding cell of the pole**: every double that
`math.isclose(value, 90.0)` accepts is within half a micro-degree of 90, so `round(value, 6)` would
have given 90.0 anyway -/
theorem isclose90_window (num exp : Nat) (h : isclose90 num exp = true) :
    microOf num exp = 90000000 := by
  have hn := isclose90_near num exp h
  have hP : 0 < 2 ^ exp := Nat.pow_pos (by omega)
  unfold microOf
  generalize 2 ^ exp = P at *
  apply rhe_eq <;> split at hn <;> omega

/-! ## the writers on arbitrary doubles -/

theorem latQuot_ok (m : Nat) (h : m ≤ 90000000) :
    toBytes 4 (Int.tdiv ((m : Int) * 16777216) 703125) = .ok (beBytes 4 (m * 16777216 / 703125)) := by
  have h2 : Int.tdiv ((m : Int) * 16777216) 703125 = ((m * 16777216 / 703125 : Nat) : Int) := by
    rw [Int.tdiv_eq_ediv_of_nonneg (by omega)]; omega
  rw [h2]
  exact toBytes_nat 4 _ (by simp; omega)

theorem lonQuot_ok (m : Nat) (h : m < 360000000) :
    toBytes 4 (Int.tdiv ((m : Int) * 8388608) 703125) = .ok (beBytes 4 (m * 8388608 / 703125)) := by
  have h2 : Int.tdiv ((m : Int) * 8388608) 703125 = ((m * 8388608 / 703125 : Nat) : Int) := by
    rw [Int.tdiv_eq_ediv_of_nonneg (by omega)]; omega
  rw [h2]
  exact toBytes_nat 4 _ (by simp; omega)

end Dmr.Mbxml
