import DmrVerif.Model.TrellisStore
import DmrVerif.Lemmas.Trellis

/-!
Frame lemmas for `Model/TrellisStore.lean`: a step of a caller's history changes no existing object
except the one an in-place edit names, a call appends exactly one object whose content is the pure
function of the argument's content.  Core Lean only.
-/

namespace Dmr.Trellis

namespace Store

theorem size_push (h : Store) (v : Obj) : (h.push v).size = h.size + 1 := by simp [push, size]

theorem size_write (h : Store) (r : Nat) (v : Obj) : (h.write r v).size = h.size := by
  simp [write, size]

theorem read_push_old (h : Store) (v : Obj) (r : Nat) (hr : r < h.size) :
    (h.push v).read r = h.read r := by
  simp only [push, read, size] at *
  rw [List.getElem?_append_left hr]

theorem read_push_new (h : Store) (v : Obj) : (h.push v).read h.size = some v := by
  simp [push, read, size]

theorem read_write_other (h : Store) (r r' : Nat) (v : Obj) (hne : r' ≠ r) :
    (h.write r' v).read r = h.read r := by
  simp only [write, read]
  rw [List.getElem?_set_ne hne]

theorem read_lt (h : Store) (r : Nat) (o : Obj) (hr : h.read r = some o) : r < h.size := by
  simp only [read, size] at *
  exact (List.getElem?_eq_some_iff.mp hr).1

end Store

namespace HOp

theorem size_run (h : Store) (op : HOp) : h.size ≤ (op.run h).size := by
  cases op with
  | new o => simp [run, Store.size_push]
  | call f r =>
    simp only [run]
    cases h.read r <;> simp [Store.size_push]
  | edit r m =>
    simp only [run]
    split
    · split
      · simp [Store.size_write]
      · exact Nat.le_refl _
    · exact Nat.le_refl _

/-- frame property: a step changes no existing object except the one it edits in place -/
theorem read_run (h : Store) (op : HOp) (r : Nat) (hr : r < h.size) (ht : op.target ≠ some r) :
    (op.run h).read r = h.read r := by
  cases op with
  | new o => exact Store.read_push_old _ _ _ hr
  | call f r' =>
    simp only [run]
    cases h.read r' with
    | none => rfl
    | some o => exact Store.read_push_old _ _ _ hr
  | edit r' m =>
    have hne : r' ≠ r := by intro h'; exact ht (by simp [target, h'])
    simp only [run]
    split
    · split
      · exact Store.read_write_other _ _ _ _ hne
      · rfl
    · rfl

/-- a call appends one object: the pure function of the argument's current content; every object
held before — the argument included — is left as it is -/
theorem run_call (h : Store) (f : Fn) (r : Nat) (o : Obj) (hr : h.read r = some o) :
    ((call f r).run h).size = h.size + 1
      ∧ ((call f r).run h).read h.size = some (f.apply o)
      ∧ ∀ r', r' < h.size → ((call f r).run h).read r' = h.read r' := by
  simp only [run, hr]
  exact ⟨Store.size_push _ _, Store.read_push_new _ _, fun r' h' => Store.read_push_old _ _ _ h'⟩

end HOp

theorem size_runOps (h : Store) (ops : List HOp) : h.size ≤ (runOps h ops).size := by
  induction ops generalizing h with
  | nil => exact Nat.le_refl _
  | cons op ops ih => exact Nat.le_trans (HOp.size_run h op) (ih (op.run h))

/-- an object keeps its content through every history that does not edit it in place -/
theorem read_runOps (h : Store) (ops : List HOp) (r : Nat) (hr : r < h.size)
    (ht : ∀ op ∈ ops, op.target ≠ some r) : (runOps h ops).read r = h.read r := by
  induction ops generalizing h with
  | nil => rfl
  | cons op ops ih =>
    have h1 := HOp.read_run h op r hr (ht op (by simp))
    have h2 := ih (op.run h) (Nat.lt_of_lt_of_le hr (HOp.size_run h op))
      (fun o ho => ht o (by simp [ho]))
    simp only [runOps, List.foldl_cons] at h2 ⊢
    rw [h2, h1]

theorem runOps_append (h : Store) (a b : List HOp) :
    runOps h (a ++ b) = runOps (runOps h a) b := by
  simp [runOps, List.foldl_append]

/-- build an argument object, call `f` on it: handle `h.size` is the argument, `h.size + 1` the result -/
theorem runOps_new_call (h : Store) (o : Obj) (f : Fn) :
    (runOps h [.new o, .call f h.size]).size = h.size + 2
      ∧ (runOps h [.new o, .call f h.size]).read h.size = some o
      ∧ (runOps h [.new o, .call f h.size]).read (h.size + 1) = some (f.apply o) := by
  have h0 : (h.push o).read h.size = some o := Store.read_push_new h o
  have hs : (h.push o).size = h.size + 1 := Store.size_push h o
  obtain ⟨c1, c2, c3⟩ := HOp.run_call (h.push o) f h.size o h0
  simp only [runOps, List.foldl_cons, List.foldl_nil, HOp.run] at *
  refine ⟨by omega, ?_, ?_⟩
  · rw [c3 h.size (by omega)]; exact h0
  · rw [← hs]; exact c2

/-- the first two steps of a process: build an object, call `f` on it — two objects, whatever `f` answered -/
theorem size_first_call (o : Obj) (f : Fn) : (runOps Store.empty [.new o, .call f 0]).size = 2 := by
  have := (runOps_new_call Store.empty o f).1
  simpa [Store.empty, Store.size] using this

end Dmr.Trellis
