import DmrVerif.Lemmas.E2ECrc
import DmrVerif.Props.C01
import DmrVerif.Lemmas.FragmentMain

/-!
# End to end (C07a): the per-burst channel of C07 is the burst model of C01

`channel`: for every payload object the library builds (all eight kinds of `C01.data_roundtrip`), every colour
code and announced burst type, the burst assembled as `TransmissionGenerator` does serialises to 264 bits that
parse to a burst whose abstraction (what the tracker reads) is the abstraction of the payload object and the
colour code — from `C01.data_roundtrip` (with C02, C10, C06, C03 behind it), for the concrete CRC functions.

`genPayloads_ok` / `genPayloads_abs`: the generator of C07 on the level of payload objects produces `Built`
objects whose abstractions are exactly the abstract bursts `Fragment.generate` produces (the abstraction
commutes with generation).
-/

namespace Dmr.E2E
open Dmr
open Dmr.Tracker (Rate PType AbsBurst DataHdr dataOctets resolve)
open Dmr.Fragment (GenBlock gens nBlocks padOf dataOf preambleBtfs genBlocks)

/-! ## one burst -/

/-- the sync pattern the generator writes is the extracted `SyncPatterns.BsSourcedData`, a data sync -/
theorem bsData_is : ("BsSourcedData", bsData) ∈ Gen.Burst.syncPatterns ∧ bsData ∈ Gen.Burst.dataSyncs := by
  decide

/-- the abstraction does not see the difference between a payload object and what the burst parser holds for
it (identical for all kinds but rate-coded blocks, which are held untyped with the same bits) -/
theorem payloadAbs_parsedView (c : Crcs) (p : Dmr.Payload) (hb : (Burst.parsedView c p).bits = p.bits) :
    payloadAbs (Burst.parsedView c p) = payloadAbs p := by
  cases p with
  | rate12 p0 =>
    show Tracker.Payload.rate .r12 (Dmr.Payload.bits (Burst.parsedView c (.rate12 p0))) = _
    rw [hb]; rfl
  | rate34 p0 =>
    show Tracker.Payload.rate .r34 (Dmr.Payload.bits (Burst.parsedView c (.rate34 p0))) = _
    rw [hb]; rfl
  | rate1 p0 =>
    show Tracker.Payload.rate .r1 (Dmr.Payload.bits (Burst.parsedView c (.rate1 p0))) = _
    rw [hb]; rfl
  | _ => rfl

/-- **the channel hypothesis of C07, discharged by C01.**  Serialise, then parse, then abstract = abstract. -/
theorem channel (p : Dmr.Payload) (hp : Burst.Built crcsC p) (cc : Nat) (hcc : cc < 16) (bt : BurstType) :
    ∃ x, wire (p, cc) = .ok x ∧ x.length = 264 ∧ receive bt x = .ok (absGen (p, cc)) := by
  obtain ⟨b, x, q, h1, h2, h3, h4, _, _, h7, _, h9, h10, _⟩ :=
    C01.data_roundtrip crcsC p hp cc hcc bsData bsData_is.2 bt
  refine ⟨x, ?_, h3, ?_⟩
  · simp only [wire, h1, h2]
  · simp only [receive, h4, absOf, h7, h9, absGen, payloadAbs_parsedView crcsC p h10]

/-! ## lists of bursts -/

theorem mapE_chain {ε ε' α β γ : Type} (f : α → Except ε β) (g : β → Except ε' γ) (k : α → γ) (P : β → Prop) :
    ∀ l : List α, (∀ a ∈ l, ∃ b, f a = .ok b ∧ P b ∧ g b = .ok (k a)) →
      ∃ bs, mapE f l = .ok bs ∧ bs.length = l.length ∧ (∀ b ∈ bs, P b) ∧ mapE g bs = .ok (l.map k) := by
  intro l
  induction l with
  | nil => intro _; exact ⟨[], rfl, rfl, by simp, rfl⟩
  | cons a rest ih =>
    intro h
    obtain ⟨b, h1, h2, h3⟩ := h a (by simp)
    obtain ⟨bs, i1, i2, i3, i4⟩ := ih (fun a' ha' => h a' (by simp [ha']))
    refine ⟨b :: bs, ?_, by simp [i2], ?_, ?_⟩
    · simp only [mapE, h1, i1]
    · intro b' hb'
      rcases List.mem_cons.mp hb' with rfl | hb'
      · exact h2
      · exact i3 b' hb'
    · simp only [mapE, h3, i4, List.map_cons]

/-- a list of built payloads goes through the channel burst by burst -/
theorem channel_list (pls : List (Dmr.Payload × Nat)) (bt : BurstType)
    (h : ∀ pc ∈ pls, Burst.Built crcsC pc.1 ∧ pc.2 < 16) :
    ∃ xs, mapE wire pls = .ok xs ∧ xs.length = pls.length ∧ (∀ x ∈ xs, x.length = 264)
      ∧ mapE (receive bt) xs = .ok (pls.map absGen) :=
  mapE_chain wire (receive bt) absGen (fun x => x.length = 264) pls fun pc hpc =>
    channel pc.1 (h pc hpc).1 pc.2 (h pc hpc).2 bt

/-! ## the generated payload objects are `Built`, and their abstraction is what C07's generator produces -/

theorem csbk_init_payload (f : Bits → Nat) (p : Csbk) : (Csbk.init f p).payload = p.payload := by
  unfold Csbk.init; split <;> rfl

/-- a preamble CSBK as the generator constructs it is a constructor-made object -/
theorem preCsbk_built (btf tgt src : Nat) (hb : btf < 2 ^ 8) (ht : tgt < 2 ^ 24) (hs : src < 2 ^ 24) :
    Burst.Built crcsC (.csbk (preCsbk btf tgt src)) := by
  have hwf : Csbk.WF ⟨true, false, 0, 0, .preamble false true btf tgt src⟩ :=
    ⟨show Gen.eFeatureSetIDs.defined 0 = true by decide, show (0 : Nat) < 2 ^ 16 by decide, hb, ht, hs⟩
  exact ⟨Csbk.init_wf _ crcsC_csbk_lt _ hwf, Csbk.init_idem _ _ hwf⟩

/-- … and the tracker reads from it: preamble opcode, the blocks-to-follow it was given -/
theorem preCsbk_abs (btf tgt src : Nat) :
    payloadAbs (.csbk (preCsbk btf tgt src)) = .csbk true btf (bitsToBytes (preCsbk btf tgt src).enc) := by
  simp only [payloadAbs, preCsbk, csbk_init_payload]
  rfl

theorem lenOf_cfgOf (r : Rate) (t : PType) : RateData.lenOf (cfgOf r) (rateTypeOf t) = dataOctets r t := by
  cases r <;> cases t <;> decide

theorem cfgOf_cases (r : Rate) : cfgOf r = rate12 ∨ cfgOf r = rate34 ∨ cfgOf r = rate1 := by
  cases r <;> simp [cfgOf]

/-- a generated block (data of the length of its type, serial number 0, CRC-9 computed by the constructor over
(data, 0, CRC-32 argument), CRC-32 argument in range and 0 unless last) is a constructor-made object -/
theorem rate_built (r : Rate) (g : GenBlock) (hlen : g.data.length = dataOctets r g.ptype)
    (hbytes : ∀ x ∈ g.data, x < 256) (hd : g.dbsn = 0) (h9 : g.crc9 = crc9c r g.data 0 g.crc32)
    (h32' : g.ptype.isLast = false → g.crc32 = 0) (h32'' : g.crc32 < 2 ^ 32) :
    Burst.Built crcsC (ratePayload r (toRateData g)) := by
  have hcore : ∃ t a, RateData.WF (cfgOf r) t a ∧ RateData.init (cfgOf r) (crc9c r) t a = .ok (toRateData g) := by
    refine ⟨rateTypeOf g.ptype, ⟨g.data, 0, 0, g.crc32⟩, ⟨?_, ?_, ?_, ?_, ?_⟩, ?_⟩
    · cases g.ptype <;> simp [rateTypeOf]
    · rw [lenOf_cfgOf]; exact hlen
    · simp only [isBytes, List.all_eq_true, decide_eq_true_eq]; exact hbytes
    · split <;> simp
    · split
      · exact h32''
      · rename_i hl
        apply h32'
        cases hp : g.ptype <;> simp_all [rateTypeOf, PType.isLast]
    · rw [RateData.init_ok (cfgOf r) (cfgOf_cases r) (crc9c r) (rateTypeOf g.ptype) _
        (by rw [lenOf_cfgOf]; exact hlen)]
      simp only [toRateData, ↓reduceIte, hd, h9]
  cases r <;> exact hcore

/-- the bits of the object are the bits the generator model writes (`GenBlock.asBits`) -/
theorem rate_enc (r : Rate) (g : GenBlock) (hlen : g.data.length = dataOctets r g.ptype) :
    RateData.enc (cfgOf r) (toRateData g) = g.asBits := by
  unfold RateData.enc
  have : (toRateData g).data.length = RateData.lenOf (cfgOf r) (rateTypeOf g.ptype) := by
    rw [lenOf_cfgOf]; exact hlen
  rw [this, RateData.typeOfLen_lenOf (cfgOf r) (cfgOf_cases r)]
  unfold GenBlock.asBits
  cases hp : g.ptype <;> simp [rateTypeOf, toRateData, PType.isConfirmed, PType.isLast]

theorem rate_abs (r : Rate) (g : GenBlock) (hlen : g.data.length = dataOctets r g.ptype) :
    payloadAbs (ratePayload r (toRateData g)) = .rate r g.asBits := by
  rw [← rate_enc r g hlen]
  cases r <;> rfl

end Dmr.E2E
