import DmrVerif.Model.Rdac
import DmrVerif.Lemmas.StorageHolder

/-!
# Lemmas about the RDAC handler model (C18)

* what one `stepK` call can write to the step dictionary (`stepN_write`), when it raises, when it
  calls the completion callback;
* the step of the sending IP after a datagram (`step_stepOf_self`), of every other IP
  (`step_stepOf_other`);
* the storage keeps the invariant of C20 and only the record of the sending address changes.
-/

namespace Dmr.Rdac
open Dmr Dmr.Storage Dmr.P2p

theorem stepOf_dictSet (steps : List (List Nat × Nat)) (ip ip' : List Nat) (n : Nat) :
    stepOf (dictSet steps ip n) ip' = if ip = ip' then n else stepOf steps ip' := by
  simp only [stepOf, dictGet_dictSet]
  split <;> rfl

/-! ## one `stepK` call -/

/-- the patch of step 6 -/
def patch6 (cs hw fw sn : List Nat) : Patch :=
  [(Key.ofName Gen.Proto.rdacFirmwareKey, .str fw), (Key.ofName Gen.Proto.rdacHardwareKey, .str hw),
   (Key.ofName Gen.Proto.rdacCallsignKey, .str cs), (Key.ofName Gen.Proto.rdacSerialnoKey, .str sn)]

/-- the patch of step 10 (the attribute names are crossed in the source: `rx_freq` gets the first
frequency the code calls `tx_freq`) -/
def patch10 (data : Bytes) : Patch :=
  [(Key.ofName Gen.Proto.rdacRxFreqKey, .int (leInt data 29 33)), (Key.ofName Gen.Proto.rdacTxFreqKey, .int (leInt data 33 37))]

/-- `save(match_incoming(a), p)` as the model writes it -/
def saveFound (store : Store) (a : Val) (p : Patch) : Store :=
  (Storage.step store (.save
    (match (Storage.step store (.matchIncoming a false [])).2 with | .obj i => some i | _ => Option.none) p)).1

/-- the body of a step, case by case -/
theorem body_cases (store : Store) (cur nxt : Nat) (a : Addr) (data : Bytes) (f : Bool) :
    (cur = 3 ∧ body store cur nxt a data f =
      ((Storage.step store (.matchIncoming a.val false [(.field .dmrId, .int (leInt data 18 21))])).1,
        some nxt, sends (requestsOf 3) a, .ok)) ∨
    (cur = 6 ∧
      ((∃ cs hw fw sn, body store cur nxt a data f =
          (saveFound store a.val (patch6 cs hw fw sn), some nxt, sends (requestsOf 6) a, .ok)) ∨
       body store cur nxt a data f = (store, Option.none, [], .err .unicodeDecodeError))) ∨
    (cur = 10 ∧
      ((data.length ≤ 26 ∧ body store cur nxt a data f = (store, Option.none, [], .err .indexError)) ∨
       (26 < data.length ∧ body store cur nxt a data f =
          ((Storage.step store (.matchIncoming a.val false (patch10 data))).1, some nxt, sends (requestsOf 10) a, .ok)))) ∨
    (cur = 13 ∧
      ((f = true ∧ body store cur nxt a data f = (store, some nxt, [], .err .snmpError)) ∨
       (f = false ∧ ∃ r, store.recOf a.val = some r ∧
          body store cur nxt a data f = (store, some nxt, [.callback r.id], .ok)) ∨
       (f = false ∧ store.recOf a.val = Option.none ∧
          body store cur nxt a data f = (store, some nxt, [], .err .attributeError)))) ∨
    (cur ≠ 3 ∧ cur ≠ 6 ∧ cur ≠ 10 ∧ cur ≠ 13 ∧
      body store cur nxt a data f = (store, some nxt, sends (requestsOf cur) a, .ok)) := by
  by_cases h3 : cur = 3
  · subst h3; exact Or.inl ⟨rfl, rfl⟩
  by_cases h6 : cur = 6
  · subst h6
    refine Or.inr (Or.inl ⟨rfl, ?_⟩)
    cases hcs : decodeField data 88 108 with
    | none => right; simp [body, hcs]
    | some cs =>
      cases hhw : decodeField data 120 184 with
      | none => right; simp [body, hcs, hhw]
      | some hw =>
        cases hfw : decodeField data 56 88 with
        | none => right; simp [body, hcs, hhw, hfw]
        | some fw =>
          cases hsn : decodeField data 184 216 with
          | none => right; simp [body, hcs, hhw, hfw, hsn]
          | some sn => left; exact ⟨cs, hw, fw, sn, by simp only [body, hcs, hhw, hfw, hsn]; rfl⟩
  by_cases h10 : cur = 10
  · subst h10
    refine Or.inr (Or.inr (Or.inl ⟨rfl, ?_⟩))
    by_cases hl : data.length ≤ 26
    · left; exact ⟨hl, by simp [body, hl]⟩
    · right; exact ⟨by omega, by simp [body, hl, patch10]⟩
  by_cases h13 : cur = 13
  · subst h13
    refine Or.inr (Or.inr (Or.inr (Or.inl ⟨rfl, ?_⟩)))
    cases f with
    | true => left; exact ⟨rfl, by simp [body]⟩
    | false =>
      right
      cases hi : store.first (fun r => r.addressIn == a.val) with
      | none => right; exact ⟨rfl, by simp [Store.recOf, Store.holder, hi], by simp [body, hi]⟩
      | some i =>
        cases hr : store.objs[i]? with
        | none => right; exact ⟨rfl, by simp [Store.recOf, Store.holder, hi, hr], by simp [body, hi, hr]⟩
        | some r => left; exact ⟨rfl, r, by simp [Store.recOf, Store.holder, hi, hr], by simp [body, hi, hr]⟩
  · refine Or.inr (Or.inr (Or.inr (Or.inr ⟨h3, h6, h10, h13, ?_⟩)))
    unfold body
    split
    · exact absurd rfl h3
    · exact absurd rfl h6
    · exact absurd rfl h10
    · exact absurd rfl h13
    · rfl

theorem body_write (store : Store) (cur nxt : Nat) (a : Addr) (data : Bytes) (f : Bool) (n : Nat)
    (h : (body store cur nxt a data f).2.1 = some n) : n = nxt := by
  rcases body_cases store cur nxt a data f with ⟨_, e⟩ | ⟨_, ⟨_, _, _, _, e⟩ | e⟩ | ⟨_, ⟨_, e⟩ | ⟨_, e⟩⟩ |
    ⟨_, ⟨_, e⟩ | ⟨_, _, _, e⟩ | ⟨_, _, e⟩⟩ | ⟨_, _, _, _, e⟩ <;> rw [e] at h <;>
    first
      | (simp only [Option.some.injEq] at h; exact h.symm)
      | cases h

/-- a `stepK` call writes the step dictionary only as the table says, and only after its response
prefix matched (step 0: unconditionally, value 1) -/
theorem stepN_write (store : Store) (cur : Nat) (a : Addr) (data : Bytes) (f : Bool) (n : Nat)
    (h : (stepN store cur a data f).2.1 = some n) :
    (cur = 0 ∧ n = 1) ∨
    (cur ≠ 0 ∧ cur ≠ 14 ∧ ∃ resp, table cur = some (resp, n) ∧ hasPrefix resp data = true) := by
  unfold stepN at h
  split at h
  · rename_i h0
    simp only [Option.some.injEq] at h
    exact Or.inl ⟨h0, h.symm⟩
  · rename_i h0
    split at h
    · cases h
    · rename_i h14
      split at h
      · cases h
      · rename_i resp nxt ht
        split at h
        · rename_i hp
          have := body_write _ _ _ _ _ _ _ h
          subst this
          exact Or.inr ⟨h0, h14, resp, ht, hp⟩
        · cases h

/-- errors other than the SNMP stub happen before anything is written -/
theorem body_err (store : Store) (cur nxt : Nat) (a : Addr) (data : Bytes) (f : Bool) (e : RErr)
    (h : (body store cur nxt a data f).2.2.2 = .err e) :
    (body store cur nxt a data f).1 = store ∧ (body store cur nxt a data f).2.2.1 = [] ∧
    (((body store cur nxt a data f).2.1 = Option.none ∧
        ((cur = 6 ∧ e = .unicodeDecodeError) ∨ (cur = 10 ∧ e = .indexError ∧ data.length ≤ 26))) ∨
     (cur = 13 ∧ (body store cur nxt a data f).2.1 = some nxt ∧ (e = .snmpError ∨ e = .attributeError))) := by
  rcases body_cases store cur nxt a data f with ⟨_, e'⟩ | ⟨h6, ⟨_, _, _, _, e'⟩ | e'⟩ | ⟨h10, ⟨hl, e'⟩ | ⟨_, e'⟩⟩ |
    ⟨h13, ⟨_, e'⟩ | ⟨_, _, _, e'⟩ | ⟨_, _, e'⟩⟩ | ⟨_, _, _, _, e'⟩ <;> rw [e'] at h ⊢
  · cases h
  · cases h
  · simp only [RRes.err.injEq] at h
    exact ⟨rfl, rfl, Or.inl ⟨rfl, Or.inl ⟨h6, h.symm⟩⟩⟩
  · simp only [RRes.err.injEq] at h
    exact ⟨rfl, rfl, Or.inl ⟨rfl, Or.inr ⟨h10, h.symm, hl⟩⟩⟩
  · cases h
  · simp only [RRes.err.injEq] at h
    exact ⟨rfl, rfl, Or.inr ⟨h13, rfl, Or.inl h.symm⟩⟩
  · cases h
  · simp only [RRes.err.injEq] at h
    exact ⟨rfl, rfl, Or.inr ⟨h13, rfl, Or.inr h.symm⟩⟩
  · cases h

theorem not_mem_sends (l : List Bytes) (a : Addr) (id : Val) : ROut.callback id ∉ sends l a := by
  intro hm
  simp only [sends, List.mem_map] at hm
  obtain ⟨d, _, hd⟩ := hm
  cases hd

/-- a callback is made only by the body of step 13 -/
theorem body_callback (store : Store) (cur nxt : Nat) (a : Addr) (data : Bytes) (f : Bool) (id : Val)
    (h : ROut.callback id ∈ (body store cur nxt a data f).2.2.1) :
    cur = 13 ∧ f = false ∧ (body store cur nxt a data f).2.2.1 = [.callback id] ∧
    (body store cur nxt a data f).2.2.2 = .ok ∧ (body store cur nxt a data f).2.1 = some nxt ∧
    ∃ r, store.recOf a.val = some r ∧ r.id = id := by
  rcases body_cases store cur nxt a data f with ⟨_, e'⟩ | ⟨h6, ⟨_, _, _, _, e'⟩ | e'⟩ | ⟨h10, ⟨hl, e'⟩ | ⟨_, e'⟩⟩ |
    ⟨h13, ⟨_, e'⟩ | ⟨hf, r, hr, e'⟩ | ⟨_, _, e'⟩⟩ | ⟨_, _, _, _, e'⟩ <;> rw [e'] at h ⊢
  · exact absurd h (not_mem_sends _ _ _)
  · exact absurd h (not_mem_sends _ _ _)
  · simp at h
  · simp at h
  · exact absurd h (not_mem_sends _ _ _)
  · simp at h
  · simp only [List.mem_singleton, ROut.callback.injEq] at h
    exact ⟨h13, hf, by rw [h], rfl, rfl, r, hr, h.symm⟩
  · simp at h
  · exact absurd h (not_mem_sends _ _ _)

theorem stepN_callback (store : Store) (cur : Nat) (a : Addr) (data : Bytes) (f : Bool) (id : Val)
    (h : ROut.callback id ∈ (stepN store cur a data f).2.2.1) :
    cur = 13 ∧ f = false ∧ (stepN store cur a data f).2.2.1 = [.callback id] ∧
    (stepN store cur a data f).2.2.2 = .ok ∧ (stepN store cur a data f).2.1 = some 14 ∧
    hasPrefix Gen.Proto.rdacStep12Response data = true ∧
    ∃ r, store.recOf a.val = some r ∧ r.id = id := by
  by_cases h0 : cur = 0
  · simp only [stepN, h0, if_true] at h
    exact absurd h (not_mem_sends _ _ _)
  by_cases h14 : cur = 14
  · simp [stepN, h14] at h
  cases ht : table cur with
  | none => simp [stepN, h0, h14, ht] at h
  | some p =>
    obtain ⟨resp, nxt⟩ := p
    by_cases hp : hasPrefix resp data = true
    · have e : stepN store cur a data f = body store cur nxt a data f := by
        simp [stepN, h0, h14, ht, hp]
      rw [e] at h ⊢
      obtain ⟨h13, hf, houts, hres, hw, hr⟩ := body_callback _ _ _ _ _ _ _ h
      subst h13
      simp only [table, Option.some.injEq, Prod.mk.injEq] at ht
      obtain ⟨rfl, rfl⟩ := ht
      exact ⟨rfl, hf, houts, hres, hw, hp, hr⟩
    · simp [stepN, h0, h14, ht, hp] at h

/-- step 13 with the expected response and a working SNMP call completes: exactly one callback -/
theorem stepN_completes (store : Store) (a : Addr) (data : Bytes) (r : Rec)
    (hp : hasPrefix Gen.Proto.rdacStep12Response data = true) (hr : store.recOf a.val = some r) :
    stepN store 13 a data false = (store, some 14, [.callback r.id], .ok) := by
  rcases body_cases store 13 14 a data false with ⟨h, _⟩ | ⟨h, _⟩ | ⟨h, _⟩ |
    ⟨_, ⟨hf, _⟩ | ⟨_, r', hr', e'⟩ | ⟨_, hn, _⟩⟩ | ⟨_, _, _, h, _⟩
  · cases h
  · cases h
  · cases h
  · cases hf
  · rw [hr] at hr'; cases hr'
    simp only [stepN, table, hp, if_true]
    exact e'
  · rw [hr] at hn; cases hn
  · exact absurd rfl h

/-! ## the step dictionary after a datagram -/

/-- `steps1` of `datagram_received` still reads as the current step -/
theorem stepOf_steps1 (steps : List (List Nat × Nat)) (ip : List Nat) :
    stepOf (if stepOf steps ip = 0 then dictSet steps ip 0 else steps) ip = stepOf steps ip := by
  split
  · rename_i h0; rw [stepOf_dictSet, if_pos rfl, h0]
  · rfl

theorem stepOf_steps1_other (steps : List (List Nat × Nat)) (ip ip' : List Nat) (h : ip ≠ ip') :
    stepOf (if stepOf steps ip = 0 then dictSet steps ip 0 else steps) ip' = stepOf steps ip' := by
  split
  · rw [stepOf_dictSet, if_neg h]
  · rfl

/-- **isolation**: a datagram from `a` never changes the step of another IP -/
theorem step_stepOf_other (s : RState) (a : Addr) (data : Bytes) (f : Bool) (ip : List Nat) (h : a.ip ≠ ip) :
    stepOf (step s a data f).1.steps ip = stepOf s.steps ip := by
  unfold step
  simp only
  split
  · rw [stepOf_dictSet, if_neg h, stepOf_dictSet, if_neg h, stepOf_steps1_other _ _ _ h]
  · split
    · exact stepOf_steps1_other _ _ _ h
    · split
      · exact stepOf_steps1_other _ _ _ h
      · simp only
        split
        · rw [stepOf_dictSet, if_neg h, stepOf_steps1_other _ _ _ h]
        · exact stepOf_steps1_other _ _ _ h

/-- the step of the sending IP after the datagram -/
theorem step_stepOf_self (s : RState) (a : Addr) (data : Bytes) (f : Bool) :
    stepOf (step s a data f).1.steps a.ip =
      if data.length = 1 ∧ stepOf s.steps a.ip ≠ 14 then 1
      else if stepOf s.steps a.ip = 14 then 14
      else ((stepN (Storage.step s.store (.matchIncoming a.val true [])).1 (stepOf s.steps a.ip) a data f).2.1).getD
        (stepOf s.steps a.ip) := by
  unfold step
  simp only
  split
  · rw [stepOf_dictSet, if_pos rfl]
  · rename_i h1
    split
    · rename_i h2
      rw [stepOf_steps1, if_pos h2.2]; exact h2.2
    · rename_i h2
      split
      · rename_i h3
        rw [stepOf_steps1, if_pos h3.2]; exact h3.2
      · rename_i h3
        have h14 : ¬ stepOf s.steps a.ip = 14 := by
          intro h14
          by_cases hl : data.length = 1
          · exact h3 ⟨hl, h14⟩
          · exact h2 ⟨hl, h14⟩
        rw [if_neg h14]
        simp only
        split
        · rename_i n hn
          rw [stepOf_dictSet, if_pos rfl, hn]; rfl
        · rename_i hn
          rw [stepOf_steps1, hn]; rfl

/-- outputs and outcome of `datagram_received` in the `stepK` branch -/
theorem step_outs_stepN (s : RState) (a : Addr) (data : Bytes) (f : Bool)
    (h1 : ¬ (data.length = 1 ∧ stepOf s.steps a.ip ≠ 14)) (h14 : stepOf s.steps a.ip ≠ 14) :
    (step s a data f).2 =
      ((stepN (Storage.step s.store (.matchIncoming a.val true [])).1 (stepOf s.steps a.ip) a data f).2.2.1,
       (stepN (Storage.step s.store (.matchIncoming a.val true [])).1 (stepOf s.steps a.ip) a data f).2.2.2) ∧
    (step s a data f).1.store =
      (stepN (Storage.step s.store (.matchIncoming a.val true [])).1 (stepOf s.steps a.ip) a data f).1 := by
  unfold step
  simp only
  rw [if_neg h1, if_neg (fun h => h14 h.2), if_neg (fun h => h14 h.2)]
  exact ⟨rfl, rfl⟩

/-- outputs of the three branches that do not call a `stepK` -/
theorem step_outs_special (s : RState) (a : Addr) (data : Bytes) (f : Bool)
    (h : (data.length = 1 ∧ stepOf s.steps a.ip ≠ 14) ∨ stepOf s.steps a.ip = 14) :
    (step s a data f).2.2 = .ok ∧ (∀ id, ROut.callback id ∉ (step s a data f).2.1) ∧
    (step s a data f).1.store = (Storage.step s.store (.matchIncoming a.val true [])).1 := by
  have hs : ∀ (l : List Bytes) id, ROut.callback id ∉ sends l a := fun l id => not_mem_sends l a id
  unfold step
  simp only
  split
  · exact ⟨rfl, fun id => hs _ id, rfl⟩
  · rename_i h1
    have h14 : stepOf s.steps a.ip = 14 := by
      rcases h with h | h
      · exact absurd h h1
      · exact h
    split
    · exact ⟨rfl, fun id => by simp, rfl⟩
    · rename_i h2
      have hl : data.length = 1 := by
        apply Classical.byContradiction
        intro hl; exact h2 ⟨hl, h14⟩
      rw [if_pos ⟨hl, h14⟩]
      refine ⟨rfl, fun id => ?_, rfl⟩
      simp only
      split
      · exact hs _ id
      · simp

/-! ## the storage -/

theorem safe_dmr (v : Val) : SafePatch [(Key.field .dmrId, v)] := by
  intro e he
  simp only [List.mem_singleton] at he
  subst he
  exact ⟨by simp, by simp⟩

theorem safe_step6 (a b c d : Val) :
    SafePatch [(Key.ofName Gen.Proto.rdacFirmwareKey, a), (Key.ofName Gen.Proto.rdacHardwareKey, b),
      (Key.ofName Gen.Proto.rdacCallsignKey, c), (Key.ofName Gen.Proto.rdacSerialnoKey, d)] := by
  have h1 : Key.ofName Gen.Proto.rdacFirmwareKey = .dyn "rdac_firmware" := by decide
  have h2 : Key.ofName Gen.Proto.rdacHardwareKey = .dyn "rdac_hardware" := by decide
  have h3 : Key.ofName Gen.Proto.rdacCallsignKey = .field .callsign := by decide
  have h4 : Key.ofName Gen.Proto.rdacSerialnoKey = .field .serial := by decide
  rw [h1, h2, h3, h4]
  intro e he
  simp only [List.mem_cons, List.not_mem_nil, or_false] at he
  rcases he with rfl | rfl | rfl | rfl <;> exact ⟨by simp, by simp⟩

theorem safe_step10 (a b : Val) :
    SafePatch [(Key.ofName Gen.Proto.rdacRxFreqKey, a), (Key.ofName Gen.Proto.rdacTxFreqKey, b)] := by
  have h1 : Key.ofName Gen.Proto.rdacRxFreqKey = .dyn "rx_freq" := by decide
  have h2 : Key.ofName Gen.Proto.rdacTxFreqKey = .dyn "tx_freq" := by decide
  rw [h1, h2]
  intro e he
  simp only [List.mem_cons, List.not_mem_nil, or_false] at he
  rcases he with rfl | rfl <;> exact ⟨by simp, by simp⟩

/-- the storage after a patching `match_incoming(a, patch=p)` on an address that has a record -/
theorem patch_store {store : Store} (h : Inv store) (a : Val) (p : Patch) (hp : SafePatch p) (r : Rec)
    (hr : store.recOf a = some r) :
    Inv (Storage.step store (.matchIncoming a false p)).1 ∧
    (∀ a', a' ≠ a → (Storage.step store (.matchIncoming a false p)).1.recOf a' = store.recOf a') ∧
    (Storage.step store (.matchIncoming a false p)).1.recOf a = some (applyPatch p r) ∧
    (Storage.step store (.matchIncoming a false p)).1.objs.length = store.objs.length := by
  obtain ⟨h1, h2, h3, _⟩ := matchIncoming_patch_spec h a p hp hr
  refine ⟨h1, ?_, ?_, h3⟩
  · intro a' hne
    have := h2 a'
    rw [if_neg hne] at this
    exact this
  · have := h2 a
    rw [if_pos rfl] at this
    exact this

/-- `save(match_incoming(a), p)` is the same patching lookup -/
theorem save_found_eq {store : Store} (h : Inv store) (a : Val) (p : Patch) (hp : SafePatch p) (r : Rec)
    (hr : store.recOf a = some r) :
    (Storage.step store (.save
      (match (Storage.step store (.matchIncoming a false [])).2 with | .obj i => some i | _ => Option.none) p)).1
      = (Storage.step store (.matchIncoming a false p)).1 := by
  obtain ⟨_, _, _, i, hi, heq⟩ := matchIncoming_patch_spec h a p hp hr
  have hlook : (Storage.step store (.matchIncoming a false [])) = (store, Res.ofOption (store.holder a)) :=
    matchIncoming_lookup store a
  rw [hlook, hi]
  simp only [Res.ofOption]
  obtain ⟨r', hr', _⟩ := h.holder_some_iff.mp hi
  have hlt := getElem?_lt_of_some hr'
  simp only [Storage.step, if_pos hlt]
  rw [← heq]

/-- the storage part of a `stepK` body: invariant kept, other addresses untouched, the record of the
sender still there, nothing created -/
theorem body_store {store : Store} (h : Inv store) (cur nxt : Nat) (a : Addr) (data : Bytes) (f : Bool) (r : Rec)
    (hr : store.recOf a.val = some r) :
    Inv (body store cur nxt a data f).1 ∧
    (∀ a', a' ≠ a.val → (body store cur nxt a data f).1.recOf a' = store.recOf a') ∧
    (∃ r', (body store cur nxt a data f).1.recOf a.val = some r' ∧ r'.id = r.id) ∧
    (body store cur nxt a data f).1.objs.length = store.objs.length := by
  have hsame : Inv store ∧ (∀ a', a' ≠ a.val → store.recOf a' = store.recOf a') ∧
      (∃ r', store.recOf a.val = some r' ∧ r'.id = r.id) ∧ store.objs.length = store.objs.length :=
    ⟨h, fun _ _ => rfl, ⟨r, hr, rfl⟩, rfl⟩
  rcases body_cases store cur nxt a data f with ⟨_, e'⟩ | ⟨h6, ⟨cs, hw, fw, sn, e'⟩ | e'⟩ | ⟨h10, ⟨hl, e'⟩ | ⟨_, e'⟩⟩ |
    ⟨h13, ⟨_, e'⟩ | ⟨_, _, _, e'⟩ | ⟨_, _, e'⟩⟩ | ⟨_, _, _, _, e'⟩ <;> rw [e']
  · obtain ⟨h1, h2, h3, h4⟩ := patch_store h a.val _ (safe_dmr (.int (leInt data 18 21))) r hr
    exact ⟨h1, h2, ⟨_, h3, applyPatch_safe_id _ _ (safe_dmr _)⟩, h4⟩
  · have hs := safe_step6 (.str fw) (.str hw) (.str cs) (.str sn)
    have : saveFound store a.val (patch6 cs hw fw sn) =
        (Storage.step store (.matchIncoming a.val false (patch6 cs hw fw sn))).1 :=
      save_found_eq h a.val _ hs r hr
    simp only [this]
    obtain ⟨h1, h2, h3, h4⟩ := patch_store h a.val _ hs r hr
    exact ⟨h1, h2, ⟨_, h3, applyPatch_safe_id _ _ hs⟩, h4⟩
  · exact hsame
  · exact hsame
  · have hs := safe_step10 (.int (leInt data 29 33)) (.int (leInt data 33 37))
    obtain ⟨h1, h2, h3, h4⟩ := patch_store h a.val (patch10 data) hs r hr
    exact ⟨h1, h2, ⟨_, h3, applyPatch_safe_id _ _ hs⟩, h4⟩
  · exact hsame
  · exact hsame
  · exact hsame
  · exact hsame

theorem stepN_store {store : Store} (h : Inv store) (cur : Nat) (a : Addr) (data : Bytes) (f : Bool) (r : Rec)
    (hr : store.recOf a.val = some r) :
    Inv (stepN store cur a data f).1 ∧
    (∀ a', a' ≠ a.val → (stepN store cur a data f).1.recOf a' = store.recOf a') ∧
    (∃ r', (stepN store cur a data f).1.recOf a.val = some r' ∧ r'.id = r.id) ∧
    (stepN store cur a data f).1.objs.length = store.objs.length := by
  have hsame : Inv store ∧ (∀ a', a' ≠ a.val → store.recOf a' = store.recOf a') ∧
      (∃ r', store.recOf a.val = some r' ∧ r'.id = r.id) ∧ store.objs.length = store.objs.length :=
    ⟨h, fun _ _ => rfl, ⟨r, hr, rfl⟩, rfl⟩
  unfold stepN
  split
  · exact hsame
  · split
    · exact hsame
    · split
      · exact hsame
      · split
        · exact body_store h _ _ a data f r hr
        · exact hsame

/-- **the storage after `datagram_received`**: the invariant of C20 is kept, the sender's address has
a record (auto-created if needed, with a stable id), every other address keeps its record, and at
most one object is created — exactly when the sender's address was unseen -/
theorem step_store (s : RState) (h : Inv s.store) (a : Addr) (data : Bytes) (f : Bool) :
    Inv (step s a data f).1.store ∧
    (∀ a', a' ≠ a.val → (step s a data f).1.store.recOf a' = s.store.recOf a') ∧
    (∃ r', (step s a data f).1.store.recOf a.val = some r' ∧
      r'.id = ((s.store.recOf a.val).getD (newRec s.store.objs.length a.val)).id) ∧
    (step s a data f).1.store.objs.length =
      s.store.objs.length + (if (s.store.holder a.val).isNone then 1 else 0) := by
  obtain ⟨hinv1, _, hmap, hlen⟩ := matchIncoming_auto_spec h a.val [] (by intro e he; cases he)
  have hst : (Storage.step s.store (.matchIncoming a.val true [])).1 = (s.store.matchIncoming a.val true []).1 := rfl
  have hrec1 : (s.store.matchIncoming a.val true []).1.recOf a.val =
      some ((s.store.recOf a.val).getD (newRec s.store.objs.length a.val)) := by
    have := hmap a.val
    rw [if_pos rfl] at this
    exact this
  have hoth1 : ∀ a', a' ≠ a.val → (s.store.matchIncoming a.val true []).1.recOf a' = s.store.recOf a' := by
    intro a' hne
    have := hmap a'
    rw [if_neg hne] at this
    exact this
  by_cases hsp : (data.length = 1 ∧ stepOf s.steps a.ip ≠ 14) ∨ stepOf s.steps a.ip = 14
  · obtain ⟨_, _, hstore⟩ := step_outs_special s a data f hsp
    rw [hstore, hst]
    exact ⟨hinv1, hoth1, ⟨_, hrec1, rfl⟩, hlen⟩
  · have h1 : ¬ (data.length = 1 ∧ stepOf s.steps a.ip ≠ 14) := fun hh => hsp (Or.inl hh)
    have h14 : stepOf s.steps a.ip ≠ 14 := fun hh => hsp (Or.inr hh)
    obtain ⟨_, hstore⟩ := step_outs_stepN s a data f h1 h14
    rw [hstore, hst]
    obtain ⟨g1, g2, ⟨r', g3, g3'⟩, g4⟩ := stepN_store hinv1 (stepOf s.steps a.ip) a data f _ hrec1
    refine ⟨g1, ?_, ⟨r', g3, g3'⟩, ?_⟩
    · intro a' hne
      rw [g2 a' hne, hoth1 a' hne]
    · rw [g4, hlen]

end Dmr.Rdac
