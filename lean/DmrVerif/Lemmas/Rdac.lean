import DmrVerif.Model.Rdac
import DmrVerif.Lemmas.StorageHolder

/-!
# Lemmas about the RDAC handler model (C18)

* what one `stepK` call can write to the step dictionary (`stepN_write`), when it raises, when it
  calls the completion callback;
* the step of the sending IP after a datagram (`step_stepOf_self`), of every other IP
  (`step_stepOf_other`);
* the storage keeps the invariant of C20 and only the record of the sending address changes.
-/

namespace Dmr.Rdac
open Dmr Dmr.Storage Dmr.P2p

theorem stepOf_dictSet (steps : List (List Nat × Nat)) (ip ip' : List Nat) (n : Nat) :
    stepOf (dictSet steps ip n) ip' = if ip = ip' then n else stepOf steps ip' := by
  simp only [stepOf, dictGet_dictSet]
  split <;> rfl

/-! ## one `stepK` call -/

theorem body_write (store : Store) (cur nxt : Nat) (a : Addr) (data : Bytes) (f : Bool) (n : Nat)
    (h : (body store cur nxt a data f).2.1 = some n) : n = nxt := by
  unfold body at h
  split at h
  · simp only [Option.some.injEq] at h; exact h.symm
  · split at h
    · simp only [Option.some.injEq] at h; exact h.symm
    · cases h
  · split at h
    · cases h
    · simp only [Option.some.injEq] at h; exact h.symm
  · split at h
    · simp only [Option.some.injEq] at h; exact h.symm
    · split at h
      · split at h <;> (simp only [Option.some.injEq] at h; exact h.symm)
      · simp only [Option.some.injEq] at h; exact h.symm
  · simp only [Option.some.injEq] at h; exact h.symm

/-- a `stepK` call writes the step dictionary only as the table says, and only after its response
prefix matched (step 0: unconditionally, value 1) -/
theorem stepN_write (store : Store) (cur : Nat) (a : Addr) (data : Bytes) (f : Bool) (n : Nat)
    (h : (stepN store cur a data f).2.1 = some n) :
    (cur = 0 ∧ n = 1) ∨
    (cur ≠ 0 ∧ cur ≠ 14 ∧ ∃ resp, table cur = some (resp, n) ∧ hasPrefix resp data = true) := by
  unfold stepN at h
  split at h
  · rename_i h0
    simp only [Option.some.injEq] at h
    exact Or.inl ⟨h0, h.symm⟩
  · rename_i h0
    split at h
    · cases h
    · rename_i h14
      split at h
      · cases h
      · rename_i resp nxt ht
        split at h
        · rename_i hp
          have := body_write _ _ _ _ _ _ _ h
          subst this
          exact Or.inr ⟨h0, h14, resp, ht, hp⟩
        · cases h

/-- errors other than the SNMP stub happen before anything is written -/
theorem body_err_write (store : Store) (cur nxt : Nat) (a : Addr) (data : Bytes) (f : Bool) (e : RErr)
    (h : (body store cur nxt a data f).2.2.2 = .err e) :
    ((body store cur nxt a data f).2.1 = Option.none ∧ (body store cur nxt a data f).1 = store ∧
      (body store cur nxt a data f).2.2.1 = [] ∧
      ((cur = 6 ∧ e = .unicodeDecodeError) ∨ (cur = 10 ∧ e = .indexError ∧ data.length ≤ 26))) ∨
    (cur = 13 ∧ (body store cur nxt a data f).2.1 = some nxt ∧ (body store cur nxt a data f).1 = store ∧
      (body store cur nxt a data f).2.2.1 = [] ∧ (e = .snmpError ∨ e = .attributeError)) := by
  unfold body at h ⊢
  split
  · simp at h
  · split
    · simp at h
    · left
      simp only [RRes.err.injEq] at h
      exact ⟨rfl, rfl, rfl, Or.inl ⟨rfl, h.symm⟩⟩
  · split
    · rename_i hl
      left
      simp only [hl, if_true, RRes.err.injEq] at h
      exact ⟨rfl, rfl, rfl, Or.inr ⟨rfl, h.symm, hl⟩⟩
    · rename_i hl
      simp [hl] at h
  · right
    split
    · rename_i hf
      simp only [hf, if_true, RRes.err.injEq] at h
      exact ⟨rfl, rfl, rfl, rfl, Or.inl h.symm⟩
    · rename_i hf
      simp only [hf, if_false] at h
      split
      · split
        · rename_i i hi r hr
          simp [hi, hr] at h
        · rename_i i hi hr
          simp only [hi, hr, RRes.err.injEq] at h
          exact ⟨rfl, rfl, rfl, rfl, Or.inr h.symm⟩
      · rename_i hi
        simp only [hi, RRes.err.injEq] at h
        exact ⟨rfl, rfl, rfl, rfl, Or.inr h.symm⟩
  · simp at h

/-- a callback is made only by the body of step 13 -/
theorem body_callback (store : Store) (cur nxt : Nat) (a : Addr) (data : Bytes) (f : Bool) (id : Val)
    (h : ROut.callback id ∈ (body store cur nxt a data f).2.2.1) :
    cur = 13 ∧ f = false ∧ (body store cur nxt a data f).2.2.1 = [.callback id] ∧
    (body store cur nxt a data f).2.2.2 = .ok ∧ (body store cur nxt a data f).2.1 = some nxt ∧
    ∃ r, store.recOf a.val = some r ∧ r.id = id := by
  have hs : ∀ (l : List Bytes), ROut.callback id ∉ sends l a := by
    intro l hm
    simp only [sends, List.mem_map] at hm
    obtain ⟨d, _, hd⟩ := hm
    cases hd
  unfold body at h ⊢
  split
  · exact absurd h (hs _)
  · split
    · exact absurd h (hs _)
    · simp at h
  · split
    · simp at h
    · rename_i hl
      simp only [hl, if_false] at h
      exact absurd h (hs _)
  · split
    · rename_i hf
      simp [hf] at h
    · rename_i hf
      simp only [hf, if_false] at h
      split
      · split
        · rename_i i hi r hr
          simp only [hi, hr, List.mem_singleton, ROut.callback.injEq] at h
          refine ⟨rfl, by simpa using hf, by rw [h], rfl, rfl, r, ?_, h.symm⟩
          simp only [Store.recOf, Store.holder, hi, Option.bind_some, hr]
        · rename_i i hi hr
          simp [hi, hr] at h
      · rename_i hi
        simp [hi] at h
  · exact absurd h (hs _)

theorem stepN_callback (store : Store) (cur : Nat) (a : Addr) (data : Bytes) (f : Bool) (id : Val)
    (h : ROut.callback id ∈ (stepN store cur a data f).2.2.1) :
    cur = 13 ∧ f = false ∧ (stepN store cur a data f).2.2.1 = [.callback id] ∧
    (stepN store cur a data f).2.2.2 = .ok ∧ (stepN store cur a data f).2.1 = some 14 ∧
    hasPrefix Gen.Proto.rdacStep12Response data = true ∧
    ∃ r, store.recOf a.val = some r ∧ r.id = id := by
  unfold stepN at h ⊢
  split
  · simp only [sends, List.map_cons, List.map_nil, List.mem_singleton] at h
    cases h
  · split
    · simp at h
    · split
      · simp at h
      · rename_i resp nxt ht
        split
        · rename_i hp
          simp only [hp, if_true] at h
          obtain ⟨h13, hf, houts, hres, hw, hr⟩ := body_callback _ _ _ _ _ _ _ h
          subst h13
          simp only [table, Option.some.injEq, Prod.mk.injEq] at ht
          obtain ⟨rfl, rfl⟩ := ht
          exact ⟨rfl, hf, houts, hres, hw, hp, hr⟩
        · rename_i hp
          simp [hp] at h

/-- step 13 with the expected response and a working SNMP call completes: exactly one callback -/
theorem stepN_completes (store : Store) (a : Addr) (data : Bytes) (r : Rec)
    (hp : hasPrefix Gen.Proto.rdacStep12Response data = true) (hr : store.recOf a.val = some r) :
    stepN store 13 a data false = (store, some 14, [.callback r.id], .ok) := by
  simp only [Store.recOf, Store.holder] at hr
  cases hi : store.first (fun r => r.addressIn == a.val) with
  | none => rw [hi] at hr; cases hr
  | some i =>
    rw [hi] at hr
    simp only [Option.bind_some] at hr
    simp [stepN, table, hp, body, hi, hr]

/-! ## the step dictionary after a datagram -/

/-- `steps1` of `datagram_received` still reads as the current step -/
theorem stepOf_steps1 (steps : List (List Nat × Nat)) (ip : List Nat) :
    stepOf (if stepOf steps ip = 0 then dictSet steps ip 0 else steps) ip = stepOf steps ip := by
  split
  · rename_i h0; rw [stepOf_dictSet, if_pos rfl, h0]
  · rfl

theorem stepOf_steps1_other (steps : List (List Nat × Nat)) (ip ip' : List Nat) (h : ip ≠ ip') :
    stepOf (if stepOf steps ip = 0 then dictSet steps ip 0 else steps) ip' = stepOf steps ip' := by
  split
  · rw [stepOf_dictSet, if_neg h]
  · rfl

/-- **isolation**: a datagram from `a` never changes the step of another IP -/
theorem step_stepOf_other (s : RState) (a : Addr) (data : Bytes) (f : Bool) (ip : List Nat) (h : a.ip ≠ ip) :
    stepOf (step s a data f).1.steps ip = stepOf s.steps ip := by
  unfold step
  simp only
  split
  · rw [stepOf_dictSet, if_neg h, stepOf_dictSet, if_neg h, stepOf_steps1_other _ _ _ h]
  · split
    · exact stepOf_steps1_other _ _ _ h
    · split
      · exact stepOf_steps1_other _ _ _ h
      · simp only
        split
        · rw [stepOf_dictSet, if_neg h, stepOf_steps1_other _ _ _ h]
        · exact stepOf_steps1_other _ _ _ h

/-- the step of the sending IP after the datagram -/
theorem step_stepOf_self (s : RState) (a : Addr) (data : Bytes) (f : Bool) :
    stepOf (step s a data f).1.steps a.ip =
      if data.length = 1 ∧ stepOf s.steps a.ip ≠ 14 then 1
      else if stepOf s.steps a.ip = 14 then 14
      else ((stepN (Storage.step s.store (.matchIncoming a.val true [])).1 (stepOf s.steps a.ip) a data f).2.1).getD
        (stepOf s.steps a.ip) := by
  unfold step
  simp only
  split
  · rw [stepOf_dictSet, if_pos rfl]
  · rename_i h1
    split
    · rename_i h2
      rw [stepOf_steps1, if_pos h2.2]; exact h2.2
    · rename_i h2
      split
      · rename_i h3
        rw [stepOf_steps1, if_pos h3.2]; exact h3.2
      · rename_i h3
        have h14 : ¬ stepOf s.steps a.ip = 14 := by
          intro h14
          by_cases hl : data.length = 1
          · exact h3 ⟨hl, h14⟩
          · exact h2 ⟨hl, h14⟩
        rw [if_neg h14]
        simp only
        split
        · rename_i n hn
          rw [stepOf_dictSet, if_pos rfl, hn]; rfl
        · rename_i hn
          rw [stepOf_steps1, hn]; rfl

/-- outputs and outcome of `datagram_received` in the `stepK` branch -/
theorem step_outs_stepN (s : RState) (a : Addr) (data : Bytes) (f : Bool)
    (h1 : ¬ (data.length = 1 ∧ stepOf s.steps a.ip ≠ 14)) (h14 : stepOf s.steps a.ip ≠ 14) :
    (step s a data f).2 =
      ((stepN (Storage.step s.store (.matchIncoming a.val true [])).1 (stepOf s.steps a.ip) a data f).2.2.1,
       (stepN (Storage.step s.store (.matchIncoming a.val true [])).1 (stepOf s.steps a.ip) a data f).2.2.2) ∧
    (step s a data f).1.store =
      (stepN (Storage.step s.store (.matchIncoming a.val true [])).1 (stepOf s.steps a.ip) a data f).1 := by
  unfold step
  simp only
  rw [if_neg h1, if_neg (fun h => h14 h.2), if_neg (fun h => h14 h.2)]
  exact ⟨rfl, rfl⟩

/-- outputs of the three branches that do not call a `stepK` -/
theorem step_outs_special (s : RState) (a : Addr) (data : Bytes) (f : Bool)
    (h : (data.length = 1 ∧ stepOf s.steps a.ip ≠ 14) ∨ stepOf s.steps a.ip = 14) :
    (step s a data f).2.2 = .ok ∧ (∀ id, ROut.callback id ∉ (step s a data f).2.1) ∧
    (step s a data f).1.store = (Storage.step s.store (.matchIncoming a.val true [])).1 := by
  have hs : ∀ (l : List Bytes) id, ROut.callback id ∉ sends l a := by
    intro l id hm
    simp only [sends, List.mem_map] at hm
    obtain ⟨d, _, hd⟩ := hm
    cases hd
  unfold step
  simp only
  split
  · exact ⟨rfl, fun id => hs _ id, rfl⟩
  · rename_i h1
    have h14 : stepOf s.steps a.ip = 14 := by
      rcases h with h | h
      · exact absurd h h1
      · exact h
    split
    · exact ⟨rfl, fun id => by simp, rfl⟩
    · rename_i h2
      have hl : data.length = 1 := by
        apply Classical.byContradiction
        intro hl; exact h2 ⟨hl, h14⟩
      rw [if_pos ⟨hl, h14⟩]
      refine ⟨rfl, fun id => ?_, rfl⟩
      simp only
      split
      · exact hs _ id
      · simp

/-! ## the storage -/

theorem safe_dmr (v : Val) : SafePatch [(Key.field .dmrId, v)] := by
  intro e he
  simp only [List.mem_singleton] at he
  subst he
  exact ⟨by simp, by simp⟩

theorem safe_step6 (a b c d : Val) :
    SafePatch [(Key.ofName Gen.Proto.rdacFirmwareKey, a), (Key.ofName Gen.Proto.rdacHardwareKey, b),
      (Key.ofName Gen.Proto.rdacCallsignKey, c), (Key.ofName Gen.Proto.rdacSerialnoKey, d)] := by
  have h1 : Key.ofName Gen.Proto.rdacFirmwareKey = .dyn "rdac_firmware" := by decide
  have h2 : Key.ofName Gen.Proto.rdacHardwareKey = .dyn "rdac_hardware" := by decide
  have h3 : Key.ofName Gen.Proto.rdacCallsignKey = .field .callsign := by decide
  have h4 : Key.ofName Gen.Proto.rdacSerialnoKey = .field .serial := by decide
  rw [h1, h2, h3, h4]
  intro e he
  simp only [List.mem_cons, List.not_mem_nil, or_false] at he
  rcases he with rfl | rfl | rfl | rfl <;> exact ⟨by simp, by simp⟩

theorem safe_step10 (a b : Val) :
    SafePatch [(Key.ofName Gen.Proto.rdacRxFreqKey, a), (Key.ofName Gen.Proto.rdacTxFreqKey, b)] := by
  have h1 : Key.ofName Gen.Proto.rdacRxFreqKey = .dyn "rx_freq" := by decide
  have h2 : Key.ofName Gen.Proto.rdacTxFreqKey = .dyn "tx_freq" := by decide
  rw [h1, h2]
  intro e he
  simp only [List.mem_cons, List.not_mem_nil, or_false] at he
  rcases he with rfl | rfl <;> exact ⟨by simp, by simp⟩

/-- the storage after a patching `match_incoming(a, patch=p)` on an address that has a record -/
theorem patch_store {store : Store} (h : Inv store) (a : Val) (p : Patch) (hp : SafePatch p) (r : Rec)
    (hr : store.recOf a = some r) :
    Inv (Storage.step store (.matchIncoming a false p)).1 ∧
    (∀ a', a' ≠ a → (Storage.step store (.matchIncoming a false p)).1.recOf a' = store.recOf a') ∧
    (Storage.step store (.matchIncoming a false p)).1.recOf a = some (applyPatch p r) ∧
    (Storage.step store (.matchIncoming a false p)).1.objs.length = store.objs.length := by
  obtain ⟨h1, h2, h3, _⟩ := matchIncoming_patch_spec h a p hp hr
  refine ⟨h1, ?_, ?_, h3⟩
  · intro a' hne
    have := h2 a'
    rw [if_neg hne] at this
    exact this
  · have := h2 a
    rw [if_pos rfl] at this
    exact this

/-- `save(match_incoming(a), p)` is the same patching lookup -/
theorem save_found_eq {store : Store} (h : Inv store) (a : Val) (p : Patch) (hp : SafePatch p) (r : Rec)
    (hr : store.recOf a = some r) :
    (Storage.step store (.save
      (match (Storage.step store (.matchIncoming a false [])).2 with | .obj i => some i | _ => Option.none) p)).1
      = (Storage.step store (.matchIncoming a false p)).1 := by
  obtain ⟨_, _, _, i, hi, heq⟩ := matchIncoming_patch_spec h a p hp hr
  have hlook : (Storage.step store (.matchIncoming a false [])) = (store, Res.ofOption (store.holder a)) :=
    matchIncoming_lookup store a
  rw [hlook, hi]
  simp only [Res.ofOption]
  obtain ⟨r', hr', _⟩ := h.holder_some_iff.mp hi
  have hlt := getElem?_lt_of_some hr'
  simp only [Storage.step, if_pos hlt]
  rw [← heq]

/-- the storage part of a `stepK` body: invariant kept, other addresses untouched, the record of the
sender still there, nothing created -/
theorem body_store {store : Store} (h : Inv store) (cur nxt : Nat) (a : Addr) (data : Bytes) (f : Bool) (r : Rec)
    (hr : store.recOf a.val = some r) :
    Inv (body store cur nxt a data f).1 ∧
    (∀ a', a' ≠ a.val → (body store cur nxt a data f).1.recOf a' = store.recOf a') ∧
    (∃ r', (body store cur nxt a data f).1.recOf a.val = some r' ∧ r'.id = r.id) ∧
    (body store cur nxt a data f).1.objs.length = store.objs.length := by
  have hsame : Inv store ∧ (∀ a', a' ≠ a.val → store.recOf a' = store.recOf a') ∧
      (∃ r', store.recOf a.val = some r' ∧ r'.id = r.id) ∧ store.objs.length = store.objs.length :=
    ⟨h, fun _ _ => rfl, ⟨r, hr, rfl⟩, rfl⟩
  unfold body
  split
  · obtain ⟨h1, h2, h3, h4⟩ := patch_store h a.val _ (safe_dmr (.int (leInt data 18 21))) r hr
    exact ⟨h1, h2, ⟨_, h3, applyPatch_safe_id _ _ (safe_dmr _)⟩, h4⟩
  · split
    · rename_i cs hw fw sn _ _ _ _
      simp only
      rw [save_found_eq h a.val _ (safe_step6 _ _ _ _) r hr]
      obtain ⟨h1, h2, h3, h4⟩ := patch_store h a.val _ (safe_step6 (.str fw) (.str hw) (.str cs) (.str sn)) r hr
      exact ⟨h1, h2, ⟨_, h3, applyPatch_safe_id _ _ (safe_step6 _ _ _ _)⟩, h4⟩
    · exact hsame
  · split
    · exact hsame
    · obtain ⟨h1, h2, h3, h4⟩ := patch_store h a.val _
        (safe_step10 (.int (leInt data 29 33)) (.int (leInt data 33 37))) r hr
      exact ⟨h1, h2, ⟨_, h3, applyPatch_safe_id _ _ (safe_step10 _ _)⟩, h4⟩
  · split
    · exact hsame
    · split
      · split <;> exact hsame
      · exact hsame
  · exact hsame

theorem stepN_store {store : Store} (h : Inv store) (cur : Nat) (a : Addr) (data : Bytes) (f : Bool) (r : Rec)
    (hr : store.recOf a.val = some r) :
    Inv (stepN store cur a data f).1 ∧
    (∀ a', a' ≠ a.val → (stepN store cur a data f).1.recOf a' = store.recOf a') ∧
    (∃ r', (stepN store cur a data f).1.recOf a.val = some r' ∧ r'.id = r.id) ∧
    (stepN store cur a data f).1.objs.length = store.objs.length := by
  have hsame : Inv store ∧ (∀ a', a' ≠ a.val → store.recOf a' = store.recOf a') ∧
      (∃ r', store.recOf a.val = some r' ∧ r'.id = r.id) ∧ store.objs.length = store.objs.length :=
    ⟨h, fun _ _ => rfl, ⟨r, hr, rfl⟩, rfl⟩
  unfold stepN
  split
  · exact hsame
  · split
    · exact hsame
    · split
      · exact hsame
      · split
        · exact body_store h _ _ a data f r hr
        · exact hsame

/-- **the storage after `datagram_received`**: the invariant of C20 is kept, the sender's address has
a record (auto-created if needed, with a stable id), every other address keeps its record, and at
most one object is created — exactly when the sender's address was unseen -/
theorem step_store (s : RState) (h : Inv s.store) (a : Addr) (data : Bytes) (f : Bool) :
    Inv (step s a data f).1.store ∧
    (∀ a', a' ≠ a.val → (step s a data f).1.store.recOf a' = s.store.recOf a') ∧
    (∃ r', (step s a data f).1.store.recOf a.val = some r' ∧
      r'.id = ((s.store.recOf a.val).getD (newRec s.store.objs.length a.val)).id) ∧
    (step s a data f).1.store.objs.length =
      s.store.objs.length + (if (s.store.holder a.val).isNone then 1 else 0) := by
  obtain ⟨hinv1, _, hmap, hlen⟩ := matchIncoming_auto_spec h a.val [] (by intro e he; cases he)
  have hst : (Storage.step s.store (.matchIncoming a.val true [])).1 = (s.store.matchIncoming a.val true []).1 := rfl
  have hrec1 : (s.store.matchIncoming a.val true []).1.recOf a.val =
      some ((s.store.recOf a.val).getD (newRec s.store.objs.length a.val)) := by
    have := hmap a.val
    rw [if_pos rfl] at this
    exact this
  have hoth1 : ∀ a', a' ≠ a.val → (s.store.matchIncoming a.val true []).1.recOf a' = s.store.recOf a' := by
    intro a' hne
    have := hmap a'
    rw [if_neg hne] at this
    exact this
  by_cases hsp : (data.length = 1 ∧ stepOf s.steps a.ip ≠ 14) ∨ stepOf s.steps a.ip = 14
  · obtain ⟨_, _, hstore⟩ := step_outs_special s a data f hsp
    rw [hstore, hst]
    exact ⟨hinv1, hoth1, ⟨_, hrec1, rfl⟩, hlen⟩
  · have h1 : ¬ (data.length = 1 ∧ stepOf s.steps a.ip ≠ 14) := fun hh => hsp (Or.inl hh)
    have h14 : stepOf s.steps a.ip ≠ 14 := fun hh => hsp (Or.inr hh)
    obtain ⟨_, hstore⟩ := step_outs_stepN s a data f h1 h14
    rw [hstore, hst]
    obtain ⟨g1, g2, ⟨r', g3, g3'⟩, g4⟩ := stepN_store hinv1 (stepOf s.steps a.ip) a data f _ hrec1
    refine ⟨g1, ?_, ⟨r', g3, g3'⟩, ?_⟩
    · intro a' hne
      rw [g2 a' hne, hoth1 a' hne]
    · rw [g4, hlen]

end Dmr.Rdac
