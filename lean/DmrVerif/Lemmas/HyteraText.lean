import DmrVerif.Model.Hdap

/-!
Text of a TMP message handed over as a `str` (C12): Python's strict UTF-16-LE codec as a function on
code points, with the facts the property needs — it is a monoid homomorphism (no position of the text
is special, in particular not the first character), U+FEFF / U+FFFE are ordinary characters, the result
consists of whole code units, and it can be decoded again (the octets determine the text).
-/

namespace Dmr.Hytera
open Dmr

/-- a Unicode scalar value: a code point that is not a surrogate -/
def isScalar (c : Nat) : Prop := c < 0xD800 ∨ (0xE000 ≤ c ∧ c < 0x110000)
instance (c : Nat) : Decidable (isScalar c) := by unfold isScalar; infer_instance

/-- octets to little-endian 16-bit code units (`none`: an odd number of octets) -/
def leUnits : Bytes → Option (List Nat)
  | [] => some []
  | [_] => none
  | a :: b :: rest => (leUnits rest).map (fun t => (a + 256 * b) :: t)

/-- UTF-16 decoding of code units; the first argument is the high surrogate waiting for its partner
(`none`: ill-formed — an unpaired surrogate) -/
def utf16Decode : Option Nat → List Nat → Option (List Nat)
  | none, [] => some []
  | some _, [] => none
  | none, u :: rest =>
    if u < 0xD800 ∨ 0xE000 ≤ u then (utf16Decode none rest).map (fun t => u :: t)
    else if u < 0xDC00 then utf16Decode (some u) rest
    else none
  | some h, u :: rest =>
    if 0xDC00 ≤ u ∧ u < 0xE000 then
      (utf16Decode none rest).map (fun t => (0x10000 + (h - 0xD800) * 0x400 + (u - 0xDC00)) :: t)
    else none

/-- strict UTF-16-LE decoding (what the receiver of the message does with the octets) -/
def utf16leDecode (b : Bytes) : Option (List Nat) := (leUnits b).bind (utf16Decode none)

theorem utf16Units_scalar {c : Nat} (h : isScalar c) : ∃ us, utf16Units c = some us := by
  unfold isScalar at h
  unfold utf16Units
  split
  · exact ⟨_, rfl⟩
  · split
    · omega
    · split
      · exact ⟨_, rfl⟩
      · split
        · exact ⟨_, rfl⟩
        · omega

theorem utf16Units_some {c : Nat} {us : List Nat} (h : utf16Units c = some us) :
    (c < 0xD800 ∧ us = [c]) ∨ (0xE000 ≤ c ∧ c < 0x10000 ∧ us = [c])
      ∨ (0x10000 ≤ c ∧ c < 0x110000
          ∧ us = [0xD800 + (c - 0x10000) / 0x400, 0xDC00 + (c - 0x10000) % 0x400]) := by
  unfold utf16Units at h
  split at h
  · left; exact ⟨by assumption, (Option.some.inj h).symm⟩
  · split at h
    · cases h
    · split at h
      · right; left; exact ⟨by omega, by assumption, (Option.some.inj h).symm⟩
      · split at h
        · right; right; exact ⟨by omega, by assumption, (Option.some.inj h).symm⟩
        · cases h

theorem utf16le_cons (c : Nat) (cs : List Nat) :
    utf16le (c :: cs) = (match utf16Units c, utf16le cs with
      | some us, some r => some (us.flatMap unitLe ++ r)
      | _, _ => none) := rfl

/-- every `str` of scalar values can be encoded -/
theorem utf16le_total (cs : List Nat) (h : ∀ c ∈ cs, isScalar c) : ∃ b, utf16le cs = some b := by
  induction cs with
  | nil => exact ⟨[], rfl⟩
  | cons c cs ih =>
    obtain ⟨us, hu⟩ := utf16Units_scalar (h c (by simp))
    obtain ⟨r, hr⟩ := ih (fun x hx => h x (by simp [hx]))
    exact ⟨us.flatMap unitLe ++ r, by rw [utf16le_cons, hu, hr]⟩

/-- the codec is a homomorphism: the encoding of a concatenation is the concatenation of the encodings —
no character is treated differently because of where it stands -/
theorem utf16le_append (a b : List Nat) :
    utf16le (a ++ b) = (match utf16le a, utf16le b with
      | some x, some y => some (x ++ y)
      | _, _ => none) := by
  induction a with
  | nil =>
    rw [List.nil_append]
    cases utf16le b <;> simp [utf16le]
  | cons c a ih =>
    rw [List.cons_append, utf16le_cons, utf16le_cons, ih]
    cases utf16Units c <;> cases utf16le a <;> cases utf16le b <;> simp

/-- U+FEFF at the start of a text is a character like any other: its two octets `FF FE` are written
and the rest of the text follows unchanged (and likewise U+FFFE: `FE FF`) -/
theorem utf16le_bom (cs : List Nat) :
    utf16le (0xFEFF :: cs) = (utf16le cs).map (fun r => [0xFF, 0xFE] ++ r)
      ∧ utf16le (0xFFFE :: cs) = (utf16le cs).map (fun r => [0xFE, 0xFF] ++ r) := by
  constructor <;>
  · rw [utf16le_cons]
    cases utf16le cs <;> rfl

/-- whole code units: an even number of octets, two or four per character -/
theorem utf16le_length (cs : List Nat) (b : Bytes) (h : utf16le cs = some b) :
    b.length % 2 = 0 ∧ 2 * cs.length ≤ b.length ∧ b.length ≤ 4 * cs.length := by
  induction cs generalizing b with
  | nil =>
    cases h
    simp
  | cons c cs ih =>
    rw [utf16le_cons] at h
    cases hu : utf16Units c with
    | none => rw [hu] at h; cases h
    | some us =>
      cases hr : utf16le cs with
      | none => rw [hu, hr] at h; cases h
      | some r =>
        rw [hu, hr] at h
        cases h
        obtain ⟨i1, i2, i3⟩ := ih r hr
        rcases utf16Units_some hu with ⟨_, rfl⟩ | ⟨_, _, rfl⟩ | ⟨_, _, rfl⟩ <;>
          simp [unitLe] <;> omega

theorem utf16le_units (cs : List Nat) (b : Bytes) (h : utf16le cs = some b) :
    ∃ us, leUnits b = some us ∧ utf16Decode none us = some cs := by
  induction cs generalizing b with
  | nil =>
    cases h
    exact ⟨[], rfl, rfl⟩
  | cons c cs ih =>
    rw [utf16le_cons] at h
    cases hu : utf16Units c with
    | none => rw [hu] at h; cases h
    | some us =>
      cases hr : utf16le cs with
      | none => rw [hu, hr] at h; cases h
      | some r =>
        rw [hu, hr] at h
        cases h
        obtain ⟨us', h1', h2'⟩ := ih r hr
        rcases utf16Units_some hu with ⟨h1, rfl⟩ | ⟨h1, h2, rfl⟩ | ⟨h1, h2, rfl⟩
        · have e : c % 256 + 256 * (c / 256) = c := by omega
          refine ⟨c :: us', ?_, ?_⟩
          · simp only [List.flatMap_cons, List.flatMap_nil, unitLe, List.append_nil, List.cons_append,
              List.nil_append, leUnits, h1', Option.map_some, e]
          · simp only [utf16Decode, if_pos (Or.inl h1 : c < 0xD800 ∨ 0xE000 ≤ c), h2', Option.map_some]
        · have e : c % 256 + 256 * (c / 256) = c := by omega
          refine ⟨c :: us', ?_, ?_⟩
          · simp only [List.flatMap_cons, List.flatMap_nil, unitLe, List.append_nil, List.cons_append,
              List.nil_append, leUnits, h1', Option.map_some, e]
          · simp only [utf16Decode, if_pos (Or.inr h1 : c < 0xD800 ∨ 0xE000 ≤ c), h2', Option.map_some]
        · have e1 : (0xD800 + (c - 0x10000) / 0x400) % 256 + 256 * ((0xD800 + (c - 0x10000) / 0x400) / 256)
              = 0xD800 + (c - 0x10000) / 0x400 := by omega
          have e2 : (0xDC00 + (c - 0x10000) % 0x400) % 256 + 256 * ((0xDC00 + (c - 0x10000) % 0x400) / 256)
              = 0xDC00 + (c - 0x10000) % 0x400 := by omega
          refine ⟨(0xD800 + (c - 0x10000) / 0x400) :: (0xDC00 + (c - 0x10000) % 0x400) :: us', ?_, ?_⟩
          · simp only [List.flatMap_cons, List.flatMap_nil, unitLe, List.append_nil, List.cons_append,
              List.nil_append, leUnits, h1', Option.map_some, e1, e2]
          · have n1 : ¬ (0xD800 + (c - 0x10000) / 0x400 < 0xD800 ∨ 0xE000 ≤ 0xD800 + (c - 0x10000) / 0x400) := by omega
            have p2 : 0xD800 + (c - 0x10000) / 0x400 < 0xDC00 := by omega
            have p3 : 0xDC00 ≤ 0xDC00 + (c - 0x10000) % 0x400 ∧ 0xDC00 + (c - 0x10000) % 0x400 < 0xE000 := by omega
            have e3 : 0x10000 + (0xD800 + (c - 0x10000) / 0x400 - 0xD800) * 0x400
                + (0xDC00 + (c - 0x10000) % 0x400 - 0xDC00) = c := by omega
            simp only [utf16Decode, if_neg n1, if_pos p2, if_pos p3, h2', Option.map_some, e3]

/-- the octets determine the text: strict decoding of the encoding gives the code points back -/
theorem utf16le_decode (cs : List Nat) (b : Bytes) (h : utf16le cs = some b) :
    utf16leDecode b = some cs := by
  obtain ⟨us, h1, h2⟩ := utf16le_units cs b h
  simp [utf16leDecode, h1, h2]

/-- hence the codec is injective: two texts with the same octets are the same text -/
theorem utf16le_injective (a b : List Nat) (x : Bytes) (ha : utf16le a = some x) (hb : utf16le b = some x) :
    a = b := by
  have := utf16le_decode a x ha
  rw [utf16le_decode b x hb] at this
  exact (Option.some.inj this).symm

end Dmr.Hytera
