import DmrVerif.Lemmas.IntegrityCrc

/-!
C04, selfcheck lemmas (core Lean): a short LC, PI header or confirmed data block built from field
values, serialised and parsed back has its indicator true.
-/

namespace Dmr
namespace Integrity
open Dmr.Crc Dmr.Gen Dmr.Gen.Integrity


/-- field values a short LC can be built from -/
def SlcPayload.WF : SlcPayload → Prop
  | .null => True
  | .activity t1 t2 a1 a2 =>
    t1 < 16 ∧ t2 < 16 ∧ enumOf activityIdGraph t1 = .ok t1 ∧ enumOf activityIdGraph t2 = .ok t2
      ∧ a1.length = 8 ∧ a2.length = 8

theorem slcBody_length (pl : SlcPayload) (h : pl.WF) : (slcBody pl).length = 28 := by
  cases pl with
  | null => simp [slcBody, natToBits_length]
  | activity t1 t2 a1 a2 =>
    obtain ⟨_, _, _, _, h1, h2⟩ := h
    simp [slcBody, natToBits_length, h1, h2]

theorem bitsToNat_zeros (n : Nat) : bitsToNat (zeros n) = 0 := by
  induction n with
  | zero => rfl
  | succ n ih => rw [zeros_succ, bitsToNat_cons, ih]; simp

theorem slcInit_zero (pl : SlcPayload) :
    slcInit pl (zeros 8) = .ok ⟨pl, (feed p8 (slcBody pl)).reverse, true⟩ := by
  unfold slcInit
  have h0 : bitsToNat ((zeros 8).take 8) = 0 := by decide
  simp only [h0, ↓reduceIte, crc8_feed, ofCrc, bind, Except.bind, pure, Except.pure]
  have := natToBits_bitsToNat (feed p8 (slcBody pl))
  rw [feed_length, p8_length] at this
  rw [this]

/-- the constructor's own verdict on a bitarray CRC whose word is valid -/
theorem slcInit_valid (pl : SlcPayload) (h : pl.WF) (crc : Bits) (hc : crc.length = 8)
    (hv : feed p8 (slcBody pl) = crc.reverse) :
    ∃ o, slcInit pl crc = .ok o ∧ o.ok = true ∧ o.enc = slcBody pl ++ crc := by
  have hb := slcBody_length pl h
  have htake : crc.take 8 = crc := List.take_of_length_le (by omega)
  unfold slcInit
  rw [htake]
  by_cases hz : bitsToNat crc = 0
  · simp only [hz, ↓reduceIte, crc8_feed, ofCrc, bind, Except.bind, pure, Except.pure]
    refine ⟨_, rfl, rfl, ?_⟩
    have := natToBits_bitsToNat crc.reverse
    rw [List.length_reverse, hc] at this
    simp only [SlcObj.enc, hv, this, List.reverse_reverse]
  · have henc : (SlcObj.enc ⟨pl, crc, false⟩) = slcBody pl ++ crc := rfl
    have h1 : sl (slcBody pl ++ crc) 0 28 = slcBody pl := by
      rw [sl_append_left _ _ _ _ (by omega), ← hb, sl_self]
    have h2 : sl (slcBody pl ++ crc) 28 36 = crc := by
      rw [sl_append_right _ _ _ _ (by omega), hb]
      have := sl_self crc; rw [hc] at this; exact this
    have hv8 : bitsToNat crc.reverse ≤ 255 := by
      have := bitsToNat_lt crc.reverse; simp [hc] at this; omega
    simp only [hz, ↓reduceIte, henc, h1, h2, bind, Except.bind, pure, Except.pure]
    -- crc8Check on a valid word
    have hck : crc8Check false (slcBody pl) (bitsToNat crc.reverse) = .ok true := by
      unfold crc8Check crc8CheckWith
      rw [if_neg (by omega)]
      have := crc8_feed (slcBody pl)
      unfold Crc.crc8 at this
      rw [this, hv]
      simp [Except.map]
    rw [hck]
    exact ⟨_, rfl, rfl, rfl⟩


theorem slco_graph : enumOf slcosGraph slcoNull = .ok slcoNull ∧ enumOf slcosGraph slcoActivity = .ok slcoActivity
    ∧ slcoNull < 16 ∧ slcoActivity < 16 ∧ slcoActivity ≠ slcoNull :=
  ⟨by rfl, by rfl, by decide, by decide, by decide⟩

theorem bitsToNat_natToBits4 (v : Nat) (h : v < 16) : bitsToNat (natToBits 4 v) = v :=
  bitsToNat_natToBits 4 v (by omega)

theorem slcFields_enc (pl : SlcPayload) (h : pl.WF) (crc : Bits) (hc : crc.length = 8) :
    slcFields (slcBody pl ++ crc) = slcInit pl crc := by
  have hb := slcBody_length pl h
  have h2 : sl (slcBody pl ++ crc) 28 36 = crc := by
    rw [sl_append_right _ _ _ _ (by omega), hb]
    have := sl_self crc; rw [hc] at this; exact this
  unfold slcFields
  cases pl with
  | null =>
    have h0 : sl (slcBody .null ++ crc) 0 4 = natToBits 4 slcoNull := by
      simp only [slcBody, List.append_assoc]
      rw [sl_append_left _ _ _ _ (by simp [natToBits_length])]
      have := sl_self (natToBits 4 slcoNull); rwa [natToBits_length] at this
    rw [h0, bitsToNat_natToBits4 _ slco_graph.2.2.1, slco_graph.1]
    simp only [↓reduceIte, h2]
  | activity t1 t2 a1 a2 =>
    obtain ⟨ht1, ht2, hg1, hg2, ha1, ha2⟩ := h
    have e : slcBody (.activity t1 t2 a1 a2) ++ crc
        = natToBits 4 slcoActivity ++ (natToBits 4 t1 ++ (natToBits 4 t2 ++ (a1 ++ (a2 ++ crc)))) := by
      simp only [slcBody, List.append_assoc]
    have s0 : sl (slcBody (.activity t1 t2 a1 a2) ++ crc) 0 4 = natToBits 4 slcoActivity := by
      rw [e, sl_append_left _ _ _ _ (by simp [natToBits_length])]
      have := sl_self (natToBits 4 slcoActivity); rwa [natToBits_length] at this
    have s1 : sl (slcBody (.activity t1 t2 a1 a2) ++ crc) 4 8 = natToBits 4 t1 := by
      rw [e, sl_append_right _ _ _ _ (by simp [natToBits_length]), natToBits_length,
        sl_append_left _ _ _ _ (by simp [natToBits_length])]
      have := sl_self (natToBits 4 t1); rwa [natToBits_length] at this
    have s2 : sl (slcBody (.activity t1 t2 a1 a2) ++ crc) 8 12 = natToBits 4 t2 := by
      rw [e, sl_append_right _ _ _ _ (by simp [natToBits_length]), natToBits_length,
        sl_append_right _ _ _ _ (by simp [natToBits_length]), natToBits_length,
        sl_append_left _ _ _ _ (by simp [natToBits_length])]
      have := sl_self (natToBits 4 t2); rwa [natToBits_length] at this
    have s3 : sl (slcBody (.activity t1 t2 a1 a2) ++ crc) 12 20 = a1 := by
      rw [e, sl_append_right _ _ _ _ (by simp [natToBits_length]), natToBits_length,
        sl_append_right _ _ _ _ (by simp [natToBits_length]), natToBits_length,
        sl_append_right _ _ _ _ (by simp [natToBits_length]), natToBits_length,
        sl_append_left _ _ _ _ (by simp [ha1])]
      have := sl_self a1; rwa [ha1] at this
    have s4 : sl (slcBody (.activity t1 t2 a1 a2) ++ crc) 20 28 = a2 := by
      rw [e, sl_append_right _ _ _ _ (by simp [natToBits_length]), natToBits_length,
        sl_append_right _ _ _ _ (by simp [natToBits_length]), natToBits_length,
        sl_append_right _ _ _ _ (by simp [natToBits_length]), natToBits_length,
        sl_append_right _ _ _ _ (by simp [ha1]), ha1,
        sl_append_left _ _ _ _ (by simp [ha2])]
      have := sl_self a2; rwa [ha2] at this
    rw [s0, bitsToNat_natToBits4 _ slco_graph.2.2.2.1, slco_graph.2.1]
    simp only [slco_graph.2.2.2.2, ↓reduceIte, s1, s2, s3, s4, h2, bitsToNat_natToBits4 _ ht1,
      bitsToNat_natToBits4 _ ht2, hg1, hg2]

/-- **Short LC selfcheck**: build from fields, serialise, parse back — `crc_ok` is true (both for the
object built and for the object parsed) and the parsed object serialises to the same bits -/
theorem slc_selfcheck_lemma (pl : SlcPayload) (h : pl.WF) :
    ∃ o, slcInit pl (zeros 8) = .ok o ∧ o.ok = true ∧ o.enc.length = 36 ∧
      ∃ q, slcDec o.enc = .ok q ∧ q.ok = true ∧ q.enc = o.enc := by
  have hb := slcBody_length pl h
  refine ⟨_, slcInit_zero pl, rfl, by simp [SlcObj.enc, hb, feed_length, p8_length], ?_⟩
  have hcl : (feed p8 (slcBody pl)).reverse.length = 8 := by simp [feed_length, p8_length]
  have henc : (SlcObj.enc ⟨pl, (feed p8 (slcBody pl)).reverse, true⟩)
      = slcBody pl ++ (feed p8 (slcBody pl)).reverse := rfl
  obtain ⟨o', ho', hok', henc'⟩ := slcInit_valid pl h (feed p8 (slcBody pl)).reverse hcl
    (by rw [List.reverse_reverse])
  have h1 : sl (slcBody pl ++ (feed p8 (slcBody pl)).reverse) 0 28 = slcBody pl := by
    rw [sl_append_left _ _ _ _ (by omega), ← hb, sl_self]
  have h2 : sl (slcBody pl ++ (feed p8 (slcBody pl)).reverse) 28 36 = (feed p8 (slcBody pl)).reverse := by
    rw [sl_append_right _ _ _ _ (by omega), hb]
    have := sl_self (feed p8 (slcBody pl)).reverse; rw [hcl] at this; exact this
  rw [henc]
  unfold slcDec
  rw [if_neg (by simp [hb, hcl]), slcFields_enc pl h _ hcl, ho']
  simp only [h1, h2, List.reverse_reverse]
  by_cases hz : bitsToNat (feed p8 (slcBody pl)).reverse = 0
  · rw [if_neg (by simp [hz])]
    exact ⟨o', rfl, hok', henc'⟩
  · rw [if_pos hz]
    have hv8 : bitsToNat (feed p8 (slcBody pl)) ≤ 255 := by
      have := bitsToNat_lt (feed p8 (slcBody pl)); rw [feed_length, p8_length] at this; omega
    have hck : crc8Check false (slcBody pl) (bitsToNat (feed p8 (slcBody pl))) = .ok true := by
      unfold crc8Check crc8CheckWith
      rw [if_neg (by omega)]
      have := crc8_feed (slcBody pl)
      unfold Crc.crc8 at this
      rw [this]
      simp [Except.map]
    rw [hck]
    exact ⟨_, rfl, rfl, henc'⟩



/-- **PI header selfcheck** -/
theorem pi_selfcheck_lemma (data : Bytes) (hd : data.length = 10) :
    ∃ o, piInit data 0 = .ok o ∧ o.enc.length = 96 ∧ ∃ q, piDec o.enc = .ok q ∧ q.ok = true := by
  unfold piInit
  rw [crc16_feed]
  simp only [ofCrc, bind, Except.bind, pure, Except.pure]
  have hbl : (bytesToBits data).length = 80 := by rw [bytesToBits_length, hd]
  have hfl : (feed p16 (bytesToBits data)).length = 16 := by rw [feed_length, p16_length]
  have hc : Nat.xor (bitsToNat (inv (feed p16 (bytesToBits data)))) maskPiHeader < 2 ^ 16 :=
    Nat.xor_lt_two_pow (by have := bitsToNat_lt (inv (feed p16 (bytesToBits data))); rwa [inv_length, hfl] at this)
      maskPiHeader_lt
  refine ⟨_, rfl, by simp [PiObj.enc, hbl, natToBits_length], ?_⟩
  obtain ⟨q, hq, hok⟩ := piDec_ok (PiObj.enc ⟨data, Nat.xor (bitsToNat (inv (feed p16 (bytesToBits data)))) maskPiHeader,
    Nat.xor (bitsToNat (inv (feed p16 (bytesToBits data)))) maskPiHeader == 0⟩)
    (by simp [PiObj.enc, hbl, natToBits_length])
  refine ⟨q, hq, ?_⟩
  rw [hok, decide_eq_true_iff]
  unfold ccittValid
  simp only [PiObj.enc]
  have h1 : sl (bytesToBits data ++ natToBits 16 (Nat.xor (bitsToNat (inv (feed p16 (bytesToBits data)))) maskPiHeader)) 0 80
      = bytesToBits data := by
    rw [sl_append_left _ _ _ _ (by omega), ← hbl, sl_self]
  have h2 : sl (bytesToBits data ++ natToBits 16 (Nat.xor (bitsToNat (inv (feed p16 (bytesToBits data)))) maskPiHeader)) 80 96
      = natToBits 16 (Nat.xor (bitsToNat (inv (feed p16 (bytesToBits data)))) maskPiHeader) := by
    rw [sl_append_right _ _ _ _ (by omega), hbl]
    have := sl_self (natToBits 16 (Nat.xor (bitsToNat (inv (feed p16 (bytesToBits data)))) maskPiHeader))
    rwa [natToBits_length] at this
  rw [h1, h2]
  have := masked_field_iff (feed p16 (bytesToBits data))
    (natToBits 16 (Nat.xor (bitsToNat (inv (feed p16 (bytesToBits data)))) maskPiHeader)) maskPiHeader
    (by rw [hfl]; exact maskPiHeader_lt) (by rw [hfl, natToBits_length])
  rw [hfl] at this
  exact this.mp (by rw [bitsToNat_natToBits _ _ hc])

/-- the value `rateInit` computes for the CRC-9 -/
def rateCval (c : RateCfg) (dataBits dbsnBits : Bits) (c32 : Nat) : Nat :=
  Nat.xor (bitsToNat (inv (feed p9 (dataBits ++ (if c32 = 0 then [] else natToBits 32 c32) ++ dbsnBits)))) c.mask

theorem rateCval_lt (c : RateCfg) (hm : c.mask < 512) (dataBits dbsnBits : Bits) (c32 : Nat) :
    rateCval c dataBits dbsnBits c32 < 512 := by
  unfold rateCval
  have : (2 : Nat) ^ 9 = 512 := by decide
  rw [← this]
  apply Nat.xor_lt_two_pow
  · have h := bitsToNat_lt (inv (feed p9 (dataBits ++ (if c32 = 0 then [] else natToBits 32 c32) ++ dbsnBits)))
    rwa [inv_length, feed_length, p9_length] at h
  · rw [this]; exact hm

/-- `rateInit` on well-sized inputs never raises; its outcome spelled out -/
theorem rateInit_eq (c : RateCfg) (typeLen : Nat) (dataBits dbsnBits crc9Bits : Bits) (c32 : Nat)
    (k : Nat) (hk : dataBits.length = 8 * k) (ht : typeLen = k)
    (hmem : c.members.contains k = true) (hd : dbsnBits.length = 7) (hc : c32 < 4294967296) :
    rateInit c typeLen dataBits dbsnBits crc9Bits c32
      = .ok ⟨bitsToBytes dataBits, bitsToNat dbsnBits,
          (if bitsToNat crc9Bits.reverse ≤ 0 then rateCval c dataBits dbsnBits c32 else bitsToNat crc9Bits.reverse),
          c32,
          (if bitsToNat crc9Bits.reverse ≤ 0 then rateCval c dataBits dbsnBits c32 else bitsToNat crc9Bits.reverse)
            == rateCval c dataBits dbsnBits c32⟩ := by
  have hlen : (bitsToBytes dataBits).length = k := bitsToBytes_length _ k hk
  have hdb : bitsToNat dbsnBits < 128 := by
    have := bitsToNat_lt dbsnBits; rw [hd] at this; omega
  have hnd := natToBits_bitsToNat dbsnBits
  rw [hd] at hnd
  unfold rateInit rateCval
  simp only [hlen, ht, ne_eq, not_true_eq_false, and_false, ↓reduceIte, hmem, Bool.not_true,
    Bool.false_eq_true, crc9_int_feed _ _ _ _ hdb hc, ofCrc, bytesToBits_bitsToBytes _ k hk, hnd]


theorem ite_self_beq (n m : Nat) : ((if n ≤ 0 then m else n) == m) = true ↔ (n = 0 ∨ n = m) := by
  by_cases h : n ≤ 0
  · simp [h]; omega
  · simp [h]; omega

/-- **Confirmed block selfcheck**: build from values (no CRC-9 given), serialise, parse back -/
theorem rate_selfcheck_lemma (c : RateCfg) (k kl : Nat) (hc : RateOk c k kl) (last : Bool) (data : Bytes)
    (hdl : data.length = (if last then kl else k)) (dbsn c32 : Nat) (hdb : dbsn < 128)
    (h32 : c32 < 4294967296) (hnl : last = false → c32 = 0) :
    ∃ o, rateInit c (if last then kl else k) (bytesToBits data) (natToBits 7 dbsn) (zeros 9) c32 = .ok o
      ∧ o.ok = true ∧ (o.enc last).length = c.total
      ∧ ∃ q, rateDec c last (o.enc last) = .ok q ∧ q.ok = true := by
  have hCl : (bytesToBits data).length = 8 * (if last then kl else k) := by
    rw [bytesToBits_length, hdl]
  have hmem : c.members.contains (if last then kl else k) = true := by
    cases last
    · exact hc.mem1
    · exact hc.mem3
  have hz9 : bitsToNat (zeros 9).reverse = 0 := by decide
  have hdbsn : bitsToNat (natToBits 7 dbsn) = dbsn := bitsToNat_natToBits 7 dbsn (by omega)
  have hbb : bytesToBits (bitsToBytes (bytesToBits data)) = bytesToBits data :=
    bytesToBits_bitsToBytes _ _ hCl
  rw [rateInit_eq c _ (bytesToBits data) (natToBits 7 dbsn) (zeros 9) c32 _ hCl rfl hmem
    (natToBits_length _ _) h32]
  simp only [hz9, Nat.le_refl, ↓reduceIte, beq_self_eq_true]
  generalize hcv : rateCval c (bytesToBits data) (natToBits 7 dbsn) c32 = cv
  have hcvlt : cv < 512 := by rw [← hcv]; exact rateCval_lt c hc.mask _ _ _
  have h9l : (natToBits 9 cv).reverse.length = 9 := by simp [natToBits_length]
  have ht := hc.total
  have htl := hc.totalL
  refine ⟨_, rfl, rfl, ?_, ?_⟩
  · simp only [RateObj.enc, hdbsn, hbb]
    cases last
    · simp [natToBits_length, hCl]; omega
    · simp [natToBits_length, hCl]; omega
  · simp only [RateObj.enc, hdbsn, hbb]
    -- the serialised word, right-nested
    have e : natToBits 7 dbsn ++ (natToBits 9 cv).reverse ++ bytesToBits data
          ++ (if last = true then natToBits 32 c32 else [])
        = natToBits 7 dbsn ++ ((natToBits 9 cv).reverse ++ (bytesToBits data
          ++ (if last = true then natToBits 32 c32 else []))) := by
      simp only [List.append_assoc]
    rw [e]
    generalize hw : natToBits 7 dbsn ++ ((natToBits 9 cv).reverse ++ (bytesToBits data
          ++ (if last = true then natToBits 32 c32 else []))) = w
    have hwl : w.length = c.total := by
      rw [← hw]; cases last
      · simp [natToBits_length, hCl]; omega
      · simp [natToBits_length, hCl]; omega
    have s0 : sl w 0 7 = natToBits 7 dbsn := by
      rw [← hw, sl_append_left _ _ _ _ (by simp [natToBits_length])]
      have := sl_self (natToBits 7 dbsn); rwa [natToBits_length] at this
    have s1 : sl w 7 16 = (natToBits 9 cv).reverse := by
      rw [← hw, sl_append_right _ _ _ _ (by simp [natToBits_length]), natToBits_length,
        sl_append_left _ _ _ _ (by simp [natToBits_length])]
      have := sl_self (natToBits 9 cv).reverse; rwa [h9l] at this
    have hcrc : bitsToNat ((natToBits 9 cv).reverse).reverse = cv := by
      rw [List.reverse_reverse, bitsToNat_natToBits 9 cv (by omega)]
    unfold rateDec
    rw [if_neg (by omega)]
    cases last with
    | false =>
      have hc0 : c32 = 0 := hnl rfl
      subst hc0
      simp only [Bool.false_eq_true, ↓reduceIte, List.append_nil] at hw hCl hmem hcv ⊢
      have s2 : sl w 16 c.total = bytesToBits data := by
        rw [← hw, sl_append_right _ _ _ _ (by simp [natToBits_length]), natToBits_length,
          sl_append_right _ _ _ _ (by simp [natToBits_length]), h9l]
        have := sl_self (bytesToBits data)
        rw [hCl] at this
        rw [show c.total - 7 - 9 = 8 * k by omega]; exact this
      rw [s0, s1, s2, rateInit_eq c _ (bytesToBits data) (natToBits 7 dbsn) _ 0 k hCl hc.len1 hc.mem1
        (natToBits_length _ _) (by omega), hcrc, hcv]
      refine ⟨_, rfl, ?_⟩
      show ((if cv ≤ 0 then cv else cv) == cv) = true
      rw [ite_self_beq]; exact Or.inr rfl
    | true =>
      simp only [↓reduceIte] at hw hCl hmem hcv ⊢
      have s2 : sl w 16 (c.total - 32) = bytesToBits data := by
        rw [← hw, sl_append_right _ _ _ _ (by simp [natToBits_length]), natToBits_length,
          sl_append_right _ _ _ _ (by simp [natToBits_length]), h9l,
          sl_append_left _ _ _ _ (by rw [hCl]; omega)]
        have := sl_self (bytesToBits data)
        rw [hCl] at this
        rw [show c.total - 32 - 7 - 9 = 8 * kl by omega]; exact this
      have s3 : sl w (c.total - 32) c.total = natToBits 32 c32 := by
        rw [← hw, sl_append_right _ _ _ _ (by simp [natToBits_length]; omega), natToBits_length,
          sl_append_right _ _ _ _ (by simp [natToBits_length]; omega), h9l,
          sl_append_right _ _ _ _ (by rw [hCl]; omega), hCl]
        have := sl_self (natToBits 32 c32)
        rw [natToBits_length] at this
        rw [show c.total - 32 - 7 - 9 - 8 * kl = 0 by omega, show c.total - 7 - 9 - 8 * kl = 32 by omega]
        exact this
      rw [s0, s1, s2, s3, bitsToNat_natToBits 32 c32 (by omega),
        rateInit_eq c _ (bytesToBits data) (natToBits 7 dbsn) _ c32 kl hCl hc.len3 hc.mem3
        (natToBits_length _ _) h32, hcrc, hcv]
      refine ⟨_, rfl, ?_⟩
      show ((if cv ≤ 0 then cv else cv) == cv) = true
      rw [ite_self_beq]; exact Or.inr rfl

end Integrity
end Dmr
