import DmrVerif.Lemmas.HyteraBytes
import DmrVerif.Lemmas.HyteraSpec

/-! RCP (radio control protocol, little endian): serialise-then-parse for the 17 implemented
opcodes (C12).  Core Lean only. -/

set_option linter.unusedSimpArgs false

namespace Dmr.Hytera
open Dmr Dmr.Gen.Hytera

/-- the opcode octets of a known opcode are read back as that opcode -/
theorem rcp_opcode_known {v : Nat} (hv : v ∈ rcpValues) :
    enumFold rcpValues rcpMissing (v % 65536) = v := by
  have hlt : v < 65536 := by
    revert v
    decide
  rw [Nat.mod_eq_of_lt hlt]
  exact enumFold_mem hv

theorem rcp_first (rel : Bool) : reliableAndService (svcRCP ||| (if rel then 0x80 else 0)) = .ok (rel, some svcRCP) :=
  reliableAndService_first rel (by decide)

/-- the bytes `as_bytes` produces for an RCP body with payload `P` -/
theorem rcp_bytes (rel : Bool) (b : RcpBody) (P : Bytes) {o1 o2 : Nat} (hP : b.payload = .ok P)
    (hfit : P.length < 65536) (hop : b.opcodeBytes = [o1, o2]) :
    ∃ f x y ck, Rcp.frame ⟨rel, b⟩ = .ok f ∧ f.payload = P ∧ f.opcode = [o1, o2] ∧ f.service = svcRCP
      ∧ f.little = true ∧ f.reliable = rel ∧ ofLe [x, y] = P.length
      ∧ f.asBytes = (svcRCP ||| (if rel then 0x80 else 0)) :: o1 :: o2 :: x :: y :: (P ++ [ck, 3]) := by
  have hfr : Rcp.frame ⟨rel, b⟩ = .ok ⟨svcRCP, rel, [o1, o2], true, P⟩ := by
    simp [Rcp.frame, hP, hop, bind, Except.bind, pure, Except.pure]
  obtain ⟨x, y, hxy, hb⟩ := frame_cons ⟨svcRCP, rel, [o1, o2], true, P⟩ rfl
  refine ⟨_, x, y, _, hfr, rfl, rfl, rfl, rfl, rfl, ?_, hb⟩
  have := ofLe_le2 hfit
  simp only [len16, if_true] at hxy
  rw [← hxy]; exact this

/-- common tactic state: parse `first :: lo :: hi :: x :: y :: (P ++ [ck, 3])` for a known opcode -/
macro "rcp_fixed" : tactic => `(tactic|
  simp [Rcp.fromBytes, reliableAndServiceB, sl, idx, rcp_first, rcp_opcode_known, le2, le4, ofLe2', ofLe4',
    enumOf_mem, bind, Except.bind, pure, Except.pure, idOf,
    rcpUnknownService, rcpCallRequest, rcpCallReply, rcpBroadcastStatusConfigurationRequest,
    rcpBroadcastStatusConfigurationReply, rcpSendTalkerAliasRequest, rcpSendTalkerAliasReply,
    rcpRepeaterBroadcastTransmitStatus, rcpZoneAndChannelOperationRequest, rcpZoneAndChannelOperationReply,
    rcpRadioIDAndRadioIPQueryRequest, rcpRadioIDAndRadioIPQueryReply, rcpStatusChangeNotificationRequest,
    rcpStatusChangeNotificationReply, rcpRadioStatusReport, rcpBroadcastMessageConfigurationRequest,
    rcpBroadcastMessageConfigurationReply, svcRCP, throw, throwThe, MonadExceptOf.throw])

theorem mem16 : (∀ v ∈ rptModeValues, v < 65536) ∧ (∀ v ∈ rptStatusValues, v < 65536)
    ∧ (∀ v ∈ rptServiceValues, v < 65536) ∧ (∀ v ∈ rcpCallTypeValues, v < 65536) := by decide

theorem rcp_parse_callRequest (rel : Bool) (ct t : Nat) (x y ck : Nat) (h1 : ct ∈ rcpCallTypeValues) (h2 : t < 4294967296) :
    Rcp.fromBytes ((svcRCP ||| (if rel then 0x80 else 0)) :: (rcpCallRequest % 256) :: (rcpCallRequest / 256 % 256)
      :: x :: y :: (([ct] ++ le4 t) ++ [ck, 3])) = .ok ⟨rel, .callRequest ct t⟩ := by
  have e := rcp_opcode_known (v := rcpCallRequest) (by decide)
  have r := rcp_first rel
  simp only [svcRCP] at r
  have m := Nat.mod_eq_of_lt h2
  have c := enumOf_mem h1
  simp [Rcp.fromBytes, reliableAndServiceB, sl, idx, r, e, le2, le4, ofLe2', ofLe4', bind, Except.bind, pure, Except.pure,
    idOf, svcRCP, show ¬ rcpCallRequest = rcpUnknownService by decide, m, c]

theorem rcp_parse_callReply (rel : Bool) (r : Nat) (x y ck : Nat) (h1 : r ∈ rcpResultValues) :
    Rcp.fromBytes ((svcRCP ||| (if rel then 0x80 else 0)) :: (rcpCallReply % 256) :: (rcpCallReply / 256 % 256)
      :: x :: y :: (([r]) ++ [ck, 3])) = .ok ⟨rel, .callReply r⟩ := by
  have e := rcp_opcode_known (v := rcpCallReply) (by decide)
  have r := rcp_first rel
  simp only [svcRCP] at r
  have c := enumOf_mem h1
  simp [Rcp.fromBytes, reliableAndServiceB, sl, idx, r, e, le2, le4, ofLe2', ofLe4', bind, Except.bind, pure, Except.pure,
    idOf, svcRCP, show ¬ rcpCallReply = rcpUnknownService by decide, show ¬ rcpCallReply = rcpCallRequest by decide, c]

theorem rcp_parse_rptBroadcastTx (rel : Bool) (m st sv ct t s : Nat) (x y ck : Nat) (h1 : m ∈ rptModeValues) (h2 : st ∈ rptStatusValues) (h3 : sv ∈ rptServiceValues) (h4 : ct ∈ rcpCallTypeValues) (h5 : t < 4294967296) (h6 : s < 4294967296) :
    Rcp.fromBytes ((svcRCP ||| (if rel then 0x80 else 0)) :: (rcpRepeaterBroadcastTransmitStatus % 256) :: (rcpRepeaterBroadcastTransmitStatus / 256 % 256)
      :: x :: y :: ((le2 m ++ le2 st ++ le2 sv ++ le2 ct ++ le4 t ++ le4 s) ++ [ck, 3])) = .ok ⟨rel, .rptBroadcastTx m st sv ct t s⟩ := by
  have e := rcp_opcode_known (v := rcpRepeaterBroadcastTransmitStatus) (by decide)
  have r := rcp_first rel
  simp only [svcRCP] at r
  have m1 := Nat.mod_eq_of_lt (mem16.1 m h1)
  have m2 := Nat.mod_eq_of_lt (mem16.2.1 st h2)
  have m3 := Nat.mod_eq_of_lt (mem16.2.2.1 sv h3)
  have m4 := Nat.mod_eq_of_lt (mem16.2.2.2 ct h4)
  have m5 := Nat.mod_eq_of_lt h5
  have m6 := Nat.mod_eq_of_lt h6
  have c1 := enumOf_mem h1
  have c2 := enumOf_mem h2
  have c3 := enumOf_mem h3
  have c4 := enumOf_mem h4
  simp [Rcp.fromBytes, reliableAndServiceB, sl, idx, r, e, le2, le4, ofLe2', ofLe4', bind, Except.bind, pure, Except.pure,
    idOf, svcRCP, show ¬ rcpRepeaterBroadcastTransmitStatus = rcpUnknownService by decide, show ¬ rcpRepeaterBroadcastTransmitStatus = rcpCallRequest by decide, show ¬ rcpRepeaterBroadcastTransmitStatus = rcpCallReply by decide, m1, m2, m3, m4, m5, m6, c1, c2, c3, c4]

theorem rcp_parse_bcastMsgCfgReq (rel : Bool) (bt : Nat) (x y ck : Nat)  :
    Rcp.fromBytes ((svcRCP ||| (if rel then 0x80 else 0)) :: (rcpBroadcastMessageConfigurationRequest % 256) :: (rcpBroadcastMessageConfigurationRequest / 256 % 256)
      :: x :: y :: (([bt, 0, 0, 0, 0, 0, 0, 0]) ++ [ck, 3])) = .ok ⟨rel, .bcastMsgCfgReq bt⟩ := by
  have e := rcp_opcode_known (v := rcpBroadcastMessageConfigurationRequest) (by decide)
  have r := rcp_first rel
  simp only [svcRCP] at r
  simp [Rcp.fromBytes, reliableAndServiceB, sl, idx, r, e, le2, le4, ofLe2', ofLe4', bind, Except.bind, pure, Except.pure,
    idOf, svcRCP, show ¬ rcpBroadcastMessageConfigurationRequest = rcpUnknownService by decide, show ¬ rcpBroadcastMessageConfigurationRequest = rcpCallRequest by decide, show ¬ rcpBroadcastMessageConfigurationRequest = rcpCallReply by decide, show ¬ rcpBroadcastMessageConfigurationRequest = rcpRepeaterBroadcastTransmitStatus by decide]

theorem rcp_parse_bcastMsgCfgReply (rel : Bool) (r : Nat) (x y ck : Nat) (h1 : r ∈ rcpResultValues) :
    Rcp.fromBytes ((svcRCP ||| (if rel then 0x80 else 0)) :: (rcpBroadcastMessageConfigurationReply % 256) :: (rcpBroadcastMessageConfigurationReply / 256 % 256)
      :: x :: y :: (([r]) ++ [ck, 3])) = .ok ⟨rel, .bcastMsgCfgReply r⟩ := by
  have e := rcp_opcode_known (v := rcpBroadcastMessageConfigurationReply) (by decide)
  have r := rcp_first rel
  simp only [svcRCP] at r
  have c := enumOf_mem h1
  simp [Rcp.fromBytes, reliableAndServiceB, sl, idx, r, e, le2, le4, ofLe2', ofLe4', bind, Except.bind, pure, Except.pure,
    idOf, svcRCP, show ¬ rcpBroadcastMessageConfigurationReply = rcpUnknownService by decide, show ¬ rcpBroadcastMessageConfigurationReply = rcpCallRequest by decide, show ¬ rcpBroadcastMessageConfigurationReply = rcpCallReply by decide, show ¬ rcpBroadcastMessageConfigurationReply = rcpRepeaterBroadcastTransmitStatus by decide, show ¬ rcpBroadcastMessageConfigurationReply = rcpBroadcastMessageConfigurationRequest by decide, c]

theorem rcp_parse_idIpQueryReq (rel : Bool) (t : Nat) (x y ck : Nat) (h1 : t ∈ rcpIdTargetValues) :
    Rcp.fromBytes ((svcRCP ||| (if rel then 0x80 else 0)) :: (rcpRadioIDAndRadioIPQueryRequest % 256) :: (rcpRadioIDAndRadioIPQueryRequest / 256 % 256)
      :: x :: y :: (([t]) ++ [ck, 3])) = .ok ⟨rel, .idIpQueryReq t⟩ := by
  have e := rcp_opcode_known (v := rcpRadioIDAndRadioIPQueryRequest) (by decide)
  have r := rcp_first rel
  simp only [svcRCP] at r
  have c := enumOf_mem h1
  simp [Rcp.fromBytes, reliableAndServiceB, sl, idx, r, e, le2, le4, ofLe2', ofLe4', bind, Except.bind, pure, Except.pure,
    idOf, svcRCP, show ¬ rcpRadioIDAndRadioIPQueryRequest = rcpUnknownService by decide, show ¬ rcpRadioIDAndRadioIPQueryRequest = rcpCallRequest by decide, show ¬ rcpRadioIDAndRadioIPQueryRequest = rcpCallReply by decide, show ¬ rcpRadioIDAndRadioIPQueryRequest = rcpRepeaterBroadcastTransmitStatus by decide, show ¬ rcpRadioIDAndRadioIPQueryRequest = rcpBroadcastMessageConfigurationRequest by decide, show ¬ rcpRadioIDAndRadioIPQueryRequest = rcpBroadcastMessageConfigurationReply by decide, c]

theorem rcp_parse_idIpQueryReply (rel : Bool) (r t a b c d : Nat) (x y ck : Nat) (h1 : r ∈ rcpResultValues) (h2 : t ∈ rcpIdTargetValues) :
    Rcp.fromBytes ((svcRCP ||| (if rel then 0x80 else 0)) :: (rcpRadioIDAndRadioIPQueryReply % 256) :: (rcpRadioIDAndRadioIPQueryReply / 256 % 256)
      :: x :: y :: (([r, t] ++ [a, b, c, d]) ++ [ck, 3])) = .ok ⟨rel, .idIpQueryReply r t [a, b, c, d]⟩ := by
  have e := rcp_opcode_known (v := rcpRadioIDAndRadioIPQueryReply) (by decide)
  have r := rcp_first rel
  simp only [svcRCP] at r
  have c1 := enumOf_mem h1
  have c2 := enumOf_mem h2
  simp [Rcp.fromBytes, reliableAndServiceB, sl, idx, r, e, le2, le4, ofLe2', ofLe4', bind, Except.bind, pure, Except.pure,
    idOf, svcRCP, show ¬ rcpRadioIDAndRadioIPQueryReply = rcpUnknownService by decide, show ¬ rcpRadioIDAndRadioIPQueryReply = rcpCallRequest by decide, show ¬ rcpRadioIDAndRadioIPQueryReply = rcpCallReply by decide, show ¬ rcpRadioIDAndRadioIPQueryReply = rcpRepeaterBroadcastTransmitStatus by decide, show ¬ rcpRadioIDAndRadioIPQueryReply = rcpBroadcastMessageConfigurationRequest by decide, show ¬ rcpRadioIDAndRadioIPQueryReply = rcpBroadcastMessageConfigurationReply by decide, show ¬ rcpRadioIDAndRadioIPQueryReply = rcpRadioIDAndRadioIPQueryRequest by decide, c1, c2]

theorem rcp_parse_bcastStatusCfgReply (rel : Bool) (r : Nat) (x y ck : Nat) (h1 : r ∈ rcpResultValues) :
    Rcp.fromBytes ((svcRCP ||| (if rel then 0x80 else 0)) :: (rcpBroadcastStatusConfigurationReply % 256) :: (rcpBroadcastStatusConfigurationReply / 256 % 256)
      :: x :: y :: (([r]) ++ [ck, 3])) = .ok ⟨rel, .bcastStatusCfgReply r⟩ := by
  have e := rcp_opcode_known (v := rcpBroadcastStatusConfigurationReply) (by decide)
  have r := rcp_first rel
  simp only [svcRCP] at r
  have c := enumOf_mem h1
  simp [Rcp.fromBytes, reliableAndServiceB, sl, idx, r, e, le2, le4, ofLe2', ofLe4', bind, Except.bind, pure, Except.pure,
    idOf, svcRCP, show ¬ rcpBroadcastStatusConfigurationReply = rcpUnknownService by decide, show ¬ rcpBroadcastStatusConfigurationReply = rcpCallRequest by decide, show ¬ rcpBroadcastStatusConfigurationReply = rcpCallReply by decide, show ¬ rcpBroadcastStatusConfigurationReply = rcpRepeaterBroadcastTransmitStatus by decide, show ¬ rcpBroadcastStatusConfigurationReply = rcpBroadcastMessageConfigurationRequest by decide, show ¬ rcpBroadcastStatusConfigurationReply = rcpBroadcastMessageConfigurationReply by decide, show ¬ rcpBroadcastStatusConfigurationReply = rcpRadioIDAndRadioIPQueryRequest by decide, show ¬ rcpBroadcastStatusConfigurationReply = rcpRadioIDAndRadioIPQueryReply by decide, show ¬ rcpBroadcastStatusConfigurationReply = rcpBroadcastStatusConfigurationRequest by decide, c]

theorem rcp_parse_talkerAliasReply (rel : Bool) (r ct s t : Nat) (x y ck : Nat) (h1 : r ∈ rcpResultValues) (h2 : ct ∈ rcpCallTypeValues) (h3 : s < 4294967296) (h4 : t < 4294967296) :
    Rcp.fromBytes ((svcRCP ||| (if rel then 0x80 else 0)) :: (rcpSendTalkerAliasReply % 256) :: (rcpSendTalkerAliasReply / 256 % 256)
      :: x :: y :: (([r, ct] ++ le4 s ++ le4 t) ++ [ck, 3])) = .ok ⟨rel, .talkerAliasReply r ct s t⟩ := by
  have e := rcp_opcode_known (v := rcpSendTalkerAliasReply) (by decide)
  have r := rcp_first rel
  simp only [svcRCP] at r
  have c1 := enumOf_mem h1
  have c2 := enumOf_mem h2
  have m3 := Nat.mod_eq_of_lt h3
  have m4 := Nat.mod_eq_of_lt h4
  simp [Rcp.fromBytes, reliableAndServiceB, sl, idx, r, e, le2, le4, ofLe2', ofLe4', bind, Except.bind, pure, Except.pure,
    idOf, svcRCP, show ¬ rcpSendTalkerAliasReply = rcpUnknownService by decide, show ¬ rcpSendTalkerAliasReply = rcpCallRequest by decide, show ¬ rcpSendTalkerAliasReply = rcpCallReply by decide, show ¬ rcpSendTalkerAliasReply = rcpRepeaterBroadcastTransmitStatus by decide, show ¬ rcpSendTalkerAliasReply = rcpBroadcastMessageConfigurationRequest by decide, show ¬ rcpSendTalkerAliasReply = rcpBroadcastMessageConfigurationReply by decide, show ¬ rcpSendTalkerAliasReply = rcpRadioIDAndRadioIPQueryRequest by decide, show ¬ rcpSendTalkerAliasReply = rcpRadioIDAndRadioIPQueryReply by decide, show ¬ rcpSendTalkerAliasReply = rcpBroadcastStatusConfigurationRequest by decide, show ¬ rcpSendTalkerAliasReply = rcpBroadcastStatusConfigurationReply by decide, show ¬ rcpSendTalkerAliasReply = rcpSendTalkerAliasRequest by decide, c1, c2, m3, m4]

theorem rcp_parse_zoneChanReq (rel : Bool) (a b c d e : Nat) (x y ck : Nat)  :
    Rcp.fromBytes ((svcRCP ||| (if rel then 0x80 else 0)) :: (rcpZoneAndChannelOperationRequest % 256) :: (rcpZoneAndChannelOperationRequest / 256 % 256)
      :: x :: y :: (([a, b, c, d, e]) ++ [ck, 3])) = .ok ⟨rel, .zoneChanReq [a, b, c, d, e]⟩ := by
  have e := rcp_opcode_known (v := rcpZoneAndChannelOperationRequest) (by decide)
  have r := rcp_first rel
  simp only [svcRCP] at r
  simp [Rcp.fromBytes, reliableAndServiceB, sl, idx, r, e, le2, le4, ofLe2', ofLe4', bind, Except.bind, pure, Except.pure,
    idOf, svcRCP, show ¬ rcpZoneAndChannelOperationRequest = rcpUnknownService by decide, show ¬ rcpZoneAndChannelOperationRequest = rcpCallRequest by decide, show ¬ rcpZoneAndChannelOperationRequest = rcpCallReply by decide, show ¬ rcpZoneAndChannelOperationRequest = rcpRepeaterBroadcastTransmitStatus by decide, show ¬ rcpZoneAndChannelOperationRequest = rcpBroadcastMessageConfigurationRequest by decide, show ¬ rcpZoneAndChannelOperationRequest = rcpBroadcastMessageConfigurationReply by decide, show ¬ rcpZoneAndChannelOperationRequest = rcpRadioIDAndRadioIPQueryRequest by decide, show ¬ rcpZoneAndChannelOperationRequest = rcpRadioIDAndRadioIPQueryReply by decide, show ¬ rcpZoneAndChannelOperationRequest = rcpBroadcastStatusConfigurationRequest by decide, show ¬ rcpZoneAndChannelOperationRequest = rcpBroadcastStatusConfigurationReply by decide, show ¬ rcpZoneAndChannelOperationRequest = rcpSendTalkerAliasRequest by decide, show ¬ rcpZoneAndChannelOperationRequest = rcpSendTalkerAliasReply by decide]

theorem rcp_parse_statusNotifyReply (rel : Bool) (r : Nat) (x y ck : Nat) (h1 : r ∈ rcpResultValues) :
    Rcp.fromBytes ((svcRCP ||| (if rel then 0x80 else 0)) :: (rcpStatusChangeNotificationReply % 256) :: (rcpStatusChangeNotificationReply / 256 % 256)
      :: x :: y :: (([r]) ++ [ck, 3])) = .ok ⟨rel, .statusNotifyReply r⟩ := by
  have e := rcp_opcode_known (v := rcpStatusChangeNotificationReply) (by decide)
  have r := rcp_first rel
  simp only [svcRCP] at r
  have c := enumOf_mem h1
  simp [Rcp.fromBytes, reliableAndServiceB, sl, idx, r, e, le2, le4, ofLe2', ofLe4', bind, Except.bind, pure, Except.pure,
    idOf, svcRCP, show ¬ rcpStatusChangeNotificationReply = rcpUnknownService by decide, show ¬ rcpStatusChangeNotificationReply = rcpCallRequest by decide, show ¬ rcpStatusChangeNotificationReply = rcpCallReply by decide, show ¬ rcpStatusChangeNotificationReply = rcpRepeaterBroadcastTransmitStatus by decide, show ¬ rcpStatusChangeNotificationReply = rcpBroadcastMessageConfigurationRequest by decide, show ¬ rcpStatusChangeNotificationReply = rcpBroadcastMessageConfigurationReply by decide, show ¬ rcpStatusChangeNotificationReply = rcpRadioIDAndRadioIPQueryRequest by decide, show ¬ rcpStatusChangeNotificationReply = rcpRadioIDAndRadioIPQueryReply by decide, show ¬ rcpStatusChangeNotificationReply = rcpBroadcastStatusConfigurationRequest by decide, show ¬ rcpStatusChangeNotificationReply = rcpBroadcastStatusConfigurationReply by decide, show ¬ rcpStatusChangeNotificationReply = rcpSendTalkerAliasRequest by decide, show ¬ rcpStatusChangeNotificationReply = rcpSendTalkerAliasReply by decide, show ¬ rcpStatusChangeNotificationReply = rcpZoneAndChannelOperationRequest by decide, show ¬ rcpStatusChangeNotificationReply = rcpZoneAndChannelOperationReply by decide, show ¬ rcpStatusChangeNotificationReply = rcpStatusChangeNotificationRequest by decide, c]

theorem rcp_parse_radioStatusReport (rel : Bool) (t v : Nat) (x y ck : Nat) (h1 : t ∈ scnTargetValues) (h2 : v < 65536) :
    Rcp.fromBytes ((svcRCP ||| (if rel then 0x80 else 0)) :: (rcpRadioStatusReport % 256) :: (rcpRadioStatusReport / 256 % 256)
      :: x :: y :: (([t] ++ le2 v) ++ [ck, 3])) = .ok ⟨rel, .radioStatusReport t v⟩ := by
  have e := rcp_opcode_known (v := rcpRadioStatusReport) (by decide)
  have r := rcp_first rel
  simp only [svcRCP] at r
  have c := enumFold_mem (m := scnTargetMissing) h1
  have m2 := Nat.mod_eq_of_lt h2
  simp [Rcp.fromBytes, reliableAndServiceB, sl, idx, r, e, le2, le4, ofLe2', ofLe4', bind, Except.bind, pure, Except.pure,
    idOf, svcRCP, show ¬ rcpRadioStatusReport = rcpUnknownService by decide, show ¬ rcpRadioStatusReport = rcpCallRequest by decide, show ¬ rcpRadioStatusReport = rcpCallReply by decide, show ¬ rcpRadioStatusReport = rcpRepeaterBroadcastTransmitStatus by decide, show ¬ rcpRadioStatusReport = rcpBroadcastMessageConfigurationRequest by decide, show ¬ rcpRadioStatusReport = rcpBroadcastMessageConfigurationReply by decide, show ¬ rcpRadioStatusReport = rcpRadioIDAndRadioIPQueryRequest by decide, show ¬ rcpRadioStatusReport = rcpRadioIDAndRadioIPQueryReply by decide, show ¬ rcpRadioStatusReport = rcpBroadcastStatusConfigurationRequest by decide, show ¬ rcpRadioStatusReport = rcpBroadcastStatusConfigurationReply by decide, show ¬ rcpRadioStatusReport = rcpSendTalkerAliasRequest by decide, show ¬ rcpRadioStatusReport = rcpSendTalkerAliasReply by decide, show ¬ rcpRadioStatusReport = rcpZoneAndChannelOperationRequest by decide, show ¬ rcpRadioStatusReport = rcpZoneAndChannelOperationReply by decide, show ¬ rcpRadioStatusReport = rcpStatusChangeNotificationRequest by decide, show ¬ rcpRadioStatusReport = rcpStatusChangeNotificationReply by decide, c, m2]

/-! ### opcodes with a variable-length part -/

/-- `data[5:-2]` of a frame is its payload -/
theorem sl_payload (a0 a1 a2 a3 a4 ck : Nat) (P : Bytes) :
    sl (a0 :: a1 :: a2 :: a3 :: a4 :: (P ++ [ck, 3])) 5 ((a0 :: a1 :: a2 :: a3 :: a4 :: (P ++ [ck, 3])).length - 2) = P := by
  have := sl_mid [a0, a1, a2, a3, a4] P [ck, 3]
  simp only [List.cons_append, List.nil_append, List.length_cons, List.length_nil] at this
  have e : (a0 :: a1 :: a2 :: a3 :: a4 :: (P ++ [ck, 3])).length - 2 = 0 + 1 + 1 + 1 + 1 + 1 + P.length := by
    simp; omega
  rw [e]; exact this

theorem rcp_parse_unknown (rel : Bool) (o1 o2 : Nat) (raw : Bytes) (x y ck : Nat)
    (h : enumFold rcpValues rcpMissing (ofLe [o1, o2]) = rcpUnknownService) :
    Rcp.fromBytes ((svcRCP ||| (if rel then 0x80 else 0)) :: o1 :: o2 :: x :: y :: (raw ++ [ck, 3]))
      = .ok ⟨rel, .unknown [o1, o2] raw⟩ := by
  have r := rcp_first rel
  have s13 : sl ((svcRCP ||| (if rel then 0x80 else 0)) :: o1 :: o2 :: x :: y :: (raw ++ [ck, 3])) 1 3 = [o1, o2] := by
    simp [sl]
  have s01 : sl ((svcRCP ||| (if rel then 0x80 else 0)) :: o1 :: o2 :: x :: y :: (raw ++ [ck, 3])) 0 1
      = [svcRCP ||| (if rel then 0x80 else 0)] := by simp [sl]
  simp only [Rcp.fromBytes, s01, s13, reliableAndServiceB, r, h, sl_payload, bind, Except.bind, pure, Except.pure,
    ne_eq, not_true_eq_false, if_false, if_true]

theorem rcp_parse_zoneChanReply (rel : Bool) (raw : Bytes) (x y ck : Nat) :
    Rcp.fromBytes ((svcRCP ||| (if rel then 0x80 else 0)) :: (rcpZoneAndChannelOperationReply % 256)
      :: (rcpZoneAndChannelOperationReply / 256 % 256) :: x :: y :: (raw ++ [ck, 3]))
      = .ok ⟨rel, .zoneChanReply raw⟩ := by
  have e := rcp_opcode_known (v := rcpZoneAndChannelOperationReply) (by decide)
  have r := rcp_first rel
  generalize hD : (svcRCP ||| (if rel then 0x80 else 0)) :: (rcpZoneAndChannelOperationReply % 256)
      :: (rcpZoneAndChannelOperationReply / 256 % 256) :: x :: y :: (raw ++ [ck, 3]) = D
  have s13 : sl D 1 3 = [rcpZoneAndChannelOperationReply % 256, rcpZoneAndChannelOperationReply / 256 % 256] := by
    rw [← hD]; simp [sl]
  have s01 : sl D 0 1 = [svcRCP ||| (if rel then 0x80 else 0)] := by rw [← hD]; simp [sl]
  have sp : sl D 5 (D.length - 2) = raw := by rw [← hD]; exact sl_payload ..
  simp only [Rcp.fromBytes, s01, s13, sp, reliableAndServiceB, r, ofLe2', e, bind, Except.bind, pure, Except.pure,
    ne_eq, not_true_eq_false, if_false, if_true, show ¬ rcpZoneAndChannelOperationReply = rcpUnknownService by decide, show ¬ rcpZoneAndChannelOperationReply = rcpCallRequest by decide, show ¬ rcpZoneAndChannelOperationReply = rcpCallReply by decide, show ¬ rcpZoneAndChannelOperationReply = rcpRepeaterBroadcastTransmitStatus by decide, show ¬ rcpZoneAndChannelOperationReply = rcpBroadcastMessageConfigurationRequest by decide, show ¬ rcpZoneAndChannelOperationReply = rcpBroadcastMessageConfigurationReply by decide, show ¬ rcpZoneAndChannelOperationReply = rcpRadioIDAndRadioIPQueryRequest by decide, show ¬ rcpZoneAndChannelOperationReply = rcpRadioIDAndRadioIPQueryReply by decide, show ¬ rcpZoneAndChannelOperationReply = rcpBroadcastStatusConfigurationRequest by decide, show ¬ rcpZoneAndChannelOperationReply = rcpBroadcastStatusConfigurationReply by decide, show ¬ rcpZoneAndChannelOperationReply = rcpSendTalkerAliasRequest by decide, show ¬ rcpZoneAndChannelOperationReply = rcpSendTalkerAliasReply by decide, show ¬ rcpZoneAndChannelOperationReply = rcpZoneAndChannelOperationRequest by decide]

theorem rcp_parse_bcastStatusCfgReq (rel : Bool) (n : Nat) (rest : Bytes) (x y ck : Nat) (h : rest.length = 2 * n) :
    Rcp.fromBytes ((svcRCP ||| (if rel then 0x80 else 0)) :: (rcpBroadcastStatusConfigurationRequest % 256)
      :: (rcpBroadcastStatusConfigurationRequest / 256 % 256) :: x :: y :: ((n :: rest) ++ [ck, 3]))
      = .ok ⟨rel, .bcastStatusCfgReq (n :: rest)⟩ := by
  have e := rcp_opcode_known (v := rcpBroadcastStatusConfigurationRequest) (by decide)
  have r := rcp_first rel
  generalize hD : (svcRCP ||| (if rel then 0x80 else 0)) :: (rcpBroadcastStatusConfigurationRequest % 256)
      :: (rcpBroadcastStatusConfigurationRequest / 256 % 256) :: x :: y :: ((n :: rest) ++ [ck, 3]) = D
  have s13 : sl D 1 3 = [rcpBroadcastStatusConfigurationRequest % 256, rcpBroadcastStatusConfigurationRequest / 256 % 256] := by
    rw [← hD]; simp [sl]
  have s01 : sl D 0 1 = [svcRCP ||| (if rel then 0x80 else 0)] := by rw [← hD]; simp [sl]
  have i5 : idx D 5 = .ok n := by rw [← hD]; simp [idx, pure, Except.pure]
  have sp : sl D 5 (5 + 1 + n * 2) = n :: rest := by
    rw [← hD]
    have := sl_mid [svcRCP ||| (if rel then 0x80 else 0), rcpBroadcastStatusConfigurationRequest % 256,
      rcpBroadcastStatusConfigurationRequest / 256 % 256, x, y] (n :: rest) [ck, 3]
    simp only [List.cons_append, List.nil_append, List.length_cons, List.length_nil] at this
    have e : 5 + 1 + n * 2 = 0 + 1 + 1 + 1 + 1 + 1 + (rest.length + 1) := by omega
    rw [e]; exact this
  simp only [Rcp.fromBytes, s01, s13, sp, i5, reliableAndServiceB, r, ofLe2', e, bind, Except.bind, pure, Except.pure,
    ne_eq, not_true_eq_false, if_false, if_true, show ¬ rcpBroadcastStatusConfigurationRequest = rcpUnknownService by decide, show ¬ rcpBroadcastStatusConfigurationRequest = rcpCallRequest by decide, show ¬ rcpBroadcastStatusConfigurationRequest = rcpCallReply by decide, show ¬ rcpBroadcastStatusConfigurationRequest = rcpRepeaterBroadcastTransmitStatus by decide, show ¬ rcpBroadcastStatusConfigurationRequest = rcpBroadcastMessageConfigurationRequest by decide, show ¬ rcpBroadcastStatusConfigurationRequest = rcpBroadcastMessageConfigurationReply by decide, show ¬ rcpBroadcastStatusConfigurationRequest = rcpRadioIDAndRadioIPQueryRequest by decide, show ¬ rcpBroadcastStatusConfigurationRequest = rcpRadioIDAndRadioIPQueryReply by decide]

theorem rcp_parse_talkerAliasReq (rel : Bool) (ct s t f : Nat) (a : Bytes) (x y ck : Nat)
    (h1 : ct ∈ rcpCallTypeValues) (h2 : s < 4294967296) (h3 : t < 4294967296) (h4 : f ∈ talkerAliasFormatValues) :
    Rcp.fromBytes ((svcRCP ||| (if rel then 0x80 else 0)) :: (rcpSendTalkerAliasRequest % 256)
      :: (rcpSendTalkerAliasRequest / 256 % 256) :: x :: y :: (([ct] ++ le4 s ++ le4 t ++ [f, a.length] ++ a) ++ [ck, 3]))
      = .ok ⟨rel, .talkerAliasReq ct s t f a⟩ := by
  have e := rcp_opcode_known (v := rcpSendTalkerAliasRequest) (by decide)
  have r := rcp_first rel
  have c1 := enumOf_mem h1
  have c4 := enumOf_mem h4
  have m2 := Nat.mod_eq_of_lt h2
  have m3 := Nat.mod_eq_of_lt h3
  have sa : sl ((svcRCP ||| (if rel then 0x80 else 0)) :: (rcpSendTalkerAliasRequest % 256)
      :: (rcpSendTalkerAliasRequest / 256 % 256) :: x :: y :: ct :: s % 256 :: s / 256 % 256 :: s / 65536 % 256 ::
        s / 16777216 % 256 :: t % 256 :: t / 256 % 256 :: t / 65536 % 256 :: t / 16777216 % 256 :: f :: a.length ::
        (a ++ [ck, 3])) 16 (16 + a.length) = a := by
    have := sl_mid [svcRCP ||| (if rel then 0x80 else 0), rcpSendTalkerAliasRequest % 256,
      rcpSendTalkerAliasRequest / 256 % 256, x, y, ct, s % 256, s / 256 % 256, s / 65536 % 256,
        s / 16777216 % 256, t % 256, t / 256 % 256, t / 65536 % 256, t / 16777216 % 256, f, a.length] a [ck, 3]
    simpa using this
  simp only [svcRCP] at r sa
  simp [Rcp.fromBytes, reliableAndServiceB, sl, idx, r, e, le2, le4, ofLe2', ofLe4', bind, Except.bind, pure, Except.pure,
    idOf, svcRCP, c1, c4, m2, m3, show ¬ rcpSendTalkerAliasRequest = rcpUnknownService by decide, show ¬ rcpSendTalkerAliasRequest = rcpCallRequest by decide, show ¬ rcpSendTalkerAliasRequest = rcpCallReply by decide, show ¬ rcpSendTalkerAliasRequest = rcpRepeaterBroadcastTransmitStatus by decide, show ¬ rcpSendTalkerAliasRequest = rcpBroadcastMessageConfigurationRequest by decide, show ¬ rcpSendTalkerAliasRequest = rcpBroadcastMessageConfigurationReply by decide, show ¬ rcpSendTalkerAliasRequest = rcpRadioIDAndRadioIPQueryRequest by decide, show ¬ rcpSendTalkerAliasRequest = rcpRadioIDAndRadioIPQueryReply by decide, show ¬ rcpSendTalkerAliasRequest = rcpBroadcastStatusConfigurationRequest by decide, show ¬ rcpSendTalkerAliasRequest = rcpBroadcastStatusConfigurationReply by decide]
  simpa [sl] using sa

/-! ### status change notification request: the settings dict -/

theorem settingsBytes_length (st : List (Nat × Nat)) : (settingsBytes st).length = 2 * st.length := by
  induction st with
  | nil => rfl
  | cons e tl ih => obtain ⟨t, s⟩ := e; simp [settingsBytes, ih]; omega

theorem settingsBytes_append (a b : List (Nat × Nat)) :
    settingsBytes (a ++ b) = settingsBytes a ++ settingsBytes b := by
  induction a with
  | nil => rfl
  | cons e tl ih => obtain ⟨t, s⟩ := e; simp [settingsBytes, ih]

theorem dictInsert_new (l : List (Nat × Nat)) (k v : Nat) (h : k ∉ l.map (·.1)) :
    dictInsert l k v = l ++ [(k, v)] := by
  unfold dictInsert
  have : l.any (fun e => e.1 == k) = false := by
    rw [List.any_eq_false]
    intro e he heq
    exact h (by simp only [List.mem_map]; exact ⟨e, he, by simpa using heq⟩)
  simp [this]

theorem idx_append_at (H T : Bytes) (x : Nat) (i : Nat) (hi : i = H.length) : idx (H ++ x :: T) i = .ok x := by
  subst hi; simp [idx, pure, Except.pure]

/-- the parser loop, started after `done`, finishes with the whole list -/
theorem parseSettings_roundtrip (H T : Bytes) (hH : H.length = 6) (todo done : List (Nat × Nat))
    (hwf : ((done ++ todo).map (·.1)).Nodup)
    (hmem : ∀ e ∈ done ++ todo, e.1 ∈ scnTargetValues ∧ e.2 ∈ scnSettingValues) :
    parseSettings (H ++ (settingsBytes (done ++ todo) ++ T)) todo.length (2 * done.length) done
      = .ok (done ++ todo) := by
  induction todo generalizing done with
  | nil => simp [parseSettings, pure, Except.pure]
  | cons e tl ih =>
    obtain ⟨t, s⟩ := e
    have hm := hmem (t, s) (by simp)
    have f1 := enumFold_mem (m := scnTargetMissing) hm.1
    have f2 := enumFold_mem (m := scnSettingMissing) hm.2
    have hnew : t ∉ done.map (·.1) := by
      intro hc
      rw [List.map_append, List.nodup_append] at hwf
      exact hwf.2.2 t hc t (by simp) rfl
    have hbytes : H ++ (settingsBytes (done ++ (t, s) :: tl) ++ T)
        = (H ++ settingsBytes done) ++ t :: ((s :: (settingsBytes tl ++ T))) := by
      simp [settingsBytes_append, settingsBytes]
    have hbytes2 : H ++ (settingsBytes (done ++ (t, s) :: tl) ++ T)
        = (H ++ settingsBytes done ++ [t]) ++ s :: (settingsBytes tl ++ T) := by
      simp [settingsBytes_append, settingsBytes]
    have i1 : idx (H ++ (settingsBytes (done ++ (t, s) :: tl) ++ T)) (6 + 2 * done.length) = .ok t := by
      rw [hbytes]; exact idx_append_at _ _ _ _ (by simp [settingsBytes_length, hH])
    have i2 : idx (H ++ (settingsBytes (done ++ (t, s) :: tl) ++ T)) (7 + 2 * done.length) = .ok s := by
      rw [hbytes2]; exact idx_append_at _ _ _ _ (by simp [settingsBytes_length, hH]; omega)
    have hrec := ih (done ++ [(t, s)]) (by simpa using hwf) (by simpa using hmem)
    simp only [List.append_assoc, List.singleton_append, List.length_append, List.length_cons, List.length_nil] at hrec
    simp only [List.length_cons, parseSettings, i1, i2, f1, f2, dictInsert_new done t s hnew, bind, Except.bind]
    have e2 : 2 * done.length + 2 = 2 * (done.length + (0 + 1)) := by omega
    rw [e2]; exact hrec

theorem rcp_parse_statusNotifyReq (rel : Bool) (st : List (Nat × Nat)) (x y ck : Nat) (h : settingsWF st) :
    Rcp.fromBytes ((svcRCP ||| (if rel then 0x80 else 0)) :: (rcpStatusChangeNotificationRequest % 256)
      :: (rcpStatusChangeNotificationRequest / 256 % 256) :: x :: y :: (([st.length] ++ settingsBytes st) ++ [ck, 3]))
      = .ok ⟨rel, .statusNotifyReq st⟩ := by
  have e := rcp_opcode_known (v := rcpStatusChangeNotificationRequest) (by decide)
  have r := rcp_first rel
  have hp := parseSettings_roundtrip [svcRCP ||| (if rel then 0x80 else 0), rcpStatusChangeNotificationRequest % 256,
    rcpStatusChangeNotificationRequest / 256 % 256, x, y, st.length] [ck, 3] rfl st [] (by simpa using h.1)
    (by simpa using h.2.1)
  simp only [List.nil_append, List.length_nil, Nat.mul_zero, List.cons_append] at hp
  generalize hD : (svcRCP ||| (if rel then 0x80 else 0)) :: (rcpStatusChangeNotificationRequest % 256)
      :: (rcpStatusChangeNotificationRequest / 256 % 256) :: x :: y :: (([st.length] ++ settingsBytes st) ++ [ck, 3]) = D
  have hD' : (svcRCP ||| (if rel then 0x80 else 0)) :: (rcpStatusChangeNotificationRequest % 256)
      :: (rcpStatusChangeNotificationRequest / 256 % 256) :: x :: y :: st.length :: (settingsBytes st ++ [ck, 3]) = D := by
    rw [← hD]; simp
  rw [hD'] at hp
  have s13 : sl D 1 3 = [rcpStatusChangeNotificationRequest % 256, rcpStatusChangeNotificationRequest / 256 % 256] := by
    rw [← hD]; simp [sl]
  have s01 : sl D 0 1 = [svcRCP ||| (if rel then 0x80 else 0)] := by rw [← hD]; simp [sl]
  have i5 : idx D 5 = .ok st.length := by rw [← hD]; simp [idx, pure, Except.pure]
  simp only [Rcp.fromBytes, s01, s13, i5, hp, reliableAndServiceB, r, ofLe2', e, bind, Except.bind, pure, Except.pure,
    ne_eq, not_true_eq_false, if_false, if_true, show ¬ rcpStatusChangeNotificationRequest = rcpUnknownService by decide, show ¬ rcpStatusChangeNotificationRequest = rcpCallRequest by decide, show ¬ rcpStatusChangeNotificationRequest = rcpCallReply by decide, show ¬ rcpStatusChangeNotificationRequest = rcpRepeaterBroadcastTransmitStatus by decide, show ¬ rcpStatusChangeNotificationRequest = rcpBroadcastMessageConfigurationRequest by decide, show ¬ rcpStatusChangeNotificationRequest = rcpBroadcastMessageConfigurationReply by decide, show ¬ rcpStatusChangeNotificationRequest = rcpRadioIDAndRadioIPQueryRequest by decide, show ¬ rcpStatusChangeNotificationRequest = rcpRadioIDAndRadioIPQueryReply by decide, show ¬ rcpStatusChangeNotificationRequest = rcpBroadcastStatusConfigurationRequest by decide, show ¬ rcpStatusChangeNotificationRequest = rcpBroadcastStatusConfigurationReply by decide, show ¬ rcpStatusChangeNotificationRequest = rcpSendTalkerAliasRequest by decide, show ¬ rcpStatusChangeNotificationRequest = rcpSendTalkerAliasReply by decide, show ¬ rcpStatusChangeNotificationRequest = rcpZoneAndChannelOperationRequest by decide, show ¬ rcpStatusChangeNotificationRequest = rcpZoneAndChannelOperationReply by decide]

/-! ### all 17 opcodes -/

/-- a frame with the facts the nesting theorems need, that parses back to `p` -/
def RcpGoal (p : Rcp) : Prop :=
  ∃ f, p.frame = .ok f ∧ f.payload.length < 65536 ∧ f.opcode.length = 2 ∧ f.service = svcRCP ∧ f.little = true
    ∧ f.reliable = p.reliable ∧ Rcp.fromBytes f.asBytes = .ok p

theorem rcp_goal_of (rel : Bool) (b : RcpBody) (P : Bytes) {o1 o2 : Nat} (hP : b.payload = .ok P)
    (hfit : P.length < 65536) (hop : b.opcodeBytes = [o1, o2])
    (hparse : ∀ x y ck, Rcp.fromBytes ((svcRCP ||| (if rel then 0x80 else 0)) :: o1 :: o2 :: x :: y :: (P ++ [ck, 3]))
      = .ok ⟨rel, b⟩) : RcpGoal ⟨rel, b⟩ := by
  obtain ⟨f, x, y, ck, hf, h1, h2, h3, h4, h5, _, h7⟩ := rcp_bytes rel b P hP hfit hop
  exact ⟨f, hf, by rw [h1]; exact hfit, by rw [h2]; rfl, h3, h4, h5, by rw [h7]; exact hparse x y ck⟩

theorem rcp_parse_serialise (p : Rcp) (h : p.WF) : RcpGoal p := by
  obtain ⟨rel, b⟩ := p
  change b.WF at h
  cases b with
  | unknown ro raw =>
    obtain ⟨h1, h2, h3⟩ := h
    match ro, h1 with
    | [o1, o2], _ =>
    exact rcp_goal_of rel _ raw rfl h3 (by simp [RcpBody.opcodeBytes, sl])
      (fun x y ck => rcp_parse_unknown rel o1 o2 raw x y ck h2)
  | callRequest ct t =>
    obtain ⟨h1, _, h3⟩ := h
    exact rcp_goal_of rel _ _ rfl (by simp) rfl (fun x y ck => rcp_parse_callRequest rel ct t x y ck h1 h3)
  | callReply r =>
    exact rcp_goal_of rel _ _ rfl (by simp) rfl (fun x y ck => rcp_parse_callReply rel r x y ck h)
  | rptBroadcastTx m st sv ct t s =>
    obtain ⟨h1, h2, h3, h4, h5, h6⟩ := h
    exact rcp_goal_of rel _ _ rfl (by simp) rfl
      (fun x y ck => rcp_parse_rptBroadcastTx rel m st sv ct t s x y ck h1 h2 h3 h4 h5 h6)
  | bcastMsgCfgReq bt =>
    exact rcp_goal_of rel _ _ rfl (by simp) rfl (fun x y ck => rcp_parse_bcastMsgCfgReq rel bt x y ck)
  | bcastMsgCfgReply r =>
    exact rcp_goal_of rel _ _ rfl (by simp) rfl (fun x y ck => rcp_parse_bcastMsgCfgReply rel r x y ck h)
  | idIpQueryReq t =>
    exact rcp_goal_of rel _ _ rfl (by simp) rfl (fun x y ck => rcp_parse_idIpQueryReq rel t x y ck h)
  | idIpQueryReply r t raw =>
    obtain ⟨h1, h2, h3⟩ := h
    match raw, h3 with
    | [a, b, c, d], _ =>
    exact rcp_goal_of rel _ _ rfl (by simp) rfl (fun x y ck => rcp_parse_idIpQueryReply rel r t a b c d x y ck h1 h2)
  | bcastStatusCfgReq raw =>
    obtain ⟨h1, h2⟩ := h
    match raw, h1 with
    | n :: rest, h1 =>
    exact rcp_goal_of rel _ _ rfl h2 rfl (fun x y ck => rcp_parse_bcastStatusCfgReq rel n rest x y ck h1)
  | bcastStatusCfgReply r =>
    exact rcp_goal_of rel _ _ rfl (by simp) rfl (fun x y ck => rcp_parse_bcastStatusCfgReply rel r x y ck h)
  | talkerAliasReq ct s t f a =>
    obtain ⟨h1, _, h3, h4, h5, h6⟩ := h
    exact rcp_goal_of rel _ _ rfl (by simp; omega) rfl
      (fun x y ck => rcp_parse_talkerAliasReq rel ct s t f a x y ck h1 h3 h4 h5)
  | talkerAliasReply r ct s t =>
    obtain ⟨h1, h2, _, h4, h5⟩ := h
    exact rcp_goal_of rel _ _ rfl (by simp) rfl (fun x y ck => rcp_parse_talkerAliasReply rel r ct s t x y ck h1 h2 h4 h5)
  | zoneChanReq raw =>
    match raw, h with
    | [a, b, c, d, e], _ =>
    exact rcp_goal_of rel _ _ rfl (by simp) rfl (fun x y ck => rcp_parse_zoneChanReq rel a b c d e x y ck)
  | zoneChanReply raw =>
    exact rcp_goal_of rel _ _ rfl h rfl (fun x y ck => rcp_parse_zoneChanReply rel raw x y ck)
  | statusNotifyReq st =>
    exact rcp_goal_of rel _ _ rfl (by have := h.2.2; simp [settingsBytes_length]; omega) rfl
      (fun x y ck => rcp_parse_statusNotifyReq rel st x y ck h)
  | statusNotifyReply r =>
    exact rcp_goal_of rel _ _ rfl (by simp) rfl (fun x y ck => rcp_parse_statusNotifyReply rel r x y ck h)
  | radioStatusReport t v =>
    obtain ⟨h1, h2⟩ := h
    exact rcp_goal_of rel _ _ rfl (by simp) rfl (fun x y ck => rcp_parse_radioStatusReport rel t v x y ck h1 h2)

end Dmr.Hytera
