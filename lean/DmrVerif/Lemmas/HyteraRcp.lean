import DmrVerif.Lemmas.HyteraBytes
import DmrVerif.Lemmas.HyteraSpec

/-! RCP (radio control protocol, little endian): serialise-then-parse for the 17 implemented
opcodes (C12).  Core Lean only. -/

set_option linter.unusedSimpArgs false

namespace Dmr.Hytera
open Dmr Dmr.Gen.Hytera

/-- the opcode octets of a known opcode are read back as that opcode -/
theorem rcp_opcode_known {v : Nat} (hv : v ∈ rcpValues) :
    enumFold rcpValues rcpMissing (v % 65536) = v := by
  have hlt : v < 65536 := by
    revert v
    decide
  rw [Nat.mod_eq_of_lt hlt]
  exact enumFold_mem hv

theorem rcp_first (rel : Bool) : reliableAndService (svcRCP ||| (if rel then 0x80 else 0)) = .ok (rel, some svcRCP) :=
  reliableAndService_first rel (by decide)

/-- the bytes `as_bytes` produces for an RCP body with payload `P` -/
theorem rcp_bytes (rel : Bool) (b : RcpBody) (P : Bytes) {o1 o2 : Nat} (hP : b.payload = .ok P)
    (hfit : P.length < 65536) (hop : b.opcodeBytes = [o1, o2]) :
    ∃ f x y ck, Rcp.frame ⟨rel, b⟩ = .ok f ∧ f.payload = P ∧ f.opcode = [o1, o2] ∧ f.service = svcRCP
      ∧ f.little = true ∧ f.reliable = rel ∧ ofLe [x, y] = P.length
      ∧ f.asBytes = (svcRCP ||| (if rel then 0x80 else 0)) :: o1 :: o2 :: x :: y :: (P ++ [ck, 3]) := by
  have hfr : Rcp.frame ⟨rel, b⟩ = .ok ⟨svcRCP, rel, [o1, o2], true, P⟩ := by
    simp [Rcp.frame, hP, hop, bind, Except.bind, pure, Except.pure]
  obtain ⟨x, y, hxy, hb⟩ := frame_cons ⟨svcRCP, rel, [o1, o2], true, P⟩ rfl
  refine ⟨_, x, y, _, hfr, rfl, rfl, rfl, rfl, rfl, ?_, hb⟩
  have := ofLe_le2 hfit
  simp only [len16, if_true] at hxy
  rw [← hxy]; exact this

/-- common tactic state: parse `first :: lo :: hi :: x :: y :: (P ++ [ck, 3])` for a known opcode -/
macro "rcp_fixed" : tactic => `(tactic|
  simp [Rcp.fromBytes, reliableAndServiceB, sl, idx, rcp_first, rcp_opcode_known, le2, le4, ofLe2', ofLe4',
    enumOf_mem, bind, Except.bind, pure, Except.pure, idOf,
    rcpUnknownService, rcpCallRequest, rcpCallReply, rcpBroadcastStatusConfigurationRequest,
    rcpBroadcastStatusConfigurationReply, rcpSendTalkerAliasRequest, rcpSendTalkerAliasReply,
    rcpRepeaterBroadcastTransmitStatus, rcpZoneAndChannelOperationRequest, rcpZoneAndChannelOperationReply,
    rcpRadioIDAndRadioIPQueryRequest, rcpRadioIDAndRadioIPQueryReply, rcpStatusChangeNotificationRequest,
    rcpStatusChangeNotificationReply, rcpRadioStatusReport, rcpBroadcastMessageConfigurationRequest,
    rcpBroadcastMessageConfigurationReply, svcRCP, throw, throwThe, MonadExceptOf.throw])

theorem mem16 : (∀ v ∈ rptModeValues, v < 65536) ∧ (∀ v ∈ rptStatusValues, v < 65536)
    ∧ (∀ v ∈ rptServiceValues, v < 65536) ∧ (∀ v ∈ rcpCallTypeValues, v < 65536) := by decide

theorem rcp_parse_callRequest (rel : Bool) (ct t : Nat) (x y ck : Nat) (h1 : ct ∈ rcpCallTypeValues) (h2 : t < 4294967296) :
    Rcp.fromBytes ((svcRCP ||| (if rel then 0x80 else 0)) :: (rcpCallRequest % 256) :: (rcpCallRequest / 256 % 256)
      :: x :: y :: (([ct] ++ le4 t) ++ [ck, 3])) = .ok ⟨rel, .callRequest ct t⟩ := by
  have e := rcp_opcode_known (v := rcpCallRequest) (by decide)
  have r := rcp_first rel
  simp only [svcRCP] at r
  have m := Nat.mod_eq_of_lt h2
  have c := enumOf_mem h1
  simp [Rcp.fromBytes, reliableAndServiceB, sl, idx, r, e, le2, le4, ofLe2', ofLe4', bind, Except.bind, pure, Except.pure,
    idOf, svcRCP, show ¬ rcpCallRequest = rcpUnknownService by decide, m, c]

theorem rcp_parse_callReply (rel : Bool) (r : Nat) (x y ck : Nat) (h1 : r ∈ rcpResultValues) :
    Rcp.fromBytes ((svcRCP ||| (if rel then 0x80 else 0)) :: (rcpCallReply % 256) :: (rcpCallReply / 256 % 256)
      :: x :: y :: (([r]) ++ [ck, 3])) = .ok ⟨rel, .callReply r⟩ := by
  have e := rcp_opcode_known (v := rcpCallReply) (by decide)
  have r := rcp_first rel
  simp only [svcRCP] at r
  have c := enumOf_mem h1
  simp [Rcp.fromBytes, reliableAndServiceB, sl, idx, r, e, le2, le4, ofLe2', ofLe4', bind, Except.bind, pure, Except.pure,
    idOf, svcRCP, show ¬ rcpCallReply = rcpUnknownService by decide, show ¬ rcpCallReply = rcpCallRequest by decide, c]

theorem rcp_parse_rptBroadcastTx (rel : Bool) (m st sv ct t s : Nat) (x y ck : Nat) (h1 : m ∈ rptModeValues) (h2 : st ∈ rptStatusValues) (h3 : sv ∈ rptServiceValues) (h4 : ct ∈ rcpCallTypeValues) (h5 : t < 4294967296) (h6 : s < 4294967296) :
    Rcp.fromBytes ((svcRCP ||| (if rel then 0x80 else 0)) :: (rcpRepeaterBroadcastTransmitStatus % 256) :: (rcpRepeaterBroadcastTransmitStatus / 256 % 256)
      :: x :: y :: ((le2 m ++ le2 st ++ le2 sv ++ le2 ct ++ le4 t ++ le4 s) ++ [ck, 3])) = .ok ⟨rel, .rptBroadcastTx m st sv ct t s⟩ := by
  have e := rcp_opcode_known (v := rcpRepeaterBroadcastTransmitStatus) (by decide)
  have r := rcp_first rel
  simp only [svcRCP] at r
  have m1 := Nat.mod_eq_of_lt (mem16.1 m h1)
  have m2 := Nat.mod_eq_of_lt (mem16.2.1 st h2)
  have m3 := Nat.mod_eq_of_lt (mem16.2.2.1 sv h3)
  have m4 := Nat.mod_eq_of_lt (mem16.2.2.2 ct h4)
  have m5 := Nat.mod_eq_of_lt h5
  have m6 := Nat.mod_eq_of_lt h6
  have c1 := enumOf_mem h1
  have c2 := enumOf_mem h2
  have c3 := enumOf_mem h3
  have c4 := enumOf_mem h4
  simp [Rcp.fromBytes, reliableAndServiceB, sl, idx, r, e, le2, le4, ofLe2', ofLe4', bind, Except.bind, pure, Except.pure,
    idOf, svcRCP, show ¬ rcpRepeaterBroadcastTransmitStatus = rcpUnknownService by decide, show ¬ rcpRepeaterBroadcastTransmitStatus = rcpCallRequest by decide, show ¬ rcpRepeaterBroadcastTransmitStatus = rcpCallReply by decide, m1, m2, m3, m4, m5, m6, c1, c2, c3, c4]

theorem rcp_parse_bcastMsgCfgReq (rel : Bool) (bt : Nat) (x y ck : Nat)  :
    Rcp.fromBytes ((svcRCP ||| (if rel then 0x80 else 0)) :: (rcpBroadcastMessageConfigurationRequest % 256) :: (rcpBroadcastMessageConfigurationRequest / 256 % 256)
      :: x :: y :: (([bt, 0, 0, 0, 0, 0, 0, 0]) ++ [ck, 3])) = .ok ⟨rel, .bcastMsgCfgReq bt⟩ := by
  have e := rcp_opcode_known (v := rcpBroadcastMessageConfigurationRequest) (by decide)
  have r := rcp_first rel
  simp only [svcRCP] at r
  simp [Rcp.fromBytes, reliableAndServiceB, sl, idx, r, e, le2, le4, ofLe2', ofLe4', bind, Except.bind, pure, Except.pure,
    idOf, svcRCP, show ¬ rcpBroadcastMessageConfigurationRequest = rcpUnknownService by decide, show ¬ rcpBroadcastMessageConfigurationRequest = rcpCallRequest by decide, show ¬ rcpBroadcastMessageConfigurationRequest = rcpCallReply by decide, show ¬ rcpBroadcastMessageConfigurationRequest = rcpRepeaterBroadcastTransmitStatus by decide]

theorem rcp_parse_bcastMsgCfgReply (rel : Bool) (r : Nat) (x y ck : Nat) (h1 : r ∈ rcpResultValues) :
    Rcp.fromBytes ((svcRCP ||| (if rel then 0x80 else 0)) :: (rcpBroadcastMessageConfigurationReply % 256) :: (rcpBroadcastMessageConfigurationReply / 256 % 256)
      :: x :: y :: (([r]) ++ [ck, 3])) = .ok ⟨rel, .bcastMsgCfgReply r⟩ := by
  have e := rcp_opcode_known (v := rcpBroadcastMessageConfigurationReply) (by decide)
  have r := rcp_first rel
  simp only [svcRCP] at r
  have c := enumOf_mem h1
  simp [Rcp.fromBytes, reliableAndServiceB, sl, idx, r, e, le2, le4, ofLe2', ofLe4', bind, Except.bind, pure, Except.pure,
    idOf, svcRCP, show ¬ rcpBroadcastMessageConfigurationReply = rcpUnknownService by decide, show ¬ rcpBroadcastMessageConfigurationReply = rcpCallRequest by decide, show ¬ rcpBroadcastMessageConfigurationReply = rcpCallReply by decide, show ¬ rcpBroadcastMessageConfigurationReply = rcpRepeaterBroadcastTransmitStatus by decide, show ¬ rcpBroadcastMessageConfigurationReply = rcpBroadcastMessageConfigurationRequest by decide, c]

theorem rcp_parse_idIpQueryReq (rel : Bool) (t : Nat) (x y ck : Nat) (h1 : t ∈ rcpIdTargetValues) :
    Rcp.fromBytes ((svcRCP ||| (if rel then 0x80 else 0)) :: (rcpRadioIDAndRadioIPQueryRequest % 256) :: (rcpRadioIDAndRadioIPQueryRequest / 256 % 256)
      :: x :: y :: (([t]) ++ [ck, 3])) = .ok ⟨rel, .idIpQueryReq t⟩ := by
  have e := rcp_opcode_known (v := rcpRadioIDAndRadioIPQueryRequest) (by decide)
  have r := rcp_first rel
  simp only [svcRCP] at r
  have c := enumOf_mem h1
  simp [Rcp.fromBytes, reliableAndServiceB, sl, idx, r, e, le2, le4, ofLe2', ofLe4', bind, Except.bind, pure, Except.pure,
    idOf, svcRCP, show ¬ rcpRadioIDAndRadioIPQueryRequest = rcpUnknownService by decide, show ¬ rcpRadioIDAndRadioIPQueryRequest = rcpCallRequest by decide, show ¬ rcpRadioIDAndRadioIPQueryRequest = rcpCallReply by decide, show ¬ rcpRadioIDAndRadioIPQueryRequest = rcpRepeaterBroadcastTransmitStatus by decide, show ¬ rcpRadioIDAndRadioIPQueryRequest = rcpBroadcastMessageConfigurationRequest by decide, show ¬ rcpRadioIDAndRadioIPQueryRequest = rcpBroadcastMessageConfigurationReply by decide, c]

theorem rcp_parse_idIpQueryReply (rel : Bool) (r t a b c d : Nat) (x y ck : Nat) (h1 : r ∈ rcpResultValues) (h2 : t ∈ rcpIdTargetValues) :
    Rcp.fromBytes ((svcRCP ||| (if rel then 0x80 else 0)) :: (rcpRadioIDAndRadioIPQueryReply % 256) :: (rcpRadioIDAndRadioIPQueryReply / 256 % 256)
      :: x :: y :: (([r, t] ++ [a, b, c, d]) ++ [ck, 3])) = .ok ⟨rel, .idIpQueryReply r t [a, b, c, d]⟩ := by
  have e := rcp_opcode_known (v := rcpRadioIDAndRadioIPQueryReply) (by decide)
  have r := rcp_first rel
  simp only [svcRCP] at r
  have c1 := enumOf_mem h1
  have c2 := enumOf_mem h2
  simp [Rcp.fromBytes, reliableAndServiceB, sl, idx, r, e, le2, le4, ofLe2', ofLe4', bind, Except.bind, pure, Except.pure,
    idOf, svcRCP, show ¬ rcpRadioIDAndRadioIPQueryReply = rcpUnknownService by decide, show ¬ rcpRadioIDAndRadioIPQueryReply = rcpCallRequest by decide, show ¬ rcpRadioIDAndRadioIPQueryReply = rcpCallReply by decide, show ¬ rcpRadioIDAndRadioIPQueryReply = rcpRepeaterBroadcastTransmitStatus by decide, show ¬ rcpRadioIDAndRadioIPQueryReply = rcpBroadcastMessageConfigurationRequest by decide, show ¬ rcpRadioIDAndRadioIPQueryReply = rcpBroadcastMessageConfigurationReply by decide, show ¬ rcpRadioIDAndRadioIPQueryReply = rcpRadioIDAndRadioIPQueryRequest by decide, c1, c2]

theorem rcp_parse_bcastStatusCfgReply (rel : Bool) (r : Nat) (x y ck : Nat) (h1 : r ∈ rcpResultValues) :
    Rcp.fromBytes ((svcRCP ||| (if rel then 0x80 else 0)) :: (rcpBroadcastStatusConfigurationReply % 256) :: (rcpBroadcastStatusConfigurationReply / 256 % 256)
      :: x :: y :: (([r]) ++ [ck, 3])) = .ok ⟨rel, .bcastStatusCfgReply r⟩ := by
  have e := rcp_opcode_known (v := rcpBroadcastStatusConfigurationReply) (by decide)
  have r := rcp_first rel
  simp only [svcRCP] at r
  have c := enumOf_mem h1
  simp [Rcp.fromBytes, reliableAndServiceB, sl, idx, r, e, le2, le4, ofLe2', ofLe4', bind, Except.bind, pure, Except.pure,
    idOf, svcRCP, show ¬ rcpBroadcastStatusConfigurationReply = rcpUnknownService by decide, show ¬ rcpBroadcastStatusConfigurationReply = rcpCallRequest by decide, show ¬ rcpBroadcastStatusConfigurationReply = rcpCallReply by decide, show ¬ rcpBroadcastStatusConfigurationReply = rcpRepeaterBroadcastTransmitStatus by decide, show ¬ rcpBroadcastStatusConfigurationReply = rcpBroadcastMessageConfigurationRequest by decide, show ¬ rcpBroadcastStatusConfigurationReply = rcpBroadcastMessageConfigurationReply by decide, show ¬ rcpBroadcastStatusConfigurationReply = rcpRadioIDAndRadioIPQueryRequest by decide, show ¬ rcpBroadcastStatusConfigurationReply = rcpRadioIDAndRadioIPQueryReply by decide, show ¬ rcpBroadcastStatusConfigurationReply = rcpBroadcastStatusConfigurationRequest by decide, c]

theorem rcp_parse_talkerAliasReply (rel : Bool) (r ct s t : Nat) (x y ck : Nat) (h1 : r ∈ rcpResultValues) (h2 : ct ∈ rcpCallTypeValues) (h3 : s < 4294967296) (h4 : t < 4294967296) :
    Rcp.fromBytes ((svcRCP ||| (if rel then 0x80 else 0)) :: (rcpSendTalkerAliasReply % 256) :: (rcpSendTalkerAliasReply / 256 % 256)
      :: x :: y :: (([r, ct] ++ le4 s ++ le4 t) ++ [ck, 3])) = .ok ⟨rel, .talkerAliasReply r ct s t⟩ := by
  have e := rcp_opcode_known (v := rcpSendTalkerAliasReply) (by decide)
  have r := rcp_first rel
  simp only [svcRCP] at r
  have c1 := enumOf_mem h1
  have c2 := enumOf_mem h2
  have m3 := Nat.mod_eq_of_lt h3
  have m4 := Nat.mod_eq_of_lt h4
  simp [Rcp.fromBytes, reliableAndServiceB, sl, idx, r, e, le2, le4, ofLe2', ofLe4', bind, Except.bind, pure, Except.pure,
    idOf, svcRCP, show ¬ rcpSendTalkerAliasReply = rcpUnknownService by decide, show ¬ rcpSendTalkerAliasReply = rcpCallRequest by decide, show ¬ rcpSendTalkerAliasReply = rcpCallReply by decide, show ¬ rcpSendTalkerAliasReply = rcpRepeaterBroadcastTransmitStatus by decide, show ¬ rcpSendTalkerAliasReply = rcpBroadcastMessageConfigurationRequest by decide, show ¬ rcpSendTalkerAliasReply = rcpBroadcastMessageConfigurationReply by decide, show ¬ rcpSendTalkerAliasReply = rcpRadioIDAndRadioIPQueryRequest by decide, show ¬ rcpSendTalkerAliasReply = rcpRadioIDAndRadioIPQueryReply by decide, show ¬ rcpSendTalkerAliasReply = rcpBroadcastStatusConfigurationRequest by decide, show ¬ rcpSendTalkerAliasReply = rcpBroadcastStatusConfigurationReply by decide, show ¬ rcpSendTalkerAliasReply = rcpSendTalkerAliasRequest by decide, c1, c2, m3, m4]

theorem rcp_parse_zoneChanReq (rel : Bool) (a b c d e : Nat) (x y ck : Nat)  :
    Rcp.fromBytes ((svcRCP ||| (if rel then 0x80 else 0)) :: (rcpZoneAndChannelOperationRequest % 256) :: (rcpZoneAndChannelOperationRequest / 256 % 256)
      :: x :: y :: (([a, b, c, d, e]) ++ [ck, 3])) = .ok ⟨rel, .zoneChanReq [a, b, c, d, e]⟩ := by
  have e := rcp_opcode_known (v := rcpZoneAndChannelOperationRequest) (by decide)
  have r := rcp_first rel
  simp only [svcRCP] at r
  simp [Rcp.fromBytes, reliableAndServiceB, sl, idx, r, e, le2, le4, ofLe2', ofLe4', bind, Except.bind, pure, Except.pure,
    idOf, svcRCP, show ¬ rcpZoneAndChannelOperationRequest = rcpUnknownService by decide, show ¬ rcpZoneAndChannelOperationRequest = rcpCallRequest by decide, show ¬ rcpZoneAndChannelOperationRequest = rcpCallReply by decide, show ¬ rcpZoneAndChannelOperationRequest = rcpRepeaterBroadcastTransmitStatus by decide, show ¬ rcpZoneAndChannelOperationRequest = rcpBroadcastMessageConfigurationRequest by decide, show ¬ rcpZoneAndChannelOperationRequest = rcpBroadcastMessageConfigurationReply by decide, show ¬ rcpZoneAndChannelOperationRequest = rcpRadioIDAndRadioIPQueryRequest by decide, show ¬ rcpZoneAndChannelOperationRequest = rcpRadioIDAndRadioIPQueryReply by decide, show ¬ rcpZoneAndChannelOperationRequest = rcpBroadcastStatusConfigurationRequest by decide, show ¬ rcpZoneAndChannelOperationRequest = rcpBroadcastStatusConfigurationReply by decide, show ¬ rcpZoneAndChannelOperationRequest = rcpSendTalkerAliasRequest by decide, show ¬ rcpZoneAndChannelOperationRequest = rcpSendTalkerAliasReply by decide]

theorem rcp_parse_statusNotifyReply (rel : Bool) (r : Nat) (x y ck : Nat) (h1 : r ∈ rcpResultValues) :
    Rcp.fromBytes ((svcRCP ||| (if rel then 0x80 else 0)) :: (rcpStatusChangeNotificationReply % 256) :: (rcpStatusChangeNotificationReply / 256 % 256)
      :: x :: y :: (([r]) ++ [ck, 3])) = .ok ⟨rel, .statusNotifyReply r⟩ := by
  have e := rcp_opcode_known (v := rcpStatusChangeNotificationReply) (by decide)
  have r := rcp_first rel
  simp only [svcRCP] at r
  have c := enumOf_mem h1
  simp [Rcp.fromBytes, reliableAndServiceB, sl, idx, r, e, le2, le4, ofLe2', ofLe4', bind, Except.bind, pure, Except.pure,
    idOf, svcRCP, show ¬ rcpStatusChangeNotificationReply = rcpUnknownService by decide, show ¬ rcpStatusChangeNotificationReply = rcpCallRequest by decide, show ¬ rcpStatusChangeNotificationReply = rcpCallReply by decide, show ¬ rcpStatusChangeNotificationReply = rcpRepeaterBroadcastTransmitStatus by decide, show ¬ rcpStatusChangeNotificationReply = rcpBroadcastMessageConfigurationRequest by decide, show ¬ rcpStatusChangeNotificationReply = rcpBroadcastMessageConfigurationReply by decide, show ¬ rcpStatusChangeNotificationReply = rcpRadioIDAndRadioIPQueryRequest by decide, show ¬ rcpStatusChangeNotificationReply = rcpRadioIDAndRadioIPQueryReply by decide, show ¬ rcpStatusChangeNotificationReply = rcpBroadcastStatusConfigurationRequest by decide, show ¬ rcpStatusChangeNotificationReply = rcpBroadcastStatusConfigurationReply by decide, show ¬ rcpStatusChangeNotificationReply = rcpSendTalkerAliasRequest by decide, show ¬ rcpStatusChangeNotificationReply = rcpSendTalkerAliasReply by decide, show ¬ rcpStatusChangeNotificationReply = rcpZoneAndChannelOperationRequest by decide, show ¬ rcpStatusChangeNotificationReply = rcpZoneAndChannelOperationReply by decide, show ¬ rcpStatusChangeNotificationReply = rcpStatusChangeNotificationRequest by decide, c]

theorem rcp_parse_radioStatusReport (rel : Bool) (t v : Nat) (x y ck : Nat) (h1 : t ∈ scnTargetValues) (h2 : v < 65536) :
    Rcp.fromBytes ((svcRCP ||| (if rel then 0x80 else 0)) :: (rcpRadioStatusReport % 256) :: (rcpRadioStatusReport / 256 % 256)
      :: x :: y :: (([t] ++ le2 v) ++ [ck, 3])) = .ok ⟨rel, .radioStatusReport t v⟩ := by
  have e := rcp_opcode_known (v := rcpRadioStatusReport) (by decide)
  have r := rcp_first rel
  simp only [svcRCP] at r
  have c := enumFold_mem (m := scnTargetMissing) h1
  have m2 := Nat.mod_eq_of_lt h2
  simp [Rcp.fromBytes, reliableAndServiceB, sl, idx, r, e, le2, le4, ofLe2', ofLe4', bind, Except.bind, pure, Except.pure,
    idOf, svcRCP, show ¬ rcpRadioStatusReport = rcpUnknownService by decide, show ¬ rcpRadioStatusReport = rcpCallRequest by decide, show ¬ rcpRadioStatusReport = rcpCallReply by decide, show ¬ rcpRadioStatusReport = rcpRepeaterBroadcastTransmitStatus by decide, show ¬ rcpRadioStatusReport = rcpBroadcastMessageConfigurationRequest by decide, show ¬ rcpRadioStatusReport = rcpBroadcastMessageConfigurationReply by decide, show ¬ rcpRadioStatusReport = rcpRadioIDAndRadioIPQueryRequest by decide, show ¬ rcpRadioStatusReport = rcpRadioIDAndRadioIPQueryReply by decide, show ¬ rcpRadioStatusReport = rcpBroadcastStatusConfigurationRequest by decide, show ¬ rcpRadioStatusReport = rcpBroadcastStatusConfigurationReply by decide, show ¬ rcpRadioStatusReport = rcpSendTalkerAliasRequest by decide, show ¬ rcpRadioStatusReport = rcpSendTalkerAliasReply by decide, show ¬ rcpRadioStatusReport = rcpZoneAndChannelOperationRequest by decide, show ¬ rcpRadioStatusReport = rcpZoneAndChannelOperationReply by decide, show ¬ rcpRadioStatusReport = rcpStatusChangeNotificationRequest by decide, show ¬ rcpRadioStatusReport = rcpStatusChangeNotificationReply by decide, c, m2]

end Dmr.Hytera
