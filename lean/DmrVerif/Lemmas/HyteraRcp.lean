import DmrVerif.Lemmas.HyteraBytes
import DmrVerif.Lemmas.HyteraSpec

/-! RCP (radio control protocol, little endian): serialise-then-parse for the 17 implemented
opcodes (C12).  Core Lean only. -/

set_option linter.unusedSimpArgs false

namespace Dmr.Hytera
open Dmr Dmr.Gen.Hytera

/-- the opcode octets of a known opcode are read back as that opcode -/
theorem rcp_opcode_known {v : Nat} (hv : v ∈ rcpValues) :
    enumFold rcpValues rcpMissing (ofLe [v % 256, v / 256 % 256]) = v := by
  have hlt : v < 65536 := by
    revert v
    decide
  rw [ofLe2', Nat.mod_eq_of_lt hlt]
  exact enumFold_mem hv

theorem rcp_first (rel : Bool) : reliableAndService (svcRCP ||| (if rel then 0x80 else 0)) = .ok (rel, some svcRCP) :=
  reliableAndService_first rel (by decide)

/-- the bytes `as_bytes` produces for an RCP body with payload `P` -/
theorem rcp_bytes (rel : Bool) (b : RcpBody) (P : Bytes) {o1 o2 : Nat} (hP : b.payload = .ok P)
    (hfit : P.length < 65536) (hop : b.opcodeBytes = [o1, o2]) :
    ∃ f x y ck, Rcp.frame ⟨rel, b⟩ = .ok f ∧ f.payload = P ∧ f.opcode = [o1, o2] ∧ f.service = svcRCP
      ∧ f.little = true ∧ f.reliable = rel ∧ ofLe [x, y] = P.length
      ∧ f.asBytes = (svcRCP ||| (if rel then 0x80 else 0)) :: o1 :: o2 :: x :: y :: (P ++ [ck, 3]) := by
  have hfr : Rcp.frame ⟨rel, b⟩ = .ok ⟨svcRCP, rel, [o1, o2], true, P⟩ := by
    simp [Rcp.frame, hP, hop, bind, Except.bind, pure, Except.pure]
  obtain ⟨x, y, hxy, hb⟩ := frame_cons ⟨svcRCP, rel, [o1, o2], true, P⟩ rfl
  refine ⟨_, x, y, _, hfr, rfl, rfl, rfl, rfl, rfl, ?_, hb⟩
  have := ofLe_le2 hfit
  simp only [len16, if_true] at hxy
  rw [← hxy]; exact this

/-- common tactic state: parse `first :: lo :: hi :: x :: y :: (P ++ [ck, 3])` for a known opcode -/
macro "rcp_fixed" : tactic => `(tactic|
  simp [Rcp.fromBytes, reliableAndServiceB, sl, idx, rcp_first, rcp_opcode_known, le2, le4, ofLe2', ofLe4',
    enumOf_mem, bind, Except.bind, pure, Except.pure, idOf,
    rcpUnknownService, rcpCallRequest, rcpCallReply, rcpBroadcastStatusConfigurationRequest,
    rcpBroadcastStatusConfigurationReply, rcpSendTalkerAliasRequest, rcpSendTalkerAliasReply,
    rcpRepeaterBroadcastTransmitStatus, rcpZoneAndChannelOperationRequest, rcpZoneAndChannelOperationReply,
    rcpRadioIDAndRadioIPQueryRequest, rcpRadioIDAndRadioIPQueryReply, rcpStatusChangeNotificationRequest,
    rcpStatusChangeNotificationReply, rcpRadioStatusReport, rcpBroadcastMessageConfigurationRequest,
    rcpBroadcastMessageConfigurationReply, svcRCP, throw, throwThe, MonadExceptOf.throw])

theorem rcp_parse_callRequest (rel : Bool) (ct t x y ck : Nat) (h1 : ct ∈ rcpCallTypeValues) (h2 : t < 4294967296) :
    Rcp.fromBytes ((svcRCP ||| (if rel then 0x80 else 0)) :: (rcpCallRequest % 256) :: (rcpCallRequest / 256 % 256)
      :: x :: y :: (([ct] ++ le4 t) ++ [ck, 3])) = .ok ⟨rel, .callRequest ct t⟩ := by
  have e := rcp_opcode_known (v := rcpCallRequest) (by decide)
  have m := Nat.mod_eq_of_lt h2
  have c := enumOf_mem h1
  have r := rcp_first rel
  simp only [svcRCP] at r
  simp [Rcp.fromBytes, reliableAndServiceB, sl, idx, r, e, le4, ofLe4', m, c, bind, Except.bind, pure, Except.pure, idOf,
    show ¬ rcpCallRequest = rcpUnknownService by decide, svcRCP]

end Dmr.Hytera
