import DmrVerif.Lemmas.CrcFrontEtsi
import DmrVerif.Lemmas.Codes
import DmrVerif.Model.Integrity

/-!
Basic lemmas for C04 (core Lean): slices of bit strings, weights, octet/bit conversions.
-/

namespace Dmr
namespace Integrity
open Dmr.Crc Dmr.Gen Dmr.Gen.Integrity

/-! ### slices -/

theorem sl_length (bs : Bits) (a b : Nat) : (sl bs a b).length = min b bs.length - a := by
  simp [sl]

theorem sl_xor (x y : Bits) (a b : Nat) : sl (xorBits x y) a b = xorBits (sl x a b) (sl y a b) := by
  simp [sl, xorBits, List.take_zipWith, List.drop_zipWith]

theorem sl_zero (bs : Bits) (b : Nat) : sl bs 0 b = bs.take b := by simp [sl]

theorem sl_full (bs : Bits) (a b : Nat) (h : bs.length ≤ b) : sl bs a b = bs.drop a := by
  simp [sl, List.take_of_length_le h]

/-- consecutive slices concatenate -/
theorem sl_append_sl (bs : Bits) (a b c : Nat) (hab : a ≤ b) (hbc : b ≤ c) :
    sl bs a b ++ sl bs b c = sl bs a c := by
  unfold sl
  have h1 : bs.take b = (bs.take c).take b := by rw [List.take_take, Nat.min_eq_left hbc]
  rw [h1]
  generalize bs.take c = l
  by_cases hl : a ≤ (l.take b).length
  · rw [← List.drop_append_of_le_length hl, List.take_append_drop]
  · have h2 : (l.take b).drop a = [] := List.drop_eq_nil_of_le (by omega)
    have hlen : (l.take b).length = min b l.length := List.length_take
    have h3 : l.drop b = [] := List.drop_eq_nil_of_le (by omega)
    have h4 : l.drop a = [] := List.drop_eq_nil_of_le (by omega)
    rw [h2, h3, h4]; rfl

/-- slicing an append: entirely in the left part -/
theorem sl_append_left (x y : Bits) (a b : Nat) (h : b ≤ x.length) : sl (x ++ y) a b = sl x a b := by
  unfold sl
  rw [List.take_append_of_le_length h]

/-- slicing an append: entirely in the right part -/
theorem sl_append_right (x y : Bits) (a b : Nat) (h : x.length ≤ a) :
    sl (x ++ y) a b = sl y (a - x.length) (b - x.length) := by
  unfold sl
  rw [List.take_append, List.drop_append]
  have h1 : (x.take b).drop a = [] := List.drop_eq_nil_of_le (by simp; omega)
  rw [h1, List.nil_append]
  by_cases hb : x.length ≤ b
  · rw [List.length_take, Nat.min_eq_right hb]
  · have h2 : y.take (b - x.length) = [] := by
      rw [show b - x.length = 0 by omega]; rfl
    rw [h2]; simp

theorem sl_self (x : Bits) : sl x 0 x.length = x := by simp [sl]

/-! ### weights -/

theorem weight_append (a b : Bits) : weight (a ++ b) = weight a + weight b := by
  simp [weight, List.filter_append]

theorem weight_reverse (a : Bits) : weight a.reverse = weight a := by
  simp [weight, List.filter_reverse]

theorem weight_zeros' (n : Nat) : weight (zeros n) = 0 := by simp [weight, zeros]

theorem weight_pos_ne_zeros (a : Bits) (h : 1 ≤ weight a) : a ≠ zeros a.length := by
  intro h0; rw [h0, weight_zeros'] at h; omega

/-! ### octets and bits -/

theorem bytesToBits_length (d : Bytes) : (bytesToBits d).length = 8 * d.length := by
  induction d with
  | nil => rfl
  | cons x xs ih => rw [bytesToBits_cons, List.length_append, natToBits_length, ih, List.length_cons]; omega

theorem chunks_cons (l : Bits) (h : l ≠ []) : chunks 8 l = l.take 8 :: chunks 8 (l.drop 8) := by
  rw [chunks]
  simp [h]

theorem chunks_nil : chunks 8 ([] : Bits) = [] := by
  rw [chunks]; simp

/-- `bytes_to_bits(bits.tobytes())` gives the bits back when their number is a multiple of 8 -/
theorem bytesToBits_bitsToBytes (bs : Bits) (k : Nat) (h : bs.length = 8 * k) :
    bytesToBits (bitsToBytes bs) = bs := by
  induction k generalizing bs with
  | zero =>
    have : bs = [] := List.eq_nil_of_length_eq_zero (by omega)
    subst this
    simp [bitsToBytes, chunks_nil, bytesToBits]
  | succ k ih =>
    have hne : bs ≠ [] := by intro h0; subst h0; simp at h
    unfold bitsToBytes
    rw [chunks_cons bs hne, List.map_cons, bytesToBits_cons]
    have htl : (bs.take 8).length = 8 := by simp; omega
    have hpad : bs.take 8 ++ zeros (8 - (bs.take 8).length) = bs.take 8 := by simp [htl]
    rw [hpad]
    have h8 := natToBits_bitsToNat (bs.take 8)
    rw [htl] at h8
    rw [h8]
    have := ih (bs.drop 8) (by simp; omega)
    unfold bitsToBytes at this
    rw [this, List.take_append_drop]

theorem bitsToBytes_length (bs : Bits) (k : Nat) (h : bs.length = 8 * k) :
    (bitsToBytes bs).length = k := by
  induction k generalizing bs with
  | zero =>
    have : bs = [] := List.eq_nil_of_length_eq_zero (by omega)
    subst this
    simp [bitsToBytes, chunks_nil]
  | succ k ih =>
    have hne : bs ≠ [] := by intro h0; subst h0; simp at h
    unfold bitsToBytes
    rw [chunks_cons bs hne, List.map_cons, List.length_cons]
    have := ih (bs.drop 8) (by simp; omega)
    unfold bitsToBytes at this
    rw [this]

end Integrity
end Dmr
