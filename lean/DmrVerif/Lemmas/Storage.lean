import DmrVerif.Model.Storage

/-!
# Lemmas about the storage model (C20, reused by C18)

1. Python-dict lemmas (`dictSet`, `dictGet`, `dictDel`).
2. Record lemmas (`get`/`set`/`attr`/`setAttr`, `applyPatch`).
3. Unconditional facts about every step: references stay valid, dictionary keys stay unique, every
   operation touches at most one object, the number of objects grows only on an auto-creating lookup
   of an unseen address, an error outcome leaves the state unchanged.
4. The invariant `Inv` that the preconditions P1/P2 (`okOp`) maintain: the dictionary is the identity
   table `uuid i ↦ object i`, every object carries its own id, incoming addresses are pairwise distinct.
-/

namespace Dmr.Storage

/-! ## 1. Python dict -/

section Dict
variable {κ β : Type} [DecidableEq κ]

theorem dictSet_keys_of_mem (d : List (κ × β)) (k : κ) (v : β) (h : k ∈ d.map Prod.fst) :
    (dictSet d k v).map Prod.fst = d.map Prod.fst := by
  induction d with
  | nil => simp at h
  | cons a t ih =>
    obtain ⟨k', v'⟩ := a
    simp only [dictSet]
    split
    · simp
    · rename_i hne
      simp only [List.map_cons, List.mem_cons] at h ⊢
      rcases h with h | h
      · exact absurd h.symm hne
      · rw [ih h]

theorem dictSet_of_not_mem (d : List (κ × β)) (k : κ) (v : β) (h : k ∉ d.map Prod.fst) :
    dictSet d k v = d ++ [(k, v)] := by
  induction d with
  | nil => rfl
  | cons a t ih =>
    obtain ⟨k', v'⟩ := a
    simp only [List.map_cons, List.mem_cons, not_or] at h
    simp only [dictSet]
    rw [if_neg (fun e => h.1 e.symm), ih h.2]
    rfl

theorem dictSet_keys_nodup (d : List (κ × β)) (k : κ) (v : β) (h : (d.map Prod.fst).Nodup) :
    ((dictSet d k v).map Prod.fst).Nodup := by
  by_cases hk : k ∈ d.map Prod.fst
  · rw [dictSet_keys_of_mem d k v hk]; exact h
  · rw [dictSet_of_not_mem d k v hk, List.map_append, List.nodup_append]
    refine ⟨h, by simp, ?_⟩
    intro a ha b hb
    simp only [List.map_cons, List.map_nil, List.mem_singleton] at hb
    subst hb
    intro e; subst e; exact hk ha

/-- writing the value a key already has changes nothing -/
theorem dictSet_same (d : List (κ × β)) (k : κ) (v : β) (hm : (k, v) ∈ d)
    (hn : (d.map Prod.fst).Nodup) : dictSet d k v = d := by
  induction d with
  | nil => simp at hm
  | cons a t ih =>
    obtain ⟨k', v'⟩ := a
    simp only [List.map_cons, List.nodup_cons] at hn
    simp only [dictSet]
    split
    · rename_i hk
      subst hk
      simp only [List.mem_cons, Prod.mk.injEq, true_and] at hm
      rcases hm with hm | hm
      · rw [hm]
      · exact absurd (List.mem_map_of_mem (f := Prod.fst) hm) hn.1
    · rename_i hk
      simp only [List.mem_cons, Prod.mk.injEq] at hm
      rcases hm with hm | hm
      · exact absurd hm.1.symm hk
      · rw [ih hm hn.2]

theorem dictSet_values_subset (d : List (κ × β)) (k : κ) (v : β) :
    ∀ x ∈ (dictSet d k v).map Prod.snd, x = v ∨ x ∈ d.map Prod.snd := by
  induction d with
  | nil => intro x hx; simp [dictSet] at hx; exact Or.inl hx
  | cons a t ih =>
    obtain ⟨k', v'⟩ := a
    intro x hx
    simp only [dictSet] at hx
    split at hx
    · simp only [List.map_cons, List.mem_cons] at hx ⊢
      rcases hx with hx | hx
      · exact Or.inl hx
      · exact Or.inr (Or.inr hx)
    · simp only [List.map_cons, List.mem_cons] at hx ⊢
      rcases hx with hx | hx
      · exact Or.inr (Or.inl hx)
      · rcases ih x hx with h | h
        · exact Or.inl h
        · exact Or.inr (Or.inr h)

theorem dictSet_length_le (d : List (κ × β)) (k : κ) (v : β) : d.length ≤ (dictSet d k v).length := by
  induction d with
  | nil => simp [dictSet]
  | cons a t ih =>
    obtain ⟨k', v'⟩ := a
    simp only [dictSet]
    split <;> simp [ih]

theorem dictGet_dictSet (d : List (κ × β)) (k k' : κ) (v : β) :
    dictGet (dictSet d k v) k' = if k = k' then some v else dictGet d k' := by
  induction d with
  | nil => simp [dictSet, dictGet]
  | cons a t ih =>
    obtain ⟨k0, v0⟩ := a
    simp only [dictSet]
    by_cases h0 : k0 = k
    · subst h0
      simp only [if_true, dictGet]
      split <;> rfl
    · simp only [if_neg h0, dictGet, ih]
      by_cases h1 : k0 = k'
      · subst h1
        simp [Ne.symm h0]
      · simp [h1]

theorem dictGet_dictDel_ne (d : List (κ × β)) (k k' : κ) (h : k ≠ k') :
    dictGet (dictDel d k) k' = dictGet d k' := by
  induction d with
  | nil => rfl
  | cons a t ih =>
    obtain ⟨k0, v0⟩ := a
    simp only [dictDel]
    by_cases h0 : k0 = k
    · subst h0
      simp [dictGet, h]
    · simp only [if_neg h0, dictGet, ih]

end Dict

/-! ## 2. records and patches -/

@[simp] theorem Rec.get_set (r : Rec) (f g : Field) (v : Val) :
    (r.set f v).get g = if f = g then v else r.get g := by
  cases f <;> cases g <;> simp [Rec.set, Rec.get]

@[simp] theorem Rec.attrs_set (r : Rec) (f : Field) (v : Val) : (r.set f v).attrs = r.attrs := by
  cases f <;> rfl

@[simp] theorem Rec.attr_set (r : Rec) (f : Field) (v : Val) (k : String) :
    (r.set f v).attr k = r.attr k := by
  simp [Rec.attr]

@[simp] theorem Rec.get_setAttr (r : Rec) (k : String) (v : Val) (g : Field) :
    (r.setAttr k v).get g = r.get g := by
  cases g <;> rfl

theorem Rec.attr_setAttr (r : Rec) (k k' : String) (v : Val) :
    (r.setAttr k v).attr k' = if k = k' then v else r.attr k' := by
  simp only [Rec.attr, Rec.setAttr, dictGet_dictSet]
  split <;> rfl

theorem Rec.get_id (r : Rec) : r.get .id = r.id := rfl
theorem Rec.get_addressIn (r : Rec) : r.get .addressIn = r.addressIn := rfl

theorem applyPatch_cons (e : Key × Val) (p : Patch) (r : Rec) :
    applyPatch (e :: p) r = applyPatch p (applyEntry r e) := rfl

theorem applyEntry_get (r : Rec) (e : Key × Val) (f : Field) :
    (applyEntry r e).get f = if e.1 = .field f then e.2 else r.get f := by
  obtain ⟨k, v⟩ := e
  cases k with
  | field g =>
    simp only [applyEntry, Rec.get_set]
    by_cases h : g = f
    · simp [h]
    · simp [h]
  | dyn k =>
    simp only [applyEntry]
    split <;> simp

theorem applyEntry_attr (r : Rec) (e : Key × Val) (k : String) :
    (applyEntry r e).attr k = if e.1 = .dyn k ∧ e.2 ≠ .none then e.2 else r.attr k := by
  obtain ⟨k0, v⟩ := e
  cases k0 with
  | field g => simp [applyEntry]
  | dyn k0 =>
    simp only [applyEntry]
    by_cases hv : v = .none
    · simp [hv]
    · simp only [if_neg hv, Rec.attr_setAttr]
      by_cases hk : k0 = k
      · simp [hk, hv]
      · simp [hk]

/-- a data member that the patch does not name keeps its value -/
theorem applyPatch_get_unnamed (p : Patch) (r : Rec) (f : Field) (h : ∀ e ∈ p, e.1 ≠ .field f) :
    (applyPatch p r).get f = r.get f := by
  induction p generalizing r with
  | nil => rfl
  | cons e t ih =>
    rw [applyPatch_cons, ih _ (fun e' he' => h e' (List.mem_cons_of_mem _ he')), applyEntry_get,
      if_neg (h e List.mem_cons_self)]

/-- a dynamic attribute that the patch does not name keeps its value -/
theorem applyPatch_attr_unnamed (p : Patch) (r : Rec) (k : String) (h : ∀ e ∈ p, e.1 ≠ .dyn k) :
    (applyPatch p r).attr k = r.attr k := by
  induction p generalizing r with
  | nil => rfl
  | cons e t ih =>
    rw [applyPatch_cons, ih _ (fun e' he' => h e' (List.mem_cons_of_mem _ he')), applyEntry_attr,
      if_neg (fun hh => h e List.mem_cons_self hh.1)]

/-- a named data member takes the value the patch gives it (patches are dicts: keys are distinct) -/
theorem applyPatch_get_named (p : Patch) (r : Rec) (f : Field) (v : Val)
    (hn : (p.map Prod.fst).Nodup) (hm : (Key.field f, v) ∈ p) : (applyPatch p r).get f = v := by
  induction p generalizing r with
  | nil => simp at hm
  | cons e t ih =>
    simp only [List.map_cons, List.nodup_cons] at hn
    rw [applyPatch_cons]
    simp only [List.mem_cons] at hm
    rcases hm with hm | hm
    · subst hm
      rw [applyPatch_get_unnamed, applyEntry_get]
      · simp
      · intro e' he' heq
        have hmem := List.mem_map_of_mem (f := Prod.fst) he'
        rw [heq] at hmem
        exact hn.1 hmem
    · exact ih _ hn.2 hm

/-- a named dynamic attribute takes the value the patch gives it, unless that value is `None`
(`elif value is not None`), in which case it keeps its value -/
theorem applyPatch_attr_named (p : Patch) (r : Rec) (k : String) (v : Val)
    (hn : (p.map Prod.fst).Nodup) (hm : (Key.dyn k, v) ∈ p) :
    (applyPatch p r).attr k = if v = .none then r.attr k else v := by
  induction p generalizing r with
  | nil => simp at hm
  | cons e t ih =>
    simp only [List.map_cons, List.nodup_cons] at hn
    rw [applyPatch_cons]
    simp only [List.mem_cons] at hm
    rcases hm with hm | hm
    · subst hm
      rw [applyPatch_attr_unnamed, applyEntry_attr]
      · by_cases hv : v = .none <;> simp [hv]
      · intro e' he' heq
        have hmem := List.mem_map_of_mem (f := Prod.fst) he'
        rw [heq] at hmem
        exact hn.1 hmem
    · have hne : e.1 ≠ .dyn k := by
        intro heq
        have hmem := List.mem_map_of_mem (f := Prod.fst) hm
        rw [← heq] at hmem
        exact hn.1 hmem
      have hsame : (applyEntry r e).attr k = r.attr k := by
        rw [applyEntry_attr, if_neg (fun hh => hne hh.1)]
      rw [ih _ hn.2 hm, hsame]

/-- the value of a data member after a patch is the old one or one the patch names for it -/
theorem applyPatch_get_cases (p : Patch) (r : Rec) (f : Field) :
    (applyPatch p r).get f = r.get f ∨ ∃ v, (Key.field f, v) ∈ p ∧ (applyPatch p r).get f = v := by
  induction p generalizing r with
  | nil => exact Or.inl rfl
  | cons e t ih =>
    rw [applyPatch_cons]
    rcases ih (applyEntry r e) with h | ⟨v, hv, h⟩
    · rw [h, applyEntry_get]
      by_cases he : e.1 = .field f
      · refine Or.inr ⟨e.2, ?_, by simp [he]⟩
        have : e = (Key.field f, e.2) := by rw [← he]
        rw [← this]; exact List.mem_cons_self
      · exact Or.inl (by simp [he])
    · exact Or.inr ⟨v, List.mem_cons_of_mem _ hv, h⟩

/-! ## 3. unconditional facts about steps -/

/-- every reference held by the dictionary points into the heap -/
def Store.WF (s : Store) : Prop := ∀ i ∈ s.refs, i < s.objs.length

theorem wf_init : init.WF := by intro i hi; simp [init, Store.refs] at hi

theorem refs_dictSet (s : Store) (k : Val) (i : Nat) :
    ∀ x ∈ (dictSet s.dict k i).map Prod.snd, x = i ∨ x ∈ s.refs :=
  dictSet_values_subset s.dict k i

/-- shape of `save`'s outcome -/
theorem save_cases (s : Store) (rpt : Option Nat) (p : Patch) :
    (s.save rpt p = (s, Res.ofOption rpt) ∧ p = []) ∨
    (s.save rpt p = (s, .err .attributeError) ∧ rpt = Option.none ∧ p ≠ []) ∨
    (∃ i, rpt = some i ∧ s.objs[i]? = Option.none ∧ p ≠ [] ∧ s.save rpt p = (s, .err .badRef)) ∨
    (∃ i r, rpt = some i ∧ s.objs[i]? = some r ∧ p ≠ [] ∧
      s.save rpt p = ({ objs := s.objs.set i (applyPatch p r), dict := dictSet s.dict r.id i }, .obj i)) := by
  unfold Store.save
  cases p with
  | nil => left; simp
  | cons e t =>
    right
    cases rpt with
    | none => left; simp
    | some i =>
      right
      cases h : s.objs[i]? with
      | none => left; exact ⟨i, rfl, h, by simp, by simp [h]⟩
      | some r => right; exact ⟨i, r, rfl, h, by simp, by simp [h]⟩

theorem getElem?_lt_of_some {α : Type} {l : List α} {i : Nat} {a : α} (h : l[i]? = some a) : i < l.length := by
  rcases Nat.lt_or_ge i l.length with h' | h'
  · exact h'
  · rw [List.getElem?_eq_none h'] at h; cases h

theorem wf_save (s : Store) (rpt : Option Nat) (p : Patch) (h : s.WF) : (s.save rpt p).1.WF := by
  rcases save_cases s rpt p with ⟨e, _⟩ | ⟨e, _⟩ | ⟨i, _, _, _, e⟩ | ⟨i, r, _, hr, _, e⟩ <;> rw [e]
  · exact h
  · exact h
  · exact h
  · intro x hx
    simp only [Store.refs] at hx
    simp only [List.length_set]
    rcases refs_dictSet s r.id i x hx with hx | hx
    · rw [hx]; exact getElem?_lt_of_some hr
    · exact h x hx

theorem wf_create (s : Store) (a : Val) (h : s.WF) : (s.create a).1.WF := by
  intro x hx
  simp only [Store.create, Store.refs] at hx ⊢
  simp only [List.length_append, List.length_singleton]
  rcases refs_dictSet s _ _ x hx with hx | hx
  · omega
  · have := h x hx; omega

theorem wf_matchIncoming (s : Store) (a : Val) (au : Bool) (p : Patch) (h : s.WF) :
    (s.matchIncoming a au p).1.WF := by
  unfold Store.matchIncoming
  split
  · exact wf_save _ _ _ h
  · split
    · exact wf_save _ _ _ (wf_create s a h)
    · exact wf_save _ _ _ h

theorem wf_set (s : Store) (i : Nat) (r : Rec) (h : s.WF) : Store.WF { s with objs := s.objs.set i r } := by
  intro x hx
  simp only [List.length_set]
  exact h x hx

/-- shape of the outcome of a patching call with a malformed patch -/
theorem saveBad_cases (s : Store) (rpt : Option Nat) (pre : Patch) (e : Err) :
    (∃ e', s.saveBad rpt pre e = (s, .err e')) ∨
    (∃ i r, rpt = some i ∧ s.objs[i]? = some r ∧
      s.saveBad rpt pre e = ({ s with objs := s.objs.set i (applyPatch pre r) }, .err e)) := by
  cases rpt with
  | none => exact Or.inl ⟨_, rfl⟩
  | some i =>
    cases h : s.objs[i]? with
    | none => exact Or.inl ⟨.badRef, by simp only [Store.saveBad, Store.patchBad, h]⟩
    | some r => exact Or.inr ⟨i, r, rfl, h, by simp only [Store.saveBad, Store.patchBad, h]⟩

theorem patchBad_eq_saveBad (s : Store) (i : Nat) (pre : Patch) (e : Err) :
    s.patchBad i pre e = s.saveBad (some i) pre e := rfl

/-- shape of `match_incoming` with a malformed patch: the lookup / creation of the well-formed call, then `saveBad` -/
theorem matchIncomingBad_cases (s : Store) (a : Val) (au : Bool) (pre : Patch) (e : Err) :
    (∃ i, s.first (fun r => r.addressIn == a) = some i ∧ s.matchIncomingBad a au pre e = s.saveBad (some i) pre e) ∨
    (s.first (fun r => r.addressIn == a) = Option.none ∧ au = true ∧
      s.matchIncomingBad a au pre e = (s.create a).1.saveBad (some s.objs.length) pre e) ∨
    (s.first (fun r => r.addressIn == a) = Option.none ∧ au = false ∧
      s.matchIncomingBad a au pre e = (s, .err .attributeError)) := by
  unfold Store.matchIncomingBad
  cases hf : s.first (fun r => r.addressIn == a) with
  | some i => exact Or.inl ⟨i, rfl, rfl⟩
  | none =>
    cases au with
    | true => exact Or.inr (Or.inl ⟨rfl, rfl, rfl⟩)
    | false => exact Or.inr (Or.inr ⟨rfl, rfl, rfl⟩)

theorem wf_saveBad (s : Store) (rpt : Option Nat) (pre : Patch) (e : Err) (h : s.WF) : (s.saveBad rpt pre e).1.WF := by
  rcases saveBad_cases s rpt pre e with ⟨e', he⟩ | ⟨i, r, _, _, he⟩ <;> rw [he]
  · exact h
  · exact wf_set _ _ _ h

theorem wf_matchIncomingBad (s : Store) (a : Val) (au : Bool) (pre : Patch) (e : Err) (h : s.WF) :
    (s.matchIncomingBad a au pre e).1.WF := by
  rcases matchIncomingBad_cases s a au pre e with ⟨i, _, he⟩ | ⟨_, _, he⟩ | ⟨_, _, he⟩ <;> rw [he]
  · exact wf_saveBad _ _ _ _ h
  · exact wf_saveBad _ _ _ _ (wf_create s a h)
  · exact h

theorem wf_step (s : Store) (op : Op) (h : s.WF) : (step s op).1.WF := by
  cases op with
  | matchIncoming a au p => exact wf_matchIncoming s a au p h
  | save rpt p =>
    simp only [step]
    cases rpt with
    | none => exact wf_save _ _ _ h
    | some i => simp only; split
                · exact wf_save _ _ _ h
                · exact h
  | matchAttr n v => exact h
  | matchIpIncoming ip => exact h
  | matchUuid v => exact h
  | attr i k v =>
    simp only [step]
    split
    · exact h
    · split
      · exact h
      · exact wf_set _ _ _ h
  | deleteAttr i k =>
    simp only [step]
    split
    · exact h
    · split
      · exact h
      · exact wf_set _ _ _ h
  | patch i p =>
    simp only [step]
    split
    · exact h
    · exact wf_set _ _ _ h
  | matchIncomingBad a au pre e => exact wf_matchIncomingBad s a au pre e h
  | saveBad rpt pre e => exact wf_saveBad s rpt pre e h
  | patchBad i pre e => exact wf_saveBad s (some i) pre e h

theorem runFrom_cons (s : Store) (op : Op) (t : List Op) :
    runFrom s (op :: t) = ((runFrom (step s op).1 t).1, (step s op).2 :: (runFrom (step s op).1 t).2) := rfl

theorem runFrom_append (s : Store) (h1 h2 : List Op) :
    runFrom s (h1 ++ h2) =
      ((runFrom (runFrom s h1).1 h2).1, (runFrom s h1).2 ++ (runFrom (runFrom s h1).1 h2).2) := by
  induction h1 generalizing s with
  | nil => rfl
  | cons op t ih => simp only [List.cons_append, runFrom_cons, ih]

/-- a property of states that every step preserves holds after every history -/
theorem runFrom_induction (P : Store → Prop) (hstep : ∀ s op, P s → P (step s op).1)
    (s : Store) (h : List Op) (hs : P s) : P (runFrom s h).1 := by
  induction h generalizing s with
  | nil => exact hs
  | cons op t ih => rw [runFrom_cons]; exact ih _ (hstep s op hs)

theorem wf_run (h : List Op) : (run h).1.WF := runFrom_induction Store.WF wf_step init h wf_init

/-! ### dictionary keys stay unique (also at the excluded points) -/

def Store.KeysNodup (s : Store) : Prop := (s.dict.map Prod.fst).Nodup

theorem keys_save (s : Store) (rpt : Option Nat) (p : Patch) (h : s.KeysNodup) : (s.save rpt p).1.KeysNodup := by
  rcases save_cases s rpt p with ⟨e, _⟩ | ⟨e, _⟩ | ⟨i, _, _, _, e⟩ | ⟨i, r, _, hr, _, e⟩ <;> rw [e]
  · exact h
  · exact h
  · exact h
  · exact dictSet_keys_nodup _ _ _ h

theorem keys_saveBad (s : Store) (rpt : Option Nat) (pre : Patch) (e : Err) (h : s.KeysNodup) :
    (s.saveBad rpt pre e).1.KeysNodup := by
  rcases saveBad_cases s rpt pre e with ⟨e', he⟩ | ⟨i, r, _, _, he⟩ <;> rw [he] <;> exact h

theorem keys_step (s : Store) (op : Op) (h : s.KeysNodup) : (step s op).1.KeysNodup := by
  cases op with
  | matchIncoming a au p =>
    simp only [step, Store.matchIncoming]
    split
    · exact keys_save _ _ _ h
    · split
      · exact keys_save _ _ _ (dictSet_keys_nodup _ _ _ h)
      · exact keys_save _ _ _ h
  | save rpt p =>
    simp only [step]
    cases rpt with
    | none => exact keys_save _ _ _ h
    | some i => simp only; split
                · exact keys_save _ _ _ h
                · exact h
  | matchAttr n v => exact h
  | matchIpIncoming ip => exact h
  | matchUuid v => exact h
  | attr i k v =>
    simp only [step]
    split
    · exact h
    · split <;> exact h
  | deleteAttr i k =>
    simp only [step]
    split
    · exact h
    · split <;> exact h
  | patch i p =>
    simp only [step]
    split <;> exact h
  | matchIncomingBad a au pre e =>
    simp only [step]
    rcases matchIncomingBad_cases s a au pre e with ⟨i, _, he⟩ | ⟨_, _, he⟩ | ⟨_, _, he⟩ <;> rw [he]
    · exact keys_saveBad _ _ _ _ h
    · exact keys_saveBad _ _ _ _ (dictSet_keys_nodup _ _ _ h)
    · exact h
  | saveBad rpt pre e => exact keys_saveBad s rpt pre e h
  | patchBad i pre e => exact keys_saveBad s (some i) pre e h

theorem keys_run (h : List Op) : (run h).1.KeysNodup :=
  runFrom_induction Store.KeysNodup keys_step init h (by simp [Store.KeysNodup, init])

/-! ### which object an operation may touch, and the frame -/

/-- `first` returns an object that satisfies the predicate and is stored -/
theorem first_some {s : Store} {p : Rec → Bool} {i : Nat} (h : s.first p = some i) :
    i ∈ s.refs ∧ ∃ r, s.objs[i]? = some r ∧ p r = true := by
  unfold Store.first at h
  refine ⟨List.mem_of_find?_eq_some h, ?_⟩
  have := List.find?_some h
  revert this
  cases s.objs[i]? with
  | none => simp
  | some r => intro hp; exact ⟨r, rfl, hp⟩

theorem first_none {s : Store} {p : Rec → Bool} (h : s.first p = Option.none) :
    ∀ i ∈ s.refs, ∀ r, s.objs[i]? = some r → p r = false := by
  unfold Store.first at h
  rw [List.find?_eq_none] at h
  intro i hi r hr
  have := h i hi
  rw [hr] at this
  simpa using this

/-- the object the operation may modify: the matched / created record of `match_incoming`, the
argument of the others (`none`: nothing can be modified) -/
def target (s : Store) : Op → Option Nat
  | .matchIncoming a au _ =>
    match s.first (fun r => r.addressIn == a) with
    | some i => some i
    | Option.none => if au then some s.objs.length else Option.none
  | .save rpt _ => rpt
  | .attr i _ _ => some i
  | .deleteAttr i _ => some i
  | .patch i _ => some i
  | .matchIncomingBad a au _ _ =>
    match s.first (fun r => r.addressIn == a) with
    | some i => some i
    | Option.none => if au then some s.objs.length else Option.none
  | .saveBad rpt _ _ => rpt
  | .patchBad i _ _ => some i
  | _ => Option.none

/-- the patch the operation applies (empty: none; of a malformed patch: the entries before the exception) -/
def Op.patchOf : Op → Patch
  | .matchIncoming _ _ p => p
  | .save _ p => p
  | .patch _ p => p
  | .matchIncomingBad _ _ pre _ => pre
  | .saveBad _ pre _ => pre
  | .patchBad _ pre _ => pre
  | _ => []

/-- an auto-creating lookup of an address no stored record has -/
def creates (s : Store) : Op → Bool
  | .matchIncoming a true _ => (s.first (fun r => r.addressIn == a)).isNone
  | .matchIncomingBad a true _ _ => (s.first (fun r => r.addressIn == a)).isNone
  | _ => false

theorem saveBad_objs_frame (s : Store) (rpt : Option Nat) (pre : Patch) (e : Err) (j : Nat) (hj : some j ≠ rpt) :
    (s.saveBad rpt pre e).1.objs[j]? = s.objs[j]? := by
  rcases saveBad_cases s rpt pre e with ⟨e', he⟩ | ⟨i, r, hi, _, he⟩ <;> rw [he]
  simp only
  rw [List.getElem?_set_ne]
  intro h; exact hj (by rw [hi, h])

theorem saveBad_objs_length (s : Store) (rpt : Option Nat) (pre : Patch) (e : Err) :
    (s.saveBad rpt pre e).1.objs.length = s.objs.length := by
  rcases saveBad_cases s rpt pre e with ⟨e', he⟩ | ⟨i, r, hi, _, he⟩ <;> rw [he]
  simp

theorem saveBad_dict (s : Store) (rpt : Option Nat) (pre : Patch) (e : Err) :
    (s.saveBad rpt pre e).1.dict = s.dict := by
  rcases saveBad_cases s rpt pre e with ⟨e', he⟩ | ⟨i, r, hi, _, he⟩ <;> rw [he]

theorem saveBad_err (s : Store) (rpt : Option Nat) (pre : Patch) (e : Err) :
    ∃ e', (s.saveBad rpt pre e).2 = .err e' := by
  rcases saveBad_cases s rpt pre e with ⟨e', he⟩ | ⟨i, r, hi, _, he⟩ <;> rw [he]
  · exact ⟨e', rfl⟩
  · exact ⟨e, rfl⟩

/-- the target of a patching call with a malformed patch: the entries before the exception are applied -/
theorem saveBad_target (s : Store) (i : Nat) (pre : Patch) (e : Err) (r : Rec) (hr : s.objs[i]? = some r) :
    (s.saveBad (some i) pre e).1.objs[i]? = some (applyPatch pre r) ∧ (s.saveBad (some i) pre e).2 = .err e := by
  have hi : i < s.objs.length := by
    rcases Nat.lt_or_ge i s.objs.length with h' | h'
    · exact h'
    · rw [List.getElem?_eq_none h'] at hr; cases hr
  simp only [Store.saveBad, Store.patchBad, hr]
  exact ⟨List.getElem?_set_self hi, trivial⟩

theorem save_objs_frame (s : Store) (rpt : Option Nat) (p : Patch) (j : Nat) (hj : some j ≠ rpt) :
    (s.save rpt p).1.objs[j]? = s.objs[j]? := by
  rcases save_cases s rpt p with ⟨e, _⟩ | ⟨e, _⟩ | ⟨i, _, _, _, e⟩ | ⟨i, r, hi, hr, _, e⟩ <;> rw [e]
  simp only
  rw [List.getElem?_set_ne]
  intro h; exact hj (by rw [hi, h])

theorem save_objs_length (s : Store) (rpt : Option Nat) (p : Patch) :
    (s.save rpt p).1.objs.length = s.objs.length := by
  rcases save_cases s rpt p with ⟨e, _⟩ | ⟨e, _⟩ | ⟨i, _, _, _, e⟩ | ⟨i, r, hi, hr, _, e⟩ <;> rw [e]
  simp

/-- **frame**: an operation leaves every object but its target untouched -/
theorem step_frame (s : Store) (op : Op) (j : Nat) (hj : j < s.objs.length) (ht : some j ≠ target s op) :
    (step s op).1.objs[j]? = s.objs[j]? := by
  cases op with
  | matchIncoming a au p =>
    simp only [step, Store.matchIncoming]
    simp only [target] at ht
    split
    · rename_i i hi
      rw [hi] at ht
      exact save_objs_frame _ _ _ _ ht
    · rename_i hi
      rw [hi] at ht
      split
      · rename_i hau
        rw [save_objs_frame _ _ _ _ (by simp only [Store.create]; simp [hau] at ht ⊢; exact ht)]
        simp only [Store.create]
        rw [List.getElem?_append_left hj]
      · exact save_objs_frame _ _ _ _ (by simp)
  | save rpt p =>
    simp only [step]
    simp only [target] at ht
    cases rpt with
    | none => exact save_objs_frame _ _ _ _ ht
    | some i => simp only; split
                · exact save_objs_frame _ _ _ _ ht
                · rfl
  | matchAttr n v => rfl
  | matchIpIncoming ip => rfl
  | matchUuid v => rfl
  | attr i k v =>
    simp only [target] at ht
    have hne : i ≠ j := fun h => ht (by rw [h])
    simp only [step]
    split
    · rfl
    · split
      · rfl
      · simp only; rw [List.getElem?_set_ne hne]
  | deleteAttr i k =>
    simp only [target] at ht
    have hne : i ≠ j := fun h => ht (by rw [h])
    simp only [step]
    split
    · rfl
    · split
      · rfl
      · simp only; rw [List.getElem?_set_ne hne]
  | patch i p =>
    simp only [target] at ht
    have hne : i ≠ j := fun h => ht (by rw [h])
    simp only [step]
    split
    · rfl
    · simp only; rw [List.getElem?_set_ne hne]
  | matchIncomingBad a au pre e =>
    simp only [step]
    simp only [target] at ht
    rcases matchIncomingBad_cases s a au pre e with ⟨i, hi, he⟩ | ⟨hi, hau, he⟩ | ⟨_, _, he⟩ <;> rw [he]
    · rw [hi] at ht
      exact saveBad_objs_frame _ _ _ _ _ ht
    · rw [hi, hau] at ht
      rw [saveBad_objs_frame _ _ _ _ _ (by simpa using ht)]
      simp only [Store.create]
      rw [List.getElem?_append_left hj]
  | saveBad rpt pre e =>
    simp only [target] at ht
    exact saveBad_objs_frame _ _ _ _ _ ht
  | patchBad i pre e =>
    simp only [target] at ht
    exact saveBad_objs_frame s (some i) pre e j ht

/-- objects are created by an auto-creating lookup of an unseen address and by nothing else -/
theorem step_objs_length (s : Store) (op : Op) :
    (step s op).1.objs.length = s.objs.length + (if creates s op then 1 else 0) := by
  cases op with
  | matchIncoming a au p =>
    simp only [step, Store.matchIncoming, creates]
    split
    · rename_i i hi
      rw [save_objs_length]
      cases au <;> simp [hi]
    · rename_i hi
      cases au
      · simp [save_objs_length]
      · simp [save_objs_length, hi, Store.create]
  | save rpt p =>
    simp only [step, creates]
    cases rpt with
    | none => simp [save_objs_length]
    | some i => simp only; split <;> simp [save_objs_length]
  | matchAttr n v => simp [step, creates]
  | matchIpIncoming ip => simp [step, creates]
  | matchUuid v => simp [step, creates]
  | attr i k v =>
    simp only [step, creates]
    split
    · simp
    · split <;> simp
  | deleteAttr i k =>
    simp only [step, creates]
    split
    · simp
    · split <;> simp
  | patch i p =>
    simp only [step, creates]
    split <;> simp
  | matchIncomingBad a au pre e =>
    simp only [step]
    rcases matchIncomingBad_cases s a au pre e with ⟨i, hi, he⟩ | ⟨hi, hau, he⟩ | ⟨hi, hau, he⟩ <;> rw [he]
    · rw [saveBad_objs_length]
      cases au <;> simp [creates, hi]
    · subst hau
      simp [saveBad_objs_length, creates, hi, Store.create]
    · subst hau
      simp [creates]
  | saveBad rpt pre e => simp [step, creates, saveBad_objs_length]
  | patchBad i pre e =>
    simp only [step, creates, patchBad_eq_saveBad, saveBad_objs_length]
    simp

/-- what happens to the target of a patching operation that succeeds -/
theorem save_target (s : Store) (i : Nat) (p : Patch) (r : Rec) (hr : s.objs[i]? = some r) :
    (s.save (some i) p).1.objs[i]? = some (applyPatch p r) ∧ (s.save (some i) p).2 = .obj i := by
  rcases save_cases s (some i) p with ⟨e, hp⟩ | ⟨e, h, _⟩ | ⟨i', hi', hn, _, e⟩ | ⟨i', r', hi', hr', _, e⟩
  · subst hp; rw [e]; exact ⟨hr, rfl⟩
  · cases h
  · cases hi'; rw [hr] at hn; cases hn
  · cases hi'
    rw [hr] at hr'; cases hr'
    rw [e]
    constructor
    · exact List.getElem?_set_self (getElem?_lt_of_some hr)
    · rfl

/-- an error outcome of a call whose patch is well formed leaves the state unchanged (a malformed patch
has applied the entries before the offending one, and `match_incoming` has stored the record it created:
`saveBad_target`, `saveBad_dict`) -/
theorem step_err_state (s : Store) (op : Op) (e : Err) (hw : op.malformed = false)
    (h : (step s op).2 = .err e) : (step s op).1 = s := by
  have hsave : ∀ (s' : Store) rpt p, (s'.save rpt p).2 = .err e → (s'.save rpt p).1 = s' := by
    intro s' rpt p h
    rcases save_cases s' rpt p with ⟨e', _⟩ | ⟨e', _⟩ | ⟨i, _, _, _, e'⟩ | ⟨i, r, _, hr, _, e'⟩ <;> rw [e'] at h ⊢
    cases h
  cases op with
  | matchIncoming a au p =>
    simp only [step, Store.matchIncoming] at h ⊢
    cases hi : s.first (fun r => r.addressIn == a) with
    | some i => simp only [hi] at h ⊢; exact hsave _ _ _ h
    | none =>
      simp only [hi] at h ⊢
      cases au with
      | true =>
        -- created: the save of a fresh object cannot fail
        exfalso
        simp only [if_true] at h
        have hr : (s.create a).1.objs[(s.create a).2]? = some (newRec s.objs.length a) := by
          simp [Store.create]
        have := (save_target _ _ p _ hr).2
        rw [this] at h; cases h
      | false => simp only [Bool.false_eq_true, if_false] at h ⊢; exact hsave _ _ _ h
  | save rpt p =>
    simp only [step] at h ⊢
    cases rpt with
    | none => exact hsave _ _ _ h
    | some i => simp only at h ⊢
                split
                · rename_i hlt; rw [if_pos hlt] at h; exact hsave _ _ _ h
                · rfl
  | matchAttr n v => rfl
  | matchIpIncoming ip => rfl
  | matchUuid v => rfl
  | attr i k v =>
    simp only [step] at h ⊢
    split
    · rfl
    · rename_i r hr
      rw [hr] at h
      simp only at h
      split
      · rfl
      · rename_i hv; rw [if_neg hv] at h; cases h
  | deleteAttr i k =>
    simp only [step] at h ⊢
    split
    · rfl
    · rename_i r hr
      rw [hr] at h
      simp only at h
      split
      · rfl
      · rename_i v hv; rw [hv] at h; cases h
  | patch i p =>
    simp only [step] at h ⊢
    split
    · rfl
    · rename_i r hr; rw [hr] at h; cases h
  | matchIncomingBad a au pre e' => simp [Op.malformed] at hw
  | saveBad rpt pre e' => simp [Op.malformed] at hw
  | patchBad i pre e' => simp [Op.malformed] at hw

/-- a call with a malformed patch always raises -/
theorem step_malformed_err (s : Store) (op : Op) (hm : op.malformed = true) : ∃ e, (step s op).2 = .err e := by
  cases op with
  | matchIncomingBad a au pre e =>
    simp only [step]
    rcases matchIncomingBad_cases s a au pre e with ⟨i, _, he⟩ | ⟨_, _, he⟩ | ⟨_, _, he⟩ <;> rw [he]
    · exact saveBad_err _ _ _ _
    · exact saveBad_err _ _ _ _
    · exact ⟨_, rfl⟩
  | saveBad rpt pre e => exact saveBad_err _ _ _ _
  | patchBad i pre e => exact saveBad_err s (some i) pre e
  | _ => simp [Op.malformed] at hm

/-- … and leaves the dictionary as it was, but for the entry of a record the call created before it raised -/
theorem step_malformed_dict (s : Store) (op : Op) (hm : op.malformed = true) :
    (step s op).1.dict =
      if creates s op then dictSet s.dict (.uuid s.objs.length) s.objs.length else s.dict := by
  cases op with
  | matchIncomingBad a au pre e =>
    simp only [step]
    rcases matchIncomingBad_cases s a au pre e with ⟨i, hi, he⟩ | ⟨hi, hau, he⟩ | ⟨hi, hau, he⟩ <;> rw [he]
    · rw [saveBad_dict]
      cases au <;> simp [creates, hi]
    · subst hau
      rw [saveBad_dict]
      simp [creates, hi, Store.create]
    · subst hau
      simp [creates]
  | saveBad rpt pre e => simp [step, creates, saveBad_dict]
  | patchBad i pre e =>
    simp only [step, creates, patchBad_eq_saveBad, saveBad_dict]
    simp
  | _ => simp [Op.malformed] at hm

end Dmr.Storage
