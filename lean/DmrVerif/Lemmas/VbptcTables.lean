import DmrVerif.Lemmas.VbptcLin

/-!
Decidable well-formedness predicates on the extracted VBPTC tables (evaluated by the kernel in
`Props/C09.lean`) and small arithmetic facts about the two checksum functions.  Core Lean only.
-/

namespace Dmr.Vbptc
open Dmr Dmr.Gen

namespace VCode
variable (V : VCode)

/-- every index the model's loops use is inside the array it indexes, so the silent behaviour of
`List.set` / `getBit` outside the range (where Python raises `IndexError`, or wraps around for
`row_no - 1 = -1`) is never exercised; array shapes agree with the row code -/
def inRange : Bool :=
  V.T.ii.all (fun e => decide (1 ≤ e.row) && decide (e.row ≤ V.R) && decide (e.col < V.W)
      && decide (e.il < V.n) && decide (e.key < V.n))
  && V.T.deinterleaveInfo.all (fun p => decide (p.1 < V.k) && decide (p.2 < V.n))
  && V.T.deinterleaveInfo.length == V.k
  && V.T.deinterleaveChecksum.all (fun p => decide (p.1 < V.c) && decide (p.2 < V.n))
  && V.T.deinterleaveChecksum.length == V.c
  && V.T.fullDeinterleaving.all (fun p => decide (p.1 < V.n) && decide (p.2 < V.n))
  && V.T.fullDeinterleaving.length == V.n
  && V.csCells.length == V.c
  && V.csCells.all (fun p => decide (p.1 < V.R) && decide (p.2 < V.W))
  && V.R * V.W == V.n && V.H.n == V.W && decide (V.H.k ≤ V.W) && decide (V.hrows < V.R)
  && V.H.G.all (fun r => r.length == V.H.n)

/-- `INTERLEAVING_INDICES` lists the cells in row-major order, its interleave indices are a permutation
of the on-air positions, and every derived map is what its name says -/
def cellsOk : Bool :=
  (V.T.ii.map (·.key) == List.range V.n)
  && V.T.ii.all (fun e => e.key == (e.row - 1) * V.W + e.col)
  && (List.range V.n).all (fun j => (V.T.ii.filter (fun e => e.il == j)).length == 1)
  && (V.T.fullInterleaving == V.T.ii.map (fun e => (e.key, e.il)))
  && (V.T.fullDeinterleaving == V.T.ii.map (fun e => (e.il, e.key)))
  && (V.T.deinterleaveInfo.map (·.1) == List.range V.k)
  && (V.T.deinterleaveChecksum.map (·.1) == List.range V.c)

/-- the cells `encode` writes the checksum bits to are the cells the checksum extractor reads, in the
same order (this is what commit 30c0989 repaired for the 5-bit checksum) -/
def csCellsMatch : Bool :=
  V.T.deinterleaveChecksum.map (·.2) == V.csCells.map (fun p => V.cellIl p.1 p.2)

theorem encCore_length (x : Bits) (o : Bool) : (V.encCore x o).length = V.n := by
  simp [encCore, readOut, putLoop_length]

end VCode

/-! ### small facts -/

theorem natToBits_length (w v : Nat) : (natToBits w v).length = w := by
  induction w with
  | zero => rfl
  | succ w ih => simp [natToBits, ih]

theorem cs5Bits_length (m : Bits) : (cs5Bits m).length = 5 := natToBits_length 5 _

theorem crc8Bits_length (m : Bits) : (crc8Bits m).length = 8 := natToBits_length 8 _

theorem ok_bind (a : Bits) (f : Bits → Except Err Bits) : (Except.ok a >>= f) = f a := rfl

theorem chunks_length_mul {α : Type} (n k : Nat) (hn : 0 < n) (l : List α) (h : l.length = n * k) :
    (chunks n l).length = k := by
  induction k generalizing l with
  | zero =>
    have : l = [] := List.eq_nil_of_length_eq_zero (by simpa using h)
    subst this
    rw [chunks]; simp
  | succ k ih =>
    have hne : l ≠ [] := by
      intro h0; subst h0
      have h1 : n * (k + 1) = 0 := by simpa using h.symm
      rcases Nat.mul_eq_zero.mp h1 with h2 | h2 <;> omega
    rw [chunks]
    have hc : ¬ (n = 0 ∨ l = []) := by
      intro hh; rcases hh with hh | hh
      · omega
      · exact hne hh
    simp only [hc, dite_false, List.length_cons]
    rw [ih (l.drop n) (by simp [h, Nat.mul_succ])]

theorem bitsToBytes_length (m : Bits) (k : Nat) (h : m.length = 8 * k) :
    (bitsToBytes m).length = k := by
  simp [bitsToBytes, chunks_length_mul 8 k (by decide) m h]

/-- the 9-octet assertion of `FiveBitChecksum.calculate` cannot fire on the 72 message bits -/
theorem fiveBitChecksum_ok (m : Bits) (hm : m.length = 72) :
    fiveBitChecksum (bitsToBytes m) = .ok (cs5 m) := by
  have h9 : (bitsToBytes m).length = 9 := bitsToBytes_length m 9 (by simpa using hm)
  simp [fiveBitChecksum, h9, cs5]

theorem cs5_lt (m : Bits) : cs5 m < 31 := by
  unfold cs5 fiveBitChecksumRaw
  exact Nat.mod_lt _ (by decide)

/-! ### from `Facts` of the encoder core to statements about `encode` -/

namespace VCode
variable (V : VCode)

theorem F_msg (m cs : Bits) (o : Bool) (hm : m.length = V.k) (hcs : cs.length = V.c) :
    V.F (m ++ cs ++ [o]) = V.encCore (m ++ cs) o := by
  unfold F
  have hl : (m ++ cs).length = V.k + V.c := by simp [hm, hcs]
  have h1 : (m ++ cs ++ [o]).take (V.k + V.c) = m ++ cs := by
    rw [← hl, List.take_left']; rfl
  have h2 : getBit (m ++ cs ++ [o]) (V.k + V.c) = o := by
    have := getBit_append_right (m ++ cs) [o] 0
    rw [hl, Nat.add_zero] at this
    rw [this]; rfl
  rw [h1, h2]

/-- the five statements for the on-air word of message `m`, checksum bits `cs` and parity flag `o` -/
theorem facts_msg (hall : ∀ y : Bits, y.length = V.k + V.c + 1 → V.Facts y)
    (m cs : Bits) (o : Bool) (hm : m.length = V.k) (hcs : cs.length = V.c) :
    V.dataRaw (V.encCore (m ++ cs) o) = m
    ∧ V.csRaw (V.encCore (m ++ cs) o) = cs
    ∧ (∀ r, r < V.hrows → V.txRow r (V.encCore (m ++ cs) o)
        = V.H.gen ((V.txRow r (V.encCore (m ++ cs) o)).take V.H.k))
    ∧ (∀ c, c < V.W → xorAll (V.txCol c (V.encCore (m ++ cs) o)) = o)
    ∧ V.fromAll (V.allRaw (V.encCore (m ++ cs) o)) = m := by
  have hy : (m ++ cs ++ [o]).length = V.k + V.c + 1 := by simp [hm, hcs, Nat.add_assoc]
  have f := hall _ hy
  have hF := V.F_msg m cs o hm hcs
  have hl : (m ++ cs).length = V.k + V.c := by simp [hm, hcs]
  have t1 : (m ++ cs ++ [o]).take V.k = m := by
    rw [List.append_assoc, ← hm, List.take_left']; rfl
  have t2 : ((m ++ cs ++ [o]).drop V.k).take V.c = cs := by
    rw [List.append_assoc, ← hm, List.drop_left', ← hcs, List.take_left'] <;> rfl
  have t3 : getBit (m ++ cs ++ [o]) (V.k + V.c) = o := by
    have := getBit_append_right (m ++ cs) [o] 0
    rw [hl, Nat.add_zero] at this
    rw [this]; rfl
  refine ⟨?_, ?_, ?_, ?_, ?_⟩
  · rw [← hF, f.data, t1]
  · rw [← hF, f.cs, t2]
  · intro r hr; rw [← hF]; exact f.rows r hr
  · intro c hc; rw [← hF, f.cols c hc, t3]
  · rw [← hF, f.all, t1]

/-- a message of `k` bits is encoded directly -/
theorem encode_msg (cs : Bits → Bits) (m : Bits) (even : Bool) (hm : m.length = V.k)
    (hkn : V.k ≠ V.n) :
    V.encode cs m even = .ok (V.encCore (m ++ cs m) (!even)) := by
  unfold encode
  have h1 : ¬ (V.c ≠ 0 ∧ m.length = V.k + V.c) := by rw [hm]; omega
  have h2 : ¬ m.length = V.n := by rw [hm]; exact hkn
  simp only [h1, h2, if_false]
  simp [hm]

/-- message-with-checksum: the trailing checksum bits are dropped and recomputed -/
theorem encode_withCs (cs : Bits → Bits) (y : Bits) (even : Bool) (hc : V.c ≠ 0)
    (hy : y.length = V.k + V.c) (hkn : V.k ≠ V.n) :
    V.encode cs y even = V.encode cs (y.take V.k) even := by
  have hl : (y.take V.k).length = V.k := by simp [hy]
  rw [V.encode_msg cs _ even hl hkn]
  unfold encode
  simp [hc, hy, hl]

/-- the fully de-interleaved word: the message is recovered from it first -/
theorem encode_all (cs : Bits → Bits) (w : Bits) (even : Bool) (hw : w.length = V.n)
    (hn : V.n ≠ V.k + V.c) (hf : (V.fromAll w).length = V.k) :
    V.encode cs w even = .ok (V.encCore (V.fromAll w ++ cs (V.fromAll w)) (!even)) := by
  unfold encode
  have h1 : ¬ (V.c ≠ 0 ∧ w.length = V.k + V.c) := by rw [hw]; intro h; exact hn h.2
  rw [if_neg h1, if_pos hw]
  simp [hf]

end VCode

/-! ### the CRC-8 register stays below 256, and `int2ba` / `ba2int` are inverse on it -/

theorem crcMask_eq : crcMask = 255 := by decide

theorem crcBit_lt (reg : Nat) (b : Bool) : crcBit reg b < 256 := by
  unfold crcBit
  simp only [crcMask_eq]
  split <;> split <;> exact Nat.lt_succ_of_le Nat.and_le_right

theorem crcBitwise_lt (reg : Nat) (bits : Bits) (h : reg < 256) : crcBitwise reg bits < 256 := by
  unfold crcBitwise
  induction bits generalizing reg with
  | nil => simpa using h
  | cons b bs ih => simpa using ih _ (crcBit_lt reg b)

theorem crcChunk_lt (reg : Nat) (chunk : Bits) (h : reg < 256) : crcChunk reg chunk < 256 := by
  unfold crcChunk
  split
  · apply Nat.xor_lt_two_pow (n := 8)
    · exact crcBitwise_lt 0 _ (by decide)
    · rw [crcMask_eq]; exact Nat.lt_succ_of_le Nat.and_le_right
  · exact crcBitwise_lt reg chunk h

theorem crc8_lt (data : Bits) : crc8 data < 256 := by
  unfold crc8
  have h0 : crc8Init &&& crcMask < 256 := by decide
  have : ∀ (l : List Bits) (r : Nat), r < 256 → l.foldl crcChunk r < 256 := by
    intro l
    induction l with
    | nil => intro r hr; simpa using hr
    | cons c cs ih => intro r hr; simpa using ih _ (crcChunk_lt r c hr)
  exact Nat.xor_lt_two_pow (n := 8) (this _ _ h0) (by decide)

theorem foldl_natToBits (w v acc : Nat) :
    (natToBits w v).foldl (fun acc b => 2 * acc + b.toNat) acc = acc * 2 ^ w + v % 2 ^ w := by
  induction w generalizing acc with
  | zero => simp [natToBits, Nat.mod_one]
  | succ w ih =>
    simp only [natToBits, List.foldl_cons, ih]
    have hb : (v / 2 ^ w % 2 == 1).toNat = v / 2 ^ w % 2 := by
      rcases Nat.mod_two_eq_zero_or_one (v / 2 ^ w) with h | h <;> simp [h]
    rw [hb, Nat.mod_pow_succ, Nat.pow_succ, Nat.add_mul, Nat.mul_assoc 2 acc, ← Nat.mul_assoc acc]
    generalize acc * 2 ^ w = q
    generalize v % 2 ^ w = r
    rcases Nat.mod_two_eq_zero_or_one (v / 2 ^ w) with h | h <;> rw [h] <;> omega

/-- `ba2int(int2ba(v, length=w)) = v` for `v < 2^w` -/
theorem bitsToNat_natToBits (w v : Nat) (h : v < 2 ^ w) : bitsToNat (natToBits w v) = v := by
  unfold bitsToNat
  rw [foldl_natToBits, Nat.zero_mul, Nat.zero_add, Nat.mod_eq_of_lt h]

end Dmr.Vbptc
