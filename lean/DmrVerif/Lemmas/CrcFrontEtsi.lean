import DmrVerif.Lemmas.CrcFront

/-!
The front ends `CRC8 / CRC9 / CRC16` instantiated with the extracted singletons (`Gen/Crc.lean`), in
the form C04 needs: the front-end value is inversion / mask applied to `feed`, the zero register fed
with the message.  Core Lean only (the polynomial reading of `feed` is C05's `bitwise_eq_rem`).
-/

namespace Dmr
namespace Crc
open Dmr.Gen

theorem front_cfgs : front8.1 = Gen.crc8 ∧ front9.1 = Gen.crc9 ∧ front16.1 = Gen.crc16 := by decide

theorem ok8 : OkCfg Gen.crc8 := okCfg_spec (by decide)
theorem ok9 : OkCfg Gen.crc9 := okCfg_spec (by decide)
theorem ok16 : OkCfg Gen.crc16 := okCfg_spec (by decide)

/-- the polynomial bit strings (without the leading term) -/
def p8 : Bits := polyBits Gen.crc8
def p9 : Bits := polyBits Gen.crc9
def p16 : Bits := polyBits Gen.crc16

theorem p8_length : p8.length = 8 := by decide
theorem p9_length : p9.length = 9 := by decide
theorem p16_length : p16.length = 16 := by decide

theorem calc8_feed (bits : Bits) : calc8 false bits = .ok (feed p8 bits) := by
  unfold calc8 tbl8
  rw [front_cfgs.1, calculator_eq _ ok8.table, calcBitwise_eq_feed _ ok8]; rfl

theorem calc9_feed (bits : Bits) : calc9 false bits = .ok (feed p9 bits) := by
  unfold calc9 tbl9
  rw [front_cfgs.2.1, calculator_eq _ ok9.table, calcBitwise_eq_feed _ ok9]; rfl

theorem calc16_feed (bits : Bits) : calc16 false bits = .ok (feed p16 bits) := by
  unfold calc16 tbl16
  rw [front_cfgs.2.2, calculator_eq _ ok16.table, calcBitwise_eq_feed _ ok16]; rfl

theorem crc8_feed (bits : Bits) : Crc.crc8 false bits = .ok (bitsToNat (feed p8 bits)) := by
  unfold Crc.crc8 crc8With
  rw [calc8_feed]; rfl

theorem crc16_feed (data : Bytes) (mask : Nat) :
    Crc.crc16 data mask = .ok (Nat.xor (bitsToNat (inv (feed p16 (bytesToBits data)))) mask) := by
  unfold Crc.crc16 crc16With
  rw [calc16_feed]; rfl

theorem crc9Bits_feed (src : Bits) (mask : Nat) :
    crc9Bits false src mask = .ok (Nat.xor (bitsToNat (inv (feed p9 src))) mask) := by
  unfold crc9Bits crc9BitsWith
  rw [calc9_feed]; rfl

/-- `~r` is `r ⊕ 1…1` -/
theorem inv_eq_xor_ones (r : Bits) : inv r = xorBits r (List.replicate r.length true) := by
  induction r with
  | nil => rfl
  | cons x xs ih =>
    simp only [inv, List.map_cons, List.length_cons, List.replicate_succ, xorBits_cons_cons] at ih ⊢
    rw [ih]; cases x <;> rfl

/-- the affine constant of a masked, inverted front end: `1…1 ⊕ mask bits` -/
def affK (w mask : Nat) : Bits := xorBits (List.replicate w true) (natToBits w mask)

theorem affK_length (w mask : Nat) : (affK w mask).length = w := by
  simp [affK, natToBits_length]

/-- a `w`-bit field holds `ba2int(~r) ^ mask` exactly when it is `r ⊕ K` -/
theorem masked_field_iff (r fld : Bits) (mask : Nat) (hm : mask < 2 ^ r.length)
    (hl : fld.length = r.length) :
    Nat.xor (bitsToNat (inv r)) mask = bitsToNat fld ↔ xorBits r (affK r.length mask) = fld := by
  have hinv : (inv r).length = r.length := inv_length r
  have key : natToBits r.length (Nat.xor (bitsToNat (inv r)) mask) = xorBits r (affK r.length mask) := by
    have := natToBits_xor (inv r) mask (by rw [hinv]; exact hm)
    rw [hinv] at this
    rw [this, inv_eq_xor_ones, affK, xorBits_assoc]
  constructor
  · intro h
    rw [← key, h, ← hl, natToBits_bitsToNat]
  · intro h
    have hlt : Nat.xor (bitsToNat (inv r)) mask < 2 ^ r.length :=
      Nat.xor_lt_two_pow (by have := bitsToNat_lt (inv r); rwa [hinv] at this) hm
    rw [← h, ← key, bitsToNat_natToBits _ _ hlt]

/-- **Affine code-word detection.**  `d ++ f` satisfies `feed d ⊕ K = f`; if the difference to
`d' ++ f'` feeds to non-zero, `d' ++ f'` does not satisfy it. -/
theorem affine_detect (p K d f d' f' : Bits) (hd : d.length = d'.length)
    (hK : K.length = p.length)
    (hv : xorBits (feed p d) K = f)
    (h : feed p (xorBits (d ++ f) (d' ++ f')) ≠ zeros p.length) :
    xorBits (feed p d') K ≠ f' := by
  intro hv'
  apply h
  rw [xorBits_append _ _ _ _ hd, ← hv, ← hv']
  have hfl := feed_length p d
  have hfl' := feed_length p d'
  have : xorBits (xorBits (feed p d) K) (xorBits (feed p d') K) = feed p (xorBits d d') := by
    rw [xorBits_xor_four, xorBits_self, hK, feed_xor p d d' hd,
      xorBits_zeros_right' _ _ (by simp [hfl, hfl'])]
  rw [this]
  exact codeword_feed p _

end Crc
end Dmr
