import DmrVerif.Model.TranslTmsExt
import DmrVerif.Lemmas.TranslArs

/-!
Equality of the definitions TRANSLATED from the source of `motorola/text_messaging_service.py` (`Gen/TranslTms.lean`,
regenerated on every run by `tools/py2lean_obj.py`) with the hand-written model `Model/Tms.lean` (C16), call boundary
instantiated by `modelExt` (`Model/TranslTmsExt.lean`).  Core Lean only.
-/

namespace Dmr.Transl.Tms
open Dmr Dmr.Py Dmr.PyBits Dmr.PyObj
open Dmr.Transl.Ars (slice_lit_lit slice_nat toBytesBig1 toBytesBig2 isBytes_cons ofE_ok ofE_error liftE)

/-! ### headers, octet by octet -/

theorem fh_table : ∀ b : Fin 256, FirstHeader.from_bytes modelExt [b.val] = ofE fhObj (Dmr.Tms.headerOfByte b.val) := by
  decide +kernel

theorem fh_head (ext : Ext) (b : Nat) (t : List Nat) :
    FirstHeader.from_bytes ext (b :: t) = FirstHeader.from_bytes ext [b] := by
  unfold FirstHeader.from_bytes
  have h1 : Py.slice (b :: t) (some 0) (some 1) = [b] := by rw [slice_lit_lit]; simp
  have h2 : Py.slice [b] (some 0) (some 1) = [b] := by rw [slice_lit_lit]; simp
  have a1 : decide (Py.len (b :: t) ≥ 1) = true := by simp; omega
  have a2 : decide (Py.len [b] ≥ 1) = true := by simp
  simp only [h1, h2, a1, a2]

theorem fh_from_bytes_eq (d : List Nat) (hd : isBytes d) :
    FirstHeader.from_bytes modelExt d = match d with
      | [] => .error .assertion
      | b :: _ => ofE fhObj (Dmr.Tms.headerOfByte b) := by
  cases d with
  | nil => rfl
  | cons b t =>
    rw [fh_head]
    exact fh_table ⟨b, (isBytes_cons hd).1⟩

/-- `FirstHeader.as_bytes()` for all 8 × 3 headers of the model -/
theorem fh_as_bytes_eq (h : Dmr.Tms.FirstHeader) :
    FirstHeader.as_bytes modelExt (fhObj h) = ofE (fun b => [b]) (Dmr.Tms.headerByte h) := by
  rcases h with ⟨m, a, r, t⟩
  cases m <;> cases a <;> cases r <;> cases t <;> decide +kernel

theorem set_more_eq (h : Dmr.Tms.FirstHeader) (more : Bool) :
    FirstHeader.set_has_more_headers modelExt (fhObj h) more = .ok (fhObj { h with more := more }, ()) := rfl

theorem cap_table : ∀ b : Fin 256,
    AvailabilitySecondHeader.from_bytes modelExt [b.val]
      = ofE capObj (match Dmr.Tms.capOfCode (b.val % 4) with | none => .error .value | some c => .ok c) := by
  decide +kernel

theorem cap_from_bytes_eq (d : List Nat) (hd : isBytes d) :
    AvailabilitySecondHeader.from_bytes modelExt d = match d with
      | [] => .error .index
      | b :: _ => ofE capObj (match Dmr.Tms.capOfCode (b % 4) with | none => .error .value | some c => .ok c) := by
  cases d with
  | nil => rfl
  | cons b t =>
    have e : AvailabilitySecondHeader.from_bytes modelExt (b :: t) = AvailabilitySecondHeader.from_bytes modelExt [b] := by
      unfold AvailabilitySecondHeader.from_bytes
      simp only [getB_lit, List.getElem?_cons_zero]
    rw [e]
    exact cap_table ⟨b, (isBytes_cons hd).1⟩

theorem cap_as_bytes_eq (c : Nat) :
    AvailabilitySecondHeader.as_bytes modelExt (capObj c) = if c ≥ 256 then .error .overflow else .ok [c] := by
  unfold AvailabilitySecondHeader.as_bytes capObj
  simp only [attr_some, ok_bind, toBytesBig1]
  by_cases h : c < 256
  · rw [if_pos h, if_neg (by omega)]
  · rw [if_neg h, if_pos (by omega)]

/-! ### the optional header (sequence number and encoding) -/

/-- `encode_sn_and_encoding()` for sequence numbers below 128: all 128 × 3 cases by evaluation -/
theorem sn_table : ∀ (sn : Fin 128) (e : Fin 3),
    let enc : Option Dmr.Tms.Encoding := match e.val with | 0 => none | 1 => some .undefined | _ => some .ucs2le
    TextMessagingService.encode_sn_and_encoding modelExt
        (tmsObj ⟨⟨false, false, false, .text⟩, [], none, some sn.val, enc, none⟩)
      = ofE id (Dmr.Tms.encodeSn (some sn.val) enc) := by
  decide +kernel

def snObj (seq : Option Nat) (enc : Option Dmr.Tms.Encoding) : TextMessagingService :=
  tmsObj ⟨⟨false, false, false, .text⟩, [], none, seq, enc, none⟩

theorem encode_sn_indep (m : Dmr.Tms.Msg) :
    TextMessagingService.encode_sn_and_encoding modelExt (tmsObj m)
      = TextMessagingService.encode_sn_and_encoding modelExt (snObj m.seq m.encoding) := rfl

theorem encode_sn_big (sn : Nat) (h : ¬ sn < 128) (enc : Option Dmr.Tms.Encoding) :
    TextMessagingService.encode_sn_and_encoding modelExt (snObj (some sn) enc) = .error .overflow := by
  have h7 : PyBits.int2ba (sn : Int) 7 = .error .overflow := by
    rw [int2ba_lit sn 7 (by decide)]
    have : ¬ sn < 2 ^ 7 := by simpa using h
    rw [if_neg this]
  unfold TextMessagingService.encode_sn_and_encoding snObj tmsObj
  cases enc with
  | none => simp [h7]
  | some e => cases e <;> simp [h7]

/-- `encode_sn_and_encoding()` for every sequence number (`None`: `TypeError`; from 128 on: `OverflowError`) and encoding -/
theorem encode_sn_eq (m : Dmr.Tms.Msg) :
    TextMessagingService.encode_sn_and_encoding modelExt (tmsObj m) = ofE id (Dmr.Tms.encodeSn m.seq m.encoding) := by
  rw [encode_sn_indep]
  cases hs : m.seq with
  | none =>
    cases he : m.encoding with
    | none => rfl
    | some e => cases e <;> rfl
  | some sn =>
    by_cases h : sn < 128
    · cases he : m.encoding with
      | none => exact sn_table ⟨sn, h⟩ ⟨0, by decide⟩
      | some e =>
        cases e with
        | undefined => exact sn_table ⟨sn, h⟩ ⟨1, by decide⟩
        | ucs2le => exact sn_table ⟨sn, h⟩ ⟨2, by decide⟩
    · rw [encode_sn_big sn h]
      unfold Dmr.Tms.encodeSn
      have : sn ≥ 128 := by omega
      simp [this]
      rfl

theorem t0 : ∀ b : Fin 256, ((b.val &&& 128) != 0) = (b.val / 128 % 2 == 1) ∧ b.val &&& 31 = b.val % 32 := by
  decide +kernel

theorem t1 : ∀ (b : Fin 256) (s : Fin 32), (s.val ||| (b.val &&& 96)) = s.val + 32 * (b.val / 32 % 4) := by
  decide +kernel

theorem t2 : ∀ b : Fin 256,
    PyObj.enumCall "TMSEncoding" Gen.Tms.encodingVal Gen.Tms.encodingGraph ((b.val &&& 31 : Nat) : Int)
      = match Dmr.Tms.Encoding.ofCode (b.val % 32) with
        | none => .error .value
        | some e => .ok ((e.val : Nat) : Int) := by
  decide +kernel

theorem decode_sn_eq (data : Bytes) (hd : isBytes data) (idx : Nat) :
    TextMessagingService.decode_sn_and_encoding modelExt data (idx : Int)
      = ofE (fun p : Nat × Nat × Option Dmr.Tms.Encoding =>
          ((p.1 : Int), (p.2.1 : Int), p.2.2.map (fun e => ((e.val : Nat) : Int)))) (Dmr.Tms.decodeSn data idx) := by
  unfold TextMessagingService.decode_sn_and_encoding Dmr.Tms.decodeSn
  have e1 : (idx : Int) + 1 = ((idx + 1 : Nat) : Int) := by push_cast; rfl
  have e2 : ((idx + 1 : Nat) : Int) - 1 = (idx : Int) := by push_cast; omega
  have e3 : ((idx + 1 : Nat) : Int) + 1 = ((idx + 2 : Nat) : Int) := by push_cast; omega
  simp only [e1, e2, e3, getB_ofNat]
  cases h0 : data[idx]? with
  | none => rfl
  | some b0 =>
    have hb0 : b0 < 256 := hd b0 (List.mem_of_getElem? h0)
    obtain ⟨c0, m0⟩ := t0 ⟨b0, hb0⟩
    simp only [ok_bind, band_lit] at c0 m0 ⊢
    cases hc : (b0 / 128 % 2 == 1) with
    | false =>
      have z : b0 &&& 128 = 0 := by
        rw [hc] at c0
        simpa using c0
      have : ((((b0 &&& 128 : Nat) : Int)) != 0) = false := by rw [z]; rfl
      simp only [this, Bool.false_eq_true, ↓reduceIte, m0]
      rfl
    | true =>
      have z : ¬ b0 &&& 128 = 0 := by
        rw [hc] at c0
        simpa using c0
      have : ((((b0 &&& 128 : Nat) : Int)) != 0) = true := by
        rw [bne_iff_ne]
        intro h; exact z (by exact_mod_cast h)
      simp only [this, ↓reduceIte]
      cases h1 : data[idx + 1]? with
      | none => rfl
      | some b1 =>
        have hb1 : b1 < 256 := hd b1 (List.mem_of_getElem? h1)
        have hs : b0 &&& 31 < 32 := by rw [m0]; omega
        have q1 := t1 ⟨b1, hb1⟩ ⟨b0 &&& 31, hs⟩
        have q2 := t2 ⟨b1, hb1⟩
        simp only [] at q1 q2
        rw [m0] at q1
        simp only [ok_bind, band_lit, bor_ofNat, q2, m0, q1]
        have v0 : Dmr.Tms.Encoding.undefined.val = 0 := by decide
        have v1 : Dmr.Tms.Encoding.ucs2le.val = 4 := by decide
        cases Dmr.Tms.Encoding.ofCode (b1 % 32) with
        | none => rfl
        | some e =>
          cases e
          · simp only [v0]; rfl
          · simp only [v1]; rfl

end Dmr.Transl.Tms
