import DmrVerif.Lemmas.Packed
import DmrVerif.Model.Crc

/-!
Core-Lean theory of the CRC engine model (`Model/Crc.lean`): register lengths, the chunk loop,
GF(2)-linearity of the register, "the top register bits act like input bits" (which is what makes the
table register equal to the bit-by-bit one), table mode = bit-by-bit mode for every length, and the
little-endian container of whole octets.  No Mathlib.
-/

namespace Dmr
namespace Crc

/-! ### bit strings and numbers -/

theorem natToBits_length (w v : Nat) : (natToBits w v).length = w := by
  induction w with
  | zero => simp [natToBits]
  | succ w ih => simp [natToBits, ih]

theorem natToBits_zero (w : Nat) : natToBits w 0 = zeros w := by
  induction w with
  | zero => simp [natToBits]
  | succ w ih => simp [natToBits, ih]

theorem bitsToNat_append_single (bs : Bits) (b : Bool) :
    bitsToNat (bs ++ [b]) = 2 * bitsToNat bs + b.toNat := by
  simp [bitsToNat, List.foldl_append]

theorem packLE_eq_foldr (l : Bits) : packLE l = l.foldr (fun b acc => b.toNat + 2 * acc) 0 := by
  induction l with
  | nil => rfl
  | cons x xs ih => simp [packLE, ih]

theorem bitsToNat_eq_packLE_reverse (bs : Bits) : bitsToNat bs = packLE bs.reverse := by
  rw [packLE_eq_foldr, List.foldr_reverse]
  unfold bitsToNat
  congr 1
  funext acc b
  omega

theorem xorBits_reverse (a b : Bits) (h : a.length = b.length) :
    (xorBits a b).reverse = xorBits a.reverse b.reverse := by
  unfold xorBits
  rw [List.reverse_zipWith h]

theorem bitsToNat_xorBits (a b : Bits) (h : a.length = b.length) :
    bitsToNat (xorBits a b) = Nat.xor (bitsToNat a) (bitsToNat b) := by
  rw [bitsToNat_eq_packLE_reverse, xorBits_reverse a b h, packLE_xorBits _ _ (by simp [h]),
    ← bitsToNat_eq_packLE_reverse, ← bitsToNat_eq_packLE_reverse]

theorem bitsToNat_foldl (acc : Nat) (bs : Bits) :
    bs.foldl (fun acc b => 2 * acc + b.toNat) acc = acc * 2 ^ bs.length + bitsToNat bs := by
  induction bs generalizing acc with
  | nil => simp [bitsToNat]
  | cons x xs ih =>
    simp only [List.foldl_cons, List.length_cons, bitsToNat]
    rw [ih, ih (2 * 0 + x.toNat), Nat.pow_succ]
    simp only [Nat.mul_zero, Nat.zero_add, Nat.add_mul]
    rw [Nat.add_assoc]
    congr 1
    rw [Nat.mul_comm 2 acc, Nat.mul_assoc, Nat.mul_comm 2]

theorem bitsToNat_cons (b : Bool) (bs : Bits) :
    bitsToNat (b :: bs) = b.toNat * 2 ^ bs.length + bitsToNat bs := by
  have := bitsToNat_foldl (2 * 0 + b.toNat) bs
  simpa [bitsToNat] using this

theorem bitsToNat_lt (bs : Bits) : bitsToNat bs < 2 ^ bs.length := by
  induction bs with
  | nil => simp [bitsToNat]
  | cons b bs ih =>
    rw [bitsToNat_cons, List.length_cons, Nat.pow_succ]
    cases b <;> simp <;> omega

theorem bitsToNat_append (a b : Bits) :
    bitsToNat (a ++ b) = bitsToNat a * 2 ^ b.length + bitsToNat b := by
  induction a with
  | nil => simp [bitsToNat]
  | cons x xs ih =>
    rw [List.cons_append, bitsToNat_cons, bitsToNat_cons, ih, List.length_append, Nat.pow_add,
      Nat.add_mul, Nat.mul_assoc, Nat.add_assoc]

theorem natToBits_bitsToNat (bs : Bits) : natToBits bs.length (bitsToNat bs) = bs := by
  induction bs with
  | nil => simp [natToBits]
  | cons b bs ih =>
    have hlt := bitsToNat_lt bs
    have hpos : 0 < 2 ^ bs.length := Nat.two_pow_pos _
    simp only [List.length_cons, natToBits, bitsToNat_cons]
    have h1 : (b.toNat * 2 ^ bs.length + bitsToNat bs) / 2 ^ bs.length = b.toNat := by
      rw [Nat.add_comm, Nat.add_mul_div_right _ _ hpos, Nat.div_eq_of_lt hlt, Nat.zero_add]
    rw [h1]
    congr 1
    · cases b <;> simp
    · -- the lower bits do not see the top bit
      have : ∀ (w : Nat) (x y : Nat), w ≤ bs.length → natToBits w (y * 2 ^ bs.length + x) = natToBits w x := by
        intro w
        induction w with
        | zero => intros; simp [natToBits]
        | succ w ihw =>
          intro x y hw
          simp only [natToBits]
          rw [ihw x y (by omega)]
          congr 2
          have hsplit : 2 ^ bs.length = 2 ^ w * (2 * 2 ^ (bs.length - w - 1)) := by
            rw [← Nat.pow_succ', ← Nat.pow_add]; congr 1; omega
          rw [hsplit, ← Nat.mul_assoc, Nat.mul_comm y, Nat.mul_assoc, Nat.add_comm,
            Nat.add_mul_div_left _ _ (Nat.two_pow_pos _)]
          rw [Nat.mul_comm y, Nat.mul_assoc, Nat.add_mul_mod_self_left]
      rw [this bs.length _ _ (Nat.le_refl _), ih]

theorem bitsToNat_shiftRight (a b : Bits) : bitsToNat (a ++ b) >>> b.length = bitsToNat a := by
  rw [bitsToNat_append, Nat.shiftRight_eq_div_pow, Nat.add_comm,
    Nat.add_mul_div_right _ _ (Nat.two_pow_pos _), Nat.div_eq_of_lt (bitsToNat_lt b), Nat.zero_add]

theorem bitsToNat_take_shift (r : Bits) (k : Nat) :
    bitsToNat r >>> (r.length - k) = bitsToNat (r.take k) := by
  have := bitsToNat_shiftRight (r.take k) (r.drop k)
  rwa [List.take_append_drop, List.length_drop] at this


/-! ### the register: lengths -/

theorem shl_length (n : Nat) (r : Bits) : (shl n r).length = r.length := by
  simp [shl]

theorem shl_eq (n : Nat) (r : Bits) (h : n ≤ r.length) : shl n r = r.drop n ++ zeros n := by
  unfold shl
  rw [List.drop_append_of_le_length h]

theorem shl_one_cons (x : Bool) (r : Bits) : shl 1 (x :: r) = r ++ [false] := by
  simp [shl, zeros]

theorem shl_xor (n : Nat) (a b : Bits) (h : a.length = b.length) :
    shl n (xorBits a b) = xorBits (shl n a) (shl n b) := by
  unfold shl
  have hz : zeros n = xorBits (zeros n) (zeros n) := by rw [xorBits_self]; simp
  conv => lhs; rw [hz, ← xorBits_append _ _ _ _ h]
  unfold xorBits
  rw [List.drop_zipWith]

theorem stepBit_length (p r : Bits) (b : Bool) (h : p.length = r.length) :
    (stepBit p r b).length = r.length := by
  unfold stepBit
  split <;> simp [shl_length, h]

theorem procBits_length (p r bits : Bits) (h : p.length = r.length) :
    (procBits p r bits).length = r.length := by
  unfold procBits
  induction bits generalizing r with
  | nil => simp
  | cons b bs ih =>
    rw [List.foldl_cons, ih _ (by rw [stepBit_length p r b h, h]), stepBit_length p r b h]

theorem procBits_append (p r a b : Bits) : procBits p r (a ++ b) = procBits p (procBits p r a) b := by
  simp [procBits, List.foldl_append]

theorem procBits_cons (p r : Bits) (x : Bool) (a : Bits) :
    procBits p r (x :: a) = procBits p (stepBit p r x) a := by
  simp [procBits]

@[simp] theorem procBits_nil (p r : Bits) : procBits p r [] = r := rfl

/-! ### GF(2)-linearity of the register -/

theorem headD_xorBits (a b : Bits) (h : a.length = b.length) :
    (xorBits a b).headD false = Bool.xor (a.headD false) (b.headD false) := by
  cases a with
  | nil => cases b with
    | nil => rfl
    | cons _ _ => simp at h
  | cons x xs => cases b with
    | nil => simp at h
    | cons y ys => simp

theorem xorBits_xor_four (a b c d : Bits) :
    xorBits (xorBits a b) (xorBits c d) = xorBits (xorBits a c) (xorBits b d) := by
  rw [xorBits_assoc, xorBits_assoc, ← xorBits_assoc b c d, xorBits_comm b c, xorBits_assoc c b d]

/-- `p` or the zero word -/
def sel (c : Bool) (p : Bits) : Bits := if c then p else zeros p.length

theorem sel_length (c : Bool) (p : Bits) : (sel c p).length = p.length := by
  cases c <;> simp [sel]

theorem sel_xor (c d : Bool) (p : Bits) : sel (Bool.xor c d) p = xorBits (sel c p) (sel d p) := by
  cases c <;> cases d <;> simp [sel, xorBits_self, xorBits_zeros_right, xorBits_zeros_left]

theorem stepBit_eq (p r : Bits) (b : Bool) (h : p.length = r.length) :
    stepBit p r b = xorBits (shl 1 r) (sel (r.headD false != b) p) := by
  unfold stepBit sel
  split
  · rfl
  · rw [xorBits_zeros_right' _ _ (by simp [shl_length, h])]

theorem stepBit_xor (p r1 r2 : Bits) (b1 b2 : Bool) (h1 : p.length = r1.length)
    (h2 : r1.length = r2.length) :
    stepBit p (xorBits r1 r2) (Bool.xor b1 b2) = xorBits (stepBit p r1 b1) (stepBit p r2 b2) := by
  rw [stepBit_eq p _ _ (by simp [h1, h2]), stepBit_eq p r1 b1 h1, stepBit_eq p r2 b2 (h1.trans h2),
    headD_xorBits r1 r2 h2, shl_xor 1 r1 r2 h2, xorBits_xor_four, ← sel_xor]
  congr 2
  cases r1.headD false <;> cases r2.headD false <;> cases b1 <;> cases b2 <;> rfl

theorem procBits_xor (p r1 r2 m1 m2 : Bits) (h1 : p.length = r1.length)
    (h2 : r1.length = r2.length) (hm : m1.length = m2.length) :
    procBits p (xorBits r1 r2) (xorBits m1 m2) = xorBits (procBits p r1 m1) (procBits p r2 m2) := by
  induction m1 generalizing m2 r1 r2 with
  | nil => cases m2 with
    | nil => simp
    | cons _ _ => simp at hm
  | cons x xs ih => cases m2 with
    | nil => simp at hm
    | cons y ys =>
      simp only [List.length_cons, Nat.add_right_cancel_iff] at hm
      rw [xorBits_cons_cons, procBits_cons, procBits_cons, procBits_cons, stepBit_xor p r1 r2 x y h1 h2]
      exact ih _ _ _ (by rw [stepBit_length p r1 x h1, h1])
        (by rw [stepBit_length p r1 x h1, stepBit_length p r2 y (h1.trans h2), h2]) hm

theorem shl_one_zeros (w : Nat) : shl 1 (zeros w) = zeros w := by
  cases w with
  | zero => simp [shl]
  | succ w =>
    rw [zeros_succ, shl_one_cons]
    simp only [zeros]
    rw [← List.replicate_succ', List.replicate_succ]

theorem stepBit_zeros_false (p : Bits) (w : Nat) : stepBit p (zeros w) false = zeros w := by
  unfold stepBit
  cases w with
  | zero => simp [shl]
  | succ w => rw [shl_one_zeros]; simp

/-- feeding zeros into the zero register leaves it zero -/
theorem procBits_zeros (p : Bits) (w n : Nat) : procBits p (zeros w) (zeros n) = zeros w := by
  induction n with
  | zero => simp
  | succ n ih =>
    rw [zeros_succ, procBits_cons]
    rw [stepBit_zeros_false, ih]

/-- leading zeros of the message do not matter when the register starts at zero -/
theorem procBits_zeros_append (p : Bits) (w n : Nat) (m : Bits) :
    procBits p (zeros w) (zeros n ++ m) = procBits p (zeros w) m := by
  rw [procBits_append, procBits_zeros]

/-! ### the top register bits act like input bits -/

/-- shifting out zeros: `k` zero input bits move a register `0ᵏ ++ t` to `t ++ 0ᵏ` -/
theorem procBits_low (p : Bits) (k : Nat) (t : Bits) :
    procBits p (zeros k ++ t) (zeros k) = t ++ zeros k := by
  induction k generalizing t with
  | zero => simp
  | succ k ih =>
    rw [zeros_succ, procBits_cons]
    have : stepBit p (false :: (zeros k ++ t)) false = zeros k ++ (t ++ [false]) := by
      unfold stepBit
      simp [shl_one_cons]
    rw [List.cons_append, this, ih]
    simp

/-- a register whose only content is in its top `k` bits, fed `k` zeros, ends where the zero register
ends after being fed those `k` bits -/
theorem procBits_high (p : Bits) (h : Bits) (m : Nat) (hp : p.length = h.length + m) :
    procBits p (h ++ zeros m) (zeros h.length) = procBits p (zeros p.length) h := by
  induction h generalizing m with
  | nil => simp [hp]
  | cons x h' ih =>
    simp only [List.length_cons] at hp ⊢
    rw [zeros_succ, procBits_cons, procBits_cons]
    have hl : (h' ++ zeros (m + 1)).length = p.length := by simp; omega
    have e1 : stepBit p (x :: h' ++ zeros m) false = xorBits (h' ++ zeros (m + 1)) (sel x p) := by
      rw [stepBit_eq p _ _ (by simp; omega)]
      simp only [List.cons_append, shl_one_cons, List.headD_cons, List.append_assoc]
      congr 1
      · simp [zeros, List.replicate_succ']
      · cases x <;> rfl
    have e2 : stepBit p (zeros p.length) x = sel x p := by
      rw [stepBit_eq p _ _ (by simp)]
      rw [shl_one_zeros, xorBits_zeros_left _ _ (sel_length _ _)]
      congr 1
      cases hpl : p.length with
      | zero => omega
      | succ n => cases x <;> simp
    rw [e1, e2]
    have hz : zeros h'.length = xorBits (zeros h'.length) (zeros h'.length) := by
      rw [xorBits_self]; simp
    have hx : sel x p = xorBits (zeros p.length) (sel x p) := by
      rw [xorBits_zeros_left _ _ (sel_length _ _)]
    conv => lhs; rw [hz, procBits_xor p _ _ _ _ hl.symm (by rw [hl, sel_length]) rfl]
    rw [ih (m + 1) (by omega)]
    conv => rhs; rw [hx, ← xorBits_zeros_right h', procBits_xor p _ _ _ _ (by simp) (by simp [sel_length]) (by simp)]

/-- **Key lemma.**  With `|h| = |c| = k` and a `w`-bit register `h ++ t`: feeding the chunk `c` bit by
bit gives `(zero register fed with c ⊕ h) ⊕ (t shifted up by k)` — exactly the table register's
`table[chunk ^ top bits] ^ (register << k)`. -/
theorem procBits_top (p h t c : Bits) (hc : c.length = h.length) (hp : p.length = h.length + t.length) :
    procBits p (h ++ t) c
      = xorBits (procBits p (zeros p.length) (xorBits c h)) (t ++ zeros h.length) := by
  have hsplit : h ++ t = xorBits (xorBits (h ++ zeros t.length) (zeros h.length ++ t)) (zeros p.length) := by
    rw [xorBits_append _ _ _ _ (by simp), xorBits_zeros_right, xorBits_zeros_left _ _ rfl,
      xorBits_zeros_right' _ _ (by simp [hp])]
  have hcs : c = xorBits (xorBits (zeros h.length) (zeros h.length)) c := by
    rw [xorBits_self, zeros_length, xorBits_zeros_left _ _ hc]
  conv => lhs; rw [hsplit, hcs]
  rw [procBits_xor p _ _ _ _ (by simp [hp]) (by simp [hp]) (by simp [hc]),
    procBits_xor p _ _ _ _ (by simp [hp]) (by simp) (by simp),
    procBits_high p h t.length hp, procBits_low]
  rw [xorBits_assoc, xorBits_comm (t ++ zeros h.length), ← xorBits_assoc]
  congr 1
  have hz : zeros p.length = xorBits (zeros p.length) (zeros p.length) := by
    rw [xorBits_self]; simp
  conv => rhs; rw [hz, xorBits_comm c h, procBits_xor p _ _ _ _ (by simp) rfl hc.symm]


/-! ### the chunk loop `for start_bit in range(0, len(bits), feed_width)` -/

theorem nChunks_zero (fw : Nat) (h : 0 < fw) : nChunks fw 0 = 0 := by
  unfold nChunks
  exact Nat.div_eq_of_lt (by omega)

theorem nChunks_add (fw n : Nat) (h : 0 < fw) : nChunks fw (fw + n) = nChunks fw n + 1 := by
  unfold nChunks
  rw [show fw + n + fw - 1 = (n + fw - 1) + fw by omega, Nat.add_div_right _ h]

theorem nChunks_short (fw n : Nat) (h0 : 0 < n) (h : n ≤ fw) : nChunks fw n = 1 := by
  unfold nChunks
  exact Nat.div_eq_of_lt_le (by omega) (by omega)

theorem slice_zero (a rest : Bits) : slice (a ++ rest) 0 a.length = a := by
  simp [slice]

theorem slice_succ (a rest : Bits) (i : Nat) :
    slice (a ++ rest) (i + 1) a.length = slice rest i a.length := by
  unfold slice
  rw [show (i + 1) * a.length = a.length + i * a.length by rw [Nat.add_mul]; omega,
    List.drop_length_add_append]

theorem slice_short (a : Bits) (fw : Nat) (h : a.length ≤ fw) : slice a 0 fw = a := by
  simp [slice, List.take_of_length_le h]

/-- the loop over chunks, for a register update that may fail -/
def feedE (fw : Nat) (f : Bits → Bits → Except CrcErr Bits) (r : Bits) (bits : Bits) :
    Except CrcErr Bits :=
  (List.range (nChunks fw bits.length)).foldlM (fun r i => f r (slice bits i fw)) r

theorem updateTable_eq_feedE (c : CrcConfig) (tbl : List Bits) (le : Bool) (r bits : Bits) :
    updateTable c tbl le r bits = feedE c.fw (procTable c tbl le) r bits := rfl

theorem feedE_nil (fw : Nat) (h : 0 < fw) (f : Bits → Bits → Except CrcErr Bits) (r : Bits) :
    feedE fw f r [] = .ok r := by
  simp [feedE, nChunks_zero fw h]; rfl

theorem feedE_short (fw : Nat) (f : Bits → Bits → Except CrcErr Bits) (r a : Bits)
    (h0 : 0 < a.length) (h : a.length ≤ fw) : feedE fw f r a = f r a := by
  unfold feedE
  rw [nChunks_short fw _ h0 h]
  simp [List.range_succ, slice_short a fw h]

theorem feedE_cons (f : Bits → Bits → Except CrcErr Bits) (r a rest : Bits) (h : 0 < a.length) :
    feedE a.length f r (a ++ rest) = f r a >>= fun r' => feedE a.length f r' rest := by
  unfold feedE
  rw [List.length_append, nChunks_add _ _ h, List.range_succ_eq_map, List.foldlM_cons, slice_zero]
  congr 1
  funext r'
  rw [List.foldlM_map]
  congr 1
  funext r'' i
  rw [show Nat.succ i = i + 1 from rfl, slice_succ]

/-- the bit-by-bit register just consumes the message -/
theorem updateBitwise_eq (c : CrcConfig) (r bits : Bits) (h : 0 < c.fw) :
    updateBitwise c r bits = procBits (polyBits c) r bits := by
  unfold updateBitwise
  have key : ∀ n, (List.range n).foldl (fun r i => procBits (polyBits c) r (slice bits i c.fw)) r
      = procBits (polyBits c) r (bits.take (n * c.fw)) := by
    intro n
    induction n with
    | zero => simp
    | succ n ih =>
      rw [List.range_succ, List.foldl_append, ih]
      simp only [List.foldl_cons, List.foldl_nil]
      rw [← procBits_append]
      congr 1
      unfold slice
      rw [show (n + 1) * c.fw = n * c.fw + c.fw by rw [Nat.add_mul]; omega, List.take_add]
  rw [key, List.take_of_length_le]
  unfold nChunks
  have := Nat.div_add_mod (bits.length + c.fw - 1) c.fw
  have hm := Nat.mod_lt (bits.length + c.fw - 1) h
  rw [Nat.mul_comm] at this
  omega


/-! ### the lookup table and the table register -/

theorem calcFeedWidth_pos (w : Nat) : 0 < calcFeedWidth w := by
  unfold calcFeedWidth
  split
  · decide
  · split
    · rename_i c hc
      have := List.mem_of_find?_eq_some hc
      simp only [List.mem_cons, List.not_mem_nil, or_false] at this
      omega
    · decide

theorem polyBits_length (c : CrcConfig) : (polyBits c).length = c.w := natToBits_length _ _

/-- a table entry is the zero register fed with the index, most significant bit first -/
theorem tableEntry_eq (w poly idx : Nat) :
    tableEntry w poly idx
      = procBits (natToBits w poly) (zeros w) (natToBits (calcFeedWidth w) idx) := by
  unfold tableEntry calcBitwise
  rw [updateBitwise_eq _ _ _ (by simp [defaultConfig, calcFeedWidth_pos])]
  simp only [digest, defaultConfig, initReg, polyBits, natToBits_zero, Bool.false_eq_true, ↓reduceIte]
  rw [xorBits_zeros_right' _ _ (by rw [procBits_length _ _ _ (by simp [natToBits_length])]; simp)]

theorem lookupTable_get (w poly idx : Nat) (h : idx < 2 ^ calcFeedWidth w) :
    (lookupTable w poly)[idx]? = some (tableEntry w poly idx) := by
  simp [lookupTable, List.getElem?_map, List.getElem?_range h]

/-- the hypotheses under which the table register is used by the library: the effective feed width is
the derived one (the table is always built with the derived one) and does not exceed the width -/
structure TableOk (c : CrcConfig) : Prop where
  fw_eq : c.fw = calcFeedWidth c.w
  fw_le : c.fw ≤ c.w

theorem TableOk.fw_pos {c : CrcConfig} (h : TableOk c) : 0 < c.fw := by
  rw [h.fw_eq]; exact calcFeedWidth_pos _

/-- one full chunk: the table register does what the bit-by-bit register does -/
theorem procTable_full (c : CrcConfig) (h : TableOk c) (r chunk : Bits) (hr : r.length = c.w)
    (hc : chunk.length = c.fw) :
    procTable c (lookupTable c.w c.poly) false r chunk = .ok (procBits (polyBits c) r chunk) := by
  have hle := h.fw_le
  have htl : (r.take c.fw).length = c.fw := by simp [hr, hle]
  have hxl : (xorBits chunk (r.take c.fw)).length = c.fw := by simp [hc, htl]
  have hidx : Nat.xor (sliceToNat false chunk) (bitsToNat r >>> (c.w - c.fw))
      = bitsToNat (xorBits chunk (r.take c.fw)) := by
    rw [← hr, bitsToNat_take_shift, bitsToNat_xorBits _ _ (by rw [hc, htl])]
    rfl
  have hlt : bitsToNat (xorBits chunk (r.take c.fw)) < 2 ^ calcFeedWidth c.w := by
    have := bitsToNat_lt (xorBits chunk (r.take c.fw))
    rw [hxl] at this
    rw [← h.fw_eq]; exact this
  unfold procTable
  rw [if_pos hc, if_neg (by omega)]
  simp only [hidx, lookupTable_get _ _ _ hlt, tableEntry_eq]
  congr 1
  have hnb : natToBits (calcFeedWidth c.w) (bitsToNat (xorBits chunk (r.take c.fw)))
      = xorBits chunk (r.take c.fw) := by
    have := natToBits_bitsToNat (xorBits chunk (r.take c.fw))
    rw [hxl] at this
    rw [← h.fw_eq]; exact this
  rw [hnb, shl_eq _ _ (by omega)]
  have := procBits_top (polyBits c) (r.take c.fw) (r.drop c.fw) chunk (by rw [hc, htl])
    (by rw [polyBits_length, htl, List.length_drop, hr]; omega)
  rw [List.take_append_drop, polyBits_length, htl] at this
  rw [this]; rfl

/-- any chunk no longer than the feed width -/
theorem procTable_eq (c : CrcConfig) (h : TableOk c) (r chunk : Bits) (hr : r.length = c.w) :
    procTable c (lookupTable c.w c.poly) false r chunk = .ok (procBits (polyBits c) r chunk) := by
  by_cases hfull : chunk.length = c.fw
  · exact procTable_full c h r chunk hr hfull
  · unfold procTable
    rw [if_neg hfull]

/-- **Table mode = bit-by-bit mode**, for every register content and every message length (including
lengths that are not a multiple of the feed width), on a big-endian container -/
theorem updateTable_eq (c : CrcConfig) (h : TableOk c) (r bits : Bits) (hr : r.length = c.w) :
    updateTable c (lookupTable c.w c.poly) false r bits = .ok (procBits (polyBits c) r bits) := by
  rw [updateTable_eq_feedE]
  have hpos := h.fw_pos
  generalize hn : bits.length = n
  induction n using Nat.strongRecOn generalizing r bits with
  | _ n ih =>
    by_cases h0 : bits = []
    · subst h0; rw [feedE_nil _ hpos]; rfl
    · have hlen : 0 < bits.length := List.length_pos_iff.mpr h0
      by_cases hs : bits.length ≤ c.fw
      · rw [feedE_short _ _ _ _ hlen hs]
        exact procTable_eq c h r bits hr
      · have hsplit : bits = bits.take c.fw ++ bits.drop c.fw := (List.take_append_drop _ _).symm
        have htl : (bits.take c.fw).length = c.fw := by simp; omega
        rw [hsplit]
        have := feedE_cons (procTable c (lookupTable c.w c.poly) false) r (bits.take c.fw)
          (bits.drop c.fw) (by omega)
        rw [htl] at this
        rw [this, procTable_full c h r _ hr htl]
        dsimp only [bind, Except.bind]
        rw [procBits_append]
        exact ih (bits.length - c.fw) (by omega) _ _
          (by rw [procBits_length _ _ _ (by rw [polyBits_length, hr]), hr]) (by simp)


theorem initReg_length (c : CrcConfig) : (initReg c).length = c.w := natToBits_length _ _

theorem calcBitwise_eq (c : CrcConfig) (h : 0 < c.fw) (bits : Bits) :
    calcBitwise c bits = digest c (procBits (polyBits c) (initReg c) bits) := by
  unfold calcBitwise
  rw [updateBitwise_eq c _ _ h]

theorem calcTable_eq_bitwise (c : CrcConfig) (h : TableOk c) (bits : Bits) :
    calcTable c false bits = .ok (calcBitwise c bits) := by
  unfold calcTable calcTableWith
  rw [updateTable_eq c h _ _ (initReg_length c), calcBitwise_eq c h.fw_pos]
  rfl

/-- with zero initial value, zero final xor and no output reversal the check sum is the register -/
structure Plain (c : CrcConfig) : Prop where
  init0 : c.init = 0
  xor0 : c.xorout = 0
  rev0 : c.revOut = false

theorem calcBitwise_plain (c : CrcConfig) (h : 0 < c.fw) (hp : Plain c) (bits : Bits) :
    calcBitwise c bits = procBits (polyBits c) (zeros c.w) bits := by
  rw [calcBitwise_eq c h]
  unfold digest initReg
  rw [hp.init0, hp.xor0, hp.rev0, natToBits_zero]
  simp only [Bool.false_eq_true, ↓reduceIte]
  rw [xorBits_zeros_right' _ _ (by rw [procBits_length _ _ _ (by simp [polyBits_length])]; simp)]

theorem calcBitwise_length (c : CrcConfig) (bits : Bits) : (calcBitwise c bits).length = c.w := by
  unfold calcBitwise digest
  have hu : ∀ r : Bits, r.length = c.w → (updateBitwise c r bits).length = c.w := by
    intro r hr
    unfold updateBitwise
    generalize List.range (nChunks c.fw bits.length) = l
    induction l generalizing r with
    | nil => simpa using hr
    | cons i l ih =>
      rw [List.foldl_cons]
      exact ih _ (by rw [procBits_length _ _ _ (by rw [polyBits_length, hr]), hr])
  have := hu (initReg c) (initReg_length c)
  split <;> simp [natToBits_length, this]

/-! ### little-endian container holding whole octets, feed width 8 (the CRC-32 front end) -/

theorem procTable_le_reverse (c : CrcConfig) (tbl : List Bits) (r x : Bits) (hx : x.length = c.fw) :
    procTable c tbl true r x.reverse = procTable c tbl false r x := by
  unfold procTable sliceToNat
  simp [hx]

theorem bytesToBitsLE_cons (b : Nat) (bs : Bytes) :
    bytesToBitsLE (b :: bs) = (natToBits 8 b).reverse ++ bytesToBitsLE bs := by
  simp [bytesToBitsLE]

theorem bytesToBits_cons (b : Nat) (bs : Bytes) :
    bytesToBits (b :: bs) = natToBits 8 b ++ bytesToBits bs := by
  simp [bytesToBits]

/-- in table mode with feed width 8 a little-endian container of whole octets is read octet by
octet as integers, i.e. exactly like the big-endian container of the same octets -/
theorem updateTable_le_bytes (c : CrcConfig) (h8 : c.fw = 8) (tbl : List Bits) (r : Bits) (bs : Bytes) :
    updateTable c tbl true r (bytesToBitsLE bs) = updateTable c tbl false r (bytesToBits bs) := by
  rw [updateTable_eq_feedE, updateTable_eq_feedE, h8]
  induction bs generalizing r with
  | nil => rfl
  | cons b bs ih =>
    rw [bytesToBitsLE_cons, bytesToBits_cons]
    have h1 := feedE_cons (procTable c tbl true) r (natToBits 8 b).reverse (bytesToBitsLE bs)
      (by simp [natToBits_length])
    have h2 := feedE_cons (procTable c tbl false) r (natToBits 8 b) (bytesToBits bs)
      (by simp [natToBits_length])
    rw [List.length_reverse, natToBits_length] at h1
    rw [natToBits_length] at h2
    rw [h1, h2, procTable_le_reverse c tbl r _ (by rw [natToBits_length, h8])]
    congr 1
    funext r'
    exact ih r'

theorem calcTable_le_bytes (c : CrcConfig) (h8 : c.fw = 8) (bs : Bytes) :
    calcTable c true (bytesToBitsLE bs) = calcTable c false (bytesToBits bs) := by
  unfold calcTable calcTableWith
  rw [updateTable_le_bytes c h8]

end Crc
end Dmr
