import DmrVerif.Lemmas.LrrpTotal

/-!
# Lemmas for C15 (5): the token lookup API
-/

namespace Dmr.Lrrp
open Dmr Dmr.Mbxml

/-- what `get_token` returns is a copy of one of the known definitions that matches the key, with the
caller's value -/
theorem getTokenGo_sound (k : Key) (v : Val) (attrs : List (Key × Option Nat)) :
    ∀ (l : List ElemTok) (p : Part), getTokenGo k v attrs l = .ok p →
      ∃ tc ∈ l, k.matchesId tc.id tc.name = true ∧ p.tokenId = tc.id ∧ p.ty = tc.ty
        ∧ p.length = tc.length ∧ p.value = v := by
  intro l
  induction l with
  | nil => intro p h; simp [getTokenGo] at h
  | cons tc rest ih =>
    intro p h
    simp only [getTokenGo] at h
    split at h
    · rename_i hm
      split at h
      · simp at h
      · obtain ⟨tc', hmem, hrest⟩ := ih p h
        exact ⟨tc', List.mem_cons_of_mem _ hmem, hrest⟩
      · split at h
        · simp at h
        · simp at h
          subst h
          exact ⟨tc, List.mem_cons_self, hm, rfl, rfl, rfl, rfl⟩
    · obtain ⟨tc', hmem, hrest⟩ := ih p h
      exact ⟨tc', List.mem_cons_of_mem _ hmem, hrest⟩

theorem getToken_sound (isReq : Bool) (k : Key) (v : Val) (attrs : List (Key × Option Nat)) (p : Part)
    (h : getToken isReq k v attrs = .ok p) :
    ∃ tc ∈ (knownTokens isReq).flatten, k.matchesId tc.id tc.name = true ∧ p.tokenId = tc.id
      ∧ p.ty = tc.ty ∧ p.length = tc.length ∧ p.value = v :=
  getTokenGo_sound k v attrs _ p h

end Dmr.Lrrp
