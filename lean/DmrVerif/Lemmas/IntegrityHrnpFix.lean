import DmrVerif.Lemmas.IntegrityHrnpLen
import DmrVerif.Lemmas.IntegrityContext

/-!
C04, HRNP after the repair of the length octets (core Lean).  `hrnpDec` is the former verdict
(`hrnpDecOld`) and the cross-check `hrnpLenOk`: a DATA packet announces 12 + 7 + the payload length its
HDAP message states.  Everything proved about `hrnpDecOld` carries over (the new verdict implies the old
one); an accepted DATA packet whose length octets change is never accepted, because the octets the
cross-check reads besides the length (opcode, service, inner length) are not touched.
-/

namespace Dmr
namespace Integrity
open Dmr.Crc Dmr.Gen Dmr.Gen.Integrity

theorem hrnpDec_true_iff (d : Bytes) (hf : Bool) :
    hrnpDec d hf = .ok true ↔ hrnpDecOld d hf = .ok true ∧ hrnpLenOk d = true := by
  unfold hrnpDec
  cases h : hrnpDecOld d hf with
  | error e => simp
  | ok b => cases b <;> simp

theorem hrnpDec_ne_of_old (d : Bytes) (hf : Bool) (h : hrnpDecOld d hf ≠ .ok true) :
    hrnpDec d hf ≠ .ok true := fun h' => h ((hrnpDec_true_iff d hf).mp h').1

theorem hrnpDec_error_of_old (d : Bytes) (hf : Bool) (e : IErr) (h : hrnpDecOld d hf = .error e) :
    hrnpDec d hf = .error e := by
  unfold hrnpDec; rw [h]

/-- the cross-check only reads octets 3, 8, 9, 12, 15, 16 -/
theorem hrnpLenOk_congr (d d' : Bytes) (h3 : d'.getD 3 0 = d.getD 3 0)
    (hl : (d'.take 10).drop 8 = (d.take 10).drop 8) (h12 : d'.getD 12 0 = d.getD 12 0)
    (hi : (d'.take 17).drop 15 = (d.take 17).drop 15) : hrnpLenOk d' = hrnpLenOk d := by
  unfold hrnpLenOk hrnpInnerLen
  rw [h3, hl, h12, hi]

/-- an accepted DATA packet: what the cross-check says -/
theorem hrnpLenOk_data (d : Bytes) (hop : d.getD 3 0 = hrnpData) :
    hrnpLenOk d = true ↔ be16 ((d.take 10).drop 8) = 19 + hrnpInnerLen d := by
  unfold hrnpLenOk
  rw [if_pos hop]
  simp

theorem getD_set_ne' (l : Bytes) (i j y : Nat) (h : i ≠ j) : (l.set i y).getD j 0 = l.getD j 0 := by
  simp [List.getD_eq_getElem?_getD, List.getElem?_set_ne h]

/-- **a changed length octet of a DATA packet is never accepted**: `d` accepted with opcode DATA, octet
8 or 9 replaced by any other value -/
theorem hrnp_length_octet_detected (d : Bytes) (hd : hrnpDec d false = .ok true)
    (hop : d.getD 3 0 = hrnpData) (j y : Nat) (hj : j = 8 ∨ j = 9) (hy : y ≠ d.getD j 0) (hf : Bool) :
    hrnpDec (d.set j y) hf ≠ .ok true := by
  intro h'
  obtain ⟨hold, hlen⟩ := (hrnpDec_true_iff d false).mp hd
  obtain ⟨_, hlen'⟩ := (hrnpDec_true_iff _ hf).mp h'
  obtain ⟨h12, _, _, _, _⟩ := (hrnpDecOld_iff d false).mp hold
  rw [hrnpLenOk_data _ hop] at hlen
  rw [announced_val d (by omega)] at hlen
  rcases hj with rfl | rfl
  · have hop' : (d.set 8 y).getD 3 0 = hrnpData := by
      rw [getD_set_ne' _ _ _ _ (by omega)]; exact hop
    have hin : hrnpInnerLen (d.set 8 y) = hrnpInnerLen d := by
      unfold hrnpInnerLen
      have hs : ((d.set 8 y).take 17).drop 15 = (d.take 17).drop 15 := by
        rw [slice_set, if_neg (by omega)]
      rw [getD_set_ne' _ _ _ _ (by omega), hs]
    rw [hrnpLenOk_data _ hop', hin, (relen_set8 d (by omega) y).field, be16_pair] at hlen'
    omega
  · have hop' : (d.set 9 y).getD 3 0 = hrnpData := by
      rw [getD_set_ne' _ _ _ _ (by omega)]; exact hop
    have hin : hrnpInnerLen (d.set 9 y) = hrnpInnerLen d := by
      unfold hrnpInnerLen
      have hs : ((d.set 9 y).take 17).drop 15 = (d.take 17).drop 15 := by
        rw [slice_set, if_neg (by omega)]
      rw [getD_set_ne' _ _ _ _ (by omega), hs]
    rw [hrnpLenOk_data _ hop', hin, (relen_set9 d (by omega) y).field, be16_pair] at hlen'
    omega

/-- trailing octets do not matter (the announced length lies inside `d`) -/
theorem hrnpLenOk_append (d t : Bytes) (hl : be16 ((d.take 10).drop 8) ≤ d.length) (h12 : 12 ≤ d.length) :
    hrnpLenOk (d ++ t) = hrnpLenOk d := by
  have t10 : (d ++ t).take 10 = d.take 10 := List.take_append_of_le_length (by omega)
  have g3 : (d ++ t).getD 3 0 = d.getD 3 0 := getD_append_left' _ _ _ (by omega)
  by_cases h17 : 17 ≤ d.length
  · apply hrnpLenOk_congr _ _ g3 (by rw [t10]) (getD_append_left' _ _ _ (by omega))
    rw [List.take_append_of_le_length h17]
  · unfold hrnpLenOk
    rw [g3, t10]
    by_cases hop : d.getD 3 0 = hrnpData
    · rw [if_pos hop, if_pos hop]
      have a : ¬ be16 ((d.take 10).drop 8) = 12 + 7 + hrnpInnerLen (d ++ t) := by omega
      have b : ¬ be16 ((d.take 10).drop 8) = 12 + 7 + hrnpInnerLen d := by omega
      simp [a, b]
    · rw [if_neg hop, if_neg hop]

theorem hrnpDec_append' (d t : Bytes) (hf : Bool) (h12 : 12 ≤ d.length)
    (hl : be16 ((d.take 10).drop 8) ≤ d.length) : hrnpDec (d ++ t) hf = hrnpDec d hf := by
  unfold hrnpDec
  rw [hrnpDecOld_append d t hf h12 hl, hrnpLenOk_append d t hl h12]

/-- what `HDAP.as_bytes` guarantees about its own length field (C12: `hdap_frame`), as far as HRNP reads
it: the message is 7 octets longer than the payload length it states, read in its own endianness -/
def HdapFramed (inner : Bytes) : Prop :=
  inner.length = 7 + (if inner.getD 0 0 % 128 = 2 then be16 ((inner.take 5).drop 3).reverse
    else be16 ((inner.take 5).drop 3))
instance (inner : Bytes) : Decidable (HdapFramed inner) := by unfold HdapFramed; infer_instance

theorem hrnpEnc_lenOk (hd ver blk opc src dst pn : Nat) (inner : Bytes)
    (hin : opc = hrnpData → HdapFramed inner) (hlen : 12 + inner.length < 65536) :
    hrnpLenOk (hrnpEnc hd ver blk opc src dst pn inner) = true := by
  unfold hrnpLenOk hrnpEnc
  simp only [List.cons_append, List.nil_append, List.getD_cons_succ, List.getD_cons_zero]
  by_cases hop : opc = hrnpData
  · rw [if_pos hop]
    have := hin hop
    unfold HdapFramed at this
    unfold hrnpInnerLen
    simp only [List.take_succ_cons, List.take_zero, List.drop_succ_cons, List.drop_zero, be16_pair,
      List.getD_cons_succ]
    simp only [decide_eq_true_eq]
    rw [show (12 + inner.length) / 256 % 256 * 256 + (12 + inner.length) % 256 = 12 + inner.length by omega]
    rw [this]
    cases inner with
    | nil => exact absurd this (by simp only [List.length_nil]; omega)
    | cons a r => simp only [List.getD_cons_zero]; omega
  · rw [if_neg hop]

end Integrity
end Dmr
