import DmrVerif.Lemmas.Integrity

/-!
C04, slot type and EMB (core Lean): what `from_bits` returns for every 20- / 16-bit word, and the
kernel enumerations "with an all-zero parity field only the all-zero word is a code word".
-/

namespace Dmr
namespace Integrity
open Dmr.Crc Dmr.Gen Dmr.Gen.Integrity


/-! ### slot type and EMB -/

theorem bitsToNat_eq_zero (bs : Bits) (h : bitsToNat bs = 0) : bs = zeros bs.length := by
  have := natToBits_bitsToNat bs
  rw [h, natToBits_zero] at this
  exact this.symm

theorem golay_wf : golay2087.WFProp := Code.wf_of_WF _ (by decide +kernel)
theorem qr_wf : qr1676.WFProp := Code.wf_of_WF _ (by decide +kernel)
theorem golay_nk : golay2087.n = 20 ∧ golay2087.k = 8 := by decide
theorem qr_nk : qr1676.n = 16 ∧ qr1676.k = 7 := by decide

/-- every 4-bit value is a data type (reserved ones folded), and the folded value is a fixed point -/
def dataTypesTotal : Bool :=
  (List.range 16).all (fun dt => match enumOf dataTypesGraph dt with
    | .ok v => decide (v < 16) | .error _ => false)

theorem dataTypes_total : dataTypesTotal = true := by decide

theorem dataTypes_ok (dt : Nat) (h : dt < 16) : ∃ v, enumOf dataTypesGraph dt = .ok v ∧ v < 16 := by
  have := List.all_eq_true.mp dataTypes_total dt (List.mem_range.mpr h)
  split at this
  · rename_i v hv; exact ⟨v, hv, by simpa using this⟩
  · exact absurd this (by simp)

/-- PI and LCSS are total and the identity on their values -/
theorem emb_graphs : (∀ v, v < 2 → enumOf preemptionPowerGraph v = .ok v)
    ∧ (∀ v, v < 4 → enumOf lcssGraph v = .ok v) := by
  constructor
  · intro v hv
    have : v = 0 ∨ v = 1 := by omega
    rcases this with h | h <;> subst h <;> rfl
  · intro v hv
    have : v = 0 ∨ v = 1 ∨ v = 2 ∨ v = 3 := by omega
    rcases this with h | h | h | h <;> subst h <;> rfl

/-- the word a generated parity gives is the encoder's output -/
theorem gen_word (C : Code) (hC : C.WFProp) (m : Bits) (hm : m.length = C.k) :
    m ++ natToBits (C.n - C.k) (bitsToNat ((C.gen m).drop C.k)) = C.gen m := by
  rw [Code.gen_eq hC m hm, List.drop_append_of_le_length (by omega)]
  have : m.drop C.k = [] := List.drop_eq_nil_of_le (by omega)
  rw [this, List.nil_append]
  have := natToBits_bitsToNat (C.parity m)
  rw [Code.parity_length] at this
  rw [this]

theorem slotDec_eq (w : Bits) (hw : w.length = 20) :
    ∃ dtv, enumOf dataTypesGraph (bitsToNat (sl w 4 8)) = .ok dtv ∧ dtv < 16 ∧
    slotDec w = .ok
      (if bitsToNat (sl w 8 20) = 0 then
        ⟨bitsToNat (sl w 0 4), dtv,
          bitsToNat ((golay2087.gen (sl w 0 4 ++ natToBits 4 dtv)).drop 8), true⟩
      else ⟨bitsToNat (sl w 0 4), dtv, bitsToNat (sl w 8 20), golay2087.check w⟩) := by
  have h0 : (sl w 0 4).length = 4 := by simp [sl_length, hw]
  have h1 : (sl w 4 8).length = 4 := by simp [sl_length, hw]
  have h2 : (sl w 8 20).length = 12 := by simp [sl_length, hw]
  have hcc : bitsToNat (sl w 0 4) < 16 := by have := bitsToNat_lt (sl w 0 4); rwa [h0] at this
  have hdt : bitsToNat (sl w 4 8) < 16 := by have := bitsToNat_lt (sl w 4 8); rwa [h1] at this
  have hpar : bitsToNat (sl w 8 20) < 4096 := by have := bitsToNat_lt (sl w 8 20); rwa [h2] at this
  obtain ⟨dtv, hdtv, hlt⟩ := dataTypes_ok _ hdt
  refine ⟨dtv, hdtv, hlt, ?_⟩
  have n0 := natToBits_bitsToNat (sl w 0 4); rw [h0] at n0
  have n1 := natToBits_bitsToNat (sl w 4 8); rw [h1] at n1
  have n2 := natToBits_bitsToNat (sl w 8 20); rw [h2] at n2
  unfold slotDec slotInit
  rw [if_neg (by omega)]
  simp only [hdtv, bind, Except.bind, pure, Except.pure, n0, n1, n2]
  rw [if_neg (by omega), if_neg (by omega), if_neg (by omega)]
  by_cases hz : bitsToNat (sl w 8 20) = 0
  · rw [if_pos hz, if_pos (by omega)]
    congr 2
    -- the object's own serialisation is the encoder output
    have hm : (sl w 0 4 ++ natToBits 4 dtv).length = golay2087.k := by
      rw [golay_nk.2]; simp [h0, natToBits_length]
    have := gen_word golay2087 golay_wf _ hm
    rw [golay_nk.1, golay_nk.2] at this
    simp only [SlotObj.enc, n0]
    rw [this]
    exact Code.check_gen golay_wf _ hm
  · rw [if_neg hz, if_neg (by omega)]
    congr 3
    rw [sl_append_sl w 0 4 8 (by omega) (by omega), sl_append_sl w 0 8 20 (by omega) (by omega),
      ← hw, sl_self]


theorem embDec_eq (w : Bits) (hw : w.length = 16) :
    embDec w = .ok
      (if bitsToNat (sl w 7 16) = 0 then
        ⟨bitsToNat (sl w 0 4), bitsToNat (sl w 4 5), bitsToNat (sl w 5 7),
          bitsToNat (sl (qr1676.gen (sl w 0 7)) 7 16), true⟩
      else ⟨bitsToNat (sl w 0 4), bitsToNat (sl w 4 5), bitsToNat (sl w 5 7), bitsToNat (sl w 7 16),
        qr1676.check w⟩) := by
  have h0 : (sl w 0 4).length = 4 := by simp [sl_length, hw]
  have h1 : (sl w 4 5).length = 1 := by simp [sl_length, hw]
  have h2 : (sl w 5 7).length = 2 := by simp [sl_length, hw]
  have h3 : (sl w 7 16).length = 9 := by simp [sl_length, hw]
  have hcc : bitsToNat (sl w 0 4) < 16 := by have := bitsToNat_lt (sl w 0 4); rwa [h0] at this
  have hpi : bitsToNat (sl w 4 5) < 2 := by have := bitsToNat_lt (sl w 4 5); rwa [h1] at this
  have hlc : bitsToNat (sl w 5 7) < 4 := by have := bitsToNat_lt (sl w 5 7); rwa [h2] at this
  have n0 := natToBits_bitsToNat (sl w 0 4); rw [h0] at n0
  have n1 := natToBits_bitsToNat (sl w 4 5); rw [h1] at n1
  have n2 := natToBits_bitsToNat (sl w 5 7); rw [h2] at n2
  have n3 := natToBits_bitsToNat (sl w 7 16); rw [h3] at n3
  have hdata : sl w 0 4 ++ sl w 4 5 ++ sl w 5 7 = sl w 0 7 := by
    rw [sl_append_sl w 0 4 5 (by omega) (by omega), sl_append_sl w 0 5 7 (by omega) (by omega)]
  unfold embDec embInit
  rw [if_neg (by omega)]
  simp only [emb_graphs.1 _ hpi, emb_graphs.2 _ hlc, bind, Except.bind, pure, Except.pure, n0, n1, n2,
    hdata]
  rw [if_neg (by omega), if_neg (by omega), if_neg (by omega)]
  have hpw : bitsToNat (sl w 7 16) < 512 := by have := bitsToNat_lt (sl w 7 16); rwa [h3] at this
  have hpg : bitsToNat (sl (qr1676.gen (sl w 0 7)) 7 16) < 512 := by
    have := bitsToNat_lt (sl (qr1676.gen (sl w 0 7)) 7 16)
    rwa [show (sl (qr1676.gen (sl w 0 7)) 7 16).length = 9 by
      rw [sl_length, Code.gen_length, qr_nk.1]; rfl] at this
  by_cases hz : bitsToNat (sl w 7 16) = 0
  · rw [if_pos hz, if_pos (show bitsToNat (sl w 7 16) ≤ 0 by omega),
      if_neg (show ¬ bitsToNat (sl (qr1676.gen (sl w 0 7)) 7 16) ≥ 512 by omega)]
    show Except.ok _ = Except.ok _
    congr 2
    have hm : (sl w 0 7).length = qr1676.k := by rw [qr_nk.2]; simp [sl_length, hw]
    have hg := gen_word qr1676 qr_wf _ hm
    rw [qr_nk.1, qr_nk.2] at hg
    have hsl : sl (qr1676.gen (sl w 0 7)) 7 16 = (qr1676.gen (sl w 0 7)).drop 7 := by
      rw [sl_full _ _ _ (by rw [Code.gen_length, qr_nk.1]; omega)]
    simp only [EmbObj.enc, n0, n1, n2, hdata, hsl]
    rw [hg]
    exact Code.check_gen qr_wf _ hm
  · rw [if_neg hz, if_neg (show ¬ bitsToNat (sl w 7 16) ≤ 0 by omega),
      if_neg (show ¬ bitsToNat (sl w 7 16) ≥ 512 by omega)]
    show Except.ok _ = Except.ok _
    congr 3
    simp only [EmbObj.enc, n0, n1, n2, n3, hdata]
    rw [sl_append_sl w 0 7 16 (by omega) (by omega), ← hw, sl_self]

/-- with an all-zero parity field only the all-zero word is a code word (kernel enumeration of the
2^8 / 2^7 data values) -/
theorem golay_zero_parity :
    (allBits 8).all (fun d => golay2087.check (d ++ zeros 12) == (d == zeros 8)) = true := by
  decide +kernel

theorem qr_zero_parity :
    (allBits 7).all (fun d => qr1676.check (d ++ zeros 9) == (d == zeros 7)) = true := by
  decide +kernel

theorem golay_zero_parity' (d : Bits) (hd : d.length = 8) :
    golay2087.check (d ++ zeros 12) = true ↔ d = zeros 8 := by
  have := forall_bits_of_all 8 _ golay_zero_parity d hd
  rw [beq_iff_eq] at this
  rw [this, beq_iff_eq]

theorem qr_zero_parity' (d : Bits) (hd : d.length = 7) :
    qr1676.check (d ++ zeros 9) = true ↔ d = zeros 7 := by
  have := forall_bits_of_all 7 _ qr_zero_parity d hd
  rw [beq_iff_eq] at this
  rw [this, beq_iff_eq]

/-- a slot type built from a colour code and a data type value, no parity given -/
theorem slotInit_zero (cc dt : Nat) (hcc : cc < 16) (hdt : dt < 16) :
    ∃ dtv, enumOf dataTypesGraph dt = .ok dtv ∧ dtv < 16 ∧
      slotInit cc dt 0 = .ok ⟨cc, dtv,
        bitsToNat ((golay2087.gen (natToBits 4 cc ++ natToBits 4 dtv)).drop 8), true⟩ ∧
      SlotObj.enc ⟨cc, dtv, bitsToNat ((golay2087.gen (natToBits 4 cc ++ natToBits 4 dtv)).drop 8), true⟩
        = golay2087.gen (natToBits 4 cc ++ natToBits 4 dtv) := by
  obtain ⟨dtv, hdtv, hlt⟩ := dataTypes_ok _ hdt
  have hm : (natToBits 4 cc ++ natToBits 4 dtv).length = golay2087.k := by
    rw [golay_nk.2]; simp [natToBits_length]
  have hg := gen_word golay2087 golay_wf _ hm
  rw [golay_nk.1, golay_nk.2] at hg
  have henc : SlotObj.enc ⟨cc, dtv, bitsToNat ((golay2087.gen (natToBits 4 cc ++ natToBits 4 dtv)).drop 8), true⟩
      = golay2087.gen (natToBits 4 cc ++ natToBits 4 dtv) := by
    simp only [SlotObj.enc]; exact hg
  refine ⟨dtv, hdtv, hlt, ?_, henc⟩
  unfold slotInit
  simp only [hdtv, bind, Except.bind, pure, Except.pure]
  rw [if_neg (by omega), if_neg (by omega), if_neg (by omega), if_pos (by omega)]
  congr 2
  have henc' : SlotObj.enc ⟨cc, dtv, bitsToNat ((golay2087.gen (natToBits 4 cc ++ natToBits 4 dtv)).drop 8), false⟩
      = golay2087.gen (natToBits 4 cc ++ natToBits 4 dtv) := by
    simp only [SlotObj.enc]; exact hg
  rw [henc']
  exact Code.check_gen golay_wf _ hm

/-- parsing an encoder output: the indicator is true (whether or not its parity happens to be zero) -/
theorem slotDec_gen (m : Bits) (hm : m.length = 8) :
    ∃ q, slotDec (golay2087.gen m) = .ok q ∧ q.ok = true := by
  have hl : (golay2087.gen m).length = 20 := by rw [Code.gen_length, golay_nk.1]
  obtain ⟨dtv, _, _, hdec⟩ := slotDec_eq _ hl
  refine ⟨_, hdec, ?_⟩
  split
  · rfl
  · exact Code.check_gen golay_wf m (by rw [golay_nk.2, hm])

theorem embInit_zero (cc pi lc : Nat) (hcc : cc < 16) (hpi : pi < 2) (hlc : lc < 4) :
    embInit cc pi lc 0 = .ok ⟨cc, pi, lc,
        bitsToNat (sl (qr1676.gen (natToBits 4 cc ++ natToBits 1 pi ++ natToBits 2 lc)) 7 16), true⟩ ∧
      EmbObj.enc ⟨cc, pi, lc,
        bitsToNat (sl (qr1676.gen (natToBits 4 cc ++ natToBits 1 pi ++ natToBits 2 lc)) 7 16), true⟩
        = qr1676.gen (natToBits 4 cc ++ natToBits 1 pi ++ natToBits 2 lc) := by
  have hm : (natToBits 4 cc ++ natToBits 1 pi ++ natToBits 2 lc).length = qr1676.k := by
    rw [qr_nk.2]; simp [natToBits_length]
  have hg := gen_word qr1676 qr_wf _ hm
  rw [qr_nk.1, qr_nk.2] at hg
  have hsl : sl (qr1676.gen (natToBits 4 cc ++ natToBits 1 pi ++ natToBits 2 lc)) 7 16
      = (qr1676.gen (natToBits 4 cc ++ natToBits 1 pi ++ natToBits 2 lc)).drop 7 := by
    rw [sl_full _ _ _ (by rw [Code.gen_length, qr_nk.1]; omega)]
  have henc : ∀ b, EmbObj.enc ⟨cc, pi, lc,
        bitsToNat (sl (qr1676.gen (natToBits 4 cc ++ natToBits 1 pi ++ natToBits 2 lc)) 7 16), b⟩
        = qr1676.gen (natToBits 4 cc ++ natToBits 1 pi ++ natToBits 2 lc) := by
    intro b; simp only [EmbObj.enc, hsl]; exact hg
  refine ⟨?_, henc true⟩
  unfold embInit
  simp only [emb_graphs.1 _ hpi, emb_graphs.2 _ hlc, bind, Except.bind, pure, Except.pure]
  have hpg : bitsToNat (sl (qr1676.gen (natToBits 4 cc ++ natToBits 1 pi ++ natToBits 2 lc)) 7 16) < 512 := by
    have := bitsToNat_lt (sl (qr1676.gen (natToBits 4 cc ++ natToBits 1 pi ++ natToBits 2 lc)) 7 16)
    rwa [show (sl (qr1676.gen (natToBits 4 cc ++ natToBits 1 pi ++ natToBits 2 lc)) 7 16).length = 9 by
      rw [sl_length, Code.gen_length, qr_nk.1]; rfl] at this
  rw [if_neg (by omega), if_neg (by omega), if_neg (by omega), if_pos (Nat.le_refl 0),
    if_neg (show ¬ bitsToNat (sl (qr1676.gen (natToBits 4 cc ++ natToBits 1 pi ++ natToBits 2 lc)) 7 16) ≥ 512 by omega)]
  show Except.ok _ = Except.ok _
  congr 2
  rw [henc false]
  exact Code.check_gen qr_wf _ hm

theorem embDec_gen (m : Bits) (hm : m.length = 7) :
    ∃ q, embDec (qr1676.gen m) = .ok q ∧ q.ok = true := by
  have hl : (qr1676.gen m).length = 16 := by rw [Code.gen_length, qr_nk.1]
  refine ⟨_, embDec_eq _ hl, ?_⟩
  split
  · rfl
  · exact Code.check_gen qr_wf m (by rw [qr_nk.2, hm])

end Integrity
end Dmr
