import DmrVerif.Lemmas.StorageInv

/-!
# Dynamic attributes are keyed by the exact name; nothing ever leaves the storage (C20, hardening)

Added for the two classes of changes the first version of the check did not reach:

* **keys that collide after a normalisation** — in the model a dynamic attribute is addressed by the
  *string itself* (`DecidableEq String`, no folding of case, suffixes, white space, Unicode forms):
  `attr`, `delete_attr` and `patch` touch the named key and no other, for *every* pair of distinct
  strings.  `AttrsNodup`: the private dictionary never holds a key twice, so a deleted key reads `None`.
* **scale** — under P1/P2 every object the storage ever created is still stored, in creation order,
  whatever the length of the history (no bound on the number of records, nothing is evicted).
-/

namespace Dmr.Storage

section Dict
variable {κ β : Type} [DecidableEq κ]

theorem dictDel_keys_sublist (d : List (κ × β)) (k : κ) :
    ((dictDel d k).map Prod.fst).Sublist (d.map Prod.fst) := by
  induction d with
  | nil => exact List.Sublist.refl _
  | cons a t ih =>
    obtain ⟨k0, v0⟩ := a
    simp only [dictDel]
    split
    · exact List.sublist_cons_self _ _
    · exact List.Sublist.cons_cons _ ih

theorem dictDel_keys_nodup (d : List (κ × β)) (k : κ) (h : (d.map Prod.fst).Nodup) :
    ((dictDel d k).map Prod.fst).Nodup :=
  List.Nodup.sublist (dictDel_keys_sublist d k) h

theorem dictGet_none_of_not_mem (d : List (κ × β)) (k : κ) (h : k ∉ d.map Prod.fst) :
    dictGet d k = Option.none := by
  induction d with
  | nil => rfl
  | cons a t ih =>
    obtain ⟨k0, v0⟩ := a
    simp only [List.map_cons, List.mem_cons, not_or] at h
    simp only [dictGet]
    rw [if_neg (fun e => h.1 e.symm)]
    exact ih h.2

/-- in a dictionary with distinct keys `del d[k]` really removes `k` -/
theorem dictGet_dictDel_self (d : List (κ × β)) (k : κ) (h : (d.map Prod.fst).Nodup) :
    dictGet (dictDel d k) k = Option.none := by
  induction d with
  | nil => rfl
  | cons a t ih =>
    obtain ⟨k0, v0⟩ := a
    simp only [List.map_cons, List.nodup_cons] at h
    simp only [dictDel]
    by_cases h0 : k0 = k
    · subst h0
      simp only [if_true]
      exact dictGet_none_of_not_mem t k0 h.1
    · simp only [if_neg h0, dictGet]
      exact ih h.2

end Dict

/-! ## the private dictionary of every repeater has distinct keys (unconditional) -/

def Store.AttrsNodup (s : Store) : Prop := ∀ r ∈ s.objs, (r.attrs.map Prod.fst).Nodup

theorem applyEntry_attrs_nodup (r : Rec) (e : Key × Val) (h : (r.attrs.map Prod.fst).Nodup) :
    ((applyEntry r e).attrs.map Prod.fst).Nodup := by
  obtain ⟨k, v⟩ := e
  cases k with
  | field f => simpa [applyEntry] using h
  | dyn k =>
    simp only [applyEntry]
    split
    · exact h
    · exact dictSet_keys_nodup _ _ _ h

theorem applyPatch_attrs_nodup (p : Patch) (r : Rec) (h : (r.attrs.map Prod.fst).Nodup) :
    ((applyPatch p r).attrs.map Prod.fst).Nodup := by
  induction p generalizing r with
  | nil => exact h
  | cons e t ih => rw [applyPatch_cons]; exact ih _ (applyEntry_attrs_nodup r e h)

theorem attrsNodup_set {s : Store} (h : s.AttrsNodup) (i : Nat) (r' : Rec)
    (hr' : (r'.attrs.map Prod.fst).Nodup) (d : List (Val × Nat)) :
    Store.AttrsNodup { objs := s.objs.set i r', dict := d } := by
  intro x hx
  rcases List.mem_or_eq_of_mem_set hx with hx | hx
  · exact h x hx
  · rw [hx]; exact hr'

theorem attrsNodup_dict {s : Store} (h : s.AttrsNodup) (d : List (Val × Nat)) :
    Store.AttrsNodup { objs := s.objs, dict := d } := h

theorem attrsNodup_save (s : Store) (rpt : Option Nat) (p : Patch) (h : s.AttrsNodup) :
    (s.save rpt p).1.AttrsNodup := by
  rcases save_cases s rpt p with ⟨e, _⟩ | ⟨e, _⟩ | ⟨i, _, _, _, e⟩ | ⟨i, r, _, hr, _, e⟩ <;> rw [e]
  · exact h
  · exact h
  · exact h
  · exact attrsNodup_set h i _ (applyPatch_attrs_nodup p r (h r (List.mem_of_getElem? hr))) _

theorem attrsNodup_create (s : Store) (a : Val) (h : s.AttrsNodup) : (s.create a).1.AttrsNodup := by
  intro x hx
  simp only [Store.create, List.mem_append, List.mem_singleton] at hx
  rcases hx with hx | hx
  · exact h x hx
  · rw [hx]; simp [newRec]

theorem attrsNodup_saveBad (s : Store) (rpt : Option Nat) (pre : Patch) (e : Err) (h : s.AttrsNodup) :
    (s.saveBad rpt pre e).1.AttrsNodup := by
  rcases saveBad_cases s rpt pre e with ⟨e', he⟩ | ⟨i, r, _, hr, he⟩ <;> rw [he]
  · exact h
  · exact attrsNodup_set h i _ (applyPatch_attrs_nodup pre r (h r (List.mem_of_getElem? hr))) _

theorem attrsNodup_step (s : Store) (op : Op) (h : s.AttrsNodup) : (step s op).1.AttrsNodup := by
  cases op with
  | matchIncoming a au p =>
    simp only [step, Store.matchIncoming]
    split
    · exact attrsNodup_save _ _ _ h
    · split
      · exact attrsNodup_save _ _ _ (attrsNodup_create s a h)
      · exact attrsNodup_save _ _ _ h
  | save rpt p =>
    simp only [step]
    cases rpt with
    | none => exact attrsNodup_save _ _ _ h
    | some i => simp only; split
                · exact attrsNodup_save _ _ _ h
                · exact h
  | matchAttr n v => exact h
  | matchIpIncoming ip => exact h
  | matchUuid v => exact h
  | attr i k v =>
    simp only [step]
    split
    · exact h
    · rename_i r hr
      split
      · exact h
      · exact attrsNodup_set h i _ (dictSet_keys_nodup _ _ _ (h r (List.mem_of_getElem? hr))) _
  | deleteAttr i k =>
    simp only [step]
    split
    · exact h
    · rename_i r hr
      split
      · exact h
      · exact attrsNodup_set h i _ (dictDel_keys_nodup _ _ (h r (List.mem_of_getElem? hr))) _
  | patch i p =>
    simp only [step]
    split
    · exact h
    · rename_i r hr
      exact attrsNodup_set h i _ (applyPatch_attrs_nodup p r (h r (List.mem_of_getElem? hr))) _
  | matchIncomingBad a au pre e =>
    simp only [step]
    rcases matchIncomingBad_cases s a au pre e with ⟨i, _, he⟩ | ⟨_, _, he⟩ | ⟨_, _, he⟩ <;> rw [he]
    · exact attrsNodup_saveBad _ _ _ _ h
    · exact attrsNodup_saveBad _ _ _ _ (attrsNodup_create s a h)
    · exact h
  | saveBad rpt pre e => exact attrsNodup_saveBad s rpt pre e h
  | patchBad i pre e => exact attrsNodup_saveBad s (some i) pre e h

theorem attrsNodup_run (h : List Op) : (run h).1.AttrsNodup :=
  runFrom_induction Store.AttrsNodup attrsNodup_step init h (by intro r hr; simp [init] at hr)

/-! ## `attr(key, value)` and `delete_attr(key)` address the exact key -/

/-- a write through `attr` -/
theorem step_attr_write (s : Store) (i : Nat) (k : String) (v : Val) (r : Rec)
    (hr : s.objs[i]? = some r) (hv : v ≠ .none) :
    (step s (.attr i k v)).1.objs[i]? = some (r.setAttr k v) ∧ (step s (.attr i k v)).2 = .val v := by
  have hi := getElem?_lt_of_some hr
  simp only [step, hr, if_neg hv]
  exact ⟨List.getElem?_set_self hi, trivial⟩

/-- a read through `attr` changes nothing and answers with the value stored under exactly this key -/
theorem step_attr_read (s : Store) (i : Nat) (k : String) (r : Rec) (hr : s.objs[i]? = some r) :
    step s (.attr i k .none) = (s, .val (r.attr k)) := by
  simp only [step, hr, if_true]

/-- a successful `delete_attr` -/
theorem step_delete (s : Store) (i : Nat) (k : String) (r : Rec) (hr : s.objs[i]? = some r)
    (hres : (step s (.deleteAttr i k)).2 = .true) :
    (step s (.deleteAttr i k)).1.objs[i]? = some { r with attrs := dictDel r.attrs k } := by
  have hi := getElem?_lt_of_some hr
  simp only [step, hr] at hres ⊢
  cases hg : dictGet r.attrs k with
  | none => rw [hg] at hres; cases hres
  | some x => exact List.getElem?_set_self hi

end Dmr.Storage
