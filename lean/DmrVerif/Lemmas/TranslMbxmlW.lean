import DmrVerif.Lemmas.TranslMbxml
import DmrVerif.Lemmas.Mbxml

/-!
Equality of the WRITERS translated from the source of `motorola/mbxml.py` (`write_uintvar`, `write_sintvar`; `Gen/TranslMbxml.lean`)
with the hand-written model `Model/Mbxml.lean` (`writeUInt`, `writeS`), for every Python int, assertions included.  The text
`bin(value)[2:][::-1]` is the model's `binRev` as characters (`bin_rev`), `int(chunk[::-1], 2)` the model's `septetVal`
(`intOfStr2_chunk`: the chunk is never empty and holds only `0` / `1`, so neither `ValueError` nor `unsupported` occurs), and
`math.ceil(bin_len / 7)` is exact because `bin_len ≤ value + 1 ≤ 2^32` under the function's own assertions (`ceilDiv` needs
`< 2^53`).
-/

namespace Dmr.Transl.Mbxml
open Dmr Dmr.Py Dmr.Mbxml

/-- the character of a binary digit -/
def bchar (b : Bool) : Char := if b then '1' else '0'

theorem lsbDigits_eq (f v : Nat) : lsbDigits f v = (bitsLsbF f v).map bchar := by
  induction f generalizing v with
  | zero => rfl
  | succ f ih =>
    unfold lsbDigits bitsLsbF
    by_cases h : v = 0
    · simp [h]
    · simp only [h, if_false, List.map_cons, ih]
      congr 1
      by_cases h2 : v % 2 = 1 <;> simp [h2, bchar]

theorem bitsLsbF_length (f v : Nat) : (bitsLsbF f v).length ≤ f := by
  induction f generalizing v with
  | zero => simp [bitsLsbF]
  | succ f ih =>
    unfold bitsLsbF
    by_cases h : v = 0
    · simp [h]
    · simp only [h, if_false, List.length_cons]
      have := ih (v / 2); omega

/-- `bin(n)[2:][::-1]` is the model's `binRev n`, as characters -/
theorem bin_rev (n : Nat) : rev (slice (bin (n : Int)) (some 2) none) = (binRev n).map bchar := by
  have hb : bin (n : Int) = '0' :: 'b' :: binDigits n := by
    unfold bin
    have : ¬ ((n : Int) < 0) := by omega
    simp [this]
  rw [hb, slice_lit_none]
  simp only [List.drop_succ_cons, List.drop_zero, rev, binDigits, binRev, bitsLsb]
  by_cases h : n = 0
  · simp [h, bchar]
  · simp [h, lsbDigits_eq]

theorem binRev_length (n : Nat) : (binRev n).length ≤ n + 1 := by
  unfold binRev bitsLsb
  by_cases h : n = 0
  · simp [h]
  · simp only [h, if_false]; have := bitsLsbF_length n n; omega

theorem binRev_ne_nil (n : Nat) : binRev n ≠ [] := by
  unfold binRev bitsLsb
  by_cases h : n = 0
  · simp [h]
  · simp only [h, if_false]
    obtain ⟨m, rfl⟩ : ∃ m, n = m + 1 := ⟨n - 1, by omega⟩
    simp [bitsLsbF]

/-- value of the reversed chunk read as a binary string = the model's `septetVal` -/
theorem binValue_rev (c : Bits) : binValue ((c.map bchar).reverse) = septetVal c := by
  unfold binValue septetVal
  rw [List.foldl_reverse]
  induction c with
  | nil => rfl
  | cons b t ih =>
    simp only [List.map_cons, List.foldr_cons, ih]
    cases b <;> simp [bchar] <;> omega

theorem septetVal_lt (c : Bits) : septetVal c < 2 ^ c.length := by
  unfold septetVal
  induction c with
  | nil => simp
  | cons b t ih =>
    simp only [List.foldr_cons, List.length_cons, Nat.pow_succ]
    cases b <;> simp <;> omega

theorem intOfStr2_chunk (c : Bits) (h : c ≠ []) :
    intOfStr2 (rev (c.map bchar)) = .ok ((septetVal c : Nat) : Int) := by
  unfold intOfStr2 rev
  have h1 : ((c.map bchar).reverse).isEmpty = false := by
    cases c with
    | nil => exact absurd rfl h
    | cons b t => simp
  have h2 : ((c.map bchar).reverse).all (fun ch => ch = '0' || ch = '1') = true := by
    simp only [List.all_reverse, List.all_map, List.all_eq_true]
    intro b _
    cases b <;> simp [bchar]
  simp only [h1, h2, Bool.false_eq_true, if_false, if_true, binValue_rev]
  rfl

/-- chunks of 7 by index -/
theorem chunk7F_get (f : Nat) : ∀ (l : Bits), l.length ≤ f →
    (chunk7F f l).length = (l.length + 6) / 7 ∧
    ∀ i, i < (l.length + 6) / 7 → (chunk7F f l)[i]? = some ((l.drop (7 * i)).take 7) := by
  induction f with
  | zero =>
    intro l hl
    have : l = [] := List.eq_nil_of_length_eq_zero (by omega)
    subst this
    simp [chunk7F]
  | succ f ih =>
    intro l hl
    unfold chunk7F
    by_cases he : l.isEmpty = true
    · have : l = [] := by simpa using he
      subst this; simp
    · simp only [he, Bool.false_eq_true, if_false]
      have hne : l.length ≠ 0 := by
        intro c; exact he (by simp [List.eq_nil_of_length_eq_zero c])
      obtain ⟨h1, h2⟩ := ih (l.drop 7) (by simp; omega)
      refine ⟨by simp only [List.length_cons, h1, List.length_drop]; omega, ?_⟩
      intro i hi
      cases i with
      | zero => simp
      | succ i =>
        have := h2 i (by simp only [List.length_drop]; omega)
        simp only [List.getElem?_cons_succ, this, List.drop_drop]
        congr 3; omega


theorem toBytesBig1 (x : Nat) (h : x < 256) : toBytesBig (x : Int) 1 = .ok [x] := by
  unfold toBytesBig toBytesLittle
  have : ¬ ((x : Int) < 0) := by omega
  simp [this, h, octetsLE]

/-- one pass of the model's octet loop -/
def octStep (t : Bytes) (c : Bits) : Bytes := t ++ [Nat.lor (septetVal c) (if t.length = 0 then 0 else 128)]

theorem septetBytes_fold (cs : List Bits) : ∀ acc : Bytes,
    acc ++ septetBytes (decide (acc.length = 0)) cs = cs.foldl octStep acc := by
  induction cs with
  | nil => intro acc; simp [septetBytes]
  | cons c cs ih =>
    intro acc
    rw [List.foldl_cons, ← ih (octStep acc c)]
    unfold octStep
    simp only [septetBytes, List.length_append, List.length_cons, List.length_nil]
    have : decide (acc.length + (0 + 1) = 0) = false := by simp
    rw [this]
    by_cases h : acc.length = 0 <;> simp [h]

theorem uintvar_max_eq : (UINTVAR_MAX : Int) = ((Dmr.Mbxml.UINTVAR_MAX : Nat) : Int) := by decide
theorem sintvar_max_eq : (SINTVAR_MAX : Int) = ((Dmr.Mbxml.SINTVAR_MAX : Nat) : Int) := by decide

theorem slice_chunk (bits : Bits) (i : Nat) (hi : 7 * i < bits.length) :
    slice (bits.map bchar) (some ((7 * i : Nat) : Int)) (some ((7 * i + 7 : Nat) : Int))
      = ((bits.drop (7 * i)).take 7).map bchar := by
  rw [slice_ofNat_ofNat]
  simp only [List.length_map]
  rw [Nat.min_eq_left (Nat.le_of_lt hi), ← List.map_drop, ← List.map_take]
  congr 1
  rw [List.take_eq_take_iff]
  simp only [List.length_drop]
  omega

theorem write_uintvar_nat (n : Nat) : write_uintvar (n : Int) = ofR id (writeU n) := by
  unfold write_uintvar writeU
  have h0 : decide ((n : Int) ≥ 0) = true := by simp
  rw [assert_bind, if_pos h0, assert_bind, uintvar_max_eq]
  by_cases hmax : n > Dmr.Mbxml.UINTVAR_MAX
  · have h1 : ¬ (decide ((n : Int) ≤ ((Dmr.Mbxml.UINTVAR_MAX : Nat) : Int)) = true) := by
      simp only [decide_eq_true_eq]; omega
    rw [if_neg h1, if_pos hmax]; rfl
  · have h1 : decide ((n : Int) ≤ ((Dmr.Mbxml.UINTVAR_MAX : Nat) : Int)) = true := by
      simp only [decide_eq_true_eq]; omega
    rw [if_pos h1, if_neg hmax]
    simp only [bin_rev]
    generalize hbits : binRev n = bits
    have hL : bits.length ≤ n + 1 := by rw [← hbits]; exact binRev_length n
    have hne0 : bits ≠ [] := by rw [← hbits]; exact binRev_ne_nil n
    have hmaxv : Dmr.Mbxml.UINTVAR_MAX = 4294967295 := by decide
    have hcd : ceilDiv (len (bits.map bchar)) 7 = .ok (((bits.length + 6) / 7 : Nat) : Int) := by
      unfold ceilDiv
      simp only [len_eq, List.length_map]
      have : (0 : Int) ≤ (bits.length : Int) ∧ (bits.length : Int) < 2 ^ 53 := by
        constructor
        · omega
        · have : bits.length < 2 ^ 53 := by omega
          exact_mod_cast this
      rw [if_pos this]
      congr 1
      omega
    obtain ⟨hcl, hcg⟩ := chunk7F_get bits.length bits (Nat.le_refl _)
    rw [hcd]
    simp only [ok_bind]
    apply forEach_simI_bind (fun i (s : Bytes) (t : Bytes) => s = t ∧ t.length = i) octStep (chunk7 bits) []
    · simp only [range2, List.length_map, List.length_range, chunk7, hcl]; omega
    · exact ⟨rfl, rfl⟩
    · intro i h₁ h₂ s t ⟨hs, ht⟩
      subst hs
      have hi : i < (bits.length + 6) / 7 := by
        have : (chunk7 bits).length = (bits.length + 6) / 7 := hcl
        omega
      have hi7 : 7 * i < bits.length := by omega
      have hm : (chunk7 bits)[i] = (bits.drop (7 * i)).take 7 := by
        have := hcg i hi
        rw [show chunk7F bits.length bits = chunk7 bits from rfl, List.getElem?_eq_getElem h₂] at this
        exact Option.some.inj this
      have hne : (bits.drop (7 * i)).take 7 ≠ [] := by
        intro c
        have := congrArg List.length c
        simp at this; omega
      have hlt : septetVal ((bits.drop (7 * i)).take 7) < 128 := by
        have := septetVal_lt ((bits.drop (7 * i)).take 7)
        have h7 : ((bits.drop (7 * i)).take 7).length ≤ 7 := by simp; omega
        have : 2 ^ ((bits.drop (7 * i)).take 7).length ≤ 2 ^ 7 := Nat.pow_le_pow_right (by omega) h7
        omega
      have hidx : (range2 0 (((bits.length + 6) / 7 : Nat) : Int))[i] = (i : Int) := by simp [range2]
      refine ⟨octStep s (chunk7 bits)[i], ?_, rfl, by simp [octStep, ht]⟩
      rw [hidx, hm]
      have e1 : (i : Int) * 7 = ((7 * i : Nat) : Int) := by push_cast; omega
      have e2 : ((i : Int) + 1) * 7 = ((7 * i + 7 : Nat) : Int) := by push_cast; omega
      simp only [e1, e2, slice_chunk bits i hi7, intOfStr2_chunk _ hne, ok_bind]
      unfold octStep
      generalize hv : septetVal ((bits.drop (7 * i)).take 7) = v at hlt ⊢
      by_cases hi0 : i = 0
      · subst hi0
        have ht0 : s.length = 0 := ht
        have : (((0 : Nat) : Int) == 0) = true := by decide
        simp only [this, if_true, bor_lit, ht0]
        rw [toBytesBig1 _ (by simp only [Nat.or_zero]; omega)]
        rfl
      · have ht0 : ¬ s.length = 0 := by omega
        have : ((i : Int) == 0) = false := by
          simp only [beq_eq_false_iff_ne, ne_eq]; omega
        simp only [this, Bool.false_eq_true, if_false, bor_lit, ht0]
        have hb : v ||| 128 < 2 ^ 8 :=
          Nat.or_lt_two_pow (by omega) (by omega)
        rw [toBytesBig1 _ (by omega)]
        rfl
    · intro s' ⟨hs, _⟩
      subst hs
      have := septetBytes_fold (chunk7 bits) []
      simp only [List.nil_append, List.length_nil, decide_true] at this
      simp only [pure_eq_ok, rev, writeURaw, hbits, this]
      rfl

/-- `write_uintvar(value)` for every Python int: the model's `writeUInt` (both assertions included) -/
theorem write_uintvar_eq (v : Int) : write_uintvar v = ofR id (writeUInt v) := by
  unfold writeUInt
  by_cases hv : v < 0
  · rw [if_pos hv]
    unfold write_uintvar
    have h0 : ¬ (decide (v ≥ 0) = true) := by simp only [decide_eq_true_eq]; omega
    rw [assert_bind, if_neg h0]; rfl
  · rw [if_neg hv]
    have : v = ((v.toNat : Nat) : Int) := by omega
    generalize v.toNat = n at this
    subst this
    rw [write_uintvar_nat]

theorem writeURaw_cons (m : Nat) : ∃ b t, writeURaw m = b :: t ∧ b < 256 := by
  rw [writeURaw_eq]
  unfold encU
  cases h : encHi (m / 128) with
  | nil => exact ⟨m % 128, [], rfl, by omega⟩
  | cons b t =>
    refine ⟨b, t ++ [m % 128], rfl, ?_⟩
    have := encHi_flagged (m / 128) b (by rw [h]; simp)
    exact this.2

theorem write_sintvar_eq (v : Int) (nz : Bool) : write_sintvar v nz = ofR id (writeS v nz) := by
  unfold write_sintvar writeS
  have habs : Py.abs v = ((v.natAbs : Nat) : Int) := rfl
  rw [assert_bind, habs, sintvar_max_eq]
  have hsm : Dmr.Mbxml.SINTVAR_MAX = 2147483647 := by decide
  have hum : Dmr.Mbxml.UINTVAR_MAX = 4294967295 := by decide
  by_cases hmax : v.natAbs > Dmr.Mbxml.SINTVAR_MAX
  · have h1 : ¬ (decide (((v.natAbs : Nat) : Int) ≤ ((Dmr.Mbxml.SINTVAR_MAX : Nat) : Int)) = true) := by
      simp only [decide_eq_true_eq]; omega
    rw [if_neg h1, if_pos hmax]; rfl
  · have h1 : decide (((v.natAbs : Nat) : Int) ≤ ((Dmr.Mbxml.SINTVAR_MAX : Nat) : Int)) = true := by
      simp only [decide_eq_true_eq]; omega
    rw [if_pos h1, if_neg hmax, write_uintvar_nat]
    have hw : writeU v.natAbs = .ok (writeURaw v.natAbs) := by
      unfold writeU; rw [if_neg (by omega)]
    obtain ⟨b, t, hbt, hb⟩ := writeURaw_cons v.natAbs
    rw [hw, hbt]
    simp only [ofR, id, ok_bind, getB_lit, List.getElem?_cons_zero, band_lit]
    generalize (decide (v ≥ 0) && !nz) = pos
    unfold writeSRaw
    rw [hbt]
    have h64 : ((b &&& 64 : Nat) : Int) != 0 ↔ b / 64 % 2 = 1 := by
      simp only [bne_iff_ne, ne_eq]
      constructor
      · intro h
        have : ¬ b &&& 64 = 0 := fun c => h (by rw [c]; rfl)
        have := mt (bit6 b).mpr this
        omega
      · intro h c
        have : b &&& 64 = 0 := by exact_mod_cast c
        have := (bit6 b).mp this
        omega
    by_cases hb6 : b / 64 % 2 = 1
    · have hc : (((b &&& 64 : Nat) : Int) != 0) = true := h64.mpr hb6
      have hor : Py.toBytes [bor (128 : Int) 64] = .ok [192] := by decide
      cases pos <;>
        simp [hc, signRoom, hb6, setSign, hor]
    · have hc : ¬ ((((b &&& 64 : Nat) : Int) != 0) = true) := fun c => hb6 (h64.mp c)
      have hor : b ||| 64 < 256 := Nat.or_lt_two_pow (n := 8) hb (by decide)
      cases pos <;>
        simp [hc, signRoom, hb6, setSign, toBytes_cons_ofNat, hor]

/-! ### `write_fraction` -/

theorem listGen_ok {α : Type} (f : α → PyM Int) (g : α → Int) :
    ∀ l : List α, (∀ x ∈ l, f x = .ok (g x)) → listGen l f = .ok (l.map g) := by
  intro l
  induction l with
  | nil => intro _; rfl
  | cons x xs ih =>
    intro h
    rw [listGen, h x (by simp), ok_bind, ih (fun y hy => h y (by simp [hy])), ok_bind]; rfl

theorem fracSeptets_eq (d : Nat) : ∀ p, fracSeptets d p = (List.range p).map (fun k => d / 128 ^ (p - 1 - k) % 128) := by
  intro p
  induction p with
  | zero => rfl
  | succ p ih =>
    rw [fracSeptets, List.range_succ_eq_map, List.map_cons, List.map_map, ih]
    congr 1
    apply List.map_congr_left
    intro k _
    simp only [Function.comp]
    congr 3
    omega

theorem stripTrailing_zero : ∀ init : List Nat, init ≠ [] → stripTrailing (init ++ [0]) = stripTrailing init := by
  intro init
  induction init with
  | nil => intro h; exact absurd rfl h
  | cons x r ih =>
    intro _
    cases r with
    | nil => simp [stripTrailing]
    | cons y r' =>
      have := ih (by simp)
      simp only [List.cons_append, stripTrailing] at this ⊢
      rw [this]
      simp [List.all_append]

theorem stripTrailing_nonzero : ∀ (init : List Nat) (z : Nat), z ≠ 0 → stripTrailing (init ++ [z]) = init ++ [z] := by
  intro init z hz
  induction init with
  | nil => simp [stripTrailing]
  | cons x r ih =>
    simp only [List.cons_append, stripTrailing, ih]
    simp [List.all_append, hz]

theorem stripTrailing_mem : ∀ (L : List Nat) (x : Nat), x ∈ stripTrailing L → x ∈ L := by
  intro L
  induction L with
  | nil => intro x h; simp [stripTrailing] at h
  | cons y t ih =>
    intro x h
    unfold stripTrailing at h
    split at h
    · simp at h; simp [h]
    · simp at h
      rcases h with h | h
      · simp [h]
      · simp [ih x h]

theorem flagAllButLast_eq : ∀ S : List Nat, flagAllButLast S = S.dropLast.map (fun s => Nat.lor s 128) ++ S.drop (S.length - 1) := by
  intro S
  induction S using flagAllButLast.induct with
  | case1 => rfl
  | case2 s => rfl
  | case3 s t ht ih =>
    cases t with
    | nil => exact (ht rfl).elim
    | cons y r =>
      rw [flagAllButLast, ih]
      · simp [List.dropLast]
      · intro c; cases c

theorem toBytes_map (l : List Nat) (h : ∀ x ∈ l, x < 256) : toBytes (l.map (fun x : Nat => (x : Int))) = .ok l := by
  induction l with
  | nil => rfl
  | cons x xs ih =>
    simp only [List.map_cons, toBytes_cons_ofNat, h x (by simp), if_true, ih (fun y hy => h y (by simp [hy])), ok_bind]


/-- the `while len(septets) > 1 and septets[-1] == 0: septets.pop()` loop against the model's `stripTrailing` -/
theorem loopStrip {ρ : Type} (body : List Int → PyM (Step (List Int) ρ))
    (hb : ∀ (init : List Nat) (z : Nat), body ((init ++ [z]).map (fun x : Nat => (x : Int))) =
      if init ≠ [] ∧ z = 0 then .ok (.next (init.map (fun x : Nat => (x : Int))))
      else .ok (.brk ((init ++ [z]).map (fun x : Nat => (x : Int)))))
    (hb0 : body [] = .ok (.brk [])) :
    ∀ (n : Nat) (L : List Nat), L.length ≤ n →
      whileFuel (n + 1) (L.map (fun x : Nat => (x : Int))) body
        = .ok (.brk ((stripTrailing L).map (fun x : Nat => (x : Int)))) := by
  intro n
  induction n with
  | zero =>
    intro L hL
    have : L = [] := List.eq_nil_of_length_eq_zero (by omega)
    subst this
    simp [whileFuel, hb0, stripTrailing]
  | succ n ih =>
    intro L hL
    rcases List.eq_nil_or_concat L with rfl | ⟨init, z, rfl⟩
    · simp [whileFuel, hb0, stripTrailing]
    · simp only [List.concat_eq_append] at hL ⊢
      rw [whileFuel, hb]
      by_cases hc : init ≠ [] ∧ z = 0
      · obtain ⟨hi, rfl⟩ := hc
        simp only [hi, ne_eq, not_false_eq_true, and_self, if_true, ok_bind]
        rw [ih init (by simp at hL; omega), stripTrailing_zero init hi]
      · rw [if_neg hc]
        simp only [ok_bind]
        by_cases hz : z = 0
        · have : init = [] := by
            by_cases hi : init = []
            · exact hi
            · exact absurd ⟨hi, hz⟩ hc
          subst this; subst hz
          simp [stripTrailing]
        · rw [stripTrailing_nonzero init z hz]; rfl

theorem frac_gen (d p : Nat) :
    (range3 ((p : Int) - 1) (-1) (-1) >>= fun l => listGen l fun i => do
        let x ← shr (d : Int) (7 * i)
        pure (band x 127)) = .ok ((fracSeptets d p).map (fun x : Nat => (x : Int))) := by
  have hr : range3 ((p : Int) - 1) (-1) (-1)
      = .ok ((List.range p).map (fun k => ((p : Int) - 1) + (-1) * Int.ofNat k)) := by
    unfold range3
    have e : ((((p : Int) - 1 - (-1) + (- (-1 : Int)) - 1) / (- (-1 : Int)))).toNat = p := by
      have : (- (-1 : Int)) = 1 := by decide
      rw [this]; omega
    simp only [show ¬ ((-1 : Int) = 0) by decide, show ¬ ((0 : Int) < -1) by decide, if_false, e]
    rfl
  rw [hr, ok_bind]
  rw [listGen_ok _ (fun i : Int => ((d / 128 ^ i.toNat % 128 : Nat) : Int))]
  · rw [fracSeptets_eq, List.map_map, List.map_map]
    congr 1
    apply List.map_congr_left
    intro k hk
    have hk' : k < p := by simpa using hk
    simp only [Function.comp]
    have : ((p : Int) - 1 + -1 * Int.ofNat k).toNat = p - 1 - k := by
      simp only [Int.ofNat_eq_natCast]; omega
    rw [this]
  · intro i hi
    simp only [List.mem_map, List.mem_range] at hi
    obtain ⟨k, hk, rfl⟩ := hi
    have hj : (p : Int) - 1 + -1 * Int.ofNat k = ((p - 1 - k : Nat) : Int) := by
      simp only [Int.ofNat_eq_natCast]; omega
    rw [hj]
    generalize p - 1 - k = j
    unfold shr
    have h1 : ¬ ((7 : Int) * (j : Int) < 0) := by omega
    have h2 : ((7 : Int) * (j : Int)).toNat = 7 * j := by omega
    rw [if_neg h1, h2]
    simp only [pure_eq_ok, ok_bind, Int.toNat_natCast]
    have h3 : (d : Int) / 2 ^ (7 * j) = ((d / 128 ^ j : Nat) : Int) := by
      rw [show (128 : Nat) = 2 ^ 7 from rfl, ← Nat.pow_mul]; norm_cast
    rw [h3, band_lit]
    have : d / 128 ^ j &&& 127 = d / 128 ^ j % 128 := Nat.and_two_pow_sub_one_eq_mod _ 7
    rw [this]

theorem getI_last (l : List Int) (x : Int) : getI (l ++ [x]) (-1) = .ok x := by
  unfold getI getItem normIndex
  have h1 : ¬ ((0 : Int) ≤ -1) := by decide
  have h2 : (0 : Int) ≤ -1 + ((l ++ [x]).length : Nat) := by simp; omega
  have h3 : ((-1 : Int) + ((l ++ [x]).length : Nat)).toNat = l.length := by simp; omega
  simp only [h1, if_false, h2, if_true, h3, pure_eq_ok, ok_bind]
  simp

theorem slice_to_last {α : Type} (l : List α) : slice l none (some (-1)) = l.dropLast := by
  unfold slice clampIdx
  have h : ((-1 : Int) + (l.length : Nat)).toNat = l.length - 1 := by omega
  simp only [show ((-1 : Int) < 0) by decide, if_true, h, List.drop_zero, Nat.sub_zero, List.dropLast_eq_take]

theorem slice_from_last {α : Type} (l : List α) : slice l (some (-1)) none = l.drop (l.length - 1) := by
  unfold slice clampIdx
  have h : ((-1 : Int) + (l.length : Nat)).toNat = l.length - 1 := by omega
  simp only [show ((-1 : Int) < 0) by decide, if_true, h]
  rw [List.take_of_length_le (by simp)]

theorem write_fraction_eq (d p : Nat) : write_fraction (d : Int) (p : Int) = .ok (writeFraction d p) := by
  unfold write_fraction writeFraction
  rw [← bind_assoc, frac_gen, ok_bind]
  have hF : ∀ x ∈ fracSeptets d p, x < 128 := by
    intro x hx
    rw [fracSeptets_eq] at hx
    simp only [List.mem_map] at hx
    obtain ⟨k, _, rfl⟩ := hx
    omega
  generalize fracSeptets d p = F at hF
  have hfuel : (len (F.map (fun x : Nat => (x : Int))) + 1).toNat = F.length + 1 := by
    simp only [len_eq, List.length_map]; omega
  rw [hfuel, loopStrip _ ?hb ?hb0 F.length F (Nat.le_refl _)]
  case hb =>
    intro init z
    have hlen : len (init.map (fun x : Nat => (x : Int)) ++ [(z : Int)]) = ((init.length + 1 : Nat) : Int) := by
      simp [len]
    simp only [List.map_append, List.map_cons, List.map_nil, hlen, getI_last, ok_bind, pure_eq_ok]
    by_cases hi : init = []
    · subst hi
      simp
    · have hl : init.length ≠ 0 := fun c => hi (List.eq_nil_of_length_eq_zero c)
      have hgt : decide (((init.length + 1 : Nat) : Int) > 1) = true := by
        simp only [decide_eq_true_eq]; omega
      simp only [hgt, if_true, ok_bind]
      by_cases hz : z = 0
      · subst hz
        simp [hi, popLast]
      · have : ((z : Int) == 0) = false := by simp only [beq_eq_false_iff_ne, ne_eq]; omega
        simp [hi, hz, this]
  case hb0 => rfl
  simp only [ok_bind]
  have hS : ∀ x ∈ stripTrailing F, x < 128 := fun x hx => hF x (stripTrailing_mem F x hx)
  generalize stripTrailing F = S at hS
  rw [slice_to_last, slice_from_last]
  rw [listGen_ok (fun septet : Int => (pure (bor septet 128) : PyM Int)) (fun x : Int => bor x 128) _ (fun x _ => rfl), ok_bind]
  rw [← List.map_dropLast, List.map_map, List.length_map, ← List.map_drop]
  have e : (fun x : Int => bor x 128) ∘ (fun x : Nat => (x : Int)) = (fun x : Nat => (x : Int)) ∘ (fun s : Nat => Nat.lor s 128) := by
    funext x; rfl
  rw [e, ← List.map_map, ← List.map_append, toBytes_map, flagAllButLast_eq]
  intro x hx
  simp only [List.mem_append, List.mem_map] at hx
  rcases hx with ⟨y, hy, rfl⟩ | hx
  · have := hS y (List.dropLast_subset _ hy)
    exact Nat.or_lt_two_pow (n := 8) (by omega) (by decide)
  · have := hS x (List.mem_of_mem_drop hx)
    omega


end Dmr.Transl.Mbxml
