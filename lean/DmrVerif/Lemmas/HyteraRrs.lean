import DmrVerif.Lemmas.HyteraBytes
import DmrVerif.Lemmas.HyteraSpec

/-! RRS and the HDAP dispatch: serialise-then-parse (C12).  Core Lean only. -/

namespace Dmr.Hytera
open Dmr Dmr.Gen.Hytera

/-- `HDAP.from_bytes` looks at the first octet only to choose the parser -/
theorem hdap_dispatch (f : Frame) {o1 o2 : Nat} (ho : f.opcode = [o1, o2]) (hs : f.service ∈ svcValues) :
    Hdap.fromBytes f.asBytes =
      if f.service = svcLP then (fun p => some (Pdu.lp p)) <$> Lp.fromBytes f.asBytes
      else if f.service = svcRCP then (fun p => some (Pdu.rcp p)) <$> Rcp.fromBytes f.asBytes
      else if f.service = svcRRS then (Option.map Pdu.rrs) <$> Rrs.fromBytes f.asBytes
      else if f.service = svcTMP then (Option.map Pdu.tmp) <$> Tmp.fromBytes f.asBytes
      else throw .key := by
  obtain ⟨x, y, _, hb⟩ := frame_cons f ho
  rw [hb]
  simp only [Hdap.fromBytes, reliableAndService_first f.reliable hs, bind, Except.bind]

theorem rrs_frame_ok (p : Rrs) (h : p.opcode ∈ rrsValues) : ∃ pl, p.payload = .ok pl ∧ pl.length < 65536 ∧
    p.frame = .ok ⟨svcRRS, p.reliable, [0, p.opcode], false, pl⟩ := by
  simp only [rrsValues, List.mem_cons, List.not_mem_nil, or_false] at h
  rcases h with h | h | h | h | h <;>
    simp [Rrs.frame, Rrs.payload, Rrs.isRequest, h, rrsRadioRegistrationAnswer, rrsRadioRegistrationRequest,
      rrsRadioGoingOffline, rrsRegistrationStatusCheckRequest, rrsRegistrationStatusCheckAnswer,
      RadioIp.asBytes, be3, be4, bind, Except.bind, pure, Except.pure]

theorem rrs_parse_serialise (p : Rrs) (h : p.WF) :
    ∃ f, p.frame = .ok f ∧ f.payload.length < 65536 ∧ f.opcode = [0, p.opcode] ∧ f.service = svcRRS
      ∧ Rrs.fromBytes f.asBytes = .ok (some p.norm) := by
  obtain ⟨rel, op, ⟨sn, rid⟩, res, renew, st⟩ := p
  obtain ⟨hop, ⟨hs, hr⟩, hres, hrn, hst⟩ := h
  simp only at hop hs hr hres hrn hst
  have h3 := Nat.mod_eq_of_lt hr
  have h4 : renew % 4294967296 = renew := Nat.mod_eq_of_lt (by omega)
  have hr1 := enumOf_mem hres
  have hs1 := enumOf_mem hst
  have hrn' : ¬ (1 ≤ renew → 65534 < renew) := by omega
  have e0 : enumOf rrsResultValues 0 = .ok 0 := enumOf_mem (by decide)
  have e1 : enumOf rrsStateValues 0 = .ok 0 := enumOf_mem (by decide)
  simp only [rrsValues, List.mem_cons, List.not_mem_nil, or_false] at hop
  rcases hop with rfl | rfl | rfl | rfl | rfl <;> cases rel <;>
  simp [Rrs.frame, Rrs.payload, Rrs.isRequest, Frame.asBytes, Frame.checked, len16, be2, be4, be3, RadioIp.asBytes,
    rrsRadioRegistrationAnswer, rrsRadioRegistrationRequest, rrsRadioGoingOffline,
    rrsRegistrationStatusCheckRequest, rrsRegistrationStatusCheckAnswer,
    Rrs.fromBytes, sl, idx, reliableAndServiceB, reliableAndService, svcRRS, enumOf_mem, svcValues, hdapMsgEnd,
    rrsValues, Rrs.init, RadioIp.fromBytes, bind, Except.bind, pure, Except.pure,
    ofBe3', ofBe4', h3, h4, hr1, hs1, hrn', e0, e1, Rrs.norm, rrsResultSuccess, rrsStateOnline,
    Functor.map, Except.map, throw, throwThe, MonadExceptOf.throw]

end Dmr.Hytera
