import DmrVerif.Lemmas.Mbxml

/-!
# Lemmas for C14: the signed variable-length integer codec (sign in bit 6 of the first octet)
-/

namespace Dmr.Mbxml

theorem lor_sign : ∀ b, b < 256 → b / 64 % 2 = 0 → Nat.lor b 64 = b + 64 := by decide +kernel

theorem readUGo_cons_flag (b : Nat) (t : Bytes) (acc : Nat) (h : 128 ≤ b ∧ b < 256) :
    readUGo (b :: t) acc = match readUGo t (acc * 128 + b % 128) with
      | .ok (v, n) => .ok (v, n + 1)
      | .error e => .error e := by
  have : ¬ (b / 128 % 2 = 0) := by omega
  simp only [readUGo, this, if_false]
  cases readUGo t (acc * 128 + b % 128) with
  | error e => rfl
  | ok p => rfl

theorem readUGo_cons_last (b : Nat) (t : Bytes) (acc : Nat) (h : b < 128) :
    readUGo (b :: t) acc = .ok (acc * 128 + b % 128, 1) := by
  have : b / 128 % 2 = 0 := by omega
  simp [readUGo, this]

theorem wellFlagged_cons (b : Nat) (t : Bytes) (h : wellFlagged (b :: t) = true) :
    (t = [] ∧ b < 128) ∨ (t ≠ [] ∧ 128 ≤ b ∧ b < 256 ∧ wellFlagged t = true) := by
  cases t with
  | nil => left; simpa [wellFlagged] using h
  | cons c t' =>
    right
    simp only [wellFlagged, Bool.and_eq_true, decide_eq_true_eq] at h
    exact ⟨by simp, h.1.1, h.1.2, h.2⟩

/-- the signed reader on what the signed writer produced, with anything after it -/
theorem readS_writeSRaw (m : Nat) (neg : Bool) (rest : Bytes) :
    readS (writeSRaw m neg ++ rest) 0 = .ok (applySign neg m, (writeSRaw m neg).length, neg) := by
  have hr := readUGo_encU m rest
  have hc := canonicalU_encU m
  unfold canonicalU at hc
  simp only [Bool.and_eq_true] at hc
  have hw := hc.1
  unfold writeSRaw
  rw [writeURaw_eq]
  cases hs : encU m with
  | nil => exact absurd hs (encU_ne_nil m)
  | cons b t =>
    rw [hs] at hr hw
    simp only []
    by_cases h6 : b / 64 % 2 = 1
    · -- a further leading septet carries the sign
      simp only [h6, if_true]
      cases neg
      · simp only [Bool.false_eq_true, if_false, readS, List.drop_zero, List.cons_append]
        have : ¬ (128 / 128 % 2 = 0) := by decide
        simp only [this, if_false]
        have e : (128 : Nat) % 64 = 0 := by decide
        rw [e]
        simp only [List.cons_append] at hr
        rw [hr]
        simp [applySign]; omega
      · simp only [if_true, readS, List.drop_zero, List.cons_append]
        have e0 : (128 : Nat) ||| 64 = 192 := by decide
        have e1 : Nat.lor 128 64 = 192 := by decide
        simp only [e1]
        have : ¬ (192 / 128 % 2 = 0) := by decide
        simp only [this, if_false]
        have e : (192 : Nat) % 64 = 0 := by decide
        rw [e]
        simp only [List.cons_append] at hr
        rw [hr]
        simp [applySign]; omega
    · have h6' : b / 64 % 2 = 0 := by omega
      simp only [h6, if_false]
      rcases wellFlagged_cons b t hw with ⟨ht, hb⟩ | ⟨ht, hb1, hb2, _⟩
      · -- single octet below 64
        subst ht
        have hm : m = b := by
          have := decGo_encU m
          rw [hs] at this
          simp [decGo] at this; omega
        cases neg
        · simp only [Bool.false_eq_true, if_false, readS, List.drop_zero, List.cons_append]
          have : b / 128 % 2 = 0 := by omega
          simp only [this, if_true]
          simp [applySign, hm]; omega
        · simp only [if_true, readS, List.drop_zero, List.cons_append]
          have e1 : Nat.lor b 64 = b + 64 := lor_sign b (by omega) h6'
          simp only [e1]
          have : (b + 64) / 128 % 2 = 0 := by omega
          simp only [this, if_true]
          have e2 : (b + 64) / 64 % 2 = 1 := by omega
          have e3 : (b + 64) % 64 = b := by omega
          rw [e2, e3]
          simp [applySign, hm]
      · -- several octets, the first one has room for the sign
        simp only [List.cons_append] at hr
        rw [readUGo_cons_flag b (t ++ rest) 0 ⟨hb1, hb2⟩] at hr
        have hacc : 0 * 128 + b % 128 = b % 64 := by omega
        rw [hacc] at hr
        cases neg
        · simp only [Bool.false_eq_true, if_false, readS, List.drop_zero, List.cons_append]
          have : ¬ (b / 128 % 2 = 0) := by omega
          simp only [this, if_false]
          cases hq : readUGo (t ++ rest) (b % 64) with
          | error e => rw [hq] at hr; simp at hr
          | ok p =>
            obtain ⟨v, n⟩ := p
            rw [hq] at hr
            simp only [Except.ok.injEq, Prod.mk.injEq] at hr
            simp [applySign, hr.1, h6']
            simp only [List.length_cons] at hr; omega
        · simp only [if_true, readS, List.drop_zero, List.cons_append]
          have e1 : Nat.lor b 64 = b + 64 := lor_sign b hb2 h6'
          simp only [e1]
          have : ¬ ((b + 64) / 128 % 2 = 0) := by omega
          simp only [this, if_false]
          have e3 : (b + 64) % 64 = b % 64 := by omega
          have e2 : (b + 64) / 64 % 2 = 1 := by omega
          rw [e3, e2]
          cases hq : readUGo (t ++ rest) (b % 64) with
          | error e => rw [hq] at hr; simp at hr
          | ok p =>
            obtain ⟨v, n⟩ := p
            rw [hq] at hr
            simp only [Except.ok.injEq, Prod.mk.injEq] at hr
            simp [applySign, hr.1]
            simp only [List.length_cons] at hr; omega



/-! ## canonical signed form: produced by the writer, and only by the writer -/

theorem readUGo_wellFlagged (t rest : Bytes) (acc : Nat) (h : wellFlagged t = true) :
    readUGo (t ++ rest) acc = .ok (decGo t acc, t.length) := by
  obtain ⟨pre, l, he, hf, hl⟩ := wellFlagged_split t h
  subst he
  have := readUGo_flagged pre l rest acc hf hl
  simp only [List.append_assoc, List.singleton_append, List.length_append, List.length_singleton]
  exact this

theorem encU_small {m : Nat} (h : m < 128) : encU m = [m] := by
  have h0 : m / 128 = 0 := by omega
  have h1 : m % 128 = m := by omega
  simp [encU, h0, h1, encHi_zero]

theorem canonicalS_writeSRaw (m : Nat) (neg : Bool) : canonicalS (writeSRaw m neg) = true := by
  have hc := canonicalU_encU m
  unfold canonicalU at hc
  simp only [Bool.and_eq_true, Bool.or_eq_true, beq_iff_eq, bne_iff_ne, ne_eq] at hc
  have hw := hc.1
  unfold writeSRaw
  rw [writeURaw_eq]
  cases hs : encU m with
  | nil => exact absurd hs (encU_ne_nil m)
  | cons b t =>
    rw [hs] at hw hc
    simp only []
    by_cases h6 : b / 64 % 2 = 1
    · simp only [h6, if_true]
      have hb : b < 256 := by
        rcases wellFlagged_cons b t hw with ⟨_, hb⟩ | ⟨_, _, hb, _⟩ <;> omega
      cases neg
      · simp only [Bool.false_eq_true, if_false, canonicalS]
        have : wellFlagged (128 :: b :: t) = true := by simp [wellFlagged, hw]
        simp [this, h6]
      · have e1 : Nat.lor 128 64 = 192 := by decide
        simp only [if_true, canonicalS, e1]
        have : wellFlagged (192 :: b :: t) = true := by simp [wellFlagged, hw]
        simp [this, h6]
    · have h6' : b / 64 % 2 = 0 := by omega
      simp only [h6, if_false]
      rcases wellFlagged_cons b t hw with ⟨ht, hb⟩ | ⟨ht, hb1, hb2, hwt⟩
      · subst ht
        cases neg
        · simp [canonicalS, wellFlagged, hb]
        · have e1 : Nat.lor b 64 = b + 64 := lor_sign b (by omega) h6'
          simp only [if_true, e1, canonicalS, wellFlagged]
          have : b + 64 < 128 := by omega
          simp [this]
      · have hne : b ≠ 128 := by
          rcases hc.2 with h2 | h2
          · cases t with
            | nil => exact absurd rfl ht
            | cons c t' => simp at h2
          · simpa using h2
        cases t with
        | nil => exact absurd rfl ht
        | cons c t' =>
          cases neg
          · simp only [Bool.false_eq_true, if_false, canonicalS, hw, Bool.true_and]
            have : ¬ (b % 64 = 0) := by omega
            simp [this]
          · have e1 : Nat.lor b 64 = b + 64 := lor_sign b hb2 h6'
            simp only [if_true, e1, canonicalS]
            have h1 : wellFlagged (b + 64 :: c :: t') = true := by
              simp only [wellFlagged, Bool.and_eq_true, decide_eq_true_eq]
              exact ⟨⟨by omega, by omega⟩, hwt⟩
            have : ¬ ((b + 64) % 64 = 0) := by omega
            simp [h1, this]

/-- sign and magnitude an octet string reads as -/
def sNeg : Bytes → Bool
  | [] => false
  | b :: _ => b / 64 % 2 = 1

def sMag : Bytes → Nat
  | [] => 0
  | b :: t => decGo t (b % 64)

/-- a canonical signed octet string reads as `(sNeg, sMag)`, all of it is consumed, and it is exactly
what the writer produces for that sign and magnitude -/
theorem canonicalS_unique (bs rest : Bytes) (h : canonicalS bs = true) :
    readS (bs ++ rest) 0 = .ok (applySign (sNeg bs) (sMag bs), bs.length, sNeg bs)
    ∧ writeSRaw (sMag bs) (sNeg bs) = bs := by
  unfold canonicalS at h
  simp only [Bool.and_eq_true] at h
  obtain ⟨hw, h2⟩ := h
  cases bs with
  | nil => simp [wellFlagged] at hw
  | cons b t =>
    rcases wellFlagged_cons b t hw with ⟨ht, hb⟩ | ⟨ht, hb1, hb2, hwt⟩
    · subst ht
      constructor
      · have : b / 128 % 2 = 0 := by omega
        simp [readS, this, sNeg, sMag, decGo]
      · have hm : b % 64 < 128 := by omega
        unfold writeSRaw
        rw [writeURaw_eq, encU_small hm]
        have : ¬ (b % 64 / 64 % 2 = 1) := by omega
        simp only [sMag, decGo, List.foldl_nil, this, if_false, sNeg]
        by_cases hn : b / 64 % 2 = 1
        · have e1 : Nat.lor (b % 64) 64 = b % 64 + 64 := lor_sign _ (by omega) (by omega)
          simp [hn, e1]; omega
        · simp [hn]; omega
    · constructor
      · have : ¬ (b / 128 % 2 = 0) := by omega
        simp only [List.cons_append, readS, List.drop_zero, this, if_false,
          readUGo_wellFlagged t rest (b % 64) hwt, sNeg, sMag, List.length_cons]
        simp; omega
      · cases t with
        | nil => exact absurd rfl ht
        | cons c t' =>
          simp only [Bool.not_eq_true', Bool.and_eq_false_iff, beq_eq_false_iff_ne, ne_eq] at h2
          by_cases ha : b % 64 = 0
          · -- bare continuation octet: the sign has its own septet
            have hc6 : c / 64 % 2 = 1 := by
              rcases h2 with h2 | h2
              · exact absurd ha h2
              · omega
            have hcan : canonicalU (c :: t') = true := by
              unfold canonicalU
              have : c ≠ 128 := by omega
              simp [hwt, this]
            have henc := encU_decGo (c :: t') hcan
            unfold writeSRaw
            rw [writeURaw_eq]
            simp only [sMag, ha, henc, hc6, if_true, sNeg]
            by_cases hn : b / 64 % 2 = 1
            · have e1 : Nat.lor 128 64 = 192 := by decide
              simp [hn, e1]; omega
            · simp [hn]; omega
          · have ha64 : b % 64 < 64 := Nat.mod_lt _ (by omega)
            have hcan : canonicalU ((128 + b % 64) :: c :: t') = true := by
              unfold canonicalU
              have h1 : wellFlagged ((128 + b % 64) :: c :: t') = true := by
                simp only [wellFlagged, Bool.and_eq_true, decide_eq_true_eq]
                exact ⟨⟨by omega, by omega⟩, hwt⟩
              have : ¬ (128 + b % 64 = 128) := by omega
              simp [h1, this]
            have henc := encU_decGo _ hcan
            have hd : decGo ((128 + b % 64) :: c :: t') 0 = decGo (c :: t') (b % 64) := by
              rw [decGo_cons]; congr 1; omega
            rw [hd] at henc
            unfold writeSRaw
            rw [writeURaw_eq]
            have h6 : ¬ ((128 + b % 64) / 64 % 2 = 1) := by omega
            simp only [sMag, henc, h6, if_false, sNeg]
            by_cases hn : b / 64 % 2 = 1
            · have e1 : Nat.lor (128 + b % 64) 64 = 128 + b % 64 + 64 :=
                lor_sign _ (by omega) (by omega)
              simp [hn, e1]; omega
            · simp [hn]; omega

end Dmr.Mbxml
