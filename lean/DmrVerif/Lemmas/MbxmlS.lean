import DmrVerif.Lemmas.Mbxml

/-!
# Lemmas for C14: the signed variable-length integer codec (sign in bit 6 of the first octet)
-/

namespace Dmr.Mbxml

theorem lor_sign : ∀ b, b < 256 → b / 64 % 2 = 0 → Nat.lor b 64 = b + 64 := by decide +kernel
theorem lor_sign' (b : Nat) (h : b < 256) (h6 : b / 64 % 2 = 0) : b ||| 64 = b + 64 := lor_sign b h h6

theorem readUGo_cons_flag (b : Nat) (t : Bytes) (acc : Nat) (h : 128 ≤ b ∧ b < 256) :
    readUGo (b :: t) acc = bump 1 (readUGo t (acc * 128 + b % 128)) := by
  have : ¬ (b / 128 % 2 = 0) := by omega
  simp only [readUGo, this, if_false]

theorem readUGo_cons_last (b : Nat) (t : Bytes) (acc : Nat) (h : b < 128) :
    readUGo (b :: t) acc = .ok (acc * 128 + b % 128, 1) := by
  have : b / 128 % 2 = 0 := by omega
  simp [readUGo, this]

theorem wellFlagged_cons (b : Nat) (t : Bytes) (h : wellFlagged (b :: t) = true) :
    (t = [] ∧ b < 128) ∨ (t ≠ [] ∧ 128 ≤ b ∧ b < 256 ∧ wellFlagged t = true) := by
  cases t with
  | nil => left; simpa [wellFlagged] using h
  | cons c t' =>
    right
    simp only [wellFlagged, Bool.and_eq_true, decide_eq_true_eq] at h
    exact ⟨by simp, h.1.1, h.1.2, h.2⟩

theorem readUGo_wellFlagged (t rest : Bytes) (acc : Nat) (h : wellFlagged t = true) :
    readUGo (t ++ rest) acc = .ok (decGo t acc, t.length) := by
  obtain ⟨pre, l, he, hf, hl⟩ := wellFlagged_split t h
  subst he
  have := readUGo_flagged pre l rest acc hf hl
  simp only [List.append_assoc, List.singleton_append, List.length_append, List.length_singleton]
  exact this

theorem encU_small {m : Nat} (h : m < 128) : encU m = [m] := by
  have h0 : m / 128 = 0 := by omega
  have h1 : m % 128 = m := by omega
  simp [encU, h0, h1, encHi_zero]

/-- the reader on a first octet `f` (sign in bit 6, six magnitude bits) followed by `t` -/
theorem readS_cons_flag (f : Nat) (t : Bytes) (h : 128 ≤ f ∧ f < 256) :
    readS (f :: t) 0 = readSRest (f / 64 % 2 = 1) 0 (readUGo t (f % 64)) := by
  have : ¬ (f / 128 % 2 = 0) := by omega
  simp only [readS, List.drop_zero, this, if_false]

theorem readS_cons_last (f : Nat) (t : Bytes) (h : f < 128) :
    readS (f :: t) 0 = .ok (applySign (f / 64 % 2 = 1) (f % 64), 1, decide (f / 64 % 2 = 1)) := by
  have : f / 128 % 2 = 0 := by omega
  simp [readS, this]

/-- shape of the unsigned writer's output: value, flags, first octet -/
theorem encU_shape (m : Nat) : ∃ b t, encU m = b :: t ∧ wellFlagged (b :: t) = true
    ∧ (t ≠ [] → b ≠ 128) ∧ decGo (b :: t) 0 = m := by
  have hc := canonicalU_encU m
  unfold canonicalU at hc
  simp only [Bool.and_eq_true, Bool.or_eq_true, beq_iff_eq, bne_iff_ne, ne_eq] at hc
  cases hs : encU m with
  | nil => exact absurd hs (encU_ne_nil m)
  | cons b t =>
    rw [hs] at hc
    refine ⟨b, t, rfl, hc.1, ?_, by rw [← hs]; exact decGo_encU m⟩
    intro ht
    rcases hc.2 with h2 | h2
    · cases t with
      | nil => exact absurd rfl ht
      | cons c t' => simp at h2
    · simpa using h2

/-- the signed reader on what the signed writer produced, with anything after it -/
theorem readS_writeSRaw (m : Nat) (neg : Bool) (rest : Bytes) :
    readS (writeSRaw m neg ++ rest) 0 = .ok (applySign neg m, (writeSRaw m neg).length, neg) := by
  obtain ⟨b, t, hs, hw, _, hm⟩ := encU_shape m
  have hr : readUGo (b :: t ++ rest) 0 = .ok (m, (b :: t).length) := by
    rw [readUGo_wellFlagged _ _ _ hw, hm]
  unfold writeSRaw
  rw [writeURaw_eq, hs]
  have hb256 : b < 256 := by
    rcases wellFlagged_cons b t hw with ⟨_, hb⟩ | ⟨_, _, hb, _⟩ <;> omega
  by_cases h6 : b / 64 % 2 = 1
  · -- a further leading septet carries the sign
    simp only [signRoom, h6, if_true]
    cases neg
    · simp only [setSign, List.cons_append]
      rw [readS_cons_flag 128 _ (by omega)]
      have e : (128 : Nat) % 64 = 0 := by decide
      rw [e]
      simp only [List.cons_append] at hr
      rw [hr]
      simp [applySign, readSRest]; omega
    · have e1 : Nat.lor 128 64 = 192 := by decide
      simp only [setSign, List.cons_append, e1]
      rw [readS_cons_flag 192 _ (by omega)]
      have e : (192 : Nat) % 64 = 0 := by decide
      rw [e]
      simp only [List.cons_append] at hr
      rw [hr]
      simp [applySign, readSRest]; omega
  · have h6' : b / 64 % 2 = 0 := by omega
    simp only [signRoom, h6, if_false]
    rcases wellFlagged_cons b t hw with ⟨ht, hb⟩ | ⟨ht, hb1, hb2, hwt⟩
    · -- single octet below 64
      subst ht
      have hmb : m = b := by simp [decGo] at hm; omega
      cases neg
      · simp only [setSign, List.cons_append]
        rw [readS_cons_last b _ hb]
        have e3 : b % 64 = b := by omega
        rw [h6', e3]
        simp [applySign, hmb]
      · have e1 : Nat.lor b 64 = b + 64 := lor_sign b (by omega) h6'
        simp only [setSign, List.cons_append, e1]
        rw [readS_cons_last (b + 64) _ (by omega)]
        have e2 : (b + 64) / 64 % 2 = 1 := by omega
        have e3 : (b + 64) % 64 = b := by omega
        rw [e2, e3]
        simp [applySign, hmb]
    · -- several octets, the first one has room for the sign
      simp only [List.cons_append] at hr
      rw [readUGo_cons_flag b (t ++ rest) 0 ⟨hb1, hb2⟩] at hr
      have hacc : 0 * 128 + b % 128 = b % 64 := by omega
      rw [hacc] at hr
      cases hq : readUGo (t ++ rest) (b % 64) with
      | error e => rw [hq] at hr; simp [bump] at hr
      | ok p =>
        obtain ⟨v, n⟩ := p
        rw [hq] at hr
        simp only [bump, Except.ok.injEq, Prod.mk.injEq, List.length_cons] at hr
        cases neg
        · simp only [setSign, List.cons_append]
          rw [readS_cons_flag b _ ⟨hb1, hb2⟩, hq, h6']
          simp [applySign, readSRest, hr.1]; omega
        · have e1 : Nat.lor b 64 = b + 64 := lor_sign b hb2 h6'
          simp only [setSign, List.cons_append, e1]
          rw [readS_cons_flag (b + 64) _ (by omega)]
          have e3 : (b + 64) % 64 = b % 64 := by omega
          have e2 : (b + 64) / 64 % 2 = 1 := by omega
          rw [e3, e2, hq]
          simp [applySign, readSRest, hr.1]; omega

/-! ## canonical signed form: produced by the writer, and only by the writer -/

theorem canonicalS_writeSRaw (m : Nat) (neg : Bool) : canonicalS (writeSRaw m neg) = true := by
  obtain ⟨b, t, hs, hw, hne, _⟩ := encU_shape m
  unfold writeSRaw
  rw [writeURaw_eq, hs]
  have hb256 : b < 256 := by
    rcases wellFlagged_cons b t hw with ⟨_, hb⟩ | ⟨_, _, hb, _⟩ <;> omega
  by_cases h6 : b / 64 % 2 = 1
  · simp only [signRoom, h6, if_true]
    cases neg
    · have : wellFlagged (128 :: b :: t) = true := by simp [wellFlagged, hw]
      simp [setSign, canonicalS, this, h6]
    · have e1 : Nat.lor 128 64 = 192 := by decide
      have e1' : 128 ||| 64 = 192 := e1
      have : wellFlagged (192 :: b :: t) = true := by simp [wellFlagged, hw]
      simp [setSign, canonicalS, e1', this, h6]
  · have h6' : b / 64 % 2 = 0 := by omega
    simp only [signRoom, h6, if_false]
    rcases wellFlagged_cons b t hw with ⟨ht, hb⟩ | ⟨ht, hb1, hb2, hwt⟩
    · subst ht
      cases neg
      · simp [setSign, canonicalS, wellFlagged, hb]
      · have e1 : Nat.lor b 64 = b + 64 := lor_sign b (by omega) h6'
        have e1' : b ||| 64 = b + 64 := e1
        have : b + 64 < 128 := by omega
        simp [setSign, e1', canonicalS, wellFlagged, this]
    · have hb128 : b ≠ 128 := hne ht
      cases t with
      | nil => exact absurd rfl ht
      | cons c t' =>
        cases neg
        · have : ¬ (b % 64 = 0) := by omega
          simp [setSign, canonicalS, hw, this]
        · have e1 : Nat.lor b 64 = b + 64 := lor_sign b hb2 h6'
          have e1' : b ||| 64 = b + 64 := e1
          have h1 : wellFlagged ((b + 64) :: c :: t') = true := by
            simp only [wellFlagged, Bool.and_eq_true, decide_eq_true_eq]
            exact ⟨⟨by omega, by omega⟩, hwt⟩
          have : ¬ ((b + 64) % 64 = 0) := by omega
          have h3 : ¬ (b % 64 = 0) := by omega
          simp [setSign, e1', canonicalS, h1, h3]

/-- sign and magnitude an octet string reads as -/
def sNeg : Bytes → Bool
  | [] => false
  | b :: _ => b / 64 % 2 = 1

def sMag : Bytes → Nat
  | [] => 0
  | b :: t => decGo t (b % 64)

/-- a canonical signed octet string reads as `(sNeg, sMag)`, all of it is consumed, and it is exactly
what the writer produces for that sign and magnitude -/
theorem canonicalS_unique (bs rest : Bytes) (h : canonicalS bs = true) :
    readS (bs ++ rest) 0 = .ok (applySign (sNeg bs) (sMag bs), bs.length, sNeg bs)
    ∧ writeSRaw (sMag bs) (sNeg bs) = bs := by
  unfold canonicalS at h
  simp only [Bool.and_eq_true] at h
  obtain ⟨hw, h2⟩ := h
  cases bs with
  | nil => simp [wellFlagged] at hw
  | cons b t =>
    rcases wellFlagged_cons b t hw with ⟨ht, hb⟩ | ⟨ht, hb1, hb2, hwt⟩
    · subst ht
      constructor
      · simp only [List.cons_append, List.nil_append]
        rw [readS_cons_last b _ hb]
        simp [sNeg, sMag, decGo]
      · have hm : b % 64 < 128 := by omega
        have h6 : ¬ (b % 64 / 64 % 2 = 1) := by omega
        simp only [writeSRaw, sMag, decGo, List.foldl_nil, writeURaw_eq, encU_small hm, signRoom, h6,
          if_false, sNeg]
        by_cases hn : b / 64 % 2 = 1
        · have e1 : Nat.lor (b % 64) 64 = b % 64 + 64 := lor_sign _ (by omega) (by omega)
          have e1' : (b % 64) ||| 64 = b % 64 + 64 := e1
          simp [hn, setSign, e1']; omega
        · simp [hn, setSign]; omega
    · constructor
      · simp only [List.cons_append]
        rw [readS_cons_flag b _ ⟨hb1, hb2⟩, readUGo_wellFlagged t rest (b % 64) hwt]
        simp [sNeg, sMag, readSRest]; omega
      · cases t with
        | nil => exact absurd rfl ht
        | cons c t' =>
          simp only [Bool.not_eq_true', Bool.and_eq_false_iff, beq_eq_false_iff_ne, ne_eq] at h2
          by_cases ha : b % 64 = 0
          · -- bare continuation octet: the sign has its own septet
            have hc6 : c / 64 % 2 = 1 := by
              rcases h2 with h2 | h2
              · exact absurd ha h2
              · omega
            have hcan : canonicalU (c :: t') = true := by
              unfold canonicalU
              have : c ≠ 128 := by omega
              simp [hwt, this]
            have henc := encU_decGo (c :: t') hcan
            simp only [writeSRaw, writeURaw_eq, sMag, ha, henc, signRoom, hc6, if_true, sNeg]
            by_cases hn : b / 64 % 2 = 1
            · have e1 : Nat.lor 128 64 = 192 := by decide
              have e1' : 128 ||| 64 = 192 := e1
              simp [hn, setSign, e1']; omega
            · simp [hn, setSign]; omega
          · have ha64 : b % 64 < 64 := Nat.mod_lt _ (by omega)
            have hcan : canonicalU ((128 + b % 64) :: c :: t') = true := by
              unfold canonicalU
              have h1 : wellFlagged ((128 + b % 64) :: c :: t') = true := by
                simp only [wellFlagged, Bool.and_eq_true, decide_eq_true_eq]
                exact ⟨⟨by omega, by omega⟩, hwt⟩
              have : ¬ (128 + b % 64 = 128) := by omega
              simp [h1, ha]
            have henc := encU_decGo _ hcan
            have hd : decGo ((128 + b % 64) :: c :: t') 0 = decGo (c :: t') (b % 64) := by
              rw [decGo_cons]; congr 1; omega
            rw [hd] at henc
            have h6 : ¬ ((128 + b % 64) / 64 % 2 = 1) := by omega
            simp only [writeSRaw, writeURaw_eq, sMag, henc, signRoom, h6, if_false, sNeg]
            by_cases hn : b / 64 % 2 = 1
            · have e1 : Nat.lor (128 + b % 64) 64 = 128 + b % 64 + 64 := lor_sign _ (by omega) (by omega)
              have e1' : (128 + b % 64) ||| 64 = 128 + b % 64 + 64 := e1
              simp [hn, setSign, e1']; omega
            · simp [hn, setSign]; omega

end Dmr.Mbxml
