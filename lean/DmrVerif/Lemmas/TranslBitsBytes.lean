import DmrVerif.Gen.TranslBitsBytes
import DmrVerif.Model.Crc
import DmrVerif.Model.Ipsc

/-!
Equality of the byte-order helpers TRANSLATED from the source of `utils/bits_bytes.py` (`Gen/TranslBitsBytes.lean`) with the
models the CRC-32 front end (`Model/Crc.lean: byteswap`) and the IPSC codec (`Model/Ipsc.lean: byteswap`, `halfByte`) use.
-/

namespace Dmr.Transl.BitsBytes
open Dmr Dmr.Py

/-- every element is an octet -/
def isOctets (d : Bytes) : Prop := ∀ x ∈ d, x < 256

theorem pairs_induct {α : Type} {P : List α → Prop} (h0 : P []) (h1 : ∀ x, P [x])
    (h2 : ∀ a b r, P r → P (a :: b :: r)) : ∀ l, P l := by
  intro l
  have : P l ∧ ∀ x, P (x :: l) := by
    induction l with
    | nil => exact ⟨h0, h1⟩
    | cons y t ih => exact ⟨ih.2 y, fun x => h2 x y t ih.1⟩
  exact this.1

theorem swapList_crc : ∀ l : Bytes, PyArr.swapList l = Dmr.Crc.byteswap l := by
  intro l
  induction l using pairs_induct with
  | h0 => rfl
  | h1 x => rfl
  | h2 a b r ih => simp only [PyArr.swapList, Dmr.Crc.byteswap, ih]

theorem swapList_length {α : Type} : ∀ l : List α, (PyArr.swapList l).length = l.length := by
  intro l
  induction l using pairs_induct with
  | h0 => rfl
  | h1 x => rfl
  | h2 a b r ih => simp [PyArr.swapList, ih]

theorem swapList_odd : ∀ l : Bytes, l.length % 2 = 1 →
    PyArr.swapList l = PyArr.swapList l.dropLast ++ l.drop (l.length - 1) := by
  intro l
  induction l using pairs_induct with
  | h0 => intro h; simp at h
  | h1 x => intro _; rfl
  | h2 a b r ih =>
    intro h
    have hr : r.length % 2 = 1 := by simp at h; omega
    have hne : r ≠ [] := by intro c; subst c; simp at hr
    have := ih hr
    obtain ⟨y, t, rfl⟩ : ∃ y t, r = y :: t := by
      cases r with
      | nil => exact absurd rfl hne
      | cons y t => exact ⟨y, t, rfl⟩
    simp only [PyArr.swapList, List.dropLast_cons_cons, List.length_cons] at this ⊢
    rw [this]
    simp

theorem byteswap_bytearray_eq (d : Bytes) (hd : isOctets d) :
    byteswap_bytearray d = .ok (Dmr.Crc.byteswap d) := by
  unfold byteswap_bytearray
  by_cases he : d.length % 2 = 0
  · have hc : (modL ((d.length : Nat) : Int) 2 != 0) = false := by
      rw [modL_ofNat, he]; rfl
    simp only [len_eq, hc, Bool.false_eq_true, if_false, PyArr.swapPairs, he, if_true, pure_eq_ok, ok_bind, len_eq,
      slice_none_ofNat]
    rw [List.take_of_length_le (by rw [swapList_length]; exact Nat.le_refl _), swapList_crc]
    simp
  · have ho : d.length % 2 = 1 := by omega
    have hc : (modL ((d.length : Nat) : Int) 2 != 0) = true := by
      rw [modL_ofNat, ho]; rfl
    obtain ⟨init, z, rfl⟩ : ∃ init z, d = init ++ [z] := by
      rcases List.eq_nil_or_concat d with h | ⟨i, z, h⟩
      · subst h; simp at ho
      · exact ⟨i, z, by simpa using h⟩
    have hz : z < 256 := hd z (by simp)
    have hil : init.length % 2 = 0 := by simp at ho; omega
    have hg : getB (init ++ [z]) (-1) = .ok (z : Int) := by
      unfold getB getItem normIndex
      have h1 : ¬ ((0 : Int) ≤ -1) := by decide
      have h2 : (0 : Int) ≤ -1 + ((init ++ [z]).length : Nat) := by simp; omega
      have h3 : ((-1 : Int) + ((init ++ [z]).length : Nat)).toNat = init.length := by simp; omega
      simp only [h1, if_false, h2, if_true, h3, pure_eq_ok, ok_bind]
      simp
    have hs : slice (init ++ [z]) (some 0) (some (-1)) = init := by
      unfold slice clampIdx
      have h : ((-1 : Int) + ((init ++ [z]).length : Nat)).toNat = init.length := by simp; omega
      simp only [show ((-1 : Int) < 0) by decide, if_true, h, show ¬ ((0 : Int) < 0) by decide, if_false, Int.toNat_zero,
        Nat.min_def, Nat.zero_le, List.drop_zero, Nat.sub_zero]
      simp
    simp only [len_eq, hc, if_true, hg, ok_bind, toBytes_cons_ofNat, hz, toBytes_nil, hs, PyArr.swapPairs, hil, pure_eq_ok,
      len_eq, slice_none_ofNat]
    rw [List.take_of_length_le (by rw [swapList_length]; simp), ← swapList_crc,
      swapList_odd (init ++ [z]) ho]
    simp

theorem byteswap_bytes_eq (d : Bytes) (hd : isOctets d) : byteswap_bytes d = .ok (Dmr.Crc.byteswap d) := by
  unfold byteswap_bytes
  rw [byteswap_bytearray_eq d hd]

/-- the two models of `byteswap_bytes` (C05's and C13's) are one function -/
theorem byteswap_models (d : Bytes) : Dmr.Ipsc.byteswap d = Dmr.Crc.byteswap d := by
  have hsp : ∀ l : Bytes, Dmr.Ipsc.swapPairs l = PyArr.swapList l := by
    intro l
    induction l using pairs_induct with
    | h0 => rfl
    | h1 x => rfl
    | h2 a b r ih => simp only [Dmr.Ipsc.swapPairs, PyArr.swapList, ih]
  unfold Dmr.Ipsc.byteswap
  by_cases he : d.length % 2 = 0
  · rw [if_pos he, hsp, swapList_crc]
  · rw [if_neg he, hsp, ← swapList_crc, swapList_odd d (by omega)]

theorem half_byte_eq (h n : Nat) :
    half_byte_to_bytes (h : Int) (n : Int) = match Dmr.Ipsc.halfByte h n with
      | .ok b => .ok b
      | .error _ => .error .value := by
  unfold half_byte_to_bytes Dmr.Ipsc.halfByte
  rw [shlN_ofNat, bor_ofNat, toBytes_cons_ofNat, toBytes_nil]
  have e : h * 2 ^ 4 = h <<< 4 := by rw [Nat.shiftLeft_eq]
  rw [e]
  by_cases hv : (h ||| h <<< 4) ≥ 256
  · have : ¬ (h ||| h <<< 4) < 256 := by omega
    simp [hv, this]
  · have : (h ||| h <<< 4) < 256 := by omega
    simp only [this, if_true, ok_bind, pure_eq_ok, hv, if_false, PyArr.bytesMul, Int.toNat_natCast]
    congr 1
    induction n with
    | zero => rfl
    | succ n ih => simp [List.replicate_succ, ih]

end Dmr.Transl.BitsBytes
