import DmrVerif.Gen.TranslMbxml
import DmrVerif.Model.Mbxml

/-!
Equality of the readers TRANSLATED from the source of `motorola/mbxml.py` (`Gen/TranslMbxml.lean`, regenerated on every run
by `tools/py2lean.py`) with the hand-written model `Model/Mbxml.lean` (C14), for all byte strings and all natural read
positions; the fuel bound of the `while True` loops (`2·len(data) + 1` passes) is proved sufficient.
-/

namespace Dmr.Transl.Mbxml
open Dmr Dmr.Py Dmr.Mbxml

/-- the model's answers as `PyM` answers (the readers only raise `IndexError`) -/
def errOf : Dmr.Mbxml.Err → PyErr
  | .index => .index
  | .assertion => .assertion
  | .overflow => .overflow
  | .value => .value
  | .type => .type
  | .fuel => .fuel
  | e => .other e.name

def ofR {α β : Type} (f : α → β) : Dmr.Mbxml.R α → PyM β
  | .ok v => .ok (f v)
  | .error e => .error (errOf e)

theorem bit7 (b : Nat) : (b &&& 128 = 0) ↔ b / 128 % 2 = 0 := by
  have hT : b.testBit 7 = decide (b / 2 ^ 7 % 2 = 1) := Nat.testBit_eq_decide_div_mod_eq
  constructor
  · intro h
    have : (b &&& 2 ^ 7).testBit 7 = false := by rw [show (2 ^ 7 : Nat) = 128 from rfl, h]; simp
    rw [Nat.testBit_and, Nat.testBit_two_pow_self, Bool.and_true, hT] at this
    simp at this; omega
  · intro h
    apply Nat.eq_of_testBit_eq
    intro i
    rw [show (128 : Nat) = 2 ^ 7 from rfl, Nat.testBit_and, Nat.testBit_two_pow, Nat.zero_testBit]
    by_cases hi : 7 = i
    · subst hi; rw [hT]; simp; omega
    · simp [hi]

/-- the `while True` loop of `read_uintvar` against the model's `readUGo`: more fuel than octets left suffices -/
theorem loopU {σ ρ : Type} (data : Bytes) (mk : Nat → Nat → σ) (body : σ → PyM (Step σ ρ))
    (hb : ∀ acc i : Nat, body (mk acc i) = match data[i]? with
      | none => .error .index
      | some b => if b / 128 % 2 = 0 then .ok (.brk (mk (acc * 128 + b % 128) (i + 1)))
          else .ok (.next (mk (acc * 128 + b % 128) (i + 1)))) :
    ∀ (rest : Bytes) (i acc F : Nat), data.drop i = rest → rest.length < F →
      whileFuel F (mk acc i) body = match readUGo rest acc with
        | .ok (v, n) => .ok (.brk (mk v (i + n)))
        | .error e => .error (errOf e) := by
  intro rest
  induction rest with
  | nil =>
    intro i acc F hd hF
    obtain ⟨F', rfl⟩ : ∃ F', F = F' + 1 := ⟨F - 1, by omega⟩
    have hn : data[i]? = none := by
      apply List.getElem?_eq_none
      have := congrArg List.length hd
      simp at this; omega
    simp [whileFuel, hb, hn, readUGo]
    rfl
  | cons b rest ih =>
    intro i acc F hd hF
    obtain ⟨F', rfl⟩ : ∃ F', F = F' + 1 := ⟨F - 1, by simp at hF; omega⟩
    have hlt : i < data.length := by
      have := congrArg List.length hd
      simp at this; omega
    have hs : data[i]? = some b := by
      rw [List.getElem?_eq_getElem hlt]
      have := List.drop_eq_getElem_cons hlt
      rw [hd] at this
      simp only [List.cons.injEq] at this
      rw [this.1]
    have hd' : data.drop (i + 1) = rest := by
      have := List.drop_eq_getElem_cons hlt
      rw [hd] at this
      simp only [List.cons.injEq] at this
      exact this.2.symm
    rw [whileFuel, hb, hs]
    unfold readUGo
    by_cases h7 : b / 128 % 2 = 0
    · simp [h7]
    · simp only [h7, if_false, ok_bind]
      rw [ih (i + 1) _ F' hd' (by simp at hF; omega)]
      cases readUGo rest (acc * 128 + b % 128) with
      | error e => rfl
      | ok p =>
        obtain ⟨v, n⟩ := p
        simp only [bump]
        rw [show i + 1 + n = i + (n + 1) by omega]

theorem read_uintvar_eq (data : Bytes) (idx : Nat) :
    read_uintvar data (idx : Int) = ofR (fun p : Nat × Nat => ((p.1 : Int), (p.2 : Int))) (readU data idx) := by
  unfold read_uintvar readU
  have hF : (2 * len data + 1).toNat = 2 * data.length + 1 := by simp only [len_eq]; omega
  simp only [hF]
  rw [show ((idx : Int), (0 : Int)) = (fun a i : Nat => ((i : Int), (a : Int))) 0 idx from rfl]
  rw [loopU data (fun a i : Nat => ((i : Int), (a : Int))) _ ?hb (data.drop idx) idx 0 _ rfl (by simp; omega)]
  case hb =>
    intro acc i
    simp only [getB_ofNat]
    cases hd : data[i]? with
    | none => rfl
    | some b =>
      have e1 : b &&& 127 = b % 128 := Nat.and_two_pow_sub_one_eq_mod b 7
      have e2 : ((acc * 2 ^ 7 : Nat) : Int) + ((b % 128 : Nat) : Int) = ((acc * 128 + b % 128 : Nat) : Int) := by
        push_cast; rfl
      have e3 : (i : Int) + 1 = ((i + 1 : Nat) : Int) := by push_cast; rfl
      simp only [ok_bind, shlN_ofNat, band_lit, e1, e2, e3]
      by_cases h7 : b / 128 % 2 = 0
      · have : ((b &&& 128 : Nat) : Int) = 0 := by rw [(bit7 b).mpr h7]; rfl
        simp [h7, this]
      · have hne : ¬ b &&& 128 = 0 := fun c => h7 ((bit7 b).mp c)
        simp [h7, hne]
  cases readUGo (data.drop idx) 0 with
  | error e => rfl
  | ok p =>
    obtain ⟨v, n⟩ := p
    rfl

/-! ### `read_uint8`, `read_opaque_defined_size`, `read_opaque` -/

/-- `read_uint8` never raises: past the end the slice is empty and `int.from_bytes(b"")` is 0 -/
theorem read_uint8_eq (data : Bytes) (idx : Nat) :
    read_uint8 data (idx : Int) = .ok (((data.getD idx 0 : Nat) : Int), ((idx + 1 : Nat) : Int)) := by
  unfold read_uint8
  have e : (idx : Int) + 1 = ((idx + 1 : Nat) : Int) := by push_cast; rfl
  simp only [e, slice_ofNat_ofNat]
  by_cases h : idx < data.length
  · have h1 : min idx data.length = idx := by omega
    have h2 : min (idx + 1) data.length = idx + 1 := by omega
    rw [h1, h2, show idx + 1 - idx = 1 by omega, List.drop_eq_getElem_cons h, List.take_succ_cons, List.take_zero]
    simp [fromBytesBig, List.getD_eq_getElem?_getD, List.getElem?_eq_getElem h]
  · have h1 : min idx data.length = data.length := by omega
    have h2 : min (idx + 1) data.length = data.length := by omega
    have hn : data[idx]? = none := List.getElem?_eq_none (by omega)
    rw [h1, h2]
    simp [fromBytesBig, List.getD_eq_getElem?_getD, hn]

/-- `read_opaque_defined_size` never raises: `data[idx : idx+size]` -/
theorem read_opaque_defined_size_eq (data : Bytes) (idx size : Nat) :
    read_opaque_defined_size data (idx : Int) (size : Int) =
      .ok ((data.drop idx).take size, ((idx + size : Nat) : Int)) := by
  unfold read_opaque_defined_size
  have e : (idx : Int) + (size : Int) = ((idx + size : Nat) : Int) := by push_cast; rfl
  simp only [e, slice_ofNat_ofNat, pure_eq_ok]
  congr 2
  by_cases h : idx ≤ data.length
  · rw [Nat.min_eq_left h]
    by_cases h2 : idx + size ≤ data.length
    · rw [Nat.min_eq_left h2, show idx + size - idx = size by omega]
    · rw [Nat.min_eq_right (by omega)]
      rw [List.take_of_length_le (by simp), List.take_of_length_le (by simp; omega)]
  · rw [Nat.min_eq_right (by omega), Nat.min_eq_right (by omega), List.drop_of_length_le (Nat.le_refl _),
      List.drop_of_length_le (by omega)]
    simp

/-- `read_opaque`: the length is what `read_uintvar` reads, the octets follow it (cut at the end of the data) -/
theorem read_opaque_eq (data : Bytes) (idx : Nat) :
    read_opaque data (idx : Int) = ofR (fun p : Nat × Nat => ((data.drop p.2).take p.1, ((p.2 + p.1 : Nat) : Int)))
      (readU data idx) := by
  unfold read_opaque
  simp only []
  rw [read_uintvar_eq]
  cases readU data idx with
  | error e => rfl
  | ok p =>
    obtain ⟨n, j⟩ := p
    have h := read_opaque_defined_size_eq data j n
    unfold read_opaque_defined_size at h
    simp only [ofR, ok_bind]
    exact h

/-! ### `read_sintvar` -/

theorem bit6 (b : Nat) : (b &&& 64 = 0) ↔ b / 64 % 2 = 0 := by
  have hT : b.testBit 6 = decide (b / 2 ^ 6 % 2 = 1) := Nat.testBit_eq_decide_div_mod_eq
  constructor
  · intro h
    have : (b &&& 2 ^ 6).testBit 6 = false := by rw [show (2 ^ 6 : Nat) = 64 from rfl, h]; simp
    rw [Nat.testBit_and, Nat.testBit_two_pow_self, Bool.and_true, hT] at this
    simp at this; omega
  · intro h
    apply Nat.eq_of_testBit_eq
    intro i
    rw [show (64 : Nat) = 2 ^ 6 from rfl, Nat.testBit_and, Nat.testBit_two_pow, Nat.zero_testBit]
    by_cases hi : 6 = i
    · subst hi; rw [hT]; simp; omega
    · simp [hi]

/-- Python's `sign` (`-1` / `1`) for the model's flag -/
def signOf (neg : Bool) : Int := if neg then -1 else 1

theorem read_sintvar_eq (data : Bytes) (idx : Nat) :
    read_sintvar data (idx : Int) =
      ofR (fun p : Int × Nat × Bool => (p.1, ((p.2.1 : Nat) : Int), signOf p.2.2)) (readS data idx) := by
  unfold read_sintvar readS
  have hF : (2 * len data + 1).toNat = 2 * data.length + 1 := by simp only [len_eq]; omega
  simp only [hF]
  rw [whileFuel]
  cases hd : data.drop idx with
  | nil =>
    have hn : data[idx]? = none := by
      apply List.getElem?_eq_none
      have := congrArg List.length hd
      simp at this; omega
    simp [hn]
    rfl
  | cons b rest =>
    have hlt : idx < data.length := by
      have := congrArg List.length hd
      simp at this; omega
    have hs : data[idx]? = some b := by
      rw [List.getElem?_eq_getElem hlt]
      have := List.drop_eq_getElem_cons hlt
      rw [hd] at this
      simp only [List.cons.injEq] at this
      rw [this.1]
    have hd' : data.drop (idx + 1) = rest := by
      have := List.drop_eq_getElem_cons hlt
      rw [hd] at this
      simp only [List.cons.injEq] at this
      exact this.2.symm
    have hrl : rest.length < 2 * data.length := by
      have := congrArg List.length hd'
      simp at this; omega
    have e63 : b &&& 63 = b % 64 := Nat.and_two_pow_sub_one_eq_mod b 6
    have e3 : (idx : Int) + 1 = ((idx + 1 : Nat) : Int) := by push_cast; rfl
    have e0 : shlN (0 : Int) 7 = 0 := by simp [shlN]
    simp only [getB_ofNat, hs, ok_bind, if_true]
    have hdec : decide (band (b : Int) 64 > 0) = decide (b / 64 % 2 = 1) := by
      show decide (((b &&& 64 : Nat) : Int) > 0) = _
      by_cases h6 : b / 64 % 2 = 1
      · have h1 : b &&& 64 ≠ 0 := fun c => by have := (bit6 b).mp c; omega
        have h2 : 0 < b &&& 64 := Nat.pos_of_ne_zero h1
        simp [h6, h2]
      · have h1 : b &&& 64 = 0 := (bit6 b).mpr (by omega)
        simp [h6, h1]
    simp only [hdec]
    have hfold : ∀ n : Bool, (if n = true then (-1 : Int) else 1) = signOf n := fun n => rfl
    simp only [hfold]
    simp only [band_lit, e63, e3, e0, Int.zero_add]
    generalize decide (b / 64 % 2 = 1) = neg
    by_cases h7 : b / 128 % 2 = 0
    · have h0 : ((b &&& 128 : Nat) : Int) = 0 := by rw [(bit7 b).mpr h7]; rfl
      simp only [h0, h7, if_true, beq_self_eq_true, pure_eq_ok, ok_bind]
      cases neg <;> simp [ofR, signOf, applySign]
    · have hne : ¬ b &&& 128 = 0 := fun c => h7 ((bit7 b).mp c)
      have h0 : (((b &&& 128 : Nat) : Int) == 0) = false := by
        simp only [beq_eq_false_iff_ne, ne_eq]; omega
      simp only [h0, h7, if_false, Bool.false_eq_true, pure_eq_ok, ok_bind]
      rw [show (((idx + 1 : Nat) : Int), ((b % 64 : Nat) : Int), false, signOf neg)
        = (fun a i : Nat => ((i : Int), (a : Int), false, signOf neg)) (b % 64) (idx + 1) from rfl]
      rw [loopU data (fun a i : Nat => ((i : Int), (a : Int), false, signOf neg)) _ ?hb rest (idx + 1) (b % 64) _ hd' hrl]
      case hb =>
        intro acc i
        simp only [getB_ofNat]
        cases hdi : data[i]? with
        | none => rfl
        | some c =>
          have e1 : c &&& 127 = c % 128 := Nat.and_two_pow_sub_one_eq_mod c 7
          have e2 : ((acc * 2 ^ 7 : Nat) : Int) + ((c % 128 : Nat) : Int) = ((acc * 128 + c % 128 : Nat) : Int) := by
            push_cast; rfl
          have e4 : (i : Int) + 1 = ((i + 1 : Nat) : Int) := by push_cast; rfl
          simp only [ok_bind, Bool.false_eq_true, if_false, shlN_ofNat, band_lit, e1, e2, e4]
          by_cases h7c : c / 128 % 2 = 0
          · have : ((c &&& 128 : Nat) : Int) = 0 := by rw [(bit7 c).mpr h7c]; rfl
            simp [h7c, this]
          · have hnec : ¬ c &&& 128 = 0 := fun cc => h7c ((bit7 c).mp cc)
            simp [h7c, hnec]
      cases readUGo rest (b % 64) with
      | error e => rfl
      | ok p =>
        obtain ⟨v, n⟩ := p
        cases neg <;> simp [ofR, signOf, applySign, readSRest] <;> omega

end Dmr.Transl.Mbxml
