import DmrVerif.Model.HstrpHandler
import DmrVerif.Lemmas.Storage

/-!
# Lemmas about the HSTRP/RRS handler model (C17)

Message classes by the dispatch priority of `datagram_received`
(`is_connect` > `is_heartbeat` > `is_close` > `is_ack` > `is_reject` > data), the exact output list of
`stepBase` / `step` per class, and the per-step lemmas the history theorems are folded from.
-/

namespace Dmr.HstrpHandler
open Dmr

/-! ## classes -/

/-- the `is_connect` branch is taken -/
def Msg.connectClass (m : Msg) : Bool := m.pktType.isConnect
/-- the `is_heartbeat` branch is taken -/
def Msg.heartbeatClass (m : Msg) : Bool := !m.pktType.isConnect && m.pktType.isHeartbeat
/-- the `is_close` branch is taken -/
def Msg.closeClass (m : Msg) : Bool := !m.pktType.isConnect && !m.pktType.isHeartbeat && m.pktType.isClose
/-- carries an RRS registration request -/
def Msg.request (m : Msg) : Option Bytes :=
  match m.payload with
  | .rrs op ip => if op = opRequest then some ip else none
  | _ => none
/-- carries an RRS going-offline message -/
def Msg.offline (m : Msg) : Option Bytes :=
  match m.payload with
  | .rrs op ip => if op = opOffline then some ip else none
  | _ => none

def Out.isAck : Out → Bool
  | .ack _ => true
  | _ => false
def Out.isHeartbeat : Out → Bool
  | .heartbeat => true
  | _ => false
def Out.isAnswer : Out → Bool
  | .rrsAnswer _ _ => true
  | _ => false

theorem opOffline_ne_opRequest : opOffline ≠ opRequest := by decide

/-! ## the base handler, class by class -/

/-- outputs of the base handler: one acknowledgement unless the message has the ack bit or is a
heartbeat; one heartbeat for a heartbeat while connected -/
theorem stepBase_outs (s : St) (m : Msg) :
    (stepBase s (some m)).2.1 =
      if m.heartbeatClass then (if s.connected then [.heartbeat] else [])
      else if m.pktType.isAck then [] else [.ack m] := by
  obtain ⟨v, ⟨o, r, cl, co, hb, a⟩, sn, ob, pl⟩ := m
  cases co <;> cases hb <;> cases cl <;> cases a <;> cases r <;>
    simp [stepBase, Msg.heartbeatClass]

theorem stepBase_none (s : St) : stepBase s Option.none = (s, [], (false, false)) := rfl

theorem stepBase_connected (s : St) (m : Msg) :
    (stepBase s (some m)).1.connected =
      if m.connectClass then true else if m.closeClass then false else s.connected := by
  obtain ⟨v, ⟨o, r, cl, co, hb, a⟩, sn, ob, pl⟩ := m
  cases co <;> cases hb <;> cases cl <;> cases a <;> cases r <;>
    simp [stepBase, Msg.connectClass, Msg.closeClass]

theorem stepBase_sn (s : St) (m : Option Msg) : (stepBase s m).1.sn = s.sn := by
  cases m with
  | none => rfl
  | some m =>
    obtain ⟨v, ⟨o, r, cl, co, hb, a⟩, sn, ob, pl⟩ := m
    cases co <;> cases hb <;> cases cl <;> cases a <;> cases r <;> simp [stepBase]

theorem stepBase_registry (s : St) (m : Option Msg) : (stepBase s m).1.registry = s.registry := by
  cases m with
  | none => rfl
  | some m =>
    obtain ⟨v, ⟨o, r, cl, co, hb, a⟩, sn, ob, pl⟩ := m
    cases co <;> cases hb <;> cases cl <;> cases a <;> cases r <;> simp [stepBase]

/-! ## the RRS handler on top of it -/

theorem step_none (s : St) : step s Option.none = (s, [], (false, false)) := rfl

/-- outputs of the RRS handler = outputs of the base handler, then the registration answer if the
message carries a registration request -/
theorem step_outs (s : St) (m : Msg) :
    (step s (some m)).2.1 = (stepBase s (some m)).2.1 ++
      (match m.request with | some ip => [.rrsAnswer (nextSn s.sn) ip] | Option.none => []) := by
  obtain ⟨v, t, sn, ob, pl⟩ := m
  cases pl with
  | none => simp [step, Msg.request]
  | other => simp [step, Msg.request]
  | rrs op ip =>
    simp only [step, Msg.request]
    by_cases h1 : op = opRequest
    · simp [h1, stepBase_sn]
    · by_cases h2 : op = opOffline
      · subst h2; simp [opOffline_ne_opRequest]
      · simp [h1, h2]

theorem step_connected (s : St) (m : Option Msg) : (step s m).1.connected = (stepBase s m).1.connected := by
  cases m with
  | none => rfl
  | some m =>
    obtain ⟨v, t, sn, ob, pl⟩ := m
    cases pl with
    | none => simp [step]
    | other => simp [step]
    | rrs op ip =>
      simp only [step]
      by_cases h1 : op = opRequest
      · simp [h1]
      · by_cases h2 : op = opOffline
        · subst h2; simp [opOffline_ne_opRequest]
        · simp [h1, h2]

theorem step_sn (s : St) (m : Msg) :
    (step s (some m)).1.sn = (match m.request with | some _ => nextSn s.sn | Option.none => s.sn) := by
  obtain ⟨v, t, sn, ob, pl⟩ := m
  cases pl with
  | none => simp [step, Msg.request, stepBase_sn]
  | other => simp [step, Msg.request, stepBase_sn]
  | rrs op ip =>
    simp only [step, Msg.request]
    by_cases h1 : op = opRequest
    · simp [h1, stepBase_sn]
    · by_cases h2 : op = opOffline
      · subst h2; simp [opOffline_ne_opRequest, stepBase_sn]
      · simp [h1, h2, stepBase_sn]

/-- the registry update of one message: `(radio ip, online?)` -/
def regOf : Option Msg → Option (Bytes × Bool)
  | some m =>
    match m.payload with
    | .rrs op ip => if op = opRequest then some (ip, true) else if op = opOffline then some (ip, false) else Option.none
    | _ => Option.none
  | Option.none => Option.none

theorem step_registry (s : St) (m : Option Msg) :
    (step s m).1.registry =
      (match regOf m with | some e => Storage.dictSet s.registry e.1 e.2 | Option.none => s.registry) := by
  cases m with
  | none => rfl
  | some m =>
    obtain ⟨v, t, sn, ob, pl⟩ := m
    cases pl with
    | none => simp [step, regOf, stepBase_registry]
    | other => simp [step, regOf, stepBase_registry]
    | rrs op ip =>
      simp only [step, regOf]
      by_cases h1 : op = opRequest
      · simp [h1, stepBase_registry]
      · by_cases h2 : op = opOffline
        · subst h2; simp [opOffline_ne_opRequest, stepBase_registry]
        · simp [h1, h2, stepBase_registry]

theorem nextSn_lt (sn : Nat) : nextSn sn < 0xFFFF := Nat.mod_lt _ (by decide)

/-! ## histories -/

theorem runFrom_cons (s : St) (m : Option Msg) (t : List (Option Msg)) :
    runFrom s (m :: t) = ((runFrom (step s m).1 t).1, (step s m).2.1 :: (runFrom (step s m).1 t).2) := rfl

theorem deliver_cons (s : St) (m : Option Msg) (t : List (Option Msg)) :
    deliver s (m :: t) = ((deliver (step s m).1 t).1, (step s m).2.1 ++ (deliver (step s m).1 t).2) := rfl

/-- connect (`some true`) / close (`some false`) / neither, by dispatch priority -/
def ccOf : Option Msg → Option Bool
  | some m => if m.connectClass then some true else if m.closeClass then some false else Option.none
  | Option.none => Option.none

theorem step_connected_cc (s : St) (m : Option Msg) :
    (step s m).1.connected = (ccOf m).getD s.connected := by
  rw [step_connected]
  cases m with
  | none => rfl
  | some m =>
    rw [stepBase_connected]
    simp only [ccOf]
    by_cases h1 : m.connectClass = true
    · simp [h1]
    · by_cases h2 : m.closeClass = true <;> simp [h1, h2]

theorem getLast?_getD_cons {α : Type} (a c : α) (l : List α) :
    ((a :: l).getLast?).getD c = (l.getLast?).getD a := by
  rw [List.getLast?_cons]; rfl

theorem runFrom_connected (s : St) (h : List (Option Msg)) :
    (runFrom s h).1.connected = ((h.filterMap ccOf).getLast?).getD s.connected := by
  induction h generalizing s with
  | nil => rfl
  | cons m t ih =>
    rw [runFrom_cons, ih, step_connected_cc]
    cases hc : ccOf m with
    | none => simp [List.filterMap_cons, hc]
    | some b => simp only [List.filterMap_cons, hc, Option.getD_some, getLast?_getD_cons]

/-- last registry update for radio `ip` in the history -/
def lastReg (ip : Bytes) (h : List (Option Msg)) : Option Bool :=
  (((h.filterMap regOf).filter (fun e => e.1 == ip)).getLast?).map Prod.snd

theorem step_registry_get (s : St) (m : Option Msg) (ip : Bytes) :
    Storage.dictGet (step s m).1.registry ip =
      (match regOf m with
       | some e => if e.1 = ip then some e.2 else Storage.dictGet s.registry ip
       | Option.none => Storage.dictGet s.registry ip) := by
  rw [step_registry]
  cases regOf m with
  | none => rfl
  | some e => simp only [Storage.dictGet_dictSet]

theorem lastReg_cons (ip : Bytes) (m : Option Msg) (t : List (Option Msg)) :
    lastReg ip (m :: t) =
      (match lastReg ip t with
       | some b => some b
       | Option.none =>
         (match regOf m with
          | some e => if e.1 = ip then some e.2 else Option.none
          | Option.none => Option.none)) := by
  unfold lastReg
  cases hr : regOf m with
  | none =>
    rw [List.filterMap_cons, hr]
    cases (List.filter (fun e => e.1 == ip) (List.filterMap regOf t)).getLast? <;> rfl
  | some e =>
    rw [List.filterMap_cons, hr]
    by_cases he : e.1 = ip
    · rw [List.filter_cons_of_pos (by simp [he]), List.getLast?_cons]
      cases (List.filter (fun e => e.1 == ip) (List.filterMap regOf t)).getLast? with
      | none => simp [he]
      | some x => simp
    · rw [List.filter_cons_of_neg (by simp [he])]
      cases (List.filter (fun e => e.1 == ip) (List.filterMap regOf t)).getLast? with
      | none => simp [he]
      | some x => simp

theorem runFrom_registry (s : St) (h : List (Option Msg)) (ip : Bytes) :
    Storage.dictGet (runFrom s h).1.registry ip =
      (match lastReg ip h with | some b => some b | Option.none => Storage.dictGet s.registry ip) := by
  induction h generalizing s with
  | nil => rfl
  | cons m t ih =>
    rw [runFrom_cons, ih, step_registry_get, lastReg_cons]
    cases lastReg ip t with
    | some b => rfl
    | none =>
      cases regOf m with
      | none => rfl
      | some e => by_cases he : e.1 = ip <;> simp [he]

theorem runFrom_sn_lt (s : St) (h : List (Option Msg)) (hs : s.sn < 0xFFFF) : (runFrom s h).1.sn < 0xFFFF := by
  induction h generalizing s with
  | nil => exact hs
  | cons m t ih =>
    rw [runFrom_cons]
    apply ih
    cases m with
    | none => exact hs
    | some m =>
      rw [step_sn]
      cases m.request with
      | none => exact hs
      | some _ => exact nextSn_lt _

/-! ## no overflow -/

theorem ack_not_raises (m : Msg) (h : m.WF = true) : (Out.ack m).raises = false := by
  simp only [Msg.WF, Bool.and_eq_true, decide_eq_true_eq, List.all_eq_true] at h
  obtain ⟨⟨⟨h1, h2⟩, h3⟩, _⟩ := h
  simp only [Out.raises, Bool.or_eq_false_iff, decide_eq_false_iff_not, Nat.not_le, List.any_eq_false]
  exact ⟨⟨h1, h2⟩, fun x hx => by simpa using h3 x hx⟩

theorem request_wf (m : Msg) (ip : Bytes) (h : m.WF = true) (hr : m.request = some ip) :
    ip.length = 4 ∧ ∀ x ∈ ip, x < 256 := by
  obtain ⟨v, t, sn, ob, pl⟩ := m
  cases pl with
  | none => simp [Msg.request] at hr
  | other => simp [Msg.request] at hr
  | rrs op ip' =>
    simp only [Msg.request] at hr
    split at hr
    · cases hr
      simp only [Msg.WF, Bool.and_eq_true, decide_eq_true_eq, List.all_eq_true] at h
      exact ⟨h.2.1.2, fun x hx => by simpa using h.2.2 x hx⟩
    · cases hr

theorem step_not_raises (s : St) (m : Option Msg) (hm : ∀ x, m = some x → x.WF = true) :
    raises s m = false := by
  cases m with
  | none => rfl
  | some m =>
    have hwf := hm m rfl
    simp only [raises, step_outs, stepBase_outs, List.any_append, Bool.or_eq_false_iff]
    constructor
    · by_cases h1 : m.heartbeatClass = true
      · by_cases h2 : s.connected = true <;> simp [h1, h2, Out.raises]
      · by_cases h2 : m.pktType.isAck = true
        · simp [h1, h2]
        · simp [h1, h2, ack_not_raises m hwf]
    · cases hr : m.request with
      | none => simp
      | some ip =>
        obtain ⟨hl, hb⟩ := request_wf m ip hwf hr
        have hsn := nextSn_lt s.sn
        simp only [List.any_cons, List.any_nil, Bool.or_false, Out.raises, Bool.or_eq_false_iff,
          decide_eq_false_iff_not, Nat.not_le, List.any_eq_false]
        refine ⟨⟨by omega, by simp [hl]⟩, fun x hx => by simpa using hb x hx⟩

/-- the faithful run: stops at the first exception -/
def runE (s : St) : List (Option Msg) → Except Unit (St × List (List Out))
  | [] => .ok (s, [])
  | m :: t =>
    match stepE s m with
    | .error e => .error e
    | .ok r =>
      match runE r.1 t with
      | .error e => .error e
      | .ok rest => .ok (rest.1, r.2.1 :: rest.2)

theorem runE_ok (s : St) (h : List (Option Msg)) (hm : ∀ x, some x ∈ h → x.WF = true) :
    runE s h = .ok (runFrom s h) := by
  induction h generalizing s with
  | nil => rfl
  | cons m t ih =>
    have h1 : raises s m = false := step_not_raises s m (fun x hx => hm x (by rw [hx]; exact List.mem_cons_self))
    simp only [runE, stepE, h1, Bool.false_eq_true, if_false]
    rw [ih _ (fun x hx => hm x (List.mem_cons_of_mem _ hx))]
    rfl

/-! ## answers are not answered -/

/-- every datagram the handler sends, characterised -/
theorem mem_outs (s : St) (m : Option Msg) (o : Out) (ho : o ∈ (step s m).2.1) :
    (∃ x, m = some x ∧ o = .ack x ∧ x.pktType.isAck = false ∧ x.heartbeatClass = false) ∨
    (o = .heartbeat ∧ ∃ x, m = some x ∧ x.heartbeatClass = true ∧ s.connected = true) ∨
    (∃ x ip, m = some x ∧ x.request = some ip ∧ o = .rrsAnswer (nextSn s.sn) ip) := by
  cases m with
  | none => simp [step_none] at ho
  | some x =>
    rw [step_outs, stepBase_outs, List.mem_append] at ho
    rcases ho with ho | ho
    · by_cases h1 : x.heartbeatClass = true
      · simp only [h1, if_true] at ho
        by_cases h2 : s.connected = true
        · simp only [h2, if_true, List.mem_singleton] at ho
          exact Or.inr (Or.inl ⟨ho, x, rfl, h1, h2⟩)
        · simp [h2] at ho
      · simp only [h1, Bool.false_eq_true, if_false] at ho
        by_cases h2 : x.pktType.isAck = true
        · simp [h2] at ho
        · simp only [h2, Bool.false_eq_true, if_false, List.mem_singleton] at ho
          exact Or.inl ⟨x, rfl, ho, by simpa using h2, by simpa using h1⟩
    · cases hr : x.request with
      | none => simp [hr] at ho
      | some ip =>
        simp only [hr, List.mem_singleton] at ho
        exact Or.inr (Or.inr ⟨x, ip, rfl, hr, ho⟩)

/-- the acknowledgement of a message that is not heartbeat-class produces no output at a peer -/
theorem ack_unanswered (s' : St) (x : Msg) (hhb : x.heartbeatClass = false) :
    (step s' (Out.ack x).asMsg).2.1 = [] := by
  simp only [Out.asMsg]
  rw [step_outs, stepBase_outs]
  have h1 : ({ x with pktType := ackType x.pktType, payload := Payload.none } : Msg).heartbeatClass = false := by
    simpa [Msg.heartbeatClass, ackType] using hhb
  have h2 : ({ x with pktType := ackType x.pktType, payload := Payload.none } : Msg).pktType.isAck = true := rfl
  have h3 : ({ x with pktType := ackType x.pktType, payload := Payload.none } : Msg).request = Option.none := rfl
  rw [h1, h2, h3]
  rfl

end Dmr.HstrpHandler
