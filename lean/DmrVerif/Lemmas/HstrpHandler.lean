import DmrVerif.Model.HstrpHandler
import DmrVerif.Lemmas.Storage

/-!
# Lemmas about the HSTRP/RRS handler model (C17)

Message classes by the dispatch priority of `datagram_received`
(`is_connect` > `is_heartbeat` > `is_close` > `is_ack` > `is_reject` > data), the exact output list of
`stepBase` / `step` per class, and the per-step lemmas the history theorems are folded from.
-/

namespace Dmr.HstrpHandler
open Dmr

/-! ## classes -/

/-- the `is_connect` branch is taken -/
def Msg.connectClass (m : Msg) : Bool := m.pktType.isConnect
/-- the `is_heartbeat` branch is taken -/
def Msg.heartbeatClass (m : Msg) : Bool := !m.pktType.isConnect && m.pktType.isHeartbeat
/-- the `is_close` branch is taken -/
def Msg.closeClass (m : Msg) : Bool := !m.pktType.isConnect && !m.pktType.isHeartbeat && m.pktType.isClose
/-- carries an RRS registration request -/
def Msg.request (m : Msg) : Option Bytes :=
  match m.payload with
  | .rrs op ip => if op = opRequest then some ip else none
  | _ => none
/-- carries an RRS going-offline message -/
def Msg.offline (m : Msg) : Option Bytes :=
  match m.payload with
  | .rrs op ip => if op = opOffline then some ip else none
  | _ => none

def Out.isAck : Out → Bool
  | .ack _ => true
  | _ => false
def Out.isHeartbeat : Out → Bool
  | .heartbeat => true
  | _ => false
def Out.isAnswer : Out → Bool
  | .rrsAnswer _ _ => true
  | _ => false

/-! ## the transport guard -/

@[simp] theorem St.send_nil (s : St) : s.send [] = [] := by simp [St.send]

theorem St.send_of_some (s : St) (h : s.transport.isSome = true) (o : List Out) : s.send o = o := by
  simp [St.send, h]

theorem St.send_of_none (s : St) (h : s.transport = Option.none) (o : List Out) : s.send o = [] := by
  simp [St.send, h]

theorem St.send_sublist (s : St) (o : List Out) (x : Out) (hx : x ∈ s.send o) : x ∈ o ∧ s.transport.isSome = true := by
  unfold St.send at hx
  split at hx
  · exact ⟨hx, by assumption⟩
  · cases hx

theorem opOffline_ne_opRequest : opOffline ≠ opRequest := by decide

/-! ## the base handler, class by class -/

/-- outputs of the base handler: one acknowledgement unless the message has the ack bit or is a
heartbeat; one heartbeat for a heartbeat while connected -/
theorem stepBase_outs (s : St) (m : Msg) :
    (stepBase s (some m)).2.1 =
      s.send (if m.heartbeatClass then (if s.connected then [.heartbeat] else [])
        else if m.pktType.isAck then [] else [.ack m]) := by
  obtain ⟨v, ⟨o, r, cl, co, hb, a⟩, sn, ob, pl⟩ := m
  cases co <;> cases hb <;> cases cl <;> cases a <;> cases r <;>
    simp [stepBase, Msg.heartbeatClass]

theorem stepBase_none (s : St) : stepBase s Option.none = (s, [], (false, false)) := rfl

theorem stepBase_connected (s : St) (m : Msg) :
    (stepBase s (some m)).1.connected =
      if m.connectClass then true else if m.closeClass then false else s.connected := by
  obtain ⟨v, ⟨o, r, cl, co, hb, a⟩, sn, ob, pl⟩ := m
  cases co <;> cases hb <;> cases cl <;> cases a <;> cases r <;>
    simp [stepBase, Msg.connectClass, Msg.closeClass]

theorem stepBase_sn (s : St) (m : Option Msg) : (stepBase s m).1.sn = s.sn := by
  cases m with
  | none => rfl
  | some m =>
    obtain ⟨v, ⟨o, r, cl, co, hb, a⟩, sn, ob, pl⟩ := m
    cases co <;> cases hb <;> cases cl <;> cases a <;> cases r <;> simp [stepBase]

theorem stepBase_registry (s : St) (m : Option Msg) : (stepBase s m).1.registry = s.registry := by
  cases m with
  | none => rfl
  | some m =>
    obtain ⟨v, ⟨o, r, cl, co, hb, a⟩, sn, ob, pl⟩ := m
    cases co <;> cases hb <;> cases cl <;> cases a <;> cases r <;> simp [stepBase]

/-- the configuration attributes and the transport are never written by `datagram_received` -/
theorem stepBase_frame (s : St) (m : Option Msg) :
    (stepBase s m).1.activePeer = s.activePeer ∧ (stepBase s m).1.port = s.port ∧
    (stepBase s m).1.transport = s.transport := by
  cases m with
  | none => exact ⟨rfl, rfl, rfl⟩
  | some m =>
    obtain ⟨v, ⟨o, r, cl, co, hb, a⟩, sn, ob, pl⟩ := m
    cases co <;> cases hb <;> cases cl <;> cases a <;> cases r <;> simp [stepBase]

/-! ## the RRS handler on top of it -/

theorem step_none (s : St) : step s Option.none = (s, [], (false, false)) := rfl

/-- outputs of the RRS handler = outputs of the base handler, then the registration answer if the
message carries a registration request -/
theorem step_outs (s : St) (m : Msg) :
    (step s (some m)).2.1 = (stepBase s (some m)).2.1 ++
      (match m.request with | some ip => s.send [.rrsAnswer (nextSn s.sn) ip] | Option.none => []) := by
  obtain ⟨v, t, sn, ob, pl⟩ := m
  cases pl with
  | none => simp [step, Msg.request]
  | other => simp [step, Msg.request]
  | rrs op ip =>
    simp only [step, Msg.request]
    by_cases h1 : op = opRequest
    · simp [h1, stepBase_sn, St.send, (stepBase_frame s _).2.2]
    · by_cases h2 : op = opOffline
      · subst h2; simp [opOffline_ne_opRequest]
      · simp [h1, h2]

theorem step_connected (s : St) (m : Option Msg) : (step s m).1.connected = (stepBase s m).1.connected := by
  cases m with
  | none => rfl
  | some m =>
    obtain ⟨v, t, sn, ob, pl⟩ := m
    cases pl with
    | none => simp [step]
    | other => simp [step]
    | rrs op ip =>
      simp only [step]
      by_cases h1 : op = opRequest
      · simp [h1]
      · by_cases h2 : op = opOffline
        · subst h2; simp [opOffline_ne_opRequest]
        · simp [h1, h2]

theorem step_sn (s : St) (m : Msg) :
    (step s (some m)).1.sn = (match m.request with | some _ => nextSn s.sn | Option.none => s.sn) := by
  obtain ⟨v, t, sn, ob, pl⟩ := m
  cases pl with
  | none => simp [step, Msg.request, stepBase_sn]
  | other => simp [step, Msg.request, stepBase_sn]
  | rrs op ip =>
    simp only [step, Msg.request]
    by_cases h1 : op = opRequest
    · simp [h1, stepBase_sn]
    · by_cases h2 : op = opOffline
      · subst h2; simp [opOffline_ne_opRequest, stepBase_sn]
      · simp [h1, h2, stepBase_sn]

/-- the registry update of one message: `(radio ip, online?)` -/
def regOf : Option Msg → Option (Bytes × Bool)
  | some m =>
    match m.payload with
    | .rrs op ip => if op = opRequest then some (ip, true) else if op = opOffline then some (ip, false) else Option.none
    | _ => Option.none
  | Option.none => Option.none

theorem step_registry (s : St) (m : Option Msg) :
    (step s m).1.registry =
      (match regOf m with | some e => Storage.dictSet s.registry e.1 e.2 | Option.none => s.registry) := by
  cases m with
  | none => rfl
  | some m =>
    obtain ⟨v, t, sn, ob, pl⟩ := m
    cases pl with
    | none => simp [step, regOf, stepBase_registry]
    | other => simp [step, regOf, stepBase_registry]
    | rrs op ip =>
      simp only [step, regOf]
      by_cases h1 : op = opRequest
      · simp [h1, stepBase_registry]
      · by_cases h2 : op = opOffline
        · subst h2; simp [opOffline_ne_opRequest, stepBase_registry]
        · simp [h1, h2, stepBase_registry]

theorem nextSn_lt (sn : Nat) : nextSn sn < 0xFFFF := Nat.mod_lt _ (by decide)

/-! ## histories -/

theorem runFrom_cons (s : St) (m : Option Msg) (t : List (Option Msg)) :
    runFrom s (m :: t) = ((runFrom (step s m).1 t).1, (step s m).2.1 :: (runFrom (step s m).1 t).2) := rfl

theorem deliver_cons (s : St) (m : Option Msg) (t : List (Option Msg)) :
    deliver s (m :: t) = ((deliver (step s m).1 t).1, (step s m).2.1 ++ (deliver (step s m).1 t).2) := rfl

/-- connect (`some true`) / close (`some false`) / neither, by dispatch priority -/
def ccOf : Option Msg → Option Bool
  | some m => if m.connectClass then some true else if m.closeClass then some false else Option.none
  | Option.none => Option.none

theorem step_connected_cc (s : St) (m : Option Msg) :
    (step s m).1.connected = (ccOf m).getD s.connected := by
  rw [step_connected]
  cases m with
  | none => rfl
  | some m =>
    rw [stepBase_connected]
    simp only [ccOf]
    by_cases h1 : m.connectClass = true
    · simp [h1]
    · by_cases h2 : m.closeClass = true <;> simp [h1, h2]

theorem getLast?_getD_cons {α : Type} (a c : α) (l : List α) :
    ((a :: l).getLast?).getD c = (l.getLast?).getD a := by
  rw [List.getLast?_cons]; rfl

theorem runFrom_connected (s : St) (h : List (Option Msg)) :
    (runFrom s h).1.connected = ((h.filterMap ccOf).getLast?).getD s.connected := by
  induction h generalizing s with
  | nil => rfl
  | cons m t ih =>
    rw [runFrom_cons, ih, step_connected_cc]
    cases hc : ccOf m with
    | none => simp [hc]
    | some b => simp only [List.filterMap_cons, hc, Option.getD_some, getLast?_getD_cons]

/-- last registry update for radio `ip` in the history -/
def lastReg (ip : Bytes) (h : List (Option Msg)) : Option Bool :=
  (((h.filterMap regOf).filter (fun e => e.1 == ip)).getLast?).map Prod.snd

theorem step_registry_get (s : St) (m : Option Msg) (ip : Bytes) :
    Storage.dictGet (step s m).1.registry ip =
      (match regOf m with
       | some e => if e.1 = ip then some e.2 else Storage.dictGet s.registry ip
       | Option.none => Storage.dictGet s.registry ip) := by
  rw [step_registry]
  cases regOf m with
  | none => rfl
  | some e => simp only [Storage.dictGet_dictSet]

theorem lastReg_cons (ip : Bytes) (m : Option Msg) (t : List (Option Msg)) :
    lastReg ip (m :: t) =
      (match lastReg ip t with
       | some b => some b
       | Option.none =>
         (match regOf m with
          | some e => if e.1 = ip then some e.2 else Option.none
          | Option.none => Option.none)) := by
  unfold lastReg
  cases hr : regOf m with
  | none =>
    rw [List.filterMap_cons, hr]
    cases (List.filter (fun e => e.1 == ip) (List.filterMap regOf t)).getLast? <;> rfl
  | some e =>
    rw [List.filterMap_cons, hr]
    by_cases he : e.1 = ip
    · rw [List.filter_cons_of_pos (by simp [he]), List.getLast?_cons]
      cases (List.filter (fun e => e.1 == ip) (List.filterMap regOf t)).getLast? with
      | none => simp [he]
      | some x => simp
    · rw [List.filter_cons_of_neg (by simp [he])]
      cases (List.filter (fun e => e.1 == ip) (List.filterMap regOf t)).getLast? with
      | none => simp [he]
      | some x => simp

theorem runFrom_registry (s : St) (h : List (Option Msg)) (ip : Bytes) :
    Storage.dictGet (runFrom s h).1.registry ip =
      (match lastReg ip h with | some b => some b | Option.none => Storage.dictGet s.registry ip) := by
  induction h generalizing s with
  | nil => rfl
  | cons m t ih =>
    rw [runFrom_cons, ih, step_registry_get, lastReg_cons]
    cases lastReg ip t with
    | some b => rfl
    | none =>
      cases regOf m with
      | none => rfl
      | some e => by_cases he : e.1 = ip <;> simp [he]

theorem runFrom_sn_lt (s : St) (h : List (Option Msg)) (hs : s.sn < 0xFFFF) : (runFrom s h).1.sn < 0xFFFF := by
  induction h generalizing s with
  | nil => exact hs
  | cons m t ih =>
    rw [runFrom_cons]
    apply ih
    cases m with
    | none => exact hs
    | some m =>
      rw [step_sn]
      cases m.request with
      | none => exact hs
      | some _ => exact nextSn_lt _

/-! ## no overflow -/

theorem ack_not_raises (m : Msg) (h : m.WF = true) : (Out.ack m).raises = false := by
  simp only [Msg.WF, Bool.and_eq_true, decide_eq_true_eq, List.all_eq_true] at h
  obtain ⟨⟨⟨h1, h2⟩, h3⟩, _⟩ := h
  simp only [Out.raises, Bool.or_eq_false_iff, decide_eq_false_iff_not, Nat.not_le, List.any_eq_false]
  exact ⟨⟨h1, h2⟩, fun x hx => by simpa using h3 x hx⟩

theorem request_wf (m : Msg) (ip : Bytes) (h : m.WF = true) (hr : m.request = some ip) :
    ip.length = 4 ∧ ∀ x ∈ ip, x < 256 := by
  obtain ⟨v, t, sn, ob, pl⟩ := m
  cases pl with
  | none => simp [Msg.request] at hr
  | other => simp [Msg.request] at hr
  | rrs op ip' =>
    simp only [Msg.request] at hr
    split at hr
    · cases hr
      simp only [Msg.WF, Bool.and_eq_true, decide_eq_true_eq, List.all_eq_true] at h
      exact ⟨h.2.1.2, fun x hx => by simpa using h.2.2 x hx⟩
    · cases hr

theorem St.any_send_false (s : St) (o : List Out) (p : Out → Bool) (h : o.any p = false) :
    (s.send o).any p = false := by
  unfold St.send; split
  · exact h
  · rfl

theorem step_not_raises (s : St) (m : Option Msg) (hm : ∀ x, m = some x → x.WF = true) :
    raises s m = false := by
  cases m with
  | none => rfl
  | some m =>
    have hwf := hm m rfl
    simp only [raises, step_outs, stepBase_outs, List.any_append, Bool.or_eq_false_iff]
    constructor
    · apply St.any_send_false
      by_cases h1 : m.heartbeatClass = true
      · by_cases h2 : s.connected = true <;> simp [h1, h2, Out.raises]
      · by_cases h2 : m.pktType.isAck = true
        · simp [h1, h2]
        · simp [h1, h2, ack_not_raises m hwf]
    · cases hr : m.request with
      | none => simp
      | some ip =>
        obtain ⟨hl, hb⟩ := request_wf m ip hwf hr
        have hsn := nextSn_lt s.sn
        apply St.any_send_false
        simp only [List.any_cons, List.any_nil, Bool.or_false, Out.raises, Bool.or_eq_false_iff,
          decide_eq_false_iff_not, Nat.not_le, List.any_eq_false]
        refine ⟨⟨by omega, by simp [hl]⟩, fun x hx => by simpa using hb x hx⟩

theorem stepBase_not_raises (s : St) (m : Option Msg) (hm : ∀ x, m = some x → x.WF = true) :
    (stepBase s m).2.1.any Out.raises = false := by
  cases m with
  | none => rfl
  | some m =>
    have hwf := hm m rfl
    rw [stepBase_outs]
    apply St.any_send_false
    by_cases h1 : m.heartbeatClass = true
    · by_cases h2 : s.connected = true <;> simp [h1, h2, Out.raises]
    · by_cases h2 : m.pktType.isAck = true
      · simp [h1, h2]
      · simp [h1, h2, ack_not_raises m hwf]

/-- the configuration attributes and the transport are never written by `datagram_received` -/
theorem step_frame (s : St) (m : Option Msg) :
    (step s m).1.activePeer = s.activePeer ∧ (step s m).1.port = s.port ∧
    (step s m).1.transport = s.transport := by
  have hb := stepBase_frame s m
  cases m with
  | none => exact ⟨rfl, rfl, rfl⟩
  | some m =>
    obtain ⟨v, t, sn, ob, pl⟩ := m
    cases pl with
    | none => simpa [step] using hb
    | other => simpa [step] using hb
    | rrs op ip =>
      simp only [step]
      by_cases h1 : op = opRequest
      · simpa [h1] using hb
      · by_cases h2 : op = opOffline
        · subst h2; simpa [opOffline_ne_opRequest] using hb
        · simpa [h1, h2] using hb

theorem isRequest_eq (m : Msg) : isRequest (some m) = m.request.isSome := by
  obtain ⟨v, t, sn, ob, pl⟩ := m
  cases pl with
  | none => rfl
  | other => rfl
  | rrs op ip =>
    simp only [isRequest, Msg.request]
    by_cases h : op = opRequest <;> simp [h]

theorem raisesNoTransport_of_some (s : St) (m : Option Msg) (h : s.transport.isSome = true) :
    raisesNoTransport s m = false := by
  cases ht : s.transport with
  | none => rw [ht] at h; cases h
  | some t => simp [raisesNoTransport, ht]

/-- the faithful run: stops at the first exception -/
def runE (s : St) : List (Option Msg) → Except Exn (St × List (List Out))
  | [] => .ok (s, [])
  | m :: t =>
    match stepE s m with
    | .error e => .error e
    | .ok r =>
      match runE r.1 t with
      | .error e => .error e
      | .ok rest => .ok (rest.1, r.2.1 :: rest.2)

theorem stepE_ok (s : St) (m : Option Msg) (ht : s.transport.isSome = true)
    (hm : ∀ x, m = some x → x.WF = true) : stepE s m = .ok (step s m) := by
  simp only [stepE, raisesNoTransport_of_some s m ht, step_not_raises s m hm, Bool.false_eq_true, if_false]

theorem runE_ok (s : St) (h : List (Option Msg)) (ht : s.transport.isSome = true)
    (hm : ∀ x, some x ∈ h → x.WF = true) :
    runE s h = .ok (runFrom s h) := by
  induction h generalizing s with
  | nil => rfl
  | cons m t ih =>
    have h1 := stepE_ok s m ht (fun x hx => hm x (by rw [hx]; exact List.mem_cons_self))
    simp only [runE, h1]
    rw [ih _ (by rw [(step_frame s m).2.2]; exact ht) (fun x hx => hm x (List.mem_cons_of_mem _ hx))]
    rfl

/-! ## answers are not answered -/

/-- every datagram the handler sends, characterised -/
theorem mem_outs (s : St) (m : Option Msg) (o : Out) (ho : o ∈ (step s m).2.1) :
    (∃ x, m = some x ∧ o = .ack x ∧ x.pktType.isAck = false ∧ x.heartbeatClass = false) ∨
    (o = .heartbeat ∧ ∃ x, m = some x ∧ x.heartbeatClass = true ∧ s.connected = true) ∨
    (∃ x ip, m = some x ∧ x.request = some ip ∧ o = .rrsAnswer (nextSn s.sn) ip) := by
  cases m with
  | none => simp [step_none] at ho
  | some x =>
    rw [step_outs, stepBase_outs, List.mem_append] at ho
    rcases ho with ho | ho
    · replace ho := (St.send_sublist s _ o ho).1
      by_cases h1 : x.heartbeatClass = true
      · simp only [h1, if_true] at ho
        by_cases h2 : s.connected = true
        · simp only [h2, if_true, List.mem_singleton] at ho
          exact Or.inr (Or.inl ⟨ho, x, rfl, h1, h2⟩)
        · simp [h2] at ho
      · simp only [h1, Bool.false_eq_true, if_false] at ho
        by_cases h2 : x.pktType.isAck = true
        · simp [h2] at ho
        · simp only [h2, Bool.false_eq_true, if_false, List.mem_singleton] at ho
          exact Or.inl ⟨x, rfl, ho, by simpa using h2, by simpa using h1⟩
    · cases hr : x.request with
      | none => simp [hr] at ho
      | some ip =>
        simp only [hr] at ho
        replace ho := (St.send_sublist s _ o ho).1
        simp only [List.mem_singleton] at ho
        exact Or.inr (Or.inr ⟨x, ip, rfl, hr, ho⟩)

/-- nothing is sent without a transport -/
theorem step_outs_no_transport (s : St) (m : Option Msg) (h : s.transport = Option.none) :
    (step s m).2.1 = [] ∧ (stepBase s m).2.1 = [] := by
  cases m with
  | none => exact ⟨rfl, rfl⟩
  | some x =>
    rw [step_outs, stepBase_outs, St.send_of_none s h]
    cases x.request <;> simp [St.send_of_none s h]

/-- the acknowledgement of a message that is not heartbeat-class produces no output at a peer -/
theorem ack_unanswered (s' : St) (x : Msg) (hhb : x.heartbeatClass = false) :
    (step s' (Out.ack x).asMsg).2.1 = [] := by
  simp only [Out.asMsg]
  rw [step_outs, stepBase_outs]
  have h1 : ({ x with pktType := ackType x.pktType, payload := Payload.none } : Msg).heartbeatClass = false := by
    simpa [Msg.heartbeatClass, ackType] using hhb
  have h2 : ({ x with pktType := ackType x.pktType, payload := Payload.none } : Msg).pktType.isAck = true := rfl
  have h3 : ({ x with pktType := ackType x.pktType, payload := Payload.none } : Msg).request = Option.none := rfl
  rw [h1, h2, h3]
  simp

/-! ## configuration does not matter -/

/-- the state with the configuration attributes erased -/
def St.core (s : St) : St := { s with activePeer := false, port := 0 }

/-- the event with the value of a re-configuration erased -/
def Ev.core : Ev → Ev
  | .setActive _ => .setActive false
  | .setPort _ => .setPort 0
  | e => e

theorem stepBase_cfg (s : St) (a : Bool) (p : Nat) (m : Option Msg) :
    stepBase { s with activePeer := a, port := p } m =
      ({ (stepBase s m).1 with activePeer := a, port := p }, (stepBase s m).2) := by
  cases m with
  | none => rfl
  | some m =>
    obtain ⟨v, ⟨o, r, cl, co, hb, ak⟩, sn, ob, pl⟩ := m
    cases co <;> cases hb <;> cases cl <;> cases ak <;> cases r <;> simp [stepBase, St.send]

theorem step_cfg (s : St) (a : Bool) (p : Nat) (m : Option Msg) :
    step { s with activePeer := a, port := p } m =
      ({ (step s m).1 with activePeer := a, port := p }, (step s m).2) := by
  cases m with
  | none => rfl
  | some m =>
    obtain ⟨v, t, sn, ob, pl⟩ := m
    cases pl with
    | none => simp [step, stepBase_cfg]
    | other => simp [step, stepBase_cfg]
    | rrs op ip =>
      simp only [step, stepBase_cfg]
      by_cases h1 : op = opRequest
      · simp [h1, St.send]
      · by_cases h2 : op = opOffline
        · subst h2; simp [opOffline_ne_opRequest]
        · simp [h1, h2]

theorem stepK_cfg (k : Bool) (s : St) (a : Bool) (p : Nat) (m : Option Msg) :
    stepK k { s with activePeer := a, port := p } m =
      ({ (stepK k s m).1 with activePeer := a, port := p }, (stepK k s m).2) := by
  cases k
  · simp only [stepK, Bool.false_eq_true, if_false]; exact stepBase_cfg s a p m
  · simp only [stepK, if_true]; exact step_cfg s a p m

theorem St.core_eq (s : St) : s = { s.core with activePeer := s.activePeer, port := s.port } := rfl

/-- one event: outputs and the configuration-erased state depend only on the configuration-erased
state and event -/
theorem applyEv_core (k : Bool) (s s' : St) (e e' : Ev) (hs : s.core = s'.core) (he : e.core = e'.core) :
    (applyEv k s e).2 = (applyEv k s' e').2 ∧ (applyEv k s e).1.core = (applyEv k s' e').1.core := by
  have key : ∀ (u : St) (m : Option Msg),
      (stepK k u m).2 = (stepK k u.core m).2 ∧ (stepK k u m).1.core = (stepK k u.core m).1.core := by
    intro u m
    have h := stepK_cfg k u.core u.activePeer u.port m
    rw [← St.core_eq u] at h
    rw [h]
    exact ⟨rfl, rfl⟩
  cases e with
  | rx m =>
    cases e' with
    | rx m' =>
      have : m = m' := by simpa [Ev.core] using he
      subst this
      simp only [applyEv]
      rw [(key s m).1, (key s' m).1, (key s m).2, (key s' m).2, hs]
      exact ⟨rfl, rfl⟩
    | _ => simp [Ev.core] at he
  | made t c =>
    cases e' with
    | made t' c' =>
      have : t = t' ∧ c = c' := by simpa [Ev.core] using he
      obtain ⟨rfl, rfl⟩ := this
      simp only [applyEv, connectionMade]
      refine ⟨trivial, ?_⟩
      have := congrArg (fun u : St => ({ u with transport := some t } : St)) hs
      simpa [St.core] using this
    | _ => simp [Ev.core] at he
  | lost =>
    cases e' with
    | lost =>
      simp only [applyEv, connectionLost]
      refine ⟨trivial, ?_⟩
      have := congrArg (fun u : St => ({ u with connected := false } : St)) hs
      simpa [St.core] using this
    | _ => simp [Ev.core] at he
  | setActive b =>
    cases e' with
    | setActive b' => exact ⟨by simp [applyEv], by simpa [applyEv, St.core] using hs⟩
    | _ => simp [Ev.core] at he
  | setPort p =>
    cases e' with
    | setPort p' => exact ⟨by simp [applyEv], by simpa [applyEv, St.core] using hs⟩
    | _ => simp [Ev.core] at he
  | tick =>
    cases e' with
    | tick =>
      simp only [applyEv]
      refine ⟨?_, hs⟩
      have h1 : s.connected = s'.connected := by
        have := congrArg St.connected hs; simpa [St.core] using this
      have h2 : s.transport = s'.transport := by
        have := congrArg St.transport hs; simpa [St.core] using this
      simp [tick, St.send, h1, h2]
    | _ => simp [Ev.core] at he

theorem runEv_cons (k : Bool) (s : St) (e : Ev) (t : List Ev) :
    runEv k s (e :: t) = ((runEv k (applyEv k s e).1 t).1, (applyEv k s e).2 :: (runEv k (applyEv k s e).1 t).2) := rfl

theorem runEv_core (k : Bool) (s s' : St) (h h' : List Ev) (hs : s.core = s'.core)
    (hh : h.map Ev.core = h'.map Ev.core) :
    (runEv k s h).2 = (runEv k s' h').2 ∧ (runEv k s h).1.core = (runEv k s' h').1.core := by
  induction h generalizing s s' h' with
  | nil =>
    cases h' with
    | nil => exact ⟨rfl, hs⟩
    | cons _ _ => simp at hh
  | cons e t ih =>
    cases h' with
    | nil => simp at hh
    | cons e' t' =>
      simp only [List.map_cons, List.cons.injEq] at hh
      obtain ⟨h1, h2⟩ := applyEv_core k s s' e e' hs hh.1
      obtain ⟨h3, h4⟩ := ih _ _ t' h2 hh.2
      rw [runEv_cons, runEv_cons, h1, h3]
      exact ⟨rfl, h4⟩

/-! ## event histories -/

/-- connect (`some true`) / close or `connection_lost` (`some false`) / neither -/
def ccEv : Ev → Option Bool
  | .rx m => ccOf m
  | .lost => some false
  | _ => Option.none

theorem stepK_connected (k : Bool) (s : St) (m : Option Msg) :
    (stepK k s m).1.connected = (ccOf m).getD s.connected := by
  cases k
  · simp only [stepK, Bool.false_eq_true, if_false]
    rw [← step_connected, step_connected_cc]
  · simp only [stepK, if_true]; exact step_connected_cc s m

theorem applyEv_connected (k : Bool) (s : St) (e : Ev) :
    (applyEv k s e).1.connected = (ccEv e).getD s.connected := by
  cases e with
  | rx m => exact stepK_connected k s m
  | _ => rfl

theorem runEv_connected (k : Bool) (s : St) (h : List Ev) :
    (runEv k s h).1.connected = ((h.filterMap ccEv).getLast?).getD s.connected := by
  induction h generalizing s with
  | nil => rfl
  | cons e t ih =>
    rw [runEv_cons, ih, applyEv_connected]
    cases hc : ccEv e with
    | none => simp [hc]
    | some b => simp only [List.filterMap_cons, hc, Option.getD_some, getLast?_getD_cons]

/-- the datagrams of an event history -/
def rxOf : Ev → Option (Option Msg)
  | .rx m => some m
  | _ => Option.none

theorem applyEv_registry_sn (s : St) (e : Ev) :
    (applyEv true s e).1.registry = (match rxOf e with | some m => (step s m).1.registry | Option.none => s.registry) ∧
    (applyEv true s e).1.sn = (match rxOf e with | some m => (step s m).1.sn | Option.none => s.sn) := by
  cases e <;> exact ⟨rfl, rfl⟩

/-- registry and S/N after an event history = after its datagrams alone (RRS handler) -/
theorem runEv_registry_sn (s : St) (h : List Ev) :
    (runEv true s h).1.registry = (runFrom s (h.filterMap rxOf)).1.registry ∧
    (runEv true s h).1.sn = (runFrom s (h.filterMap rxOf)).1.sn := by
  have gen : ∀ (h : List Ev) (s s' : St), s.registry = s'.registry → s.sn = s'.sn →
      (runEv true s h).1.registry = (runFrom s' (h.filterMap rxOf)).1.registry ∧
      (runEv true s h).1.sn = (runFrom s' (h.filterMap rxOf)).1.sn := by
    intro h
    induction h with
    | nil => intro s s' h1 h2; exact ⟨h1, h2⟩
    | cons e t ih =>
      intro s s' h1 h2
      rw [runEv_cons]
      have hreg : ∀ (m : Option Msg), (step s m).1.registry = (step s' m).1.registry := by
        intro m; rw [step_registry, step_registry, h1]
      have hsn : ∀ (m : Option Msg), (step s m).1.sn = (step s' m).1.sn := by
        intro m
        cases m with
        | none => exact h2
        | some x => rw [step_sn, step_sn, h2]
      cases e with
      | rx m =>
        simp only [List.filterMap_cons, rxOf, runFrom_cons]
        exact ih _ _ (by simpa [applyEv, stepK] using hreg m) (by simpa [applyEv, stepK] using hsn m)
      | made t' c => simpa [List.filterMap_cons, rxOf] using ih _ s' (by simpa [applyEv, connectionMade] using h1) (by simpa [applyEv, connectionMade] using h2)
      | lost => simpa [List.filterMap_cons, rxOf] using ih _ s' (by simpa [applyEv, connectionLost] using h1) (by simpa [applyEv, connectionLost] using h2)
      | setActive b => simpa [List.filterMap_cons, rxOf] using ih _ s' (by simpa [applyEv] using h1) (by simpa [applyEv] using h2)
      | setPort p => simpa [List.filterMap_cons, rxOf] using ih _ s' (by simpa [applyEv] using h1) (by simpa [applyEv] using h2)
      | tick => simpa [List.filterMap_cons, rxOf] using ih _ s' (by simpa [applyEv] using h1) (by simpa [applyEv] using h2)
  exact gen h s s rfl rfl

/-- the base handler has no registry and never moves its S/N -/
theorem runEv_base_registry_sn (s : St) (h : List Ev) :
    (runEv false s h).1.registry = s.registry ∧ (runEv false s h).1.sn = s.sn := by
  induction h generalizing s with
  | nil => exact ⟨rfl, rfl⟩
  | cons e t ih =>
    rw [runEv_cons]
    obtain ⟨h1, h2⟩ := ih (applyEv false s e).1
    rw [h1, h2]
    cases e with
    | rx m => exact ⟨by simpa [applyEv, stepK] using stepBase_registry s m, by simpa [applyEv, stepK] using stepBase_sn s m⟩
    | _ => exact ⟨rfl, rfl⟩

/-- last re-configuration of `be_active_peer` in an event history -/
def activeEv : Ev → Option Bool
  | .setActive b => some b
  | _ => Option.none

theorem applyEv_active (k : Bool) (s : St) (e : Ev) :
    (applyEv k s e).1.activePeer = (activeEv e).getD s.activePeer := by
  cases e with
  | rx m =>
    cases k
    · simpa [applyEv, stepK, activeEv] using (stepBase_frame s m).1
    · simpa [applyEv, stepK, activeEv] using (step_frame s m).1
  | _ => rfl

theorem runEv_active (k : Bool) (s : St) (h : List Ev) :
    (runEv k s h).1.activePeer = ((h.filterMap activeEv).getLast?).getD s.activePeer := by
  induction h generalizing s with
  | nil => rfl
  | cons e t ih =>
    rw [runEv_cons, ih, applyEv_active]
    cases hc : activeEv e with
    | none => simp [hc]
    | some b => simp only [List.filterMap_cons, hc, Option.getD_some, getLast?_getD_cons]

end Dmr.HstrpHandler
